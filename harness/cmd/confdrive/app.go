// The application's reading of the configuration (tars/application.go: parseServerConfig, parseClientConfig),
// observed through the public API only:
//
//	confdrive app -in appdocs.ndjson -out apprecs.ndjson -dir scratch -seed S [-j N]
//	    every input line is an abstract document (JSON array of {t,k,v} lines enumerated by TLC from
//	    spec/Conf/Gen_AppConf.tla) or {"fixed":true,"lines":[...]} (replay).  Each is rendered to a file and a
//	    fresh child process is started with that file as its server configuration (the configuration is read
//	    once per process); one record per document.
//	confdrive app1 -conf file -out result.json
//	    the child: tars.ServerConfigPath = file; reports tars.GetServerConfig() / tars.GetClientConfig().
//
// The driver does not know what a setting should be: it prints the fields.
package main

import (
	"bufio"
	"bytes"
	"context"
	"encoding/json"
	"flag"
	"fmt"
	"math/rand"
	"os"
	"os/exec"
	"path/filepath"
	"sort"
	"strconv"
	"strings"
	"sync"
	"time"

	"github.com/TarsCloud/TarsGo/tars"
	"github.com/TarsCloud/TarsGo/tars/util/tools"

	"verifharness/internal/tr"
)

// Adapter is one entry of serverConfig.Adapters.
type Adapter struct {
	Name     string `json:"name"`
	Obj      string `json:"Obj"`
	Protocol string `json:"Protocol"`
	Threads  string `json:"Threads"`
}

// Transport is the transport configuration of one servant object (only with the hook, see app_hooks.go).
type Transport struct {
	Obj            string `json:"obj"`
	Proto          string `json:"Proto"`
	Address        string `json:"Address"`
	MaxInvoke      string `json:"MaxInvoke"`
	AcceptTimeout  string `json:"AcceptTimeout"`
	ReadTimeout    string `json:"ReadTimeout"`
	WriteTimeout   string `json:"WriteTimeout"`
	HandleTimeout  string `json:"HandleTimeout"`
	IdleTimeout    string `json:"IdleTimeout"`
	QueueCap       string `json:"QueueCap"`
	TCPReadBuffer  string `json:"TCPReadBuffer"`
	TCPWriteBuffer string `json:"TCPWriteBuffer"`
	TCPNoDelay     string `json:"TCPNoDelay"`
}

// AppObs is what the child reports.
type AppObs struct {
	Loaded    bool              `json:"loaded"` // tars.GetConf() != nil: the document was accepted
	Host      string            `json:"host"`
	Obs       map[string]string `json:"obs"`
	Adapters  []Adapter         `json:"adapters"`
	Hooked    bool              `json:"hooked"`
	Transport []Transport       `json:"transport"`
}

// AppRec is one judged observation.
type AppRec struct {
	Kind      string            `json:"kind"`
	ID        int               `json:"id"`
	Class     string            `json:"class"` // ok | err | panic
	Err       string            `json:"err"`
	Text      string            `json:"text"`
	Lines     []Line            `json:"lines"`
	Host      string            `json:"host"`
	Obs       map[string]string `json:"obs"`
	Adapters  []Adapter         `json:"adapters"`
	Hooked    bool              `json:"hooked"`
	Transport []Transport       `json:"transport"`
}

func ms(d time.Duration) string { return strconv.FormatInt(int64(d/time.Millisecond), 10) }

func cmdApp1(args []string) error {
	fs := flag.NewFlagSet("app1", flag.ExitOnError)
	cf := fs.String("conf", "", "server configuration file")
	out := fs.String("out", "", "result (json)")
	fs.Parse(args)
	tars.ServerConfigPath = *cf
	s := tars.GetServerConfig() // reads the file (once per process)
	c := tars.GetClientConfig()
	o := AppObs{Loaded: tars.GetConf() != nil, Host: tools.GetLocalIP(), Adapters: make([]Adapter, 0)}
	it, i32 := strconv.Itoa, func(v int32) string { return strconv.FormatInt(int64(v), 10) }
	o.Obs = map[string]string{
		"svr.Enableset": strconv.FormatBool(s.Enableset), "svr.Setdivision": s.Setdivision,
		"svr.Node": s.Node, "svr.App": s.App, "svr.Server": s.Server,
		"svr.LocalIP": s.LocalIP, "svr.NodeName": s.NodeName, "svr.Local": s.Local,
		"svr.LogPath": s.LogPath, "svr.LogNum": strconv.FormatUint(s.LogNum, 10), "svr.LogLevel": s.LogLevel,
		"svr.Config": s.Config, "svr.Notify": s.Notify, "svr.BasePath": s.BasePath, "svr.DataPath": s.DataPath, "svr.Log": s.Log,
		"svr.AcceptTimeout": ms(s.AcceptTimeout), "svr.ReadTimeout": ms(s.ReadTimeout), "svr.WriteTimeout": ms(s.WriteTimeout),
		"svr.HandleTimeout": ms(s.HandleTimeout), "svr.IdleTimeout": ms(s.IdleTimeout), "svr.ZombieTimeout": ms(s.ZombieTimeout),
		"svr.QueueCap": it(s.QueueCap), "svr.GracedownTimeout": ms(s.GracedownTimeout),
		"svr.TCPReadBuffer": it(s.TCPReadBuffer), "svr.TCPWriteBuffer": it(s.TCPWriteBuffer),
		"svr.TCPNoDelay": strconv.FormatBool(s.TCPNoDelay), "svr.MaxInvoke": i32(s.MaxInvoke),
		"svr.PropertyReportInterval": ms(s.PropertyReportInterval), "svr.StatReportInterval": ms(s.StatReportInterval),
		"svr.MainLoopTicker": ms(s.MainLoopTicker), "svr.StatReportChannelBufLen": i32(s.StatReportChannelBufLen),
		"svr.MaxPackageLength": it(s.MaxPackageLength),
		"svr.SampleRate":       fmtFloat(s.SampleRate), "svr.SampleType": s.SampleType, "svr.SampleAddress": s.SampleAddress,
		"svr.SampleEncoding": s.SampleEncoding,
		"clt.Locator":        c.Locator, "clt.Stat": c.Stat, "clt.Property": c.Property, "clt.ModuleName": c.ModuleName,
		"clt.AsyncInvokeTimeout": it(c.AsyncInvokeTimeout), "clt.RefreshEndpointInterval": it(c.RefreshEndpointInterval),
		"clt.ReportInterval": it(c.ReportInterval), "clt.CheckStatusInterval": it(c.CheckStatusInterval),
		"clt.KeepAliveInterval": it(c.KeepAliveInterval), "clt.ClientQueueLen": it(c.ClientQueueLen),
		"clt.ClientIdleTimeout": ms(c.ClientIdleTimeout), "clt.ClientReadTimeout": ms(c.ClientReadTimeout),
		"clt.ClientWriteTimeout": ms(c.ClientWriteTimeout), "clt.ClientDialTimeout": ms(c.ClientDialTimeout),
		"clt.ReqDefaultTimeout": i32(c.ReqDefaultTimeout), "clt.ObjQueueMax": i32(c.ObjQueueMax),
		"clt.context.node_name": c.Context()["node_name"],
	}
	for n, a := range s.Adapters {
		o.Adapters = append(o.Adapters, Adapter{Name: n, Obj: a.Obj, Protocol: a.Protocol, Threads: it(a.Threads)})
	}
	sort.Slice(o.Adapters, func(i, j int) bool { return o.Adapters[i].Name < o.Adapters[j].Name })
	o.Hooked, o.Transport = hooked, transportConfs()
	b, err := json.Marshal(o)
	if err != nil {
		return err
	}
	if err := os.WriteFile(*out, b, 0o600); err != nil {
		return err
	}
	os.Exit(0) // nothing the process started in the background is waited for
	return nil
}

func cmdApp(args []string) error {
	fs := flag.NewFlagSet("app", flag.ExitOnError)
	in := fs.String("in", "", "abstract documents (ndjson)")
	out := fs.String("out", "", "records (ndjson)")
	dir := fs.String("dir", "", "scratch directory (one sub-directory per document)")
	seed := fs.Int64("seed", 1, "seed of the rendering variants")
	par := fs.Int("j", 6, "children at a time")
	fs.Parse(args)
	f, err := os.Open(*in)
	if err != nil {
		return err
	}
	defer f.Close()
	self, err := os.Executable()
	if err != nil {
		return err
	}
	if *dir, err = filepath.Abs(*dir); err != nil {
		return err
	}
	var recs []*AppRec
	sc := bufio.NewScanner(f)
	sc.Buffer(make([]byte, 1<<20), 1<<26)
	for sc.Scan() {
		raw := sc.Bytes()
		if len(raw) == 0 {
			continue
		}
		rec := &AppRec{Kind: "app", ID: len(recs) + 1, Obs: map[string]string{}, Adapters: make([]Adapter, 0),
			Transport: make([]Transport, 0)}
		r := rand.New(rand.NewSource(*seed*1000003 + int64(rec.ID)))
		if raw[0] == '{' {
			var fd fixedDoc
			if err := json.Unmarshal(raw, &fd); err != nil {
				return fmt.Errorf("doc %d: %v", rec.ID, err)
			}
			rec.Lines = fd.Lines
		} else {
			if err := json.Unmarshal(raw, &rec.Lines); err != nil {
				return fmt.Errorf("doc %d: %v", rec.ID, err)
			}
			layout(rec.Lines, r, "")
		}
		rec.Text = render(rec.Lines)
		recs = append(recs, rec)
	}
	if err := sc.Err(); err != nil {
		return err
	}
	var wg sync.WaitGroup
	sem := make(chan struct{}, *par)
	errs := make([]error, len(recs))
	for i := range recs {
		wg.Add(1)
		sem <- struct{}{}
		go func(i int) {
			defer wg.Done()
			defer func() { <-sem }()
			errs[i] = runChild(self, filepath.Join(*dir, strconv.Itoa(i+1)), recs[i])
		}(i)
	}
	wg.Wait()
	for _, e := range errs {
		if e != nil {
			return e
		}
	}
	w, err := tr.Create(*out)
	if err != nil {
		return err
	}
	for _, rec := range recs {
		if err := w.Write(rec); err != nil {
			return err
		}
	}
	return w.Close()
}

// runChild starts one process on one document.  A returned error is a failure of the harness (never an outcome).
func runChild(self, d string, rec *AppRec) error {
	if err := os.MkdirAll(d, 0o700); err != nil {
		return err
	}
	cf, of := filepath.Join(d, "server.conf"), filepath.Join(d, "out.json")
	if err := os.WriteFile(cf, []byte(rec.Text), 0o600); err != nil {
		return err
	}
	var lastErr error
	panics := 0
	for attempt := 0; attempt < 3; attempt++ { // a child killed by the time limit on a loaded machine is started again
		ctx, cancel := context.WithTimeout(context.Background(), 60*time.Second)
		cmd := exec.CommandContext(ctx, self, "app1", "-conf", cf, "-out", of)
		cmd.Dir = d
		var eb bytes.Buffer
		cmd.Stdout, cmd.Stderr = nil, &eb
		err := cmd.Run()
		timedOut := ctx.Err() != nil
		cancel()
		if timedOut {
			lastErr = fmt.Errorf("document %d: child did not finish in 60 s", rec.ID)
			continue
		}
		if err != nil {
			es := eb.String()
			if strings.Contains(es, "panic:") || strings.Contains(es, "goroutine ") {
				if len(es) > 400 {
					es = es[:400]
				}
				if panics++; panics < 2 { // a panic is an outcome of the document only if it happens again
					lastErr = fmt.Errorf("document %d: child panicked once, not again: %s", rec.ID, es)
					continue
				}
				rec.Class, rec.Err = "panic", es
				return nil
			}
			return fmt.Errorf("document %d: child failed: %v: %s", rec.ID, err, es)
		}
		b, err := os.ReadFile(of)
		if err != nil {
			return err
		}
		var o AppObs
		if err := json.Unmarshal(b, &o); err != nil {
			return err
		}
		rec.Host, rec.Obs, rec.Adapters, rec.Hooked, rec.Transport = o.Host, o.Obs, o.Adapters, o.Hooked, o.Transport
		rec.Class = "ok"
		if !o.Loaded {
			rec.Class, rec.Err = "err", "the application did not load the document (tars.GetConf() is nil)"
		}
		os.RemoveAll(d)
		return nil
	}
	return lastErr
}
