//go:build c17hooks

package main

// Built with the tag c17hooks when /repo carries tars/verif_export_conf.go (patches/C17-hooks.diff): the
// transport configuration computed per servant object while the server configuration was read.

import (
	"sort"
	"strconv"

	"github.com/TarsCloud/TarsGo/tars"
)

const hooked = true

func transportConfs() []Transport {
	out := make([]Transport, 0)
	for obj, c := range tars.VerifServerConfs() {
		out = append(out, Transport{Obj: obj, Proto: c.Proto, Address: c.Address,
			MaxInvoke: strconv.FormatInt(int64(c.MaxInvoke), 10), AcceptTimeout: ms(c.AcceptTimeout), ReadTimeout: ms(c.ReadTimeout),
			WriteTimeout: ms(c.WriteTimeout), HandleTimeout: ms(c.HandleTimeout), IdleTimeout: ms(c.IdleTimeout),
			QueueCap: strconv.Itoa(c.QueueCap), TCPReadBuffer: strconv.Itoa(c.TCPReadBuffer), TCPWriteBuffer: strconv.Itoa(c.TCPWriteBuffer),
			TCPNoDelay: strconv.FormatBool(c.TCPNoDelay)})
	}
	sort.Slice(out, func(i, j int) bool { return out[i].Obj < out[j].Obj })
	return out
}
