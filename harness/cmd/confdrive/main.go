// confdrive drives the real tars/util/conf package for check C17.
//
//	confdrive docs -in docs.ndjson -out recs.ndjson -seed S
//	    every input line is an abstract document (JSON array of {t,k,v} lines, as enumerated by TLC from
//	    spec/Conf/Gen_Conf.tla) or an object {"fixed":true,"api":..,"lines":[...]} whose lines already carry
//	    their spacing (replay).  Each document is rendered to text (blanks / line ends chosen by seed),
//	    parsed by the real package and queried with every getter on every path; one record per document.
//	confdrive fuzz -n N -seed S -out fuzz.ndjson -inputs fuzz.hex [-sample file] [-texts recs.ndjson] [-hexin file]
//	    random and mutated byte strings: only the outcome class (ok / err / panic) is recorded.
//
//	confdrive app | app1: the application's reading of its configuration, see app.go.
//
// The driver does not know the meaning of a document: it only writes text, calls the package and records.
package main

import (
	"bufio"
	"encoding/hex"
	"encoding/json"
	"flag"
	"fmt"
	"math/rand"
	"os"
	"sort"
	"strconv"
	"strings"

	"github.com/TarsCloud/TarsGo/tars/util/conf"

	"verifharness/internal/tr"
)

// Line is an abstract line plus, once rendered, the blanks written around its tokens.
type Line struct {
	T     string `json:"t"`
	K     string `json:"k"`
	V     string `json:"v"`
	Lead  string `json:"lead"`
	Pre   string `json:"pre"`
	Post  string `json:"post"`
	Trail string `json:"trail"`
	Eol   string `json:"eol"`
}

// Entry is everything observed at one domain path (only recorded when it differs from the all-default observation).
type Entry struct {
	P     []string        `json:"p"`
	Subs  []string        `json:"subs"`
	Keys  []string        `json:"keys"`
	Lines []string        `json:"lines"`
	Map   [][]string      `json:"map"`
	G     [][]interface{} `json:"g"` // [key, [8 getter results]]
	// what the eight scalar getters say about <domain><> (the key whose name is empty); asked only in documents
	// that contain a line with an empty key ("= v"), recorded for the oracle's observations, never judged
	Ek []string `json:"ek"`
}

// Rec is one judged observation.
type Rec struct {
	Kind  string   `json:"kind"`
	ID    int      `json:"id"`
	API   string   `json:"api"`
	Class string   `json:"class"` // ok | err | panic
	Err   string   `json:"err"`
	Text  string   `json:"text"`
	Lines []Line   `json:"lines"`
	Names []string `json:"names"`
	Keys  []string `json:"keys"`
	Depth int      `json:"depth"`
	Q     []Entry  `json:"q"`
	// second observation: the same questions asked again after the caller changed every value it had
	// received the first time (Mut names what it did); a configuration answers the same again
	Mut string  `json:"mut"`
	Q2  []Entry `json:"q2"`
	// what two holders of "the same" listing saw after each appended to its own (not judged: observation)
	Shared []string `json:"shared"`

	askEmptyKey bool // the document has a line with an empty key
}

const (
	defStr   = "<D>"
	defInt   = 77
	defFloat = 7.5
)

var absentRes = []string{"", defStr, "0", "77", "77", "true", "false", "7.5"}

var blanks = []string{"", " ", "  ", "\t", " \t", "\t\t ", "    "}

func main() {
	if len(os.Args) < 2 {
		fmt.Fprintln(os.Stderr, "usage: confdrive docs|fuzz [flags]")
		os.Exit(2)
	}
	var err error
	switch os.Args[1] {
	case "docs":
		err = cmdDocs(os.Args[2:])
	case "fuzz":
		err = cmdFuzz(os.Args[2:])
	case "app":
		err = cmdApp(os.Args[2:])
	case "app1":
		err = cmdApp1(os.Args[2:])
	default:
		err = fmt.Errorf("unknown subcommand %s", os.Args[1])
	}
	if err != nil {
		fmt.Fprintln(os.Stderr, "confdrive:", err)
		os.Exit(3)
	}
}

// expand replaces the symbolic values of the enumeration by the real ones.
func expand(v string) string {
	switch v {
	case "@LONG":
		return strings.Repeat("v", 70000) // longer than any fixed 64 KiB line buffer
	case "@CTL":
		return "x\x01y"
	}
	return v
}

func pick(r *rand.Rand) string { return blanks[r.Intn(len(blanks))] }

// layout chooses the blanks and line ends of a document (mode "": by seed; "plain": no blanks; "inline": every
// optional line break at a tag left out, blanks by seed).
func layout(lines []Line, r *rand.Rand, mode string) {
	plain := r.Intn(4) == 0
	if mode != "" {
		plain = mode == "plain"
	}
	eol := "\n"
	if !plain && r.Intn(6) == 0 {
		eol = "\r\n"
	}
	for i := range lines {
		l := &lines[i]
		l.V = expand(l.V)
		l.Eol = eol
		if plain {
			continue
		}
		l.Lead, l.Trail = pick(r), pick(r)
		switch l.T {
		case "kv", "hos":
			l.Pre, l.Post = pick(r), pick(r)
		case "nokey":
			l.Post = pick(r)
		}
	}
	if len(lines) > 0 && (r.Intn(4) == 0 || mode == "inline") {
		lines[len(lines)-1].Eol = ""
	}
	// inline layout: tags delimit themselves, so a line break is optional after a tag and before a tag
	// (<a>k=v</a>, <a><b>, </b></a>); chosen for a fifth of the documents, per line with p = 1/2
	if r.Intn(5) == 0 || mode == "inline" {
		for i := range lines {
			tag := lines[i].T == "open" || lines[i].T == "close"
			nextTag := i+1 < len(lines) && (lines[i+1].T == "open" || lines[i+1].T == "close")
			if (tag || nextTag) && (r.Intn(2) == 0 || mode == "inline") {
				lines[i].Eol = ""
				if !tag {
					lines[i].Trail = "" // keep the value's end at the tag
				}
			}
		}
	}
}

func body(l Line) string {
	switch l.T {
	case "open":
		return "<" + l.K + ">"
	case "close":
		return "</" + l.K + ">"
	case "kv", "hos":
		return l.K + l.Pre + "=" + l.Post + l.V
	case "key":
		return l.K
	case "nokey":
		return "=" + l.Post + l.V
	case "comment", "hcomment":
		return "#" + l.V
	}
	return ""
}

func render(lines []Line) string {
	var b strings.Builder
	for _, l := range lines {
		b.WriteString(l.Lead)
		b.WriteString(body(l))
		b.WriteString(l.Trail)
		b.WriteString(l.Eol)
	}
	return b.String()
}

func parse(api, text string) (c *conf.Conf, class, errs string) {
	defer func() {
		if p := recover(); p != nil {
			class, errs = "panic", fmt.Sprint(p)
		}
	}()
	c = conf.New()
	var err error
	switch api {
	case "bytes":
		parsedBytes = []byte(text)
		err = c.InitFromBytes(parsedBytes)
	case "file": // the way tars/application.go reads the server configuration
		var nc *conf.Conf
		if nc, err = conf.NewConf(scratchFile); err == nil {
			c = nc
		}
	default:
		err = c.InitFromString(text)
	}
	if err != nil {
		return c, "err", err.Error()
	}
	return c, "ok", ""
}

var scratchFile string

// parsedBytes is the buffer last given to InitFromBytes (the caller's own storage).
var parsedBytes []byte

func sorted(s []string) []string {
	out := append(make([]string, 0, len(s)), s...)
	sort.Strings(out)
	return out
}

func fmtFloat(f float64) string { return strconv.FormatFloat(f, 'g', -1, 64) }

func eqs(a, b []string) bool {
	if len(a) != len(b) {
		return false
	}
	for i := range a {
		if a[i] != b[i] {
			return false
		}
	}
	return true
}

// getters asks all eight scalar getters for one key of one domain.
func getters(c *conf.Conf, path string) []string {
	return []string{
		c.GetString(path),
		c.GetStringWithDef(path, defStr),
		strconv.Itoa(c.GetInt(path)),
		strconv.Itoa(c.GetIntWithDef(path, defInt)),
		strconv.FormatInt(int64(c.GetInt32WithDef(path, defInt)), 10),
		strconv.FormatBool(c.GetBoolWithDef(path, true)),
		strconv.FormatBool(c.GetBoolWithDef(path, false)),
		fmtFloat(c.GetFloatWithDef(path, defFloat)),
	}
}

// allPaths: every sequence over names of length 0..depth.
func allPaths(names []string, depth int) [][]string {
	out := [][]string{{}}
	level := [][]string{{}}
	for d := 0; d < depth; d++ {
		var next [][]string
		for _, p := range level {
			for _, n := range names {
				q := append(append(make([]string, 0, len(p)+1), p...), n)
				next = append(next, q)
			}
		}
		out = append(out, next...)
		level = next
	}
	return out
}

// query records what every getter says about every path; both documented spellings of a path are used.
//
// What the getters hand out is kept (held), so that the caller can afterwards change it the way a caller may
// change any value it owns.
func query(c *conf.Conf, rec *Rec, r *rand.Rand, held *holdings) (q []Entry, class, errs string) {
	defer func() {
		if p := recover(); p != nil {
			class, errs = "panic", "getter: "+fmt.Sprint(p)
		}
	}()
	q = make([]Entry, 0)
	for _, p := range allPaths(rec.Names, rec.Depth) {
		dom := "/" + strings.Join(p, "/")
		domQ := dom
		if len(p) > 0 && r.Intn(2) == 0 {
			domQ = dom + "/" // "/A/B/C/" is documented as equivalent
		}
		e := Entry{P: append(make([]string, 0), p...), Map: make([][]string, 0), G: make([][]interface{}, 0)}
		subs, keys, lines := c.GetDomain(domQ), c.GetDomainKey(domQ), c.GetDomainLine(domQ)
		e.Subs = sorted(subs)
		e.Keys = sorted(keys)
		e.Lines = append(make([]string, 0), lines...)
		m := c.GetMap(domQ)
		if held != nil {
			held.lists = append(held.lists, heldList{"GetDomain", domQ, subs}, heldList{"GetDomainKey", domQ, keys},
				heldList{"GetDomainLine", domQ, lines})
			held.maps = append(held.maps, m)
		}
		mk := make([]string, 0, len(m))
		for k := range m {
			mk = append(mk, k)
		}
		sort.Strings(mk)
		for _, k := range mk {
			e.Map = append(e.Map, []string{k, m[k]})
		}
		for _, k := range rec.Keys {
			var kp string
			if len(p) == 0 {
				kp = "/<" + k + ">"
			} else if r.Intn(2) == 0 {
				kp = dom + "<" + k + ">"
			} else {
				kp = dom + "/<" + k + ">"
			}
			g := getters(c, kp)
			if !eqs(g, absentRes) {
				e.G = append(e.G, []interface{}{k, g})
			}
		}
		e.Ek = make([]string, 0)
		if rec.askEmptyKey && len(p) > 0 {
			e.Ek = getters(c, dom+"<>")
		}
		if len(e.Subs)+len(e.Keys)+len(e.Lines)+len(e.Map)+len(e.G) > 0 {
			q = append(q, e)
		}
	}
	return q, "", ""
}

type heldList struct {
	getter, path string
	s            []string
}

// holdings: every listing and map one pass of questions received.
type holdings struct {
	lists []heldList
	maps  []map[string]string
}

var mutations = []string{"sort-descending", "overwrite-elements", "reuse-from-start", "clear"}

// mutate does to the received values what a caller is free to do to a value it owns.
func (h *holdings) mutate(kind string) {
	for i := range h.lists {
		s := h.lists[i].s
		switch kind {
		case "sort-descending": // a caller that wants the listing ordered (here: the order least likely to be the written one)
			sort.Sort(sort.Reverse(sort.StringSlice(s)))
			if len(s) > 0 && sort.StringsAreSorted(s) { // all equal: make it visible anyway
				s[0] = "~" + s[0]
			}
		case "overwrite-elements": // a caller that rewrites the entries in place (strips the value, say)
			for j := range s {
				s[j] = "~" + strings.SplitN(s[j], "=", 2)[0]
			}
		case "reuse-from-start": // a caller that filters in place / reuses the storage for something else
			s = append(s[:0], "~intruder")
			_ = s
		case "clear":
			for j := range s {
				s[j] = ""
			}
		}
	}
	for _, m := range h.maps {
		switch kind {
		case "clear", "reuse-from-start":
			for k := range m {
				delete(m, k)
			}
			m["~intruder"] = "~"
		default:
			for k := range m {
				m[k] = "~" + m[k]
			}
			m["k1"], m["k2"] = "~", "~"
		}
	}
}

// shared: two callers take the same listing and each appends an element of its own to what it got; reports
// the holders whose own last element is no longer theirs (getter@path).
func shared(c *conf.Conf, rec *Rec) (out []string) {
	out = make([]string, 0)
	defer func() {
		if p := recover(); p != nil {
			out = append(out, "panic: "+fmt.Sprint(p))
		}
	}()
	for _, e := range rec.Q {
		dom := "/" + strings.Join(e.P, "/")
		for _, g := range []struct {
			name string
			get  func(string) []string
		}{{"GetDomain", c.GetDomain}, {"GetDomainKey", c.GetDomainKey}, {"GetDomainLine", c.GetDomainLine}} {
			a, b := g.get(dom), g.get(dom)
			a = append(a, "~of-A")
			b = append(b, "~of-B")
			if a[len(a)-1] != "~of-A" || b[len(b)-1] != "~of-B" {
				out = append(out, g.name+"@"+dom)
			}
		}
	}
	return out
}

type fixedDoc struct {
	Fixed bool   `json:"fixed"` // the lines carry their spacing (replay); otherwise Lay names the layout to apply
	Lay   string `json:"lay"`
	API   string `json:"api"`
	Mut   string `json:"mut"`
	Lines []Line `json:"lines"`
}

func cmdDocs(args []string) error {
	fs := flag.NewFlagSet("docs", flag.ExitOnError)
	in := fs.String("in", "", "abstract documents (ndjson)")
	out := fs.String("out", "", "records (ndjson)")
	seed := fs.Int64("seed", 1, "seed of the rendering variants")
	mut := fs.String("mut", "", "what the caller does to the values it received before it asks again (default: by seed)")
	fs.Parse(args)
	f, err := os.Open(*in)
	if err != nil {
		return err
	}
	defer f.Close()
	w, err := tr.Create(*out)
	if err != nil {
		return err
	}
	scratchFile = *out + ".scratch.conf"
	defer os.Remove(scratchFile)
	sc := bufio.NewScanner(f)
	sc.Buffer(make([]byte, 1<<20), 1<<28)
	id := 0
	for sc.Scan() {
		raw := sc.Bytes()
		if len(raw) == 0 {
			continue
		}
		id++
		r := rand.New(rand.NewSource(*seed*1000003 + int64(id)))
		rec := Rec{Kind: "doc", ID: id}
		forced := *mut
		if raw[0] == '{' {
			var fd fixedDoc
			if err := json.Unmarshal(raw, &fd); err != nil {
				return fmt.Errorf("doc %d: %v", id, err)
			}
			rec.Lines, rec.API = fd.Lines, fd.API
			if fd.Mut != "" {
				forced = fd.Mut
			}
			if !fd.Fixed {
				layout(rec.Lines, r, fd.Lay)
				rec.API = []string{"string", "bytes", "string", "bytes", "file"}[r.Intn(5)]
			}
		} else {
			if err := json.Unmarshal(raw, &rec.Lines); err != nil {
				return fmt.Errorf("doc %d: %v", id, err)
			}
			layout(rec.Lines, r, "")
			rec.API = []string{"string", "bytes", "string", "bytes", "file"}[r.Intn(5)]
		}
		rec.Text = render(rec.Lines)
		// what to ask: every path over the names written in the document, as deep as there are opens; every key written
		names, keys := map[string]bool{}, map[string]bool{"k1": true, "k2": true}
		opens := 0
		for _, l := range rec.Lines {
			switch l.T {
			case "open":
				opens++
				names[l.K] = true
			case "close":
				names[l.K] = true
			case "kv", "hos", "key":
				keys[l.K] = true
			case "nokey":
				rec.askEmptyKey = true
			}
		}
		for n := range names {
			rec.Names = append(rec.Names, n)
		}
		for k := range keys {
			rec.Keys = append(rec.Keys, k)
		}
		if rec.Names == nil {
			rec.Names = []string{}
		}
		sort.Strings(rec.Names)
		sort.Strings(rec.Keys)
		rec.Depth = opens
		if rec.Depth < 1 {
			rec.Depth = 1
		}
		if rec.Depth > 4 {
			rec.Depth = 4
		}
		if rec.API == "file" { // written here: an I/O problem of the harness must never look like an outcome of the parser
			if err := os.WriteFile(scratchFile, []byte(rec.Text), 0o600); err != nil {
				return err
			}
		}
		c, class, errs := parse(rec.API, rec.Text)
		rec.Class, rec.Err = class, errs
		rec.Q, rec.Q2, rec.Shared = make([]Entry, 0), make([]Entry, 0), make([]string, 0)
		if class == "ok" {
			// the spelling of the paths is the same in both passes (own generator, same seed)
			ps := r.Int63()
			held := &holdings{}
			q, qc, qe := query(c, &rec, rand.New(rand.NewSource(ps)), held)
			if qc == "" {
				rec.Q = q
				rec.Shared = shared(c, &rec)
				rec.Mut = mutations[r.Intn(len(mutations))]
				if forced != "" {
					rec.Mut = forced
				}
				held.mutate(rec.Mut)
				if rec.API == "bytes" && parsedBytes != nil { // the caller's buffer is the caller's, too
					for j := range parsedBytes {
						parsedBytes[j] = '<'
					}
				}
				if rec.API == "file" {
					os.WriteFile(scratchFile, []byte("<gone>k1=~</gone>"), 0o600)
				}
				var q2 []Entry
				if q2, qc, qe = query(c, &rec, rand.New(rand.NewSource(ps)), nil); qc == "" {
					rec.Q2 = q2
				}
			}
			if qc != "" {
				rec.Class, rec.Err, rec.Q, rec.Q2 = qc, qe, make([]Entry, 0), make([]Entry, 0)
			}
		}
		if err := w.Write(rec); err != nil {
			return err
		}
	}
	if err := sc.Err(); err != nil {
		return err
	}
	return w.Close()
}

// ---------------------------------------------------------------- arbitrary bytes

type fuzzRec struct {
	Kind  string `json:"kind"`
	ID    int    `json:"id"`
	Gen   string `json:"gen"`
	N     int    `json:"n"`
	Class string `json:"class"`
	Err   string `json:"err"`
}

var weirdPaths = []string{"", "/", "<", "<>", "//", "/<", "/a/<", "/a<k1", "/a<k1><k2>", "a", "/app<k1>", "/app/", "/app//<k1>", "<<k1>>"}

func fuzzOne(api string, input []byte, r *rand.Rand) (class, errs string) {
	defer func() {
		if p := recover(); p != nil {
			class, errs = "panic", fmt.Sprint(p)
		}
	}()
	c := conf.New()
	var err error
	if api == "bytes" {
		err = c.InitFromBytes(input)
	} else {
		err = c.InitFromString(string(input))
	}
	// whatever the outcome, the object must stay usable
	for _, p := range weirdPaths {
		c.GetString(p)
		c.GetInt(p)
		c.GetDomain(p)
		c.GetDomainKey(p)
		c.GetDomainLine(p)
		c.GetMap(p)
	}
	for _, d := range c.GetDomain("/") {
		c.GetDomainKey("/" + d)
		c.GetMap("/" + d + "/")
	}
	_ = c.ToString()
	if err != nil {
		return "err", err.Error()
	}
	return "ok", ""
}

func mutate(src []byte, r *rand.Rand) []byte {
	b := append([]byte(nil), src...)
	xmlish := []byte("<>/=&#;!?-[]\"' \n\t\r\x00\xff")
	for n := 1 + r.Intn(3); n > 0; n-- {
		if len(b) == 0 {
			b = append(b, xmlish[r.Intn(len(xmlish))])
			continue
		}
		i := r.Intn(len(b))
		switch r.Intn(5) {
		case 0:
			b[i] = byte(r.Intn(256))
		case 1:
			b[i] = xmlish[r.Intn(len(xmlish))]
		case 2:
			b = append(b[:i], b[i+1:]...)
		case 3:
			b = append(b[:i], append([]byte{xmlish[r.Intn(len(xmlish))]}, b[i:]...)...)
		case 4:
			b = b[:i]
		}
	}
	return b
}

func cmdFuzz(args []string) error {
	fs := flag.NewFlagSet("fuzz", flag.ExitOnError)
	n := fs.Int("n", 1000, "number of inputs")
	seed := fs.Int64("seed", 1, "seed")
	out := fs.String("out", "", "records (ndjson)")
	inputs := fs.String("inputs", "", "the inputs, hex, one per line")
	sample := fs.String("sample", "", "a real configuration file to mutate")
	texts := fs.String("texts", "", "records of the docs run whose texts are mutated too")
	hexin := fs.String("hexin", "", "replay: take the inputs from this file (hex, one per line) instead of generating them")
	fs.Parse(args)
	var given [][]byte
	if *hexin != "" {
		b, err := os.ReadFile(*hexin)
		if err != nil {
			return err
		}
		for _, l := range strings.Split(string(b), "\n") {
			if l = strings.TrimSpace(l); l == "" {
				continue
			}
			in, err := hex.DecodeString(l)
			if err != nil {
				return err
			}
			given = append(given, in)
		}
		*n = len(given)
	}
	var corpus [][]byte
	if *sample != "" {
		b, err := os.ReadFile(*sample)
		if err != nil {
			return err
		}
		corpus = append(corpus, b)
	}
	if *texts != "" {
		f, err := os.Open(*texts)
		if err != nil {
			return err
		}
		sc := bufio.NewScanner(f)
		sc.Buffer(make([]byte, 1<<20), 1<<28)
		for sc.Scan() && len(corpus) < 400 {
			var rec struct {
				Text string `json:"text"`
			}
			if json.Unmarshal(sc.Bytes(), &rec) == nil && len(rec.Text) > 0 && len(rec.Text) < 4096 {
				corpus = append(corpus, []byte(rec.Text))
			}
		}
		f.Close()
	}
	w, err := tr.Create(*out)
	if err != nil {
		return err
	}
	hf, err := os.Create(*inputs)
	if err != nil {
		return err
	}
	hw := bufio.NewWriter(hf)
	r := rand.New(rand.NewSource(*seed))
	alpha := []byte("<>/=&#;!?-[]\"' \n\tabk1")
	for i := 1; i <= *n; i++ {
		var in []byte
		gen := ""
		switch k := r.Intn(4); {
		case given != nil:
			gen = "given"
			in = given[i-1]
		case k == 0:
			gen = "bytes"
			in = make([]byte, r.Intn(49))
			r.Read(in)
		case k == 1:
			gen = "xmlish"
			in = make([]byte, r.Intn(41))
			for j := range in {
				in[j] = alpha[r.Intn(len(alpha))]
			}
		case k == 2 && len(corpus) > 0:
			gen = "mutated"
			in = mutate(corpus[r.Intn(len(corpus))], r)
		default:
			gen = "tags"
			toks := []string{"<a>", "</a>", "<b>", "</b>", "k=v\n", "<!--", "-->", "<![CDATA[", "]]>", "<?", "?>", "<a/>", "<a x='1'>", "&amp;", "&#x0;", "&", "\n", "<", ">", "<!DOCTYPE a [", "]>"}
			for j := r.Intn(9); j > 0; j-- {
				in = append(in, toks[r.Intn(len(toks))]...)
			}
		}
		api := []string{"string", "bytes"}[r.Intn(2)]
		class, errs := fuzzOne(api, in, r)
		if len(errs) > 120 {
			errs = errs[:120]
		}
		if err := w.Write(fuzzRec{Kind: "fuzz", ID: i, Gen: gen, N: len(in), Class: class, Err: errs}); err != nil {
			return err
		}
		hw.WriteString(hex.EncodeToString(in))
		hw.WriteByte('\n')
	}
	if err := hw.Flush(); err != nil {
		return err
	}
	hf.Close()
	return w.Close()
}
