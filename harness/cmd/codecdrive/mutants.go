package main

import (
	"flag"
	"fmt"
	"math/rand"
	"path/filepath"
	"reflect"
	"runtime"
	"sort"
	"strconv"
	"strings"
	"time"

	"github.com/TarsCloud/TarsGo/tars/protocol/codec"
	"verifharness/internal/tr"
)

func init() { cmds["mutants"] = mutantsCmd }

type decRec struct {
	K      string      `json:"k"`   // "dec": into a fresh struct; "decr": into a reused (pre-filled) struct
	Cls    string      `json:"cls"` // corpus class
	S      string      `json:"s"`
	Bytes  []int       `json:"bytes"`
	Ok     bool        `json:"ok"`
	Dec    interface{} `json:"dec"`
	Panic  string      `json:"panic"`
	Alloc  int64       `json:"alloc"`
	HasVal bool        `json:"hasval"`
	Val    interface{} `json:"val"`
	FOk    bool        `json:"fok"`  // decr only: what the fresh decode of the same bytes gave
	FDec   interface{} `json:"fdec"` // decr only
	Note   string      `json:"note,omitempty"`
}

var memBefore, memAfter runtime.MemStats

// decodeFresh runs ReadFrom on a new struct.
func decodeFresh(name string, b []byte, measure bool) (ok bool, dec interface{}, pnc string, alloc int64) {
	st := registry[name]()
	var err error
	if measure {
		runtime.ReadMemStats(&memBefore)
	}
	pnc = safely(func() { err = st.ReadFrom(codec.NewReader(b)) })
	if measure {
		runtime.ReadMemStats(&memAfter)
		alloc = int64(memAfter.TotalAlloc - memBefore.TotalAlloc)
	}
	ok = err == nil && pnc == ""
	dec = []int{}
	if ok {
		dec = canon(reflect.ValueOf(st))
	}
	return
}

func decodeReuse(rng *rand.Rand, name string, b []byte) (ok bool, dec interface{}, pnc string) {
	st := registry[name]()
	fill(rng, reflect.ValueOf(st).Elem(), 0)
	var err error
	pnc = safely(func() { err = st.ReadFrom(codec.NewReader(b)) })
	ok = err == nil && pnc == ""
	dec = []int{}
	if ok {
		dec = canon(reflect.ValueOf(st))
	}
	return
}

type sink struct {
	w     worker
	ws    []*tr.Writer
	n     int
	seen  map[string]struct{}
	rng   *rand.Rand
	cnt   map[string]int
	hangs int
}

func (s *sink) emit(cls, name string, b []byte, val interface{}, reuse bool, note string) {
	s.emitShown(cls, name, b, b, val, reuse, note)
}

// emitShown decodes b with the real decoder but shows the reference `shown` instead: used where b is `shown` plus unknown
// fields too large for TLC (the harness' own builder vouches for their well-formedness; the note says what was added)
func (s *sink) emitShown(cls, name string, b, shown []byte, val interface{}, reuse bool, note string) {
	key := name + "|" + string(b)
	if _, dup := s.seen[key]; dup {
		return
	}
	s.seen[key] = struct{}{}
	s.cnt[cls]++
	if s.hangs >= 6 {
		return // the decoder hangs on this tree: enough evidence, do not spend the budget waiting
	}
	to := 3 * time.Second
	if len(b) > 1<<16 {
		to = 60 * time.Second
	}
	rs, died, err := s.w.call(wReq{S: name, B: b64(b), Reuse: reuse, Seed: s.rng.Int63()}, to)
	if err != nil {
		panic(err)
	}
	if strings.HasPrefix(died, "hang") {
		s.hangs++
	}
	if died != "" { // the process would have died: recorded like a panic, with the runtime's message
		rs.Panic, rs.RPanic = died, died
	}
	r := decRec{K: "dec", Cls: cls, S: name, Bytes: ints(shown), Ok: rs.Ok, Dec: rs.Dec, Panic: rs.Panic, Alloc: rs.Alloc, Val: []int{}, FDec: []int{}, Note: note}
	if val != nil {
		r.HasVal, r.Val = true, val
	}
	s.ws[s.n%len(s.ws)].Write(r)
	s.n++
	if reuse {
		r2 := decRec{K: "decr", Cls: cls, S: name, Bytes: r.Bytes, Ok: rs.ROk, Dec: rs.RDec, Panic: rs.RPanic, Val: r.Val, HasVal: r.HasVal, FOk: rs.Ok, FDec: rs.Dec, Note: note}
		s.ws[s.n%len(s.ws)].Write(r2)
		s.n++
	}
}

func schemaTags(t reflect.Type) (tags map[int]bool) {
	tags = map[int]bool{}
	for i := 0; i < t.NumField(); i++ {
		for _, part := range strings.Split(t.Field(i).Tag.Get("tars"), ",") {
			if strings.HasPrefix(part, "tag:") {
				n, _ := strconv.Atoi(part[4:])
				tags[n] = true
			}
		}
	}
	return
}

var wireName = []string{"BYTE", "SHORT", "INT", "LONG", "FLOAT", "DOUBLE", "STRING1", "STRING4", "MAP", "LIST", "STRUCT", "STRUCTEND", "ZERO", "SIMPLELIST"}
var allWire = []int{tBYTE, tSHORT, tINT, tLONG, tFLOAT, tDOUBLE, tSTR1, tSTR4, tMAP, tLIST, tSB, tZERO, tSL}

// defaultsOf: every struct-typed member, vector element and map value reset to its declared defaults (structs whose members
// are all optional are then empty bodies on the wire); containers get one such element
func defaultsIn(v reflect.Value, depth int) {
	if depth > 4 {
		return
	}
	switch v.Kind() {
	case reflect.Struct:
		if v.CanAddr() {
			if ts, ok := v.Addr().Interface().(tarsStruct); ok {
				ts.ResetDefault()
			}
		}
		for i := 0; i < v.NumField(); i++ {
			if v.Field(i).CanSet() {
				defaultsIn(v.Field(i), depth+1)
			}
		}
	case reflect.Slice:
		ek := v.Type().Elem().Kind()
		if ek == reflect.Struct {
			v.Set(reflect.MakeSlice(v.Type(), 2, 2))
			for i := 0; i < v.Len(); i++ {
				defaultsIn(v.Index(i), depth+1)
			}
		}
	case reflect.Map:
		if v.Type().Elem().Kind() == reflect.Struct {
			m := reflect.MakeMap(v.Type())
			k := reflect.New(v.Type().Key()).Elem()
			e := reflect.New(v.Type().Elem()).Elem()
			defaultsIn(e, depth+1)
			m.SetMapIndex(k, e)
			v.Set(m)
		}
	}
}

func mutantsFor(s *sink, name string, classes map[string]bool, capPer int) {
	mutantsForValue(s, name, classes, capPer, false)
}

func mutantsForValue(s *sink, name string, classes map[string]bool, capPer int, defaults bool) {
	rng := s.rng
	mk := registry[name]
	v := mk()
	if defaults {
		defaultsIn(reflect.ValueOf(v).Elem(), 0)
	} else {
		fill(rng, reflect.ValueOf(v).Elem(), 0)
	}
	val := canon(reflect.ValueOf(v))
	buf := codec.NewBuffer()
	if err := v.WriteTo(buf); err != nil {
		return
	}
	b := append([]byte(nil), buf.ToBytes()...)
	var lens []lenPos
	spans, err := split(b, &lens)
	if err != nil {
		// the harness' own splitter disagrees with the encoder: let the oracle see the plain bytes
		s.emit("valid", name, b, val, true, "harness splitter: "+err.Error())
		return
	}
	s.emit("valid", name, b, val, true, "")
	tags := schemaTags(reflect.TypeOf(v).Elem())

	if classes["extra"] {
		for k := 0; k < 3; k++ {
			// 1..3 unknown fields with distinct unused tags, merged in tag order
			type fld struct {
				tag int
				b   []byte
			}
			var fl []fld
			for _, sp := range spans {
				fl = append(fl, fld{sp.Tag, b[sp.Start:sp.End]})
			}
			used := map[int]bool{}
			for n := 1 + rng.Intn(3); n > 0; n-- {
				t := rng.Intn(256)
				if rng.Intn(3) == 0 {
					t = rng.Intn(20)
				}
				if tags[t] || used[t] {
					continue
				}
				used[t] = true
				fl = append(fl, fld{t, mkField(rng, allWire[rng.Intn(len(allWire))], t, 2)})
			}
			if len(used) == 0 {
				continue
			}
			sort.SliceStable(fl, func(a, c int) bool { return fl[a].tag < fl[c].tag })
			var nb []byte
			for _, f := range fl {
				nb = append(nb, f.b...)
			}
			s.emit("extra", name, nb, val, true, "")
		}
		// one large unknown field: a list of 10050 empty structs, then the same again inside one more list (skipping it takes
		// more than ten thousand struct skips in one reader); the reference is shown the encoding without it
		for _, t := range []int{250, 17, 3} {
			if tags[t] {
				continue
			}
			big := append(mkHead(tLIST, t), mkCount(10050)...)
			for i := 0; i < 10050; i++ {
				big = append(big, mkHead(tSB, 0)...)
				big = append(big, mkHead(11, 0)...) // StructEnd
			}
			var nb []byte
			done := false
			for _, sp := range spans {
				if !done && sp.Tag > t {
					nb = append(nb, big...)
					done = true
				}
				nb = append(nb, b[sp.Start:sp.End]...)
			}
			if !done {
				nb = append(nb, big...)
			}
			s.emitShown("extra", name, nb, b, val, false, "big-unknown-list-of-10050-structs")
			break
		}
	}
	if classes["absent"] {
		for i, sp := range spans {
			if i >= capPer {
				break
			}
			nb := append(append([]byte(nil), b[:sp.Start]...), b[sp.End:]...)
			s.emit("absent", name, nb, nil, true, "")
		}
		// ... and one member of a struct-typed member removed: the last members of the nested struct (nothing but the
		// StructEnd behind the gap), then an earlier one
		nested := 0
		for _, sp := range spans {
			if sp.Ty != tSB || nested >= capPer || sp.End-1 <= sp.Body {
				continue
			}
			inner := b[sp.Body : sp.End-1]
			isp, err := split(inner, nil)
			if err != nil || len(isp) == 0 {
				continue
			}
			nested++
			for j := len(isp) - 1; j >= 0 && j >= len(isp)-3; j-- {
				nb := append(append([]byte(nil), b[:sp.Body+isp[j].Start]...), b[sp.Body+isp[j].End:]...)
				s.emit("absent", name, nb, nil, true, "nested")
			}
		}
	}
	if classes["prefix"] {
		cuts := map[int]bool{}
		if len(b) <= 48 {
			for i := 0; i < len(b); i++ {
				cuts[i] = true
			}
		} else {
			for _, sp := range spans {
				for _, c := range []int{sp.Start, sp.Start + 1, sp.Body, sp.Body + 1, sp.End - 1} {
					if c >= 0 && c < len(b) {
						cuts[c] = true
					}
				}
			}
			for i := 0; i < 24; i++ {
				cuts[rng.Intn(len(b))] = true
			}
		}
		for c := range cuts {
			// where does the cut fall?  (names the failing class in signatures)
			where := "at-field-boundary"
			for _, sp := range spans {
				if c > sp.Start && c < sp.End {
					if c < sp.Body {
						where = "inside-head"
					} else {
						where = "inside-" + wireName[sp.Ty]
					}
				}
			}
			s.emit("prefix", name, b[:c], nil, false, where)
		}
	}
	if classes["inflate"] {
		for i, lp := range lens {
			if i >= capPer {
				break
			}
			rem := len(b) - lp.End
			var news []int64
			switch lp.Kind {
			case "str1":
				news = []int64{int64(lp.N + 1), int64(rem + 1), 255}
			case "str4":
				news = []int64{int64(lp.N + 1), int64(rem + 1), 1<<31 - 1, 1<<32 - 1, 1 << 31}
			default:
				news = []int64{int64(lp.N + 1), int64(rem + 1), 1<<31 - 1, -1, -(1 << 31), int64(lp.N + 1000)}
			}
			if lp.N > 0 {
				news = append(news, int64(lp.N-1))
			}
			if lp.Kind == "str1" {
				// the same string announced by a 4-byte length (STRING4 is admissible for every string): its own length (a valid
				// alternative encoding), one more than remains, and lengths with the top bit set, which are the ones a
				// narrowing to a signed 32-bit integer turns negative
				h := lp.Start - 1
				if lp.Start >= 2 && b[lp.Start-2] == 0xF0|tSTR1 && b[lp.Start-1] >= 15 {
					h = lp.Start - 2
				}
				if h >= 0 && int(b[h]&0x0f) == tSTR1 {
					for _, nv := range []int64{int64(lp.N), int64(rem + 1), 1 << 31, 1<<31 + int64(lp.N), 1<<32 - 1, 1<<32 - 2} {
						nb := append([]byte(nil), b[:lp.Start]...)
						nb[h] = nb[h]&0xf0 | byte(tSTR4)
						nb = append(nb, byte(nv>>24), byte(nv>>16), byte(nv>>8), byte(nv))
						nb = append(nb, b[lp.End:]...)
						s.emit("inflate", name, nb, nil, false, "str1->str4")
					}
				}
			}
			for _, nv := range news {
				var enc []byte
				switch lp.Kind {
				case "str1":
					if nv > 255 || nv == int64(lp.N) {
						continue
					}
					enc = []byte{byte(nv)}
				case "str4":
					enc = []byte{byte(nv >> 24), byte(nv >> 16), byte(nv >> 8), byte(nv)}
				default:
					enc = mkCount(nv)
				}
				nb := append(append(append([]byte(nil), b[:lp.Start]...), enc...), b[lp.End:]...)
				s.emit("inflate", name, nb, nil, false, lp.Kind)
			}
		}
	}
	if classes["subst"] {
		for i, sp := range spans {
			if i >= capPer {
				break
			}
			for _, ty := range allWire {
				if ty == sp.Ty {
					continue
				}
				nf := mkField(rng, ty, sp.Tag, 1)
				nb := append(append(append([]byte(nil), b[:sp.Start]...), nf...), b[sp.End:]...)
				s.emit("subst", name, nb, nil, false, wireName[sp.Ty]+"->"+wireName[ty])
			}
		}
	}
	if classes["garbage"] {
		for k := 0; k < 4; k++ {
			nb := append([]byte(nil), b...)
			if len(nb) > 0 {
				for f := 1 + rng.Intn(2); f > 0; f-- {
					nb[rng.Intn(len(nb))] = byte(rng.Intn(256))
				}
			}
			s.emit("garbage", name, nb, nil, false, "byte flip")
		}
		g := make([]byte, rng.Intn(40))
		rng.Read(g)
		s.emit("garbage", name, g, nil, false, "random")
	}
}

func mutantsCmd(args []string) error {
	fs := flag.NewFlagSet("mutants", flag.ExitOnError)
	seed := fs.Int64("seed", 1, "seed")
	out := fs.String("out", ".", "output directory")
	nsh := fs.Int("shards", 8, "shard files")
	per := fs.Int("per", 3, "values per struct type")
	capPer := fs.Int("cap", 6, "fields / lengths mutated per value")
	cls := fs.String("classes", "extra,absent,prefix,inflate,subst,garbage", "corpus classes")
	only := fs.String("only", "", "comma separated struct name prefixes (default all)")
	extra := fs.String("extra", "", "comma separated registry names outside the generated set (tup.Attr)")
	fs.Parse(args)
	classes := map[string]bool{}
	for _, c := range strings.Split(*cls, ",") {
		classes[c] = true
	}
	s := &sink{seen: map[string]struct{}{}, rng: rand.New(rand.NewSource(*seed)), cnt: map[string]int{}}
	for i := 0; i < *nsh; i++ {
		w, err := tr.Create(filepath.Join(*out, fmt.Sprintf("mut_%02d.ndjson", i)))
		if err != nil {
			return err
		}
		s.ws = append(s.ws, w)
	}
	names := append([]string(nil), regOrder...)
	genSet := map[string]struct{}{}
	for _, n := range regOrder {
		genSet[n] = struct{}{}
	}
	if *extra != "" {
		names = append(names, strings.Split(*extra, ",")...)
	}
	for _, name := range names {
		if *only != "" {
			match := false
			for _, p := range strings.Split(*only, ",") {
				if strings.HasPrefix(name, p) {
					match = true
				}
			}
			if !match {
				continue
			}
		}
		n := *per
		if _, generated := genSet[name]; !generated && n < 24 {
			n = 24 // the pseudo structs have one member: more values instead
		}
		for i := 0; i < n; i++ {
			mutantsFor(s, name, classes, *capPer)
		}
		mutantsForValue(s, name, classes, *capPer, true) // once with every nested struct at its defaults
	}
	for _, w := range s.ws {
		if err := w.Close(); err != nil {
			return err
		}
	}
	s.w.stop()
	fmt.Println(s.n, len(s.seen), s.w.Deaths, s.cnt)
	return nil
}
