package main

// Crash-isolated decoding: the corpus builder (parent) never decodes hostile bytes itself.  It sends
// them to a worker child (same binary, "decode-worker") that runs under an address-space limit; a
// child that dies (fatal error: out of memory / stack overflow) or does not answer in time is recorded
// as such for the input in flight and restarted.

import (
	"bufio"
	"bytes"
	"encoding/base64"
	"encoding/json"
	"fmt"
	"io"
	"math/rand"
	"os"
	"os/exec"
	"strings"
	"syscall"
	"time"
)

func init() { cmds["decode-worker"] = workerMain }

type wReq struct {
	S     string `json:"s"`
	B     string `json:"b"`
	Reuse bool   `json:"reuse"`
	Seed  int64  `json:"seed"`
	Entry string `json:"entry"` // "" = ReadFrom of struct S; other entry points are registered in entries
}
type wResp struct {
	Ok     bool        `json:"ok"`
	Dec    interface{} `json:"dec"`
	Panic  string      `json:"panic"`
	Alloc  int64       `json:"alloc"`
	ROk    bool        `json:"rok"`
	RDec   interface{} `json:"rdec"`
	RPanic string      `json:"rpanic"`
	// Ms: wall time of the decoding inside the worker (the shorter of two runs when the first was slow)
	Ms int64 `json:"ms"`
}

// slowMs: decoding an input of at most 64 KiB does a few thousand steps; two runs in a row that both take longer than this
// are work that is not bounded by the input (a loop over an announced length, for instance), reported like a hang
const slowMs = 2000

// entries: extra decode entry points (name -> func(bytes) (ok bool, panic string)), filled by other files.
var entries = map[string]func(b []byte) (bool, string){}

const asLimit = 6 << 30 // bytes of address space for the worker

func workerMain(args []string) error {
	lim := syscall.Rlimit{Cur: asLimit, Max: asLimit}
	_ = syscall.Setrlimit(syscall.RLIMIT_AS, &lim)
	in := bufio.NewReaderSize(os.Stdin, 1<<20)
	out := bufio.NewWriter(os.Stdout)
	for {
		line, err := in.ReadBytes('\n')
		if len(line) > 0 {
			var rq wReq
			if e := json.Unmarshal(line, &rq); e != nil {
				return e
			}
			b, _ := base64.StdEncoding.DecodeString(rq.B)
			var rs wResp
			rs.Dec, rs.RDec = []int{}, []int{}
			once := func() error {
				if rq.Entry != "" {
					f := entries[rq.Entry]
					if f == nil {
						return fmt.Errorf("unknown entry %q", rq.Entry)
					}
					rs.Ok, rs.Panic = f(b)
				} else {
					rs.Ok, rs.Dec, rs.Panic, rs.Alloc = decodeFresh(rq.S, b, true)
				}
				return nil
			}
			t0 := time.Now()
			if e := once(); e != nil {
				return e
			}
			rs.Ms = time.Since(t0).Milliseconds()
			if rs.Ms > slowMs && len(b) <= 1<<16 && rs.Panic == "" {
				t1 := time.Now()
				_ = once()
				if ms := time.Since(t1).Milliseconds(); ms < rs.Ms {
					rs.Ms = ms
				}
				if rs.Ms > slowMs {
					rs.Panic = fmt.Sprintf("hang: decoding %d bytes took %d ms twice in a row (work not bounded by the input)", len(b), rs.Ms)
				}
			}
			if rq.Entry == "" && rq.Reuse {
				rs.ROk, rs.RDec, rs.RPanic = decodeReuse(rand.New(rand.NewSource(rq.Seed)), rq.S, b)
			}
			js, _ := json.Marshal(rs)
			out.Write(js)
			out.WriteByte('\n')
			out.Flush()
		}
		if err != nil {
			return nil
		}
	}
}

type worker struct {
	cmd    *exec.Cmd
	in     io.WriteCloser
	out    *bufio.Reader
	errBuf *bytes.Buffer
	Deaths int
	// Retried counts requests that got no answer in time and were repeated on a fresh worker
	Retried int
}

func (w *worker) start() error {
	w.cmd = exec.Command(os.Args[0], "decode-worker")
	w.cmd.Env = append(os.Environ(), "GOTRACEBACK=single")
	var err error
	if w.in, err = w.cmd.StdinPipe(); err != nil {
		return err
	}
	so, err := w.cmd.StdoutPipe()
	if err != nil {
		return err
	}
	w.out = bufio.NewReaderSize(so, 1<<20)
	w.errBuf = &bytes.Buffer{}
	w.cmd.Stderr = w.errBuf
	return w.cmd.Start()
}

func (w *worker) stop() {
	if w.cmd != nil {
		w.in.Close()
		_ = w.cmd.Process.Kill()
		_ = w.cmd.Wait()
		w.cmd = nil
	}
}

// call sends one request; died != "" names how the worker died ("fatal: ...", "hang").
// call runs one request in the worker.  A missing answer is only a hang if it is missing again on a fresh worker with a
// much longer timeout: a loaded machine, a worker that was still starting or one busy collecting garbage is not a hang.
func (w *worker) call(rq wReq, timeout time.Duration) (rs wResp, died string, err error) {
	rs, died, err = w.callOnce(rq, timeout)
	if err == nil && strings.HasPrefix(died, "hang:") {
		long := 4 * timeout
		if long < 30*time.Second {
			long = 30 * time.Second
		}
		w.Deaths--
		w.Retried++
		rs, died, err = w.callOnce(rq, long)
	}
	return
}

func (w *worker) callOnce(rq wReq, timeout time.Duration) (rs wResp, died string, err error) {
	if w.cmd == nil {
		if err = w.start(); err != nil {
			return
		}
	}
	js, _ := json.Marshal(rq)
	type res struct {
		line []byte
		err  error
	}
	ch := make(chan res, 1)
	go func() {
		if _, e := w.in.Write(append(js, '\n')); e != nil {
			ch <- res{nil, e}
			return
		}
		l, e := w.out.ReadBytes('\n')
		ch <- res{l, e}
	}()
	select {
	case r := <-ch:
		if r.err == nil {
			err = json.Unmarshal(r.line, &rs)
			return
		}
		// the worker died: first line of its stderr says why
		_ = w.cmd.Wait()
		msg := w.errBuf.String()
		first := msg
		if i := strings.IndexByte(msg, '\n'); i >= 0 {
			first = msg[:i]
		}
		if first == "" {
			first = "worker exited: " + w.cmd.ProcessState.String()
		}
		w.cmd = nil
		w.Deaths++
		rs.Dec, rs.RDec = []int{}, []int{}
		return rs, "fatal: " + first + " @" + siteOf(msg), nil
	case <-time.After(timeout):
		w.stop()
		w.Deaths++
		rs.Dec, rs.RDec = []int{}, []int{}
		return rs, "hang: no answer within " + timeout.String(), nil
	}
}

func b64(b []byte) string { return base64.StdEncoding.EncodeToString(b) }
