package main

import (
	"flag"
	"fmt"
	"math/rand"
	"path/filepath"
	"reflect"
	"runtime/debug"
	"strings"

	"github.com/TarsCloud/TarsGo/tars/protocol/codec"
	"verifharness/internal/tr"
)

func init() { cmds["structs"] = structsCmd }

type encRec struct {
	K     string      `json:"k"`
	S     string      `json:"s"`
	Val   interface{} `json:"val"`
	Bytes []int       `json:"bytes"`
	WErr  bool        `json:"werr"`
	DecOk bool        `json:"dec_ok"`
	Dec   interface{} `json:"dec"`
	Tag   int         `json:"tag"`
	Panic string      `json:"panic,omitempty"`
}

type blockRW interface {
	WriteBlock(buf *codec.Buffer, tag byte) error
	ReadBlock(readBuf *codec.Reader, tag byte, require bool) error
}

// safely runs f, converting a panic into a string
func safely(f func()) (p string) {
	defer func() {
		if r := recover(); r != nil {
			p = fmt.Sprint(r) + " @" + siteOf(string(debug.Stack()))
		}
	}()
	f()
	return ""
}

func encodeOne(rng *rand.Rand, name string) []encRec {
	mk := registry[name]
	v := mk()
	fill(rng, reflect.ValueOf(v).Elem(), 0)
	val := canon(reflect.ValueOf(v))
	var out []encRec
	// WriteTo / ReadFrom into a fresh struct
	rec := encRec{K: "enc", S: name, Val: val, Dec: []int{}}
	buf := codec.NewBuffer()
	var werr error
	rec.Panic = safely(func() { werr = v.WriteTo(buf) })
	rec.WErr = werr != nil
	b := append([]byte(nil), buf.ToBytes()...)
	rec.Bytes = ints(b)
	fresh := mk()
	var rerr error
	if p := safely(func() { rerr = fresh.ReadFrom(codec.NewReader(b)) }); p != "" {
		rec.Panic += "|read:" + p
	}
	rec.DecOk = rerr == nil
	if rec.DecOk && rec.Panic == "" {
		rec.Dec = canon(reflect.ValueOf(fresh))
	}
	out = append(out, rec)
	// WriteBlock / ReadBlock under a random tag
	if bw, ok := v.(blockRW); ok && rng.Intn(3) == 0 {
		tag := byte([]int{0, 1, 14, 15, 16, 200, 255}[rng.Intn(7)])
		r2 := encRec{K: "encblk", S: name, Val: val, Dec: []int{}, Tag: int(tag)}
		buf2 := codec.NewBuffer()
		r2.Panic = safely(func() { werr = bw.WriteBlock(buf2, tag) })
		r2.WErr = werr != nil
		b2 := append([]byte(nil), buf2.ToBytes()...)
		r2.Bytes = ints(b2)
		fresh2 := mk()
		if p := safely(func() { rerr = fresh2.(blockRW).ReadBlock(codec.NewReader(b2), tag, true) }); p != "" {
			r2.Panic += "|read:" + p
		}
		r2.DecOk = rerr == nil
		if r2.DecOk && r2.Panic == "" {
			r2.Dec = canon(reflect.ValueOf(fresh2))
		}
		out = append(out, r2)
	}
	return out
}

func structsCmd(args []string) error {
	fs := flag.NewFlagSet("structs", flag.ExitOnError)
	seed := fs.Int64("seed", 1, "seed")
	out := fs.String("out", ".", "output directory")
	nsh := fs.Int("shards", 8, "shard files")
	per := fs.Int("per", 30, "values per struct type")
	fs.Parse(args)
	rng := rand.New(rand.NewSource(*seed))
	var ws []*tr.Writer
	for i := 0; i < *nsh; i++ {
		w, err := tr.Create(filepath.Join(*out, fmt.Sprintf("enc_%02d.ndjson", i)))
		if err != nil {
			return err
		}
		ws = append(ws, w)
	}
	n := 0
	seen := map[string]struct{}{}
	for _, name := range regOrder {
		for i := 0; i < *per; i++ {
			for _, r := range encodeOne(rng, name) {
				ws[n%len(ws)].Write(r)
				n++
				seen[fmt.Sprint(r.K, r.S, r.Tag, r.Bytes)] = struct{}{}
			}
		}
	}
	for _, w := range ws {
		if err := w.Close(); err != nil {
			return err
		}
	}
	fmt.Println(n, len(seen), len(regOrder))
	return nil
}

// siteOf names the kind of code that panicked / died, from a goroutine stack dump: the first frame that is
// neither the Go runtime nor this harness.
func siteOf(stack string) string {
	for _, line := range strings.Split(stack, "\n") {
		if line == "" || line[0] == '\t' || strings.HasPrefix(line, "goroutine ") || strings.Contains(line, ": ") ||
			!strings.Contains(line, "(") || line[0] == '[' {
			continue
		}
		fn := line
		if i := strings.LastIndex(fn, "("); i > 0 {
			fn = fn[:i]
		}
		switch {
		case strings.HasPrefix(fn, "runtime.") || strings.HasPrefix(fn, "runtime/") || strings.HasPrefix(fn, "main.") ||
			strings.HasPrefix(fn, "panic") || strings.HasPrefix(fn, "reflect.") || strings.HasPrefix(fn, "created by"):
			continue
		case strings.Contains(fn, "tars/protocol/codec."):
			return "codec-runtime"
		case strings.Contains(fn, "tars/protocol/tup."):
			return "tup"
		case strings.HasSuffix(fn, ").ReadFrom") || strings.HasSuffix(fn, ").ReadBlock"):
			return "generated-decoder"
		default:
			return fn
		}
	}
	return "unknown"
}
