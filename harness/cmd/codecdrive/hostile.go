package main

import (
	"bytes"
	"flag"
	"fmt"
	"math/rand"
	"path/filepath"
	"strings"
	"time"

	"github.com/TarsCloud/TarsGo/tars/protocol/codec"
	"github.com/TarsCloud/TarsGo/tars/protocol/tup"
	"verifharness/internal/tr"
)

func init() {
	cmds["hostile"] = hostileCmd
	entries["tup"] = func(b []byte) (ok bool, pnc string) {
		var err error
		pnc = safely(func() { err = tup.NewUniAttribute().Decode(codec.NewReader(b)) })
		return err == nil && pnc == "", pnc
	}
}

// reduced alphabet: heads of every wire type at tags 0, 1, 15(extended marker), and length-ish bytes
func alphabet() []byte {
	seen := map[byte]bool{}
	var a []byte
	add := func(x byte) {
		if !seen[x] {
			seen[x] = true
			a = append(a, x)
		}
	}
	for _, tag := range []int{0, 1, 15} {
		for ty := 0; ty <= 13; ty++ {
			add(byte(tag<<4 | ty))
		}
	}
	for _, x := range []byte{0, 1, 2, 0x7f, 0x80, 0xff} {
		add(x)
	}
	return a
}

type bigRec struct {
	K     string `json:"k"`
	Cls   string `json:"cls"`
	S     string `json:"s"`
	Desc  string `json:"desc"`
	BLen  int    `json:"blen"`
	Ok    bool   `json:"ok"`
	Panic string `json:"panic"`
	Alloc int64  `json:"alloc"`
	Ms    int64  `json:"ms"`
}

func hostileCmd(args []string) error {
	fs := flag.NewFlagSet("hostile", flag.ExitOnError)
	seed := fs.Int64("seed", 1, "seed")
	out := fs.String("out", ".", "output directory")
	nsh := fs.Int("shards", 8, "shard files for the enumerated small strings")
	alen := fs.Int("alen", 3, "enumerate every string up to this length over the reduced alphabet")
	nrand := fs.Int("rand", 3000, "random strings over the alphabet (length 4..12) per struct")
	maxNest := fs.Int("nest", 200000, "largest nesting depth / repetition for the scaled patterns")
	deep := fs.Int("deep", 0, "one extra probe of every pattern at this depth on the first struct type (0: none)")
	structs := fs.String("structs", "Vt.Opts,Vt.Inner,requestf.RequestPacket,requestf.ResponsePacket", "struct types decoded")
	fs.Parse(args)
	s := &sink{seen: map[string]struct{}{}, rng: rand.New(rand.NewSource(*seed)), cnt: map[string]int{}}
	for i := 0; i < *nsh; i++ {
		w, err := tr.Create(filepath.Join(*out, fmt.Sprintf("mut_%02d.ndjson", i)))
		if err != nil {
			return err
		}
		s.ws = append(s.ws, w)
	}
	names := strings.Split(*structs, ",")
	al := alphabet()
	// outcomes that are not judged by the reference (other entry points, inputs too large for TLC)
	bw, err := tr.Create(filepath.Join(*out, "big.ndjson"))
	if err != nil {
		return err
	}
	nbig := 0
	// (i) exhaustive small strings
	var rec func(prefix []byte)
	rec = func(prefix []byte) {
		for _, n := range names {
			s.emit("alpha", n, prefix, nil, false, "")
		}
		if len(prefix) >= *alen {
			return
		}
		for _, c := range al {
			rec(append(append([]byte(nil), prefix...), c))
		}
	}
	rec(nil)
	// random longer strings over the same alphabet
	for i := 0; i < *nrand; i++ {
		b := make([]byte, 4+s.rng.Intn(9))
		for k := range b {
			b[k] = al[s.rng.Intn(len(al))]
		}
		for _, n := range names {
			s.emit("alpha-random", n, b, nil, false, "")
		}
	}
	// skipped fields (unknown low tag) whose embedded length is a small negative number, after 0..3 leading fields:
	// a reader that trusts it moves backwards
	for k := 1; k <= 16; k++ {
		for lead := 0; lead <= 3; lead++ {
			for _, ty := range []int{tSL, tLIST, tMAP, tSTR4} {
				var b []byte
				for i := 0; i < lead; i++ {
					b = append(b, mkHead(tZERO, 0)...)
				}
				b = append(b, mkHead(ty, 0)...)
				switch ty {
				case tSL:
					b = append(append(b, mkHead(tBYTE, 0)...), mkCount(int64(-k))...)
				case tSTR4:
					b = append(b, 0xff, 0xff, 0xff, byte(256-k))
				default:
					b = append(b, mkCount(int64(-k))...)
				}
				b = append(b, mkHead(tZERO, 1)...)
				for _, n := range names {
					s.emit("neg-length", n, b, nil, false, wireName[ty])
				}
				rs, died, _ := s.w.call(wReq{Entry: "tup", B: b64(b)}, 20*time.Second)
				if died != "" {
					rs.Panic = died
				}
				bw.Write(bigRec{K: "entry", Cls: "neg-length", S: "tup", Desc: fmt.Sprint(b), BLen: len(b), Ok: rs.Ok, Panic: rs.Panic})
				nbig++
			}
		}
	}
	// TUP attribute maps that announce far more entries than follow (with 0, 1 or 2 well-formed entries)
	for _, cnt := range []int64{1<<31 - 1, 1 << 30, 1 << 26, 1 << 20, 70000, 3} {
		for entriesN := 0; entriesN <= 2; entriesN++ {
			b := append(mkHead(tMAP, 0), mkCount(cnt)...)
			for i := 0; i < entriesN; i++ {
				b = append(b, mkHead(6, 0)...) // string1 key
				b = append(b, 1, byte('a'+i))
				b = append(b, mkHead(tSL, 1)...)
				b = append(append(b, mkHead(tBYTE, 0)...), mkCount(2)...)
				b = append(b, 0x0c, 0x0c)
			}
			for _, tail := range [][]byte{nil, {0x0c}, {0x16, 0x00}} {
				bb := append(append([]byte(nil), b...), tail...)
				rs, died, _ := s.w.call(wReq{Entry: "tup", B: b64(bb)}, 20*time.Second)
				if died != "" {
					rs.Panic = died
				}
				bw.Write(bigRec{K: "entry", Cls: "announced-length", S: "tup", Desc: fmt.Sprint(bb), BLen: len(bb), Ok: rs.Ok, Panic: rs.Panic, Ms: rs.Ms})
				nbig++
			}
		}
	}
	// TUP attribute values (byte vectors) that announce a negative or far too large length, as 1st and as 2nd entry
	for _, vlen := range []int64{-1, -2, -128, -(1 << 31), 1<<31 - 1, 1 << 24, 70000, 5} {
		for pre := 0; pre <= 1; pre++ {
			b := append(mkHead(tMAP, 0), mkCount(int64(pre+1))...)
			for i := 0; i <= pre; i++ {
				b = append(b, mkHead(6, 0)...)
				b = append(b, 1, byte('a'+i))
				b = append(b, mkHead(tSL, 1)...)
				b = append(b, mkHead(tBYTE, 0)...)
				if i == pre {
					b = append(b, mkCount(vlen)...)
					b = append(b, 1, 2, 3)
				} else {
					b = append(append(b, mkCount(2)...), 0x0c, 0x0c)
				}
			}
			rs, died, _ := s.w.call(wReq{Entry: "tup", B: b64(b)}, 20*time.Second)
			if died != "" {
				rs.Panic = died
			}
			bw.Write(bigRec{K: "entry", Cls: "value-length", S: "tup", Desc: fmt.Sprint(b), BLen: len(b), Ok: rs.Ok, Panic: rs.Panic, Ms: rs.Ms})
			nbig++
		}
	}
	// (iv) plain random bytes
	for i := 0; i < *nrand; i++ {
		b := make([]byte, s.rng.Intn(64))
		s.rng.Read(b)
		for _, n := range names {
			s.emit("garbage", n, b, nil, false, "random")
		}
		rs, died, _ := s.w.call(wReq{Entry: "tup", B: b64(b)}, 20*time.Second)
		if died != "" {
			rs.Panic = died
		}
		bw.Write(bigRec{K: "entry", Cls: "garbage", S: "tup", Desc: fmt.Sprint(b), BLen: len(b), Ok: rs.Ok, Panic: rs.Panic})
		nbig++
	}
	for _, w := range s.ws {
		if err := w.Close(); err != nil {
			return err
		}
	}
	// (iii) scaled patterns, far too large for the reference: only the physical outcome is recorded
	type pat struct {
		desc string
		mk   func(n int) []byte
	}
	rep := func(unit []byte, n int, tail []byte) []byte {
		return append(bytes.Repeat(unit, n), tail...)
	}
	pats := []pat{
		{"n nested StructBegin under an unknown tag 13", func(n int) []byte { return rep([]byte{0xda}, n, nil) }},
		{"n nested StructBegin, closed", func(n int) []byte { return append(rep([]byte{0xda}, n, nil), bytes.Repeat([]byte{0x0b}, n)...) }},
		{"n nested LIST(1) under an unknown tag 13", func(n int) []byte {
			return append([]byte{0xd9, 0x00, 0x01}, rep([]byte{0x09, 0x00, 0x01}, n, []byte{0x0c})...)
		}},
		{"n nested MAP(1) keys under an unknown tag 13", func(n int) []byte {
			return append([]byte{0xd8, 0x00, 0x01}, rep([]byte{0x08, 0x00, 0x01}, n, []byte{0x0c, 0x1c})...)
		}},
		{"n nested StructBegin at tag 0", func(n int) []byte { return rep([]byte{0x0a}, n, nil) }},
		// containers of containers in positions that really are skipped: tag 0 comes before the first member of
		// the two packets, tag 3 is a gap of Vt.Inner (after its required a), and Vt.Opts reaches the same gap through inn
		{"n nested MAP(1) keys at tag 0", func(n int) []byte { return rep([]byte{0x08, 0x00, 0x01}, n+1, []byte{0x0c, 0x1c}) }},
		{"n nested LIST(1) at tag 0", func(n int) []byte { return rep([]byte{0x09, 0x00, 0x01}, n+1, []byte{0x0c}) }},
		{"a=1, n nested MAP(1) keys at tag 3", func(n int) []byte {
			return append([]byte{0x00, 0x01, 0x38, 0x00, 0x01}, rep([]byte{0x08, 0x00, 0x01}, n, []byte{0x0c, 0x1c})...)
		}},
		{"a=1, n nested LIST(1) at tag 3", func(n int) []byte {
			return append([]byte{0x00, 0x01, 0x39, 0x00, 0x01}, rep([]byte{0x09, 0x00, 0x01}, n, []byte{0x0c})...)
		}},
		{"inn{a=1, n nested MAP(1) keys at tag 3", func(n int) []byte {
			return append([]byte{0xea, 0x00, 0x01, 0x38, 0x00, 0x01}, rep([]byte{0x08, 0x00, 0x01}, n, []byte{0x0c, 0x1c})...)
		}},
		{"inn{a=1, n nested LIST(1) at tag 3", func(n int) []byte {
			return append([]byte{0xea, 0x00, 0x01, 0x39, 0x00, 0x01}, rep([]byte{0x09, 0x00, 0x01}, n, []byte{0x0c})...)
		}},
		{"n nested map values at tag 0", func(n int) []byte { return rep([]byte{0x08, 0x00, 0x01, 0x0c}, n+1, []byte{0x0c, 0x1c}) }},
		{"n zero-marker fields at tag 13", func(n int) []byte { return rep([]byte{0xdc}, n, nil) }},
		{"n nested StructBegin at tag 14 (Opts.inn / unknown)", func(n int) []byte { return rep([]byte{0xea}, n, nil) }},
	}
	// one probe far beyond the scaled range on every struct type: a decoder whose recursion is bounded answers at once
	if *deep > *maxNest {
		for _, p := range pats {
			b := p.mk(*deep)
			for _, name := range names {
				t0 := time.Now()
				rs, died, _ := s.w.call(wReq{S: name, B: b64(b)}, 120*time.Second)
				if died != "" {
					rs.Panic = died
				}
				bw.Write(bigRec{K: "big", Cls: "hostile", S: name, Desc: fmt.Sprintf("%s, n=%d", p.desc, *deep), BLen: len(b), Ok: rs.Ok, Panic: rs.Panic, Alloc: rs.Alloc, Ms: time.Since(t0).Milliseconds()})
				nbig++
			}
		}
	}
	for _, p := range pats {
		for n := 1000; ; n *= 10 {
			if n > *maxNest {
				n = *maxNest
			}
			b := p.mk(n)
			for _, name := range names {
				t0 := time.Now()
				rs, died, _ := s.w.call(wReq{S: name, B: b64(b)}, 120*time.Second)
				if died != "" {
					rs.Panic = died
				}
				bw.Write(bigRec{K: "big", Cls: "hostile", S: name, Desc: fmt.Sprintf("%s, n=%d", p.desc, n), BLen: len(b), Ok: rs.Ok, Panic: rs.Panic, Alloc: rs.Alloc, Ms: time.Since(t0).Milliseconds()})
				nbig++
			}
			rs, died, _ := s.w.call(wReq{Entry: "tup", B: b64(b)}, 120*time.Second)
			if died != "" {
				rs.Panic = died
			}
			bw.Write(bigRec{K: "big", Cls: "hostile", S: "tup", Desc: fmt.Sprintf("%s, n=%d", p.desc, n), BLen: len(b), Ok: rs.Ok, Panic: rs.Panic})
			nbig++
			if n >= *maxNest {
				break
			}
		}
	}
	s.w.stop()
	if err := bw.Close(); err != nil {
		return err
	}
	fmt.Println(s.n, len(s.seen), s.w.Deaths, nbig, s.cnt)
	return nil
}
