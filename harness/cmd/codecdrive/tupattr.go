package main

// The TUP attribute map as one more "struct" of the codec families (C06): schema  struct { 0 optional map<string, vector<byte>> m }
// (idl/Vt.tars: Vt.TupAttr), encoded and decoded by tup.UniAttribute instead of a generated struct.

import (
	"reflect"

	"github.com/TarsCloud/TarsGo/tars/protocol/codec"
	"github.com/TarsCloud/TarsGo/tars/protocol/tup"
)

type TupAttr struct {
	M map[string][]uint8 `tars:"m,tag:0,require:false"`
}

func (t *TupAttr) ResetDefault() {}

func (t *TupAttr) WriteTo(buf *codec.Buffer) error {
	u := tup.NewUniAttribute()
	for k, v := range t.M {
		u.PutBuffer(k, append([]byte{}, v...))
	}
	return u.Encode(buf)
}

func (t *TupAttr) ReadFrom(r *codec.Reader) error {
	u := tup.NewUniAttribute()
	if err := u.Decode(r); err != nil {
		return err
	}
	t.M = map[string][]uint8{}
	it := reflect.ValueOf(u).Elem().FieldByName("data").MapRange() // the decoded attributes (no exported iteration)
	for it.Next() {
		t.M[it.Key().String()] = append([]uint8{}, it.Value().Bytes()...)
	}
	return nil
}

const tupAttrName = "tup.Attr"

func init() { registry[tupAttrName] = func() tarsStruct { return &TupAttr{M: map[string][]uint8{}} } }
