// codecdrive drives the real codec (tars/protocol/codec and generated structs) for C02-C06.
package main

import (
	"fmt"
	"os"
)

var cmds = map[string]func(args []string) error{}

func main() {
	if len(os.Args) < 2 || cmds[os.Args[1]] == nil {
		fmt.Fprintln(os.Stderr, "usage: codecdrive <prim|...> [flags]")
		os.Exit(2)
	}
	if err := cmds[os.Args[1]](os.Args[2:]); err != nil {
		fmt.Fprintln(os.Stderr, "codecdrive:", err)
		os.Exit(3)
	}
}

func ints(b []byte) []int {
	r := make([]int, len(b))
	for i, x := range b {
		r[i] = int(x)
	}
	return r
}
