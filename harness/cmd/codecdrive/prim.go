package main

import (
	"encoding/binary"
	"flag"
	"fmt"
	"math"
	"math/rand"
	"path/filepath"

	"github.com/TarsCloud/TarsGo/tars/protocol/codec"
	"verifharness/internal/tr"
)

func init() { cmds["prim"] = primCmd }

// A read observation: reader type, ok, value bytes (big endian of the reader type's width), bytes left.
type rd struct {
	T   string `json:"t"`
	Ok  bool   `json:"ok"`
	V   []int  `json:"v"`
	Rem int    `json:"rem"`
	NaN bool   `json:"nan"`
}
type wrRec struct {
	K   string `json:"k"` // "wr": written by the real Write*, then read back; "r": hand-made input
	T   string `json:"t"`
	Tag int    `json:"tag"`
	V   []int  `json:"v"`
	Out []int  `json:"out"`
	Pad int    `json:"pad"`
	Rd  []rd   `json:"rd"`
}

func be(w int, v uint64) []byte {
	b := make([]byte, 8)
	binary.BigEndian.PutUint64(b, v)
	return b[8-w:]
}

// readAs reads one field with the real reader of type t from in; returns the observation.
func readAs(t string, in []byte, tag byte) (o rd) {
	o.T = t
	o.V = []int{}
	defer func() {
		if p := recover(); p != nil {
			o.Ok = false
			o.T = t + ":panic"
		}
	}()
	r := codec.NewReader(in)
	var err error
	switch t {
	case "bool":
		v := true // every target holds junk before the read: a successful read replaces it completely
		err = r.ReadBool(&v, tag, true)
		if v {
			o.V = []int{1}
		} else {
			o.V = []int{0}
		}
	case "int8":
		var v int8 = 0x5a
		err = r.ReadInt8(&v, tag, true)
		o.V = ints(be(1, uint64(v)))
	case "uint8":
		var v uint8 = 0xa5
		err = r.ReadUint8(&v, tag, true)
		o.V = ints(be(1, uint64(v)))
	case "int16":
		var v int16 = 0x5a5a
		err = r.ReadInt16(&v, tag, true)
		o.V = ints(be(2, uint64(v)))
	case "uint16":
		var v uint16 = 0xa5a5
		err = r.ReadUint16(&v, tag, true)
		o.V = ints(be(2, uint64(v)))
	case "int32":
		var v int32 = 0x5a5a5a5a
		err = r.ReadInt32(&v, tag, true)
		o.V = ints(be(4, uint64(v)))
	case "uint32":
		var v uint32 = 0xa5a5a5a5
		err = r.ReadUint32(&v, tag, true)
		o.V = ints(be(4, uint64(v)))
	case "int64":
		var v int64 = 0x5a5a5a5a5a5a5a5a
		err = r.ReadInt64(&v, tag, true)
		o.V = ints(be(8, uint64(v)))
	case "float32":
		var v float32 = 1234.5
		err = r.ReadFloat32(&v, tag, true)
		o.V = ints(be(4, uint64(math.Float32bits(v))))
		o.NaN = v != v
	case "float64":
		var v float64 = -9876.25
		err = r.ReadFloat64(&v, tag, true)
		o.V = ints(be(8, math.Float64bits(v)))
		o.NaN = v != v
	case "string":
		v := "junk"
		err = r.ReadString(&v, tag, true)
		o.V = ints([]byte(v))
	default:
		panic("unknown type " + t)
	}
	o.Ok = err == nil
	// bytes left = total - consumed; the codec's Reader exposes no position, so read what is left
	o.Rem = remaining(r)
	if !o.Ok {
		o.V = []int{}
	}
	return
}

// remaining counts the bytes the reader has not consumed, by skipping single bytes until EOF.
func remaining(r *codec.Reader) int {
	n := 0
	for {
		var b []byte = r.Next(1)
		if len(b) == 0 {
			return n
		}
		n++
	}
}

var intTypes = []string{"int8", "uint8", "int16", "uint16", "int32", "uint32", "int64"}
var tyW = map[string]int{"bool": 1, "int8": 1, "uint8": 1, "int16": 2, "uint16": 2, "int32": 4, "uint32": 4, "int64": 8}
var tySigned = map[string]bool{"bool": true, "int8": true, "int16": true, "int32": true, "int64": true}

// mathematical value of typed bytes as int64 / whether a type can hold it
func val64(t string, b []byte) int64 {
	var u uint64
	for _, x := range b {
		u = u<<8 | uint64(x)
	}
	w := uint(len(b) * 8)
	if tySigned[t] && w < 64 && u&(1<<(w-1)) != 0 {
		u |= ^uint64(0) << w
	}
	return int64(u)
}
func inRange(t string, v int64) bool {
	switch t {
	case "int8":
		return v >= math.MinInt8 && v <= math.MaxInt8
	case "uint8":
		return v >= 0 && v <= math.MaxUint8
	case "int16":
		return v >= math.MinInt16 && v <= math.MaxInt16
	case "uint16":
		return v >= 0 && v <= math.MaxUint16
	case "int32":
		return v >= math.MinInt32 && v <= math.MaxInt32
	case "uint32":
		return v >= 0 && v <= math.MaxUint32
	case "int64":
		return true
	}
	return false
}

// writeAs encodes with the real writer of type t.
func writeAs(t string, v []byte, tag byte) ([]byte, error) {
	b := codec.NewBuffer()
	var err error
	var u uint64
	for _, x := range v {
		u = u<<8 | uint64(x)
	}
	switch t {
	case "bool":
		err = b.WriteBool(u != 0, tag)
	case "int8":
		err = b.WriteInt8(int8(u), tag)
	case "uint8":
		err = b.WriteUint8(uint8(u), tag)
	case "int16":
		err = b.WriteInt16(int16(u), tag)
	case "uint16":
		err = b.WriteUint16(uint16(u), tag)
	case "int32":
		err = b.WriteInt32(int32(u), tag)
	case "uint32":
		err = b.WriteUint32(uint32(u), tag)
	case "int64":
		err = b.WriteInt64(int64(u), tag)
	case "float32":
		err = b.WriteFloat32(math.Float32frombits(uint32(u)), tag)
	case "float64":
		err = b.WriteFloat64(math.Float64frombits(u), tag)
	case "string":
		err = b.WriteString(string(v), tag)
	default:
		panic("unknown type " + t)
	}
	out := append([]byte(nil), b.ToBytes()...)
	return out, err
}

type shards struct {
	ws   []*tr.Writer
	n    int
	seen map[string]struct{} // distinct (type, tag, value / input bytes) cases
}

func (s *shards) put(v interface{}) {
	s.ws[s.n%len(s.ws)].Write(v)
	s.n++
	if r, ok := v.(wrRec); ok {
		if s.seen == nil {
			s.seen = map[string]struct{}{}
		}
		s.seen[fmt.Sprint(r.K, r.T, r.Tag, r.V, r.Out)] = struct{}{}
	}
}

func wrOne(s *shards, t string, v []byte, tag byte, pad int) {
	out, err := writeAs(t, v, tag)
	rec := wrRec{K: "wr", T: t, Tag: int(tag), V: ints(v), Out: ints(out), Pad: pad}
	if err != nil {
		rec.K = "wr-error"
	}
	in := append(append([]byte(nil), out...), make([]byte, pad)...)
	for i := range in[len(out):] {
		in[len(out)+i] = 0x5a // sentinel bytes after the field
	}
	switch t {
	case "float32":
		rec.Rd = append(rec.Rd, readAs("float32", in, tag), readAs("float64", in, tag))
	case "float64":
		rec.Rd = append(rec.Rd, readAs("float64", in, tag))
	case "string":
		rec.Rd = append(rec.Rd, readAs("string", in, tag))
	case "bool":
		rec.Rd = append(rec.Rd, readAs("bool", in, tag))
	default:
		x := val64(t, v)
		for _, rt := range intTypes {
			if inRange(rt, x) {
				rec.Rd = append(rec.Rd, readAs(rt, in, tag))
			}
		}
	}
	s.put(rec)
}

// hand-made encodings (not produced by the codec under test): every integer width holding the value
func head(ty, tag byte) []byte {
	if tag < 15 {
		return []byte{tag<<4 | ty}
	}
	return []byte{0xf0 | ty, tag}
}
func rOne(s *shards, in []byte, tag byte, pad int, readers []string) {
	full := append(append([]byte(nil), in...), make([]byte, pad)...)
	for i := len(in); i < len(full); i++ {
		full[i] = 0xa5
	}
	rec := wrRec{K: "r", T: "", Tag: int(tag), V: []int{}, Out: ints(in), Pad: pad}
	for _, rt := range readers {
		rec.Rd = append(rec.Rd, readAs(rt, full, tag))
	}
	s.put(rec)
}

func primCmd(args []string) error {
	fs := flag.NewFlagSet("prim", flag.ExitOnError)
	seed := fs.Int64("seed", 1, "seed")
	out := fs.String("out", ".", "output directory")
	nsh := fs.Int("shards", 8, "number of shard files")
	tags8 := fs.Int("tags8", 256, "number of tags for the exhaustive 8-bit space (256 = all)")
	tags16 := fs.Int("tags16", 2, "number of tags for the exhaustive 16-bit space")
	nwide := fs.Int("wide", 2000, "random wide values per type")
	fs.Parse(args)
	rng := rand.New(rand.NewSource(*seed))
	s := &shards{}
	for i := 0; i < *nsh; i++ {
		w, err := tr.Create(filepath.Join(*out, fmt.Sprintf("prim_%02d.ndjson", i)))
		if err != nil {
			return err
		}
		s.ws = append(s.ws, w)
	}
	edgeTags := []byte{0, 1, 14, 15, 16, 254, 255}
	pickTags := func(n int) []byte {
		if n >= 256 {
			t := make([]byte, 256)
			for i := range t {
				t[i] = byte(i)
			}
			return t
		}
		t := append([]byte(nil), edgeTags...)
		if n < len(t) {
			// always keep 0 and 15 (short / extended head), then seeded others
			t = []byte{0, 15}
			for len(t) < n {
				t = append(t, byte(rng.Intn(256)))
			}
			return t[:n]
		}
		for len(t) < n {
			t = append(t, byte(rng.Intn(256)))
		}
		return t
	}
	// 8-bit types: every value x every chosen tag
	for _, tag := range pickTags(*tags8) {
		for v := 0; v < 256; v++ {
			wrOne(s, "int8", []byte{byte(v)}, tag, v%3)
			wrOne(s, "uint8", []byte{byte(v)}, tag, (v+1)%3)
		}
		wrOne(s, "bool", []byte{0}, tag, 1)
		wrOne(s, "bool", []byte{1}, tag, 0)
	}
	// 16-bit types: every value x chosen tags
	for _, tag := range pickTags(*tags16) {
		for v := 0; v < 65536; v++ {
			wrOne(s, "int16", be(2, uint64(v)), tag, v%2)
			wrOne(s, "uint16", be(2, uint64(v)), tag, (v+1)%2)
		}
	}
	// wider types: boundaries of every width +-2, powers of two, random
	var wide []uint64
	for k := uint(0); k < 64; k++ {
		for d := int64(-2); d <= 2; d++ {
			wide = append(wide, uint64(int64(1)<<k+d), uint64(-(int64(1)<<k)+d))
		}
	}
	for i := 0; i < *nwide; i++ {
		x := rng.Uint64()
		wide = append(wide, x>>uint(rng.Intn(64)), uint64(int64(x)>>uint(rng.Intn(64))))
	}
	for _, x := range wide {
		tag := edgeTags[rng.Intn(len(edgeTags))]
		if rng.Intn(4) == 0 {
			tag = byte(rng.Intn(256))
		}
		wrOne(s, "int32", be(4, x), tag, rng.Intn(3))
		wrOne(s, "uint32", be(4, x), tag, rng.Intn(3))
		wrOne(s, "int64", be(8, x), tag, rng.Intn(3))
	}
	// floats: specials and random bit patterns (NaN payloads, subnormals, infinities, signed zero)
	f32 := []uint32{0, 0x80000000, 0x7f800000, 0xff800000, 0x7fc00000, 0x7fa00000, 0x7f800001, 0xffc12345, 0x00000001,
		0x007fffff, 0x00400000, 0x00800000, 0x807fffff, 0x3f800000, 0xbf800000, 0x7f7fffff, 0x3eaaaaab, 0x00000100}
	f64 := []uint64{0, 1 << 63, 0x7ff0000000000000, 0xfff0000000000000, 0x7ff8000000000000, 0x7ff4000000000000,
		0x7ff0000000000001, 0xfff8000000012345, 1, 0x000fffffffffffff, 0x0010000000000000, 0x3ff0000000000000,
		0x7fefffffffffffff, 0x3fd5555555555555}
	for i := 0; i < *nwide/4; i++ {
		f32 = append(f32, rng.Uint32())
		f64 = append(f64, rng.Uint64())
		if i%8 == 0 { // random subnormals and NaNs
			f32 = append(f32, rng.Uint32()&0x807fffff, rng.Uint32()|0x7f800000)
			f64 = append(f64, rng.Uint64()&0x800fffffffffffff, rng.Uint64()|0x7ff0000000000000)
		}
	}
	for _, x := range f32 {
		for _, tag := range []byte{0, 15, byte(rng.Intn(256))} {
			wrOne(s, "float32", be(4, uint64(x)), tag, rng.Intn(3))
		}
	}
	for _, x := range f64 {
		for _, tag := range []byte{0, 15, byte(rng.Intn(256))} {
			wrOne(s, "float64", be(8, x), tag, rng.Intn(3))
		}
	}
	// strings: boundary lengths with arbitrary bytes
	for _, n := range []int{0, 1, 2, 17, 254, 255, 256, 257, 1000, 65535, 65536, 70001} {
		reps := 6
		if n > 60000 {
			reps = 1
		}
		for i := 0; i < reps; i++ {
			b := make([]byte, n)
			rng.Read(b)
			if i == 1 {
				for k := range b {
					b[k] = 0
				}
			}
			wrOne(s, "string", b, edgeTags[rng.Intn(len(edgeTags))], rng.Intn(3))
		}
	}
	// hand-made non-narrowest encodings: value v stored in every width that can hold it, read by every
	// reader that admits that width and can represent v
	widths := []struct {
		ty byte
		w  int
	}{{0, 1}, {1, 2}, {2, 4}, {3, 8}}
	maxw := map[string]int{"int8": 1, "uint8": 2, "int16": 2, "uint16": 4, "int32": 4, "uint32": 8, "int64": 8}
	var small []int64
	for v := int64(-130); v <= 260; v++ {
		small = append(small, v)
	}
	small = append(small, -32769, -32768, 32767, 32768, 65535, 65536, -65536, 1<<31-1, -(1 << 31), 1<<31, 1<<32-1, 1<<32)
	for _, v := range small {
		for _, wd := range widths {
			if wd.w < 8 && (v < -(int64(1)<<uint(wd.w*8-1)) || v > int64(1)<<uint(wd.w*8-1)-1) {
				continue
			}
			tag := edgeTags[rng.Intn(len(edgeTags))]
			in := append(head(wd.ty, tag), be(wd.w, uint64(v))...)
			var readers []string
			for _, rt := range intTypes {
				if maxw[rt] >= wd.w && inRange(rt, v) {
					readers = append(readers, rt)
				}
			}
			if len(readers) > 0 {
				rOne(s, in, tag, rng.Intn(3), readers)
			}
		}
	}
	for _, tag := range edgeTags { // the zero marker read by every type
		rOne(s, head(12, tag), tag, 2, []string{"bool", "int8", "uint8", "int16", "uint16", "int32", "uint32", "int64", "float32", "float64"})
	}
	for _, w := range s.ws {
		if err := w.Close(); err != nil {
			return err
		}
	}
	fmt.Println(s.n, len(s.seen))
	return nil
}
