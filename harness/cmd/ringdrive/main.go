// ringdrive drives the real hash selectors of TarsGo (consistenthash, modhash) for check C14.
//
//	ringdrive gen -seed S -tier quick|thorough -out DIR     selector level (Message -> Selector.Select)
//	ringdrive e2e -seed S -out DIR                          end to end over scripted TCP servers: direct endpoint lists
//	                                                        (e2e.go) and registry-fed proxies whose endpoints are blocked
//	                                                        by the manager's status check and recover (e2e_mgr.go)
//
// gen writes
//
//	unis.ndjson   one universe per line: endpoints, host ids, the virtual points of every endpoint computed
//	              HERE with crypto/md5 (never by the code under test), all points sorted, the probe codes
//	hists.ndjson  one history per line: operations applied to a fresh real selector, and after every
//	              operation the endpoint the real Select returned for every probe code
//
// 32-bit values are written as [hi16, lo16] pairs (TLC integers are 32-bit signed).
package main

import (
	"bufio"
	"crypto/md5"
	"encoding/binary"
	"encoding/json"
	"flag"
	"fmt"
	"math/rand"
	"os"
	"path/filepath"
	"sort"
	"strconv"

	"github.com/TarsCloud/TarsGo/tars"
	"github.com/TarsCloud/TarsGo/tars/selector"
	"github.com/TarsCloud/TarsGo/tars/selector/consistenthash"
	"github.com/TarsCloud/TarsGo/tars/selector/modhash"
	"github.com/TarsCloud/TarsGo/tars/util/endpoint"
)

func main() {
	if len(os.Args) < 2 {
		fmt.Fprintln(os.Stderr, "usage: ringdrive gen|e2e [flags]")
		os.Exit(2)
	}
	var err error
	switch os.Args[1] {
	case "gen":
		err = cmdGen(os.Args[2:])
	case "e2e":
		err = cmdE2E(os.Args[2:])
	default:
		err = fmt.Errorf("unknown subcommand %q", os.Args[1])
	}
	if err != nil {
		fmt.Fprintln(os.Stderr, "ringdrive:", err)
		os.Exit(3)
	}
}

// ---------------------------------------------------------------- independent point computation

func pair(v uint32) [2]int { return [2]int{int(v >> 16), int(v & 0xffff)} }

// rounds is the number of "host_i" strings hashed for an endpoint.
func rounds(enableWeight bool, w int32) int {
	n := 100 // selector.ConHashVirtualNodes
	if enableWeight {
		n = int(w)
	}
	if n <= 0 {
		return 0
	}
	n /= 4
	if n == 0 {
		n = 1
	}
	return n
}

// ketamaPoints: md5(host_i) read as four little-endian 32-bit words, each one a point.
func ketamaPoints(host string, n int) []uint32 {
	var out []uint32
	for i := 0; i < n; i++ {
		d := md5.Sum([]byte(host + "_" + strconv.Itoa(i)))
		for k := 0; k < 4; k++ {
			out = append(out, binary.LittleEndian.Uint32(d[4*k:4*k+4]))
		}
	}
	return out
}

// defaultPoints: one point per round, the xor of the four words.
func defaultPoints(host string, n int) []uint32 {
	var out []uint32
	for i := 0; i < n; i++ {
		d := md5.Sum([]byte(host + "_" + strconv.Itoa(i)))
		var x uint32
		for k := 0; k < 4; k++ {
			x ^= binary.LittleEndian.Uint32(d[4*k : 4*k+4])
		}
		out = append(out, x)
	}
	return out
}

// ---------------------------------------------------------------- universes

type EPDesc struct {
	Host   string `json:"host"`
	Port   int32  `json:"port"`
	Weight int32  `json:"weight"`
	WType  int32  `json:"wtype"`
}

func (d EPDesc) ep() endpoint.Endpoint {
	return endpoint.Endpoint{Host: d.Host, Port: d.Port, Timeout: 3000, Istcp: endpoint.TCP, Proto: "tcp",
		Weight: d.Weight, WeightType: d.WType,
		Key: fmt.Sprintf("%s:%d", d.Host, d.Port)}
}

type Universe struct {
	ID      int        `json:"id"`
	Kind    string     `json:"kind"` // ketama ketamaw default defaultw mod modw
	Ring    bool       `json:"ring"`
	Tag     string     `json:"tag"`
	EPs     []EPDesc   `json:"eps"`
	Host    []int      `json:"host"`    // host id per endpoint (equal ids = same Host string)
	Pts     [][][2]int `json:"pts"`     // points per endpoint
	Sorted  [][2]int   `json:"sorted"`  // all distinct points of the universe, ascending
	Codes   [][2]int   `json:"codes"`   // probe codes
	Weights []int      `json:"weights"` // per endpoint
	Static  []bool     `json:"static"`  // WeightType == EStaticWeight
	SRank   []int      `json:"srank"`   // rank of Endpoint.String() among the universe (tie-break of the weight cycle)
	NPoints int        `json:"npoints"`
	codes   []uint32
	pts     [][]uint32
}

func (u *Universe) weighted() bool {
	return u.Kind == "ketamaw" || u.Kind == "defaultw" || u.Kind == "modw"
}

func (u *Universe) newSelector() selector.Selector {
	switch u.Kind {
	case "ketama":
		return consistenthash.New(false, consistenthash.KetamaHash)
	case "ketamaw":
		return consistenthash.New(true, consistenthash.KetamaHash)
	case "default":
		return consistenthash.New(false, consistenthash.DefaultHash)
	case "defaultw":
		return consistenthash.New(true, consistenthash.DefaultHash)
	case "mod":
		return modhash.New(false)
	case "modw":
		return modhash.New(true)
	}
	panic("kind " + u.Kind)
}

func (u *Universe) hashType() tars.HashType {
	if u.Ring {
		return tars.ConsistentHash
	}
	return tars.ModHash
}

func buildUniverse(id int, kind, tag string, eps []EPDesc, rng *rand.Rand, samplePts, nRandom int) *Universe {
	u := &Universe{ID: id, Kind: kind, Tag: tag, EPs: eps}
	u.Ring = kind != "mod" && kind != "modw"
	hostIDs := map[string]int{}
	var strs []string
	for _, d := range eps {
		if _, ok := hostIDs[d.Host]; !ok {
			hostIDs[d.Host] = len(hostIDs) + 1
		}
		u.Host = append(u.Host, hostIDs[d.Host])
		u.Weights = append(u.Weights, int(d.Weight))
		u.Static = append(u.Static, endpoint.WeightType(d.WType) == endpoint.EStaticWeight)
		strs = append(strs, fmt.Sprintf("%s -h %s -p %d -t %d", "tcp", d.Host, d.Port, 3000))
	}
	for i := range strs {
		r := 1
		for j := range strs {
			if strs[j] < strs[i] {
				r++
			}
		}
		u.SRank = append(u.SRank, r)
	}
	all := map[uint32]bool{}
	owners := map[uint32]map[int]bool{}
	for _, d := range eps {
		var p []uint32
		if u.Ring {
			n := rounds(u.weighted(), d.Weight)
			if kind == "ketama" || kind == "ketamaw" {
				p = ketamaPoints(d.Host, n)
			} else {
				p = defaultPoints(d.Host, n)
			}
		}
		u.pts = append(u.pts, p)
		pp := make([][2]int, 0, len(p))
		seen := map[uint32]bool{}
		for _, v := range p {
			if !seen[v] {
				pp = append(pp, pair(v))
			}
			seen[v] = true
			all[v] = true
			if owners[v] == nil {
				owners[v] = map[int]bool{}
			}
			owners[v][hostIDs[d.Host]] = true
		}
		u.Pts = append(u.Pts, pp)
	}
	var sorted []uint32
	for v := range all {
		sorted = append(sorted, v)
	}
	sort.Slice(sorted, func(i, j int) bool { return sorted[i] < sorted[j] })
	u.Sorted = make([][2]int, 0, len(sorted))
	for _, v := range sorted {
		u.Sorted = append(u.Sorted, pair(v))
	}
	u.NPoints = len(sorted)

	// probe codes
	cs := map[uint32]bool{}
	add := func(v uint32) { cs[v] = true }
	for _, v := range []uint32{0, 1, 2, 0xffffffff, 0xfffffffe, 0x7fffffff, 0x80000000, 0x80000001, 65535, 65536, 65537, 0xffff0000, 0x0000ffff} {
		add(v)
	}
	for i := 0; i < nRandom; i++ {
		add(rng.Uint32())
	}
	if u.Ring && len(sorted) > 0 {
		pick := map[uint32]bool{sorted[0]: true, sorted[len(sorted)-1]: true}
		for v, o := range owners { // every point shared by two hosts
			if len(o) > 1 {
				pick[v] = true
			}
		}
		// per endpoint its smallest and largest point
		for _, p := range u.pts {
			if len(p) == 0 {
				continue
			}
			mn, mx := p[0], p[0]
			for _, v := range p {
				if v < mn {
					mn = v
				}
				if v > mx {
					mx = v
				}
			}
			pick[mn], pick[mx] = true, true
		}
		if samplePts < 0 || samplePts >= len(sorted) {
			for _, v := range sorted {
				pick[v] = true
			}
		} else {
			for _, i := range rng.Perm(len(sorted))[:samplePts] {
				pick[sorted[i]] = true
			}
		}
		for v := range pick {
			add(v - 1) // wraps below 0
			add(v)
			add(v + 1) // wraps above 2^32-1
		}
	} else if !u.Ring {
		for n := 1; n <= len(eps)+1; n++ {
			for _, k := range []uint32{1, 7, 65536 / uint32(n), 0x7fffffff / uint32(n), 0xffffffff / uint32(n)} {
				add(k * uint32(n))
				add(k*uint32(n) - 1)
				add(k*uint32(n) + 1)
			}
		}
	}
	for v := range cs {
		u.codes = append(u.codes, v)
	}
	sort.Slice(u.codes, func(i, j int) bool { return u.codes[i] < u.codes[j] })
	for _, v := range u.codes {
		u.Codes = append(u.Codes, pair(v))
	}
	return u
}

// ---------------------------------------------------------------- histories

type Step struct {
	Op    string `json:"op"`  // add remove refresh
	E     int    `json:"e"`   // endpoint (1-based) for add/remove, 0 otherwise
	Eps   []int  `json:"eps"` // refresh list
	Err   bool   `json:"err"` // the operation returned an error
	Ans   []int  `json:"ans"` // per probe code: endpoint returned (1-based), 0 = Select error, 98 = Select panicked, 99 = not an endpoint of the universe
	List  []int  `json:"list"`
	Cycle []int  `json:"cycle"` // modw: selector.BuildStaticWeightList over List (empty when it returns nil)
	Via   string `json:"via"`   // how the hash code reached the Message
}

type History struct {
	ID    int    `json:"id"`
	U     int    `json:"u"`
	Label string `json:"label"`
	Steps []Step `json:"steps"`
}

type runner struct {
	u    *Universe
	sel  selector.Selector
	list []int // the harness's own idea of the installed list (TLC recomputes it and compares)
	h    History
}

func newRunner(u *Universe, id int, label string) *runner {
	return &runner{u: u, sel: u.newSelector(), h: History{ID: id, U: u.ID, Label: label}}
}

func (r *runner) hasHost(e int) int {
	for i, m := range r.list {
		if r.u.Host[m-1] == r.u.Host[e-1] {
			return i
		}
	}
	return -1
}

func (r *runner) identify(ep endpoint.Endpoint) int {
	for i, d := range r.u.EPs {
		if d.Host == ep.Host && d.Port == ep.Port && d.Weight == ep.Weight && d.WType == ep.WeightType {
			return i + 1
		}
	}
	return 99
}

// message builds the real tars.Message carrying the hash code; every third probe goes through the
// client context (current.SetClientHash / GetClientHash) the way ServantProxy.TarsInvoke copies it.
func (r *runner) message(code uint32, k int) (selector.Message, string) {
	return makeMessage(code, r.u.hashType(), k)
}

// selectOne calls the real Select; a panic inside it is an answer too (98), never a harness failure.
func (r *runner) selectOne(c uint32, k int) (ans int) {
	defer func() {
		if recover() != nil {
			ans = 98
		}
	}()
	msg, _ := r.message(c, k)
	ep, err := r.sel.Select(msg)
	if err != nil {
		return 0
	}
	return r.identify(ep)
}

func (r *runner) probe(st *Step) {
	st.Ans = make([]int, len(r.u.codes))
	for k, c := range r.u.codes {
		st.Ans[k] = r.selectOne(c, k)
	}
	st.Via = "Message.SetHash; every 3rd via current.SetClientHash"
	st.List = append([]int{}, r.list...)
	st.Cycle = []int{}
	if r.u.Kind == "modw" {
		var eps []endpoint.Endpoint
		for _, m := range r.list {
			eps = append(eps, r.u.EPs[m-1].ep())
		}
		st.Cycle = append(st.Cycle, selector.BuildStaticWeightList(eps)...)
	}
	if st.Eps == nil {
		st.Eps = []int{}
	}
	r.h.Steps = append(r.h.Steps, *st)
}

func (r *runner) add(e int) {
	err := r.sel.Add(r.u.EPs[e-1].ep())
	if r.hasHost(e) < 0 {
		r.list = append(r.list, e)
	}
	r.probe(&Step{Op: "add", E: e, Err: err != nil})
}

func (r *runner) remove(e int) {
	err := r.sel.Remove(r.u.EPs[e-1].ep())
	if i := r.hasHost(e); i >= 0 {
		r.list = append(append([]int{}, r.list[:i]...), r.list[i+1:]...)
	}
	r.probe(&Step{Op: "remove", E: e, Err: err != nil})
}

func (r *runner) refresh(es []int) {
	var eps []endpoint.Endpoint
	for _, e := range es {
		eps = append(eps, r.u.EPs[e-1].ep())
	}
	r.sel.Refresh(eps)
	// the slice belongs to the caller, who goes on using it (the endpoint manager deletes from and re-sorts the list
	// it has just installed, in place): overwriting it is not an operation on the selector and must not change routing
	for i := range eps {
		eps[i] = endpoint.Endpoint{Host: "203.0.113.9", Port: 9, Timeout: 3000, Istcp: endpoint.TCP, Proto: "tcp", Key: "203.0.113.9:9"}
	}
	r.list = nil
	for _, e := range es {
		if r.hasHost(e) < 0 {
			r.list = append(r.list, e)
		}
	}
	r.probe(&Step{Op: "refresh", Eps: append([]int{}, es...)})
}

// stored returns the member that has e's host (or e itself): used to keep Remove arguments equal to the
// stored endpoint in the universes where a different weight in the argument is a separate matter (F15).
func (r *runner) stored(e int) int {
	if i := r.hasHost(e); i >= 0 {
		return r.list[i]
	}
	return e
}

func randomSubsetPerm(rng *rand.Rand, n int, minLen int) []int {
	p := rng.Perm(n)
	k := minLen + rng.Intn(n-minLen+1)
	out := make([]int, 0, k)
	for _, i := range p[:k] {
		out = append(out, i+1)
	}
	return out
}

// hostDistinct drops endpoints whose host already occurred.
func hostDistinct(u *Universe, es []int) []int {
	seen := map[int]bool{}
	var out []int
	for _, e := range es {
		if !seen[u.Host[e-1]] {
			out = append(out, e)
		}
		seen[u.Host[e-1]] = true
	}
	return out
}

type genCfg struct {
	walks, walkLen, twins int
	cleanRemove           bool // Remove arguments always equal the stored endpoint
}

func genHistories(u *Universe, rng *rand.Rand, cfg genCfg, nextID *int) []History {
	var out []History
	n := len(u.EPs)
	id := func() int { *nextID++; return *nextID }
	var targets [][]int
	for w := 0; w < cfg.walks; w++ {
		r := newRunner(u, id(), "random-walk")
		if rng.Intn(2) == 0 {
			r.refresh(randomSubsetPerm(rng, n, 1))
		}
		for s := 0; s < cfg.walkLen; s++ {
			x := rng.Intn(100)
			switch {
			case x < 40:
				r.add(1 + rng.Intn(n))
			case x < 75:
				e := 1 + rng.Intn(n)
				if len(r.list) > 0 && rng.Intn(4) != 0 {
					e = r.list[rng.Intn(len(r.list))] // mostly remove a member
					if !cfg.cleanRemove && rng.Intn(3) == 0 {
						// the same host through another endpoint value (other port / weight)
						for j := range u.EPs {
							if u.Host[j] == u.Host[e-1] && j+1 != e {
								e = j + 1
								break
							}
						}
					}
				}
				if cfg.cleanRemove {
					e = r.stored(e)
				}
				r.remove(e)
			case x < 90:
				r.refresh(randomSubsetPerm(rng, n, 0))
			default:
				// refresh with the same members in another order: the set does not change
				p := append([]int{}, r.list...)
				rng.Shuffle(len(p), func(i, j int) { p[i], p[j] = p[j], p[i] })
				r.refresh(p)
			}
			if len(r.list) > 0 && (s == cfg.walkLen-1 || rng.Intn(3) == 0) {
				targets = append(targets, append([]int{}, r.list...))
			}
		}
		out = append(out, r.h)
	}
	// other histories reaching sets the walks visited
	rng.Shuffle(len(targets), func(i, j int) { targets[i], targets[j] = targets[j], targets[i] })
	if len(targets) > cfg.twins {
		targets = targets[:cfg.twins]
	}
	for _, t := range targets {
		perm := func() []int {
			p := append([]int{}, t...)
			rng.Shuffle(len(p), func(i, j int) { p[i], p[j] = p[j], p[i] })
			return p
		}
		// (a) members added one by one in another order
		r := newRunner(u, id(), "twin-add-permuted")
		for _, e := range perm() {
			r.add(e)
		}
		out = append(out, r.h)
		// (b) one Refresh with a permuted list
		r = newRunner(u, id(), "twin-refresh-permuted")
		r.refresh(perm())
		out = append(out, r.h)
		// (c) everything installed, then the others removed
		r = newRunner(u, id(), "twin-superset-then-remove")
		inT := map[int]bool{}
		hostInT := map[int]int{}
		for _, e := range t {
			inT[e] = true
			hostInT[u.Host[e-1]] = e
		}
		var all []int
		for _, i := range rng.Perm(n) {
			e := i + 1
			if m, ok := hostInT[u.Host[e-1]]; ok {
				e = m // the member variant of this host
			}
			all = append(all, e)
		}
		all = hostDistinct(u, all)
		if rng.Intn(2) == 0 {
			r.refresh(all)
		} else {
			for _, e := range all {
				r.add(e)
			}
		}
		for _, e := range all {
			if !inT[e] {
				r.remove(e)
			}
		}
		out = append(out, r.h)
		// (d) churn: members removed and added again
		r = newRunner(u, id(), "twin-churn")
		r.refresh(perm())
		for _, e := range perm() {
			if rng.Intn(2) == 0 {
				r.remove(e)
				r.add(e)
			}
		}
		out = append(out, r.h)
	}
	return out
}

// ---------------------------------------------------------------- corpus

func randHost(rng *rand.Rand) string {
	switch rng.Intn(3) {
	case 0:
		return fmt.Sprintf("10.%d.%d.%d", rng.Intn(256), rng.Intn(256), 1+rng.Intn(254))
	case 1:
		return fmt.Sprintf("192.168.%d.%d", rng.Intn(256), 1+rng.Intn(254))
	}
	return fmt.Sprintf("node-%d.svc.example", rng.Intn(100000))
}

func distinctHosts(rng *rand.Rand, n int) []string {
	seen := map[string]bool{}
	var out []string
	for len(out) < n {
		h := randHost(rng)
		if !seen[h] {
			seen[h] = true
			out = append(out, h)
		}
	}
	return out
}

const static = int32(endpoint.EStaticWeight)

func cmdGen(args []string) error {
	fs := flag.NewFlagSet("gen", flag.ExitOnError)
	seed := fs.Int64("seed", 1, "seed")
	tier := fs.String("tier", "quick", "quick|thorough")
	out := fs.String("out", ".", "output directory")
	fs.Parse(args)
	rng := rand.New(rand.NewSource(*seed*7919 + 13))
	quick := *tier == "quick"

	sample, nrand := 14, 10
	cfg := genCfg{walks: 3, walkLen: 7, twins: 2}
	reps := 1
	if !quick {
		sample, nrand = 80, 40
		cfg = genCfg{walks: 6, walkLen: 10, twins: 4}
		reps = 5
	}
	var unis []*Universe
	var hists []History
	nextU, nextH := 0, 0
	mk := func(kind, tag string, eps []EPDesc, c genCfg, samplePts int) *Universe {
		nextU++
		u := buildUniverse(nextU, kind, tag, eps, rng, samplePts, nrand)
		unis = append(unis, u)
		hists = append(hists, genHistories(u, rng, c, &nextH)...)
		return u
	}
	plain := func(hosts []string, extraPort bool) []EPDesc {
		var eps []EPDesc
		for i, h := range hosts {
			eps = append(eps, EPDesc{Host: h, Port: int32(10000 + i), Weight: int32(rng.Intn(200)), WType: int32(rng.Intn(2))})
		}
		if extraPort { // the same host again on another port: the selectors treat it as the same member
			eps = append(eps, EPDesc{Host: hosts[0], Port: 20000, Weight: 5, WType: 0})
		}
		return eps
	}
	// a host installed through one endpoint value and addressed through another (second port): the member
	// stays what was installed first, Remove through either value removes it
	secondPort := func(u *Universe) {
		last := len(u.EPs)
		for _, v := range [][2]int{{1, last}, {last, 1}} {
			nextH++
			r := newRunner(u, nextH, "same-host-second-port")
			r.add(2)
			r.add(v[0])
			r.add(v[1]) // same host again: no change
			r.add(3)
			r.remove(v[1]) // removes the stored one
			r.add(v[1])
			r.refresh([]int{3, v[0], 2, v[1]})
			hists = append(hists, r.h)
		}
	}
	for rep := 0; rep < reps; rep++ {
		// 1. unweighted ketama ring, 5 hosts (+ one host on a second port)
		secondPort(mk("ketama", "5 hosts + second port of host 1", plain(distinctHosts(rng, 5), true), cfg, sample))
		// 2. unweighted ring, xor variant of the point hash
		mk("default", "4 hosts, DefaultHash", plain(distinctHosts(rng, 4), rep%2 == 1), cfg, sample)
		// 3. weighted ketama ring: rounds = weight/4 (at least 1), weight <= 0 gives no points
		hs := distinctHosts(rng, 5)
		weps := []EPDesc{
			{Host: hs[0], Port: 10000, Weight: 40, WType: static},
			{Host: hs[1], Port: 10001, Weight: int32(4 + rng.Intn(60)), WType: static},
			{Host: hs[2], Port: 10002, Weight: int32(1 + rng.Intn(3)), WType: static}, // below 4: still one round
			{Host: hs[3], Port: 10003, Weight: 100, WType: static},
			{Host: hs[4], Port: 10004, Weight: 0, WType: static},
			{Host: hs[0], Port: 10000, Weight: 4, WType: static}, // host 1 with another weight
		}
		cw := cfg
		cw.cleanRemove = true
		uw := mk("ketamaw", "weighted; endpoint 6 is host 1 with weight 4 instead of 40; endpoint 5 has weight 0", weps, cw, sample)
		// 3b. Remove whose argument carries another weight than the stored endpoint (F15's input class)
		for _, pr := range [][2]int{{1, 6}, {6, 1}} {
			nextH++
			r := newRunner(uw, nextH, "remove-with-other-weight")
			r.add(2)
			r.add(pr[0])
			r.add(4)
			r.remove(pr[1])
			r.add(3)
			hists = append(hists, r.h)
		}
		if !quick {
			mk("defaultw", "weighted DefaultHash", weps[:5], cw, sample)
		}
		// 4. mod hash
		secondPort(mk("mod", "5 hosts + second port of host 1", plain(distinctHosts(rng, 5), true), cfg, 0))
		hs = distinctHosts(rng, 4)
		meps := []EPDesc{
			{Host: hs[0], Port: 10000, Weight: int32(1 + rng.Intn(10)), WType: static},
			{Host: hs[1], Port: 10001, Weight: int32(1 + rng.Intn(100)), WType: static},
			{Host: hs[2], Port: 10002, Weight: int32(1 + rng.Intn(10)), WType: static},
			{Host: hs[3], Port: 10003, Weight: int32(10 + rng.Intn(30)), WType: static},
			{Host: hs[0], Port: 10000, Weight: 77, WType: static},
		}
		mk("modw", "static weights; endpoint 5 is host 1 with another weight", meps, cfg, 0)
		if rep == 0 {
			mixed := append([]EPDesc{}, meps[:4]...)
			mixed[2].WType = int32(endpoint.ELoop)
			mk("modw", "weights enabled but endpoint 3 is not static: no cycle while it is installed", mixed, cfg, 0)
		}
	}
	// 5. the universe with a colliding ring point: md5("h60805_13") and md5("h143285_24") share a word
	col := []EPDesc{
		{Host: "h60805", Port: 10000}, {Host: "h143285", Port: 10001},
		{Host: distinctHosts(rng, 1)[0], Port: 10002}, {Host: "10.1.2.3", Port: 10003},
	}
	nextU++
	uc := buildUniverse(nextU, "ketama", "collision h60805/h143285", col, rng, sample, nrand)
	unis = append(unis, uc)
	for _, order := range [][]int{{1, 2, 3}, {2, 1, 3}, {3, 2, 1}, {3, 1, 2}} {
		nextH++
		r := newRunner(uc, nextH, "collision-add-order")
		for _, e := range order {
			r.add(e)
		}
		hists = append(hists, r.h)
	}
	for _, first := range []int{1, 2} {
		nextH++
		r := newRunner(uc, nextH, "collision-remove-other")
		r.refresh([]int{first, 3 - first, 3, 4})
		r.remove(first)
		r.add(first)
		hists = append(hists, r.h)
	}
	// the endpoint installed last is the one the shared point belongs to in the map: take that one away first (a ring that
	// keeps the point twice in its sorted keys is left with a point nobody owns), then the other, then bring them back
	for _, first := range []int{1, 2} {
		for _, viaAdd := range []bool{false, true} {
			nextH++
			r := newRunner(uc, nextH, "collision-remove-owner")
			if viaAdd {
				for _, e := range []int{3, first, 4, 3 - first} {
					r.add(e)
				}
			} else {
				r.refresh([]int{first, 3 - first, 3, 4})
			}
			r.remove(3 - first)
			r.remove(first)
			r.add(3 - first)
			r.add(first)
			r.remove(first)
			hists = append(hists, r.h)
		}
	}
	cc := cfg
	cc.twins = 1
	cc.walks = 1
	hists = append(hists, genHistories(uc, rng, cc, &nextH)...)

	if err := writeNDJSON(filepath.Join(*out, "unis.ndjson"), len(unis), func(i int) interface{} { return unis[i] }); err != nil {
		return err
	}
	if err := writeNDJSON(filepath.Join(*out, "hists.ndjson"), len(hists), func(i int) interface{} { return hists[i] }); err != nil {
		return err
	}
	lookups, steps := 0, 0
	for _, h := range hists {
		for _, s := range h.Steps {
			steps++
			lookups += len(s.Ans)
		}
	}
	meta := map[string]interface{}{"universes": len(unis), "histories": len(hists), "steps": steps, "lookups": lookups}
	b, _ := json.Marshal(meta)
	return os.WriteFile(filepath.Join(*out, "meta.json"), b, 0o644)
}

func writeNDJSON(path string, n int, at func(int) interface{}) error {
	f, err := os.Create(path)
	if err != nil {
		return err
	}
	w := bufio.NewWriter(f)
	enc := json.NewEncoder(w)
	for i := 0; i < n; i++ {
		if err := enc.Encode(at(i)); err != nil {
			return err
		}
	}
	if err := w.Flush(); err != nil {
		return err
	}
	return f.Close()
}
