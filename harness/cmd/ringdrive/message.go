package main

import (
	"context"

	"github.com/TarsCloud/TarsGo/tars"
	"github.com/TarsCloud/TarsGo/tars/selector"
	"github.com/TarsCloud/TarsGo/tars/util/current"
)

// makeMessage builds the real tars.Message that carries a hash code to Selector.Select.
// Two of three probes set it directly (Message.SetHash); every third one takes the code through the
// client context (current.SetClientHash -> current.GetClientHash), which is where ServantProxy.TarsInvoke
// reads it from before it fills the message.
func makeMessage(code uint32, ht tars.HashType, k int) (selector.Message, string) {
	m := &tars.Message{}
	if k%3 != 2 {
		m.SetHash(code, ht)
		return m, "SetHash"
	}
	ctx := current.ContextWithClientCurrent(context.Background())
	current.SetClientHash(ctx, int(ht), code)
	if ok, hashType, hashCode, isHash := current.GetClientHash(ctx); ok && isHash {
		m.SetHash(hashCode, tars.HashType(hashType))
	}
	return m, "context"
}
