package main

import (
	"context"
	"encoding/binary"
	"fmt"
	"io"
	"math/rand"
	"net"
	"sync"
	"sync/atomic"
	"time"

	"github.com/TarsCloud/TarsGo/tars"
	"github.com/TarsCloud/TarsGo/tars/protocol/codec"
	"github.com/TarsCloud/TarsGo/tars/protocol/res/basef"
	"github.com/TarsCloud/TarsGo/tars/protocol/res/endpointf"
	"github.com/TarsCloud/TarsGo/tars/protocol/res/requestf"
	"github.com/TarsCloud/TarsGo/tars/registry"
	"github.com/TarsCloud/TarsGo/tars/util/current"
	"github.com/TarsCloud/TarsGo/tars/util/endpoint"
)

// End to end through the endpoint MANAGER: the endpoint list comes from a registry (not from the object
// name), so the manager's health logic is in force.  A scenario makes endpoints fail until the periodic
// status check takes them out of rotation ("blocked": the manager edits its own active list and calls
// Remove on its selectors) and lets them recover (probe call answered: the manager re-sorts its active
// list and calls Add on its selectors).  After the initial refresh and after every block / recovery every
// probe code is sent as a one-way call with current.SetClientHash; the server that RECEIVED the call is
// the answer TLC judges with the same reference as at the selector level: the history is
// refresh(installed list), remove(e), add(e), ... over the universe of the registry's endpoints.
//
// Registry refresh: the manager's own refresher (globalManager.updateEndpoints -> doFresh -> refreshEndpoints) runs on
// a 10 ms ticker; the scenario's registry holds every query after the first at a gate and lets exactly one through
// per "tick" step, so refreshes happen only where the script says, through the production path.  Every reply is a
// fresh copy in a random order that is NOT sorted by host (a registry owes nobody an order).  A tick whose reply
// names the set the registry named before is the step "tick": the endpoint set is unchanged, so the reference's
// installed list is unchanged and every code must stay where it was -- also when an endpoint has failed and come
// back in between (Add appends: the list is no longer in the order a rebuild would give it).  A tick that adds a
// spare endpoint, drops a healthy one or drops a blocked one is the step "refresh": the manager installs a new
// list, which the harness reads from ServantProxy.Endpoints() (the manager's own account of its current set) and
// compares, as an observation, with the registry's reply minus the endpoints that are blocked.
//
// Time: the health logic compares time.Now() with the adapters' timestamps; the harness moves the
// timestamps into the past (tars.VerifFailoverShift, test-only export) instead of waiting, and runs the
// periodic check itself (tars.VerifFailoverCheckStatus); the background status checker is quiesced.

type mgrServer struct {
	ln   net.Listener
	host string
	port int32
	mute int32 // 1: two-way requests are read but never answered
}

func (s *mgrServer) name() string { return fmt.Sprintf("%s:%d", s.host, s.port) }

type mgrArrivals struct {
	mu  sync.Mutex
	got map[string][]int // function name -> servers that received it
}

func (a *mgrArrivals) note(fn string, idx int) {
	a.mu.Lock()
	a.got[fn] = append(a.got[fn], idx)
	a.mu.Unlock()
}

func (a *mgrArrivals) where(fn string) []int {
	a.mu.Lock()
	defer a.mu.Unlock()
	return append([]int(nil), a.got[fn]...)
}

func serveMgr(s *mgrServer, idx int, arr *mgrArrivals) {
	for {
		c, err := s.ln.Accept()
		if err != nil {
			return
		}
		go func(c net.Conn) {
			defer c.Close()
			hdr := make([]byte, 4)
			for {
				if _, err := io.ReadFull(c, hdr); err != nil {
					return
				}
				n := binary.BigEndian.Uint32(hdr)
				if n < 4 || n > 10<<20 {
					return
				}
				body := make([]byte, n-4)
				if _, err := io.ReadFull(c, body); err != nil {
					return
				}
				var req requestf.RequestPacket
				if err := req.ReadFrom(codec.NewReader(body)); err != nil {
					continue
				}
				if req.SFuncName == "tars_ping" {
					continue
				}
				arr.note(req.SFuncName, idx)
				if req.CPacketType == basef.TARSONEWAY || atomic.LoadInt32(&s.mute) == 1 {
					continue
				}
				resp := requestf.ResponsePacket{IVersion: req.IVersion, IRequestId: req.IRequestId, SBuffer: []int8{}}
				buf := codec.NewBuffer()
				if err := resp.WriteTo(buf); err != nil {
					continue
				}
				b := buf.ToBytes()
				pkt := make([]byte, 4+len(b))
				binary.BigEndian.PutUint32(pkt, uint32(len(pkt)))
				copy(pkt[4:], b)
				if _, err := c.Write(pkt); err != nil {
					return
				}
			}
		}(c)
	}
}

// gatedRegistry answers the first query (the manager's initial refresh) at once; every later query -- they come from
// the manager's refresh ticker -- waits until the scenario grants a tick.  Replies are fresh slices in random,
// never host-sorted order.
type gatedRegistry struct {
	mu      sync.Mutex
	eps     []endpointf.EndpointF // the registry's active endpoints
	rng     *rand.Rand
	tokens  int  // ticks granted and not yet taken
	arrived int  // queries that have arrived
	served  int  // arrival number of the last query answered
	free    bool // scenario over: answer everything at once
}

var _ registry.Registrar = (*gatedRegistry)(nil)

func (r *gatedRegistry) Registry(context.Context, *registry.ServantInstance) error   { return nil }
func (r *gatedRegistry) Deregister(context.Context, *registry.ServantInstance) error { return nil }
func (r *gatedRegistry) QueryServant(context.Context, string) ([]registry.Endpoint, []registry.Endpoint, error) {
	r.mu.Lock()
	r.arrived++
	me := r.arrived
	for me > 1 && r.tokens == 0 && !r.free {
		r.mu.Unlock()
		time.Sleep(500 * time.Microsecond)
		r.mu.Lock()
	}
	if me > 1 && !r.free {
		r.tokens--
	}
	r.served = me
	out := r.shuffled()
	r.mu.Unlock()
	return out, nil, nil
}
func (r *gatedRegistry) QueryServantBySet(ctx context.Context, id, _ string) ([]registry.Endpoint, []registry.Endpoint, error) {
	return r.QueryServant(ctx, id)
}

// shuffled: a copy of the list in a random order that is not ascending by host (when there is more than one host)
func (r *gatedRegistry) shuffled() []endpointf.EndpointF {
	out := append([]endpointf.EndpointF(nil), r.eps...)
	for try := 0; try < 20; try++ {
		r.rng.Shuffle(len(out), func(i, j int) { out[i], out[j] = out[j], out[i] })
		asc := true
		for i := 1; i < len(out); i++ {
			asc = asc && out[i-1].Host <= out[i].Host
		}
		if !asc || len(out) < 2 {
			break
		}
	}
	return out
}

func (r *gatedRegistry) set(eps []endpointf.EndpointF) {
	r.mu.Lock()
	r.eps = append([]endpointf.EndpointF(nil), eps...)
	r.mu.Unlock()
}

// tick lets exactly one refresh of the manager through and returns when it has been carried out: the refresher is
// one goroutine, so the arrival of its NEXT query (which waits at the gate) means the previous refresh has returned.
func (r *gatedRegistry) tick() error {
	r.mu.Lock()
	r.tokens++
	r.mu.Unlock()
	deadline := time.Now().Add(10 * time.Second)
	for {
		r.mu.Lock()
		done := r.tokens == 0 && r.arrived > r.served
		r.mu.Unlock()
		if done {
			return nil
		}
		if time.Now().After(deadline) {
			return fmt.Errorf("the manager's refresher did not query the registry within 10 s (refresh interval %d ms)",
				tars.GetClientConfig().RefreshEndpointInterval)
		}
		time.Sleep(time.Millisecond)
	}
}

func (r *gatedRegistry) release() {
	r.mu.Lock()
	r.free = true
	r.mu.Unlock()
}

type mgrAction struct {
	kind string // block recover tick tick-add tick-drop tick-drop-blocked
	pos  int    // index into the reference list (block, tick-drop) / the blocked list (recover, tick-drop-blocked) / the
	// spare list (tick-add), reduced modulo its length
}

// mgrScript: which endpoints fail and recover, by position in the selector's installed list -- the first, a middle
// and the last position behave differently in code that edits lists in place -- and where the registry is asked again:
// with the same set (before a failure, while an endpoint is blocked, after it has come back), with a spare endpoint
// added or a healthy one dropped while another is blocked and still listed, with a blocked one dropped.
func mgrScript(pattern int, rng *rand.Rand) []mgrAction {
	switch pattern % 4 {
	case 0: // the first endpoint fails and comes back, the registry repeats itself; then a middle one fails
		return []mgrAction{{"tick", 0}, {"block", 0}, {"recover", 0}, {"tick", 0}, {"tick", 0}, {"block", 1}, {"tick", 0}}
	case 1: // a middle one and the first one fail; the registry grows while both are out; both come back one after the other
		return []mgrAction{{"block", 1}, {"block", 0}, {"tick-add", 0}, {"recover", 0}, {"tick", 0}, {"recover", 0}, {"tick", 0},
			{"tick-drop", 1}, {"tick", 0}}
	case 2: // the last one fails; the registry drops another endpoint; the failed one comes back; the first fails and is dropped
		return []mgrAction{{"block", -1}, {"tick-drop", 0}, {"recover", 0}, {"tick", 0}, {"block", 0}, {"tick-drop-blocked", 0},
			{"tick-add", 0}, {"tick", 0}}
	}
	var out []mgrAction
	kinds := []string{"block", "block", "recover", "recover", "tick", "tick", "tick-add", "tick-drop", "tick-drop-blocked"}
	for i := 0; i < 8; i++ {
		out = append(out, mgrAction{kinds[rng.Intn(len(kinds))], rng.Intn(8)})
	}
	return out
}

type mgrStats struct {
	Scenarios, Blocks, Recoveries, Calls, Steps int
	TicksSameSet, TicksSameSetAfterRecovery     int // refreshes whose reply named the same endpoints (in another order)
	TicksChangedSet, TicksWhileBlocked          int // refreshes that added / dropped an endpoint; ... while an endpoint was blocked
	RegistryQueries                             int
	// observations (the statement does not say which endpoints a refresh installs, nor in which order)
	ActiveSetNotReplyMinusBlocked []string // the manager's list after a refresh is not the reply minus the blocked endpoints
	ReorderedWithSameActiveSet    int      // a refresh (registry set changed) left the active set as it was and re-ordered the list
	Errors                        []string // scenarios that could not be completed (what was recorded until then is still judged)
}

// mgrScenarios runs the registry-fed scenarios and appends their universes and histories.
func mgrScenarios(seed int64, rng *rand.Rand, perKind int, uid, hid *int, unis *[]*Universe, hists *[]History) (*mgrStats, error) {
	const nsrv = 6
	stats := &mgrStats{}
	arr := &mgrArrivals{got: map[string][]int{}}
	var servers []*mgrServer
	for i := 0; i < nsrv; i++ {
		host := fmt.Sprintf("127.0.1.%d", i+1)
		ln, err := net.Listen("tcp", host+":0")
		if err != nil {
			return nil, fmt.Errorf("listen %s: %v", host, err)
		}
		s := &mgrServer{ln: ln, host: host, port: int32(ln.Addr().(*net.TCPAddr).Port)}
		servers = append(servers, s)
		go serveMgr(s, i, arr)
	}
	defer func() {
		for _, s := range servers {
			s.ln.Close()
		}
	}()
	si := 0
	for _, kind := range []string{"mod", "ketama", "modw", "ketamaw"} {
		for p := 0; p < perKind; p++ {
			si++
			if err := mgrScenario(seed, rng, si, kind, p, servers, arr, uid, hid, unis, hists, stats); err != nil {
				stats.Errors = append(stats.Errors, fmt.Sprintf("registry scenario %d (%s, pattern %d): %v", si, kind, p, err))
			}
			for _, s := range servers {
				atomic.StoreInt32(&s.mute, 0)
			}
		}
	}
	return stats, nil
}

func mgrScenario(seed int64, rng *rand.Rand, si int, kind string, pattern int, servers []*mgrServer, arr *mgrArrivals,
	uid, hid *int, unis *[]*Universe, hists *[]History, stats *mgrStats) error {
	weighted := kind == "ketamaw" || kind == "modw"
	perm := rng.Perm(len(servers))
	nreg := 4 + rng.Intn(2) // the registry starts with 4 or 5 endpoints; the other servers are spares it may add later
	sub := perm             // universe: every server, the registry's initial ones first
	var eps []EPDesc
	var epf []endpointf.EndpointF
	reg := &gatedRegistry{rng: rand.New(rand.NewSource(rng.Int63()))}
	for _, sidx := range sub {
		s := servers[sidx]
		d := EPDesc{Host: s.host, Port: s.port, Weight: 0, WType: 0}
		if weighted {
			d.Weight, d.WType = int32(1+rng.Intn(40)), static
		}
		eps = append(eps, d)
		epf = append(epf, endpointf.EndpointF{Host: s.host, Port: s.port, Timeout: 3000, Istcp: endpoint.TCP,
			Weight: d.Weight, WeightType: d.WType})
	}
	var regSet []int // endpoints the registry names
	for e := 1; e <= nreg; e++ {
		regSet = append(regSet, e)
	}
	var spare []int
	for e := nreg + 1; e <= len(sub); e++ {
		spare = append(spare, e)
	}
	publish := func() {
		var l []endpointf.EndpointF
		for _, e := range regSet {
			l = append(l, epf[e-1])
		}
		reg.set(l)
	}
	publish()
	defer reg.release()
	obj := fmt.Sprintf("C14.Mgr%d.Obj%d", seed, si)
	u := buildUniverse(*uid+1, kind, "e2e registry "+obj, eps, rng, 12, 8)
	comm := tars.NewCommunicator(tars.Registrar(reg))
	sp := tars.NewServantProxy(comm, obj)
	sp.TarsSetTimeout(3000)
	defer tars.VerifFailoverClose(sp)
	defer func() { reg.mu.Lock(); stats.RegistryQueries += reg.served; reg.mu.Unlock() }()

	nameOf := func(e int) string { return fmt.Sprintf("%s:%d", u.EPs[e-1].Host, u.EPs[e-1].Port) }
	srvOf := func(e int) *mgrServer { return servers[sub[e-1]] }
	epOfServer := map[int]int{}
	for j, sidx := range sub {
		epOfServer[sidx] = j + 1
	}
	var list []int // the reference's installed list: refresh order, Remove deletes, Add appends
	for _, ep := range sp.Endpoints() {
		list = append(list, identifyE2E(u, *ep))
	}
	if len(list) != len(regSet) {
		return fmt.Errorf("manager installed %d endpoints, registry has %d", len(list), len(regSet))
	}
	installed := append([]int{}, list...)
	h := History{U: u.ID, Label: "e2e-mgr-" + kind}
	// whatever was recorded is judged, also when the scenario cannot be completed
	defer func() {
		if len(h.Steps) > 0 {
			*uid++
			*unis = append(*unis, u)
			*hid++
			h.ID = *hid
			*hists = append(*hists, h)
		}
	}()
	stepNo := 0
	callSeq := 0

	hashCtx := func(code uint32) (context.Context, error) {
		ctx := current.ContextWithClientCurrent(context.Background())
		if !current.SetClientHash(ctx, int(u.hashType()), code) {
			return nil, fmt.Errorf("SetClientHash refused")
		}
		return ctx, nil
	}
	// route sends every probe code as a one-way call and records which server received it
	route := func(st Step) error {
		stepNo++
		prefix := fmt.Sprintf("m%d_%d_", si, stepNo)
		for k, c := range u.codes {
			ctx, err := hashCtx(c)
			if err != nil {
				return err
			}
			var resp requestf.ResponsePacket
			if err := sp.TarsInvoke(ctx, byte(basef.TARSONEWAY), fmt.Sprintf("%s%d", prefix, k), []byte{}, nil, nil, &resp); err != nil {
				return fmt.Errorf("one-way call failed (step %d, code %d): %v", stepNo, c, err)
			}
			stats.Calls++
		}
		st.Ans = make([]int, len(u.codes))
		deadline := time.Now().Add(10 * time.Second)
		for k := range u.codes {
			fn := fmt.Sprintf("%s%d", prefix, k)
			var w []int
			for {
				if w = arr.where(fn); len(w) > 0 || time.Now().After(deadline) {
					break
				}
				time.Sleep(2 * time.Millisecond)
			}
			if len(w) != 1 {
				return fmt.Errorf("call %s: received by servers %v (want exactly one)", fn, w)
			}
			st.Ans[k] = 99
			if e, ok := epOfServer[w[0]]; ok {
				st.Ans[k] = e
			}
		}
		st.List = append([]int{}, list...)
		st.Cycle = []int{}
		if kind == "modw" {
			var l []endpoint.Endpoint
			for _, m := range list {
				l = append(l, u.EPs[m-1].ep())
			}
			st.Cycle = append(st.Cycle, buildCycle(l)...)
		}
		if st.Eps == nil {
			st.Eps = []int{}
		}
		st.Via = "registry -> endpoint manager; current.SetClientHash -> ServantProxy.TarsInvoke (one-way) -> TCP"
		h.Steps = append(h.Steps, st)
		stats.Steps++
		return nil
	}
	active := func() map[string]bool {
		m := map[string]bool{}
		for _, n := range tars.VerifFailoverActive(sp) {
			m[n] = true
		}
		return m
	}
	// twoWay makes a call that expects an answer, with its own deadline
	twoWay := func(code uint32, d time.Duration) error {
		ctx, err := hashCtx(code)
		if err != nil {
			return err
		}
		ctx, cancel := context.WithTimeout(ctx, d)
		defer cancel()
		callSeq++
		var resp requestf.ResponsePacket
		return sp.TarsInvoke(ctx, byte(basef.TARSNORMAL), fmt.Sprintf("x%d_%d", si, callSeq), []byte{}, nil, nil, &resp)
	}

	if err := route(Step{Op: "refresh", Eps: installed}); err != nil {
		return err
	}
	var blocked []int
	recovered := false // an endpoint has come back since the manager last installed a list
	without := func(l []int, e int) []int {
		var out []int
		for _, m := range l {
			if m != e {
				out = append(out, m)
			}
		}
		return out
	}
	sameSet := func(a, b []int) bool {
		if len(a) != len(b) {
			return false
		}
		for _, x := range a {
			if indexOf(b, x) < 0 {
				return false
			}
		}
		return true
	}
	// refreshTick lets the manager refresh once; changed: the registry's set differs from the one it named before
	refreshTick := func(changed bool) error {
		publish()
		if err := reg.tick(); err != nil {
			return err
		}
		if len(blocked) > 0 {
			stats.TicksWhileBlocked++
		}
		if !changed {
			// the same endpoints in another order: nothing is installed, the reference keeps its list
			stats.TicksSameSet++
			if recovered {
				stats.TicksSameSetAfterRecovery++
			}
			return route(Step{Op: "tick"})
		}
		stats.TicksChangedSet++
		var now []int
		for _, ep := range sp.Endpoints() {
			now = append(now, identifyE2E(u, *ep))
		}
		want := append([]int{}, regSet...)
		for _, e := range blocked {
			want = without(want, e)
		}
		if !sameSet(now, want) {
			stats.ActiveSetNotReplyMinusBlocked = append(stats.ActiveSetNotReplyMinusBlocked,
				fmt.Sprintf("scenario %d: registry %v, blocked %v, manager's endpoints %v", si, regSet, blocked, now))
		}
		if sameSet(now, list) && fmt.Sprint(now) != fmt.Sprint(list) {
			stats.ReorderedWithSameActiveSet++
		}
		list = append([]int{}, now...)
		recovered = false
		return route(Step{Op: "refresh", Eps: append([]int{}, now...)})
	}
	for _, a := range mgrScript(pattern, rng) {
		last := h.Steps[len(h.Steps)-1]
		switch a.kind {
		case "tick":
			if err := refreshTick(false); err != nil {
				return err
			}
			continue
		case "tick-add":
			if len(spare) == 0 {
				continue
			}
			i := a.pos % len(spare)
			regSet = append(regSet, spare[i])
			spare = append(append([]int{}, spare[:i]...), spare[i+1:]...)
			if err := refreshTick(true); err != nil {
				return err
			}
			continue
		case "tick-drop":
			if len(list) <= 3 {
				continue
			}
			e := list[((a.pos%len(list))+len(list))%len(list)]
			regSet = without(regSet, e)
			spare = append(spare, e)
			if err := refreshTick(true); err != nil {
				return err
			}
			continue
		case "tick-drop-blocked":
			if len(blocked) == 0 {
				continue
			}
			e := blocked[a.pos%len(blocked)]
			// the manager forgets the endpoint's adapter with it: should the registry name it again, it is a new endpoint
			blocked = without(blocked, e)
			atomic.StoreInt32(&srvOf(e).mute, 0)
			regSet = without(regSet, e)
			spare = append(spare, e)
			if err := refreshTick(true); err != nil {
				return err
			}
			continue
		}
		if a.kind == "block" {
			if len(list) <= 2 {
				continue // keep at least two endpoints in rotation
			}
			// candidates: members that the last routing step sent some code to (a code is needed to make them fail)
			pos := ((a.pos % len(list)) + len(list)) % len(list)
			e, code, found := 0, uint32(0), false
			for off := 0; off < len(list) && !found; off++ {
				e = list[(pos+off)%len(list)]
				for _, k := range rng.Perm(len(last.Ans)) { // any code the last step saw arriving at e
					if last.Ans[k] == e {
						code, found = u.codes[k], true
						break
					}
				}
			}
			if !found {
				continue
			}
			// five consecutive failures: the server reads the requests and stays silent
			atomic.StoreInt32(&srvOf(e).mute, 1)
			var wg sync.WaitGroup
			for i := 0; i < 5; i++ {
				wg.Add(1)
				go func() { defer wg.Done(); _ = twoWay(code, 40*time.Millisecond) }()
			}
			wg.Wait()
			if hl := tars.VerifFailoverHealthOf(sp)[nameOf(e)]; hl.LastFailCount < 5 {
				return fmt.Errorf("could not make %s fail: %d consecutive failures after five unanswered calls with code %d "+
					"(the previous call with this code was received by it)", nameOf(e), hl.LastFailCount, code)
			}
			tars.VerifFailoverShift(sp, 6) // more than 5 s without a success
			tars.VerifFailoverCheckStatus(sp)
			if active()[nameOf(e)] {
				return fmt.Errorf("%s still in the manager's active list after five failures and a status check", nameOf(e))
			}
			for i, m := range list {
				if m == e {
					list = append(append([]int{}, list[:i]...), list[i+1:]...)
					break
				}
			}
			blocked = append(blocked, e)
			stats.Blocks++
			if err := route(Step{Op: "remove", E: e}); err != nil {
				return err
			}
		} else {
			if len(blocked) == 0 {
				continue
			}
			bi := a.pos % len(blocked)
			e := blocked[bi]
			atomic.StoreInt32(&srvOf(e).mute, 0)
			tars.VerifFailoverShift(sp, 31) // blocked for more than 30 s: due for a probe
			tars.VerifFailoverCheckStatus(sp)
			queue, _ := tars.VerifFailoverProbeQueue(sp)
			inQueue := false
			for _, n := range queue {
				inQueue = inQueue || n == nameOf(e)
			}
			if !inQueue {
				return fmt.Errorf("%s is not queued for a probe after 31 s of being blocked (queue %v)", nameOf(e), queue)
			}
			// the next calls are diverted to the queued endpoints, whatever their hash code: the one of e is answered
			// (it comes back), the others are not (they stay blocked)
			for _, n := range queue {
				d := 60 * time.Millisecond
				if n == nameOf(e) {
					d = 3 * time.Second
				}
				err := twoWay(u.codes[rng.Intn(len(u.codes))], d)
				if n == nameOf(e) && err != nil {
					return fmt.Errorf("probe call to %s failed: %v", n, err)
				}
			}
			deadline := time.Now().Add(5 * time.Second)
			for !active()[nameOf(e)] && time.Now().Before(deadline) {
				time.Sleep(2 * time.Millisecond)
			}
			if !active()[nameOf(e)] {
				return fmt.Errorf("%s not back in the manager's active list after an answered probe call", nameOf(e))
			}
			if q, _ := tars.VerifFailoverProbeQueue(sp); len(q) != 0 {
				return fmt.Errorf("probe queue not drained: %v", q)
			}
			blocked = append(append([]int{}, blocked[:bi]...), blocked[bi+1:]...)
			list = append(list, e)
			recovered = true
			stats.Recoveries++
			if err := route(Step{Op: "add", E: e}); err != nil {
				return err
			}
		}
	}
	stats.Scenarios++
	return nil
}
