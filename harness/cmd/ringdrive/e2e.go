package main

import (
	"context"
	"encoding/binary"
	"encoding/json"
	"flag"
	"fmt"
	"io"
	"math/rand"
	"net"
	"os"
	"path/filepath"
	"strings"
	"sync"
	"time"

	"github.com/TarsCloud/TarsGo/tars"
	"github.com/TarsCloud/TarsGo/tars/protocol/codec"
	"github.com/TarsCloud/TarsGo/tars/protocol/res/basef"
	"github.com/TarsCloud/TarsGo/tars/protocol/res/requestf"
	"github.com/TarsCloud/TarsGo/tars/selector"
	"github.com/TarsCloud/TarsGo/tars/util/current"
	"github.com/TarsCloud/TarsGo/tars/util/endpoint"
	"github.com/TarsCloud/TarsGo/tars/util/rogger"
)

// End to end: scripted TCP servers on distinct loopback hosts; a real ServantProxy over a direct
// endpoint list; one-way calls made with current.SetClientHash; the server that RECEIVED each call is
// recorded.  The installed list is read back with ServantProxy.Endpoints().

type e2eServer struct {
	ln   net.Listener
	host string
	port int32
}

type arrivals struct {
	mu  sync.Mutex
	got map[string]int // function name -> server index
	dup map[string]bool
}

func (a *arrivals) note(fn string, idx int) {
	a.mu.Lock()
	if prev, ok := a.got[fn]; ok && prev != idx {
		a.dup[fn] = true
	}
	a.got[fn] = idx
	a.mu.Unlock()
}

func (a *arrivals) count() int {
	a.mu.Lock()
	defer a.mu.Unlock()
	return len(a.got)
}

func serve(s *e2eServer, idx int, arr *arrivals) {
	for {
		c, err := s.ln.Accept()
		if err != nil {
			return
		}
		go func(c net.Conn) {
			defer c.Close()
			hdr := make([]byte, 4)
			for {
				if _, err := io.ReadFull(c, hdr); err != nil {
					return
				}
				n := binary.BigEndian.Uint32(hdr)
				if n < 4 || n > 10<<20 {
					return
				}
				body := make([]byte, n-4)
				if _, err := io.ReadFull(c, body); err != nil {
					return
				}
				var req requestf.RequestPacket
				if err := req.ReadFrom(codec.NewReader(body)); err != nil {
					continue
				}
				arr.note(req.SFuncName, idx)
			}
		}(c)
	}
}

func cmdE2E(args []string) error {
	fs := flag.NewFlagSet("e2e", flag.ExitOnError)
	seed := fs.Int64("seed", 1, "seed")
	out := fs.String("out", ".", "output directory")
	firstU := fs.Int("first-u", 1, "first universe id")
	firstH := fs.Int("first-h", 1, "first history id")
	scen := fs.Int("scenarios", 6, "scenarios per selector kind")
	mgrScen := fs.Int("mgr-scenarios", 3, "registry-fed scenarios (endpoints fail and recover) per selector kind")
	fs.Parse(args)
	// the manager's background status checker / refresher must not tick on their own: the registry-fed scenarios run
	// the status check themselves
	if !tars.VerifFailoverQuiesce() {
		return fmt.Errorf("endpoint manager already running: cannot quiesce its tickers")
	}
	// ... except the refresher: it runs every 10 ms, and the registry of a registry-fed scenario decides which of its
	// queries is answered when (e2e_mgr.go); direct proxies are never refreshed
	tars.GetClientConfig().RefreshEndpointInterval = 10
	rng := rand.New(rand.NewSource(*seed*104729 + 7))
	rogger.SetLevel(rogger.OFF)

	const nsrv = 5
	var servers []*e2eServer
	arr := &arrivals{got: map[string]int{}, dup: map[string]bool{}}
	for i := 0; i < nsrv; i++ {
		host := fmt.Sprintf("127.0.0.%d", i+1)
		ln, err := net.Listen("tcp", host+":0")
		if err != nil {
			return fmt.Errorf("listen %s: %v", host, err)
		}
		s := &e2eServer{ln: ln, host: host, port: int32(ln.Addr().(*net.TCPAddr).Port)}
		servers = append(servers, s)
		go serve(s, i, arr)
	}
	defer func() {
		for _, s := range servers {
			s.ln.Close()
		}
	}()

	comm := tars.NewCommunicator()
	var unis []*Universe
	var hists []History
	uid, hid := *firstU-1, *firstH-1
	calls := 0
	type scenario struct {
		kind   string
		subset []int // server indices, in the order written into the object name
		w      []int32
	}
	var scs []scenario
	for _, kind := range []string{"ketama", "mod", "ketamaw", "modw"} {
		for i := 0; i < *scen; i++ {
			sub := randomSubsetPerm(rng, nsrv, 2)
			sc := scenario{kind: kind}
			for _, e := range sub {
				sc.subset = append(sc.subset, e-1)
				sc.w = append(sc.w, int32(4+rng.Intn(60)))
			}
			scs = append(scs, sc)
		}
	}
	for si, sc := range scs {
		weighted := sc.kind == "ketamaw" || sc.kind == "modw"
		var parts []string
		var eps []EPDesc
		for j, sidx := range sc.subset {
			s := servers[sidx]
			d := EPDesc{Host: s.host, Port: s.port, Weight: -1, WType: 0}
			str := fmt.Sprintf("tcp -h %s -p %d -t 3000", s.host, s.port)
			if weighted {
				d.Weight, d.WType = sc.w[j], static
				str += fmt.Sprintf(" -w %d -v 1", sc.w[j])
			}
			parts = append(parts, str)
			eps = append(eps, d)
		}
		obj := fmt.Sprintf("C14.E2E%d.Obj%d@%s", *seed, si, strings.Join(parts, ":"))
		uid++
		u := buildUniverse(uid, sc.kind, "e2e "+obj, eps, rng, 12, 8)
		unis = append(unis, u)
		sp := tars.NewServantProxy(comm, obj)
		// the installed list as the manager reports it
		var installed []int
		for _, ep := range sp.Endpoints() {
			installed = append(installed, identifyE2E(u, *ep))
		}
		prefix := fmt.Sprintf("s%d_", si)
		for k, c := range u.codes {
			ctx := current.ContextWithClientCurrent(context.Background())
			if !current.SetClientHash(ctx, int(u.hashType()), c) {
				return fmt.Errorf("SetClientHash refused")
			}
			var resp requestf.ResponsePacket
			if err := sp.TarsInvoke(ctx, byte(basef.TARSONEWAY), fmt.Sprintf("%s%d", prefix, k), []byte{}, nil, nil, &resp); err != nil {
				return fmt.Errorf("one-way call failed (scenario %d, code %d): %v", si, c, err)
			}
			calls++
		}
		// wait for the arrivals of this scenario
		deadline := time.Now().Add(10 * time.Second)
		for arr.count() < calls && time.Now().Before(deadline) {
			time.Sleep(5 * time.Millisecond)
		}
		if arr.count() < calls {
			return fmt.Errorf("scenario %d: only %d of %d calls arrived", si, arr.count(), calls)
		}
		st := Step{Op: "refresh", Eps: installed, List: installed, Cycle: []int{}, Via: "current.SetClientHash -> ServantProxy.TarsInvoke (one-way) -> TCP"}
		st.Ans = make([]int, len(u.codes))
		arr.mu.Lock()
		for k := range u.codes {
			fn := fmt.Sprintf("%s%d", prefix, k)
			sidx, ok := arr.got[fn]
			if !ok || arr.dup[fn] {
				arr.mu.Unlock()
				return fmt.Errorf("call %s: arrival missing or duplicated", fn)
			}
			st.Ans[k] = 99
			for j, e := range sc.subset {
				if e == sidx {
					st.Ans[k] = j + 1
				}
			}
		}
		arr.mu.Unlock()
		if sc.kind == "modw" {
			var l []endpoint.Endpoint
			for _, m := range installed {
				l = append(l, *sp.Endpoints()[indexOf(installed, m)])
			}
			st.Cycle = append(st.Cycle, buildCycle(l)...)
		}
		hid++
		hists = append(hists, History{ID: hid, U: uid, Label: "e2e-" + sc.kind, Steps: []Step{st}})
	}
	// registry-fed proxies: endpoints are blocked by the manager's status check and recover (e2e_mgr.go)
	mst, err := mgrScenarios(*seed, rng, *mgrScen, &uid, &hid, &unis, &hists)
	if err != nil {
		mst = &mgrStats{Errors: []string{err.Error()}} // the direct scenarios are still written and judged
	}
	if err := writeNDJSON(filepath.Join(*out, "e2e_unis.ndjson"), len(unis), func(i int) interface{} { return unis[i] }); err != nil {
		return err
	}
	if err := writeNDJSON(filepath.Join(*out, "e2e_hists.ndjson"), len(hists), func(i int) interface{} { return hists[i] }); err != nil {
		return err
	}
	b, _ := json.Marshal(map[string]interface{}{"servers": nsrv, "scenarios": len(scs), "calls": calls,
		"registry": map[string]int{"scenarios": mst.Scenarios, "endpoint_blocked": mst.Blocks, "endpoint_recovered": mst.Recoveries,
			"routing_steps_judged": mst.Steps, "calls": mst.Calls,
			"refresh_same_set_other_order": mst.TicksSameSet, "refresh_same_set_after_a_recovery": mst.TicksSameSetAfterRecovery,
			"refresh_changed_set": mst.TicksChangedSet, "refresh_while_an_endpoint_is_blocked": mst.TicksWhileBlocked,
			"registry_queries_answered":                          mst.RegistryQueries,
			"obs_refresh_reordered_list_of_unchanged_active_set": mst.ReorderedWithSameActiveSet,
			"obs_active_set_not_reply_minus_blocked":             len(mst.ActiveSetNotReplyMinusBlocked)},
		"registry_observations": mst.ActiveSetNotReplyMinusBlocked, "registry_errors": mst.Errors})
	return os.WriteFile(filepath.Join(*out, "e2e_meta.json"), b, 0o644)
}

func indexOf(l []int, x int) int {
	for i, v := range l {
		if v == x {
			return i
		}
	}
	return -1
}

func identifyE2E(u *Universe, ep endpoint.Endpoint) int {
	for i, d := range u.EPs {
		if d.Host == ep.Host && d.Port == ep.Port {
			return i + 1
		}
	}
	return 99
}

func buildCycle(l []endpoint.Endpoint) []int { return selector.BuildStaticWeightList(l) }
