package main

import (
	"context"
	"encoding/binary"
	"encoding/json"
	"flag"
	"fmt"
	"io"
	"math/rand"
	"net"
	"sync"
	"sync/atomic"
	"syscall"
	"time"

	"github.com/TarsCloud/TarsGo/tars/protocol"
	"github.com/TarsCloud/TarsGo/tars/transport"
	"github.com/TarsCloud/TarsGo/tars/util/vhook"
	"verifharness/internal/tr"
)

func init() { register("clientconn-trace", clientconnTrace) }

// one scenario at a time
type ccState struct {
	mu      sync.Mutex
	rec     *tr.Rec
	client  *transport.TarsClient
	conns   map[string]int // client-side local address -> connection index k
	nconn   int
	replies map[int]chan struct{}
	delays  map[string]time.Duration // schedule perturbation: hook point -> delay (applies to connection delayK, 0 = any)
	delayK  int
	hits    map[string]int
}

var cc = &ccState{hits: map[string]int{}}

type ccProto struct{}

func (ccProto) ParsePackage(b []byte) (int, int) { return protocol.TarsRequest(b) }
func (ccProto) Recv(pkg []byte) {
	if len(pkg) >= 8 {
		r := int(binary.BigEndian.Uint32(pkg[4:8]))
		cc.mu.Lock()
		ch := cc.replies[r]
		cc.mu.Unlock()
		if ch != nil {
			select {
			case <-ch:
			default:
				close(ch)
			}
		}
	}
}

func ccReq(a []interface{}, i int) int {
	if len(a) > i {
		if p, ok := a[i].([]byte); ok && len(p) >= 8 {
			return int(binary.BigEndian.Uint32(p[4:8]))
		}
	}
	return 0
}

func ccHook(point string, a ...interface{}) {
	cc.mu.Lock()
	cc.hits[point]++
	rec := cc.rec
	if rec == nil {
		cc.mu.Unlock()
		return
	}
	// which connection?
	k := 0
	var conn net.Conn
	for _, x := range a {
		if c, ok := x.(net.Conn); ok && c != nil {
			conn = c
		}
	}
	if len(a) == 0 {
		cc.mu.Unlock()
		return
	}
	if tc, ok := a[0].(*transport.TarsClient); ok && tc != cc.client {
		cc.mu.Unlock()
		return
	}
	if conn != nil {
		la := conn.LocalAddr().String()
		if point == "client.reconnect.dialed" {
			cc.nconn++
			cc.conns[la] = cc.nconn
		}
		k = cc.conns[la]
		if k == 0 {
			cc.mu.Unlock()
			return // not a connection of this scenario
		}
	}
	d := cc.delays[point]
	if d > 0 && cc.delayK != 0 && cc.delayK != k {
		d = 0
	}
	if dk, ok := cc.delays[fmt.Sprintf("%s#%d", point, k)]; ok { // a delay for this point on connection k only
		d = dk
	}
	// events are emitted under the state lock so that their order is the order of the hook calls
	switch point {
	case "client.reconnect.dialed":
		rec.Emit("Dialed", "k", k)
	case "client.Send.enqueue":
		rec.Emit("EnqHook", "r", ccReq(a, 1))
	case "client.close":
		if conn != nil {
			rec.Emit("Close", "k", k)
		}
	case "client.send.liveCheck":
		rec.Emit("LiveCheck", "k", k, "live", a[2].(bool))
	case "client.send.dequeued":
		rec.Emit("Dequeued", "k", k, "r", ccReq(a, 1))
	case "client.send.writeError":
		rec.Emit("WriteError", "k", k, "r", ccReq(a, 1))
	case "client.send.requeued":
		rec.Emit("Requeued", "k", k, "r", ccReq(a, 1))
	case "client.send.tick":
		rec.Emit("Tick", "k", k)
	case "client.send.tickExit":
		rec.Emit("TickExit", "k", k)
	case "client.recv.exit":
		rec.Emit("RecvExit", "k", k)
	}
	cc.mu.Unlock()
	if d > 0 {
		time.Sleep(d)
	}
}

// harness server: answers every request, closes connections on command, can stop listening and come back on the same port
type ccServer struct {
	ln      net.Listener
	addr    *net.TCPAddr
	reserve int // a bound, non-listening socket that keeps the port ours while the listener is closed (-1: none)
	mu      sync.Mutex
	down    bool
	conns   map[int]net.Conn // by k
	delay   map[int]time.Duration // request -> how long the server takes to answer it
}

const soReusePort = 0xf // SO_REUSEPORT (linux)

func ccListen(addr string) (net.Listener, error) {
	lc := net.ListenConfig{Control: func(network, address string, c syscall.RawConn) error {
		var e error
		if err := c.Control(func(fd uintptr) { e = syscall.SetsockoptInt(int(fd), syscall.SOL_SOCKET, soReusePort, 1) }); err != nil {
			return err
		}
		return e
	}}
	return lc.Listen(context.Background(), "tcp", addr)
}

func newCCServer() *ccServer {
	ln, err := ccListen("127.0.0.1:0")
	if err != nil {
		panic(err)
	}
	s := &ccServer{ln: ln, addr: ln.Addr().(*net.TCPAddr), reserve: -1, conns: map[int]net.Conn{}, delay: map[int]time.Duration{}}
	// no other process can be given this port while the listener is closed (connections to it are refused meanwhile)
	if fd, err := syscall.Socket(syscall.AF_INET, syscall.SOCK_STREAM, 0); err == nil {
		sa := &syscall.SockaddrInet4{Port: s.addr.Port, Addr: [4]byte{127, 0, 0, 1}}
		if syscall.SetsockoptInt(fd, syscall.SOL_SOCKET, soReusePort, 1) == nil && syscall.Bind(fd, sa) == nil {
			s.reserve = fd
		} else {
			syscall.Close(fd)
		}
	}
	go s.serve(ln)
	return s
}

func (s *ccServer) serve(ln net.Listener) {
	for {
		c, err := ln.Accept()
		if err != nil {
			return
		}
		go func(c net.Conn) {
			ra := c.RemoteAddr().String()
			k := 0
			for i := 0; i < 2000 && k == 0; i++ { // the Dialed hook registers the client's local address
				cc.mu.Lock()
				k = cc.conns[ra]
				cc.mu.Unlock()
				if k == 0 {
					time.Sleep(100 * time.Microsecond)
				}
			}
			s.mu.Lock()
			if s.down { // accepted while the server was going down: gone with it
				s.mu.Unlock()
				c.Close()
				return
			}
			s.conns[k] = c
			s.mu.Unlock()
			hdr := make([]byte, 4)
			for {
				if _, err := io.ReadFull(c, hdr); err != nil {
					return
				}
				body := make([]byte, binary.BigEndian.Uint32(hdr)-4)
				if _, err := io.ReadFull(c, body); err != nil {
					return
				}
				r := int(binary.BigEndian.Uint32(body[:4]))
				cc.mu.Lock()
				rec := cc.rec
				cc.mu.Unlock()
				rsp := append(append([]byte{}, hdr...), body...)
				// receiving, answering and closing are serialised (s.mu), so that the recorded order is the real one: a request
				// read after the scenario has closed the connection was in flight and is gone with it
				s.mu.Lock()
				if s.conns[k] != c {
					s.mu.Unlock()
					return
				}
				d := s.delay[r]
				if rec != nil {
					rec.Emit("SrvRecv", "k", k, "r", r)
				}
				if d > 0 { // a slow answer: the connection keeps being read meanwhile
					s.mu.Unlock()
					go func() {
						time.Sleep(d)
						s.mu.Lock()
						defer s.mu.Unlock()
						if s.conns[k] != c {
							return
						}
						if rec != nil {
							rec.Emit("SrvReply", "k", k, "r", r)
						}
						c.Write(rsp)
					}()
					continue
				}
				if rec != nil {
					rec.Emit("SrvReply", "k", k, "r", r)
				}
				c.Write(rsp)
				s.mu.Unlock()
			}
		}(c)
	}
}

const ccSettle = 15 * time.Millisecond

// closeConn closes connection k of the server (0: the newest); abortive = RST instead of FIN (a killed or restarted server)
func (s *ccServer) closeConn(rec *tr.Rec, k int, abortive bool) int {
	s.mu.Lock()
	defer s.mu.Unlock()
	if k == 0 {
		for kk := range s.conns {
			if kk > k {
				k = kk
			}
		}
	}
	c := s.conns[k]
	delete(s.conns, k)
	if c == nil {
		return 0
	}
	rec.Emit("SrvClose", "k", k)
	if tc, ok := c.(*net.TCPConn); ok && abortive {
		tc.SetLinger(0)
	}
	c.Close()
	return k
}

// stop = the server goes away: listener and every connection closed; the endpoint refuses connections from SrvDown on
func (s *ccServer) stop(rec *tr.Rec, rng *rand.Rand) {
	rec.Emit("SrvStopping")
	s.mu.Lock()
	s.down = true
	var ks []int
	for k := range s.conns {
		ks = append(ks, k)
	}
	s.mu.Unlock()
	lnFirst := rng.Intn(2) == 0
	if lnFirst {
		s.ln.Close()
	}
	for _, k := range ks {
		s.closeConn(rec, k, rng.Intn(2) == 0)
	}
	if !lnFirst {
		s.ln.Close()
	}
	time.Sleep(ccSettle)
	rec.Emit("SrvDown")
}

// start = the listener comes back on the same port
func (s *ccServer) start(rec *tr.Rec) bool {
	rec.Emit("SrvStarting")
	var ln net.Listener
	var err error
	for i := 0; i < 200; i++ {
		if ln, err = ccListen(s.addr.String()); err == nil {
			break
		}
		time.Sleep(5 * time.Millisecond)
	}
	if err != nil {
		return false
	}
	s.mu.Lock()
	s.ln, s.down = ln, false
	s.mu.Unlock()
	go s.serve(ln)
	time.Sleep(ccSettle)
	rec.Emit("SrvUp")
	return true
}

func (s *ccServer) shutdown() {
	s.mu.Lock()
	s.down = true
	s.ln.Close()
	for _, c := range s.conns {
		c.Close()
	}
	s.mu.Unlock()
	if s.reserve >= 0 {
		syscall.Close(s.reserve)
	}
}

// scheduling canary: by how much 2 ms sleeps overran during the scenario (longest overrun; sum of the overruns of 10 ms and
// more).  A call that timed out while the machine stalled for a sizeable part of its timeout says nothing about "without
// waiting for its timeout": the run is dropped (and counted).
type ccCanary struct {
	stop chan struct{}
	max  int64 // ns
	sum  int64 // ns
}

func startCanary() *ccCanary {
	c := &ccCanary{stop: make(chan struct{})}
	go func() {
		for {
			select {
			case <-c.stop:
				return
			default:
			}
			t0 := time.Now()
			time.Sleep(2 * time.Millisecond)
			over := int64(time.Since(t0) - 2*time.Millisecond)
			if over > atomic.LoadInt64(&c.max) {
				atomic.StoreInt64(&c.max, over)
			}
			if over >= int64(10*time.Millisecond) {
				atomic.AddInt64(&c.sum, over)
			}
		}
	}()
	return c
}

var ccClasses = []string{"restart", "heldrecv", "handover", "random", "heldrecv", "overlap", "doubleclose", "random"}

type ccStats struct {
	Classes   map[string]int `json:"classes"`
	Dropped   int            `json:"dropped_disturbed"`
	Abandoned int            `json:"abandoned_relisten"`
	MaxStall  int            `json:"max_stall_ms"`
	Handovers int            `json:"handovers"`
	SendErrs  int            `json:"send_errors"`
	ShortTO   int            `json:"scenarios_with_short_timeout"`
}

var ccSt = ccStats{Classes: map[string]int{}}

// ccScenario runs scenario number idx; longTO is the call timeout of the scenarios that do not use a short one
func ccScenario(rng *rand.Rand, idx int, longTO time.Duration, only string) []tr.Ev {
	rec := tr.New()
	srv := newCCServer()
	client := transport.NewTarsClient(srv.addr.String(), ccProto{}, &transport.TarsClientConf{Proto: "tcp", QueueLen: 100,
		IdleTimeout: time.Hour, ReadTimeout: 100 * time.Millisecond, DialTimeout: time.Second})
	class := ccClasses[idx%len(ccClasses)]
	if only != "" {
		class = only
	}
	// "without waiting for its timeout" holds for any timeout: part of the scenarios use one below the sender's 1 s ticker period
	// (every intended delay of a scenario is below 200 ms)
	timeout := longTO
	// (overlap and doubleclose delay answers and senders by up to 150 ms on purpose and keep the long timeout)
	if class == "handover" || class == "restart" || class == "heldrecv" || (class == "random" && rng.Intn(2) == 0) {
		timeout = time.Duration([]int{600, 700, 800}[rng.Intn(3)]) * time.Millisecond
	}
	cc.mu.Lock()
	cc.rec, cc.client, cc.conns, cc.nconn, cc.replies = rec, client, map[string]int{}, 0, map[int]chan struct{}{}
	cc.delays, cc.delayK = map[string]time.Duration{}, 0
	// schedule perturbation for this scenario
	points := []string{"client.send.writeError", "client.send.requeued", "client.send.pollFail", "client.send.beforeSelect", "client.send.top",
		"client.recv.readError", "client.recv.exit", "client.close", "client.send.dequeued"}
	if class == "random" {
		switch rng.Intn(4) {
		case 0: // none
		case 1: // the old sender is slow to requeue: the new sender is parked before the failed request reappears
			cc.delays["client.send.writeError"] = time.Duration(2+rng.Intn(10)) * time.Millisecond
		default:
			for n := 1 + rng.Intn(2); n > 0; n-- {
				cc.delays[points[rng.Intn(len(points))]] = time.Duration(1+rng.Intn(8)) * time.Millisecond
			}
			if rng.Intn(3) == 0 {
				// one goroutine is not scheduled for a long while (longer than most gaps between the calls).  A request may pass the
				// held point a few times (old sender, new sender, once more after a write error): the sum stays far below the timeout
				d := 40 + rng.Intn(100)
				if timeout < time.Second {
					d = 40 + rng.Intn(50)
				}
				cc.delays[points[rng.Intn(len(points))]] = time.Duration(d) * time.Millisecond
			}
			cc.delayK = rng.Intn(3) // 0 = every connection
		}
	}
	cc.mu.Unlock()
	canary := startCanary()
	setDelays := func(k int, d map[string]time.Duration) {
		cc.mu.Lock()
		cc.delays, cc.delayK = d, k
		cc.mu.Unlock()
	}
	disturbed := false // a call timed out while the machine stalled for more than a fifth of the timeout
	call := func(r int) bool {
		ch := make(chan struct{})
		cc.mu.Lock()
		cc.replies[r] = ch
		cc.mu.Unlock()
		p := make([]byte, 8)
		binary.BigEndian.PutUint32(p, 8)
		binary.BigEndian.PutUint32(p[4:], uint32(r))
		rec.Emit("CallStart", "r", r)
		t0 := time.Now()
		stall0 := atomic.LoadInt64(&canary.sum)
		ok, timedOut := false, false
		if err := client.Send(p); err == nil {
			select {
			case <-ch:
				ok = true
			case <-time.After(timeout):
				timedOut = true
			}
		} else {
			rec.Emit("SendErr", "r", r, "err", err.Error()) // ReConnect's error: the dial failed (or a failed dial was shared)
		}
		rec.Emit("CallEnd", "r", r, "ok", ok, "ms", int(time.Since(t0).Milliseconds()), "to", int(timeout.Milliseconds()))
		if timedOut {
			time.Sleep(3 * time.Millisecond) // let the canary finish the sleep it is in
			if time.Duration(atomic.LoadInt64(&canary.sum)-stall0) > timeout/5 {
				cc.mu.Lock()
				disturbed = true
				cc.mu.Unlock()
			}
		}
		return ok
	}
	bg := func(r int) chan struct{} {
		done := make(chan struct{})
		go func() { call(r); close(done) }()
		return done
	}
	ms := func(n int) { time.Sleep(time.Duration(n) * time.Millisecond) }
	closeNewest := func() { srv.closeConn(rec, 0, rng.Intn(2) == 0) }
	gaps := []int{0, 1, 5, 30, 200, 1100}
	abandoned := false
	r := 0
	switch class {
	case "restart":
		// the server goes away (connections and listener closed) and comes back on the same port; calls made while the endpoint
		// refuses connections may fail (the premise does not hold for them); every call issued once it listens again and the
		// client has seen the closes must succeed, without waiting for its timeout
		for cycle, ncyc := 0, 1+rng.Intn(2); cycle < ncyc && r+4 <= 8 && !abandoned; cycle++ {
			r++
			call(r)
			if cycle == 0 && rng.Intn(4) == 0 { // an idle close before the restart: the restart then finds the client without a connection
				closeNewest()
				ms(gaps[rng.Intn(4)])
			}
			srv.stop(rec, rng)
			ms([]int{0, 1, 5, 30}[rng.Intn(4)])
			switch rng.Intn(4) {
			case 0: // nobody calls during the downtime
			case 1, 2:
				r++
				call(r)
			case 3: // two callers at once: the second may be queued behind the first one's failing dial
				d1, d2 := bg(r+1), bg(r+2)
				r += 2
				<-d1
				<-d2
			}
			ms([]int{0, 5, 50}[rng.Intn(3)])
			if !srv.start(rec) {
				abandoned = true
				break
			}
			ms(gaps[rng.Intn(len(gaps))])
			r++
			call(r)
		}
		if !abandoned && r < 8 && rng.Intn(2) == 0 {
			r++
			call(r)
		}
	case "heldrecv":
		// the receiver of connection 1 is slow to report the loss (held at its read-error hook, or after close() at its exit hook,
		// for longer than the rest of the scenario takes): the sender notices first (failed write), the next call dials connection 2,
		// which the server closes as well (or the server restarts); only then the receiver of connection 1 reports
		pt := "client.recv.readError#1"
		if rng.Intn(4) == 0 {
			pt = "client.recv.exit#1"
		}
		hold := time.Duration(90+rng.Intn(80)) * time.Millisecond
		call(1)
		setDelays(0, map[string]time.Duration{pt: hold})
		t0 := time.Now()
		srv.closeConn(rec, 0, rng.Intn(4) != 0) // mostly RST: the next write fails at once
		ms(3 + rng.Intn(5))
		d2 := bg(2) // races with a close the client has not seen yet (exempt); its failed write makes the sender close connection 1
		ms(10 + rng.Intn(10))
		call(3) // issued after the sender's close
		<-d2
		switch rng.Intn(3) {
		case 0, 1:
			closeNewest() // connection 2: its receiver reports at once
		case 2:
			srv.stop(rec, rng)
			r = 4
			call(r) // while the endpoint refuses connections
			if !srv.start(rec) {
				abandoned = true
			}
		}
		if !abandoned {
			early := rng.Intn(2) == 0
			if !early { // usually wait until the receiver of connection 1 has reported at last
				if rest := hold + 25*time.Millisecond - time.Since(t0); rest > 0 {
					time.Sleep(rest)
				}
			} else {
				ms(gaps[rng.Intn(4)])
			}
			if r < 4 {
				r = 3
			}
			r++
			call(r)
			r++
			call(r)
			if early && r < 7 {
				// the receiver of connection 1 reports only now, while the healthy connection dialled for the calls above is in
				// use: its late report must not be taken for a loss of that connection -- the calls after it succeed on it
				if rest := hold + 25*time.Millisecond - time.Since(t0); rest > 0 {
					time.Sleep(rest)
				}
				r++
				call(r)
				r++
				call(r)
			}
		}
	case "handover":
		// hand-over to the sender of the live connection: the sender of connection 1 is held just before its blocking select while
		// the server closes the connection and the client sees it; the next call dials connection 2 and queues its request; the
		// old sender wakes with both the request and its shutdown signal ready (Go picks at random); if it takes the request it must
		// hand it over, and the sender of connection 2 (entering its select later, or already parked) must send it at once
		a := time.Duration(25+rng.Intn(15)) * time.Millisecond
		b := a + time.Duration(15+rng.Intn(15))*time.Millisecond
		if rng.Intn(3) == 0 {
			b = 0
		}
		setDelays(0, map[string]time.Duration{"client.send.beforeSelect#1": a, "client.send.beforeSelect#2": b})
		call(1)
		closeNewest()
		ms(2 + rng.Intn(4))
		if b == 0 { // two calls at once: one may go to the new sender directly, the other through the old one
			d2, d3 := bg(2), bg(3)
			<-d2
			<-d3
			r = 3
		} else {
			call(2)
			r = 2
		}
		setDelays(0, map[string]time.Duration{})
		if rng.Intn(2) == 0 {
			closeNewest()
			ms(gaps[rng.Intn(4)])
		}
		r++
		call(r)
	case "overlap":
		// overlapping calls: the server closes the connection while a request that has passed the sender's liveness check is
		// still waiting to be written (the sender is held at the hook before conn.Write); a later call, issued after the
		// client has seen the close, is answered slowly on the new connection while the old sender's write fails
		call(1)
		hold := time.Duration(30+rng.Intn(30)) * time.Millisecond
		cc.mu.Lock()
		cc.delays = map[string]time.Duration{"client.send.dequeued": hold}
		cc.delayK = cc.nconn
		cc.mu.Unlock()
		srv.mu.Lock()
		srv.delay[3] = hold + time.Duration(10+rng.Intn(40))*time.Millisecond
		srv.mu.Unlock()
		done := bg(2)
		ms(3 + rng.Intn(5))
		closeNewest()
		ms(5 + rng.Intn(10))
		call(3)
		<-done
		if rng.Intn(2) == 0 {
			call(4)
		}
	case "doubleclose":
		// two closes in a row while calls are under way: request 2 is caught by the close of connection 1 after its liveness
		// check (write error -> failure queue); call 3, issued after the client has seen that close, dials connection 2, whose
		// sender is slow to reach its select; the server closes connection 2 as well; when the sender of connection 2 then
		// takes request 3 it knows the connection is dead and must hand the request over although the one-slot failure queue is
		// still occupied by request 2
		call(1)
		setDelays(0, map[string]time.Duration{"client.send.dequeued#1": 40 * time.Millisecond, "client.send.beforeSelect#2": 55 * time.Millisecond})
		d2 := bg(2)
		ms(5)
		closeNewest() // connection 1
		ms(10)
		d3 := bg(3)
		ms(35)
		closeNewest() // connection 2 (if it has been dialled by now)
		<-d2
		<-d3
	default:
		ncalls := 2 + rng.Intn(3)
		for i := 0; i < ncalls; i++ {
			r++
			call(r)
			if i == ncalls-1 {
				break
			}
			if rng.Intn(4) != 0 {
				// the server closes the connection that is in use while the client is idle
				closeNewest()
			}
			ms(gaps[rng.Intn(len(gaps))])
		}
	}
	ms(2)
	cc.mu.Lock()
	cc.rec = nil
	cc.mu.Unlock()
	close(canary.stop)
	client.Close()
	srv.shutdown()
	evs := rec.Close()
	stall := time.Duration(atomic.LoadInt64(&canary.max))
	cc.mu.Lock()
	defer cc.mu.Unlock()
	if int(stall.Milliseconds()) > ccSt.MaxStall {
		ccSt.MaxStall = int(stall.Milliseconds())
	}
	if abandoned {
		ccSt.Abandoned++
		return nil
	}
	if disturbed {
		ccSt.Dropped++
		return nil
	}
	ccSt.Classes[class]++
	if timeout < time.Second {
		ccSt.ShortTO++
	}
	for _, e := range evs {
		switch {
		case e["e"] == "LiveCheck" && e["live"] == false:
			ccSt.Handovers++
		case e["e"] == "SendErr":
			ccSt.SendErrs++
		}
	}
	return append(evs, tr.Ev{"e": "Reset"})
}

func clientconnTrace(args []string) error {
	fs := flag.NewFlagSet("clientconn-trace", flag.ExitOnError)
	seed := fs.Int64("seed", 1, "seed")
	num := fs.Int("n", 20, "scenarios")
	first := fs.Int("first", 0, "number of the first scenario (the class of a scenario is its number modulo the number of classes)")
	out := fs.String("out", "trace.ndjson", "output")
	toMs := fs.Int("timeout", 1500, "call timeout in ms of the scenarios that do not use a short one")
	only := fs.String("class", "", "run this scenario class only (restart, heldrecv, handover, overlap, doubleclose, random)")
	repeat := fs.Int("repeat", 1, "run every scenario this many times (same script, whatever interleaving the run takes)")
	fs.Parse(args)
	vhook.Set(ccHook)
	w, err := tr.Create(*out)
	if err != nil {
		return err
	}
	for i := 0; i < *num; i++ {
		for rep := 0; rep < *repeat; rep++ {
			// the script of a scenario is a function of (seed, number): a run can be repeated
			rng := rand.New(rand.NewSource(*seed*1000003 + int64(*first+i)))
			evs := ccScenario(rng, *first+i, time.Duration(*toMs)*time.Millisecond, *only)
			if evs != nil {
				w.Write(tr.Ev{"e": "Scenario", "seed": *seed, "idx": *first + i, "class": *only})
			}
			for _, ev := range evs {
				w.Write(ev)
			}
		}
	}
	if err := w.Close(); err != nil {
		return err
	}
	cc.mu.Lock()
	fmt.Println(*num, cc.hits["client.reconnect.dialed"], cc.hits["client.send.dequeued"], cc.hits["client.close"], cc.hits["client.recv.exit"],
		cc.hits["client.Send.enqueue"], cc.hits["client.send.tick"])
	st, _ := json.Marshal(ccSt)
	fmt.Println("STATS", string(st))
	cc.mu.Unlock()
	return nil
}
