package main

import (
	"encoding/binary"
	"flag"
	"fmt"
	"io"
	"math/rand"
	"net"
	"sync"
	"time"

	"github.com/TarsCloud/TarsGo/tars/protocol"
	"github.com/TarsCloud/TarsGo/tars/transport"
	"github.com/TarsCloud/TarsGo/tars/util/vhook"
	"verifharness/internal/tr"
)

func init() { register("clientconn-trace", clientconnTrace) }

// one scenario at a time
type ccState struct {
	mu      sync.Mutex
	rec     *tr.Rec
	client  *transport.TarsClient
	conns   map[string]int // client-side local address -> connection index k
	nconn   int
	replies map[int]chan struct{}
	delays  map[string]time.Duration // schedule perturbation: hook point -> delay (applies to connection delayK, 0 = any)
	delayK  int
	hits    map[string]int
}

var cc = &ccState{hits: map[string]int{}}

type ccProto struct{}

func (ccProto) ParsePackage(b []byte) (int, int) { return protocol.TarsRequest(b) }
func (ccProto) Recv(pkg []byte) {
	if len(pkg) >= 8 {
		r := int(binary.BigEndian.Uint32(pkg[4:8]))
		cc.mu.Lock()
		ch := cc.replies[r]
		cc.mu.Unlock()
		if ch != nil {
			select {
			case <-ch:
			default:
				close(ch)
			}
		}
	}
}

func ccReq(a []interface{}, i int) int {
	if len(a) > i {
		if p, ok := a[i].([]byte); ok && len(p) >= 8 {
			return int(binary.BigEndian.Uint32(p[4:8]))
		}
	}
	return 0
}

func ccHook(point string, a ...interface{}) {
	cc.mu.Lock()
	cc.hits[point]++
	rec := cc.rec
	if rec == nil {
		cc.mu.Unlock()
		return
	}
	// which connection?
	k := 0
	var conn net.Conn
	for _, x := range a {
		if c, ok := x.(net.Conn); ok && c != nil {
			conn = c
		}
	}
	if len(a) == 0 {
		cc.mu.Unlock()
		return
	}
	if tc, ok := a[0].(*transport.TarsClient); ok && tc != cc.client {
		cc.mu.Unlock()
		return
	}
	if conn != nil {
		la := conn.LocalAddr().String()
		if point == "client.reconnect.dialed" {
			cc.nconn++
			cc.conns[la] = cc.nconn
		}
		k = cc.conns[la]
		if k == 0 {
			cc.mu.Unlock()
			return // not a connection of this scenario
		}
	}
	d := cc.delays[point]
	if d > 0 && cc.delayK != 0 && cc.delayK != k {
		d = 0
	}
	if dk, ok := cc.delays[fmt.Sprintf("%s#%d", point, k)]; ok { // a delay for this point on connection k only
		d = dk
	}
	// events are emitted under the state lock so that their order is the order of the hook calls
	switch point {
	case "client.reconnect.dialed":
		rec.Emit("Dialed", "k", k)
	case "client.Send.enqueue":
		rec.Emit("EnqHook", "r", ccReq(a, 1))
	case "client.close":
		if conn != nil {
			rec.Emit("Close", "k", k)
		}
	case "client.send.liveCheck":
		rec.Emit("LiveCheck", "k", k, "live", a[2].(bool))
	case "client.send.dequeued":
		rec.Emit("Dequeued", "k", k, "r", ccReq(a, 1))
	case "client.send.writeError":
		rec.Emit("WriteError", "k", k, "r", ccReq(a, 1))
	case "client.send.requeued":
		rec.Emit("Requeued", "k", k, "r", ccReq(a, 1))
	case "client.send.tick":
		rec.Emit("Tick", "k", k)
	case "client.send.tickExit":
		rec.Emit("TickExit", "k", k)
	case "client.recv.exit":
		rec.Emit("RecvExit", "k", k)
	}
	cc.mu.Unlock()
	if d > 0 {
		time.Sleep(d)
	}
}

// harness server: answers every request, closes connections on command
type ccServer struct {
	ln    net.Listener
	mu    sync.Mutex
	conns map[int]net.Conn // by k
	delay map[int]time.Duration // request -> how long the server takes to answer it
}

func (s *ccServer) serve() {
	for {
		c, err := s.ln.Accept()
		if err != nil {
			return
		}
		go func(c net.Conn) {
			ra := c.RemoteAddr().String()
			k := 0
			for i := 0; i < 2000 && k == 0; i++ { // the Dialed hook registers the client's local address
				cc.mu.Lock()
				k = cc.conns[ra]
				cc.mu.Unlock()
				if k == 0 {
					time.Sleep(100 * time.Microsecond)
				}
			}
			s.mu.Lock()
			s.conns[k] = c
			s.mu.Unlock()
			hdr := make([]byte, 4)
			for {
				if _, err := io.ReadFull(c, hdr); err != nil {
					return
				}
				body := make([]byte, binary.BigEndian.Uint32(hdr)-4)
				if _, err := io.ReadFull(c, body); err != nil {
					return
				}
				r := int(binary.BigEndian.Uint32(body[:4]))
				cc.mu.Lock()
				rec := cc.rec
				cc.mu.Unlock()
				s.mu.Lock()
				d := s.delay[r]
				s.mu.Unlock()
				rsp := append(append([]byte{}, hdr...), body...)
				if rec != nil {
					rec.Emit("SrvRecv", "k", k, "r", r)
				}
				if d > 0 { // a slow answer: the connection keeps being read meanwhile
					go func() {
						time.Sleep(d)
						if rec != nil {
							rec.Emit("SrvReply", "k", k, "r", r)
						}
						c.Write(rsp)
					}()
					continue
				}
				if rec != nil {
					rec.Emit("SrvReply", "k", k, "r", r)
				}
				c.Write(rsp)
			}
		}(c)
	}
}

func ccScenario(rng *rand.Rand, timeout time.Duration) []tr.Ev {
	rec := tr.New()
	ln, err := net.Listen("tcp", "127.0.0.1:0")
	if err != nil {
		panic(err)
	}
	srv := &ccServer{ln: ln, conns: map[int]net.Conn{}, delay: map[int]time.Duration{}}
	go srv.serve()
	client := transport.NewTarsClient(ln.Addr().String(), ccProto{}, &transport.TarsClientConf{Proto: "tcp", QueueLen: 100,
		IdleTimeout: time.Hour, ReadTimeout: 100 * time.Millisecond, DialTimeout: time.Second})
	cc.mu.Lock()
	cc.rec, cc.client, cc.conns, cc.nconn, cc.replies = rec, client, map[string]int{}, 0, map[int]chan struct{}{}
	cc.delays, cc.delayK = map[string]time.Duration{}, 0
	// schedule perturbation for this scenario
	points := []string{"client.send.writeError", "client.send.requeued", "client.send.pollFail", "client.send.beforeSelect", "client.send.top",
		"client.recv.readError", "client.recv.exit", "client.close", "client.send.dequeued"}
	switch rng.Intn(4) {
	case 0: // none
	case 1: // the old sender is slow to requeue: the new sender is parked before the failed request reappears
		cc.delays["client.send.writeError"] = time.Duration(2+rng.Intn(10)) * time.Millisecond
	default:
		for n := 1 + rng.Intn(2); n > 0; n-- {
			cc.delays[points[rng.Intn(len(points))]] = time.Duration(1+rng.Intn(8)) * time.Millisecond
		}
		cc.delayK = rng.Intn(3) // 0 = every connection
	}
	cc.mu.Unlock()
	call := func(r int) bool {
		ch := make(chan struct{})
		cc.mu.Lock()
		cc.replies[r] = ch
		cc.mu.Unlock()
		p := make([]byte, 8)
		binary.BigEndian.PutUint32(p, 8)
		binary.BigEndian.PutUint32(p[4:], uint32(r))
		rec.Emit("CallStart", "r", r)
		t0 := time.Now()
		ok := false
		if err := client.Send(p); err == nil {
			select {
			case <-ch:
				ok = true
			case <-time.After(timeout):
			}
		}
		rec.Emit("CallEnd", "r", r, "ok", ok, "ms", int(time.Since(t0).Milliseconds()))
		return ok
	}
	closeNewest := func() {
		srv.mu.Lock()
		k := 0
		for kk := range srv.conns {
			if kk > k {
				k = kk
			}
		}
		c := srv.conns[k]
		delete(srv.conns, k)
		srv.mu.Unlock()
		if c != nil {
			rec.Emit("SrvClose", "k", k)
			if tc, ok := c.(*net.TCPConn); ok && rng.Intn(2) == 0 {
				tc.SetLinger(0) // abortive close: RST instead of FIN (a killed or restarted server)
			}
			c.Close()
		}
	}
	r := 0
	if rng.Intn(4) == 0 {
		// overlapping calls: the server closes the connection while a request that has passed the sender's liveness check is
		// still waiting to be written (the sender is held at the hook before conn.Write); a later call, issued after the
		// client has seen the close, is answered slowly on the new connection while the old sender's write fails
		call(1)
		hold := time.Duration(30+rng.Intn(30)) * time.Millisecond
		cc.mu.Lock()
		cc.delays = map[string]time.Duration{"client.send.dequeued": hold}
		cc.delayK = cc.nconn
		cc.mu.Unlock()
		srv.mu.Lock()
		srv.delay[3] = hold + time.Duration(10+rng.Intn(40))*time.Millisecond
		srv.mu.Unlock()
		done := make(chan struct{})
		go func() { call(2); close(done) }()
		time.Sleep(time.Duration(3+rng.Intn(5)) * time.Millisecond)
		closeNewest()
		time.Sleep(time.Duration(5+rng.Intn(10)) * time.Millisecond)
		call(3)
		<-done
		if rng.Intn(2) == 0 {
			call(4)
		}
		r = 6
	}
	if r == 0 && rng.Intn(4) == 0 {
		// two closes in a row while calls are under way: request 2 is caught by the close of connection 1 after its liveness
		// check (write error -> failure queue); call 3, issued after the client has seen that close, dials connection 2, whose
		// sender is slow to reach its select; the server closes connection 2 as well; when the sender of connection 2 then
		// takes request 3 it knows the connection is dead and must hand the request over although the one-slot failure queue is
		// still occupied by request 2
		call(1)
		cc.mu.Lock()
		cc.delays = map[string]time.Duration{"client.send.dequeued#1": 40 * time.Millisecond, "client.send.beforeSelect#2": 55 * time.Millisecond}
		cc.delayK = 0
		cc.mu.Unlock()
		d2 := make(chan struct{})
		go func() { call(2); close(d2) }()
		time.Sleep(5 * time.Millisecond)
		closeNewest() // connection 1
		time.Sleep(10 * time.Millisecond)
		d3 := make(chan struct{})
		go func() { call(3); close(d3) }()
		time.Sleep(35 * time.Millisecond)
		closeNewest() // connection 2 (if it has been dialled by now)
		<-d2
		<-d3
		r = 6
	}
	ncalls := 2 + rng.Intn(3)
	for i := 0; i < ncalls && r < 6; i++ {
		r++
		call(r)
		if i == ncalls-1 {
			break
		}
		if rng.Intn(4) != 0 {
			// the server closes the connection that is in use while the client is idle
			closeNewest()
		}
		time.Sleep(time.Duration([]int{0, 1, 5, 30, 200, 1100}[rng.Intn(6)]) * time.Millisecond)
	}
	time.Sleep(2 * time.Millisecond)
	cc.mu.Lock()
	cc.rec = nil
	cc.mu.Unlock()
	client.Close()
	ln.Close()
	srv.mu.Lock()
	for _, c := range srv.conns {
		c.Close()
	}
	srv.mu.Unlock()
	return append(rec.Close(), tr.Ev{"e": "Reset"})
}

func clientconnTrace(args []string) error {
	fs := flag.NewFlagSet("clientconn-trace", flag.ExitOnError)
	seed := fs.Int64("seed", 1, "seed")
	num := fs.Int("n", 20, "scenarios")
	out := fs.String("out", "trace.ndjson", "output")
	toMs := fs.Int("timeout", 1500, "call timeout in ms")
	fs.Parse(args)
	rng := rand.New(rand.NewSource(*seed))
	vhook.Set(ccHook)
	w, err := tr.Create(*out)
	if err != nil {
		return err
	}
	for i := 0; i < *num; i++ {
		for _, ev := range ccScenario(rng, time.Duration(*toMs)*time.Millisecond) {
			w.Write(ev)
		}
	}
	if err := w.Close(); err != nil {
		return err
	}
	cc.mu.Lock()
	fmt.Println(*num, cc.hits["client.reconnect.dialed"], cc.hits["client.send.dequeued"], cc.hits["client.close"], cc.hits["client.recv.exit"],
		cc.hits["client.Send.enqueue"], cc.hits["client.send.tick"])
	cc.mu.Unlock()
	return nil
}
