package main

import (
	"encoding/binary"
	"flag"
	"fmt"
	"io"
	"math/rand"
	"net"
	"sync"
	"time"

	"github.com/TarsCloud/TarsGo/tars/protocol"
	"github.com/TarsCloud/TarsGo/tars/transport"
	"github.com/TarsCloud/TarsGo/tars/util/vhook"
	"verifharness/internal/tr"
)

func init() { register("clientconn-trace", clientconnTrace) }

// one scenario at a time
type ccState struct {
	mu      sync.Mutex
	rec     *tr.Rec
	client  *transport.TarsClient
	conns   map[string]int // client-side local address -> connection index k
	nconn   int
	replies map[int]chan struct{}
	delays  map[string]time.Duration // schedule perturbation: hook point -> delay (applies to connection delayK, 0 = any)
	delayK  int
	hits    map[string]int
}

var cc = &ccState{hits: map[string]int{}}

type ccProto struct{}

func (ccProto) ParsePackage(b []byte) (int, int) { return protocol.TarsRequest(b) }
func (ccProto) Recv(pkg []byte) {
	if len(pkg) >= 8 {
		r := int(binary.BigEndian.Uint32(pkg[4:8]))
		cc.mu.Lock()
		ch := cc.replies[r]
		cc.mu.Unlock()
		if ch != nil {
			select {
			case <-ch:
			default:
				close(ch)
			}
		}
	}
}

func ccReq(a []interface{}, i int) int {
	if len(a) > i {
		if p, ok := a[i].([]byte); ok && len(p) >= 8 {
			return int(binary.BigEndian.Uint32(p[4:8]))
		}
	}
	return 0
}

func ccHook(point string, a ...interface{}) {
	cc.mu.Lock()
	cc.hits[point]++
	rec := cc.rec
	if rec == nil {
		cc.mu.Unlock()
		return
	}
	// which connection?
	k := 0
	var conn net.Conn
	for _, x := range a {
		if c, ok := x.(net.Conn); ok && c != nil {
			conn = c
		}
	}
	if len(a) == 0 {
		cc.mu.Unlock()
		return
	}
	if tc, ok := a[0].(*transport.TarsClient); ok && tc != cc.client {
		cc.mu.Unlock()
		return
	}
	if conn != nil {
		la := conn.LocalAddr().String()
		if point == "client.reconnect.dialed" {
			cc.nconn++
			cc.conns[la] = cc.nconn
		}
		k = cc.conns[la]
		if k == 0 {
			cc.mu.Unlock()
			return // not a connection of this scenario
		}
	}
	d := cc.delays[point]
	if d > 0 && cc.delayK != 0 && cc.delayK != k {
		d = 0
	}
	// events are emitted under the state lock so that their order is the order of the hook calls
	switch point {
	case "client.reconnect.dialed":
		rec.Emit("Dialed", "k", k)
	case "client.Send.enqueue":
		rec.Emit("EnqHook", "r", ccReq(a, 1))
	case "client.close":
		if conn != nil {
			rec.Emit("Close", "k", k)
		}
	case "client.send.liveCheck":
		rec.Emit("LiveCheck", "k", k, "live", a[2].(bool))
	case "client.send.dequeued":
		rec.Emit("Dequeued", "k", k, "r", ccReq(a, 1))
	case "client.send.writeError":
		rec.Emit("WriteError", "k", k, "r", ccReq(a, 1))
	case "client.send.requeued":
		rec.Emit("Requeued", "k", k, "r", ccReq(a, 1))
	case "client.send.tick":
		rec.Emit("Tick", "k", k)
	case "client.send.tickExit":
		rec.Emit("TickExit", "k", k)
	case "client.recv.exit":
		rec.Emit("RecvExit", "k", k)
	}
	cc.mu.Unlock()
	if d > 0 {
		time.Sleep(d)
	}
}

// harness server: answers every request, closes connections on command
type ccServer struct {
	ln    net.Listener
	mu    sync.Mutex
	conns map[int]net.Conn // by k
}

func (s *ccServer) serve() {
	for {
		c, err := s.ln.Accept()
		if err != nil {
			return
		}
		go func(c net.Conn) {
			ra := c.RemoteAddr().String()
			k := 0
			for i := 0; i < 2000 && k == 0; i++ { // the Dialed hook registers the client's local address
				cc.mu.Lock()
				k = cc.conns[ra]
				cc.mu.Unlock()
				if k == 0 {
					time.Sleep(100 * time.Microsecond)
				}
			}
			s.mu.Lock()
			s.conns[k] = c
			s.mu.Unlock()
			hdr := make([]byte, 4)
			for {
				if _, err := io.ReadFull(c, hdr); err != nil {
					return
				}
				body := make([]byte, binary.BigEndian.Uint32(hdr)-4)
				if _, err := io.ReadFull(c, body); err != nil {
					return
				}
				r := int(binary.BigEndian.Uint32(body[:4]))
				cc.mu.Lock()
				rec := cc.rec
				cc.mu.Unlock()
				if rec != nil {
					rec.Emit("SrvRecv", "k", k, "r", r)
					rec.Emit("SrvReply", "k", k, "r", r)
				}
				c.Write(append(append([]byte{}, hdr...), body...))
			}
		}(c)
	}
}

func ccScenario(rng *rand.Rand, timeout time.Duration) []tr.Ev {
	rec := tr.New()
	ln, err := net.Listen("tcp", "127.0.0.1:0")
	if err != nil {
		panic(err)
	}
	srv := &ccServer{ln: ln, conns: map[int]net.Conn{}}
	go srv.serve()
	client := transport.NewTarsClient(ln.Addr().String(), ccProto{}, &transport.TarsClientConf{Proto: "tcp", QueueLen: 100,
		IdleTimeout: time.Hour, ReadTimeout: 100 * time.Millisecond, DialTimeout: time.Second})
	cc.mu.Lock()
	cc.rec, cc.client, cc.conns, cc.nconn, cc.replies = rec, client, map[string]int{}, 0, map[int]chan struct{}{}
	cc.delays, cc.delayK = map[string]time.Duration{}, 0
	// schedule perturbation for this scenario
	points := []string{"client.send.writeError", "client.send.requeued", "client.send.pollFail", "client.send.beforeSelect", "client.send.top",
		"client.recv.readError", "client.recv.exit", "client.close", "client.send.dequeued"}
	switch rng.Intn(4) {
	case 0: // none
	case 1: // the old sender is slow to requeue: the new sender is parked before the failed request reappears
		cc.delays["client.send.writeError"] = time.Duration(2+rng.Intn(10)) * time.Millisecond
	default:
		for n := 1 + rng.Intn(2); n > 0; n-- {
			cc.delays[points[rng.Intn(len(points))]] = time.Duration(1+rng.Intn(8)) * time.Millisecond
		}
		cc.delayK = rng.Intn(3) // 0 = every connection
	}
	cc.mu.Unlock()
	call := func(r int) bool {
		ch := make(chan struct{})
		cc.mu.Lock()
		cc.replies[r] = ch
		cc.mu.Unlock()
		p := make([]byte, 8)
		binary.BigEndian.PutUint32(p, 8)
		binary.BigEndian.PutUint32(p[4:], uint32(r))
		rec.Emit("CallStart", "r", r)
		t0 := time.Now()
		ok := false
		if err := client.Send(p); err == nil {
			select {
			case <-ch:
				ok = true
			case <-time.After(timeout):
			}
		}
		rec.Emit("CallEnd", "r", r, "ok", ok, "ms", int(time.Since(t0).Milliseconds()))
		return ok
	}
	r := 0
	ncalls := 2 + rng.Intn(3)
	for i := 0; i < ncalls && r < 6; i++ {
		r++
		call(r)
		if i == ncalls-1 {
			break
		}
		if rng.Intn(4) != 0 {
			// the server closes the connection that is in use while the client is idle
			srv.mu.Lock()
			k := 0
			for kk := range srv.conns {
				if kk > k {
					k = kk
				}
			}
			c := srv.conns[k]
			delete(srv.conns, k)
			srv.mu.Unlock()
			if c != nil {
				rec.Emit("SrvClose", "k", k)
				if tc, ok := c.(*net.TCPConn); ok && rng.Intn(2) == 0 {
					tc.SetLinger(0) // abortive close: RST instead of FIN (a killed or restarted server)
				}
				c.Close()
			}
		}
		time.Sleep(time.Duration([]int{0, 1, 5, 30, 200, 1100}[rng.Intn(6)]) * time.Millisecond)
	}
	time.Sleep(2 * time.Millisecond)
	cc.mu.Lock()
	cc.rec = nil
	cc.mu.Unlock()
	client.Close()
	ln.Close()
	srv.mu.Lock()
	for _, c := range srv.conns {
		c.Close()
	}
	srv.mu.Unlock()
	return append(rec.Close(), tr.Ev{"e": "Reset"})
}

func clientconnTrace(args []string) error {
	fs := flag.NewFlagSet("clientconn-trace", flag.ExitOnError)
	seed := fs.Int64("seed", 1, "seed")
	num := fs.Int("n", 20, "scenarios")
	out := fs.String("out", "trace.ndjson", "output")
	toMs := fs.Int("timeout", 1500, "call timeout in ms")
	fs.Parse(args)
	rng := rand.New(rand.NewSource(*seed))
	vhook.Set(ccHook)
	w, err := tr.Create(*out)
	if err != nil {
		return err
	}
	for i := 0; i < *num; i++ {
		for _, ev := range ccScenario(rng, time.Duration(*toMs)*time.Millisecond) {
			w.Write(ev)
		}
	}
	if err := w.Close(); err != nil {
		return err
	}
	cc.mu.Lock()
	fmt.Println(*num, cc.hits["client.reconnect.dialed"], cc.hits["client.send.dequeued"], cc.hits["client.close"], cc.hits["client.recv.exit"],
		cc.hits["client.Send.enqueue"], cc.hits["client.send.tick"])
	cc.mu.Unlock()
	return nil
}
