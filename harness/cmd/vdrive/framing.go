package main

import (
	"context"
	"encoding/binary"
	"flag"
	"fmt"
	"math/rand"
	"net"
	"sync"
	"time"

	"github.com/TarsCloud/TarsGo/tars/protocol"
	"github.com/TarsCloud/TarsGo/tars/transport"
	"github.com/TarsCloud/TarsGo/tars/util/vhook"
	"verifharness/internal/tr"
)

func init() { register("framing-trace", framingTrace) }

// recording protocols: the real length-prefix parser, everything else inert
type frSrvProto struct{}

func (frSrvProto) Invoke(ctx context.Context, pkg []byte) []byte { return nil }
func (frSrvProto) ParsePackage(b []byte) (int, int)              { return protocol.TarsRequest(b) }
func (frSrvProto) InvokeTimeout(pkg []byte) []byte               { return nil }
func (frSrvProto) GetCloseMsg() []byte                           { return nil }
func (frSrvProto) DoClose(ctx context.Context)                   {}

type frCliProto struct{}

func (frCliProto) Recv(pkg []byte)                  {}
func (frCliProto) ParsePackage(b []byte) (int, int) { return protocol.TarsRequest(b) }

// frRun is the state of the connection under observation.
type frRun struct {
	mu       sync.Mutex
	rec      *tr.Rec
	side     string // "server" | "client"
	match    func(c net.Conn) bool
	readSum  int
	pkgs     int
	other    int // packets seen on the other (healthy) connection
	perr     bool
	hookHits map[string]int
}

var fr = &frRun{hookHits: map[string]int{}}

func frHook(point string, a ...interface{}) {
	fr.mu.Lock()
	defer fr.mu.Unlock()
	fr.hookHits[point]++
	if fr.rec == nil || len(a) == 0 {
		return
	}
	c, _ := a[0].(net.Conn)
	want := map[string]string{"tcp.recv.read": "server", "tcp.handleConn": "server", "tcp.recv.parseError": "server",
		"client.recv.read": "client", "client.recv.pkg": "client", "client.recv.parseError": "client"}[point]
	if want == "" || want != fr.side || c == nil {
		return
	}
	if !fr.match(c) {
		if point == "tcp.handleConn" || point == "client.recv.pkg" {
			fr.other++
		}
		return
	}
	switch point {
	case "tcp.recv.read", "client.recv.read":
		n := a[1].(int)
		fr.readSum += n
		fr.rec.Emit("Read", "n", n)
	case "tcp.handleConn", "client.recv.pkg":
		pkg := a[1].([]byte)
		id, uniform := 0, true
		if len(pkg) > 4 {
			id = int(pkg[4])
			for _, x := range pkg[4:] {
				if int(x) != id {
					uniform = false
				}
			}
		} else {
			id = fr.pkgs + 1 // a packet without payload carries no id
		}
		fr.pkgs++
		hdr := -1
		if len(pkg) >= 4 { // a "packet" shorter than its own header can only come from a broken framer: recorded, judged by the spec
			hdr = int(binary.BigEndian.Uint32(pkg[:4]))
		}
		fr.rec.Emit("Pkg", "len", len(pkg), "id", id, "uniform", uniform, "hdr", hdr)
	case "tcp.recv.parseError", "client.recv.parseError":
		fr.perr = true
		fr.rec.Emit("ParseError")
	}
}

func frStream(lens []int, maxLen, junk int) []byte {
	var b []byte
	for i, d := range lens {
		h := make([]byte, 4)
		binary.BigEndian.PutUint32(h, uint32(d))
		b = append(b, h...)
		n := d - 4
		if d < 4 || d > maxLen {
			n = junk
		}
		for k := 0; k < n; k++ {
			b = append(b, byte(i+1))
		}
	}
	return b
}

// partition chooses chunk sizes for a stream of n bytes.
func frPartition(rng *rand.Rand, n int, lens []int) []int {
	var out []int
	switch rng.Intn(6) {
	case 0: // single bytes (capped: long streams switch to random chunks after 300 bytes)
		for n > 0 && len(out) < 300 {
			out = append(out, 1)
			n--
		}
	case 1: // everything at once
		out = append(out, n)
		n = 0
	case 2: // cut inside every header
		for _, d := range lens {
			if n <= 0 {
				break
			}
			c := 1 + rng.Intn(3)
			if c > n {
				c = n
			}
			out = append(out, c)
			n -= c
			rest := d - c
			if d < 4 {
				rest = 4 - c
			}
			if rest > n {
				rest = n
			}
			if rest > 0 {
				out = append(out, rest)
				n -= rest
			}
		}
	case 3: // packet aligned
		for _, d := range lens {
			if d >= 4 && d <= n {
				out = append(out, d)
				n -= d
			}
		}
	}
	for n > 0 {
		c := 1 + rng.Intn(1+rng.Intn(1+n))
		if c > n {
			c = n
		}
		out = append(out, c)
		n -= c
	}
	return out
}

func framingTrace(args []string) error {
	fs := flag.NewFlagSet("framing-trace", flag.ExitOnError)
	seed := fs.Int64("seed", 1, "seed")
	num := fs.Int("n", 100, "scenarios")
	out := fs.String("out", "trace.ndjson", "output")
	big := fs.Bool("big", false, "include packets up to 1 MB")
	fs.Parse(args)
	rng := rand.New(rand.NewSource(*seed))
	vhook.Set(frHook)
	const junk = 6
	// real server
	ln, _ := net.Listen("tcp", "127.0.0.1:0")
	addr := ln.Addr().String()
	ln.Close()
	srv := transport.NewTarsServer(frSrvProto{}, &transport.TarsServerConf{Proto: "tcp", Address: addr, IdleTimeout: time.Hour,
		TCPReadBuffer: 1 << 20, TCPWriteBuffer: 1 << 20})
	if err := srv.Listen(); err != nil {
		return err
	}
	go srv.Serve()
	// the healthy second server connection
	other, err := net.Dial("tcp", addr)
	if err != nil {
		return err
	}
	w, err := tr.Create(*out)
	if err != nil {
		return err
	}
	waitRead := func(total int) bool {
		dl := time.Now().Add(10 * time.Second)
		for time.Now().Before(dl) {
			fr.mu.Lock()
			s, pe := fr.readSum, fr.perr
			fr.mu.Unlock()
			if s >= total {
				return true
			}
			if pe {
				return false // the receiver stopped reading after a protocol error
			}
			time.Sleep(50 * time.Microsecond)
		}
		return false
	}
	sawClose := func(c net.Conn) bool {
		c.SetReadDeadline(time.Now().Add(2 * time.Second))
		buf := make([]byte, 16)
		for {
			_, err := c.Read(buf)
			if err != nil {
				ne, ok := err.(net.Error)
				return !(ok && ne.Timeout())
			}
		}
	}
	stillOpen := func(c net.Conn) bool {
		c.SetReadDeadline(time.Now().Add(30 * time.Millisecond))
		_, err := c.Read(make([]byte, 1))
		ne, ok := err.(net.Error)
		return err != nil && ok && ne.Timeout()
	}
	nfail := 0
	for sc := 0; sc < *num; sc++ {
		maxLen := []int{16, 64, 1000, 100000, 10485760}[rng.Intn(5)]
		cand := []int{4, 5, 6, 8, 12, 16, 33, 64, 100, 255, 1000, 4095, 4096, 4097, 9000, maxLen - 1, maxLen, maxLen, maxLen + 1, 0, 3, 1}
		if *big {
			cand = append(cand, 65536, 1<<20)
		}
		var lens []int
		for k := 1 + rng.Intn(5); k > 0; k-- {
			d := cand[rng.Intn(len(cand))]
			if d > 2<<20 { // do not really send 10 MB packets: only as an illegal length or the exact maximum when small
				d = maxLen + 1
			}
			if (d < 4 || d > maxLen) && rng.Intn(3) != 0 {
				d = cand[rng.Intn(12)]
				if d > maxLen {
					d = maxLen
				}
			}
			lens = append(lens, d)
		}
		protocol.SetMaxPackageLength(maxLen)
		stream := frStream(lens, maxLen, junk)
		side := []string{"server", "client"}[rng.Intn(2)]
		rec := tr.New()
		rec.Emit("Stream", "lens", lens, "maxlen", maxLen, "side", side, "junk", junk)
		hasBad := false
		for _, d := range lens {
			if d < 4 || d > maxLen {
				hasBad = true
			}
		}
		var peer net.Conn // the harness end of the observed connection
		var cleanup func()
		fr.mu.Lock()
		fr.rec, fr.side, fr.readSum, fr.pkgs, fr.other, fr.perr = rec, side, 0, 0, 0, false
		fr.mu.Unlock()
		if side == "server" {
			c, err := net.Dial("tcp", addr)
			if err != nil {
				return err
			}
			peer = c
			la := c.LocalAddr().String()
			fr.mu.Lock()
			fr.match = func(sc net.Conn) bool { return sc.RemoteAddr().String() == la }
			fr.mu.Unlock()
			cleanup = func() { c.Close() }
		} else {
			l2, err := net.Listen("tcp", "127.0.0.1:0")
			if err != nil {
				return err
			}
			acc := make(chan net.Conn, 1)
			go func() { c, _ := l2.Accept(); acc <- c }()
			cli := transport.NewTarsClient(l2.Addr().String(), frCliProto{}, &transport.TarsClientConf{Proto: "tcp", QueueLen: 10,
				IdleTimeout: time.Hour, DialTimeout: time.Second})
			ra := l2.Addr().String()
			fr.mu.Lock()
			fr.match = func(cc net.Conn) bool { return cc.RemoteAddr().String() == ra }
			fr.mu.Unlock()
			if err := cli.Send([]byte{0, 0, 0, 4}); err != nil {
				return err
			}
			peer = <-acc
			cleanup = func() { peer.Close(); cli.Close(); l2.Close() }
		}
		sent := 0
		ok := true
		for _, c := range frPartition(rng, len(stream), lens) {
			peer.SetWriteDeadline(time.Now().Add(2 * time.Second))
			if _, err := peer.Write(stream[sent : sent+c]); err != nil {
				break // the receiver closed after a protocol error
			}
			sent += c
			if !waitRead(sent) {
				// after a protocol error the receiver stops reading: expected.  Otherwise the receiver did not consume the
				// chunk within the harness' patience (a loaded machine): the run says nothing, it is marked and dropped
				fr.mu.Lock()
				pe := fr.perr
				fr.mu.Unlock()
				if !pe {
					rec.Emit("HarnessTimeout")
				}
				ok = false
				break
			}
		}
		_ = ok
		// the read hook fires before the scan loop hands the packets over: give the receiver time (up to 5 s) to hand
		// out every legal packet before the first illegal length (or to report the protocol error)
		want := 0
		for _, d := range lens {
			if d < 4 || d > maxLen {
				break
			}
			want++
		}
		for i := 0; i < 5000; i++ {
			fr.mu.Lock()
			got, pe := fr.pkgs, fr.perr
			fr.mu.Unlock()
			if got >= want && (pe || !hasBad) {
				break
			}
			time.Sleep(time.Millisecond)
		}
		time.Sleep(300 * time.Microsecond)
		if hasBad {
			if sawClose(peer) {
				rec.Emit("PeerSawClose")
			}
			if side == "server" {
				// the healthy connection still gets its packet through
				fr.mu.Lock()
				before := fr.other
				fr.mu.Unlock()
				other.Write([]byte{0, 0, 0, 5, 77})
				for i := 0; i < 2000; i++ {
					fr.mu.Lock()
					o := fr.other
					fr.mu.Unlock()
					if o > before {
						rec.Emit("OtherConnOk")
						break
					}
					time.Sleep(time.Millisecond)
				}
			}
		} else if stillOpen(peer) {
			rec.Emit("PeerStillOpen")
		}
		fr.mu.Lock()
		fr.rec = nil
		fr.mu.Unlock()
		cleanup()
		evs := rec.Close()
		for _, ev := range evs {
			w.Write(ev)
		}
		w.Write(tr.Ev{"e": "End"})
	}
	protocol.SetMaxPackageLength(10485760)
	if err := w.Close(); err != nil {
		return err
	}
	fr.mu.Lock()
	fmt.Println(*num, nfail, fr.hookHits["tcp.recv.read"], fr.hookHits["tcp.handleConn"], fr.hookHits["client.recv.read"], fr.hookHits["client.recv.pkg"],
		fr.hookHits["tcp.recv.parseError"]+fr.hookHits["client.recv.parseError"])
	fr.mu.Unlock()
	return nil
}
