package main

import (
	"context"
	"encoding/binary"
	"flag"
	"fmt"
	"math/rand"
	"net"
	"sync"
	"time"

	"github.com/TarsCloud/TarsGo/tars"
	"github.com/TarsCloud/TarsGo/tars/protocol"
	"github.com/TarsCloud/TarsGo/tars/protocol/res/basef"
	"github.com/TarsCloud/TarsGo/tars/protocol/res/requestf"
	"github.com/TarsCloud/TarsGo/tars/transport"
	"github.com/TarsCloud/TarsGo/tars/util/vhook"
	"verifharness/internal/tr"
)

func init() { register("framing-trace", framingTrace) }

// recording protocols: the real length-prefix parser, everything else inert
type frSrvProto struct{}

func (frSrvProto) Invoke(ctx context.Context, pkg []byte) []byte { return nil }
func (frSrvProto) ParsePackage(b []byte) (int, int)              { return protocol.TarsRequest(b) }
func (frSrvProto) InvokeTimeout(pkg []byte) []byte               { return nil }
func (frSrvProto) GetCloseMsg() []byte                           { return nil }
func (frSrvProto) DoClose(ctx context.Context)                   {}

// the same, but framing is asked of the ServerProtocol the real server uses (tars.Protocol.ParsePackage, tars/tarsprotocol.go)
type frSrvTarsProto struct {
	frSrvProto
	p *tars.Protocol
}

func (s frSrvTarsProto) ParsePackage(b []byte) (int, int) { return s.p.ParsePackage(b) }

type frCliProto struct{}

func (frCliProto) Recv(pkg []byte)                  {}
func (frCliProto) ParsePackage(b []byte) (int, int) { return protocol.TarsRequest(b) }

// frRun is the state of the connection under observation.
type frRun struct {
	mu       sync.Mutex
	rec      *tr.Rec
	side     string // "server" | "client"
	match    func(c net.Conn) bool
	readSum  int
	pkgs     int
	other    int // packets seen on the other (healthy) connection
	perr     bool
	exited   bool // the client's receive loop of the observed connection has returned
	hookHits map[string]int
}

var fr = &frRun{hookHits: map[string]int{}}

func frHook(point string, a ...interface{}) {
	fr.mu.Lock()
	defer fr.mu.Unlock()
	fr.hookHits[point]++
	if fr.rec == nil || len(a) == 0 {
		return
	}
	c, _ := a[0].(net.Conn)
	want := map[string]string{"tcp.recv.read": "server", "tcp.handleConn": "server", "tcp.recv.parseError": "server",
		"client.recv.read": "client", "client.recv.pkg": "client", "client.recv.parseError": "client", "client.recv.exit": "client"}[point]
	if want == "" || want != fr.side || c == nil {
		return
	}
	if fr.match == nil || !fr.match(c) {
		if point == "tcp.handleConn" || point == "client.recv.pkg" {
			fr.other++
		}
		return
	}
	switch point {
	case "tcp.recv.read", "client.recv.read":
		n := a[1].(int)
		fr.readSum += n
		fr.rec.Emit("Read", "n", n)
	case "tcp.handleConn", "client.recv.pkg":
		pkg := a[1].([]byte)
		id, uniform := 0, true
		if len(pkg) > 4 {
			id = int(pkg[4])
			for _, x := range pkg[4:] {
				if int(x) != id {
					uniform = false
				}
			}
		} else {
			id = fr.pkgs + 1 // a packet without payload carries no id
		}
		fr.pkgs++
		hdr := -1
		if len(pkg) >= 4 { // a "packet" shorter than its own header can only come from a broken framer: recorded, judged by the spec
			hdr = int(binary.BigEndian.Uint32(pkg[:4]))
		}
		fr.rec.Emit("Pkg", "len", len(pkg), "id", id, "uniform", uniform, "hdr", hdr)
	case "tcp.recv.parseError", "client.recv.parseError":
		fr.perr = true
		fr.rec.Emit("ParseError")
	case "client.recv.exit":
		fr.exited = true
	}
}

func frLegal(d, maxLen int) bool { return d >= 4 && d <= maxLen }

// frPhys is the number of bytes packet d occupies in the stream (an illegal header is followed by junk bytes that are never framed).
func frPhys(d, maxLen, junk int) int {
	if frLegal(d, maxLen) {
		return d
	}
	return 4 + junk
}

func frStream(lens []int, maxLen, junk int) []byte {
	var b []byte
	for i, d := range lens {
		h := make([]byte, 4)
		binary.BigEndian.PutUint32(h, uint32(d))
		b = append(b, h...)
		n := frPhys(d, maxLen, junk) - 4
		for k := 0; k < n; k++ {
			b = append(b, byte(i+1))
		}
	}
	return b
}

// frExpect: what a correct receiver has done once it has read the first sent bytes of the stream: the number of packets handed out
// and whether the protocol error has been raised.
func frExpect(lens []int, maxLen, junk, sent int) (want int, bad bool) {
	pos := 0
	for _, d := range lens {
		if !frLegal(d, maxLen) {
			return want, pos+4 <= sent
		}
		if pos+d > sent {
			return want, false
		}
		pos += d
		want++
	}
	return want, false
}

// frBoundary reports whether position sent is a packet boundary of the stream.
func frBoundary(lens []int, maxLen, junk, sent int) bool {
	pos := 0
	for _, d := range lens {
		if pos == sent {
			return true
		}
		pos += frPhys(d, maxLen, junk)
	}
	return pos == sent
}

// frPartition chooses chunk sizes for the first n bytes of a stream.
func frPartition(rng *rand.Rand, n int, lens []int, maxLen, junk int) []int {
	var out []int
	take := func(c int) {
		if c > n {
			c = n
		}
		if c > 0 {
			out = append(out, c)
			n -= c
		}
	}
	switch rng.Intn(9) {
	case 0: // single bytes (capped: long streams switch to random chunks after 300 bytes)
		for n > 0 && len(out) < 300 {
			take(1)
		}
	case 1: // everything at once
		take(n)
	case 2: // cut inside every header
		for _, d := range lens {
			c := 1 + rng.Intn(3)
			take(c)
			take(frPhys(d, maxLen, junk) - c)
		}
	case 3: // packet aligned
		for _, d := range lens {
			take(frPhys(d, maxLen, junk))
		}
	case 4: // exactly the header, then exactly the rest (an illegal header arrives alone, a body-less packet arrives alone)
		for _, d := range lens {
			take(4)
			take(frPhys(d, maxLen, junk) - 4)
		}
	case 5, 6: // cuts next to the boundaries: 1, 3, 4, 5 bytes into a packet, one byte before its end, at its end - a random subset
		pos, last := 0, 0
		for _, d := range lens {
			p := frPhys(d, maxLen, junk)
			for _, off := range []int{1, 3, 4, 5, p - 1, p} {
				if off > 0 && off <= p && pos+off > last && rng.Intn(2) == 0 {
					take(pos + off - last)
					last = pos + off
				}
			}
			pos += p
		}
	}
	for n > 0 {
		take(1 + rng.Intn(1+rng.Intn(1+n)))
	}
	return out
}

// one connection of a run
type frSeg struct {
	lens   []int
	junk   int
	limit  int          // bytes of the stream the peer sends before it closes the connection (-1: the whole stream; only the last connection)
	chunks []int        // partition of the bytes sent (nil: chosen at random)
	pause  map[int]bool // chunk indices after which the peer stays silent for longer than the receiver's read timeout
}

type frScen struct {
	kind   string // "random" or the name of a directed case
	side   string // "server" | "client"
	via    string // server: "direct" (protocol.TarsRequest) | "tars" (tars.Protocol.ParsePackage); client: "transport" (TarsClient + TarsRequest) | "proxy" (ServantProxy -> AdapterProxy.ParsePackage)
	maxLen int
	rt     time.Duration // ReadTimeout of the receiver (0: none)
	segs   []frSeg
}

const frReadTimeout = 12 * time.Millisecond
const frPause = 3*frReadTimeout + 6*time.Millisecond

// frDirected: the boundary cases every run contains whatever the seed: an illegal prefix arriving alone / ending the stream, a
// body-less packet alone / last, the exact maximum, silence longer than the read timeout inside a header / a payload, connections cut
// inside a header / a payload / after a protocol error followed by a new connection of the same receiver.
func frDirected() []frScen {
	var out []frScen
	const M, L = 16, 9
	whole := func(lens []int, junk int, chunks []int) []frSeg {
		return []frSeg{{lens: lens, junk: junk, limit: -1, chunks: chunks}}
	}
	type cs struct {
		name string
		rt   time.Duration
		segs []frSeg
	}
	var cases []cs
	for i, bad := range []int{3, M + 1, 0, 1 << 24} {
		cases = append(cases,
			cs{fmt.Sprintf("bad-prefix-alone-then-junk/%d", i), 0, whole([]int{L, bad}, 6, []int{L, 4, 6})},
			cs{fmt.Sprintf("bad-prefix-ends-stream/%d", i), 0, whole([]int{L, bad}, 0, []int{L, 4})},
			cs{fmt.Sprintf("bad-prefix-only/%d", i), 0, whole([]int{bad}, 0, []int{4})},
			cs{fmt.Sprintf("bad-prefix-coalesced-ends-stream/%d", i), 0, whole([]int{L, L, bad}, 0, []int{2*L + 4})},
		)
	}
	cases = append(cases,
		cs{"min-packet-only", 0, whole([]int{4}, 6, []int{4})},
		cs{"min-packet-last-coalesced", 0, whole([]int{L, 4}, 6, []int{L + 4})},
		cs{"min-packet-last-alone", 0, whole([]int{L, 4}, 6, []int{L, 4})},
		cs{"min-packet-last-split", 0, whole([]int{L, 4}, 6, []int{L + 1, 3})},
		cs{"min-packets-coalesced", 0, whole([]int{4, 4, 4}, 6, []int{12})},
		cs{"min-packet-first-alone", 0, whole([]int{4, L}, 6, []int{4, L})},
		cs{"min-packet-middle", 0, whole([]int{L, 4, L}, 6, []int{L, 4, L})},
		cs{"header-alone", 0, whole([]int{L, L}, 6, []int{4, L - 4, 4, L - 4})},
		cs{"max-exact", 0, whole([]int{M, M}, 6, []int{4, M - 4, M})},
		cs{"max-exact-bytes", 0, whole([]int{M, M, 5}, 6, nil)},
		cs{"pause-in-header", frReadTimeout, []frSeg{{lens: []int{L, L}, junk: 6, limit: -1, chunks: []int{2, L - 2, L}, pause: map[int]bool{0: true}}}},
		cs{"pause-after-header", frReadTimeout, []frSeg{{lens: []int{L, L}, junk: 6, limit: -1, chunks: []int{4, L - 4, L}, pause: map[int]bool{0: true}}}},
		cs{"pause-in-payload", frReadTimeout, []frSeg{{lens: []int{L, L}, junk: 6, limit: -1, chunks: []int{L + 6, L - 6}, pause: map[int]bool{0: true}}}},
		cs{"pause-in-second-header", frReadTimeout, []frSeg{{lens: []int{L, L, L}, junk: 6, limit: -1, chunks: []int{L + 3, L - 3, L}, pause: map[int]bool{0: true, 1: true}}}},
		cs{"pause-at-boundary", frReadTimeout, []frSeg{{lens: []int{L, L}, junk: 6, limit: -1, chunks: []int{L, L}, pause: map[int]bool{0: true}}}},
		cs{"pause-twice-in-one-packet", frReadTimeout, []frSeg{{lens: []int{M}, junk: 6, limit: -1, chunks: []int{3, 5, M - 8}, pause: map[int]bool{0: true, 1: true}}}},
		cs{"cut-in-header", 0, []frSeg{{lens: []int{L, L}, junk: 6, limit: L + 2}, {lens: []int{L}, junk: 6, limit: -1}}},
		cs{"cut-after-header", 0, []frSeg{{lens: []int{L, L}, junk: 6, limit: L + 4}, {lens: []int{L, 5}, junk: 6, limit: -1}}},
		cs{"cut-in-payload", 0, []frSeg{{lens: []int{L, M}, junk: 6, limit: L + 9}, {lens: []int{L}, junk: 6, limit: -1}}},
		cs{"cut-in-first-payload", 0, []frSeg{{lens: []int{M}, junk: 6, limit: M - 1}, {lens: []int{M, L}, junk: 6, limit: -1, chunks: []int{M + L}}}},
		cs{"cut-at-boundary", 0, []frSeg{{lens: []int{L, L}, junk: 6, limit: L}, {lens: []int{L}, junk: 6, limit: -1}}},
		cs{"cut-after-error", 0, []frSeg{{lens: []int{L, 3}, junk: 6, limit: L + 10}, {lens: []int{L}, junk: 6, limit: -1}}},
		cs{"cut-twice", 0, []frSeg{{lens: []int{L, L}, junk: 6, limit: L + 3}, {lens: []int{M, L}, junk: 6, limit: M + 5}, {lens: []int{5, L}, junk: 6, limit: -1}}},
		cs{"cut-in-payload-after-pause", frReadTimeout, []frSeg{{lens: []int{L, M}, junk: 6, limit: L + 9, chunks: []int{L + 2, 7}, pause: map[int]bool{0: true}}, {lens: []int{L}, junk: 6, limit: -1}}},
	)
	for _, sv := range [][2]string{{"server", "direct"}, {"server", "tars"}, {"client", "transport"}, {"client", "proxy"}} {
		for _, c := range cases {
			out = append(out, frScen{kind: c.name, side: sv[0], via: sv[1], maxLen: M, rt: c.rt, segs: c.segs})
		}
	}
	return out
}

func frRandom(rng *rand.Rand, big bool) frScen {
	maxLen := []int{16, 64, 1000, 100000, 10485760}[rng.Intn(5)]
	cand := []int{4, 5, 6, 8, 12, 16, 33, 64, 100, 255, 1000, 4095, 4096, 4097, 9000, maxLen - 1, maxLen, maxLen, maxLen + 1, 0, 3, 1}
	if big {
		cand = append(cand, 65536, 1<<20)
	}
	sc := frScen{kind: "random", maxLen: maxLen}
	sc.side = []string{"server", "client"}[rng.Intn(2)]
	if sc.side == "server" {
		sc.via = []string{"direct", "tars"}[rng.Intn(2)]
	} else {
		sc.via = []string{"transport", "proxy"}[rng.Intn(2)]
	}
	pauses := false
	if rng.Intn(2) == 0 {
		sc.rt = frReadTimeout
		pauses = rng.Intn(3) != 0
	}
	nseg := 1
	if rng.Intn(3) == 0 {
		nseg = 2 + rng.Intn(2)
	}
	for si := 0; si < nseg; si++ {
		var lens []int
		for k := 1 + rng.Intn(5); k > 0; k-- {
			d := cand[rng.Intn(len(cand))]
			if d > 2<<20 { // do not really send 10 MB packets: only as an illegal length or the exact maximum when small
				d = maxLen + 1
			}
			if (d < 4 || d > maxLen) && rng.Intn(3) != 0 {
				d = cand[rng.Intn(12)]
				if d > maxLen {
					d = maxLen
				}
			}
			lens = append(lens, d)
		}
		seg := frSeg{lens: lens, junk: []int{6, 6, 0}[rng.Intn(3)], limit: -1}
		total := 0
		for _, d := range lens {
			total += frPhys(d, maxLen, seg.junk)
		}
		if si < nseg-1 {
			// where the connection dies: next to a boundary of a random packet, or anywhere
			k, pos := rng.Intn(len(lens)), 0
			for _, d := range lens[:k] {
				pos += frPhys(d, maxLen, seg.junk)
			}
			p := frPhys(lens[k], maxLen, seg.junk)
			lim := pos + []int{1, 2, 3, 4, 5, p - 1, p, 1 + rng.Intn(p)}[rng.Intn(8)]
			if rng.Intn(4) == 0 {
				lim = 1 + rng.Intn(total)
			}
			if lim < 1 {
				lim = 1
			}
			if lim > total {
				lim = total
			}
			seg.limit = lim
			total = lim
		}
		seg.chunks = frPartition(rng, total, lens, maxLen, seg.junk)
		if pauses {
			seg.pause = map[int]bool{}
			sent := 0
			for i, c := range seg.chunks[:len(seg.chunks)-1] {
				sent += c
				p := 6
				if frBoundary(lens, maxLen, seg.junk, sent) {
					p = 1
				}
				if len(seg.pause) < 2 && rng.Intn(10) < p {
					seg.pause[i] = true
				}
			}
		}
		sc.segs = append(sc.segs, seg)
	}
	return sc
}

type frServer struct {
	addr  string
	other net.Conn // the healthy second connection
}

func framingTrace(args []string) error {
	fs := flag.NewFlagSet("framing-trace", flag.ExitOnError)
	seed := fs.Int64("seed", 1, "seed")
	num := fs.Int("n", 100, "random scenarios")
	out := fs.String("out", "trace.ndjson", "output")
	big := fs.Bool("big", false, "include packets up to 1 MB")
	dk := fs.Int("dk", 0, "run the directed scenarios with index = dk modulo dn")
	dn := fs.Int("dn", 0, "0: no directed scenarios")
	fs.Parse(args)
	rng := rand.New(rand.NewSource(*seed))
	vhook.Set(frHook)
	// real servers: framing asked of protocol.TarsRequest directly / of tars.Protocol (what a real servant uses), without / with a read timeout
	servers := map[string]*frServer{}
	for _, via := range []string{"direct", "tars"} {
		for _, rt := range []time.Duration{0, frReadTimeout} {
			ln, _ := net.Listen("tcp", "127.0.0.1:0")
			addr := ln.Addr().String()
			ln.Close()
			var sp transport.ServerProtocol = frSrvProto{}
			if via == "tars" {
				sp = frSrvTarsProto{p: tars.NewTarsProtocol(nil, nil, false)}
			}
			srv := transport.NewTarsServer(sp, &transport.TarsServerConf{Proto: "tcp", Address: addr, IdleTimeout: time.Hour,
				ReadTimeout: rt, TCPReadBuffer: 1 << 20, TCPWriteBuffer: 1 << 20})
			if err := srv.Listen(); err != nil {
				return err
			}
			go srv.Serve()
			other, err := net.Dial("tcp", addr)
			if err != nil {
				return err
			}
			servers[fmt.Sprint(via, rt)] = &frServer{addr: addr, other: other}
		}
	}
	comm := tars.NewCommunicator()
	w, err := tr.Create(*out)
	if err != nil {
		return err
	}
	waitRead := func(total int) bool {
		dl := time.Now().Add(10 * time.Second)
		for time.Now().Before(dl) {
			fr.mu.Lock()
			s, pe := fr.readSum, fr.perr
			fr.mu.Unlock()
			if s >= total {
				return true
			}
			if pe {
				return false // the receiver stopped reading after a protocol error
			}
			time.Sleep(50 * time.Microsecond)
		}
		return false
	}
	// the read hook fires before the scan loop hands the packets over: give the receiver time (up to 5 s) to hand out every
	// packet that is complete in what it has read (or to report the protocol error)
	settle := func(want int, bad bool) {
		for i := 0; i < 5000; i++ {
			fr.mu.Lock()
			got, pe := fr.pkgs, fr.perr
			fr.mu.Unlock()
			if got >= want && (pe || !bad) {
				break
			}
			time.Sleep(time.Millisecond)
		}
		time.Sleep(300 * time.Microsecond)
	}
	sawClose := func(c net.Conn) bool {
		c.SetReadDeadline(time.Now().Add(2 * time.Second))
		buf := make([]byte, 16)
		for {
			_, err := c.Read(buf)
			if err != nil {
				ne, ok := err.(net.Error)
				return !(ok && ne.Timeout())
			}
		}
	}
	stillOpen := func(c net.Conn) bool {
		c.SetReadDeadline(time.Now().Add(30 * time.Millisecond))
		_, err := c.Read(make([]byte, 1))
		ne, ok := err.(net.Error)
		return err != nil && ok && ne.Timeout()
	}
	var scens []frScen
	if *dn > 0 {
		for i, sc := range frDirected() {
			if i%*dn == *dk {
				scens = append(scens, sc)
			}
		}
	}
	ndirected := len(scens)
	for i := 0; i < *num; i++ {
		scens = append(scens, frRandom(rng, *big))
	}
	nfail := 0
	for idx, sc := range scens {
		maxLen := sc.maxLen
		protocol.SetMaxPackageLength(maxLen)
		rec := tr.New()
		fr.mu.Lock()
		fr.rec, fr.side, fr.match, fr.other = rec, sc.side, nil, 0
		fr.mu.Unlock()
		var cleanup []func()
		// the receiver's end
		var srv *frServer
		var l2 net.Listener
		var acc chan net.Conn
		var open func() error // makes the client (re)connect
		if sc.side == "server" {
			srv = servers[fmt.Sprint(sc.via, sc.rt)]
		} else {
			var err error
			if l2, err = net.Listen("tcp", "127.0.0.1:0"); err != nil {
				return err
			}
			acc = make(chan net.Conn, 4)
			go func() {
				for {
					c, err := l2.Accept()
					if err != nil {
						return
					}
					acc <- c
				}
			}()
			cleanup = append(cleanup, func() { l2.Close() })
			if sc.via == "transport" {
				cli := transport.NewTarsClient(l2.Addr().String(), frCliProto{}, &transport.TarsClientConf{Proto: "tcp", QueueLen: 10,
					IdleTimeout: time.Hour, DialTimeout: time.Second, ReadTimeout: sc.rt})
				open = func() error { return cli.Send([]byte{0, 0, 0, 4}) }
				cleanup = append(cleanup, cli.Close)
			} else {
				// a real servant proxy on a direct endpoint: its AdapterProxy is the ClientProtocol of the transport; a one-way call
				// makes it (re)connect and expects no answer
				comm.Client.ClientReadTimeout = sc.rt
				obj := fmt.Sprintf("Fr.S%dx%d.Obj@tcp -h 127.0.0.1 -p %d -t 60000", *seed, idx, l2.Addr().(*net.TCPAddr).Port)
				sp := tars.NewServantProxy(comm, obj)
				open = func() error {
					var resp requestf.ResponsePacket
					return sp.TarsInvoke(context.Background(), byte(basef.TARSONEWAY), "ping", []byte{}, nil, nil, &resp)
				}
			}
		}
		aborted := false
		for si, seg := range sc.segs {
			last := si == len(sc.segs)-1
			stream := frStream(seg.lens, maxLen, seg.junk)
			limit := seg.limit
			if limit < 0 || last {
				limit = len(stream)
			}
			chunks := seg.chunks
			if chunks == nil {
				chunks = frPartition(rng, limit, seg.lens, maxLen, seg.junk)
			}
			rec.Emit("Stream", "lens", seg.lens, "maxlen", maxLen, "side", sc.side, "via", sc.via, "junk", seg.junk, "conn", si+1,
				"rt", int(sc.rt/time.Millisecond), "kind", sc.kind)
			fr.mu.Lock()
			fr.match, fr.readSum, fr.pkgs, fr.perr, fr.exited = nil, 0, 0, false, false
			fr.mu.Unlock()
			var peer net.Conn // the harness end of the observed connection
			if sc.side == "server" {
				c, err := net.Dial("tcp", srv.addr)
				if err != nil {
					return err
				}
				peer = c
				la := c.LocalAddr().String()
				fr.mu.Lock()
				fr.match = func(sc net.Conn) bool { return sc.RemoteAddr().String() == la }
				fr.mu.Unlock()
			} else {
				if err := open(); err != nil {
					return fmt.Errorf("the client cannot (re)connect: %v", err)
				}
				select {
				case peer = <-acc:
				case <-time.After(5 * time.Second):
					return fmt.Errorf("the client did not connect (scenario %d connection %d)", idx, si+1)
				}
				ra := peer.RemoteAddr().String()
				fr.mu.Lock()
				fr.match = func(cc net.Conn) bool { return cc.LocalAddr().String() == ra }
				fr.mu.Unlock()
			}
			sent := 0
			for ci, c := range chunks {
				peer.SetWriteDeadline(time.Now().Add(2 * time.Second))
				if _, err := peer.Write(stream[sent : sent+c]); err != nil {
					break // the receiver closed after a protocol error
				}
				sent += c
				if !waitRead(sent) {
					// after a protocol error the receiver stops reading: expected.  Otherwise the receiver did not consume the
					// chunk within the harness' patience (a loaded machine): the run says nothing, it is marked and dropped
					fr.mu.Lock()
					pe := fr.perr
					fr.mu.Unlock()
					if !pe {
						rec.Emit("HarnessTimeout")
						aborted = true
					}
					break
				}
				if seg.pause[ci] && sc.rt > 0 {
					// the peer goes silent for longer than the receiver's read timeout, once the receiver has dealt with what it has
					// got (a receiver that has closed after a protocol error is not paused)
					settle(frExpect(seg.lens, maxLen, seg.junk, sent))
					fr.mu.Lock()
					pe := fr.perr
					fr.mu.Unlock()
					if pe {
						break
					}
					rec.Emit("Pause", "ms", int(frPause/time.Millisecond), "buffered", !frBoundary(seg.lens, maxLen, seg.junk, sent))
					time.Sleep(frPause)
				}
			}
			if aborted {
				peer.Close()
				break
			}
			want, bad := frExpect(seg.lens, maxLen, seg.junk, sent)
			settle(want, bad)
			if !last {
				// the connection dies here, wherever in the stream that is; the next connection of the same receiver follows
				rec.Emit("Cut", "sent", sent, "inside", !frBoundary(seg.lens, maxLen, seg.junk, sent))
				if sc.side == "client" && (idx+si)%2 == 0 {
					// take what the client has written first: the connection then ends with FIN (the client reads EOF); otherwise
					// the unread bytes make the kernel reset it (the client's read fails with ECONNRESET)
					peer.SetReadDeadline(time.Now().Add(2 * time.Millisecond))
					for {
						if _, err := peer.Read(make([]byte, 4096)); err != nil {
							break
						}
					}
				}
				peer.Close()
				if sc.side == "client" {
					ok := false
					for i := 0; i < 5000 && !ok; i++ { // the client has to notice before it is asked to send again
						fr.mu.Lock()
						ok = fr.exited
						fr.mu.Unlock()
						if !ok {
							time.Sleep(time.Millisecond)
						}
					}
					if !ok {
						rec.Emit("HarnessTimeout")
						aborted = true
						break
					}
				}
				continue
			}
			cleanup = append(cleanup, func() { peer.Close() })
			if bad {
				if sawClose(peer) {
					rec.Emit("PeerSawClose")
				}
				if sc.side == "server" {
					// the healthy connection still gets its packet through
					fr.mu.Lock()
					before := fr.other
					fr.mu.Unlock()
					srv.other.Write([]byte{0, 0, 0, 5, 77})
					for i := 0; i < 2000; i++ {
						fr.mu.Lock()
						o := fr.other
						fr.mu.Unlock()
						if o > before {
							rec.Emit("OtherConnOk")
							break
						}
						time.Sleep(time.Millisecond)
					}
				}
			} else if stillOpen(peer) {
				rec.Emit("PeerStillOpen")
			}
		}
		fr.mu.Lock()
		fr.rec = nil
		fr.mu.Unlock()
		for i := len(cleanup) - 1; i >= 0; i-- {
			cleanup[i]()
		}
		evs := rec.Close()
		for _, ev := range evs {
			w.Write(ev)
		}
		w.Write(tr.Ev{"e": "End"})
	}
	protocol.SetMaxPackageLength(10485760)
	if err := w.Close(); err != nil {
		return err
	}
	fr.mu.Lock()
	fmt.Println(ndirected, len(scens), nfail, fr.hookHits["tcp.recv.read"], fr.hookHits["tcp.handleConn"], fr.hookHits["client.recv.read"], fr.hookHits["client.recv.pkg"],
		fr.hookHits["tcp.recv.parseError"]+fr.hookHits["client.recv.parseError"])
	fr.mu.Unlock()
	return nil
}
