package main

import (
	"flag"
	"fmt"
	"math/rand"
	"sync"
	"time"

	"github.com/TarsCloud/TarsGo/tars/util/rogger"
	"github.com/TarsCloud/TarsGo/tars/util/vhook"
	"verifharness/internal/tr"
)

func init() { register("logflush-trace", logflushTrace) }

// recWriter is a LogWriter that records which entry the flusher hands to it.
type recWriter struct{ rec **tr.Rec }

func (w *recWriter) Write(v []byte) {
	var g, i int
	fmt.Sscanf(string(v), "%d %d", &g, &i)
	(*w.rec).Emit("Write", "g", g, "i", i, "n", len(v))
}
func (w *recWriter) NeedPrefix() bool { return false }

// gate: the hook between the flusher's selects. When armed the flusher is held there until released.
type lfGate struct {
	mu      sync.Mutex
	armed   bool
	waiting chan struct{} // closed when the flusher is held at the gate
	release chan struct{}
}

func logflushTrace(args []string) error {
	fs := flag.NewFlagSet("logflush-trace", flag.ExitOnError)
	seed := fs.Int64("seed", 1, "seed")
	num := fs.Int("n", 100, "scenarios")
	out := fs.String("out", "trace.ndjson", "output file")
	hookCount := 0
	fs.Parse(args)
	rng := rand.New(rand.NewSource(*seed))
	var rec *tr.Rec
	g := &lfGate{}
	vhook.Set(func(point string, a ...interface{}) {
		if point != "rogger.flush.between" {
			return
		}
		hookCount++
		rec.Emit("Between")
		g.mu.Lock()
		if !g.armed {
			g.mu.Unlock()
			return
		}
		g.armed = false
		w, r := g.waiting, g.release
		g.mu.Unlock()
		close(w)
		<-r
	})
	rogger.VerifSetFlushTimeout(10 * time.Second)
	rec = tr.New()
	rogger.FlushLogger() // ends the flusher started by the package's init; every scenario starts its own
	lg := rogger.GetLogger("verif")
	lg.SetWriter(&recWriter{&rec})
	w, err := tr.Create(*out)
	if err != nil {
		return err
	}
	lost := 0
	for sc := 0; sc < *num; sc++ {
		rec = tr.New()
		rogger.VerifResetFlusher()
		ng := 1 + rng.Intn(3)
		shape := rng.Intn(4)
		logN := func(gid, from, n int) {
			for i := from; i < from+n; i++ {
				rec.Emit("LogCall", "g", gid, "i", i)
				lg.WriteLog([]byte(fmt.Sprintf("%d %d", gid, i)))
				rec.Emit("LogRet", "g", gid, "i", i)
			}
		}
		switch shape {
		case 0, 1:
			// the window: hold the flusher between its selects (queue found empty), log, request the flush, release
			g.mu.Lock()
			g.armed, g.waiting, g.release = true, make(chan struct{}), make(chan struct{})
			wch, rch := g.waiting, g.release
			g.mu.Unlock()
			pre := rng.Intn(3)
			logN(1, 1, pre) // wakes the flusher if it is parked; it will come round to the gate
			if pre == 0 {
				// the flusher may be parked inside the inner select already (no hook there): poke it with one entry
				logN(1, 1, 1)
				pre = 1
			}
			select {
			case <-wch:
			case <-time.After(2 * time.Second):
				return fmt.Errorf("flusher never reached the gate")
			}
			logN(1, pre+1, 1+rng.Intn(2))
			done := make(chan struct{})
			go func() {
				rec.Emit("FlushCall")
				rogger.FlushLogger()
				rec.Emit("FlushRet")
				close(done)
			}()
			if shape == 0 {
				time.Sleep(time.Duration(200+rng.Intn(800)) * time.Microsecond) // let syncCancel happen first
			}
			close(rch)
			<-done
		default:
			// free running: several goroutines log concurrently, then one flush
			var wg sync.WaitGroup
			for gid := 1; gid <= ng; gid++ {
				wg.Add(1)
				go func(gid, n int, pause time.Duration) {
					defer wg.Done()
					for i := 1; i <= n; i++ {
						rec.Emit("LogCall", "g", gid, "i", i)
						lg.WriteLog([]byte(fmt.Sprintf("%d %d", gid, i)))
						rec.Emit("LogRet", "g", gid, "i", i)
						if pause > 0 {
							time.Sleep(pause)
						}
					}
				}(gid, 1+rng.Intn(6), time.Duration(rng.Intn(3))*50*time.Microsecond)
			}
			if shape == 2 {
				wg.Wait()
			} else {
				time.Sleep(time.Duration(rng.Intn(300)) * time.Microsecond)
			}
			rec.Emit("FlushCall")
			rogger.FlushLogger()
			rec.Emit("FlushRet")
			wg.Wait()
		}
		if rogger.VerifQueueLen() > 0 {
			lost++
		}
		time.Sleep(200 * time.Microsecond)
		for _, ev := range rec.Close() {
			w.Write(ev)
		}
		w.Write(tr.Ev{"e": "Reset"})
	}
	if err := w.Close(); err != nil {
		return err
	}
	fmt.Println(*num, hookCount, lost)
	return nil
}
