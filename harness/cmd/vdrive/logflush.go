package main

import (
	"bufio"
	"flag"
	"fmt"
	"math/rand"
	"os"
	"os/exec"
	"strings"
	"sync"
	"sync/atomic"
	"time"

	"github.com/TarsCloud/TarsGo/tars"
	"github.com/TarsCloud/TarsGo/tars/util/gtime"

	"github.com/TarsCloud/TarsGo/tars/util/rogger"
	"github.com/TarsCloud/TarsGo/tars/util/vhook"
	"verifharness/internal/tr"
)

func init() {
	register("logflush-trace", logflushTrace)
	register("logpanic-child", logPanicChild)
}

// recWriter is a LogWriter that records which entry the flusher hands to it.
type recWriter struct {
	rec    **tr.Rec
	prefix bool // ask the logger for the time|file|level| prefix (text path through writeLine)
	// slow writer (window scenarios): the Write event is recorded at the hand-over (entry of Write), then the writer
	// stays inside Write for up to slow, or until FlushLogger has returned (flushRet closed), whichever comes first.  A
	// flusher that is still handing entries over when FlushLogger returns is thereby seen in the order of the recorded
	// events (FlushRet before the remaining Write events) and not some time later.  Both fields are set while the
	// flusher is held at the gate.
	slow     time.Duration
	flushRet chan struct{}
	writes   int64 // hand-overs so far (atomic)
}

// entryOf parses "g i" from the end of a written line (after the last '|' of the prefix, if there is one).
func entryOf(v []byte) (g, i int) {
	s := strings.TrimSpace(string(v))
	if k := strings.LastIndexByte(s, '|'); k >= 0 {
		s = s[k+1:]
	}
	fmt.Sscanf(s, "%d %d", &g, &i)
	return
}

func (w *recWriter) Write(v []byte) {
	g, i := entryOf(v)
	(*w.rec).Emit("Write", "g", g, "i", i, "n", len(v))
	atomic.AddInt64(&w.writes, 1)
	if w.slow > 0 {
		select {
		case <-w.flushRet:
		case <-time.After(w.slow):
		}
	}
}
func (w *recWriter) NeedPrefix() bool { return w.prefix }

// ---- the panic exit: a child process logs n entries to a slow file writer and panics under tars.CheckPanic
type fileWriter struct {
	f     *os.File
	pause time.Duration
}

func (w *fileWriter) Write(v []byte) {
	time.Sleep(w.pause)
	w.f.Write(append(append([]byte{}, v...), '\n'))
}
func (w *fileWriter) NeedPrefix() bool { return false }

func logPanicChild(args []string) error {
	fs := flag.NewFlagSet("logpanic-child", flag.ExitOnError)
	n := fs.Int("n", 100, "entries")
	path := fs.String("file", "", "absolute path of the file the writer appends to")
	pauseUs := fs.Int("pause-us", 100, "writer delay per entry")
	text := fs.Bool("text", false, "log through Infof instead of WriteLog")
	via := fs.String("via", "checkpanic", "how the process ends: checkpanic (a panic under tars.CheckPanic) | runinit (tars.Run panics while it reads a configuration with an unusable TLS key)")
	window := fs.Bool("window", false, "hold the flusher between its selects (queue found empty) while the entries are logged; release it a moment after the exit path has been entered")
	fs.Parse(args)
	f, err := os.OpenFile(*path, os.O_CREATE|os.O_WRONLY|os.O_APPEND, 0644)
	if err != nil {
		return err
	}
	rogger.SetLevel(rogger.DEBUG)
	rogger.VerifSetFlushTimeout(10 * time.Second)
	lg := rogger.GetLogger("verifpanic")
	lg.SetWriter(&fileWriter{f: f, pause: time.Duration(*pauseUs) * time.Microsecond})
	logged := func() {}
	if *window {
		// the flusher of this process is held at the gate after it found the queue empty; it is released a few milliseconds
		// after the last logging call returned, i.e. (usually) after the exit path has requested the flush: both cases of the
		// blocking select are ready then.  An arrival at the gate after the release means the select took the queue case; it
		// is noted in <file>.between for the parent (evidence only).
		var state int32 // 0: hold the next arrival, 1: holding, 2: released
		reached, release := make(chan struct{}), make(chan struct{})
		vhook.Set(func(point string, a ...interface{}) {
			if point != "rogger.flush.between" {
				return
			}
			if atomic.CompareAndSwapInt32(&state, 0, 1) {
				close(reached)
				<-release
				return
			}
			if atomic.LoadInt32(&state) == 2 {
				os.WriteFile(*path+".between", []byte("1"), 0644)
			}
		})
		atomic.StoreInt32(&state, 3)
		rogger.FlushLogger() // ends the flusher started by the package's init
		atomic.StoreInt32(&state, 0)
		rogger.VerifResetFlusher()
		select {
		case <-reached:
		case <-time.After(2 * time.Second):
			os.Exit(3)
		}
		logged = func() {
			go func() {
				time.Sleep(4 * time.Millisecond)
				atomic.StoreInt32(&state, 2)
				close(release)
			}()
		}
	}
	logAll := func() {
		for i := 1; i <= *n; i++ {
			if *text {
				lg.Infof("%d %d", 1, i)
			} else {
				lg.WriteLog([]byte(fmt.Sprintf("%d %d", 1, i)))
			}
		}
		logged()
	}
	if *via == "runinit" {
		// the application reads its configuration inside Run: an unusable TLS key makes it panic there, and the panic leaves Run
		cfg := *path + ".conf"
		os.WriteFile(cfg, []byte("<tars>\n<application>\n<server>\napp=Verif\nserver=LogPanic\nlocalip=127.0.0.1\nkey=/nonexistent/verif.key\ncert=/nonexistent/verif.crt\n</server>\n</application>\n</tars>\n"), 0644)
		tars.ServerConfigPath = cfg
		logAll()
		tars.Run()
		return fmt.Errorf("tars.Run returned")
	}
	func() {
		defer tars.CheckPanic() // what every servant goroutine of the framework does: dump, flush the log, exit
		logAll()
		panic("verif: boom")
	}()
	return fmt.Errorf("CheckPanic returned")
}

// panicScenario runs the child and turns what it left in the file into a trace: the n logging calls returned before the
// panic (one goroutine), the exit path requests the flush, the writes are what the file holds, the process is gone.
// window: the child's flusher is held between its selects while the entries are logged (see logPanicChild); drained reports
// that the blocking select took the flush case while the entries were still queued (no arrival at the gate after the release).
func panicScenario(rng *rand.Rand, dir string, sc int, window bool) (evs []tr.Ev, drained bool, err error) {
	n := 5 + rng.Intn(36)
	path := fmt.Sprintf("%s/panic-%d.log", dir, sc)
	via := []string{"checkpanic", "runinit"}[sc/25%2]
	kind := "panic-exit"
	if window {
		kind = "panic-exit-window"
		if sc%3 == 0 {
			n = 1 + rng.Intn(4) // few entries as well: the queue occupancy at the flush is what varies
		}
	}
	cmd := exec.Command(os.Args[0], "logpanic-child", "-n", fmt.Sprint(n), "-file", path, "-pause-us", fmt.Sprint(50+rng.Intn(400)),
		fmt.Sprintf("-text=%v", rng.Intn(2) == 0), "-via", via, fmt.Sprintf("-window=%v", window))
	cmd.Dir = dir
	out, _ := cmd.CombinedOutput()
	if cmd.ProcessState == nil || cmd.ProcessState.ExitCode() == 0 || cmd.ProcessState.ExitCode() == 3 {
		return nil, false, fmt.Errorf("panic child did not exit through CheckPanic: %s", string(out))
	}
	evs = append(evs, tr.Ev{"e": "Config", "k": 10000, "kind": kind, "via": via})
	for i := 1; i <= n; i++ {
		evs = append(evs, tr.Ev{"e": "LogCall", "g": 1, "i": i}, tr.Ev{"e": "LogRet", "g": 1, "i": i})
	}
	evs = append(evs, tr.Ev{"e": "FlushCall"})
	if f, err := os.Open(path); err == nil {
		scn := bufio.NewScanner(f)
		for scn.Scan() {
			g, i := entryOf(scn.Bytes())
			evs = append(evs, tr.Ev{"e": "Write", "g": g, "i": i, "n": len(scn.Bytes())})
		}
		f.Close()
	}
	if window {
		_, e := os.Stat(path + ".between")
		drained = e != nil
	}
	os.Remove(path)
	os.Remove(path + ".conf")
	os.Remove(path + ".between")
	evs = append(evs, tr.Ev{"e": "FlushRet"}, tr.Ev{"e": "Reset"})
	return evs, drained, nil
}

// fileScenario: the framework's own size-rolled file writer.  Three entries, a flush, more than ten seconds pass (the writer
// re-opens its file then), three more entries, a flush.  What the file holds afterwards is what was written: every entry
// once, whole, in order.  Two runs of the trace specification (one per flusher), the writes taken from the file.
func fileScenario(rng *rand.Rand, dir string, sc int, lg *rogger.Logger, restore rogger.LogWriter) ([]tr.Ev, error) {
	name := fmt.Sprintf("roll-%d", sc)
	fw := rogger.NewRollFileWriter(dir, name, 3, 10)
	lg.SetWriter(fw)
	defer lg.SetWriter(restore)
	n1, n2 := 2+rng.Intn(3), 2+rng.Intn(3)
	phase := func(g, n int) {
		rogger.VerifSetQueueCap(10000)
		rogger.VerifResetFlusher()
		for i := 1; i <= n; i++ {
			lg.Infof("%d %d", g, i)
		}
		rogger.FlushLogger()
	}
	phase(1, n1)
	gtime.CurrUnixTime += 11 // the writer re-opens its file when it is older than ten seconds
	phase(2, n2)
	data, err := os.ReadFile(dir + "/" + name + ".log")
	if err != nil {
		return nil, err
	}
	var evs []tr.Ev
	for g, n := range map[int]int{1: n1, 2: n2} {
		_ = g
		_ = n
	}
	for _, gn := range [][2]int{{1, n1}, {2, n2}} {
		g, n := gn[0], gn[1]
		evs = append(evs, tr.Ev{"e": "Config", "k": 10000, "kind": "roll-file-writer"})
		for i := 1; i <= n; i++ {
			evs = append(evs, tr.Ev{"e": "LogCall", "g": g, "i": i}, tr.Ev{"e": "LogRet", "g": g, "i": i})
		}
		evs = append(evs, tr.Ev{"e": "FlushCall"})
		for _, line := range strings.Split(string(data), "\n") {
			if strings.TrimSpace(line) == "" {
				continue
			}
			lgid, li := entryOf([]byte(line))
			if lgid == g || (lgid != 1 && lgid != 2 && g == 2) { // a torn line belongs to nobody: shown to the second run
				evs = append(evs, tr.Ev{"e": "Write", "g": lgid, "i": li, "n": len(line)})
			}
		}
		evs = append(evs, tr.Ev{"e": "FlushRet"}, tr.Ev{"e": "Reset"})
	}
	return evs, nil
}

// gate: the hook between the flusher's selects. When armed the flusher is held there until released.
type lfGate struct {
	mu      sync.Mutex
	armed   bool
	waiting chan struct{} // closed when the flusher is held at the gate
	release chan struct{}
}

func logflushTrace(args []string) error {
	fs := flag.NewFlagSet("logflush-trace", flag.ExitOnError)
	seed := fs.Int64("seed", 1, "seed")
	num := fs.Int("n", 100, "scenarios")
	out := fs.String("out", "trace.ndjson", "output file")
	nwin := fs.Int("window", 0, "additional scenarios through the window with a slow writer (shape 6), run after the -n scenarios")
	slowUs := fs.Int("slow-us", 3000, "window scenarios: how long the writer stays inside Write after the hand-over (or until FlushLogger returned)")
	hookCount := 0
	var afterRelease int32 // arrivals at the gate since the last release (window scenarios)
	fs.Parse(args)
	rng := rand.New(rand.NewSource(*seed))
	var rec *tr.Rec
	g := &lfGate{}
	vhook.Set(func(point string, a ...interface{}) {
		if point != "rogger.flush.between" {
			return
		}
		hookCount++
		rec.Emit("Between")
		atomic.AddInt32(&afterRelease, 1)
		g.mu.Lock()
		if !g.armed {
			g.mu.Unlock()
			return
		}
		g.armed = false
		w, r := g.waiting, g.release
		g.mu.Unlock()
		close(w)
		<-r
	})
	rogger.VerifSetFlushTimeout(10 * time.Second)
	rec = tr.New()
	rogger.FlushLogger() // ends the flusher started by the package's init; every scenario starts its own
	rogger.SetLevel(rogger.DEBUG)
	lg := rogger.GetLogger("verif")
	rw := &recWriter{rec: &rec}
	lg.SetWriter(rw)
	scratch, err := os.MkdirTemp("", "lfpanic")
	if err != nil {
		return err
	}
	defer os.RemoveAll(scratch)
	w, err := tr.Create(*out)
	if err != nil {
		return err
	}
	lost := 0
	winRuns, winDrained, winChild, winChildDrained, winStalled := 0, 0, 0, 0, 0
	for sc := 0; sc < *num+*nwin; sc++ {
		windowOnly := sc >= *num
		if windowOnly && (sc-*num)%20 == 19 { // the window inside a real process that exits through a panic
			evs, drained, err := panicScenario(rng, scratch, sc, true)
			if err != nil {
				return err
			}
			winChild++
			if drained {
				winChildDrained++
			}
			for _, ev := range evs {
				w.Write(ev)
			}
			continue
		}
		if !windowOnly && sc%25 == 12 { // the framework's file writer across a re-open
			evs, err := fileScenario(rng, scratch, sc, lg, rw)
			if err != nil {
				return err
			}
			for _, ev := range evs {
				w.Write(ev)
			}
			continue
		}
		if !windowOnly && sc%25 == 24 { // the panic exit of a real process
			evs, _, err := panicScenario(rng, scratch, sc, false)
			if err != nil {
				return err
			}
			for _, ev := range evs {
				w.Write(ev)
			}
			continue
		}
		rec = tr.New()
		qcap := 10000
		shape := rng.Intn(6)
		if shape >= 4 {
			qcap = 2 // the queue at its boundary: logging calls block until the flusher makes room
		}
		winK, winPre := 0, 0
		if windowOnly {
			// shape 6: the flush request meets a non-empty queue at the blocking select.  k entries are in the queue (1-5; with
			// the small queue exactly as many as it holds), pre entries went through the flusher before it was held
			shape = 6
			winK, winPre = 1+rng.Intn(5), rng.Intn(3)
			qcap = 10000
			if rng.Intn(4) == 0 {
				qcap, winK, winPre = 2, 2, 0 // held at the first poll, the two entries fill the queue exactly
			}
		}
		rogger.VerifSetQueueCap(qcap)
		api := rng.Intn(3) // 0: WriteLog (raw), 1: Infof (formatted text path through writeLine), 2: Trace
		text := api == 1
		rw.prefix = api != 0 && rng.Intn(2) == 0
		kind := fmt.Sprintf("shape%d api=%d prefix=%v", shape, api, rw.prefix)
		if windowOnly {
			kind = fmt.Sprintf("window k=%d pre=%d api=%d prefix=%v", winK, winPre, api, rw.prefix)
		}
		rec.Emit("Config", "k", qcap, "kind", kind)
		if windowOnly && winPre == 0 {
			// nothing is logged before the hold: the new flusher finds the queue empty at its first poll and is held at once
			g.mu.Lock()
			g.armed, g.waiting, g.release = true, make(chan struct{}), make(chan struct{})
			g.mu.Unlock()
		}
		rogger.VerifResetFlusher()
		ng := 1 + rng.Intn(3)
		logOne := func(gid, i int) {
			rec.Emit("LogCall", "g", gid, "i", i)
			switch {
			case text:
				lg.Infof("%d %d", gid, i)
			case api == 2:
				lg.Trace(fmt.Sprintf("%d %d", gid, i))
			default:
				lg.WriteLog([]byte(fmt.Sprintf("%d %d", gid, i)))
			}
			rec.Emit("LogRet", "g", gid, "i", i)
		}
		logN := func(gid, from, n int) {
			for i := from; i < from+n; i++ {
				logOne(gid, i)
			}
		}
		switch shape {
		case 6:
			// the window with a slow writer: hold the flusher between its selects (queue found empty), log k entries (one or two
			// goroutines), request the flush, release the flusher once the request has been made.  Both cases of the blocking
			// select are ready; whichever it takes, every one of the k entries must have been handed to the writer when
			// FlushLogger returns.  The writer stays inside Write after each hand-over (recWriter.slow), so a flusher that
			// signals completion while entries are still queued is seen at the return of FlushLogger.
			g.mu.Lock()
			if winPre > 0 {
				g.armed, g.waiting, g.release = true, make(chan struct{}), make(chan struct{})
			}
			wch, rch := g.waiting, g.release
			g.mu.Unlock()
			logN(1, 1, winPre)
			select {
			case <-wch:
			case <-time.After(2 * time.Second):
				return fmt.Errorf("flusher never reached the gate")
			}
			wbase := atomic.LoadInt64(&rw.writes)
			inq := rogger.VerifQueueLen() // entries logged before the hold that the flusher had not taken yet (it was held at its first arrival)
			flushRet := make(chan struct{})
			rw.slow, rw.flushRet = time.Duration(*slowUs)*time.Microsecond, flushRet
			k1 := winK
			if winK >= 2 && rng.Intn(2) == 0 {
				k1 = 1 + rng.Intn(winK-1)
			}
			// the k logging calls (never more than the queue has room for) run in goroutines of their own: should one of them
			// not return while the flusher is held, the flusher is released after a second and the run goes on as a plain
			// "log, then flush" scenario; the trace is judged all the same
			var wg sync.WaitGroup
			k2 := winK - k1
			if k2 > 0 && rng.Intn(2) == 0 {
				wg.Add(2)
				go func() { defer wg.Done(); logN(1, winPre+1, k1) }()
				go func() { defer wg.Done(); logN(2, 1, k2) }()
			} else {
				wg.Add(1)
				go func() { defer wg.Done(); logN(1, winPre+1, k1); logN(2, 1, k2) }()
			}
			loggedAll := make(chan struct{})
			go func() { wg.Wait(); close(loggedAll) }()
			released := false
			select {
			case <-loggedAll:
			case <-time.After(time.Second):
				released = true
				winStalled++
				close(rch)
				<-loggedAll
			}
			done := make(chan struct{})
			go func() {
				rec.Emit("FlushCall")
				rogger.FlushLogger()
				rec.Emit("FlushRet")
				close(flushRet)
				close(done)
			}()
			time.Sleep(time.Duration(300+rng.Intn(700)) * time.Microsecond) // let syncCancel happen first
			if !released {
				atomic.StoreInt32(&afterRelease, 0)
				close(rch)
			}
			<-done
			winRuns++
			if !released && atomic.LoadInt32(&afterRelease) == 0 {
				winDrained++ // no arrival at the gate between the release and the return: the select took the flush case
			}
			// a flusher that signalled too early gets the time to finish, so that the next scenario starts clean
			for dl := time.Now().Add(2 * time.Second); (atomic.LoadInt64(&rw.writes)-wbase < int64(inq+winK) || rogger.VerifQueueLen() > 0) && time.Now().Before(dl); {
				time.Sleep(100 * time.Microsecond)
			}
			rw.slow = 0
		case 4, 5:
			// backlog at the boundary: the flusher is held at the gate while 1-2 goroutines log more entries than the queue
			// holds (their calls block), then it is released; afterwards one flush
			g.mu.Lock()
			g.armed, g.waiting, g.release = true, make(chan struct{}), make(chan struct{})
			wch, rch := g.waiting, g.release
			g.mu.Unlock()
			logN(1, 1, 1)
			select {
			case <-wch:
			case <-time.After(2 * time.Second):
				return fmt.Errorf("flusher never reached the gate")
			}
			var wg sync.WaitGroup
			nl := 1 + rng.Intn(2)
			for gid := 1; gid <= nl; gid++ {
				wg.Add(1)
				go func(gid, from, n int) {
					defer wg.Done()
					logN(gid, from, n)
				}(gid, map[bool]int{true: 2, false: 1}[gid == 1], 3+rng.Intn(3))
			}
			time.Sleep(time.Duration(1+rng.Intn(3)) * time.Millisecond) // the queue fills up, the callers block
			close(rch)
			wg.Wait()
			rec.Emit("FlushCall")
			rogger.FlushLogger()
			rec.Emit("FlushRet")
		case 0, 1:
			// the window: hold the flusher between its selects (queue found empty), log, request the flush, release
			g.mu.Lock()
			g.armed, g.waiting, g.release = true, make(chan struct{}), make(chan struct{})
			wch, rch := g.waiting, g.release
			g.mu.Unlock()
			pre := rng.Intn(3)
			logN(1, 1, pre) // wakes the flusher if it is parked; it will come round to the gate
			if pre == 0 {
				// the flusher may be parked inside the inner select already (no hook there): poke it with one entry
				logN(1, 1, 1)
				pre = 1
			}
			select {
			case <-wch:
			case <-time.After(2 * time.Second):
				return fmt.Errorf("flusher never reached the gate")
			}
			logN(1, pre+1, 1+rng.Intn(2))
			done := make(chan struct{})
			go func() {
				rec.Emit("FlushCall")
				rogger.FlushLogger()
				rec.Emit("FlushRet")
				close(done)
			}()
			if shape == 0 {
				time.Sleep(time.Duration(200+rng.Intn(800)) * time.Microsecond) // let syncCancel happen first
			}
			close(rch)
			<-done
		default:
			// free running: several goroutines log concurrently, then one flush
			var wg sync.WaitGroup
			for gid := 1; gid <= ng; gid++ {
				wg.Add(1)
				go func(gid, n int, pause time.Duration) {
					defer wg.Done()
					for i := 1; i <= n; i++ {
						logOne(gid, i)
						if pause > 0 {
							time.Sleep(pause)
						}
					}
				}(gid, 1+rng.Intn(6), time.Duration(rng.Intn(3))*50*time.Microsecond)
			}
			if shape == 2 {
				wg.Wait()
			} else {
				time.Sleep(time.Duration(rng.Intn(300)) * time.Microsecond)
			}
			rec.Emit("FlushCall")
			rogger.FlushLogger()
			rec.Emit("FlushRet")
			wg.Wait()
		}
		if rogger.VerifQueueLen() > 0 {
			lost++
		}
		time.Sleep(200 * time.Microsecond)
		for _, ev := range rec.Close() {
			w.Write(ev)
		}
		w.Write(tr.Ev{"e": "Reset"})
	}
	if err := w.Close(); err != nil {
		return err
	}
	fmt.Println(*num+*nwin, hookCount, lost, winRuns, winDrained, winChild, winChildDrained, winStalled)
	return nil
}
