package main

import (
	"context"
	"encoding/binary"
	"flag"
	"fmt"
	"io"
	"math/rand"
	"net"
	"sync"
	"time"

	"github.com/TarsCloud/TarsGo/tars/protocol"
	"github.com/TarsCloud/TarsGo/tars/protocol/res/basef"
	"github.com/TarsCloud/TarsGo/tars/util/current"
	"github.com/TarsCloud/TarsGo/tars/transport"
	"github.com/TarsCloud/TarsGo/tars/util/vhook"
	"verifharness/internal/tr"
)

func init() { register("shutdown-trace", shutdownTrace) }

// request frame: [len=16][req id][conn id][handler duration ms]; response: [len=12][req id][conn id]; close message: [len=8][0xffffffff]
type sdProto struct{}

func (sdProto) Invoke(ctx context.Context, pkg []byte) []byte {
	if len(pkg) >= 16 {
		d := binary.BigEndian.Uint32(pkg[12:16])
		if d&sdOneWay != 0 { // a one-way request: the transport must not answer it
			current.SetPacketTypeFromContext(ctx, basef.TARSONEWAY)
			d &^= sdOneWay
		}
		if d > 0 {
			time.Sleep(time.Duration(d) * time.Millisecond)
		}
		rsp := make([]byte, 12)
		binary.BigEndian.PutUint32(rsp, 12)
		copy(rsp[4:], pkg[4:12])
		return rsp
	}
	return nil
}
func (sdProto) ParsePackage(b []byte) (int, int) { return protocol.TarsRequest(b) }
func (sdProto) InvokeTimeout(pkg []byte) []byte  { return nil }
func (sdProto) GetCloseMsg() []byte              { return []byte{0, 0, 0, 8, 0xff, 0xff, 0xff, 0xff} }
func (sdProto) DoClose(ctx context.Context)      {}

const sdOneWay = 1 << 31 // flag in the duration field of a request frame

type sdState struct {
	mu    sync.Mutex
	rec   *tr.Rec
	conns map[string]int // client local address -> connection id
	hits  map[string]int
	// connections whose recv goroutine reported its close (hook tcp.recv.closed) / whose client saw the end of the stream
	closed, eof map[int]bool
	aborted     map[int]bool // connections whose client vanished with a reset
}

var sd = &sdState{hits: map[string]int{}}

func sdHook(point string, a ...interface{}) {
	sd.mu.Lock()
	rec := sd.rec
	sd.hits[point]++
	var cid int
	if len(a) > 0 {
		if c, ok := a[0].(net.Conn); ok && c != nil {
			cid = sd.conns[c.RemoteAddr().String()]
		}
	}
	sd.mu.Unlock()
	if rec == nil {
		return
	}
	rid := func(i int) int {
		if len(a) > i {
			if p, ok := a[i].([]byte); ok && len(p) >= 8 {
				return int(binary.BigEndian.Uint32(p[4:8]))
			}
		}
		return 0
	}
	switch point {
	case "tcp.handleConn":
		if cid != 0 {
			rec.Emit("Read", "c", cid, "r", rid(1))
		}
	case "tcp.handler.invoked":
		if cid != 0 {
			rec.Emit("Invoked", "r", rid(1))
		}
	case "tcp.handler.written":
		if cid != 0 {
			rec.Emit("Written", "r", rid(1))
		}
	case "tcp.recv.closed":
		if cid != 0 {
			rec.Emit("ConnClosed", "c", cid)
			sd.mu.Lock()
			sd.closed[cid] = true
			sd.mu.Unlock()
		}
	case "tcp.accept.exit":
		rec.Emit("AcceptExit")
	case "tcp.accept.released":
		rec.Emit("Released")
	}
}

func sdScenario(rng *rand.Rand, n, q int, ctxTimeout time.Duration, abortAll bool) []tr.Ev {
	rec := tr.New()
	ln, _ := net.Listen("tcp", "127.0.0.1:0")
	addr := ln.Addr().String()
	ln.Close()
	srv := transport.NewTarsServer(sdProto{}, &transport.TarsServerConf{Proto: "tcp", Address: addr, MaxInvoke: int32(n), QueueCap: q,
		AcceptTimeout: 500 * time.Millisecond, IdleTimeout: 600 * time.Second, TCPReadBuffer: 1 << 16, TCPWriteBuffer: 1 << 16})
	if err := srv.Listen(); err != nil {
		panic(err)
	}
	nconn := 1 + rng.Intn(2)
	if abortAll {
		nconn = 2
	}
	sd.mu.Lock()
	sd.rec = rec
	sd.conns = map[string]int{}
	sd.closed, sd.eof, sd.aborted = map[int]bool{}, map[int]bool{}, map[int]bool{}
	sd.mu.Unlock()
	rec.Emit("Config", "n", n, "q", q, "conns", nconn)
	served := make(chan struct{})
	go func() { srv.Serve(); close(served) }()
	conns := make([]net.Conn, nconn+1)
	var readers sync.WaitGroup
	for c := 1; c <= nconn; c++ {
		k, err := net.Dial("tcp", addr)
		if err != nil {
			panic(err)
		}
		conns[c] = k
		sd.mu.Lock()
		sd.conns[k.LocalAddr().String()] = c
		sd.mu.Unlock()
		readers.Add(1)
		go func(c int, k net.Conn) { // client reader: responses, close message, EOF
			defer readers.Done()
			gone := func() bool { sd.mu.Lock(); defer sd.mu.Unlock(); return sd.aborted[c] }
			defer func() {
				sd.mu.Lock()
				if !sd.aborted[c] {
					sd.eof[c] = true
				}
				sd.mu.Unlock()
			}()
			hdr := make([]byte, 4)
			for {
				if _, err := io.ReadFull(k, hdr); err != nil {
					if !gone() {
						rec.Emit("PeerEOF", "c", c)
					}
					return
				}
				body := make([]byte, binary.BigEndian.Uint32(hdr)-4)
				if _, err := io.ReadFull(k, body); err != nil {
					if !gone() {
						rec.Emit("PeerEOF", "c", c)
					}
					return
				}
				if gone() {
					return
				}
				if len(body) == 4 && body[0] == 0xff {
					rec.Emit("CloseMsgRecv", "c", c)
				} else if len(body) >= 8 {
					rec.Emit("RespRecv", "c", c, "r", int(binary.BigEndian.Uint32(body[0:4])))
				}
			}
		}(c, k)
	}
	long := rng.Intn(4) == 0 // one handler that outlasts the poller's 2-second idle rule
	abort := !long && nconn == 2 && rng.Intn(4) == 0
	if abortAll {
		long, abort = false, true
	}
	time.Sleep(5 * time.Millisecond) // let the server register the connections
	durs := []uint32{0, 0, 30, 150, 400}
	nreq := rng.Intn(7)
	if abort && nreq < 2 {
		nreq = 2
	}
	if n > 0 && rng.Intn(2) == 0 { // load that keeps the pool's queue occupied when the shutdown begins
		durs = []uint32{30, 150, 400, 400}
		nreq = 3 + rng.Intn(4)
	}
	for r := 1; r <= 8 && nreq > 0; r++ {
		c := 2 - r%2 // odd -> 1, even -> 2
		if c > nconn {
			continue
		}
		nreq--
		p := make([]byte, 16)
		binary.BigEndian.PutUint32(p, 16)
		binary.BigEndian.PutUint32(p[4:], uint32(r))
		binary.BigEndian.PutUint32(p[8:], uint32(c))
		d := durs[rng.Intn(len(durs))]
		if long {
			d, long = 2700, false
		}
		if abort && c == 1 && r == 1 {
			d = 300 // the request that is still running when its client vanishes
		}
		if r == 3 || r == 6 { // one-way requests (OneWay in Trace_ServerShutdown)
			d |= sdOneWay
		}
		binary.BigEndian.PutUint32(p[12:], d)
		rec.Emit("ReqSent", "c", c, "r", r)
		conns[c].Write(p)
		if rng.Intn(3) == 0 {
			time.Sleep(time.Duration(rng.Intn(20)) * time.Millisecond)
		}
	}
	if abort && nconn == 2 {
		// the client of connection 1 vanishes with a reset while its request is still being handled: the connection stays
		// registered, writing to it fails; the client of connection 2 is healthy and must get its notification all the same
		time.Sleep(15 * time.Millisecond)
		sd.mu.Lock()
		sd.aborted[1] = true
		sd.mu.Unlock()
		rec.Emit("ClientAbort", "c", 1)
		if tc, ok := conns[1].(*net.TCPConn); ok {
			tc.SetLinger(0)
		}
		conns[1].Close()
		time.Sleep(time.Duration(10+rng.Intn(40)) * time.Millisecond)
	} else {
		time.Sleep(time.Duration([]int{0, 2, 20, 100, 300}[rng.Intn(5)]) * time.Millisecond)
	}
	ctx, cancel := context.WithTimeout(context.Background(), ctxTimeout)
	rec.Emit("ShutdownStart")
	t0 := time.Now()
	srv.Shutdown(ctx)
	expired := ctx.Err() != nil
	rec.Emit("ShutdownEnd", "expired", expired, "ms", int(time.Since(t0).Milliseconds()))
	cancel()
	// wait beyond every handler duration so that "never answered" is not "not yet answered"
	done := make(chan struct{})
	go func() { readers.Wait(); close(done) }()
	select {
	case <-done:
	case <-time.After(4500 * time.Millisecond):
	}
	select {
	case <-served:
	case <-time.After(1500 * time.Millisecond):
	}
	// the hook after conn.Close() runs after the client can see the end of the stream: wait for the report of every
	// connection the client saw closed (the recv goroutine's exit path ticks every 500 ms)
	for i := 0; i < 300; i++ {
		sd.mu.Lock()
		missing := 0
		for c := range sd.eof {
			if !sd.closed[c] {
				missing++
			}
		}
		for c := range sd.aborted {
			if !sd.closed[c] {
				missing++
			}
		}
		sd.mu.Unlock()
		if missing == 0 {
			break
		}
		time.Sleep(10 * time.Millisecond)
	}
	time.Sleep(20 * time.Millisecond)
	sd.mu.Lock()
	sd.rec = nil
	sd.mu.Unlock()
	for c := 1; c <= nconn; c++ {
		conns[c].Close()
	}
	return append(rec.Close(), tr.Ev{"e": "End"})
}

func shutdownTrace(args []string) error {
	fs := flag.NewFlagSet("shutdown-trace", flag.ExitOnError)
	seed := fs.Int64("seed", 1, "seed")
	num := fs.Int("n", 6, "scenarios")
	pool := fs.Int("pool", 0, "MaxInvoke (0 = no pool)")
	qcap := fs.Int("q", 3, "QueueCap")
	out := fs.String("out", "trace.ndjson", "output")
	ctxMs := fs.Int("ctx", 4000, "Shutdown context timeout in ms")
	abortAll := fs.Bool("abort", false, "every scenario: two clients, the first vanishes with a reset while its request is running")
	fs.Parse(args)
	rng := rand.New(rand.NewSource(*seed))
	vhook.Set(sdHook)
	w, err := tr.Create(*out)
	if err != nil {
		return err
	}
	for i := 0; i < *num; i++ {
		for _, ev := range sdScenario(rng, *pool, *qcap, time.Duration(*ctxMs)*time.Millisecond, *abortAll) {
			w.Write(ev)
		}
	}
	if err := w.Close(); err != nil {
		return err
	}
	sd.mu.Lock()
	fmt.Println(*num, sd.hits["tcp.handleConn"], sd.hits["tcp.handler.invoked"], sd.hits["tcp.handler.written"], sd.hits["tcp.recv.closed"],
		sd.hits["tcp.accept.exit"], sd.hits["tcp.accept.released"])
	sd.mu.Unlock()
	return nil
}
