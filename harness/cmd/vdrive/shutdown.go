package main

import (
	"context"
	"encoding/binary"
	"flag"
	"fmt"
	"io"
	"math/rand"
	"net"
	"sync"
	"time"

	"github.com/TarsCloud/TarsGo/tars/protocol"
	"github.com/TarsCloud/TarsGo/tars/protocol/res/basef"
	"github.com/TarsCloud/TarsGo/tars/transport"
	"github.com/TarsCloud/TarsGo/tars/util/current"
	"github.com/TarsCloud/TarsGo/tars/util/vhook"
	"verifharness/internal/tr"
)

func init() { register("shutdown-trace", shutdownTrace) }

// request frame: [len=16][req id][conn id][handler duration ms] or [len=20][req id][conn id][handler duration ms][response size];
// response: [len][req id][conn id][padding up to the response size, default 12]; close message: [len=8][0xffffffff]
type sdProto struct{}

func (sdProto) Invoke(ctx context.Context, pkg []byte) []byte {
	if len(pkg) >= 16 {
		d := binary.BigEndian.Uint32(pkg[12:16])
		if d&sdOneWay != 0 { // a one-way request: the transport must not answer it
			current.SetPacketTypeFromContext(ctx, basef.TARSONEWAY)
			d &^= sdOneWay
		}
		if d > 0 {
			time.Sleep(time.Duration(d) * time.Millisecond)
		}
		size := uint32(12)
		if len(pkg) >= 20 && binary.BigEndian.Uint32(pkg[16:20]) > size { // a response that does not fit into the socket buffers
			size = binary.BigEndian.Uint32(pkg[16:20])
		}
		rsp := make([]byte, size)
		binary.BigEndian.PutUint32(rsp, size)
		copy(rsp[4:], pkg[4:12])
		return rsp
	}
	return nil
}
func (sdProto) ParsePackage(b []byte) (int, int) { return protocol.TarsRequest(b) }
func (sdProto) InvokeTimeout(pkg []byte) []byte  { return nil }
func (sdProto) GetCloseMsg() []byte              { return []byte{0, 0, 0, 8, 0xff, 0xff, 0xff, 0xff} }
func (sdProto) DoClose(ctx context.Context)      {}

const sdOneWay = 1 << 31 // flag in the duration field of a request frame

type sdState struct {
	mu    sync.Mutex
	rec   *tr.Rec
	conns map[string]int // client local address -> connection id
	hits  map[string]int
	// connections whose recv goroutine reported its close (hook tcp.recv.closed) / whose client saw the end of the stream
	closed, eof map[int]bool
	noted       map[int]bool // connections whose client has received the close message
	aborted     map[int]bool // connections whose client vanished with a reset
	addr        string       // listen address of the current run's server (the accept loop of an earlier run may report late)
}

var sd = &sdState{hits: map[string]int{}}

func sdHook(point string, a ...interface{}) {
	sd.mu.Lock()
	rec := sd.rec
	sd.hits[point]++
	if len(a) > 0 {
		if s, ok := a[0].(string); ok && s != sd.addr { // accept-loop hooks carry the listen address
			rec = nil
		}
	}
	var cid int
	if len(a) > 0 {
		if c, ok := a[0].(net.Conn); ok && c != nil {
			cid = sd.conns[c.RemoteAddr().String()]
		}
	}
	sd.mu.Unlock()
	if rec == nil {
		return
	}
	rid := func(i int) int {
		if len(a) > i {
			if p, ok := a[i].([]byte); ok && len(p) >= 8 {
				return int(binary.BigEndian.Uint32(p[4:8]))
			}
		}
		return 0
	}
	switch point {
	case "tcp.handleConn":
		if cid != 0 {
			rec.Emit("Read", "c", cid, "r", rid(1))
		}
	case "tcp.handler.invoked":
		if cid != 0 {
			rec.Emit("Invoked", "r", rid(1))
		}
	case "tcp.handler.written":
		if cid != 0 {
			rec.Emit("Written", "r", rid(1))
		}
	case "tcp.recv.closed":
		if cid != 0 {
			rec.Emit("ConnClosed", "c", cid)
			sd.mu.Lock()
			sd.closed[cid] = true
			sd.mu.Unlock()
		}
	case "tcp.accept.exit":
		rec.Emit("AcceptExit")
	case "tcp.accept.released":
		rec.Emit("Released")
	}
}

// sdRun is one run: a real TarsServer, scripted clients (connections 1..nconn) and their readers.
// Request ids are 10*connection + ordinal on that connection (ConnOf in Trace_ServerShutdown).
type sdRun struct {
	rec     *tr.Rec
	srv     *transport.TarsServer
	conns   []net.Conn
	nconn   int
	ord     []int // requests sent so far per connection
	readers sync.WaitGroup
	served  chan struct{}
	calls   sync.WaitGroup  // calls of Shutdown in flight
	hold    []chan struct{} // per connection: non-nil = its client does not read before the channel is closed (a slow client)
	relOnce []sync.Once
}

// sdOpt: what a run of kind "slow" needs on top of the defaults
type sdOpt struct {
	slow map[int]bool // connections whose client is slow to read (small receive buffer, starts reading when released)
	idle bool         // the server has a read timeout (1 s) and an idle timeout (0 s): a connection with nothing outstanding is closed at the next read timeout
}

func sdOpen(n, q, nconn int) *sdRun { return sdOpenOpt(n, q, nconn, sdOpt{}) }

// release lets the slow client of connection c start reading
func (x *sdRun) release(c int) {
	if x.hold[c] != nil {
		x.relOnce[c].Do(func() { close(x.hold[c]) })
	}
}

func sdOpenOpt(n, q, nconn int, opt sdOpt) *sdRun {
	x := &sdRun{rec: tr.New(), nconn: nconn, ord: make([]int, nconn+1), served: make(chan struct{}),
		hold: make([]chan struct{}, nconn+1), relOnce: make([]sync.Once, nconn+1)}
	for c := range opt.slow {
		x.hold[c] = make(chan struct{})
	}
	rec := x.rec
	ln, _ := net.Listen("tcp", "127.0.0.1:0")
	addr := ln.Addr().String()
	ln.Close()
	conf := &transport.TarsServerConf{Proto: "tcp", Address: addr, MaxInvoke: int32(n), QueueCap: q,
		AcceptTimeout: 500 * time.Millisecond, IdleTimeout: 600 * time.Second, TCPReadBuffer: 1 << 16, TCPWriteBuffer: 1 << 16}
	if opt.idle {
		conf.ReadTimeout, conf.IdleTimeout = time.Second, 0
	}
	x.srv = transport.NewTarsServer(sdProto{}, conf)
	if err := x.srv.Listen(); err != nil {
		panic(err)
	}
	sd.mu.Lock()
	sd.rec = rec
	sd.addr = addr
	sd.conns = map[string]int{}
	sd.closed, sd.eof, sd.aborted, sd.noted = map[int]bool{}, map[int]bool{}, map[int]bool{}, map[int]bool{}
	sd.mu.Unlock()
	rec.Emit("Config", "n", n, "q", q, "conns", nconn, "idle", opt.idle)
	go func() { x.srv.Serve(); close(x.served) }()
	x.conns = make([]net.Conn, nconn+1)
	for c := 1; c <= nconn; c++ {
		k, err := net.Dial("tcp", addr)
		if err != nil {
			panic(err)
		}
		x.conns[c] = k
		if tc, ok := k.(*net.TCPConn); ok && x.hold[c] != nil {
			tc.SetReadBuffer(1 << 16) // no autotuning: what the server writes beyond the socket buffers waits for the client
		}
		sd.mu.Lock()
		sd.conns[k.LocalAddr().String()] = c
		sd.mu.Unlock()
		x.readers.Add(1)
		go func(c int, k net.Conn) { // client reader: responses, close message, EOF
			defer x.readers.Done()
			gone := func() bool { sd.mu.Lock(); defer sd.mu.Unlock(); return sd.aborted[c] }
			defer func() {
				sd.mu.Lock()
				if !sd.aborted[c] {
					sd.eof[c] = true
				}
				sd.mu.Unlock()
			}()
			if x.hold[c] != nil {
				<-x.hold[c]
				if !gone() {
					rec.Emit("ClientReads", "c", c)
				}
			}
			hdr := make([]byte, 4)
			buf := make([]byte, 1<<16)
			for {
				if n, err := io.ReadFull(k, hdr); err != nil {
					if !gone() {
						if n > 0 { // the stream ended inside a frame header
							rec.Emit("RespCut", "c", c, "r", 0, "got", n, "want", 0)
						}
						rec.Emit("PeerEOF", "c", c)
					}
					return
				}
				want := int(binary.BigEndian.Uint32(hdr))
				blen := want - 4
				head := blen
				if head > 8 {
					head = 8
				}
				body := make([]byte, head)
				n, err := io.ReadFull(k, body)
				got := 4 + n
				r := 0
				if n >= 4 && blen >= 8 {
					r = int(binary.BigEndian.Uint32(body[0:4]))
				}
				for err == nil && got < want { // the padding of a large response
					m := want - got
					if m > len(buf) {
						m = len(buf)
					}
					m, err = io.ReadFull(k, buf[:m])
					got += m
				}
				if err != nil {
					if !gone() {
						// the stream ended inside a response: the connection was closed before the response had been written
						rec.Emit("RespCut", "c", c, "r", r, "got", got, "want", want)
						rec.Emit("PeerEOF", "c", c)
					}
					return
				}
				if gone() {
					return
				}
				if blen == 4 && body[0] == 0xff {
					sd.mu.Lock()
					sd.noted[c] = true
					sd.mu.Unlock()
					rec.Emit("CloseMsgRecv", "c", c)
				} else if blen >= 8 {
					rec.Emit("RespRecv", "c", c, "r", r)
				}
			}
		}(c, k)
	}
	time.Sleep(5 * time.Millisecond) // let the server register the connections
	return x
}

// send writes the next request of connection c: handler duration d ms, one-way or not
func (x *sdRun) send(c int, d uint32, oneway bool) int { return x.sendSized(c, d, oneway, 0) }

// sendSized: the response is to have size bytes (0: the default 12)
func (x *sdRun) sendSized(c int, d uint32, oneway bool, size uint32) int {
	x.ord[c]++
	r := 10*c + x.ord[c]
	p := make([]byte, 16, 20)
	if size > 0 {
		p = p[:20]
		binary.BigEndian.PutUint32(p[16:], size)
	}
	binary.BigEndian.PutUint32(p, uint32(len(p)))
	binary.BigEndian.PutUint32(p[4:], uint32(r))
	binary.BigEndian.PutUint32(p[8:], uint32(c))
	if oneway {
		d |= sdOneWay
	}
	binary.BigEndian.PutUint32(p[12:], d)
	if size > 0 {
		x.rec.Emit("ReqSent", "c", c, "r", r, "ow", oneway, "size", int(size))
	} else {
		x.rec.Emit("ReqSent", "c", c, "r", r, "ow", oneway)
	}
	x.conns[c].Write(p)
	return r
}

// sendLate: a request sent while Shutdown is running, after ms milliseconds (before the poller's first round at 500 ms sends the
// close message); a client that has been told to reconnect, or has seen the end of the stream, sends nothing more
func (x *sdRun) sendLate(c int, ms int, d uint32) {
	x.calls.Add(1)
	go func() {
		defer x.calls.Done()
		time.Sleep(time.Duration(ms) * time.Millisecond)
		sd.mu.Lock()
		stop := sd.noted[c] || sd.eof[c] || sd.aborted[c]
		sd.mu.Unlock()
		if !stop {
			x.send(c, d, false)
		}
	}()
}

// abort: the client of connection c vanishes with a reset; the connection stays registered at the server, writing to it fails
func (x *sdRun) abort(c int) {
	sd.mu.Lock()
	sd.aborted[c] = true
	sd.mu.Unlock()
	x.rec.Emit("ClientAbort", "c", c)
	if tc, ok := x.conns[c].(*net.TCPConn); ok {
		tc.SetLinger(0)
	}
	x.conns[c].Close()
}

// shutdown is call k of Shutdown on the server, with its own context
func (x *sdRun) shutdown(k int, timeout time.Duration) {
	ctx, cancel := context.WithTimeout(context.Background(), timeout)
	x.rec.Emit("ShutdownStart", "k", k, "ctx", int(timeout.Milliseconds()))
	t0 := time.Now()
	x.srv.Shutdown(ctx)
	ms := int(time.Since(t0).Milliseconds())
	expired := ctx.Err() != nil
	x.rec.Emit("ShutdownEnd", "k", k, "expired", expired, "ms", ms, "ctx", int(timeout.Milliseconds()))
	cancel()
}

func (x *sdRun) shutdownAsync(k int, timeout time.Duration) {
	x.calls.Add(1)
	go func() { defer x.calls.Done(); x.shutdown(k, timeout) }()
}

func (x *sdRun) finish() []tr.Ev {
	x.calls.Wait()
	for c := 1; c <= x.nconn; c++ {
		x.release(c)
	}
	// wait beyond every handler duration so that "never answered" is not "not yet answered"
	done := make(chan struct{})
	go func() { x.readers.Wait(); close(done) }()
	select {
	case <-done:
	case <-time.After(4500 * time.Millisecond):
	}
	select {
	case <-x.served:
	case <-time.After(1500 * time.Millisecond):
	}
	// the hook after conn.Close() runs after the client can see the end of the stream: wait for the report of every
	// connection the client saw closed (the recv goroutine's exit path ticks every 500 ms)
	for i := 0; i < 300; i++ {
		sd.mu.Lock()
		missing := 0
		for c := range sd.eof {
			if !sd.closed[c] {
				missing++
			}
		}
		for c := range sd.aborted {
			if !sd.closed[c] {
				missing++
			}
		}
		sd.mu.Unlock()
		if missing == 0 {
			break
		}
		time.Sleep(10 * time.Millisecond)
	}
	time.Sleep(20 * time.Millisecond)
	sd.mu.Lock()
	sd.rec = nil
	sd.mu.Unlock()
	evs := x.rec.Close() // before the harness closes the clients' sockets: a reader's error from now on is the harness's doing
	for c := 1; c <= x.nconn; c++ {
		x.conns[c].Close()
	}
	return append(evs, tr.Ev{"e": "End"})
}

// sdScenario: 1-2 connections, 0-6 requests, one call of Shutdown 0-300 ms after the last request
func sdScenario(rng *rand.Rand, n, q int, ctxTimeout time.Duration, abortAll bool) []tr.Ev {
	nconn := 1 + rng.Intn(2)
	if abortAll {
		nconn = 2
	}
	x := sdOpen(n, q, nconn)
	long := rng.Intn(4) == 0 // one handler that outlasts the poller's 2-second idle rule
	abort := !long && nconn == 2 && rng.Intn(4) == 0
	if abortAll {
		long, abort = false, true
	}
	durs := []uint32{0, 0, 30, 150, 400}
	nreq := rng.Intn(7)
	if abort && nreq < 2 {
		nreq = 2
	}
	if n > 0 && rng.Intn(2) == 0 { // load that keeps the pool's queue occupied when the shutdown begins
		durs = []uint32{30, 150, 400, 400}
		nreq = 3 + rng.Intn(4)
	}
	for r := 1; r <= 8 && nreq > 0; r++ {
		c := 2 - r%2 // odd -> 1, even -> 2
		if c > nconn {
			continue
		}
		nreq--
		d := durs[rng.Intn(len(durs))]
		if long {
			d, long = 2700, false
		}
		if abort && c == 1 && r == 1 {
			d = 300 // the request that is still running when its client vanishes
		}
		x.send(c, d, r == 3 || r == 6) // the second request of connection 1 and the third of connection 2 are one-way
		if rng.Intn(3) == 0 {
			time.Sleep(time.Duration(rng.Intn(20)) * time.Millisecond)
		}
	}
	if abort && nconn == 2 {
		// the client of connection 1 vanishes with a reset while its request is still being handled;
		// the client of connection 2 is healthy and must get its notification all the same
		time.Sleep(15 * time.Millisecond)
		x.abort(1)
		time.Sleep(time.Duration(10+rng.Intn(40)) * time.Millisecond)
	} else {
		time.Sleep(time.Duration([]int{0, 2, 20, 100, 300}[rng.Intn(5)]) * time.Millisecond)
	}
	if !abort && rng.Intn(3) == 0 {
		// a request that arrives while Shutdown is running (often on a server that was idle when the accept loop left)
		x.sendLate(1+rng.Intn(nconn), 200+rng.Intn(100), []uint32{0, 30, 150}[rng.Intn(3)])
	}
	x.shutdown(1, ctxTimeout)
	return x.finish()
}

// sdCalls makes the calls of Shutdown of a run: one call, or several, overlapping or one after the other, each with
// its own context (the long one, or a short one that expires while handlers are still running).
//
//	plan 0: one call
//	plan 1: a second call 100-900 ms after the first was started (both running), possibly a third
//	plan 2: the first call has a short context; when it has returned a second call follows at once
//	plan 3: the first call runs until everything has drained; a second call follows at once
func sdCalls(x *sdRun, rng *rand.Rand, plan int, ctxTimeout time.Duration) {
	short := func() time.Duration { return time.Duration(300+rng.Intn(600)) * time.Millisecond }
	if rng.Intn(3) == 0 { // a request that arrives while Shutdown is running, on a connection in whatever state
		x.sendLate(1+rng.Intn(x.nconn), 200+rng.Intn(100), []uint32{0, 30, 150}[rng.Intn(3)])
	}
	switch plan {
	case 0:
		x.shutdown(1, ctxTimeout)
	case 1:
		first, second := ctxTimeout, ctxTimeout
		switch rng.Intn(4) {
		case 0:
			first = short()
		case 1:
			second = short()
		}
		x.shutdownAsync(1, first)
		time.Sleep(time.Duration(100+rng.Intn(800)) * time.Millisecond)
		x.shutdownAsync(2, second)
		if rng.Intn(3) == 0 {
			time.Sleep(time.Duration(50+rng.Intn(600)) * time.Millisecond)
			x.shutdownAsync(3, ctxTimeout)
		}
	case 2:
		x.shutdown(1, short())
		x.shutdown(2, ctxTimeout)
	case 3:
		x.shutdown(1, ctxTimeout)
		x.shutdown(2, ctxTimeout)
		if rng.Intn(2) == 0 {
			x.shutdown(3, short())
		}
	}
}

// sdTwice: 1-3 connections, at least one request whose handler runs 1.2-2.7 s when Shutdown is called, several calls of Shutdown
func sdTwice(rng *rand.Rand, n, q int, ctxTimeout time.Duration) []tr.Ev {
	nconn := 1 + rng.Intn(3)
	x := sdOpen(n, q, nconn)
	busy := 1 + rng.Intn(nconn)
	durs := []uint32{0, 30, 150, 400}
	for c := 1; c <= nconn; c++ {
		for i := rng.Intn(3); i > 0; i-- {
			x.send(c, durs[rng.Intn(len(durs))], rng.Intn(6) == 0)
		}
		if c == busy {
			x.send(c, uint32(1200+500*rng.Intn(4)), false)
		}
		if rng.Intn(3) == 0 {
			time.Sleep(time.Duration(rng.Intn(20)) * time.Millisecond)
		}
	}
	time.Sleep(time.Duration([]int{2, 20, 100, 300}[rng.Intn(4)]) * time.Millisecond)
	sdCalls(x, rng, 1+rng.Intn(3), ctxTimeout)
	return x.finish()
}

// sdMix: 3-6 connections in different states when Shutdown is called: silent from the start, silent for more than two
// seconds after some early traffic (both idle by the poller's rule), a request in flight whose handler runs 0.7-2.7 s
// (longer than one or several rounds of the poller), recent short requests (in flight, queued or just answered).
func sdMix(rng *rand.Rand, n, q int, ctxTimeout time.Duration) []tr.Ev {
	nconn := 3 + rng.Intn(4)
	x := sdOpen(n, q, nconn)
	const (
		silent = iota
		early
		busy
		recent
	)
	roles := make([]int, nconn+1)
	for c := 1; c <= nconn; c++ {
		roles[c] = rng.Intn(4)
	}
	perm := rng.Perm(nconn)
	roles[perm[0]+1] = busy
	roles[perm[1]+1] = []int{silent, early}[rng.Intn(2)]
	for c := 1; c <= nconn; c++ {
		if roles[c] == early || (roles[c] != silent && rng.Intn(3) == 0) {
			for i := 1 + rng.Intn(2); i > 0; i-- {
				x.send(c, []uint32{0, 0, 30}[rng.Intn(3)], rng.Intn(6) == 0)
			}
		}
	}
	time.Sleep(time.Duration(2150+rng.Intn(300)) * time.Millisecond)
	for _, i := range rng.Perm(nconn) {
		c := i + 1
		switch roles[c] {
		case busy:
			x.send(c, uint32(700+500*rng.Intn(5)), false)
		case recent:
			for i := 1 + rng.Intn(2); i > 0; i-- {
				x.send(c, []uint32{0, 30, 150, 400}[rng.Intn(4)], rng.Intn(6) == 0)
			}
		}
	}
	time.Sleep(time.Duration([]int{2, 20, 100, 300}[rng.Intn(4)]) * time.Millisecond)
	plan := 0
	if rng.Intn(3) == 0 {
		plan = 1 + rng.Intn(3)
	}
	sdCalls(x, rng, plan, ctxTimeout)
	return x.finish()
}

// sdSlow: responses that do not fit into the socket buffers, to clients that are slow to read them.  Connection 1 (and, in
// some runs, connection 2) has a client with a 64 KiB receive buffer that starts reading only 1.2-3.2 s after Shutdown was
// called; its 1-3 requests ask for responses of 1-16 MiB: when Shutdown is called their handlers have returned from invoke
// and are blocked in (or, behind the first one / in the pool's queue, waiting to enter) conn.Write, while the shutdown
// poller and the recv loop's deferred close look at the connection's in-flight counter every 500 ms.  Every request read
// must reach its client complete before the connection is closed.  A fast second connection carries ordinary requests.
//
// idle runs (the server has a read timeout of 1 s and no idle allowance: a connection with nothing buffered and nothing
// outstanding is closed at its next read timeout, the "idle close"):
//
//	plan A: the slow client starts reading 1.3-2.6 s after its requests were sent (one or two read timeouts of the recv
//	        loop pass while the handler is blocked in conn.Write); Shutdown is called after the connection has drained;
//	plan B: as in the ordinary runs, Shutdown is called while the handlers are blocked in conn.Write.
//
// Every third run (sc % 3 == 1; not plan A) is a "short" run: the first call of Shutdown has a context of 500 ms and the
// slow clients start reading 3.6 s after it began ("... or when its context expires, whichever is first"); a second call
// with the long context follows when the first has returned.
func sdSlow(rng *rand.Rand, sc, n, q int, ctxTimeout time.Duration, idle bool) []tr.Ev {
	nconn := 1 + rng.Intn(2)
	slow := map[int]bool{1: true}
	if nconn == 2 && rng.Intn(3) == 0 {
		slow[2] = true
	}
	x := sdOpenOpt(n, q, nconn, sdOpt{slow: slow, idle: idle})
	sizes := []uint32{1 << 20, 2 << 20, 4 << 20, 8 << 20, 16 << 20}
	durs := []uint32{0, 0, 30, 150}
	for c := 1; c <= nconn; c++ {
		if slow[c] {
			for i := 1 + rng.Intn(3); i > 0; i-- {
				x.sendSized(c, durs[rng.Intn(len(durs))], false, sizes[rng.Intn(len(sizes))])
			}
		} else {
			for i := rng.Intn(3); i > 0; i-- {
				x.send(c, durs[rng.Intn(len(durs))], rng.Intn(6) == 0)
			}
		}
		if rng.Intn(3) == 0 {
			time.Sleep(time.Duration(rng.Intn(20)) * time.Millisecond)
		}
	}
	short := sc%3 == 1
	if idle && sc%3 == 2 { // plan A (every third run of an idle server)
		time.Sleep(time.Duration([]int{1300, 1800, 2600}[rng.Intn(3)]) * time.Millisecond)
		for c := range slow {
			x.release(c)
		}
		time.Sleep(2300 * time.Millisecond) // the connections have drained and have been closed as idle
		x.shutdown(1, ctxTimeout)
		return x.finish()
	}
	// the handlers are through invoke and blocked in conn.Write (or queued behind those that are)
	time.Sleep(time.Duration([]int{200, 250, 400}[rng.Intn(3)]) * time.Millisecond)
	late := time.Duration([]int{1200, 1800, 2500, 3200}[rng.Intn(4)]) * time.Millisecond
	if short {
		late = 3600 * time.Millisecond
	}
	x.calls.Add(1)
	go func() {
		defer x.calls.Done()
		time.Sleep(late)
		for c := range slow {
			x.release(c)
			time.Sleep(time.Duration(rng.Intn(2)*300) * time.Millisecond)
		}
	}()
	if short {
		x.shutdown(1, 500*time.Millisecond)
		x.shutdown(2, ctxTimeout)
		return x.finish()
	}
	plan := 0
	if rng.Intn(4) == 0 {
		plan = 1 + rng.Intn(3)
	}
	sdCalls(x, rng, plan, ctxTimeout)
	return x.finish()
}

func shutdownTrace(args []string) error {
	fs := flag.NewFlagSet("shutdown-trace", flag.ExitOnError)
	seed := fs.Int64("seed", 1, "seed")
	num := fs.Int("n", 6, "scenarios")
	pool := fs.Int("pool", 0, "MaxInvoke (0 = no pool)")
	qcap := fs.Int("q", 3, "QueueCap")
	out := fs.String("out", "trace.ndjson", "output")
	ctxMs := fs.Int("ctx", 4000, "Shutdown context timeout in ms")
	abortAll := fs.Bool("abort", false, "every scenario: two clients, the first vanishes with a reset while its request is running")
	kind := fs.String("kind", "base", "base: 1-2 connections, one call of Shutdown; twice: several calls of Shutdown; mix: 3-6 connections in different states; "+
		"slow: responses of 1-16 MiB to clients that start reading seconds after Shutdown began; slowidle: the same on a server with read and idle timeouts")
	only := fs.Int("only", -1, "run only this scenario (each scenario has its own random stream: the same script as in the full run)")
	fs.Parse(args)
	vhook.Set(sdHook)
	w, err := tr.Create(*out)
	if err != nil {
		return err
	}
	for i := 0; i < *num; i++ {
		if *only >= 0 && i != *only {
			continue
		}
		rng := rand.New(rand.NewSource(*seed*7919 + int64(i)))
		var evs []tr.Ev
		switch *kind {
		case "twice":
			evs = sdTwice(rng, *pool, *qcap, time.Duration(*ctxMs)*time.Millisecond)
		case "mix":
			evs = sdMix(rng, *pool, *qcap, time.Duration(*ctxMs)*time.Millisecond)
		case "slow", "slowidle":
			evs = sdSlow(rng, i, *pool, *qcap, time.Duration(*ctxMs)*time.Millisecond, *kind == "slowidle")
		default:
			evs = sdScenario(rng, *pool, *qcap, time.Duration(*ctxMs)*time.Millisecond, *abortAll)
		}
		evs[0]["sc"], evs[0]["kind"], evs[0]["dseed"], evs[0]["abort"] = i, *kind, *seed, *abortAll // what a re-run of this scenario needs
		for _, ev := range evs {
			w.Write(ev)
		}
	}
	if err := w.Close(); err != nil {
		return err
	}
	sd.mu.Lock()
	fmt.Println(*num, sd.hits["tcp.handleConn"], sd.hits["tcp.handler.invoked"], sd.hits["tcp.handler.written"], sd.hits["tcp.recv.closed"],
		sd.hits["tcp.accept.exit"], sd.hits["tcp.accept.released"])
	sd.mu.Unlock()
	return nil
}
