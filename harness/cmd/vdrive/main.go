// vdrive drives the real TarsGo code for the conformance checks.
//   vdrive <subcommand> [flags]
package main

import (
	"fmt"
	"os"
	"sort"

	"github.com/TarsCloud/TarsGo/tars/util/rogger"
)

var cmds = map[string]func(args []string) error{}

func register(name string, f func(args []string) error) { cmds[name] = f }

func main() {
	if len(os.Args) < 2 {
		var names []string
		for k := range cmds {
			names = append(names, k)
		}
		sort.Strings(names)
		fmt.Fprintln(os.Stderr, "usage: vdrive <subcommand> [flags]; subcommands:", names)
		os.Exit(2)
	}
	if os.Getenv("VERIF_LOG") == "" {
		rogger.SetLevel(rogger.OFF) // the framework logs to the console by default
	}
	f, ok := cmds[os.Args[1]]
	if !ok {
		fmt.Fprintln(os.Stderr, "unknown subcommand", os.Args[1])
		os.Exit(2)
	}
	if err := f(os.Args[2:]); err != nil {
		fmt.Fprintln(os.Stderr, "vdrive:", err)
		os.Exit(3)
	}
}
