package main

import (
	"bufio"
	"encoding/json"
	"flag"
	"fmt"
	"math/rand"
	"os"
	"path/filepath"
	"reflect"
	"sort"
	"sync"
	"time"

	"github.com/TarsCloud/TarsGo/tars/util/gpool"
	"verifharness/internal/tr"
)

func init() {
	register("gpool-trace", gpoolTrace)
	register("gpool-replay", gpoolReplay)
}

// ---------------------------------------------------------------- random runs -> traces (B1)

func gpoolOneTrace(rng *rand.Rand, n, q, jobs int, release bool) []tr.Ev {
	rec := tr.New()
	pool := gpool.NewPool(n, q)
	nsub := 1 + rng.Intn(4)
	durs := make([]time.Duration, jobs+1)
	for j := 1; j <= jobs; j++ {
		durs[j] = time.Duration(rng.Intn(1500)) * time.Microsecond
	}
	var jobsDone, subsDone sync.WaitGroup
	jobsDone.Add(jobs)
	subsDone.Add(nsub)
	for s := 0; s < nsub; s++ {
		go func(s int, pause time.Duration) {
			defer subsDone.Done()
			for j := 1 + s; j <= jobs; j += nsub {
				j := j
				job := func() {
					rec.Emit("JobStart", "j", j)
					if durs[j] > 0 {
						time.Sleep(durs[j])
					}
					rec.Emit("JobEnd", "j", j)
					jobsDone.Done()
				}
				rec.Emit("SubmitCall", "j", j)
				pool.JobQueue <- job
				rec.Emit("SubmitRet", "j", j)
				if pause > 0 {
					time.Sleep(pause)
				}
			}
		}(s, time.Duration(rng.Intn(300))*time.Microsecond)
	}
	subsDone.Wait()
	if release {
		// Release after every submit returned; jobs may still be queued or running.
		if rng.Intn(2) == 0 {
			time.Sleep(time.Duration(rng.Intn(2000)) * time.Microsecond)
		}
		rec.Emit("ReleaseCall")
		pool.Release()
		rec.Emit("ReleaseRet")
		time.Sleep(3 * time.Millisecond) // a job starting after Release would show up here
	} else {
		ch := make(chan struct{})
		go func() { jobsDone.Wait(); close(ch) }()
		select {
		case <-ch:
		case <-time.After(5 * time.Second): // a lost job: the trace ends without its JobStart and is rejected at Reset
		}
		go pool.Release()
	}
	evs := rec.Close()
	return append(evs, tr.Ev{"e": "Reset"})
}

func gpoolTrace(args []string) error {
	fs := flag.NewFlagSet("gpool-trace", flag.ExitOnError)
	seed := fs.Int64("seed", 1, "seed")
	num := fs.Int("n", 100, "traces per (N,Q) group")
	out := fs.String("out", ".", "output directory")
	maxJobs := fs.Int("jobs", 8, "max jobs per trace")
	fs.Parse(args)
	rng := rand.New(rand.NewSource(*seed))
	for n := 1; n <= 3; n++ {
		for q := 0; q <= 2; q++ {
			w, err := tr.Create(filepath.Join(*out, fmt.Sprintf("trace_n%d_q%d.ndjson", n, q)))
			if err != nil {
				return err
			}
			for i := 0; i < *num; i++ {
				jobs := 1 + rng.Intn(*maxJobs)
				for _, ev := range gpoolOneTrace(rng, n, q, jobs, rng.Intn(3) == 0) {
					w.Write(ev)
				}
			}
			if err := w.Close(); err != nil {
				return err
			}
		}
	}
	return nil
}

// ---------------------------------------------------------------- directed replay of model behaviours (B2)

type gpObs struct {
	Started  []int `json:"started"`
	Returned []int `json:"returned"`
	Blocked  []int `json:"blocked"`
	Rel      bool  `json:"rel"`
}
type gpStep struct {
	A   string `json:"a"`
	J   int    `json:"j"`
	Obs gpObs  `json:"obs"`
}
type gpScript struct {
	N     int      `json:"n"`
	Q     int      `json:"q"`
	Steps []gpStep `json:"steps"`
}
type gpResult struct {
	Idx      int    `json:"idx"`
	Ok       bool   `json:"ok"`
	Step     int    `json:"step"`
	Why      string `json:"why,omitempty"`
	Expected *gpObs `json:"expected,omitempty"`
	Got      *gpObs `json:"got,omitempty"`
	Actions  int    `json:"actions"`
	MaxPar   int    `json:"maxpar"`
}

type gpRun struct {
	mu       sync.Mutex
	started  map[int]int
	running  int
	maxPar   int
	returned map[int]bool
	called   map[int]bool
	rel      bool
	gates    map[int]chan struct{}
}

func (r *gpRun) obs() gpObs {
	r.mu.Lock()
	defer r.mu.Unlock()
	o := gpObs{Started: []int{}, Returned: []int{}, Blocked: []int{}, Rel: r.rel}
	for j, c := range r.started {
		for i := 0; i < c; i++ { // a job started twice shows up twice
			o.Started = append(o.Started, j)
		}
	}
	for j := range r.returned {
		o.Returned = append(o.Returned, j)
	}
	for j := range r.called {
		if !r.returned[j] {
			o.Blocked = append(o.Blocked, j)
		}
	}
	sort.Ints(o.Started)
	sort.Ints(o.Returned)
	sort.Ints(o.Blocked)
	return o
}

func gpoolReplayOne(idx int, sc gpScript, grace time.Duration) gpResult {
	r := &gpRun{started: map[int]int{}, returned: map[int]bool{}, called: map[int]bool{}, gates: map[int]chan struct{}{}}
	pool := gpool.NewPool(sc.N, sc.Q)
	res := gpResult{Idx: idx, Ok: true}
	defer func() {
		// let everything drain so goroutines do not pile up
		r.mu.Lock()
		for _, g := range r.gates {
			select {
			case <-g:
			default:
				close(g)
			}
		}
		res.MaxPar = r.maxPar
		r.mu.Unlock()
	}()
	waitObs := func(exp gpObs) (gpObs, bool) {
		deadline := time.Now().Add(3 * time.Second)
		for {
			o := r.obs()
			if reflect.DeepEqual(o, exp) {
				// stability: the observation must not move on without a harness action
				time.Sleep(grace)
				o2 := r.obs()
				return o2, reflect.DeepEqual(o2, exp)
			}
			if time.Now().After(deadline) {
				return o, false
			}
			time.Sleep(200 * time.Microsecond)
		}
	}
	for i, st := range sc.Steps {
		got, ok := waitObs(st.Obs)
		if !ok {
			e := st.Obs
			res.Ok, res.Step, res.Expected, res.Got = false, i, &e, &got
			res.Why = "observation differs from the model's prediction before action " + st.A
			return res
		}
		switch st.A {
		case "Submit":
			j := st.J
			g := make(chan struct{})
			r.mu.Lock()
			r.gates[j] = g
			r.called[j] = true
			r.mu.Unlock()
			job := func() {
				r.mu.Lock()
				r.started[j]++
				r.running++
				if r.running > r.maxPar {
					r.maxPar = r.running
				}
				r.mu.Unlock()
				<-g
				r.mu.Lock()
				r.running--
				r.mu.Unlock()
			}
			go func() {
				pool.JobQueue <- job
				r.mu.Lock()
				r.returned[j] = true
				r.mu.Unlock()
			}()
		case "Finish":
			r.mu.Lock()
			g := r.gates[st.J]
			r.mu.Unlock()
			if g == nil {
				res.Ok, res.Step, res.Why = false, i, "script finishes a job that was never submitted"
				return res
			}
			close(g)
		case "Release":
			go func() {
				pool.Release()
				r.mu.Lock()
				r.rel = true
				r.mu.Unlock()
			}()
		case "End":
		}
		res.Actions++
	}
	if res.MaxPar > sc.N {
		res.Ok, res.Why = false, "more jobs ran in parallel than workers"
	}
	return res
}

func gpoolReplay(args []string) error {
	fs := flag.NewFlagSet("gpool-replay", flag.ExitOnError)
	in := fs.String("in", "", "scripts (ndjson)")
	out := fs.String("out", "", "results (ndjson)")
	par := fs.Int("par", 8, "scripts replayed concurrently")
	graceMs := fs.Int("grace", 15, "stability window in ms")
	fs.Parse(args)
	f, err := os.Open(*in)
	if err != nil {
		return err
	}
	defer f.Close()
	var scripts []gpScript
	sc := bufio.NewScanner(f)
	sc.Buffer(make([]byte, 1<<20), 1<<26)
	for sc.Scan() {
		var s gpScript
		if err := json.Unmarshal(sc.Bytes(), &s); err != nil {
			return err
		}
		scripts = append(scripts, s)
	}
	results := make([]gpResult, len(scripts))
	sem := make(chan struct{}, *par)
	var wg sync.WaitGroup
	for i := range scripts {
		wg.Add(1)
		sem <- struct{}{}
		go func(i int) {
			defer wg.Done()
			defer func() { <-sem }()
			r := gpoolReplayOne(i, scripts[i], time.Duration(*graceMs)*time.Millisecond)
			if !r.Ok { // a divergence must reproduce (three attempts in total) before it is reported
				for k := 0; k < 2 && !r.Ok; k++ {
					r = gpoolReplayOne(i, scripts[i], time.Duration(*graceMs)*4*time.Millisecond)
				}
			}
			results[i] = r
		}(i)
	}
	wg.Wait()
	w, err := tr.Create(*out)
	if err != nil {
		return err
	}
	for _, r := range results {
		w.Write(r)
	}
	return w.Close()
}
