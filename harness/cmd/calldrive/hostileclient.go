package main

// Hostile packets against the real CLIENT receive path (C05): a child process makes genuine calls through the real
// generated proxy of idl/Call.tars; the parent sits between that child and a real server child, forwards every
// request, and answers with what the current corpus item makes of the genuine response (hostile return values inside
// a well-formed response packet, a mutated packet, random bodies, illegal length prefixes, pushes ...).  A corpus
// item that ends the client process is named by running it alone on a fresh client.

import (
	"bufio"
	"encoding/binary"
	"errors"
	"fmt"
	"io"
	"math/rand"
	"net"
	"os"
	"os/exec"
	"strings"
	"sync"
	"time"

	"github.com/TarsCloud/TarsGo/tars"
	"github.com/TarsCloud/TarsGo/tars/protocol/codec"
	"github.com/TarsCloud/TarsGo/tars/protocol/res/requestf"
	"github.com/TarsCloud/TarsGo/tars/util/rogger"
	"verifharness/gen/Vc"
	"verifharness/internal/tr"
)

var clientFns = []string{"EchoScalars", "EchoStr", "EchoBytes", "EchoC", "EchoEnum", "Noret", "Prims", "Fail", "Nested", "Deep"}

// ---- the victim: a real client process, one call per line read from stdin
func clientVictimMain(port int, seed int64) {
	if os.Getenv("VERIF_LOG") == "" {
		rogger.SetLevel(rogger.OFF)
	}
	comm := tars.NewCommunicator()
	proxy := new(Vc.Call)
	comm.StringToProxy(fmt.Sprintf("Verif.CallSrv.CallObj@tcp -h 127.0.0.1 -p %d -t 60000", port), proxy)
	proxy.TarsSetTimeout(150)
	rng := rand.New(rand.NewSource(seed))
	fmt.Println("ready")
	sc := bufio.NewScanner(os.Stdin)
	n := 0
	for sc.Scan() {
		// "<function> <seed of the arguments>": the same line makes the same call in any client process
		var fn string
		var sd int64
		fmt.Sscanf(sc.Text(), "%s %d", &fn, &sd)
		rng = rand.New(rand.NewSource(sd))
		rec = tr.New()
		n++
		doCall(proxy, rng, int(sd%1000000), fn, false)
		res := "err"
		for _, e := range rec.Close() {
			if e["e"] == "CallEnd" && e["ok"] == true {
				res = "ok"
			}
		}
		fmt.Println("done", res)
	}
}

type victim struct {
	cmd  *exec.Cmd
	in   io.WriteCloser
	out  *bufio.Reader
	errb *strings.Builder
}

func startVictim(port int, seed int64) (*victim, error) {
	v := &victim{errb: &strings.Builder{}}
	v.cmd = exec.Command(os.Args[0], "-mode", "clientvictim", "-port", fmt.Sprint(port), "-seed", fmt.Sprint(seed))
	v.cmd.Env = append(os.Environ(), "GOTRACEBACK=single")
	v.cmd.Stderr = v.errb
	in, _ := v.cmd.StdinPipe()
	so, _ := v.cmd.StdoutPipe()
	v.in, v.out = in, bufio.NewReader(so)
	if err := v.cmd.Start(); err != nil {
		return nil, err
	}
	if l, err := v.line(10 * time.Second); err != nil || !strings.HasPrefix(l, "ready") {
		v.stop()
		return nil, fmt.Errorf("client child did not start: %v %q %s", err, l, v.errb.String())
	}
	return v, nil
}

var errSilent = errors.New("no answer in time")

func (v *victim) line(d time.Duration) (string, error) {
	type res struct {
		s string
		e error
	}
	ch := make(chan res, 1)
	go func() { s, e := v.out.ReadString('\n'); ch <- res{s, e} }()
	select {
	case r := <-ch:
		return r.s, r.e
	case <-time.After(d):
		return "", errSilent
	}
}

// call: "ok" / "err" (the call returned), "died" (process gone), "silent" (no answer for 8 s: far beyond every timeout)
func (v *victim) call(fn string, sd int64) string {
	if _, err := io.WriteString(v.in, fmt.Sprintf("%s %d\n", fn, sd)); err != nil {
		return "died"
	}
	l, err := v.line(8 * time.Second)
	switch {
	case err == errSilent:
		return "silent"
	case err != nil:
		return "died"
	case strings.Contains(l, "ok"):
		return "ok"
	}
	return "err"
}

func (v *victim) stop() {
	if v.cmd != nil && v.cmd.Process != nil {
		v.in.Close()
		v.cmd.Process.Kill()
		v.cmd.Wait()
	}
}

// ---- the man in the middle
type citem struct {
	desc string
	fn   string
	seed int64 // of the call's arguments
	// make turns the genuine response (decoded, and its body bytes) into the raw bytes written to the client
	make func(g *requestf.ResponsePacket, body []byte) [][]byte
}

type mitm struct {
	ln    net.Listener
	port  int
	up    net.Conn // connection to the real server child
	upAdr string
	mu    sync.Mutex
	cur   *citem
	sent  [][]byte // what the current item wrote (for the record)
	last  map[string]*requestf.ResponsePacket
}

func newMitm(serverPort int) (*mitm, error) {
	ln, err := net.Listen("tcp", "127.0.0.1:0")
	if err != nil {
		return nil, err
	}
	m := &mitm{ln: ln, port: ln.Addr().(*net.TCPAddr).Port, upAdr: fmt.Sprintf("127.0.0.1:%d", serverPort), last: map[string]*requestf.ResponsePacket{}}
	go func() {
		for {
			c, err := ln.Accept()
			if err != nil {
				return
			}
			go m.serve(c)
		}
	}()
	return m, nil
}

func readFrame(r io.Reader) ([]byte, error) {
	h := make([]byte, 4)
	if _, err := io.ReadFull(r, h); err != nil {
		return nil, err
	}
	n := binary.BigEndian.Uint32(h)
	if n < 4 || n > 20<<20 {
		return nil, fmt.Errorf("bad frame length %d", n)
	}
	b := make([]byte, n-4)
	_, err := io.ReadFull(r, b)
	return b, err
}

// forward sends the request to the real server and returns the body of its response
func (m *mitm) forward(body []byte) ([]byte, error) {
	for try := 0; try < 2; try++ {
		if m.up == nil {
			c, err := net.DialTimeout("tcp", m.upAdr, time.Second)
			if err != nil {
				return nil, err
			}
			m.up = c
		}
		m.up.SetDeadline(time.Now().Add(3 * time.Second))
		if _, err := m.up.Write(frame(body)); err == nil {
			if rb, err := readFrame(m.up); err == nil {
				return rb, nil
			}
		}
		m.up.Close()
		m.up = nil
	}
	return nil, errors.New("the real server did not answer")
}

func (m *mitm) serve(c net.Conn) {
	defer c.Close()
	rd := bufio.NewReader(c)
	for {
		body, err := readFrame(rd)
		if err != nil {
			return
		}
		var rq requestf.RequestPacket
		if rq.ReadFrom(codec.NewReader(body)) != nil || rq.SFuncName == "tars_ping" {
			continue
		}
		m.mu.Lock()
		rb, err := m.forward(body)
		var out [][]byte
		if err == nil {
			g := new(requestf.ResponsePacket)
			if g.ReadFrom(codec.NewReader(rb)) == nil {
				m.last[rq.SFuncName] = g
				if m.cur != nil {
					out = m.cur.make(g, rb)
				} else {
					out = [][]byte{frame(rb)}
				}
			}
		}
		m.sent = out
		m.mu.Unlock()
		for _, f := range out {
			c.SetWriteDeadline(time.Now().Add(time.Second))
			if _, err := c.Write(f); err != nil {
				return
			}
		}
	}
}

func (m *mitm) set(it *citem) {
	m.mu.Lock()
	m.cur, m.sent = it, nil
	m.mu.Unlock()
}

func encodeRsp(p *requestf.ResponsePacket) []byte {
	b := codec.NewBuffer()
	p.WriteTo(b)
	return append([]byte(nil), b.ToBytes()...)
}

func i8(b []byte) []int8 {
	r := make([]int8, len(b))
	for i, x := range b {
		r[i] = int8(x)
	}
	return r
}

func u8(b []int8) []byte {
	r := make([]byte, len(b))
	for i, x := range b {
		r[i] = byte(x)
	}
	return r
}

// clientCorpus: the items are closures over a variant index, so that a re-run on a fresh client (other random
// arguments, another genuine response) applies the same kind of damage
func clientCorpus(rng *rand.Rand, n int) []*citem {
	var items []*citem
	pick := func(vs [][]byte, k int) []byte {
		if len(vs) == 0 {
			return nil
		}
		return vs[k%len(vs)]
	}
	for _, fn := range clientFns {
		fn := fn
		for k := 0; k < 40; k++ {
			k, sd := k, rng.Int63()
			items = append(items, &citem{desc: "hostile return values for " + fn, fn: fn, make: func(g *requestf.ResponsePacket, body []byte) [][]byte {
				p := *g
				p.SBuffer = i8(pick(mutateArgs(rand.New(rand.NewSource(sd)), u8(g.SBuffer)), k*7+3))
				return [][]byte{frame(encodeRsp(&p))}
			}})
		}
		for k := 0; k < 12; k++ {
			k, sd := k, rng.Int63()
			items = append(items, &citem{desc: "mutated response packet (" + fn + ")", fn: fn, make: func(g *requestf.ResponsePacket, body []byte) [][]byte {
				return [][]byte{frame(pick(mutateArgs(rand.New(rand.NewSource(sd)), body), k*5+1)), frame(body)}
			}})
		}
		for k, f := range []func(p *requestf.ResponsePacket, r *rand.Rand){
			func(p *requestf.ResponsePacket, r *rand.Rand) { p.IVersion = int16(r.Intn(1 << 16)) },
			func(p *requestf.ResponsePacket, r *rand.Rand) { p.IVersion = 2 },
			func(p *requestf.ResponsePacket, r *rand.Rand) { p.IVersion = 3 },
			func(p *requestf.ResponsePacket, r *rand.Rand) { p.CPacketType = int8(r.Intn(256)) },
			func(p *requestf.ResponsePacket, r *rand.Rand) { p.IMessageType = int32(r.Uint32()) },
			func(p *requestf.ResponsePacket, r *rand.Rand) { p.IRet = int32(r.Uint32()) },
			func(p *requestf.ResponsePacket, r *rand.Rand) { p.IRet = -1 - int32(r.Intn(12)) },
			func(p *requestf.ResponsePacket, r *rand.Rand) { p.SBuffer = nil },
			func(p *requestf.ResponsePacket, r *rand.Rand) { p.SResultDesc = strings.Repeat("x", 1<<16) },
			func(p *requestf.ResponsePacket, r *rand.Rand) { p.Status = map[string]string{"": "", "STATUS_RESULT_CODE": "x", "STATUS_RESULT_DESC": ""} },
			func(p *requestf.ResponsePacket, r *rand.Rand) { p.Context = map[string]string{"": strings.Repeat("y", 70000)} },
		} {
			f, sd := f, rng.Int63()
			items = append(items, &citem{desc: fmt.Sprintf("response packet with hostile header field %d", k), fn: fn, make: func(g *requestf.ResponsePacket, body []byte) [][]byte {
				p := *g
				f(&p, rand.New(rand.NewSource(sd)))
				return [][]byte{frame(encodeRsp(&p))}
			}})
		}
	}
	anyFn := func() string { return clientFns[rng.Intn(len(clientFns))] }
	for i := 0; i < 200; i++ {
		g := make([]byte, rng.Intn(48))
		rng.Read(g)
		items = append(items, &citem{desc: "random body", fn: anyFn(), make: func(_ *requestf.ResponsePacket, body []byte) [][]byte {
			return [][]byte{frame(g), frame(body)}
		}})
	}
	for _, hv := range []uint32{0, 1, 2, 3, 5, 0x7fffffff, 0xffffffff, 10485761} {
		for _, tail := range [][]byte{nil, {1, 2, 3}} {
			h := make([]byte, 4)
			binary.BigEndian.PutUint32(h, hv)
			raw := append(h, tail...)
			items = append(items, &citem{desc: fmt.Sprintf("raw length prefix %d", hv), fn: anyFn(), make: func(_ *requestf.ResponsePacket, body []byte) [][]byte {
				return [][]byte{raw}
			}})
		}
	}
	for l := 4; l <= 12; l++ {
		g := make([]byte, l-4)
		rng.Read(g)
		items = append(items, &citem{desc: fmt.Sprintf("frame of %d bytes", l), fn: anyFn(), make: func(_ *requestf.ResponsePacket, body []byte) [][]byte {
			return [][]byte{frame(g), frame(body)}
		}})
	}
	for k := 0; k < 30; k++ { // pushes (request id 0), with and without the reconnect message
		k, sd := k, rng.Int63()
		items = append(items, &citem{desc: "server push", fn: anyFn(), make: func(g *requestf.ResponsePacket, body []byte) [][]byte {
			r := rand.New(rand.NewSource(sd))
			p := *g
			p.IRequestId = 0
			switch k % 3 {
			case 0:
				p.SResultDesc = "reconnect"
			case 1:
				b := make([]byte, r.Intn(40))
				r.Read(b)
				p.SBuffer = i8(b)
			}
			return [][]byte{frame(encodeRsp(&p)), frame(body)}
		}})
	}
	for _, it := range items {
		it.seed = rng.Int63()
	}
	rng.Shuffle(len(items), func(i, j int) { items[i], items[j] = items[j], items[i] })
	if len(items) > n {
		items = items[:n]
	}
	return items
}

func flat(fs [][]byte) []byte {
	var b []byte
	for _, f := range fs {
		b = append(b, f...)
	}
	return b
}

// hostileClientPhase returns (inputs delivered, client processes ended)
func hostileClientPhase(seed int64, rng *rand.Rand, n int, w *tr.Writer) (int, int, error) {
	srv, err := startChild("tcp")
	if err != nil {
		return 0, 0, err
	}
	defer srv.stop()
	m, err := newMitm(srv.port)
	if err != nil {
		return 0, 0, err
	}
	defer m.ln.Close()
	fresh := func() (*victim, error) {
		v, err := startVictim(m.port, seed)
		if err != nil {
			return nil, err
		}
		m.set(nil)
		for try := 0; try < 3; try++ {
			if v.call("EchoStr", 1) == "ok" {
				return v, nil
			}
		}
		v.stop()
		return nil, fmt.Errorf("client child cannot make a genuine call: %s", firstLine(v.errb.String()))
	}
	v, err := fresh()
	if err != nil {
		return 0, 0, err
	}
	items := clientCorpus(rng, n)
	total, deaths, wedged := 0, 0, 0
	alone := func(it *citem) (string, string, []byte) { // the item on a fresh client: outcome, first line of stderr, bytes written
		v2, err := fresh()
		if err != nil {
			return "harness", err.Error(), nil
		}
		defer v2.stop()
		m.set(it)
		r := v2.call(it.fn, it.seed)
		m.mu.Lock()
		sent := flat(m.sent)
		m.mu.Unlock()
		m.set(nil)
		if r == "ok" || r == "err" { // a panic in a receiver goroutine may come a moment later
			time.Sleep(30 * time.Millisecond)
			if r2 := v2.call("EchoStr", 1); r2 == "died" || r2 == "silent" {
				r = r2
			}
		}
		if r == "died" {
			v2.cmd.Wait()
		}
		return r, firstLine(v2.errb.String()), sent
	}
	for i, it := range items {
		m.set(it)
		r := v.call(it.fn, it.seed)
		total++
		probe := i%25 == 24 || i == len(items)-1
		if r == "ok" || r == "err" {
			if !probe {
				continue
			}
			m.set(nil)
			ok := false
			for try := 0; try < 3 && !ok; try++ {
				pr := v.call("EchoStr", 1)
				ok = pr == "ok"
				if pr == "died" || pr == "silent" {
					r = pr
					break
				}
			}
			if ok {
				continue
			}
			if r == "ok" || r == "err" { // alive but no genuine call succeeds any more: not a process exit; start afresh
				wedged++
				w.Write(hostileRec{K: "net", Entry: "client", Desc: "client no longer completes genuine calls after the batch ending with: " + it.desc, Died: false, Why: "wedged"})
				v.stop()
				if v, err = fresh(); err != nil {
					return total, deaths, err
				}
				continue
			}
		}
		// the client process is gone (or silent): which of the recent items does that on its own?
		v.stop()
		lo := i - 25
		if lo < 0 {
			lo = 0
		}
		found := false
		for j := i; j >= lo && !found; j-- {
			r2, why, sent := alone(items[j])
			if r2 == "harness" {
				return total, deaths, errors.New(why)
			}
			if r2 == "died" || r2 == "silent" {
				r3, why3, _ := alone(items[j]) // twice in a row on fresh clients
				if r3 == r2 {
					found = true
					deaths++
					if r2 == "silent" {
						why = "hang: the call did not return within 8 s"
					} else if why3 != "" {
						why = why3
					}
					w.Write(hostileRec{K: "net", Entry: "client", Desc: items[j].desc, BLen: len(sent), Bytes: intsOf(sent), Died: true, Why: why})
				}
			}
		}
		if !found {
			w.Write(hostileRec{K: "net", Entry: "client", Desc: "client process ended during the batch ending with: " + it.desc + " (not reproduced by any single item)", Died: false, Why: "unreproduced"})
		}
		if v, err = fresh(); err != nil {
			return total, deaths, err
		}
	}
	v.stop()
	w.Write(hostileRec{K: "net-summary", Entry: "client", Desc: fmt.Sprintf("%d inputs, %d wedged", len(items), wedged), BLen: len(items)})
	return total, deaths, nil
}
