// calldrive: call-transparency runs for C01.  One process = one filter configuration (filters are
// process-global and cannot be unregistered): a real server started through the public API with the
// generated dispatcher of idl/Call.tars and a recording implementation, a real generated proxy, recording
// pass-through filters, concurrent callers sharing the proxy.
package main

import (
	"context"
	"encoding/json"
	"flag"
	"fmt"
	"math/rand"
	"net"
	"os"
	"path/filepath"
	"reflect"
	"sort"
	"strconv"
	"sync"
	"sync/atomic"
	"time"

	"github.com/TarsCloud/TarsGo/tars"
	"github.com/TarsCloud/TarsGo/tars/protocol/codec"
	"github.com/TarsCloud/TarsGo/tars/protocol/res/requestf"
	"github.com/TarsCloud/TarsGo/tars/util/current"
	"github.com/TarsCloud/TarsGo/tars/util/rogger"
	"github.com/TarsCloud/TarsGo/tars/util/vhook"
	"verifharness/gen/Vb"
	"verifharness/gen/Vc"
	"verifharness/gen/Vt"
	"verifharness/internal/tr"
	"verifharness/internal/val"
)

var rec = tr.New()
// one-way calls issued and not yet seen by the implementation (a plain counter: an implementation that is shown another
// call's status must not crash the harness -- the trace says what happened)
var oneWayPending int64
var writtenRound, twoWayRound int64 // replies seen by the server hook / two-way calls issued in this round

func cstr(v interface{}) string {
	b, _ := json.Marshal(v)
	return string(b)
}

func cmap(m map[string]string) [][2]string {
	out := make([][2]string, 0, len(m))
	for k, v := range m {
		out = append(out, [2]string{k, v})
	}
	sort.Slice(out, func(i, j int) bool { return out[i][0] < out[j][0] })
	return out
}

func canonList(vals []reflect.Value) []interface{} {
	out := make([]interface{}, len(vals))
	for i, v := range vals {
		for v.Kind() == reflect.Ptr {
			v = v.Elem()
		}
		out[i] = val.Canon(v)
	}
	return out
}

// what crosses the wire towards the implementation
func sentString(fn string, ins []reflect.Value, ctx, status map[string]string) string {
	return cstr(map[string]interface{}{"fn": fn, "args": canonList(ins), "ctx": cmap(ctx), "status": cmap(status)})
}

// what comes back
func producedString(ret reflect.Value, outs []reflect.Value, rctx, rstatus map[string]string) string {
	var r interface{} = []int{}
	if ret.IsValid() {
		r = val.Canon(ret)
	}
	return cstr(map[string]interface{}{"ret": r, "outs": canonList(outs), "rctx": cmap(rctx), "rstatus": cmap(rstatus)})
}

func errString(err error) string {
	code, msg := int32(1), err.Error()
	if te, ok := err.(*tars.Error); ok {
		code, msg = te.Code, te.Message
	}
	return cstr(map[string]interface{}{"code": code, "msg": msg})
}

// ---------------------------------------------------------------- recording implementation
type impl struct{ seed int64 }

func callID(m map[string]string) int {
	n, _ := strconv.Atoi(m["vcall"])
	return n
}

// do records what the implementation received, produces the results (deterministic in the call id) and records them.
func (h *impl) do(ctx context.Context, fn string, ins []interface{}, ret interface{}, outs []interface{}) error {
	rctx, _ := current.GetRequestContext(ctx)
	rstatus, _ := current.GetRequestStatus(ctx)
	c := callID(rctx)
	inv := make([]reflect.Value, len(ins))
	for i, x := range ins {
		inv[i] = reflect.ValueOf(x)
	}
	rec.Emit("Impl", "c", c, "got", sentString(fn, inv, rctx, rstatus))
	if rstatus["vkind"] == "oneway" {
		defer atomic.AddInt64(&oneWayPending, -1)
	}
	rng := rand.New(rand.NewSource(h.seed*7919 + int64(c)))
	if fn == "fail" || rng.Intn(12) == 0 {
		var err error
		switch rng.Intn(3) {
		case 0:
			err = fmt.Errorf("plain failure %d of call %d", rng.Intn(1000), c)
		default:
			err = &tars.Error{Code: []int32{-5, 2, 100, 1234, -2147483648, 2147483647}[rng.Intn(6)], Message: fmt.Sprintf("failure \"%d\" of call %d\n2nd line", rng.Intn(1000), c)}
		}
		rec.Emit("ImplRet", "c", c, "ok", false, "v", errString(err))
		return err
	}
	var rv reflect.Value
	if ret != nil {
		rv = reflect.ValueOf(ret).Elem()
		val.Fill(rng, rv, 1)
	}
	ov := make([]reflect.Value, len(outs))
	for i, o := range outs {
		ov[i] = reflect.ValueOf(o).Elem()
		val.Fill(rng, ov[i], 1)
	}
	var octx, ostatus map[string]string
	if rng.Intn(3) != 0 {
		octx = map[string]string{"rk": fmt.Sprint(rng.Intn(100)), string(randASCII(rng)): string(randASCII(rng))}
		current.SetResponseContext(ctx, octx)
	}
	if rng.Intn(3) != 0 {
		ostatus = map[string]string{"rs": fmt.Sprint(c), string(randASCII(rng)): ""}
		current.SetResponseStatus(ctx, ostatus)
	}
	rec.Emit("ImplRet", "c", c, "ok", true, "v", producedString(rv, ov, octx, ostatus))
	return nil
}

func randASCII(rng *rand.Rand) []byte {
	b := make([]byte, 1+rng.Intn(6))
	for i := range b {
		b[i] = byte(33 + rng.Intn(90))
	}
	return b
}

func (h *impl) EchoScalars(ctx context.Context, a *Vt.Scalars, b *Vt.Scalars) (ret int32, err error) {
	err = h.do(ctx, "echoScalars", []interface{}{a}, &ret, []interface{}{b})
	return
}
func (h *impl) EchoStr(ctx context.Context, s string, t *string) (ret string, err error) {
	err = h.do(ctx, "echoStr", []interface{}{s}, &ret, []interface{}{t})
	return
}
func (h *impl) EchoBytes(ctx context.Context, a []int8, ub []uint8, b *[]uint8) (ret []int8, err error) {
	err = h.do(ctx, "echoBytes", []interface{}{a, ub}, &ret, []interface{}{b})
	return
}
func (h *impl) EchoC(ctx context.Context, c *Vt.Containers, d *Vt.Containers, m *map[string][]int64) (ret Vt.Containers, err error) {
	err = h.do(ctx, "echoC", []interface{}{c}, &ret, []interface{}{d, m})
	return
}
func (h *impl) EchoEnum(ctx context.Context, c Vt.Color, s *Vb.Shade) (ret Vt.Color, err error) {
	err = h.do(ctx, "echoEnum", []interface{}{c}, &ret, []interface{}{s})
	return
}
func (h *impl) Noret(ctx context.Context, a int32, why string) (err error) {
	return h.do(ctx, "noret", []interface{}{a, why}, nil, nil)
}
func (h *impl) Prims(ctx context.Context, b bool, i8 int8, u8 uint8, i16 int16, u16 uint16, i32 int32, u32 uint32, i64 int64, f float32, d float64, o *int64, od *float64, ou *uint32) (ret bool, err error) {
	err = h.do(ctx, "prims", []interface{}{b, i8, u8, i16, u16, i32, u32, i64, f, d}, &ret, []interface{}{o, od, ou})
	return
}
func (h *impl) Fail(ctx context.Context, code int32, msg string, never *string) (ret int32, err error) {
	err = h.do(ctx, "fail", []interface{}{code, msg}, &ret, []interface{}{never})
	return
}
func (h *impl) Nested(ctx context.Context, v [][]int16, mo map[string]Vt.Opts, m *map[int32]Vt.Inner) (ret [][]int16, err error) {
	err = h.do(ctx, "nested", []interface{}{v, mo}, &ret, []interface{}{m})
	return
}
func (h *impl) Deep(ctx context.Context, x *Vt.Deep, y *Vt.Deep) (ret Vt.Deep, err error) {
	err = h.do(ctx, "deep", []interface{}{x}, &ret, []interface{}{y})
	return
}

// ---------------------------------------------------------------- pass-through filters
func regFilters(cmode, smode string, nc, ns int) {
	cev := func(msg *tars.Message, ph string, i int) { rec.Emit("CF", "c", callID(msg.Req.Context), "ph", ph, "i", i) }
	sev := func(req *requestf.RequestPacket, ph string, i int) {
		rec.Emit("SF", "c", callID(req.Context), "ph", ph, "i", i)
	}
	switch cmode {
	case "legacy":
		tars.RegisterClientFilter(func(ctx context.Context, msg *tars.Message, invoke tars.Invoke, timeout time.Duration) error {
			cev(msg, "enter", 1)
			err := invoke(ctx, msg, timeout)
			cev(msg, "exit", 1)
			return err
		})
	case "mw":
		var ms []tars.ClientFilterMiddleware
		for i := 1; i <= nc; i++ {
			i := i
			ms = append(ms, func(next tars.ClientFilter) tars.ClientFilter {
				return func(ctx context.Context, msg *tars.Message, invoke tars.Invoke, timeout time.Duration) error {
					cev(msg, "enter", i)
					err := next(ctx, msg, invoke, timeout)
					cev(msg, "exit", i)
					return err
				}
			})
		}
		tars.UseClientFilterMiddleware(ms...)
	case "prepost":
		for i := 1; i <= nc; i++ {
			i := i
			tars.RegisterPreClientFilter(func(ctx context.Context, msg *tars.Message, invoke tars.Invoke, timeout time.Duration) error {
				cev(msg, "pre", i)
				return nil
			})
			tars.RegisterPostClientFilter(func(ctx context.Context, msg *tars.Message, invoke tars.Invoke, timeout time.Duration) error {
				cev(msg, "post", i)
				return nil
			})
		}
	}
	switch smode {
	case "legacy":
		tars.RegisterServerFilter(func(ctx context.Context, d tars.Dispatch, f interface{}, req *requestf.RequestPacket, resp *requestf.ResponsePacket, withContext bool) error {
			sev(req, "enter", 1)
			err := d(ctx, f, req, resp, withContext)
			sev(req, "exit", 1)
			return err
		})
	case "mw":
		var ms []tars.ServerFilterMiddleware
		for i := 1; i <= ns; i++ {
			i := i
			ms = append(ms, func(next tars.ServerFilter) tars.ServerFilter {
				return func(ctx context.Context, d tars.Dispatch, f interface{}, req *requestf.RequestPacket, resp *requestf.ResponsePacket, withContext bool) error {
					sev(req, "enter", i)
					err := next(ctx, d, f, req, resp, withContext)
					sev(req, "exit", i)
					return err
				}
			})
		}
		tars.UseServerFilterMiddleware(ms...)
	case "prepost":
		for i := 1; i <= ns; i++ {
			i := i
			tars.RegisterPreServerFilter(func(ctx context.Context, d tars.Dispatch, f interface{}, req *requestf.RequestPacket, resp *requestf.ResponsePacket, withContext bool) error {
				sev(req, "pre", i)
				return nil
			})
			tars.RegisterPostServerFilter(func(ctx context.Context, d tars.Dispatch, f interface{}, req *requestf.RequestPacket, resp *requestf.ResponsePacket, withContext bool) error {
				sev(req, "post", i)
				return nil
			})
		}
	}
}

// number of in-parameters per function (the rest are out-parameters)
var nIn = map[string]int{"EchoScalars": 1, "EchoStr": 1, "EchoBytes": 2, "EchoC": 1, "EchoEnum": 1, "Noret": 2, "Prims": 10, "Fail": 2, "Nested": 2, "Deep": 1}
var idlName = map[string]string{"EchoScalars": "echoScalars", "EchoStr": "echoStr", "EchoBytes": "echoBytes", "EchoC": "echoC", "EchoEnum": "echoEnum",
	"Noret": "noret", "Prims": "prims", "Fail": "fail", "Nested": "nested", "Deep": "deep"}

// one call through the real generated proxy, by reflection on its method
func doCall(proxy *Vc.Call, rng *rand.Rand, c int, fn string, oneway bool) {
	name := fn + "WithContext"
	if oneway {
		name = fn + "OneWayWithContext"
	}
	m := reflect.ValueOf(proxy).MethodByName(name)
	mt := m.Type()
	np := mt.NumIn() - 2 // without ctx and the variadic opts
	args := []reflect.Value{reflect.ValueOf(context.Background())}
	var ins, outs []reflect.Value
	for i := 0; i < np; i++ {
		pt := mt.In(i + 1)
		var v reflect.Value
		if pt.Kind() == reflect.Ptr {
			v = reflect.New(pt.Elem())
			if i < nIn[fn] {
				val.Fill(rng, v.Elem(), 1)
			} // out parameters are fresh variables (decoding into reused variables is C04's subject)
		} else {
			v = reflect.New(pt).Elem()
			val.Fill(rng, v, 1)
		}
		args = append(args, v)
		if i < nIn[fn] {
			ins = append(ins, v)
		} else {
			outs = append(outs, v)
		}
	}
	ctxMap := map[string]string{"vcall": strconv.Itoa(c)}
	for k := rng.Intn(3); k > 0; k-- {
		ctxMap[string(randASCII(rng))] = string(randASCII(rng))
	}
	status := map[string]string{}
	if oneway {
		status["vkind"] = "oneway"
	}
	for k := rng.Intn(3); k > 0; k-- {
		status[string(randASCII(rng))] = string(randASCII(rng))
	}
	args = append(args, reflect.ValueOf(ctxMap), reflect.ValueOf(status))
	if oneway {
		atomic.AddInt64(&oneWayPending, 1)
	} else {
		atomic.AddInt64(&twoWayRound, 1)
	}
	rec.Emit("CallStart", "c", c, "fn", idlName[fn], "oneway", oneway, "sent", sentString(idlName[fn], ins, ctxMap, status))
	res := m.Call(args)
	var err error
	if e := res[len(res)-1]; !e.IsNil() {
		err = e.Interface().(error)
	}
	switch {
	case oneway && err == nil:
		rec.Emit("CallEnd", "c", c, "ok", true, "v", "oneway")
	case err != nil:
		rec.Emit("CallEnd", "c", c, "ok", false, "v", errString(err))
		if oneway {
			atomic.AddInt64(&oneWayPending, -1)
		}
	default:
		var ret reflect.Value
		if len(res) == 2 {
			ret = res[0]
		}
		rec.Emit("CallEnd", "c", c, "ok", true, "v", producedString(ret, outs, ctxMap, status))
	}
}

func main() {
	cmode := flag.String("cmode", "none", "client filters: none|legacy|mw|prepost")
	smode := flag.String("smode", "none", "server filters")
	nc := flag.Int("nc", 2, "client filter count")
	ns := flag.Int("ns", 2, "server filter count")
	seed := flag.Int64("seed", 1, "seed")
	rounds := flag.Int("rounds", 3, "rounds of calls (one Reset each)")
	per := flag.Int("per", 40, "calls per round (<= 48)")
	conc := flag.Int("conc", 8, "concurrent callers sharing the proxy")
	pool := flag.Int("pool", 0, "server maxroutine")
	out := flag.String("out", "trace.ndjson", "output")
	mode := flag.String("mode", "calls", "calls | serve (child: run a server until killed) | hostile (parent: hostile packets against children)")
	proto := flag.String("proto", "tcp", "serve mode: tcp|udp")
	portFlag := flag.Int("port", 0, "serve mode: port")
	nHostile := flag.Int("hostile", 600, "hostile mode: inputs per entry point")
	flag.Parse()
	if *mode == "clientvictim" {
		clientVictimMain(*portFlag, *seed)
		os.Exit(0)
	}
	if *mode == "hostile" {
		if err := hostileMain(*seed, *nHostile, *out); err != nil {
			fmt.Fprintln(os.Stderr, "calldrive hostile:", err)
			os.Exit(3)
		}
		os.Exit(0)
	}
	if os.Getenv("VERIF_LOG") == "" {
		rogger.SetLevel(rogger.OFF)
	}
	ln, _ := net.Listen("tcp", "127.0.0.1:0")
	port := ln.Addr().(*net.TCPAddr).Port
	ln.Close()
	if *portFlag != 0 {
		port = *portFlag
	}
	dir, _ := os.MkdirTemp("", "calldrive")
	defer os.RemoveAll(dir)
	obj := "Verif.CallSrv.CallObj"
	cfg := fmt.Sprintf(`<tars>
  <application>
    <server>
      app=Verif
      server=CallSrv
      localip=127.0.0.1
      logLevel=ERROR
      maxroutine=%d
      <Verif.CallSrv.CallObjAdapter>
        endpoint=%s -h 127.0.0.1 -p %d -t 60000
        servant=%s
        protocol=tars
        threads=4
        maxconns=1000
      </Verif.CallSrv.CallObjAdapter>
    </server>
    <client>
      async-invoke-timeout=5000
    </client>
  </application>
</tars>
`, *pool, *proto, port, obj)
	cpath := filepath.Join(dir, "srv.conf")
	os.WriteFile(cpath, []byte(cfg), 0644)
	tars.ServerConfigPath = cpath
	tars.GetServerConfig()
	if os.Getenv("VERIF_LOG") == "" {
		rogger.SetLevel(rogger.OFF)
	}
	regFilters(*cmode, *smode, *nc, *ns)
	hits := map[string]int{}
	var hmu sync.Mutex
	vhook.Set(func(point string, a ...interface{}) {
		if point != "tcp.handler.written" || len(a) < 2 {
			return
		}
		pkg, _ := a[1].([]byte)
		if len(pkg) < 5 {
			return
		}
		var rq requestf.RequestPacket
		if rq.ReadFrom(codec.NewReader(pkg[4:])) == nil {
			if c := callID(rq.Context); c != 0 {
				hmu.Lock()
				hits[point]++
				hmu.Unlock()
				rec.Emit("Written", "c", c)
				atomic.AddInt64(&writtenRound, 1)
			}
		}
	})
	app := new(Vc.Call)
	app.AddServantWithContext(&impl{seed: *seed}, obj)
	go tars.Run()
	if *mode == "serve" {
		fmt.Println("serving", port)
		select {} // until killed (or until a packet kills it)
	}
	// wait for the listener
	for i := 0; i < 200; i++ {
		if c, err := net.DialTimeout("tcp", fmt.Sprintf("127.0.0.1:%d", port), 100*time.Millisecond); err == nil {
			c.Close()
			break
		}
		time.Sleep(20 * time.Millisecond)
	}
	comm := tars.NewCommunicator()
	proxy := new(Vc.Call)
	comm.StringToProxy(fmt.Sprintf("%s@tcp -h 127.0.0.1 -p %d -t 60000", obj, port), proxy)
	fns := []string{"EchoScalars", "EchoStr", "EchoBytes", "EchoC", "EchoEnum", "Noret", "Prims", "Fail", "Nested", "Deep"}
	w, err := tr.Create(*out)
	if err != nil {
		panic(err)
	}
	ncalls := 0
	for r := 0; r < *rounds; r++ {
		rec = tr.New()
		var wg sync.WaitGroup
		ids := make(chan int, *per)
		for c := 1; c <= *per; c++ {
			ids <- c
		}
		close(ids)
		for g := 0; g < *conc; g++ {
			wg.Add(1)
			go func(g int) {
				defer wg.Done()
				rng := rand.New(rand.NewSource(*seed*1000003 + int64(r)*1009 + int64(g)))
				for c := range ids {
					fn := fns[rng.Intn(len(fns))]
					doCall(proxy, rng, c, fn, rng.Intn(6) == 0)
				}
			}(g)
		}
		wg.Wait()
		for i := 0; i < 3000 && atomic.LoadInt64(&oneWayPending) > 0; i++ { // a lost one-way call: its Impl event is missing and the run is rejected at Reset
			time.Sleep(time.Millisecond)
		}
		atomic.StoreInt64(&oneWayPending, 0)
		// the hook after conn.Write may still be on its way for the last replies: wait for it before closing the round
		for i := 0; i < 500 && atomic.LoadInt64(&writtenRound) < atomic.LoadInt64(&twoWayRound); i++ {
			time.Sleep(time.Millisecond)
		}
		atomic.StoreInt64(&writtenRound, 0)
		atomic.StoreInt64(&twoWayRound, 0)
		time.Sleep(2 * time.Millisecond)
		old := rec
		rec = tr.New()
		for _, ev := range old.Close() {
			w.Write(ev)
		}
		w.Write(tr.Ev{"e": "Reset"})
		ncalls += *per
	}
	w.Close()
	hmu.Lock()
	fmt.Println(ncalls, hits["tcp.handler.written"])
	hmu.Unlock()
	os.Exit(0)
}
