// calldrive: call-transparency runs for C01.  One process = one filter configuration (filters are
// process-global and cannot be unregistered): a real server started through the public API with the
// generated dispatcher of idl/Call.tars and a recording implementation, a real generated proxy, recording
// pass-through filters, concurrent callers sharing the proxy.
package main

import (
	"context"
	"encoding/json"
	"flag"
	"fmt"
	"math/rand"
	"net"
	"os"
	"path/filepath"
	"reflect"
	"sort"
	"strconv"
	"sync"
	"sync/atomic"
	"time"

	"github.com/TarsCloud/TarsGo/tars"
	"github.com/TarsCloud/TarsGo/tars/protocol/codec"
	"github.com/TarsCloud/TarsGo/tars/protocol/res/basef"
	"github.com/TarsCloud/TarsGo/tars/protocol/res/requestf"
	"github.com/TarsCloud/TarsGo/tars/util/current"
	"github.com/TarsCloud/TarsGo/tars/util/rogger"
	"github.com/TarsCloud/TarsGo/tars/util/vhook"
	"verifharness/gen/Vb"
	"verifharness/gen/Vc"
	"verifharness/gen/Vt"
	"verifharness/internal/tr"
	"verifharness/internal/val"
)

var rec = tr.New()

// one-way calls issued whose server side has not finished yet (a plain counter, decremented by the server hook
// tcp.handler.invoked for every one-way request packet: neither the implementation nor the maps it is shown take part, so
// a call that reaches the implementation with foreign or swapped context/status cannot confuse the bookkeeping -- the
// trace says what happened)
var oneWayPending int64
var writtenRound, twoWayRound int64 // replies seen by the server hook / two-way calls issued in this round

// serialCall is the id of the only call under way in a serial round (0 otherwise): calls made without any option map
// carry no vcall key and are attributed through it.
var serialCall int64
var callsMade int64

// what the harness knows about the calls of the current round: number of option maps the caller passed (the
// implementation sets a response context only if the caller has a map to receive it in)
var callOpts sync.Map // call id -> int

func cstr(v interface{}) string {
	b, _ := json.Marshal(v)
	return string(b)
}

func cmap(m map[string]string) [][2]string {
	out := make([][2]string, 0, len(m))
	for k, v := range m {
		out = append(out, [2]string{k, v})
	}
	sort.Slice(out, func(i, j int) bool { return out[i][0] < out[j][0] })
	return out
}

func canonList(vals []reflect.Value) []interface{} {
	out := make([]interface{}, len(vals))
	for i, v := range vals {
		for v.Kind() == reflect.Ptr {
			v = v.Elem()
		}
		out[i] = val.Canon(v)
	}
	return out
}

// what crosses the wire towards the implementation
func sentString(fn string, ins []reflect.Value, ctx, status map[string]string) string {
	return cstr(map[string]interface{}{"fn": fn, "args": canonList(ins), "ctx": cmap(ctx), "status": cmap(status)})
}

// what comes back
func producedString(ret reflect.Value, outs []reflect.Value, rctx, rstatus map[string]string) string {
	var r interface{} = []int{}
	if ret.IsValid() {
		r = val.Canon(ret)
	}
	return cstr(map[string]interface{}{"ret": r, "outs": canonList(outs), "rctx": cmap(rctx), "rstatus": cmap(rstatus)})
}

func errString(err error) string {
	code, msg := int32(1), err.Error()
	if te, ok := err.(*tars.Error); ok {
		code, msg = te.Code, te.Message
	}
	return cstr(map[string]interface{}{"code": code, "msg": msg})
}

// ---------------------------------------------------------------- recording implementation
type impl struct{ seed int64 }

// callID attributes an event to a call: the key vcall, looked for in the request context (where the caller put it) and
// in the request status (where it lands if the two maps get exchanged on the way: the trace must show that call's
// implementation receiving the wrong maps, not an event of "call 0"); without any map the only call under way.
// 0 = cannot be attributed (TLC rejects such an event).
func callID(ctx, status map[string]string) int {
	if v, ok := ctx["vcall"]; ok {
		n, _ := strconv.Atoi(v)
		return n
	}
	if v, ok := status["vcall"]; ok {
		n, _ := strconv.Atoi(v)
		return n
	}
	return int(atomic.LoadInt64(&serialCall))
}

// do records what the implementation received, produces the results (deterministic in the call id) and records them.
func (h *impl) do(ctx context.Context, fn string, ins []interface{}, ret interface{}, outs []interface{}) error {
	rctx, _ := current.GetRequestContext(ctx)
	rstatus, _ := current.GetRequestStatus(ctx)
	c := callID(rctx, rstatus)
	inv := make([]reflect.Value, len(ins))
	for i, x := range ins {
		inv[i] = reflect.ValueOf(x)
	}
	rec.Emit("Impl", "c", c, "got", sentString(fn, inv, rctx, rstatus))
	nopts := 2
	if v, ok := callOpts.Load(c); ok {
		nopts = v.(int)
	}
	rng := rand.New(rand.NewSource(h.seed*7919 + int64(c)))
	if fn == "fail" || rng.Intn(12) == 0 {
		var err error
		switch rng.Intn(3) {
		case 0:
			err = fmt.Errorf("plain failure %d of call %d", rng.Intn(1000), c)
		default:
			err = &tars.Error{Code: []int32{-5, 2, 100, 1234, -2147483648, 2147483647}[rng.Intn(6)], Message: fmt.Sprintf("failure \"%d\" of call %d\n2nd line", rng.Intn(1000), c)}
		}
		rec.Emit("ImplRet", "c", c, "ok", false, "v", errString(err))
		return err
	}
	var rv reflect.Value
	if ret != nil {
		rv = reflect.ValueOf(ret).Elem()
		val.Fill(rng, rv, 1)
	}
	ov := make([]reflect.Value, len(outs))
	for i, o := range outs {
		ov[i] = reflect.ValueOf(o).Elem()
		val.Fill(rng, ov[i], 1)
	}
	if _, big := isLarge(c); big {
		if !(rv.IsValid() && rng.Intn(2) == 0 && inflate(rng, rv)) {
			for _, o := range ov {
				if inflate(rng, o) {
					break
				}
			}
		}
	}
	var octx, ostatus map[string]string
	if rng.Intn(3) != 0 && nopts >= 1 {
		octx = map[string]string{"rk": fmt.Sprint(rng.Intn(100)), string(randASCII(rng)): string(randASCII(rng))}
		current.SetResponseContext(ctx, octx)
	}
	if rng.Intn(3) != 0 && nopts >= 2 {
		ostatus = map[string]string{"rs": fmt.Sprint(c), string(randASCII(rng)): ""}
		current.SetResponseStatus(ctx, ostatus)
	}
	rec.Emit("ImplRet", "c", c, "ok", true, "v", producedString(rv, ov, octx, ostatus))
	return nil
}

// large values: strings and byte vectors longer than the transports' read buffers (4 KiB at the client), so that a
// request or a reply spans several reads and shares reads with its neighbours.  They are confined to a short run of their
// own (TLC fingerprints every string of every state): there, odd calls carry one in the request and in the reply, even
// calls only in the reply.
var largeRun int32

func isLarge(c int) (req, rsp bool) {
	if atomic.LoadInt32(&largeRun) == 0 {
		return false, false
	}
	return c%2 == 1, true
}

func largeLen(rng *rand.Rand) int {
	if rng.Intn(12) == 0 {
		return 65536 + rng.Intn(9) - 4
	}
	return []int{4000, 4096, 4100, 5000, 8192, 9000, 12288}[rng.Intn(7)] + rng.Intn(17) - 8
}

// inflate makes the first string or byte vector found in v (through pointers and struct members) a long one.
func inflate(rng *rand.Rand, v reflect.Value) bool {
	switch v.Kind() {
	case reflect.Ptr:
		return !v.IsNil() && inflate(rng, v.Elem())
	case reflect.String:
		b := make([]byte, largeLen(rng))
		for i := range b {
			b[i] = byte(32 + rng.Intn(95))
		}
		v.SetString(string(b))
		return true
	case reflect.Slice:
		ek := v.Type().Elem().Kind()
		if ek != reflect.Int8 && ek != reflect.Uint8 {
			return false
		}
		n := largeLen(rng)
		sl := reflect.MakeSlice(v.Type(), n, n)
		for i := 0; i < n; i++ {
			if ek == reflect.Int8 {
				sl.Index(i).SetInt(int64(int8(rng.Intn(256))))
			} else {
				sl.Index(i).SetUint(uint64(rng.Intn(256)))
			}
		}
		v.Set(sl)
		return true
	case reflect.Struct:
		for i := 0; i < v.NumField(); i++ {
			if v.Field(i).CanSet() && inflate(rng, v.Field(i)) {
				return true
			}
		}
	}
	return false
}

func randASCII(rng *rand.Rand) []byte {
	b := make([]byte, 1+rng.Intn(6))
	for i := range b {
		b[i] = byte(33 + rng.Intn(90))
	}
	return b
}

func (h *impl) EchoScalars(ctx context.Context, a *Vt.Scalars, b *Vt.Scalars) (ret int32, err error) {
	err = h.do(ctx, "echoScalars", []interface{}{a}, &ret, []interface{}{b})
	return
}
func (h *impl) EchoStr(ctx context.Context, s string, t *string) (ret string, err error) {
	err = h.do(ctx, "echoStr", []interface{}{s}, &ret, []interface{}{t})
	return
}
func (h *impl) EchoBytes(ctx context.Context, a []int8, ub []uint8, b *[]uint8) (ret []int8, err error) {
	err = h.do(ctx, "echoBytes", []interface{}{a, ub}, &ret, []interface{}{b})
	return
}
func (h *impl) EchoC(ctx context.Context, c *Vt.Containers, d *Vt.Containers, m *map[string][]int64) (ret Vt.Containers, err error) {
	err = h.do(ctx, "echoC", []interface{}{c}, &ret, []interface{}{d, m})
	return
}
func (h *impl) EchoEnum(ctx context.Context, c Vt.Color, s *Vb.Shade) (ret Vt.Color, err error) {
	err = h.do(ctx, "echoEnum", []interface{}{c}, &ret, []interface{}{s})
	return
}
func (h *impl) Noret(ctx context.Context, a int32, why string) (err error) {
	return h.do(ctx, "noret", []interface{}{a, why}, nil, nil)
}
func (h *impl) Prims(ctx context.Context, b bool, i8 int8, u8 uint8, i16 int16, u16 uint16, i32 int32, u32 uint32, i64 int64, f float32, d float64, o *int64, od *float64, ou *uint32) (ret bool, err error) {
	err = h.do(ctx, "prims", []interface{}{b, i8, u8, i16, u16, i32, u32, i64, f, d}, &ret, []interface{}{o, od, ou})
	return
}
func (h *impl) Fail(ctx context.Context, code int32, msg string, never *string) (ret int32, err error) {
	err = h.do(ctx, "fail", []interface{}{code, msg}, &ret, []interface{}{never})
	return
}
func (h *impl) Nested(ctx context.Context, v [][]int16, mo map[string]Vt.Opts, m *map[int32]Vt.Inner) (ret [][]int16, err error) {
	err = h.do(ctx, "nested", []interface{}{v, mo}, &ret, []interface{}{m})
	return
}
func (h *impl) Deep(ctx context.Context, x *Vt.Deep, y *Vt.Deep) (ret Vt.Deep, err error) {
	err = h.do(ctx, "deep", []interface{}{x}, &ret, []interface{}{y})
	return
}

// ---------------------------------------------------------------- pass-through filters, registered one at a time
// Filters are process-global and cannot be unregistered; they can be registered at any time.  reg counts what has been
// registered so far (in: legacy / middleware / pre filters, out: the same legacy / middleware on the way back / post
// filters); it is only touched by the main goroutine while no call is under way.
type regStep struct{ side, kind string } // side "c" | "s"; kind "legacy" | "mw" | "pre" | "post"

var reg struct{ cin, cout, sin, sout int }

func cev(msg *tars.Message, ph string, i int) {
	rec.Emit("CF", "c", callID(msg.Req.Context, msg.Req.Status), "ph", ph, "i", i)
}

func sev(req *requestf.RequestPacket, ph string, i int) {
	rec.Emit("SF", "c", callID(req.Context, req.Status), "ph", ph, "i", i)
}

func clientMW(i int) tars.ClientFilterMiddleware {
	return func(next tars.ClientFilter) tars.ClientFilter {
		return func(ctx context.Context, msg *tars.Message, invoke tars.Invoke, timeout time.Duration) error {
			cev(msg, "enter", i)
			err := next(ctx, msg, invoke, timeout)
			cev(msg, "exit", i)
			return err
		}
	}
}

func serverMW(i int) tars.ServerFilterMiddleware {
	return func(next tars.ServerFilter) tars.ServerFilter {
		return func(ctx context.Context, d tars.Dispatch, f interface{}, req *requestf.RequestPacket, resp *requestf.ResponsePacket, withContext bool) error {
			sev(req, "enter", i)
			err := next(ctx, d, f, req, resp, withContext)
			sev(req, "exit", i)
			return err
		}
	}
}

// regSteps lists the registrations of a configuration, per side in an order in which they can be made (filters of one
// kind in index order; pre and post filters of a side interleaved at random when rng is given, else pre1 post1 pre2 ...).
func regSteps(rng *rand.Rand, side, mode string, n int) []regStep {
	var out []regStep
	switch mode {
	case "legacy":
		out = append(out, regStep{side, "legacy"})
	case "mw":
		for i := 0; i < n; i++ {
			out = append(out, regStep{side, "mw"})
		}
	case "prepost":
		pre, post := n, n
		for pre+post > 0 {
			takePre := pre >= post
			if rng != nil && pre > 0 && post > 0 {
				takePre = rng.Intn(2) == 0
			}
			if takePre && pre > 0 {
				out = append(out, regStep{side, "pre"})
				pre--
			} else {
				out = append(out, regStep{side, "post"})
				post--
			}
		}
	}
	return out
}

// register makes one group of registrations (consecutive middlewares of a side go into one Use...Middleware call) and
// records what is registered from now on.
func register(group []regStep) {
	var cms []tars.ClientFilterMiddleware
	var sms []tars.ServerFilterMiddleware
	var cch, sch bool
	for _, st := range group {
		switch st {
		case regStep{"c", "legacy"}:
			tars.RegisterClientFilter(func(ctx context.Context, msg *tars.Message, invoke tars.Invoke, timeout time.Duration) error {
				cev(msg, "enter", 1)
				err := invoke(ctx, msg, timeout)
				cev(msg, "exit", 1)
				return err
			})
			reg.cin, reg.cout = 1, 1
		case regStep{"c", "mw"}:
			reg.cin++
			reg.cout++
			cms = append(cms, clientMW(reg.cin))
		case regStep{"c", "pre"}:
			reg.cin++
			i := reg.cin
			tars.RegisterPreClientFilter(func(ctx context.Context, msg *tars.Message, invoke tars.Invoke, timeout time.Duration) error {
				cev(msg, "pre", i)
				return nil
			})
		case regStep{"c", "post"}:
			reg.cout++
			i := reg.cout
			tars.RegisterPostClientFilter(func(ctx context.Context, msg *tars.Message, invoke tars.Invoke, timeout time.Duration) error {
				cev(msg, "post", i)
				return nil
			})
		case regStep{"s", "legacy"}:
			tars.RegisterServerFilter(func(ctx context.Context, d tars.Dispatch, f interface{}, req *requestf.RequestPacket, resp *requestf.ResponsePacket, withContext bool) error {
				sev(req, "enter", 1)
				err := d(ctx, f, req, resp, withContext)
				sev(req, "exit", 1)
				return err
			})
			reg.sin, reg.sout = 1, 1
		case regStep{"s", "mw"}:
			reg.sin++
			reg.sout++
			sms = append(sms, serverMW(reg.sin))
		case regStep{"s", "pre"}:
			reg.sin++
			i := reg.sin
			tars.RegisterPreServerFilter(func(ctx context.Context, d tars.Dispatch, f interface{}, req *requestf.RequestPacket, resp *requestf.ResponsePacket, withContext bool) error {
				sev(req, "pre", i)
				return nil
			})
		case regStep{"s", "post"}:
			reg.sout++
			i := reg.sout
			tars.RegisterPostServerFilter(func(ctx context.Context, d tars.Dispatch, f interface{}, req *requestf.RequestPacket, resp *requestf.ResponsePacket, withContext bool) error {
				sev(req, "post", i)
				return nil
			})
		}
		if st.side == "c" {
			cch = true
		} else {
			sch = true
		}
	}
	if len(cms) > 0 {
		tars.UseClientFilterMiddleware(cms...)
	}
	if len(sms) > 0 {
		tars.UseServerFilterMiddleware(sms...)
	}
	emitReg(cch, sch)
}

func emitReg(c, s bool) {
	if c {
		rec.Emit("Reg", "side", "c", "nin", reg.cin, "nout", reg.cout)
	}
	if s {
		rec.Emit("Reg", "side", "s", "nin", reg.sin, "nout", reg.sout)
	}
}

// regFilters registers everything at once (the usual start-up pattern)
func regFilters(cmode, smode string, nc, ns int) {
	register(append(regSteps(nil, "c", cmode, nc), regSteps(nil, "s", smode, ns)...))
}

// number of in-parameters per function (the rest are out-parameters)
var nIn = map[string]int{"EchoScalars": 1, "EchoStr": 1, "EchoBytes": 2, "EchoC": 1, "EchoEnum": 1, "Noret": 2, "Prims": 10, "Fail": 2, "Nested": 2, "Deep": 1}
var idlName = map[string]string{"EchoScalars": "echoScalars", "EchoStr": "echoStr", "EchoBytes": "echoBytes", "EchoC": "echoC", "EchoEnum": "echoEnum",
	"Noret": "noret", "Prims": "prims", "Fail": "fail", "Nested": "nested", "Deep": "deep"}

// one call through the real generated proxy, by reflection on its method
func doCall(proxy *Vc.Call, rng *rand.Rand, c int, fn string, oneway bool) {
	doCallV(proxy, rng, c, fn, oneway, 2, false)
}

// doCallV: nopts = number of option maps passed (2: context and status, 1: context only, 0: none -- such a call can only be
// attributed while it is the only one under way); plain = through the generated function without a context.Context
// parameter (two-way only).
func doCallV(proxy *Vc.Call, rng *rand.Rand, c int, fn string, oneway bool, nopts int, plain bool) {
	name := fn + "WithContext"
	if oneway {
		name = fn + "OneWayWithContext"
	} else if plain {
		name = fn
	}
	m := reflect.ValueOf(proxy).MethodByName(name)
	mt := m.Type()
	np := mt.NumIn() - 2 // without ctx and the variadic opts
	args := []reflect.Value{reflect.ValueOf(context.Background())}
	off := 1
	if name == fn {
		np, off = mt.NumIn()-1, 0
		args = args[:0]
	}
	var ins, outs []reflect.Value
	for i := 0; i < np; i++ {
		pt := mt.In(i + off)
		var v reflect.Value
		if pt.Kind() == reflect.Ptr {
			v = reflect.New(pt.Elem())
			if i < nIn[fn] {
				val.Fill(rng, v.Elem(), 1)
			} // out parameters are fresh variables (decoding into reused variables is C04's subject)
		} else {
			v = reflect.New(pt).Elem()
			val.Fill(rng, v, 1)
		}
		args = append(args, v)
		if i < nIn[fn] {
			ins = append(ins, v)
		} else {
			outs = append(outs, v)
		}
	}
	if big, _ := isLarge(c); big {
		for _, v := range ins {
			if inflate(rng, v) {
				break
			}
		}
	}
	ctxMap := map[string]string{"vcall": strconv.Itoa(c)}
	for k := rng.Intn(3); k > 0; k-- {
		ctxMap[string(randASCII(rng))] = string(randASCII(rng))
	}
	status := map[string]string{}
	if oneway {
		status["vkind"] = "oneway"
	}
	for k := rng.Intn(3); k > 0; k-- {
		status[string(randASCII(rng))] = string(randASCII(rng))
	}
	switch nopts {
	case 2:
		args = append(args, reflect.ValueOf(ctxMap), reflect.ValueOf(status))
	case 1:
		args = append(args, reflect.ValueOf(ctxMap))
		status = nil
	default:
		ctxMap, status = nil, nil
	}
	callOpts.Store(c, nopts)
	atomic.AddInt64(&callsMade, 1)
	if oneway {
		atomic.AddInt64(&oneWayPending, 1)
	} else {
		atomic.AddInt64(&twoWayRound, 1)
	}
	rec.Emit("CallStart", "c", c, "fn", idlName[fn], "oneway", oneway, "sent", sentString(idlName[fn], ins, ctxMap, status))
	res := m.Call(args)
	var err error
	if e := res[len(res)-1]; !e.IsNil() {
		err = e.Interface().(error)
	}
	switch {
	case oneway && err == nil:
		rec.Emit("CallEnd", "c", c, "ok", true, "v", "oneway")
	case err != nil:
		rec.Emit("CallEnd", "c", c, "ok", false, "v", errString(err))
		if oneway {
			atomic.AddInt64(&oneWayPending, -1)
		}
	default:
		var ret reflect.Value
		if len(res) == 2 {
			ret = res[0]
		}
		rec.Emit("CallEnd", "c", c, "ok", true, "v", producedString(ret, outs, ctxMap, status))
	}
}

func main() {
	cmode := flag.String("cmode", "none", "client filters: none|legacy|mw|prepost")
	smode := flag.String("smode", "none", "server filters")
	nc := flag.Int("nc", 2, "client filter count")
	ns := flag.Int("ns", 2, "server filter count")
	seed := flag.Int64("seed", 1, "seed")
	rounds := flag.Int("rounds", 3, "rounds of calls (one Reset each)")
	per := flag.Int("per", 40, "calls per round (<= 48)")
	conc := flag.Int("conc", 8, "concurrent callers sharing the proxy")
	pool := flag.Int("pool", 0, "server maxroutine")
	out := flag.String("out", "trace.ndjson", "output")
	mode := flag.String("mode", "calls", "calls | serve (child: run a server until killed) | hostile (parent: hostile packets against children)")
	proto := flag.String("proto", "tcp", "serve mode: tcp|udp")
	portFlag := flag.Int("port", 0, "serve mode: port")
	staged := flag.Bool("staged", true, "calls mode: a first run in which the filters are registered in stages, with calls in between")
	large := flag.Int("large", 8, "calls mode: a short run of this many concurrent calls with values larger than the transports' read buffers (0: none)")
	serial := flag.Bool("serial", true, "calls mode: a run of serial calls through every generated entry point with 0, 1 or 2 option maps")
	nHostile := flag.Int("hostile", 600, "hostile mode: inputs per entry point")
	flag.Parse()
	if *mode == "clientvictim" {
		clientVictimMain(*portFlag, *seed)
		os.Exit(0)
	}
	if *mode == "hostile" {
		if err := hostileMain(*seed, *nHostile, *out); err != nil {
			fmt.Fprintln(os.Stderr, "calldrive hostile:", err)
			os.Exit(3)
		}
		os.Exit(0)
	}
	if os.Getenv("VERIF_LOG") == "" {
		rogger.SetLevel(rogger.OFF)
	}
	ln, _ := net.Listen("tcp", "127.0.0.1:0")
	port := ln.Addr().(*net.TCPAddr).Port
	ln.Close()
	if *portFlag != 0 {
		port = *portFlag
	}
	dir, _ := os.MkdirTemp("", "calldrive")
	defer os.RemoveAll(dir)
	obj := "Verif.CallSrv.CallObj"
	cfg := fmt.Sprintf(`<tars>
  <application>
    <server>
      app=Verif
      server=CallSrv
      localip=127.0.0.1
      logLevel=ERROR
      maxroutine=%d
      <Verif.CallSrv.CallObjAdapter>
        endpoint=%s -h 127.0.0.1 -p %d -t 60000
        servant=%s
        protocol=tars
        threads=4
        maxconns=1000
      </Verif.CallSrv.CallObjAdapter>
    </server>
    <client>
      async-invoke-timeout=5000
    </client>
  </application>
</tars>
`, *pool, *proto, port, obj)
	cpath := filepath.Join(dir, "srv.conf")
	os.WriteFile(cpath, []byte(cfg), 0644)
	tars.ServerConfigPath = cpath
	tars.GetServerConfig()
	if os.Getenv("VERIF_LOG") == "" {
		rogger.SetLevel(rogger.OFF)
	}
	stagedRound := *staged && *mode == "calls"
	if !stagedRound {
		regFilters(*cmode, *smode, *nc, *ns)
	}
	hits := map[string]int{}
	var hmu sync.Mutex
	vhook.Set(func(point string, a ...interface{}) {
		if (point != "tcp.handler.written" && point != "tcp.handler.invoked") || len(a) < 2 {
			return
		}
		pkg, _ := a[1].([]byte)
		if len(pkg) < 5 {
			return
		}
		var rq requestf.RequestPacket
		if rq.ReadFrom(codec.NewReader(pkg[4:])) != nil {
			return
		}
		if point == "tcp.handler.invoked" {
			// the server side of a request is over (filters on the way back included); for a one-way request nothing else
			// will say so
			if rq.CPacketType == basef.TARSONEWAY && rq.SFuncName != "tars_ping" {
				atomic.AddInt64(&oneWayPending, -1)
			}
			return
		}
		if c := callID(rq.Context, rq.Status); c != 0 {
			hmu.Lock()
			hits[point]++
			hmu.Unlock()
			rec.Emit("Written", "c", c)
			atomic.AddInt64(&writtenRound, 1)
		}
	})
	app := new(Vc.Call)
	app.AddServantWithContext(&impl{seed: *seed}, obj)
	go tars.Run()
	if *mode == "serve" {
		fmt.Println("serving", port)
		select {} // until killed (or until a packet kills it)
	}
	// wait for the listener
	for i := 0; i < 200; i++ {
		if c, err := net.DialTimeout("tcp", fmt.Sprintf("127.0.0.1:%d", port), 100*time.Millisecond); err == nil {
			c.Close()
			break
		}
		time.Sleep(20 * time.Millisecond)
	}
	comm := tars.NewCommunicator()
	proxy := new(Vc.Call)
	comm.StringToProxy(fmt.Sprintf("%s@tcp -h 127.0.0.1 -p %d -t 60000", obj, port), proxy)
	fns := []string{"EchoScalars", "EchoStr", "EchoBytes", "EchoC", "EchoEnum", "Noret", "Prims", "Fail", "Nested", "Deep"}
	w, err := tr.Create(*out)
	if err != nil {
		panic(err)
	}
	ncalls := 0
	// quiesce waits until nothing is under way on either side (a lost one-way call: its Impl event is missing and the run
	// is rejected at the next Reset / Reg)
	slow := 0
	quiesce := func() {
		lim := 3000
		if slow > 0 {
			lim = 300 // a tree on which the wait already ran out once: do not spend the budget on waiting
		}
		i := 0
		for ; i < lim && atomic.LoadInt64(&oneWayPending) > 0; i++ {
			time.Sleep(time.Millisecond)
		}
		if i == lim {
			slow++
		}
		atomic.StoreInt64(&oneWayPending, 0)
		// the hook after conn.Write may still be on its way for the last replies
		for i = 0; i < lim && atomic.LoadInt64(&writtenRound) < atomic.LoadInt64(&twoWayRound); i++ {
			time.Sleep(time.Millisecond)
		}
		if i == lim {
			slow++
		}
		time.Sleep(2 * time.Millisecond)
	}
	// calls ids lo..hi by conc callers sharing the proxy
	batch := func(r, lo, hi, conc int) {
		var wg sync.WaitGroup
		ids := make(chan int, hi-lo+1)
		for c := lo; c <= hi; c++ {
			ids <- c
		}
		close(ids)
		for g := 0; g < conc; g++ {
			wg.Add(1)
			go func(g int) {
				defer wg.Done()
				rng := rand.New(rand.NewSource(*seed*1000003 + int64(r)*1009 + int64(g) + int64(lo)*7))
				for c := range ids {
					fn := fns[rng.Intn(len(fns))]
					oneway := rng.Intn(6) == 0
					// entry points: the function with / without a context.Context parameter; context and status, or the context alone
					nopts, plain := 2, false
					if rng.Intn(4) == 0 {
						nopts = 1
					}
					if !oneway && rng.Intn(4) == 0 {
						plain = true
					}
					doCallV(proxy, rng, c, fn, oneway, nopts, plain)
				}
			}(g)
		}
		wg.Wait()
		quiesce()
	}
	endRound := func(kind string) {
		atomic.StoreInt64(&writtenRound, 0)
		atomic.StoreInt64(&twoWayRound, 0)
		callOpts.Range(func(k, _ interface{}) bool { callOpts.Delete(k); return true })
		old := rec
		rec = tr.New()
		for _, ev := range old.Close() {
			w.Write(ev)
		}
		w.Write(tr.Ev{"e": "Reset", "kind": kind})
		ncalls += int(atomic.SwapInt64(&callsMade, 0))
	}
	if stagedRound {
		// filters registered while the process is running: no filter, calls, some registrations, calls, ... until the whole
		// configuration is registered.  Every call has to pass exactly the filters registered when it was made.
		rec = tr.New()
		rng := rand.New(rand.NewSource(*seed*31 + 5))
		cs, ss := regSteps(rng, "c", *cmode, *nc), regSteps(rng, "s", *smode, *ns)
		var steps []regStep
		for len(cs)+len(ss) > 0 {
			if len(ss) == 0 || (len(cs) > 0 && rng.Intn(2) == 0) {
				steps, cs = append(steps, cs[0]), cs[1:]
			} else {
				steps, ss = append(steps, ss[0]), ss[1:]
			}
		}
		// at most 5 groups of registrations; a group ends after each cut position, the last group at the last step
		isCut := map[int]bool{}
		if len(steps) > 0 {
			isCut[len(steps)-1] = true
			for _, k := range rng.Perm(len(steps) - 1) {
				if len(isCut) >= 5 {
					break
				}
				isCut[k] = true
			}
		}
		nst := len(isCut) + 1
		sz := *per / nst
		lo := 1
		batch(-1, lo, lo+sz-1, *conc) // nothing registered yet
		lo += sz
		var group []regStep
		for k, st := range steps {
			group = append(group, st)
			if isCut[k] {
				register(group)
				group = nil
				batch(-1, lo, lo+sz-1, *conc)
				lo += sz
			}
		}
		endRound("staged")
	}
	if *serial {
		// one call at a time: calls without any option map can be attributed, every entry point with 0, 1 and 2 maps
		rec = tr.New()
		emitReg(reg.cin+reg.cout > 0, reg.sin+reg.sout > 0)
		rng := rand.New(rand.NewSource(*seed*37 + 11))
		for c := 1; c <= *per; c++ {
			fn := fns[rng.Intn(len(fns))]
			oneway := rng.Intn(4) == 0
			atomic.StoreInt64(&serialCall, int64(c))
			doCallV(proxy, rng, c, fn, oneway, rng.Intn(3), !oneway && rng.Intn(2) == 0)
			quiesce() // also for a two-way call: the hook after conn.Write of its reply is attributed through serialCall too
		}
		atomic.StoreInt64(&serialCall, 0)
		endRound("serial")
	}
	if *large > 0 {
		rec = tr.New()
		emitReg(reg.cin+reg.cout > 0, reg.sin+reg.sout > 0)
		atomic.StoreInt32(&largeRun, 1)
		batch(-2, 1, *large, *conc)
		atomic.StoreInt32(&largeRun, 0)
		endRound("large")
	}
	for r := 0; r < *rounds; r++ {
		rec = tr.New()
		emitReg(reg.cin+reg.cout > 0, reg.sin+reg.sout > 0)
		batch(r, 1, *per, *conc)
		endRound("")
	}
	w.Close()
	hmu.Lock()
	fmt.Println(ncalls, hits["tcp.handler.written"])
	hmu.Unlock()
	os.Exit(0)
}
