package main

// Hostile packets against the real network receive paths (C05): a child process runs the real server (public
// API, generated dispatcher of idl/Call.tars) on tcp or udp; the parent sends it one hostile frame / datagram
// after the other and probes with a genuine call whether it is still alive.  A third entry point is the client
// receive path: a child makes genuine calls against a harness server that answers with hostile frames.

import (
	"bufio"
	"context"
	"encoding/binary"
	"errors"
	"fmt"
	"math/rand"
	"net"
	"os"
	"os/exec"
	"strings"
	"time"

	"github.com/TarsCloud/TarsGo/tars"
	"github.com/TarsCloud/TarsGo/tars/protocol/codec"
	"github.com/TarsCloud/TarsGo/tars/protocol/res/requestf"
	"verifharness/gen/Vc"
	"verifharness/internal/tr"
	"verifharness/internal/wire"
)

type child struct {
	cmd   *exec.Cmd
	port  int
	proto string
	errb  *strings.Builder
	done  chan struct{} // closed when the process has ended
}

func startChild(proto string) (*child, error) {
	l, _ := net.Listen("tcp", "127.0.0.1:0")
	port := l.Addr().(*net.TCPAddr).Port
	l.Close()
	c := &child{port: port, proto: proto, errb: &strings.Builder{}}
	c.cmd = exec.Command(os.Args[0], "-mode", "serve", "-proto", proto, "-port", fmt.Sprint(port))
	c.cmd.Env = append(os.Environ(), "GOTRACEBACK=single")
	c.cmd.Stderr = c.errb
	so, _ := c.cmd.StdoutPipe()
	if err := c.cmd.Start(); err != nil {
		return nil, err
	}
	rd := bufio.NewReader(so)
	ch := make(chan error, 1)
	go func() {
		_, e := rd.ReadString('\n')
		ch <- e
		go func() {
			buf := make([]byte, 4096)
			for {
				if _, e := rd.Read(buf); e != nil {
					return
				}
			}
		}()
	}()
	select {
	case e := <-ch:
		if e != nil {
			return nil, fmt.Errorf("child did not start: %v %s", e, c.errb.String())
		}
	case <-time.After(10 * time.Second):
		return nil, errors.New("child start timeout")
	}
	c.done = make(chan struct{})
	go func() {
		c.cmd.Wait()
		close(c.done)
	}()
	time.Sleep(150 * time.Millisecond)
	return c, nil
}

func (c *child) stop() {
	if c.cmd != nil && c.cmd.Process != nil {
		c.cmd.Process.Kill()
		if c.done != nil {
			<-c.done
		}
	}
}

// exitedWithin: the process ended (by itself: nobody has killed it yet) within d.  A server that is on its way out -- stack
// dump, then exit -- may still answer one more probe on a busy machine.
func (c *child) exitedWithin(d time.Duration) bool {
	select {
	case <-c.done:
		return true
	default:
	}
	if d <= 0 {
		return false
	}
	select {
	case <-c.done:
		return true
	case <-time.After(d):
		return false
	}
}

// alive: a genuine request is answered (tcp: noret through a raw frame; udp likewise)
func (c *child) alive(probe []byte) bool {
	addr := fmt.Sprintf("127.0.0.1:%d", c.port)
	for try := 0; try < 3; try++ {
		conn, err := net.DialTimeout(c.proto, addr, 300*time.Millisecond)
		if err != nil {
			time.Sleep(30 * time.Millisecond)
			continue
		}
		conn.SetDeadline(time.Now().Add(700 * time.Millisecond))
		conn.Write(probe)
		buf := make([]byte, 4096)
		n, err := conn.Read(buf)
		conn.Close()
		if err == nil && n >= 4 {
			return true
		}
	}
	return false
}

func (c *child) send(b []byte) {
	addr := fmt.Sprintf("127.0.0.1:%d", c.port)
	conn, err := net.DialTimeout(c.proto, addr, 300*time.Millisecond)
	if err != nil {
		return
	}
	conn.SetDeadline(time.Now().Add(40 * time.Millisecond))
	conn.Write(b)
	if c.proto == "tcp" {
		buf := make([]byte, 256)
		conn.Read(buf) // give the server the time to handle it (reply, close or deadline)
	}
	conn.Close()
}

func frame(body []byte) []byte {
	f := make([]byte, 4+len(body))
	binary.BigEndian.PutUint32(f, uint32(len(f)))
	copy(f[4:], body)
	return f
}

// capture valid request packets of every function by running the real proxy with a client filter that
// records the request and returns without sending it
func captureRequests(seed int64) []requestf.RequestPacket {
	var got []requestf.RequestPacket
	tars.RegisterClientFilter(func(ctx context.Context, msg *tars.Message, invoke tars.Invoke, timeout time.Duration) error {
		rq := *msg.Req
		rq.SBuffer = append([]int8(nil), msg.Req.SBuffer...)
		got = append(got, rq)
		return errors.New("captured")
	})
	comm := tars.NewCommunicator()
	proxy := new(Vc.Call)
	comm.StringToProxy("Verif.CallSrv.CallObj@tcp -h 127.0.0.1 -p 1 -t 1000", proxy)
	rng := rand.New(rand.NewSource(seed))
	for _, fn := range []string{"EchoScalars", "EchoStr", "EchoBytes", "EchoC", "EchoEnum", "Noret", "Prims", "Fail", "Nested", "Deep"} {
		for k := 0; k < 3; k++ {
			func() {
				defer func() { recover() }()
				doCall(proxy, rng, 1000+k, fn, false)
			}()
		}
	}
	rec = tr.New()
	return got
}

func encodeReq(rq *requestf.RequestPacket) []byte {
	b := codec.NewBuffer()
	rq.WriteTo(b)
	return append([]byte(nil), b.ToBytes()...)
}

// hostile variants of one valid request: mutated argument buffer (what the generated dispatcher decodes) and
// mutated packet
func mutateArgs(rng *rand.Rand, args []byte) [][]byte {
	var out [][]byte
	var lens []wire.LenPos
	spans, err := wire.Split(args, &lens)
	if err != nil {
		return nil
	}
	for _, lp := range lens {
		for _, nv := range []int64{int64(lp.N + 1), 1<<31 - 1, -1, -(1 << 31), int64(lp.N + 1000), 70000} {
			var enc []byte
			switch lp.Kind {
			case "str1":
				enc = []byte{byte(nv)}
			case "str4":
				enc = []byte{byte(nv >> 24), byte(nv >> 16), byte(nv >> 8), byte(nv)}
			default:
				enc = wire.MkCount(nv)
			}
			out = append(out, append(append(append([]byte(nil), args[:lp.Start]...), enc...), args[lp.End:]...))
		}
	}
	for _, sp := range spans {
		for _, ty := range []int{wire.TBYTE, wire.TLONG, wire.TSTR1, wire.TSTR4, wire.TMAP, wire.TLIST, wire.TSB, wire.TZERO, wire.TSL} {
			if ty != sp.Ty {
				out = append(out, append(append(append([]byte(nil), args[:sp.Start]...), wire.MkField(rng, ty, sp.Tag, 1)...), args[sp.End:]...))
			}
		}
	}
	for i := 0; i < 6 && len(args) > 0; i++ {
		out = append(out, args[:rng.Intn(len(args))])
		f := append([]byte(nil), args...)
		f[rng.Intn(len(f))] = byte(rng.Intn(256))
		out = append(out, f)
	}
	return out
}

type hostileRec struct {
	K     string `json:"k"`
	Entry string `json:"entry"`
	Desc  string `json:"desc"`
	BLen  int    `json:"blen"`
	Bytes []int  `json:"bytes,omitempty"`
	Died  bool   `json:"died"`
	Why   string `json:"why"`
}

type item struct {
	desc string
	body []byte
}

func fieldCorpus(reqs []requestf.RequestPacket) []item {
	var out []item
	var bases []requestf.RequestPacket
	seen := map[string]bool{}
	for _, r := range reqs {
		if (r.SFuncName == "noret" || r.SFuncName == "echoStr") && !seen[r.SFuncName] {
			seen[r.SFuncName] = true
			bases = append(bases, r)
		}
	}
	if len(bases) > 0 {
		ping := bases[0]
		ping.SFuncName = "tars_ping"
		ping.SBuffer = nil
		bases = append(bases, ping)
	}
	long := strings.Repeat("k", 300)
	vals := []string{"", "a", "|", "a|", "|b", "a|b", "a|b|", "a|b|c", "||", "|||", "a|b|c|d", "a|b|c|d|e",
		"f.2-ee824ad0eb4dacf56b29d230a229c584|030019ac000010796162bc5900000021",
		"f.2-ee824ad0eb4dacf56b29d230a229c584|030019ac000010796162bc5900000021|030019ac000010796162bc5900000021",
		"f.-1-x|y|z", "f.99999999999999999999-x|y", "0.|", ".|.", "-|-|-", "f|", "1.2.3.4-|", "\x00|\x00", long, long + "|" + long, "\xff\xfe|\xff"}
	keys := []string{"STATUS_DYED_KEY", "STATUS_TRACE_KEY", "STATUS_GRID_KEY", "STATUS_SETNAME_VALUE", "STATUS_RESULT_CODE", "STATUS_RESULT_DESC", "STATUS_DYED_FILENAME", ""}
	mts := []int32{0, 0x01, 0x02, 0x04, 0x08, 0x10, 0x100, 0x104, 0x1ff, 0x7fffffff, -1, -0x80000000}
	put := func(desc string, rq requestf.RequestPacket) {
		out = append(out, item{"request field: " + desc + " (" + rq.SFuncName + ")", encodeReq(&rq)})
	}
	for _, b := range bases {
		for _, mt := range mts {
			for _, k := range keys {
				for _, v := range vals {
					rq := b
					rq.IMessageType = mt
					rq.Status = map[string]string{k: v}
					put(fmt.Sprintf("messageType %#x, status[%q]=%q", mt, k, clip(v)), rq)
				}
			}
			rq := b
			rq.IMessageType = mt
			rq.Status = map[string]string{}
			for _, k := range keys {
				rq.Status[k] = "a|b"
			}
			put(fmt.Sprintf("messageType %#x, every status key", mt), rq)
			rq.Status = nil
			put(fmt.Sprintf("messageType %#x, no status", mt), rq)
		}
		for _, to := range []int32{0, 1, -1, 0x7fffffff, -0x80000000} {
			for _, pt := range []int8{0, 1, 2, -1, 127, -128} {
				for _, ver := range []int16{0, 1, 2, 3, 4, -1, 0x7fff, -0x8000} {
					rq := b
					rq.ITimeout, rq.CPacketType, rq.IVersion = to, pt, ver
					put(fmt.Sprintf("timeout %d, packetType %d, version %d", to, pt, ver), rq)
				}
			}
		}
		for _, nm := range []string{"", "x", b.SServantName + "x", strings.ToLower(b.SServantName), long, "\x00", "a.b.c@tcp -h 1"} {
			rq := b
			rq.SServantName = nm
			put(fmt.Sprintf("servant %q", clip(nm)), rq)
			rq = b
			rq.SFuncName = nm
			put(fmt.Sprintf("function %q", clip(nm)), rq)
		}
		for _, k := range append(keys, "vcall", long) {
			for _, v := range []string{"", "0", "-1", "x", long} {
				rq := b
				rq.Context = map[string]string{k: v}
				put(fmt.Sprintf("context[%q]=%q", clip(k), clip(v)), rq)
			}
		}
		for _, id := range []int32{0, -1, 0x7fffffff, -0x80000000} {
			rq := b
			rq.IRequestId = id
			put(fmt.Sprintf("request id %d", id), rq)
		}
	}
	return out
}

func clip(s string) string {
	if len(s) > 40 {
		return s[:40] + "..."
	}
	return s
}

type culprit struct {
	it  item
	why string
}

// diesOf feeds the inputs to a fresh server child and says whether it ended (by itself, within a grace period) or stopped
// answering.
func diesOf(proto string, list []item, probe []byte, raw func(item) []byte) (bool, string, error) {
	c, err := startChild(proto)
	if err != nil {
		return false, "", err
	}
	for _, it := range list {
		c.send(raw(it))
	}
	died := c.exitedWithin(800*time.Millisecond) || !c.alive(probe)
	why := firstLine(c.errb.String())
	c.stop()
	return died, why, nil
}

// findCulprits narrows a window of inputs down to the ones that end the server on their own (bisection on fresh children);
// a window that only ends it as a whole is reported as a sequence.  At most *budget culprits are looked for.
func findCulprits(proto string, list []item, probe []byte, raw func(item) []byte, budget *int) []culprit {
	if len(list) == 0 || *budget <= 0 {
		return nil
	}
	died, why, err := diesOf(proto, list, probe, raw)
	if err != nil || !died {
		return nil
	}
	if len(list) == 1 {
		*budget--
		return []culprit{{list[0], why}}
	}
	mid := len(list) / 2
	l := findCulprits(proto, list[:mid], probe, raw, budget)
	r := findCulprits(proto, list[mid:], probe, raw, budget)
	if len(l)+len(r) == 0 && *budget > 0 {
		*budget--
		return []culprit{{item{desc: fmt.Sprintf("a sequence of %d inputs beginning with: %s", len(list), list[0].desc), body: list[0].body}, why}}
	}
	return append(l, r...)
}

func hostileMain(seed int64, n int, out string) error {
	rng := rand.New(rand.NewSource(seed))
	reqs := captureRequests(seed)
	if len(reqs) < 10 {
		return fmt.Errorf("captured only %d requests", len(reqs))
	}
	// the liveness probe: a genuine noret request
	var probeReq requestf.RequestPacket
	for _, r := range reqs {
		if r.SFuncName == "noret" {
			probeReq = r
		}
	}
	probeReq.IRequestId = 77
	probeReq.Context = map[string]string{"vcall": "0"}
	probe := frame(encodeReq(&probeReq))
	// corpus: (description, body)
	var corpus []item
	for _, r := range reqs {
		args := make([]byte, len(r.SBuffer))
		for i, x := range r.SBuffer {
			args[i] = byte(x)
		}
		for _, ma := range mutateArgs(rng, args) {
			rq := r
			rq.SBuffer = make([]int8, len(ma))
			for i, x := range ma {
				rq.SBuffer[i] = int8(x)
			}
			for _, ver := range []int16{1, 1, 2, 3} {
				rq.IVersion = ver
				corpus = append(corpus, item{"hostile arguments for " + r.SFuncName + fmt.Sprintf(" v%d", ver), encodeReq(&rq)})
			}
		}
		pk := encodeReq(&r)
		for _, mp := range mutateArgs(rng, pk) {
			corpus = append(corpus, item{"mutated request packet (" + r.SFuncName + ")", mp})
		}
	}
	for i := 0; i < 300; i++ {
		g := make([]byte, rng.Intn(48))
		rng.Read(g)
		corpus = append(corpus, item{"random body", g})
	}
	rng.Shuffle(len(corpus), func(i, j int) { corpus[i], corpus[j] = corpus[j], corpus[i] })
	if len(corpus) > n {
		corpus = corpus[:n]
	}
	// every announced length in the arguments of every function, one more than it is, negative and huge: always all of them
	// (the sample above is cut to n; which length mutants survive the cut must not be left to the shuffle)
	seenFn := map[string]bool{}
	for _, r := range reqs {
		if seenFn[r.SFuncName] {
			continue
		}
		seenFn[r.SFuncName] = true
		args := make([]byte, len(r.SBuffer))
		for i, x := range r.SBuffer {
			args[i] = byte(x)
		}
		var lens []wire.LenPos
		if _, err := wire.Split(args, &lens); err != nil {
			continue
		}
		for _, lp := range lens {
			for _, nv := range []int64{int64(lp.N + 1), int64(lp.N + 2), -1, 1<<31 - 1} {
				var enc []byte
				switch lp.Kind {
				case "str1":
					if nv < 0 || nv > 255 {
						continue
					}
					enc = []byte{byte(nv)}
				case "str4":
					enc = []byte{byte(nv >> 24), byte(nv >> 16), byte(nv >> 8), byte(nv)}
				default:
					enc = wire.MkCount(nv)
				}
				ma := append(append(append([]byte(nil), args[:lp.Start]...), enc...), args[lp.End:]...)
				// with and without room for what the length promises
				for _, pad := range []int{0, 64} {
					rq := r
					b := append(append([]byte(nil), ma...), make([]byte, pad)...)
					rq.SBuffer = make([]int8, len(b))
					for i, x := range b {
						rq.SBuffer[i] = int8(x)
					}
					corpus = append(corpus, item{fmt.Sprintf("hostile arguments for %s v1 (every announced length)", r.SFuncName), encodeReq(&rq)})
				}
			}
		}
	}
	// well-formed packets whose header fields are what the server interprets before (and instead of) dispatching:
	// every field through its boundary values, the message-type bits against the status keys they switch on.
	// Always all of them: the class is small and each combination is a different path of Protocol.Invoke.
	corpus = append(corpus, fieldCorpus(reqs)...)
	w, err := tr.Create(out)
	if err != nil {
		return err
	}
	defer w.Close()
	total, deaths := 0, 0
	for _, proto := range []string{"tcp", "udp"} {
		var inputs []item
		if proto == "udp" {
			for l := 0; l <= 8; l++ { // datagrams of every length 0..8
				for k := 0; k < 3; k++ {
					g := make([]byte, l)
					rng.Read(g)
					if k == 0 && l >= 4 {
						binary.BigEndian.PutUint32(g, uint32(l))
					}
					inputs = append(inputs, item{fmt.Sprintf("datagram of %d bytes", l), g})
				}
			}
		} else {
			for _, hv := range []uint32{0, 1, 2, 3, 5, 0x7fffffff, 0xffffffff} { // length prefixes that are illegal or promise more than follows
				h := make([]byte, 4)
				binary.BigEndian.PutUint32(h, hv)
				inputs = append(inputs, item{fmt.Sprintf("raw length prefix %d", hv), h})
				inputs = append(inputs, item{fmt.Sprintf("raw length prefix %d", hv), append(append([]byte(nil), h...), 1, 2, 3)})
			}
			for l := 4; l <= 12; l++ { // frames of every small length
				g := make([]byte, l-4)
				rng.Read(g)
				inputs = append(inputs, item{fmt.Sprintf("frame of %d bytes", l), nil})
				inputs[len(inputs)-1].body = g
			}
		}
		for _, it := range corpus {
			inputs = append(inputs, it)
		}
		c, err := startChild(proto)
		if err != nil {
			return err
		}
		if !c.alive(probe) {
			c.stop()
			return fmt.Errorf("%s server child does not answer the probe: %s", proto, c.errb.String())
		}
		const batch = 25
		raw := func(it item) []byte {
			if strings.HasPrefix(it.desc, "datagram of") || strings.HasPrefix(it.desc, "raw length prefix") {
				return it.body
			}
			return frame(it.body)
		}
		for i := 0; i < len(inputs); i += batch {
			end := i + batch
			if end > len(inputs) {
				end = len(inputs)
			}
			for _, it := range inputs[i:end] {
				c.send(raw(it))
			}
			total += end - i
			if c.alive(probe) && !c.exitedWithin(0) {
				continue
			}
			// somebody killed the server: find out who, one at a time on fresh children.  The death may have been caused by
			// the batch before (a server on its way out still answered that batch's probe), so both are gone through.
			why := firstLine(c.errb.String())
			c.stop()
			from := i - 6*batch
			if from < 0 {
				from = 0
			}
			budget := 8
			for _, f := range findCulprits(proto, inputs[from:end], probe, raw, &budget) {
				deaths++
				w.Write(hostileRec{K: "net", Entry: proto + "-server", Desc: f.it.desc, BLen: len(f.it.body), Bytes: intsOf(raw(f.it)), Died: true, Why: f.why})
			}
			_ = why
			if c, err = startChild(proto); err != nil {
				return err
			}
		}
		if c.exitedWithin(1500*time.Millisecond) || !c.alive(probe) {
			c.stop()
			from := len(inputs) - 6*batch
			if from < 0 {
				from = 0
			}
			budget := 8
			for _, f := range findCulprits(proto, inputs[from:], probe, raw, &budget) {
				deaths++
				w.Write(hostileRec{K: "net", Entry: proto + "-server", Desc: f.it.desc, BLen: len(f.it.body), Bytes: intsOf(raw(f.it)), Died: true, Why: f.why})
			}
		} else {
			c.stop()
		}
		w.Write(hostileRec{K: "net-summary", Entry: proto + "-server", Desc: fmt.Sprintf("%d inputs", len(inputs)), BLen: len(inputs)})
	}
	ct, cd, err := hostileClientPhase(seed, rng, n, w)
	if err != nil {
		return err
	}
	fmt.Println(total+ct, deaths+cd)
	return nil
}

func intsOf(b []byte) []int {
	if len(b) > 400 {
		b = b[:400]
	}
	r := make([]int, len(b))
	for i, x := range b {
		r[i] = int(x)
	}
	return r
}

func firstLine(s string) string {
	for _, l := range strings.Split(s, "\n") {
		if strings.HasPrefix(l, "panic") || strings.HasPrefix(l, "fatal") || strings.Contains(l, "runtime error") {
			return l
		}
	}
	if i := strings.IndexByte(s, '\n'); i > 0 {
		return s[:i]
	}
	return s
}
