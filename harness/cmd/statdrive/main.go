// statdrive feeds sequences of call reports through the real aggregation step of tars/statf.go (StatFHelper.collectMsg, via
// the verif export VerifStatCollect) and records what comes out, for Oracle_StatAgg (spec/StatAgg).
//
//	statdrive -seed S -n N -out FILE
package main

import (
	"flag"
	"fmt"
	"math/rand"
	"os"
	"sort"

	"verifharness/internal/tr"

	"github.com/TarsCloud/TarsGo/tars"
	"github.com/TarsCloud/TarsGo/tars/protocol/res/statf"
)

var points = []int32{5, 10, 50, 100, 200, 500, 1000, 2000, 3000}

func head(h int) statf.StatMicMsgHead {
	return statf.StatMicMsgHead{MasterName: "m", SlaveName: "App.Srv", InterfaceName: fmt.Sprintf("f%d", h), MasterIp: "1.1.1.1",
		SlaveIp: "2.2.2.2", SlavePort: int32(10000 + h%2), ReturnValue: int32(h / 4)}
}

func main() {
	seed := flag.Int64("seed", 1, "seed")
	n := flag.Int("n", 2000, "sequences")
	out := flag.String("out", "stat.ndjson", "output file")
	flag.Parse()
	rng := rand.New(rand.NewSource(*seed))
	w, err := tr.Create(*out)
	if err != nil {
		fmt.Fprintln(os.Stderr, err)
		os.Exit(2)
	}
	var times []int64
	for _, p := range points {
		times = append(times, int64(p)-1, int64(p), int64(p)+1)
	}
	times = append(times, 0, 1, 7, 77, 777, 2500, 2999, 3000, 3001, 10000, 100000)
	for k := 0; k < *n; k++ {
		l := 1 + rng.Intn(12)
		nh := 1 + rng.Intn(5)
		var infos []tars.StatInfo
		var msgs [][]int64
		idx := map[statf.StatMicMsgHead]int{}
		for i := 0; i < l; i++ {
			h := 1 + rng.Intn(nh)
			t := times[rng.Intn(len(times))]
			if rng.Intn(4) == 0 {
				t = int64(rng.Intn(3500))
			}
			var c, to, ex int32
			switch rng.Intn(3) {
			case 0:
				c = 1
			case 1:
				to = 1
			default:
				ex = 1
			}
			hd := head(h)
			idx[hd] = h
			infos = append(infos, tars.StatInfo{Head: hd, Body: statf.StatMicMsgBody{Count: c, TimeoutCount: to, ExecCount: ex,
				TotalRspTime: t, MaxRspTime: int32(t), MinRspTime: int32(t)}})
			msgs = append(msgs, []int64{int64(h), int64(c), int64(to), int64(ex), t})
		}
		m, cnt := tars.VerifStatCollect(infos)
		var rows [][]int64
		for hd, b := range m {
			row := []int64{int64(idx[hd]), int64(b.Count), int64(b.TimeoutCount), int64(b.ExecCount), b.TotalRspTime,
				int64(b.MaxRspTime), int64(b.MinRspTime), int64(cnt[hd])}
			for _, p := range points {
				v, ok := b.IntervalCount[p]
				if !ok {
					v = -1 // a plot point that is missing from the histogram
				}
				row = append(row, int64(v))
			}
			if len(b.IntervalCount) != len(points) {
				row = append(row, int64(len(b.IntervalCount))) // extra keys: the row gets longer and matches nothing
			}
			rows = append(rows, row)
		}
		sort.Slice(rows, func(i, j int) bool { return rows[i][0] < rows[j][0] })
		w.Write(map[string]interface{}{"msgs": msgs, "out": rows})
	}
	if err := w.Close(); err != nil {
		fmt.Fprintln(os.Stderr, err)
		os.Exit(2)
	}
}
