// muxdrive drives the real TarsGo client call path (ServantProxy.TarsInvoke -> doInvoke -> AdapterProxy ->
// transport.TarsClient) against a scripted raw TCP peer and records traces for the ClientMux specification
// (checks C08 and C09).
//
//	muxdrive trace  -seed S -classes a,b -per N -maxk K -shard i/n -out FILE [-only IDX] [-list] [-filter KIND] [-stop-on-hung]
//	muxdrive idseq  -out FILE            sequential draws from the real id generator around the wrap points
//	muxdrive probe                        prints one line per environment capability (black-hole listener)
package main

import (
	"flag"
	"fmt"
	"os"

	"github.com/TarsCloud/TarsGo/tars/util/rogger"
)

func main() {
	if len(os.Args) < 2 {
		fmt.Fprintln(os.Stderr, "usage: muxdrive trace|idseq|probe [flags]")
		os.Exit(2)
	}
	if os.Getenv("VERIF_LOG") == "" {
		rogger.SetLevel(rogger.OFF)
	}
	var err error
	switch os.Args[1] {
	case "trace":
		fs := flag.NewFlagSet("trace", flag.ExitOnError)
		seed := fs.Int64("seed", 1, "seed")
		cls := fs.String("classes", "", "comma separated scenario classes (default: all)")
		per := fs.Int("per", 6, "scenarios per class")
		maxK := fs.Int("maxk", 32, "largest number of concurrent callers")
		shard := fs.String("shard", "0/1", "i/n: run the scenarios with index % n == i")
		out := fs.String("out", "mux.ndjson", "output file")
		only := fs.Int("only", -1, "run only the scenario with this index")
		list := fs.Bool("list", false, "print the scenario plan and exit")
		filter := fs.String("filter", "none", "client filters registered in this process: none|pre|post|prepost|legacy|mw (transparent), fpre|fpost|flegacy|fmw (not transparent: faultfilter.go)")
		stop := fs.Bool("stop-on-hung", false, "run no further scenario in this process once a call has not returned")
		fs.Parse(os.Args[2:])
		err = cmdTrace(*seed, *cls, *per, *maxK, *shard, *out, *only, *list, *filter, *stop)
	case "idseq":
		fs := flag.NewFlagSet("idseq", flag.ExitOnError)
		out := fs.String("out", "idseq.ndjson", "output file")
		fs.Parse(os.Args[2:])
		err = cmdIDSeq(*out)
	case "probe":
		err = cmdProbe()
	case "oneway": // oneway.go: one-way calls against reading / closing / refusing peers, counters at quiescence (C09)
		err = onewayCmd(os.Args[2:])
	case "adpclose": // adpclose.go: adapters closed while calls are outstanding on them (C08)
		err = cmdAdpClose(os.Args[2:])
	default:
		err = fmt.Errorf("unknown subcommand %s", os.Args[1])
	}
	if err != nil {
		fmt.Fprintln(os.Stderr, "muxdrive:", err)
		os.Exit(3)
	}
}
