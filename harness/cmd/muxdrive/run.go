package main

import (
	"context"
	"encoding/binary"
	"fmt"
	"net"
	"strings"
	"sync"
	"sync/atomic"
	"time"

	"github.com/TarsCloud/TarsGo/tars"
	"github.com/TarsCloud/TarsGo/tars/protocol/codec"
	"github.com/TarsCloud/TarsGo/tars/protocol/res/basef"
	"github.com/TarsCloud/TarsGo/tars/protocol/res/requestf"
	"github.com/TarsCloud/TarsGo/tars/util/current"
	"github.com/TarsCloud/TarsGo/tars/util/vhook"
	"verifharness/internal/tr"
)

// scenario: one proxy on a direct endpoint, K concurrent callers, one scripted peer.
type scenario struct {
	Idx       int
	Cls       string   // class of the peer behaviour (names the failing input class in signatures)
	K         int      // callers
	CfgTO     int      // configured timeout of the proxy, ms
	Modes     []string // per caller: cfg | call | ctx      (index 1..K)
	Eff       []int    // per caller: effective deadline, ms (index 1..K)
	Start     int32    // value the id counter is placed at
	Stagger   int      // ms between caller starts
	DialMs    int
	ReadMs    int    // ClientReadTimeout (0 is legal: no read deadline)
	WriteMs   int    // ClientWriteTimeout (0 is legal: no write deadline)
	Filter    string // client filters registered in this process
	QMax      int32
	Listen    string // peer | refuse | blackhole
	Sequel    int    // > 0: callers 1..Sequel run concurrently and caller c+Sequel is the same goroutine's next call
	NotifyGate bool  // the second call of each goroutine waits until the client has received the close notification
	HoldUnreg int    // ms every caller is held in the mux.unreg.begin hook (after it left its select, before the cleanup)
	Script    script
}

type scState struct {
	pushSeen chan struct{} // closed when a packet with request id 0 has reached AdapterProxy.Recv
	pushOnce sync.Once
	sc    *scenario
	rec   *recorder
	sp    *tars.ServantProxy
	port  string
	adps  sync.Map // *tars.AdapterProxy -> true
	open  int32    // receiver goroutines spawned and not yet finished
	nrecv int32    // packets received by the client
}

var (
	cur      atomic.Value // *scState (nil-able through a wrapper)
	hookOnce sync.Once
	hookHits sync.Map // point -> *int64
)

type curBox struct{ s *scState }

func current_() *scState {
	if b, ok := cur.Load().(curBox); ok {
		return b.s
	}
	return nil
}

func hit(point string) {
	v, _ := hookHits.LoadOrStore(point, new(int64))
	atomic.AddInt64(v.(*int64), 1)
}

func portOf(c net.Conn) string {
	if c == nil {
		return ""
	}
	defer func() { recover() }()
	a := c.RemoteAddr()
	if a == nil {
		return ""
	}
	s := a.String()
	return s[strings.LastIndex(s, ":")+1:]
}

func reqInfo(frameBytes []byte) (caller int, id int32, ok bool) {
	if len(frameBytes) < 4 {
		return 0, 0, false
	}
	var req requestf.RequestPacket
	if err := req.ReadFrom(codec.NewReader(frameBytes[4:])); err != nil {
		return 0, 0, false
	}
	c, _ := decodeTag(req.SBuffer)
	return c, req.IRequestId, true
}

// pktSerial identifies a packet received by the client: the serial the peer put into it.
func pktSerial(pkg []byte) (int, bool) {
	if len(pkg) >= 12 && string(pkg[4:8]) == "GARB" {
		return int(binary.BigEndian.Uint32(pkg[8:12])), true
	}
	var rsp requestf.ResponsePacket
	if err := rsp.ReadFrom(codec.NewReader(pkg[4:])); err != nil {
		return 0, false
	}
	_, q := decodeTag(rsp.SBuffer)
	return q, q > 0
}

func hook(point string, a ...interface{}) {
	st := current_()
	if st == nil {
		return
	}
	mid := func(id int32) int {
		m, ok := mapID(id)
		if !ok {
			st.rec.fail("hook %s: id %d outside the mapped regions", point, id)
		}
		return m
	}
	switch point {
	case "mux.reg.begin", "mux.registered", "mux.unreg.begin", "mux.unregistered":
		if a[0].(*tars.ServantProxy) != st.sp {
			return
		}
		hit(point)
		adp := a[1].(*tars.AdapterProxy)
		msg := a[2].(*tars.Message)
		c, _ := decodeTag(msg.Req.SBuffer)
		id := mid(msg.Req.IRequestId)
		switch point {
		case "mux.reg.begin":
			st.adps.Store(adp, true)
			st.rec.emit("RegBegin", "c", c, "id", id)
		case "mux.registered":
			st.rec.emit("Registered", "c", c, "id", id)
		case "mux.unreg.begin":
			k, p := "senderr", 0
			if msg.Status == basef.TARSINVOKETIMEOUT {
				k = "timeout"
			} else if msg.Resp != nil && len(msg.Resp.SBuffer) >= 6 {
				k = "reply"
				_, p = decodeTag(msg.Resp.SBuffer)
			}
			st.rec.emit("UnregBegin", "c", c, "id", id, "k", k, "p", p)
			if st.sc.HoldUnreg > 0 {
				time.Sleep(time.Duration(st.sc.HoldUnreg) * time.Millisecond)
			}
		case "mux.unregistered":
			st.rec.emit("Unregistered", "c", c, "id", id)
		}
	case "mux.recv.bad", "mux.recv.begin", "mux.recv.lookup", "mux.recv.delivered", "mux.recv.gaveup":
		if _, ok := st.adps.Load(a[0].(*tars.AdapterProxy)); !ok {
			return
		}
		hit(point)
		if point == "mux.recv.bad" {
			q, _ := pktSerial(a[1].([]byte))
			st.rec.emit("RecvBad", "q", q)
			atomic.AddInt32(&st.open, -1)
			return
		}
		pk := a[2].(*requestf.ResponsePacket)
		_, q := decodeTag(pk.SBuffer)
		switch point {
		case "mux.recv.begin":
			st.rec.emit("RecvBegin", "q", q, "id", mid(pk.IRequestId))
			if pk.IRequestId == 0 {
				st.pushOnce.Do(func() { close(st.pushSeen) })
				atomic.AddInt32(&st.open, -1)
			}
		case "mux.recv.lookup":
			found := a[3].(bool)
			st.rec.emit("RecvLookup", "q", q, "found", found)
			if !found {
				atomic.AddInt32(&st.open, -1)
			}
		case "mux.recv.delivered":
			st.rec.emit("RecvDelivered", "q", q)
			atomic.AddInt32(&st.open, -1)
		case "mux.recv.gaveup":
			st.rec.emit("RecvGaveUp", "q", q)
			atomic.AddInt32(&st.open, -1)
		}
	case "client.reconnect.dialed", "client.close":
		c, _ := a[1].(net.Conn)
		if portOf(c) != st.port {
			return
		}
		hit(point)
		lp := 0 // the connection's local port tells the connections of one run apart
		if c != nil {
			if la, ok := c.LocalAddr().(*net.TCPAddr); ok {
				lp = la.Port
			}
		}
		if point == "client.close" {
			st.rec.emit("ConnClosed", "lp", lp)
		} else {
			st.rec.emit("Dialed", "lp", lp)
		}
	case "client.send.dequeued", "client.send.writeError":
		c, _ := a[0].(net.Conn)
		if portOf(c) != st.port {
			return
		}
		hit(point)
		caller, id, ok := reqInfo(a[1].([]byte))
		if !ok {
			st.rec.fail("hook %s: request does not decode", point)
			return
		}
		if point == "client.send.dequeued" {
			retry := 0
			if r, ok := a[2].(uint8); ok {
				retry = int(r)
			}
			st.rec.emit("Dequeued", "c", caller, "id", mid(id), "retry", retry)
		} else {
			st.rec.emit("WriteErr", "c", caller, "id", mid(id))
		}
	case "client.recv.pkg":
		c, _ := a[0].(net.Conn)
		if portOf(c) != st.port {
			return
		}
		hit(point)
		q, ok := pktSerial(a[1].([]byte))
		if !ok {
			st.rec.fail("hook client.recv.pkg: packet carries no serial")
		}
		atomic.AddInt32(&st.open, 1)
		atomic.AddInt32(&st.nrecv, 1)
		st.rec.emit("NetRecv", "q", q)
	}
}

var comm *tars.Communicator

func runScenario(seed int64, sc *scenario) ([]tr.Ev, []string) {
	hookOnce.Do(func() {
		comm = tars.NewCommunicator()
		vhook.Set(hook)
	})
	rec := newRecorder()
	comm.Client.ClientDialTimeout = time.Duration(sc.DialMs) * time.Millisecond
	comm.Client.ClientReadTimeout = time.Duration(sc.ReadMs) * time.Millisecond
	comm.Client.ClientWriteTimeout = time.Duration(sc.WriteMs) * time.Millisecond
	comm.Client.ObjQueueMax = sc.QMax
	var p *peer
	var bh *blackhole
	port := 0
	switch sc.Listen {
	case "peer":
		var err error
		if p, err = startPeer(rec, &sc.Script); err != nil {
			return nil, []string{"cannot start the peer: " + err.Error()}
		}
		port = p.port
	case "refuse":
		ln, err := net.Listen("tcp", "127.0.0.1:0")
		if err != nil {
			return nil, []string{err.Error()}
		}
		port = ln.Addr().(*net.TCPAddr).Port
		ln.Close()
	case "blackhole":
		var err error
		if bh, err = newBlackhole(); err != nil {
			return nil, []string{"blackhole unavailable: " + err.Error()}
		}
		port = bh.port
	}
	obj := fmt.Sprintf("Mux.S%dx%d.Obj@tcp -h 127.0.0.1 -p %d -t 60000", seed, sc.Idx, port)
	sp := tars.NewServantProxy(comm, obj)
	sp.TarsSetTimeout(sc.CfgTO)
	st := &scState{sc: sc, rec: rec, sp: sp, port: fmt.Sprint(port), pushSeen: make(chan struct{})}
	tars.VerifSetMsgID(sc.Start)
	start, _ := mapID(sc.Start)
	rec.t0 = time.Now()
	rec.emit("Config", "sc", sc.Idx, "cls", sc.Cls, "k", sc.K, "to", sc.Eff[1:], "start", start, "dial", sc.DialMs, "rt", sc.ReadMs,
		"qmax", int(sc.QMax), "listen", sc.Listen, "stagger", sc.Stagger, "cfgto", sc.CfgTO, "modes", sc.Modes[1:], "wt", sc.WriteMs,
		"flt", sc.Filter, "hold", sc.HoldUnreg)
	cur.Store(curBox{st})
	var wg sync.WaitGroup
	returned := make([]int32, sc.K+1)
	first := sc.K
	if sc.Sequel > 0 {
		first = sc.Sequel
	}
	for c := 1; c <= first; c++ {
		wg.Add(1)
		if sc.Sequel > 0 {
			wg.Add(1)
		}
		var doCall func(c int)
		doCall = func(c int) {
			defer wg.Done()
			if sc.Sequel > 0 && c <= sc.Sequel {
				defer doCall(c + sc.Sequel)
			}
			if sc.NotifyGate && c > sc.Sequel {
				select {
				case <-st.pushSeen:
				case <-time.After(3 * time.Second):
					rec.fail("the close notification never reached the client")
				}
				time.Sleep(time.Duration([]int{2, 20, 100, 450, 700, 1200}[(c+sc.Idx)%6]) * time.Millisecond)
			}
			defer atomic.StoreInt32(&returned[c], 1)
			payload := make([]byte, 6)
			payload[0], payload[1] = byte(c>>8), byte(c)
			binary.BigEndian.PutUint32(payload[2:], uint32(sc.Idx))
			ctx := context.Background()
			var cancel context.CancelFunc
			rec.emit("CallStart", "c", c) // before the context is made: the recorded start is not later than the start of the deadline
			switch sc.Modes[c] {
			case "call":
				ctx = current.ContextWithClientCurrent(ctx)
				current.SetClientTimeout(ctx, sc.Eff[c])
			case "ctx":
				d := time.Duration(sc.Eff[c]) * time.Millisecond
				if sc.Eff[c] == 0 { // a deadline below the granularity of the configured timeouts
					d = 300 * time.Microsecond
				}
				ctx, cancel = context.WithTimeout(ctx, d)
				defer cancel()
			}
			var resp requestf.ResponsePacket
			t0 := time.Now()
			err := guardedInvoke(sp, ctx, payload, &resp) // sp.TarsInvoke (faultfilter.go)
			ms := int(time.Since(t0) / time.Millisecond)
			k, pq, rid, tag, cls := "reply", 0, 0, 0, ""
			fk, fa := fltVerdict(sc, c, err) // "filtered": the caller holds the outcome of a client filter that is not transparent
			switch {
			case fk != "":
				k = fk
			case err == nil:
				tag, pq = decodeTag(resp.SBuffer)
				rid, _ = mapID(resp.IRequestId)
			case strings.Contains(err.Error(), "request timeout"):
				k = "timeout"
			case strings.Contains(err.Error(), "invoke queue is full"):
				k = "full"
			default:
				k = "senderr"
				cls = errClass(err)
			}
			rec.emit("CallEnd", "c", c, "k", k, "p", pq, "rid", rid, "tag", tag, "ms", ms, "err", cls, "fa", fa)
		}
		go doCall(c)
		if sc.Stagger > 0 {
			time.Sleep(time.Duration(sc.Stagger) * time.Millisecond)
		}
	}
	// watchdog: a call that has not returned long after every bound is recorded as hung (the run is then over)
	maxEff := 0
	for _, e := range sc.Eff[1:] {
		if e > maxEff {
			maxEff = e
		}
	}
	allDone := make(chan struct{})
	go func() { wg.Wait(); close(allDone) }()
	select {
	case <-allDone:
	case <-time.After(time.Duration(maxEff+sc.K*(sc.DialMs+sc.Stagger)+3000) * time.Millisecond):
		for c := 1; c <= sc.K; c++ {
			if atomic.LoadInt32(&returned[c]) == 0 {
				rec.emit("Hung", "c", c)
			}
		}
		cur.Store(curBox{nil})
		evs := rec.rec.Close()
		if p != nil {
			p.stop()
		}
		if bh != nil {
			bh.close()
		}
		return annotate(evs), rec.bad
	}
	// quiescence: every scheduled answer written, every receiver goroutine finished, nothing more arriving
	if p != nil {
		done := make(chan struct{})
		go func() { p.work.Wait(); close(done) }()
		select {
		case <-done:
		case <-time.After(4 * time.Second):
			rec.fail("the peer did not finish its script")
		}
	}
	stable, last := 0, int32(-1)
	rounds := 300
	if sc.ReadMs == 0 {
		// with ClientReadTimeout = 0 a receiver that found its entry ends without a report (rtimer.After(0) panics inside
		// AdapterProxy.Recv and is recovered there): the counter of open receivers cannot be relied on
		rounds = 25
	}
	for i := 0; i < rounds && stable < 2; i++ {
		time.Sleep(12 * time.Millisecond)
		n := atomic.LoadInt32(&st.nrecv)
		if atomic.LoadInt32(&st.open) == 0 && n == last {
			stable++
		} else {
			stable = 0
		}
		last = n
	}
	if stable < 2 {
		// the hooks did not report the end of every receiver goroutine.  No receiver can be blocked longer than the read timeout:
		// if nothing has arrived for that long the run is quiescent all the same (what the receivers did is for the trace
		// validation to judge); only packets still arriving make the run unusable
		quiet := 0
		for i := 0; i < 100 && quiet < 3; i++ {
			n := atomic.LoadInt32(&st.nrecv)
			time.Sleep(time.Duration(sc.ReadMs+60) * time.Millisecond)
			if atomic.LoadInt32(&st.nrecv) == n {
				quiet++
			} else {
				quiet = 0
			}
		}
		if quiet < 3 {
			rec.fail("no quiescence: packets keep arriving")
		}
	}
	pend, tinv := 0, 0
	seen := map[*tars.AdapterProxy]bool{}
	st.adps.Range(func(k, _ interface{}) bool { seen[k.(*tars.AdapterProxy)] = true; return true })
	for _, a := range tars.VerifAdapters(sp) {
		seen[a] = true
	}
	for a := range seen {
		pend += len(tars.VerifPendingIDs(a))
		tinv += int(tars.VerifTransportInvokeNum(a))
	}
	rec.emit("Quiesce", "ql", int(tars.VerifQueueLen(sp)), "mgr", int(tars.VerifMgrInvokeNum(sp)), "pend", pend, "tinv", tinv,
		"adapters", len(seen))
	cur.Store(curBox{nil})
	evs := rec.rec.Close()
	if p != nil {
		p.stop()
	}
	if bh != nil {
		bh.close()
	}
	return annotate(evs), rec.bad
}

// annotate completes each RecvBegin{q} with the result its goroutine reported later (RecvLookup{q}.found): f = 1 found,
// 0 not found, 2 no lookup reported (push packet, run cut short).  The lookup itself is not an event; knowing its result
// when the window opens lets the trace specification place it without search.
func annotate(evs []tr.Ev) []tr.Ev {
	res := map[int]int{}
	for _, e := range evs {
		if e["e"] == "RecvLookup" {
			f := 0
			if e["found"].(bool) {
				f = 1
			}
			res[e["q"].(int)] = f
		}
	}
	for _, e := range evs {
		if e["e"] == "RecvBegin" {
			if f, ok := res[e["q"].(int)]; ok {
				e["f"] = f
			} else {
				e["f"] = 2
			}
		}
	}
	return evs
}

func errClass(err error) string {
	s := err.Error()
	switch {
	case strings.Contains(s, "connection refused"):
		return "refused"
	case strings.Contains(s, "i/o timeout"):
		return "dial-timeout"
	case strings.Contains(s, "no adapter"):
		return "no-adapter"
	case strings.Contains(s, "write timeout"):
		return "write-timeout"
	}
	if len(s) > 60 {
		s = s[:60]
	}
	return s
}
