package main

import (
	"encoding/binary"
	"fmt"
	"io"
	"net"
	"sort"
	"sync"
	"syscall"
	"time"

	"github.com/TarsCloud/TarsGo/tars/protocol/codec"
	"github.com/TarsCloud/TarsGo/tars/protocol/res/requestf"
	"verifharness/internal/tr"
)

// ---- ids: real int32 ids are mapped affinely, region by region, into the id space of the model (MaxId = modelMax)
const (
	modelMax    = 100000
	regionW     = 8192
	smallW      = 30000
	foreignBase = 0x20000000 // ids the peer invents; no scenario places the counter anywhere near
	foreignOff  = 50000
	maxInt32    = int32(1<<31 - 1)
	minInt32    = int32(-1 << 31)
)

func mapID(r int32) (int, bool) {
	switch {
	case r >= -smallW && r <= smallW:
		return int(r), true
	case r >= foreignBase && r < foreignBase+regionW:
		return foreignOff + int(r-foreignBase), true
	case r > maxInt32-regionW:
		return modelMax - int(maxInt32-r), true
	case r < minInt32+regionW:
		return -modelMax - 1 + int(r-minInt32), true
	}
	return 0, false
}

// ---- recorder with a scenario clock (ms since the scenario began), taken under the recorder's lock
type recorder struct {
	mu   sync.Mutex
	rec  *tr.Rec
	t0   time.Time
	bad  []string
	hits map[string]int
}

func newRecorder() *recorder {
	return &recorder{rec: tr.New(), t0: time.Now(), hits: map[string]int{}}
}

func (r *recorder) emit(e string, kv ...interface{}) {
	r.mu.Lock()
	t := int(time.Since(r.t0) / time.Millisecond)
	r.rec.Emit(e, append(kv, "t", t)...)
	if journal != nil { // adpclose.go: every event written through at once
		journal(r, e, append(kv, "t", t))
	}
	r.mu.Unlock()
}

func (r *recorder) fail(format string, a ...interface{}) {
	r.mu.Lock()
	r.bad = append(r.bad, fmt.Sprintf(format, a...))
	r.mu.Unlock()
}

// ---- peer script
type reply struct {
	Delay int    `json:"d"` // ms after the request arrived (after the barrier opened, if there is one)
	Kind  string `json:"k"` // own | foreign | zero | garb | badframe | close | notify
}

type script struct {
	PerCaller map[int][]reply // what to do when the request of caller c arrives
	Barrier   int             // hold every answer until this many requests have arrived (0: none)
}

type peer struct {
	ln       net.Listener
	port     int
	rec      *recorder
	sc       *script
	mu       sync.Mutex // orders PeerSend events like the writes
	serial   int
	nreq     int
	barrier  chan struct{}
	conns    []net.Conn
	work     sync.WaitGroup // scheduled answers
	nforeign int32
}

func startPeer(rec *recorder, sc *script) (*peer, error) {
	ln, err := net.Listen("tcp", "127.0.0.1:0")
	if err != nil {
		return nil, err
	}
	p := &peer{ln: ln, port: ln.Addr().(*net.TCPAddr).Port, rec: rec, sc: sc, barrier: make(chan struct{})}
	if sc.Barrier == 0 {
		close(p.barrier)
	}
	go p.accept()
	return p, nil
}

func (p *peer) accept() {
	for {
		c, err := p.ln.Accept()
		if err != nil {
			return
		}
		p.mu.Lock()
		p.conns = append(p.conns, c)
		p.mu.Unlock()
		go p.serve(c)
	}
}

// serve reads length-prefixed request frames with the harness's own framing and answers per script.
func (p *peer) serve(c net.Conn) {
	hdr := make([]byte, 4)
	for {
		if _, err := io.ReadFull(c, hdr); err != nil {
			return
		}
		n := int(binary.BigEndian.Uint32(hdr))
		if n < 4 || n > 1<<24 {
			p.rec.fail("peer: bad request frame length %d", n)
			return
		}
		body := make([]byte, n-4)
		if _, err := io.ReadFull(c, body); err != nil {
			return
		}
		var req requestf.RequestPacket
		if err := req.ReadFrom(codec.NewReader(body)); err != nil {
			p.rec.fail("peer: request does not decode: %v", err)
			return
		}
		caller, _ := decodeTag(req.SBuffer)
		mid, ok := mapID(req.IRequestId)
		if !ok {
			p.rec.fail("peer: request id %d outside the mapped regions", req.IRequestId)
		}
		arrived := time.Now()
		p.rec.emit("PeerRecv", "c", caller, "id", mid)
		p.mu.Lock()
		p.nreq++
		if p.sc.Barrier > 0 && p.nreq == p.sc.Barrier {
			close(p.barrier)
		}
		p.mu.Unlock()
		rs := append([]reply(nil), p.sc.PerCaller[caller]...)
		sort.SliceStable(rs, func(i, j int) bool { return rs[i].Delay < rs[j].Delay })
		if len(rs) == 0 {
			continue
		}
		p.work.Add(1)
		go func(id int32) {
			defer p.work.Done()
			base := arrived
			if p.sc.Barrier > 0 {
				select {
				case <-p.barrier:
					base = time.Now()
				case <-time.After(3 * time.Second):
					return
				}
			}
			for _, r := range rs {
				if d := time.Until(base.Add(time.Duration(r.Delay) * time.Millisecond)); d > 0 {
					time.Sleep(d)
				}
				p.send(c, id, caller, r.Kind)
			}
		}(req.IRequestId)
	}
}

func decodeTag(b []int8) (caller int, serial int) {
	if len(b) >= 2 {
		caller = int(uint8(b[0]))<<8 | int(uint8(b[1]))
	}
	if len(b) >= 6 {
		serial = int(uint8(b[2]))<<24 | int(uint8(b[3]))<<16 | int(uint8(b[4]))<<8 | int(uint8(b[5]))
	}
	return
}

func encodeTag(caller, serial int) []int8 {
	return []int8{int8(caller >> 8), int8(caller), int8(serial >> 24), int8(serial >> 16), int8(serial >> 8), int8(serial)}
}

func frame(body []byte) []byte {
	out := make([]byte, 4+len(body))
	binary.BigEndian.PutUint32(out, uint32(len(out)))
	copy(out[4:], body)
	return out
}

// send writes one packet; the PeerSend event is recorded before the write, in write order.
func (p *peer) send(c net.Conn, reqID int32, caller int, kind string) {
	p.mu.Lock()
	defer p.mu.Unlock()
	switch kind {
	case "badframe":
		p.rec.emit("PeerClose", "why", "badframe")
		c.Write([]byte{0, 0, 0, 2})
		return
	case "close":
		p.rec.emit("PeerClose", "why", "close")
		c.Close()
		return
	}
	p.serial++
	q := p.serial
	if kind == "garb" {
		p.rec.emit("PeerSend", "q", q, "id", modelMax+1, "tag", 0, "kind", kind)
		b := make([]byte, 8)
		copy(b, "GARB")
		binary.BigEndian.PutUint32(b[4:], uint32(q))
		c.Write(frame(b))
		return
	}
	id, tag := reqID, caller
	desc := ""
	switch kind {
	case "notify": // the close notification a server sends before it shuts down: a push carrying the reconnect message
		id = 0
		tag = 0
		desc = "_reconnect_"
	case "zero":
		id = 0
		tag = 0
	case "foreign":
		id = foreignBase + p.nforeign%regionW
		p.nforeign++
		tag = 0
	}
	mid, _ := mapID(id)
	rsp := requestf.ResponsePacket{IVersion: 1, IRequestId: id, SBuffer: encodeTag(tag, q), Status: map[string]string{}, SResultDesc: desc}
	os := codec.NewBuffer()
	if err := rsp.WriteTo(os); err != nil {
		p.rec.fail("peer: cannot encode a response: %v", err)
		return
	}
	p.rec.emit("PeerSend", "q", q, "id", mid, "tag", tag, "kind", kind)
	c.Write(frame(os.ToBytes()))
}

func (p *peer) stop() {
	p.ln.Close()
	p.mu.Lock()
	for _, c := range p.conns {
		c.Close()
	}
	p.mu.Unlock()
}

// ---- a black-holed address: a listener with backlog 0 whose accept queue is filled, so further SYNs are dropped
type blackhole struct {
	fd      int
	port    int
	fillers []net.Conn
}

func newBlackhole() (*blackhole, error) {
	fd, err := syscall.Socket(syscall.AF_INET, syscall.SOCK_STREAM, 0)
	if err != nil {
		return nil, err
	}
	if err = syscall.Bind(fd, &syscall.SockaddrInet4{Port: 0, Addr: [4]byte{127, 0, 0, 1}}); err != nil {
		syscall.Close(fd)
		return nil, err
	}
	if err = syscall.Listen(fd, 0); err != nil {
		syscall.Close(fd)
		return nil, err
	}
	sa, err := syscall.Getsockname(fd)
	if err != nil {
		syscall.Close(fd)
		return nil, err
	}
	b := &blackhole{fd: fd, port: sa.(*syscall.SockaddrInet4).Port}
	// fill the accept queue: connections succeed until it is full, then time out
	for i := 0; i < 8; i++ {
		c, err := net.DialTimeout("tcp", fmt.Sprintf("127.0.0.1:%d", b.port), 150*time.Millisecond)
		if err != nil {
			return b, nil
		}
		b.fillers = append(b.fillers, c)
	}
	b.close()
	return nil, fmt.Errorf("the accept queue never filled up")
}

func (b *blackhole) close() {
	for _, c := range b.fillers {
		c.Close()
	}
	syscall.Close(b.fd)
}

func cmdProbe() error {
	b, err := newBlackhole()
	if err != nil {
		fmt.Println("blackhole: unavailable:", err)
		return nil
	}
	defer b.close()
	t0 := time.Now()
	_, err = net.DialTimeout("tcp", fmt.Sprintf("127.0.0.1:%d", b.port), 200*time.Millisecond)
	fmt.Printf("blackhole: ok fillers=%d dial-after=%v err=%v\n", len(b.fillers), time.Since(t0).Round(time.Millisecond), err)
	return nil
}
