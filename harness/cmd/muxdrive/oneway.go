package main

// oneway: one-way calls (no reply is awaited) through the real proxy against peers that read, refuse, close at once or
// are black-holed; sequential and concurrent, mixed with two-way calls.  A one-way call takes the path of every other call
// up to the send; what it holds afterwards is judged like theirs (Oracle_OneWay): every call returned in time, and at
// quiescence queueLen, the manager's invokeNum and the pending-reply table are back where they were.

import (
	"context"
	"flag"
	"fmt"
	"net"
	"sync"
	"time"

	"verifharness/internal/tr"

	"github.com/TarsCloud/TarsGo/tars"
	"github.com/TarsCloud/TarsGo/tars/protocol/res/basef"
	"github.com/TarsCloud/TarsGo/tars/protocol/res/requestf"
)

type owRec struct {
	K       string  `json:"k"`
	Peer    string  `json:"peer"`
	Mode    string  `json:"mode"`
	Calls   int     `json:"calls"`
	OneWay  int     `json:"oneway"`
	Errs    int     `json:"errs"`
	MaxMs   int64   `json:"maxms"`
	BoundMs int64   `json:"boundms"`
	Before  []int32 `json:"before"` // queueLen, manager invokeNum, pending-reply entries
	After   []int32 `json:"after"`
}

func counters(sp *tars.ServantProxy) []int32 {
	p := 0
	for _, a := range tars.VerifAdapters(sp) {
		p += len(tars.VerifPendingIDs(a))
	}
	return []int32{tars.VerifQueueLen(sp), tars.VerifMgrInvokeNum(sp), int32(p)}
}

func onewayCmd(args []string) error {
	fs := flag.NewFlagSet("oneway", flag.ExitOnError)
	out := fs.String("out", "oneway.ndjson", "output file")
	n := fs.Int("n", 12, "calls per run")
	fs.Parse(args)
	w, err := tr.Create(*out)
	if err != nil {
		return err
	}
	// peers
	reader, _ := net.Listen("tcp", "127.0.0.1:0") // reads and never answers
	go func() {
		for {
			c, err := reader.Accept()
			if err != nil {
				return
			}
			go func(c net.Conn) {
				buf := make([]byte, 4096)
				for {
					if _, err := c.Read(buf); err != nil {
						c.Close()
						return
					}
				}
			}(c)
		}
	}()
	closer, _ := net.Listen("tcp", "127.0.0.1:0") // accepts and closes at once
	go func() {
		for {
			c, err := closer.Accept()
			if err != nil {
				return
			}
			c.Close()
		}
	}()
	dead, _ := net.Listen("tcp", "127.0.0.1:0") // refuses: the port is closed again
	deadPort := dead.Addr().(*net.TCPAddr).Port
	dead.Close()
	peers := []struct {
		name string
		port int
	}{{"reads", reader.Addr().(*net.TCPAddr).Port}, {"closes", closer.Addr().(*net.TCPAddr).Port}, {"refuses", deadPort}}
	const timeoutMs, dialMs = 150, 1000
	comm := tars.NewCommunicator()
	for _, p := range peers {
		for _, mode := range []string{"oneway-serial", "oneway-concurrent", "mixed-concurrent"} {
			sp := tars.NewServantProxy(comm, fmt.Sprintf("Mux.Ow%s%s.Obj@tcp -h 127.0.0.1 -p %d -t %d", p.name, mode[:1]+mode[7:8], p.port, dialMs))
			sp.TarsSetTimeout(timeoutMs)
			rec := owRec{K: "oneway", Peer: p.name, Mode: mode, BoundMs: timeoutMs + dialMs + 500}
			rec.Before = counters(sp)
			var mu sync.Mutex
			call := func(ow bool) {
				var resp requestf.ResponsePacket
				ct := byte(basef.TARSNORMAL)
				if ow {
					ct = byte(basef.TARSONEWAY)
				}
				t0 := time.Now()
				err := sp.TarsInvoke(context.Background(), ct, "echo", []byte{1, 2, 3}, nil, nil, &resp)
				ms := time.Since(t0).Milliseconds()
				mu.Lock()
				rec.Calls++
				if ow {
					rec.OneWay++
				}
				if err != nil {
					rec.Errs++
				}
				if ms > rec.MaxMs {
					rec.MaxMs = ms
				}
				mu.Unlock()
			}
			var wg sync.WaitGroup
			for i := 0; i < *n; i++ {
				ow := mode != "mixed-concurrent" || i%2 == 0
				if mode == "oneway-serial" {
					call(ow)
					continue
				}
				wg.Add(1)
				go func(ow bool) { defer wg.Done(); call(ow) }(ow)
			}
			wg.Wait()
			// quiescence: the counters are read until they stop moving (a sender may still be handing a request back)
			var last []int32
			for i := 0; i < 40; i++ {
				cur := counters(sp)
				if last != nil && fmt.Sprint(cur) == fmt.Sprint(last) && i >= 4 {
					break
				}
				last = cur
				time.Sleep(25 * time.Millisecond)
			}
			rec.After = counters(sp)
			w.Write(rec)
		}
	}
	return w.Close()
}
