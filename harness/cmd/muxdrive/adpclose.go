package main

// Class "adapter closed while calls are outstanding on it" (C08).
//
//	muxdrive adpclose -seed S -per N -maxk K -shard i/n -out FILE [-only IDX] [-from IDX] [-classes a,b] [-list]
//
// AdapterProxy.Close has one caller in the framework: endpointManager.refreshEndpoints, which closes the adapter of every
// endpoint a registry refresh lists neither as active nor as inactive (the key of an endpoint contains its timeout, so an
// endpoint listed again with another timeout is a withdrawn endpoint plus a new one).  The scenarios here use a proxy that is
// fed by a scripted registry (the manager's own refresher carries the refresh out: globalManager.updateEndpoints -> doFresh ->
// refreshEndpoints) and one scripted peer that listens on every loopback address, so that 127.0.0.1 / .2 / .3 on its port are
// three endpoints; the peer answers on the connection a request arrived on and numbers its packets across all connections.
//
//	adpclose-drop      registry {A,B} -> {B}: A's adapter is closed while the calls of the first wave wait on A and B
//	adpclose-swap      registry {A} -> {B}: every outstanding call waits on the adapter that is closed
//	adpclose-readd     {A,B} -> {B} -> {A,B}: the second wave meets a new adapter for A while first-wave calls still wait on the old one
//	adpclose-rekey     {A,B} -> {A',B} with A' = A under another timeout: A's adapter is closed, the next call to A creates a new one
//	adpclose-inactive  {A,B} -> active {B}, inactive {A}: the sibling path that keeps the adapter (nothing is closed; calls on A are answered)
//	adpclose-midwave   {A,B} -> {B} while the callers of the (staggered) first wave are still starting: some have selected A and
//	                   not yet sent, some are registered, some wait
//	adpclose-export    direct endpoint; every adapter of the proxy is closed through the test-only export (the path of the seeded
//	                   demonstrations: the adapter stays in the manager's list, the second wave reconnects on the closed adapter)
//
// First wave: callers 1..K1, started together; answers are scripted around the moment of the close (before it, racing with it,
// after it -- on A those are written to a dead connection --, twice, never).  The close is triggered when the peer has received
// the requests of the wave (midwave: half of them) plus a few ms.  Second wave: callers K1+1..K start when the refresh has been
// carried out, while first-wave callers still wait; all of them are answered.
// Every caller must end with the answer to its own request or with a timeout (an error once a connection of the run has been
// closed is accepted as observed), and the process must live: every event is written through to a journal at once, so that the
// events of a run that ended with the process are there for TLC to judge (the check appends ProcExit).

import (
	"bufio"
	"context"
	"encoding/binary"
	"encoding/json"
	"flag"
	"fmt"
	"math/rand"
	"net"
	"os"
	"strings"
	"sync"
	"sync/atomic"
	"time"

	"github.com/TarsCloud/TarsGo/tars"
	"github.com/TarsCloud/TarsGo/tars/protocol/res/endpointf"
	"github.com/TarsCloud/TarsGo/tars/protocol/res/requestf"
	"github.com/TarsCloud/TarsGo/tars/registry"
	"github.com/TarsCloud/TarsGo/tars/util/current"
	"github.com/TarsCloud/TarsGo/tars/util/endpoint"
	"github.com/TarsCloud/TarsGo/tars/util/vhook"
	"verifharness/internal/tr"
)

var adpClasses = []string{"adpclose-drop", "adpclose-export", "adpclose-swap", "adpclose-readd", "adpclose-rekey", "adpclose-midwave",
	"adpclose-inactive"}

// journal, when set, receives every recorded event at once (recorder.emit calls it under the recorder's lock).
var journal func(r *recorder, e string, kv []interface{})

// journalOf: the recorder of the scenario under way (goroutines left behind by an earlier scenario report to theirs)
var journalOf atomic.Value

type adpScenario struct {
	scenario
	K1      int // callers of the first wave
	Gap     int // ms between the trigger (requests arrived) and the close
	Trigger int // number of requests the peer must have received before the close is set off
	Gap2    int // ms between the refresh and the start of the second wave
	Steps   []adpStep
}

// adpStep: one registry refresh (or the export close).  Endpoints are named a, b, c; a trailing ' means "under another timeout".
type adpStep struct {
	Active   []string `json:"active"`
	Inactive []string `json:"inactive"`
	Export   bool     `json:"export"`
}

func adpPlan(seed int64, per, maxK int) []*adpScenario {
	var out []*adpScenario
	n := per * len(adpClasses)
	for idx := 0; idx < n; idx++ {
		r := rand.New(rand.NewSource(seed*1000003 + int64(idx)*104729 + 71))
		a := &adpScenario{}
		sc := &a.scenario
		sc.Idx, sc.Cls, sc.Listen = idx, adpClasses[idx%len(adpClasses)], "peer"
		sc.DialMs, sc.ReadMs, sc.WriteMs, sc.QMax = 300, pickInt(r, 40, 60, 100), 3000, 100000
		sc.CfgTO = pickInt(r, 200, 250, 300)
		a.K1 = pickInt(r, 1, 2, 3, 4, 6, 8, 12)
		if a.K1 > maxK/2 {
			a.K1 = maxK / 2
		}
		if a.K1 < 2 && sc.Cls != "adpclose-swap" && sc.Cls != "adpclose-export" {
			a.K1 = 2 // one caller per endpoint
		}
		k2 := pickInt(r, 1, 2, 4)
		sc.K = a.K1 + k2
		sc.Sequel = 0
		a.Gap = pickInt(r, 0, 1, 3, 8, 20)
		a.Gap2 = pickInt(r, 0, 0, 5)
		a.Trigger = a.K1
		switch sc.Cls {
		case "adpclose-drop":
			a.Steps = []adpStep{{Active: []string{"a", "b"}}, {Active: []string{"b"}}}
		case "adpclose-swap":
			a.Steps = []adpStep{{Active: []string{"a"}}, {Active: []string{"b"}}}
		case "adpclose-readd":
			a.Steps = []adpStep{{Active: []string{"a", "b"}}, {Active: []string{"b"}}, {Active: []string{"a", "b"}}}
		case "adpclose-rekey":
			a.Steps = []adpStep{{Active: []string{"a", "b"}}, {Active: []string{"a'", "b"}}}
		case "adpclose-inactive":
			a.Steps = []adpStep{{Active: []string{"a", "b"}}, {Active: []string{"b"}, Inactive: []string{"a"}}}
		case "adpclose-midwave":
			a.Steps = []adpStep{{Active: []string{"a", "b"}}, {Active: []string{"b"}}}
			if a.K1 < 4 {
				a.K1 = 4
				sc.K = a.K1 + k2
			}
			sc.Stagger = pickInt(r, 1, 2)
			a.Trigger = a.K1 / 2
			a.Gap = 0
		case "adpclose-export":
			a.Steps = []adpStep{{Active: []string{"a"}}, {Export: true}}
		}
		sc.Modes = make([]string, sc.K+1)
		sc.Eff = make([]int, sc.K+1)
		for c := 1; c <= sc.K; c++ {
			switch r.Intn(4) {
			case 0, 1:
				sc.Modes[c], sc.Eff[c] = "cfg", sc.CfgTO
			case 2:
				sc.Modes[c], sc.Eff[c] = "call", 150+r.Intn(201)
			default:
				sc.Modes[c], sc.Eff[c] = "ctx", sc.CfgTO+60
			}
		}
		switch r.Intn(10) {
		case 0, 1, 2:
			sc.Start = maxInt32 - int32(r.Intn(sc.K+2))
		case 3, 4:
			sc.Start = -1 - int32(r.Intn(sc.K+2))
		default:
			sc.Start = int32(1000 + r.Intn(19000))
		}
		sc.Script = script{PerCaller: map[int][]reply{}, Barrier: 1 << 30} // opened by the runner when the close is set off
		for c := 1; c <= sc.K; c++ {
			var rs []reply
			if c <= a.K1 {
				// around the close: the answers of the first wave are held until the close is set off (the peer has received the
				// requests); the close comes Gap ms + the time the refresher needs (its ticker: 3 ms) after that
				m := r.Intn(8)
				if c == 1 { // the first two callers (one per endpoint when there are two) are outstanding at the close: never answered ...
					m = 5
				} else if c == 2 && m < 6 { // ... answered after it
					m = 6
				}
				switch m {
				case 0: // answered at once (before the close when Gap is long, racing with it when it is short)
					rs = []reply{{0, "own"}}
				case 1, 2: // racing with the close
					rs = []reply{{a.Gap + r.Intn(8), "own"}}
				case 3: // twice: before and after
					rs = []reply{{0, "own"}, {a.Gap + 40 + r.Intn(20), "own"}}
				case 4: // racing, twice at once
					rs = []reply{{a.Gap + r.Intn(8), "own"}, {a.Gap + r.Intn(8), "own"}}
				case 5: // never answered
				default: // after the close, before the deadline
					rs = []reply{{a.Gap + 40 + r.Intn(60), "own"}}
				}
			} else {
				rs = []reply{{r.Intn(12), "own"}}
				if r.Intn(4) == 0 {
					rs = append(rs, reply{r.Intn(12), "own"})
				}
			}
			sc.Script.PerCaller[c] = rs
		}
		out = append(out, a)
	}
	return out
}

// ---- scripted registry: the first query (the manager's initial refresh) is answered at once, every later one -- they come from
// the manager's refresh ticker -- waits until the scenario grants a tick
type adpRegistry struct {
	mu       sync.Mutex
	active   []endpointf.EndpointF
	inactive []endpointf.EndpointF
	tokens   int
	arrived  int
	served   int
	free     bool
}

var _ registry.Registrar = (*adpRegistry)(nil)

func (r *adpRegistry) Registry(context.Context, *registry.ServantInstance) error   { return nil }
func (r *adpRegistry) Deregister(context.Context, *registry.ServantInstance) error { return nil }
func (r *adpRegistry) QueryServant(context.Context, string) ([]registry.Endpoint, []registry.Endpoint, error) {
	r.mu.Lock()
	r.arrived++
	me := r.arrived
	for me > 1 && r.tokens == 0 && !r.free {
		r.mu.Unlock()
		time.Sleep(300 * time.Microsecond)
		r.mu.Lock()
	}
	if me > 1 && !r.free {
		r.tokens--
	}
	r.served = me
	act := append([]endpointf.EndpointF(nil), r.active...)
	ina := append([]endpointf.EndpointF(nil), r.inactive...)
	r.mu.Unlock()
	return act, ina, nil
}
func (r *adpRegistry) QueryServantBySet(ctx context.Context, id, _ string) ([]registry.Endpoint, []registry.Endpoint, error) {
	return r.QueryServant(ctx, id)
}
func (r *adpRegistry) set(act, ina []endpointf.EndpointF) {
	r.mu.Lock()
	r.active, r.inactive = act, ina
	r.mu.Unlock()
}

// tick lets exactly one refresh through and returns when it has been carried out: the refresher is one goroutine, so the
// arrival of its next query (which waits at the gate) means the previous refresh has returned.
func (r *adpRegistry) tick() error {
	r.mu.Lock()
	r.tokens++
	r.mu.Unlock()
	deadline := time.Now().Add(10 * time.Second)
	for {
		r.mu.Lock()
		done := r.tokens == 0 && r.arrived > r.served
		r.mu.Unlock()
		if done {
			return nil
		}
		if time.Now().After(deadline) {
			return fmt.Errorf("the manager's refresher did not query the registry within 10 s")
		}
		time.Sleep(300 * time.Microsecond)
	}
}
func (r *adpRegistry) release() {
	r.mu.Lock()
	r.free = true
	r.mu.Unlock()
}

var adpHosts = map[byte]string{'a': "127.0.0.1", 'b': "127.0.0.2", 'c': "127.0.0.3"}

func adpEndpoints(names []string, port int) []endpointf.EndpointF {
	var out []endpointf.EndpointF
	for _, n := range names {
		to := int32(60000)
		if strings.HasSuffix(n, "'") {
			to = 59000
		}
		out = append(out, endpointf.EndpointF{Host: adpHosts[n[0]], Port: int32(port), Timeout: to, Istcp: endpoint.TCP})
	}
	return out
}

// adpStepsText: "a,b>b>a,b" (active lists; "/x" names the inactive list, "close" the export close)
func adpStepsText(steps []adpStep) string {
	var parts []string
	for _, s := range steps {
		t := strings.Join(s.Active, ",")
		if len(s.Inactive) > 0 {
			t += "/" + strings.Join(s.Inactive, ",")
		}
		if s.Export {
			t = "close"
		}
		parts = append(parts, t)
	}
	return strings.Join(parts, ">")
}

func adpKey(e endpointf.EndpointF) string { return endpoint.Tars2endpoint(e).Key }

func runAdpScenario(seed int64, a *adpScenario) ([]tr.Ev, []string) {
	sc := &a.scenario
	hookOnce.Do(func() {
		comm = tars.NewCommunicator()
		vhook.Set(hook)
	})
	rec := newRecorder()
	journalOf.Store(rec)
	comm.Client.ClientDialTimeout = time.Duration(sc.DialMs) * time.Millisecond
	comm.Client.ClientReadTimeout = time.Duration(sc.ReadMs) * time.Millisecond
	comm.Client.ClientWriteTimeout = time.Duration(sc.WriteMs) * time.Millisecond
	comm.Client.ObjQueueMax = sc.QMax
	ln, err := net.Listen("tcp4", "0.0.0.0:0")
	if err != nil {
		return nil, []string{"cannot start the peer: " + err.Error()}
	}
	// the peer's barrier is opened by hand at the trigger: the delays of the first wave's answers count from there
	p := &peer{ln: ln, port: ln.Addr().(*net.TCPAddr).Port, rec: rec, sc: &sc.Script, barrier: make(chan struct{})}
	go p.accept()
	defer p.stop()
	export := a.Steps[len(a.Steps)-1].Export
	var reg *adpRegistry
	var sp *tars.ServantProxy
	if export {
		sp = tars.NewServantProxy(comm, fmt.Sprintf("Mux.AdpD%dx%d.Obj@tcp -h 127.0.0.1 -p %d -t 60000", seed, sc.Idx, p.port))
	} else {
		reg = &adpRegistry{}
		reg.set(adpEndpoints(a.Steps[0].Active, p.port), adpEndpoints(a.Steps[0].Inactive, p.port))
		defer reg.release()
		c2 := tars.NewCommunicator(tars.Registrar(reg))
		sp = tars.NewServantProxy(c2, fmt.Sprintf("Mux.AdpR%dx%d.Obj", seed, sc.Idx))
	}
	sp.TarsSetTimeout(sc.CfgTO)
	st := &scState{sc: sc, rec: rec, sp: sp, port: fmt.Sprint(p.port), pushSeen: make(chan struct{})}
	tars.VerifSetMsgID(sc.Start)
	start, _ := mapID(sc.Start)
	rec.t0 = time.Now()
	rec.emit("Config", "sc", sc.Idx, "cls", sc.Cls, "k", sc.K, "to", sc.Eff[1:], "start", start, "dial", sc.DialMs, "rt", sc.ReadMs,
		"qmax", int(sc.QMax), "listen", sc.Listen, "stagger", sc.Stagger, "cfgto", sc.CfgTO, "modes", sc.Modes[1:], "wt", sc.WriteMs,
		"flt", "none", "hold", 0, "k1", a.K1, "gap", a.Gap, "steps", adpStepsText(a.Steps))
	cur.Store(curBox{st})
	defer cur.Store(curBox{nil})
	var wg sync.WaitGroup
	returned := make([]int32, sc.K+1)
	doCall := func(c int) {
		defer wg.Done()
		defer atomic.StoreInt32(&returned[c], 1)
		payload := make([]byte, 6)
		payload[0], payload[1] = byte(c>>8), byte(c)
		binary.BigEndian.PutUint32(payload[2:], uint32(sc.Idx))
		ctx := context.Background()
		var cancel context.CancelFunc
		rec.emit("CallStart", "c", c)
		switch sc.Modes[c] {
		case "call":
			ctx = current.ContextWithClientCurrent(ctx)
			current.SetClientTimeout(ctx, sc.Eff[c])
		case "ctx":
			ctx, cancel = context.WithTimeout(ctx, time.Duration(sc.Eff[c])*time.Millisecond)
			defer cancel()
		}
		var resp requestf.ResponsePacket
		t0 := time.Now()
		err := sp.TarsInvoke(ctx, 0, "echo", payload, nil, nil, &resp)
		ms := int(time.Since(t0) / time.Millisecond)
		k, pq, rid, tag, cls := "reply", 0, 0, 0, ""
		switch {
		case err == nil:
			tag, pq = decodeTag(resp.SBuffer)
			rid, _ = mapID(resp.IRequestId)
		case strings.Contains(err.Error(), "request timeout"):
			k = "timeout"
		case strings.Contains(err.Error(), "invoke queue is full"):
			k = "full"
		default:
			k = "senderr"
			cls = errClass(err)
		}
		rec.emit("CallEnd", "c", c, "k", k, "p", pq, "rid", rid, "tag", tag, "ms", ms, "err", cls)
	}
	for c := 1; c <= a.K1; c++ {
		wg.Add(1)
		go doCall(c)
		if sc.Stagger > 0 {
			time.Sleep(time.Duration(sc.Stagger) * time.Millisecond)
		}
	}
	// the trigger: the peer has received that many requests (or 600 ms have passed: a request may never arrive)
	for t0 := time.Now(); time.Since(t0) < 600*time.Millisecond; time.Sleep(200 * time.Microsecond) {
		p.mu.Lock()
		n := p.nreq
		p.mu.Unlock()
		if n >= a.Trigger {
			break
		}
	}
	close(p.barrier)
	if a.Gap > 0 {
		time.Sleep(time.Duration(a.Gap) * time.Millisecond)
	}
	pendOn := func(keys map[string]bool) (pend, adapters int) {
		for _, adp := range tars.VerifAdapters(sp) {
			if keys == nil || keys[adpKey(*adp.GetPoint())] {
				adapters++
				pend += len(tars.VerifPendingIDs(adp))
			}
		}
		return
	}
	listed := map[string]bool{}
	for _, e := range adpEndpoints(a.Steps[0].Active, p.port) {
		listed[adpKey(e)] = true
	}
	for i, step := range a.Steps[1:] {
		if step.Export {
			pend, n := pendOn(nil)
			rec.emit("AdpClose", "step", i+1, "how", "export", "adapters", n, "pend", pend)
			tars.VerifFailoverClose(sp)
			rec.emit("AdpClosed", "step", i+1)
			continue
		}
		act, ina := adpEndpoints(step.Active, p.port), adpEndpoints(step.Inactive, p.port)
		keep := map[string]bool{}
		for _, e := range append(append([]endpointf.EndpointF(nil), act...), ina...) {
			keep[adpKey(e)] = true
		}
		drop := map[string]bool{}
		for k := range listed {
			if !keep[k] {
				drop[k] = true
			}
		}
		pend, n := pendOn(drop)
		rec.emit("Refresh", "step", i+1, "active", strings.Join(step.Active, ","), "inactive", strings.Join(step.Inactive, ","), "withdrawn", len(drop), "adapters", n, "pend", pend)
		reg.set(act, ina)
		if err := reg.tick(); err != nil {
			rec.fail("%v", err)
		}
		rec.emit("Refreshed", "step", i+1, "known", len(tars.VerifAdapters(sp)))
		listed = map[string]bool{}
		for _, e := range act {
			listed[adpKey(e)] = true
		}
		for _, e := range ina {
			listed[adpKey(e)] = true
		}
		if i+2 < len(a.Steps) {
			time.Sleep(time.Duration(2+a.Gap2) * time.Millisecond)
		}
	}
	if a.Gap2 > 0 {
		time.Sleep(time.Duration(a.Gap2) * time.Millisecond)
	}
	for c := a.K1 + 1; c <= sc.K; c++ {
		wg.Add(1)
		go doCall(c)
	}
	maxEff := 0
	for _, e := range sc.Eff[1:] {
		if e > maxEff {
			maxEff = e
		}
	}
	allDone := make(chan struct{})
	go func() { wg.Wait(); close(allDone) }()
	select {
	case <-allDone:
	case <-time.After(time.Duration(maxEff+sc.K*(sc.DialMs+sc.Stagger)+3000) * time.Millisecond):
		for c := 1; c <= sc.K; c++ {
			if atomic.LoadInt32(&returned[c]) == 0 {
				rec.emit("Hung", "c", c)
			}
		}
		return annotate(rec.rec.Close()), rec.bad
	}
	done := make(chan struct{})
	go func() { p.work.Wait(); close(done) }()
	select {
	case <-done:
	case <-time.After(4 * time.Second):
		rec.fail("the peer did not finish its script")
	}
	stable, last := 0, int32(-1)
	for i := 0; i < 300 && stable < 2; i++ {
		time.Sleep(12 * time.Millisecond)
		n := atomic.LoadInt32(&st.nrecv)
		if atomic.LoadInt32(&st.open) == 0 && n == last {
			stable++
		} else {
			stable = 0
		}
		last = n
	}
	if stable < 2 {
		rec.fail("no quiescence: receiver goroutines still open")
	}
	pend, tinv := 0, 0
	seen := map[*tars.AdapterProxy]bool{}
	st.adps.Range(func(k, _ interface{}) bool { seen[k.(*tars.AdapterProxy)] = true; return true })
	for _, adp := range tars.VerifAdapters(sp) {
		seen[adp] = true
	}
	for adp := range seen {
		pend += len(tars.VerifPendingIDs(adp))
		tinv += int(tars.VerifTransportInvokeNum(adp))
	}
	rec.emit("Quiesce", "ql", int(tars.VerifQueueLen(sp)), "mgr", int(tars.VerifMgrInvokeNum(sp)), "pend", pend, "tinv", tinv,
		"adapters", len(seen))
	cur.Store(curBox{nil})
	evs := rec.rec.Close()
	tars.VerifFailoverClose(sp)
	return annotate(evs), rec.bad
}

func cmdAdpClose(args []string) error {
	fs := flag.NewFlagSet("adpclose", flag.ExitOnError)
	seed := fs.Int64("seed", 1, "seed")
	per := fs.Int("per", 2, "scenarios per class")
	maxK := fs.Int("maxk", 16, "largest number of callers of the first wave x 2")
	shard := fs.String("shard", "0/1", "i/n: run the scenarios with index % n == i")
	out := fs.String("out", "adp.ndjson", "output file (FILE.journal: the events of the scenario under way, written through)")
	only := fs.Int("only", -1, "run only the scenario with this index")
	from := fs.Int("from", 0, "skip the scenarios with a smaller index")
	list := fs.Bool("list", false, "print the scenario plan and exit")
	clsList := fs.String("classes", "", "run only the scenarios of these classes (comma separated; the plan is the same)")
	fs.Parse(args)
	var si, sn int
	if _, err := fmt.Sscanf(*shard, "%d/%d", &si, &sn); err != nil || sn <= 0 {
		return fmt.Errorf("bad -shard %q", *shard)
	}
	scs := adpPlan(*seed, *per, *maxK)
	if *list {
		for _, a := range scs {
			b, _ := json.Marshal(a)
			fmt.Println(string(b))
		}
		return nil
	}
	// the manager's refresher: a short ticker (every query after a manager's first waits at the scenario's gate); no status checker
	if !tars.VerifFailoverQuiesce() {
		return fmt.Errorf("the process-wide endpoint manager was started before it could be configured")
	}
	tars.GetClientConfig().RefreshEndpointInterval = 3
	of, err := os.Create(*out)
	if err != nil {
		return err
	}
	w := bufio.NewWriterSize(of, 1<<20)
	write := func(v interface{}) {
		b, _ := json.Marshal(v)
		w.Write(append(b, '\n'))
	}
	jf, err := os.OpenFile(*out+".journal", os.O_CREATE|os.O_TRUNC|os.O_WRONLY, 0o644)
	if err != nil {
		return err
	}
	journal = func(r *recorder, e string, kv []interface{}) {
		if cr, _ := journalOf.Load().(*recorder); cr != r {
			return
		}
		ev := tr.Ev{"e": e}
		for i := 0; i+1 < len(kv); i += 2 {
			ev[kv[i].(string)] = kv[i+1]
		}
		b, _ := json.Marshal(ev)
		jf.Write(append(b, '\n')) // one write per event, no buffer: what has been recorded survives the end of the process
	}
	nrun := 0
	for _, a := range scs {
		if (*only >= 0 && a.Idx != *only) || (*only < 0 && (a.Idx%sn != si || a.Idx < *from)) {
			continue
		}
		if *clsList != "" && !strings.Contains(","+*clsList+",", ","+a.Cls+",") {
			continue
		}
		jf.Truncate(0)
		jf.Seek(0, 0)
		evs, bad := runAdpScenario(*seed, a)
		for _, e := range evs {
			write(e)
		}
		if len(bad) > 0 {
			write(tr.Ev{"e": "HarnessError", "sc": a.Idx, "msgs": bad})
		}
		write(tr.Ev{"e": "End", "sc": a.Idx})
		if err := w.Flush(); err != nil { // a scenario that is over stays on file whatever happens to the process later
			return err
		}
		nrun++
	}
	journal = nil
	jf.Truncate(0)
	jf.Close()
	if err := of.Close(); err != nil {
		return err
	}
	hits := map[string]int64{}
	hookHits.Range(func(k, v interface{}) bool { hits[k.(string)] = atomic.LoadInt64(v.(*int64)); return true })
	b, _ := json.Marshal(map[string]interface{}{"scenarios": nrun, "hits": hits})
	fmt.Println(string(b))
	return nil
}
