package main

// Client filters that are NOT transparent (check C09): every branch of the filter if-chain of TarsInvoke
// (RegisterClientFilter / UseClientFilterMiddleware / RegisterPreClientFilter + RegisterPostClientFilter) is driven with user
// code that, per call, returns an error before the call, returns (nil or an error) without invoking at all, invokes and then
// returns an error of its own, or invokes once more with the same message.  (A filter that panics cannot be driven: TarsInvoke's
// deferred CheckPanic turns any panic below it into os.Exit(-1); no call of the process returns after that.)
// Registrations are process-wide, so each kind runs in a process of its own (-filter fpre|fpost|flegacy|fmw); what the stage
// does with a call is a pure function of the scenario and the caller, so that a re-run repeats it.

import (
	"context"
	"errors"
	"fmt"
	"sync"
	"sync/atomic"
	"time"

	"github.com/TarsCloud/TarsGo/tars"
	"github.com/TarsCloud/TarsGo/tars/protocol/res/requestf"
)

var (
	errFlt   = errors.New("vfilter: the stage's own outcome")
	fltKind  string
	fltNotes sync.Map // scenario<<20 | caller -> *fltNote
)

// what the stage did with one call
type fltNote struct {
	act     string
	invoked int32 // how often the stage invoked
	skipped int32 // 1: the stage returned nil without invoking
}

// actions per kind.  pre / post filters: their return value is for the framework to interpret (the statement says nothing about it);
// "invoke" uses the invoke function they are handed, so that doInvoke runs before / after the framework's own call.
var fltActs = map[string][]string{
	"fpre":    {"pass", "err", "invoke"},
	"fpost":   {"pass", "err", "invoke"},
	"flegacy": {"pass", "err-before", "skip", "err-after", "again", "swallow"},
	"fmw":     {"pass", "err-before", "skip", "err-after", "again", "swallow"},
}

func fltKey(sc *scenario, c int) int64 { return int64(sc.Idx)<<20 | int64(c) }

// fltActFor: the action of the stage for caller c of scenario sc (a pure function of the plan).
func fltActFor(kind string, sc *scenario, c int) string {
	acts := fltActs[kind]
	if len(acts) == 0 {
		return ""
	}
	salt := sc.CfgTO/50 + sc.ReadMs/20 // differs from seed to seed, so that the pairing of peer class and action does too
	return acts[(sc.Idx+c+salt)%len(acts)]
}

// fltLookup: the running scenario, the caller and the action for a message that belongs to the proxy under test (anything else --
// the framework's own reporting calls -- passes through untouched).
func fltLookup(msg *tars.Message) (*scState, int, *fltNote) {
	st := current_()
	if st == nil || msg == nil || msg.Req == nil || msg.Ser != st.sp {
		return nil, 0, nil
	}
	c, _ := decodeTag(msg.Req.SBuffer)
	if c < 1 || c > st.sc.K {
		return nil, 0, nil
	}
	n, _ := fltNotes.LoadOrStore(fltKey(st.sc, c), &fltNote{act: fltActFor(fltKind, st.sc, c)})
	return st, c, n.(*fltNote)
}

func countOnly(ctx context.Context, msg *tars.Message, invoke tars.Invoke, timeout time.Duration) error {
	atomic.AddInt64(&filterCalls, 1)
	return nil
}

// prePostStage: a pre or post client filter.
func prePostStage(kind string) tars.ClientFilter {
	return func(ctx context.Context, msg *tars.Message, invoke tars.Invoke, timeout time.Duration) error {
		atomic.AddInt64(&filterCalls, 1)
		st, _, n := fltLookup(msg)
		if st == nil {
			return nil
		}
		switch n.act {
		case "err":
			return fmt.Errorf("%w (%s filter objects)", errFlt, kind)
		case "invoke":
			// the message is handed back as it was found: the hooks of the harness tell how a pass through doInvoke ended by
			// looking at msg.Status / msg.Resp
			resp, status := msg.Resp, msg.Status
			msg.Resp, msg.Status = &requestf.ResponsePacket{}, 0
			atomic.AddInt32(&n.invoked, 1)
			err := invoke(ctx, msg, timeout)
			msg.Resp, msg.Status = resp, status
			return err
		}
		return nil
	}
}

// fullStage: a client filter / middleware that owns the call (next = the rest of the chain down to doInvoke).
func fullStage(kind string, n *fltNote, ctx context.Context, msg *tars.Message, next func() error) error {
	switch n.act {
	case "err-before":
		return fmt.Errorf("%w (%s rejects the request)", errFlt, kind)
	case "skip":
		atomic.StoreInt32(&n.skipped, 1)
		return nil
	case "err-after":
		atomic.AddInt32(&n.invoked, 1)
		_ = next()
		return fmt.Errorf("%w (%s overrides the outcome)", errFlt, kind)
	case "swallow": // invokes, and reports success to its caller whatever came of it
		atomic.AddInt32(&n.invoked, 1)
		_ = next()
		return nil
	case "again": // once more with the same message and the same context, whatever came of the first attempt; the caller gets the
		// outcome of the second (the message is reset in between: the hooks of the harness tell how a pass through doInvoke ended
		// by looking at msg.Status / msg.Resp)
		atomic.AddInt32(&n.invoked, 1)
		_ = next()
		msg.Resp, msg.Status = &requestf.ResponsePacket{}, 0
		atomic.AddInt32(&n.invoked, 1)
		return next()
	}
	atomic.AddInt32(&n.invoked, 1)
	return next()
}

func installFaultFilter(kind string) error {
	if _, ok := fltActs[kind]; !ok {
		return fmt.Errorf("unknown -filter %q", kind)
	}
	fltKind = kind
	switch kind {
	case "fpre": // the acting filter first: whatever it returns, the filters behind it and the call are the framework's business
		tars.RegisterPreClientFilter(prePostStage(kind))
		tars.RegisterPreClientFilter(countOnly)
		tars.RegisterPostClientFilter(countOnly)
	case "fpost":
		tars.RegisterPreClientFilter(countOnly)
		tars.RegisterPostClientFilter(prePostStage(kind))
		tars.RegisterPostClientFilter(countOnly)
	case "flegacy":
		tars.RegisterClientFilter(func(ctx context.Context, msg *tars.Message, invoke tars.Invoke, timeout time.Duration) error {
			atomic.AddInt64(&filterCalls, 1)
			st, _, n := fltLookup(msg)
			if st == nil {
				return invoke(ctx, msg, timeout)
			}
			return fullStage(kind, n, ctx, msg, func() error { return invoke(ctx, msg, timeout) })
		})
	case "fmw": // a chain of two: the outer one acts on even callers, the inner one on odd callers
		mw := func(pos int) tars.ClientFilterMiddleware {
			return func(next tars.ClientFilter) tars.ClientFilter {
				return func(ctx context.Context, msg *tars.Message, invoke tars.Invoke, timeout time.Duration) error {
					atomic.AddInt64(&filterCalls, 1)
					st, c, n := fltLookup(msg)
					if st == nil || c%2 != pos {
						return next(ctx, msg, invoke, timeout)
					}
					return fullStage(kind, n, ctx, msg, func() error { return next(ctx, msg, invoke, timeout) })
				}
			}
		}
		tars.UseClientFilterMiddleware(mw(0), mw(1))
	}
	return nil
}

// guardedInvoke: TarsInvoke as every caller of the harness makes it.
func guardedInvoke(sp *tars.ServantProxy, ctx context.Context, payload []byte, resp *requestf.ResponsePacket) error {
	return sp.TarsInvoke(ctx, 0, "echo", payload, nil, nil, resp)
}

// fltVerdict: how the call of caller c ended as far as the stage is concerned: k = "filtered" (the caller holds the stage's own
// outcome: its error, or nil although nothing was invoked), or "" (the caller holds what the framework made of the call);
// fa = what the stage did.
func fltVerdict(sc *scenario, c int, err error) (k, fa string) {
	if fltKind == "" {
		return "", ""
	}
	v, ok := fltNotes.Load(fltKey(sc, c))
	if !ok {
		return "", ""
	}
	n := v.(*fltNote)
	switch {
	case errors.Is(err, errFlt):
		return "filtered", n.act
	case err == nil && atomic.LoadInt32(&n.skipped) == 1 && atomic.LoadInt32(&n.invoked) == 0:
		return "filtered", n.act
	}
	return "", n.act
}
