package main

import (
	"context"
	"encoding/binary"
	"encoding/json"
	"io"
	"net"
	"time"

	"github.com/TarsCloud/TarsGo/tars/protocol/codec"
	"github.com/TarsCloud/TarsGo/tars/protocol/res/basef"
	"github.com/TarsCloud/TarsGo/tars/protocol/res/requestf"
	"fmt"
	"math/rand"
	"os"
	"sort"
	"strconv"
	"strings"
	"sync"
	"sync/atomic"

	"github.com/TarsCloud/TarsGo/tars"
	"verifharness/internal/tr"
)

var classes = []string{"inorder", "permuted", "dup", "foreign", "late", "never", "mixed", "close", "badframe", "garbage",
	"refuse", "blackhole1", "blackholeK", "queuefull", "dupburst", "giveup", "crowd", "sequel", "notify",
	"hol", "edge-read0", "edge-write0", "edge-dial1", "edge-qmax0", "edge-qmax1", "edge-subms"}

func pickInt(r *rand.Rand, xs ...int) int { return xs[r.Intn(len(xs))] }

// plan is a pure function of (seed, classes, per, maxK): scenario idx has class classes[idx % len(classes)].
func plan(seed int64, classes []string, per int, maxK int) []*scenario {
	n := per * len(classes)
	var ks []int
	for _, k := range []int{1, 2, 3, 5, 8, 16, 32, 32, 64, 128, 256, 512} {
		if k <= maxK {
			ks = append(ks, k)
		}
	}
	var out []*scenario
	for idx := 0; idx < n; idx++ {
		r := rand.New(rand.NewSource(seed*1000003 + int64(idx)*7919 + 17))
		sc := &scenario{Idx: idx, Cls: classes[idx%len(classes)], Listen: "peer", DialMs: 300, ReadMs: pickInt(r, 40, 60),
			QMax: 100000, CfgTO: pickInt(r, 50, 100, 200, 300), WriteMs: 3000}
		sc.K = ks[r.Intn(len(ks))]
		switch sc.Cls {
		case "never", "late":
			if sc.K > 16 {
				sc.K = 16
			}
		case "crowd": // as many callers as allowed, all in flight at once, answered in a random order, some twice
			sc.K = ks[len(ks)-1]
		case "dupburst":
			if sc.K < 8 {
				sc.K = 8
			}
		case "giveup": // the caller is held between leaving its select and deleting its entry; the answer arrives meanwhile
			sc.HoldUnreg = 45
			if sc.K > 8 {
				sc.K = 8
			}
		case "sequel": // callers 1..K/2 get every answer twice at once; each then makes a second call (caller c+K/2) straight away,
			// answered late: a receiver still holding the first call's channel must not reach the second call
			if sc.K < 2 {
				sc.K = 2
			}
			if sc.K > 32 {
				sc.K = 32
			}
			sc.K -= sc.K % 2
			sc.Sequel = sc.K / 2
			sc.ReadMs = 100 // the framework's default ClientReadTimeout
		case "notify": // callers 1..K/2 are answered, then the peer sends the close notification (reconnect push); once the client
			// has received it each caller makes a second call (caller c+K/2) after 0..1200 ms: before and after the old
			// connection is closed gracefully (500 ms tick); the peer answers everything on whatever connection it arrives
			if sc.K < 2 {
				sc.K = 2
			}
			if sc.K > 16 {
				sc.K = 16
			}
			sc.K -= sc.K % 2
			sc.Sequel = sc.K / 2
			sc.NotifyGate = true
			sc.CfgTO = 300
		case "hol": // head of the line: a read timeout longer than every deadline; the callers of group A (odd) are answered twice at
			// once, those of group B (even) once, right behind: a copy whose caller has just left must hold up nobody else's reply
			sc.ReadMs = pickInt(r, 600, 800)
			if sc.K < 4 {
				sc.K = 4
			}
			if sc.K > 16 {
				sc.K = 16
			}
			sc.CfgTO = pickInt(r, 300, 350, 400)
			sc.HoldUnreg = pickInt(r, 0, 15)
		case "edge-read0", "edge-write0", "edge-dial1", "edge-subms":
			// boundary configurations; in each the same goroutine makes a second call after its first one has returned:
			// edge-read0   ClientReadTimeout = 0 ("no read deadline")      edge-write0  ClientWriteTimeout = 0
			// edge-dial1   ClientDialTimeout = 1 ms                        edge-subms   deadlines below the 1 ms granularity
			if sc.K < 2 {
				sc.K = 2
			}
			if sc.K > 8 {
				sc.K = 8
			}
			sc.K -= sc.K % 2
			sc.Sequel = sc.K / 2
			sc.DialMs = 100
			sc.CfgTO = pickInt(r, 100, 200)
			switch sc.Cls {
			case "edge-read0":
				sc.ReadMs = 0
			case "edge-write0":
				sc.WriteMs = 0
			case "edge-dial1":
				sc.DialMs = 1
			}
		case "edge-qmax0", "edge-qmax1": // ObjQueueMax 0 / 1: staggered callers, some overlapping
			sc.K = pickInt(r, 3, 4, 6)
			sc.QMax = 0
			if sc.Cls == "edge-qmax1" {
				sc.QMax = 1
			}
			sc.Stagger = pickInt(r, 10, 25)
			sc.CfgTO = pickInt(r, 200, 300)
			sc.DialMs = 100
		case "refuse":
			sc.Listen = "refuse"
			sc.K = pickInt(r, 1, 4, 8)
		case "blackhole1":
			sc.Listen = "blackhole"
			sc.K = 1
			sc.DialMs = pickInt(r, 100, 150)
		case "blackholeK":
			sc.Listen = "blackhole"
			sc.K = pickInt(r, 4, 5, 6)
			sc.DialMs = 300
			sc.CfgTO = 100
			sc.Stagger = 3 // the first call creates the adapter, so that every caller meets the same connection lock
		case "queuefull":
			sc.K = 4
			sc.QMax = 1
			sc.Stagger = 25
			sc.CfgTO = pickInt(r, 200, 300)
		case "close", "badframe":
			sc.Stagger = pickInt(r, 0, 3)
			if sc.K < 2 {
				sc.K = 2
			}
		}
		sc.Modes = make([]string, sc.K+1)
		sc.Eff = make([]int, sc.K+1)
		for c := 1; c <= sc.K; c++ {
			switch m := r.Intn(5); {
			case sc.Cls == "hol": // every deadline at least 300 ms (the replies are written at once) and below the read timeout
				switch m {
				case 0, 1:
					sc.Modes[c], sc.Eff[c] = "cfg", sc.CfgTO
				case 2:
					sc.Modes[c], sc.Eff[c] = "call", 300+r.Intn(101)
				default:
					sc.Modes[c], sc.Eff[c] = "ctx", sc.CfgTO+50
				}
			case sc.Cls == "edge-subms" && c <= sc.Sequel: // Eff 0 stands for a context deadline of 300 microseconds
				switch c % 3 {
				case 0:
					sc.Modes[c], sc.Eff[c] = "ctx", 0
				case 1:
					sc.Modes[c], sc.Eff[c] = "call", 1
				default:
					sc.Modes[c], sc.Eff[c] = "ctx", 1
				}
			case sc.Cls == "queuefull" || sc.Cls == "edge-qmax0" || sc.Cls == "edge-qmax1" || m <= 1:
				sc.Modes[c], sc.Eff[c] = "cfg", sc.CfgTO
			case m == 2:
				sc.Modes[c], sc.Eff[c] = "call", 50+r.Intn(251)
			case m == 3: // context deadline shorter than the configured timeout
				sc.Modes[c], sc.Eff[c] = "ctx", maxi(30, sc.CfgTO/2)
			default: // ... and longer
				sc.Modes[c], sc.Eff[c] = "ctx", sc.CfgTO+80
			}
			if sc.Cls == "blackholeK" {
				sc.Modes[c], sc.Eff[c] = "ctx", 100
			}
		}
		switch r.Intn(10) {
		case 0, 1, 2, 3: // the counter passes the wrap point during the scenario
			sc.Start = maxInt32 - int32(r.Intn(sc.K+2))
		case 4, 5, 6: // ... passes zero
			sc.Start = -1 - int32(r.Intn(sc.K+2))
		default:
			sc.Start = int32(1000 + r.Intn(19000))
		}
		sc.Script = script{PerCaller: map[int][]reply{}}
		late := func(c int) int { return sc.Eff[c] + 40 }
		for c := 1; c <= sc.K; c++ {
			var rs []reply
			switch sc.Cls {
			case "inorder":
				rs = []reply{{0, "own"}}
			case "permuted":
				sc.Script.Barrier = sc.K
				rs = []reply{{r.Intn(9), "own"}}
			case "dupburst": // every answer three times, all at once: some receiver finds the entry but not the caller
				sc.Script.Barrier = sc.K
				rs = []reply{{0, "own"}, {0, "own"}, {0, "own"}}
			case "dup":
				rs = []reply{{0, "own"}, {r.Intn(4), "own"}}
				if r.Intn(2) == 0 {
					rs = append(rs, reply{late(c), "own"})
				}
			case "foreign":
				for _, k := range []string{"foreign", "zero", "garb"} {
					if r.Intn(2) == 0 {
						rs = append(rs, reply{r.Intn(5), k})
					}
				}
				if r.Intn(4) > 0 {
					rs = append(rs, reply{r.Intn(5), "own"})
				}
			case "crowd":
				sc.Script.Barrier = sc.K
				rs = []reply{{r.Intn(20), "own"}}
				if r.Intn(10) == 0 {
					rs = append(rs, reply{r.Intn(20), "own"})
				}
			case "giveup":
				rs = []reply{{sc.Eff[c] + 15, "own"}}
			case "notify":
				rs = []reply{{r.Intn(4), "own"}}
				if c == 1 {
					rs = append(rs, reply{8 + r.Intn(10), "notify"})
				}
			case "hol":
				sc.Script.Barrier = sc.K
				if c%2 == 1 {
					rs = []reply{{0, "own"}, {0, "own"}}
					if r.Intn(3) == 0 {
						rs = append(rs, reply{0, "own"})
					}
					if c == 1 && r.Intn(2) == 0 {
						rs = append([]reply{{0, pickStr(r, "foreign", "zero")}}, rs...)
					}
				} else {
					rs = []reply{{r.Intn(3), "own"}}
				}
			case "edge-read0", "edge-write0", "edge-dial1", "edge-subms":
				if c <= sc.Sequel {
					rs = []reply{{0, "own"}}
					if r.Intn(3) == 0 {
						rs = append(rs, reply{0, "own"})
					}
				} else {
					rs = []reply{{r.Intn(10), "own"}}
				}
			case "edge-qmax0", "edge-qmax1":
				if r.Intn(4) > 0 {
					rs = []reply{{pickInt(r, 0, 30, 60), "own"}}
				}
			case "sequel":
				if c <= sc.Sequel {
					rs = []reply{{0, "own"}, {0, "own"}}
					if r.Intn(3) == 0 {
						rs = append(rs, reply{0, "own"})
					}
				} else {
					rs = []reply{{15 + r.Intn(25), "own"}}
				}
			case "late":
				if r.Intn(2) == 0 {
					rs = []reply{{late(c), "own"}}
				} else {
					rs = []reply{{r.Intn(sc.Eff[c] / 2), "own"}}
				}
			case "never", "queuefull":
			case "garbage":
				if r.Intn(2) == 0 {
					rs = []reply{{0, "garb"}}
				} else {
					rs = []reply{{0, "garb"}, {2, "own"}}
				}
			case "mixed":
				switch r.Intn(7) {
				case 0:
				case 1:
					rs = []reply{{late(c), "own"}}
				case 2:
					rs = []reply{{0, "own"}, {1, "own"}, {late(c), "own"}}
				case 3:
					rs = []reply{{0, "foreign"}, {r.Intn(20), "own"}}
				case 4:
					rs = []reply{{0, "zero"}, {r.Intn(sc.Eff[c]), "own"}}
				default:
					rs = []reply{{r.Intn(10), "own"}}
				}
			case "close", "badframe":
				rs = []reply{{r.Intn(6), "own"}}
				if r.Intn(3) == 0 {
					rs = nil
				}
			}
			sc.Script.PerCaller[c] = rs
		}
		if sc.Cls == "close" || sc.Cls == "badframe" {
			k := "close"
			if sc.Cls == "badframe" {
				k = "badframe"
			}
			victim := 1 + r.Intn(sc.K)
			sc.Script.PerCaller[victim] = append(sc.Script.PerCaller[victim], reply{r.Intn(4), k})
		}
		out = append(out, sc)
	}
	return out
}

func pickStr(r *rand.Rand, xs ...string) string { return xs[r.Intn(len(xs))] }

func maxi(a, b int) int {
	if a > b {
		return a
	}
	return b
}

func cmdTrace(seed int64, clsList string, per, maxK int, shard, out string, only int, list bool, filter string, stopOnHung bool) error {
	var si, sn int
	if _, err := fmt.Sscanf(shard, "%d/%d", &si, &sn); err != nil || sn <= 0 {
		return fmt.Errorf("bad -shard %q", shard)
	}
	cl := classes
	if clsList != "" {
		cl = strings.Split(clsList, ",")
	}
	scs := plan(seed, cl, per, maxK)
	for _, sc := range scs {
		sc.Filter = filter
	}
	if !list {
		if err := installFilter(filter); err != nil {
			return err
		}
	}
	if list {
		for _, sc := range scs {
			b, _ := json.Marshal(sc)
			fmt.Println(string(b))
		}
		return nil
	}
	w, err := tr.Create(out)
	if err != nil {
		return err
	}
	nrun, skipped := 0, 0
	for _, sc := range scs {
		if only >= 0 && sc.Idx != only {
			continue
		}
		if only < 0 && sc.Idx%sn != si {
			continue
		}
		evs, bad := runScenario(seed, sc)
		for _, e := range evs {
			w.Write(e)
		}
		if len(bad) > 0 {
			w.Write(tr.Ev{"e": "HarnessError", "sc": sc.Idx, "msgs": bad})
		}
		w.Write(tr.Ev{"e": "End", "sc": sc.Idx})
		nrun++
		if stopOnHung && len(evs) > 0 && evs[len(evs)-1]["e"] == "Hung" {
			// a call that never returns leaves goroutines (and possibly process-wide locks) behind: what this process would show
			// from here on says nothing about the scenarios that follow
			skipped = len(scs)
			break
		}
	}
	if err := w.Close(); err != nil {
		return err
	}
	hits := map[string]int64{}
	hookHits.Range(func(k, v interface{}) bool { hits[k.(string)] = atomic.LoadInt64(v.(*int64)); return true })
	b, _ := json.Marshal(map[string]interface{}{"scenarios": nrun, "hits": hits, "filter": filter, "filter_calls": atomic.LoadInt64(&filterCalls),
		"stopped_after_hung": skipped > 0})
	fmt.Println(string(b))
	return nil
}

// cmdIDSeq records draws from the real id generator: sequential runs from start values around the wrap points
// and concurrent bursts across them.
func cmdIDSeq(out string) error {
	comm := tars.NewCommunicator()
	sp := tars.NewServantProxy(comm, "Mux.IdSeq.Obj@tcp -h 127.0.0.1 -p 1 -t 1000")
	w, err := tr.Create(out)
	if err != nil {
		return err
	}
	var starts []int32
	for d := int32(0); d <= 8; d++ {
		starts = append(starts, maxInt32-d, -1-d, minInt32+d, d)
	}
	starts = append(starts, 1000, 29000, -29000)
	for _, s := range starts {
		tars.VerifSetMsgID(s)
		ms, ok := mapID(s)
		ids := make([]int, 0, 12)
		for i := 0; i < 12; i++ {
			m, ok2 := mapID(tars.VerifGenRequestID(sp))
			ok = ok && ok2
			ids = append(ids, m)
		}
		w.Write(tr.Ev{"kind": "seq", "start": ms, "ids": ids, "mapped": ok})
	}
	// concurrent bursts across the wrap point and across zero
	for round := 0; round < 40; round++ {
		for _, s := range []int32{maxInt32 - int32(round%7), -2 - int32(round%5)} {
			tars.VerifSetMsgID(s)
			const G, N = 16, 8
			res := make([][]int, G)
			var wg sync.WaitGroup
			gate := make(chan struct{})
			for g := 0; g < G; g++ {
				wg.Add(1)
				go func(g int) {
					defer wg.Done()
					<-gate
					for i := 0; i < N; i++ {
						m, _ := mapID(tars.VerifGenRequestID(sp))
						res[g] = append(res[g], m)
					}
				}(g)
			}
			close(gate)
			wg.Wait()
			var all []int
			for _, r := range res {
				all = append(all, r...)
			}
			sort.Ints(all)
			ms, _ := mapID(s)
			w.Write(tr.Ev{"kind": "burst", "start": ms, "ids": all, "mapped": true})
		}
	}
	// many short bursts started exactly at / just below the wrap point: the overflow guard itself must be atomic
	for round := 0; round < 600; round++ {
		s := maxInt32 - int32(round%3)
		tars.VerifSetMsgID(s)
		const G, N = 16, 2
		res := make([][]int, G)
		var wg sync.WaitGroup
		gate := make(chan struct{})
		for g := 0; g < G; g++ {
			wg.Add(1)
			go func(g int) {
				defer wg.Done()
				<-gate
				for i := 0; i < N; i++ {
					m, _ := mapID(tars.VerifGenRequestID(sp))
					res[g] = append(res[g], m)
				}
			}(g)
		}
		close(gate)
		wg.Wait()
		var all []int
		for _, r := range res {
			all = append(all, r...)
		}
		sort.Ints(all)
		ms, _ := mapID(s)
		w.Write(tr.Ev{"kind": "burst", "start": ms, "ids": all, "mapped": true})
	}
	// the same once more with a spinning start line instead of a channel (goroutines woken through a channel start microseconds
	// apart, which on a busy machine is longer than the whole burst): every goroutine draws the moment the last one has arrived
	for round := 0; round < 1500; round++ {
		s := maxInt32 - int32(round%3)
		tars.VerifSetMsgID(s)
		const G, N = 3, 2 // few spinners: on a busy machine they must all be on a processor at once
		res := make([][]int, G)
		var wg sync.WaitGroup
		var ready int32
		for g := 0; g < G; g++ {
			wg.Add(1)
			go func(g int) {
				defer wg.Done()
				atomic.AddInt32(&ready, 1)
				for spins := 0; atomic.LoadInt32(&ready) < G; spins++ {
					if spins > 2000000 { // a start line that does not fill up (starved machine): go ahead
						break
					}
				}
				for i := 0; i < N; i++ {
					m, _ := mapID(tars.VerifGenRequestID(sp))
					res[g] = append(res[g], m)
				}
			}(g)
		}
		wg.Wait()
		var all []int
		for _, r := range res {
			all = append(all, r...)
		}
		sort.Ints(all)
		ms, _ := mapID(s)
		w.Write(tr.Ev{"kind": "burst", "start": ms, "ids": all, "mapped": true})
	}
	// ids on the wire: what a peer sees when concurrent callers make one-way and two-way calls (judged for zero and
	// duplicates; one-way requests carry ids like every other request)
	if err := wireIDs(w); err != nil {
		return err
	}
	// long concurrent bursts (only judged for zero and duplicates): 8 goroutines x 800 draws on real cores
	for round := 0; round < 6; round++ {
		s := []int32{maxInt32 - 100, -300, 5}[round%3]
		tars.VerifSetMsgID(s)
		const G, N = 8, 800
		res := make([][]int, G)
		var wg sync.WaitGroup
		gate := make(chan struct{})
		for g := 0; g < G; g++ {
			wg.Add(1)
			go func(g int) {
				defer wg.Done()
				res[g] = make([]int, 0, N)
				<-gate
				for i := 0; i < N; i++ {
					m, _ := mapID(tars.VerifGenRequestID(sp))
					res[g] = append(res[g], m)
				}
			}(g)
		}
		close(gate)
		wg.Wait()
		var all []int
		for _, r := range res {
			all = append(all, r...)
		}
		sort.Ints(all)
		ms, _ := mapID(s)
		w.Write(tr.Ev{"kind": "bigburst", "start": ms, "ids": all, "mapped": true})
	}
	return w.Close()
}

// wireIDs records the request ids a raw peer reads from the connection while G goroutines make one-way and two-way calls
// through the real proxy (nothing is answered; two-way calls end by their 60 ms timeout).
func wireIDs(w *tr.Writer) error {
	ln, err := net.Listen("tcp", "127.0.0.1:0")
	if err != nil {
		return err
	}
	defer ln.Close()
	var mu sync.Mutex
	var seen []int32
	go func() {
		for {
			c, err := ln.Accept()
			if err != nil {
				return
			}
			go func(c net.Conn) {
				defer c.Close()
				hdr := make([]byte, 4)
				for {
					if _, err := io.ReadFull(c, hdr); err != nil {
						return
					}
					n := int(binary.BigEndian.Uint32(hdr))
					if n < 4 || n > 1<<20 {
						return
					}
					body := make([]byte, n-4)
					if _, err := io.ReadFull(c, body); err != nil {
						return
					}
					var req requestf.RequestPacket
					if req.ReadFrom(codec.NewReader(body)) == nil && req.SFuncName != "tars_ping" {
						mu.Lock()
						seen = append(seen, req.IRequestId)
						mu.Unlock()
					}
				}
			}(c)
		}
	}()
	comm := tars.NewCommunicator()
	sp := tars.NewServantProxy(comm, fmt.Sprintf("Mux.Wire.Obj@tcp -h 127.0.0.1 -p %d -t 1000", ln.Addr().(*net.TCPAddr).Port))
	sp.TarsSetTimeout(60)
	call := func(oneway bool) {
		var resp requestf.ResponsePacket
		ct := byte(basef.TARSNORMAL)
		if oneway {
			ct = byte(basef.TARSONEWAY)
		}
		_ = sp.TarsInvoke(context.Background(), ct, "echo", []byte{1, 2, 3}, nil, nil, &resp)
	}
	call(true) // warm-up: one connection before the concurrent callers start
	time.Sleep(20 * time.Millisecond)
	for round, start := range []int32{maxInt32 - 5, -9, 1000, maxInt32 - 2, -3} {
		mu.Lock()
		seen = nil
		mu.Unlock()
		tars.VerifSetMsgID(start)
		const G = 8
		var wg sync.WaitGroup
		for g := 0; g < G; g++ {
			wg.Add(1)
			go func(g int) {
				defer wg.Done()
				call(g%2 == 0 || round%2 == 0)
				call(true)
			}(g)
		}
		wg.Wait()
		for i := 0; i < 200; i++ {
			mu.Lock()
			n := len(seen)
			mu.Unlock()
			if n >= 2*G {
				break
			}
			time.Sleep(5 * time.Millisecond)
		}
		mu.Lock()
		var ids []int
		ok := true
		for _, id := range seen {
			m, k := mapID(id)
			ok = ok && k
			ids = append(ids, m)
		}
		mu.Unlock()
		sort.Ints(ids)
		ms, _ := mapID(start)
		w.Write(tr.Ev{"kind": "wire", "start": ms, "ids": ids, "mapped": ok, "expected": 2 * G})
	}
	return nil
}

var _ = strconv.Itoa
var _ = strings.TrimSpace
var _ = os.Exit

// ---- client filters (process-wide registrations: one process per kind).  Every filter is transparent: it returns nil (pre / post)
// or exactly what the next stage returned (legacy client filter, middleware).
var filterCalls int64

func installFilter(kind string) error {
	count := func(ctx context.Context, msg *tars.Message, invoke tars.Invoke, timeout time.Duration) error {
		atomic.AddInt64(&filterCalls, 1)
		return nil
	}
	switch kind {
	case "", "none":
	case "pre":
		tars.RegisterPreClientFilter(count)
	case "post":
		tars.RegisterPostClientFilter(count)
	case "prepost":
		tars.RegisterPreClientFilter(count)
		tars.RegisterPostClientFilter(count)
		tars.RegisterPostClientFilter(count)
	case "legacy":
		tars.RegisterClientFilter(func(ctx context.Context, msg *tars.Message, invoke tars.Invoke, timeout time.Duration) error {
			atomic.AddInt64(&filterCalls, 1)
			return invoke(ctx, msg, timeout)
		})
	case "mw":
		mw := func(next tars.ClientFilter) tars.ClientFilter {
			return func(ctx context.Context, msg *tars.Message, invoke tars.Invoke, timeout time.Duration) error {
				atomic.AddInt64(&filterCalls, 1)
				return next(ctx, msg, invoke, timeout)
			}
		}
		tars.UseClientFilterMiddleware(mw, mw)
	default:
		return installFaultFilter(kind) // fpre | fpost | flegacy | fmw: filters that are not transparent (faultfilter.go)
	}
	return nil
}
