// Command ifdrive drives the proxies and dispatchers tars2go generated for the interfaces of C16's programs:
// every call goes through the generated proxy method, is looped back in process (TARS version of the protocol)
// into the generated Dispatch of the same interface, and ends in a recording servant.  Argument values are random
// values of the generated Go types (by reflection); the driver adapts to whatever signature was generated and
// records, per position, what the caller passed, what the servant received, what the servant produced and what
// the caller got back (inputs carry random values, outputs are handed in as fresh zero values).  TLC
// (spec/IdlGrammar/Oracle_Call.tla) judges the records against the IDL's directions.
//
//	ifdrive -funcs funcs.json -out calls.ndjson -per 6 -seed 1
//
// funcs.json: [{"iface":"Mod.If","fn":"name","goname":"Name","hasret":bool,"idl":[{"out":bool,"ty":"shape"}]}]
// (made by checks/c16.py from the IDL text with the independent extractor, not from the generated code).
package main

import (
	"context"
	"encoding/json"
	"flag"
	"fmt"
	"math/rand"
	"os"
	"reflect"

	"github.com/TarsCloud/TarsGo/tars/model"
	"github.com/TarsCloud/TarsGo/tars/protocol/res/basef"
	"github.com/TarsCloud/TarsGo/tars/protocol/res/requestf"
	"github.com/TarsCloud/TarsGo/tars/util/current"
	"github.com/TarsCloud/TarsGo/tars/util/endpoint"
	"github.com/TarsCloud/TarsGo/tars/util/tools"

	"verifharness/cmd/ifdrive/rec"
	"verifharness/internal/tr"
	"verifharness/internal/val"
)

// dispatcher is what every generated interface object is: proxy (SetServant + methods) and dispatcher in one.
type dispatcher interface {
	SetServant(model.Servant)
	Dispatch(ctx context.Context, v interface{}, req *requestf.RequestPacket, resp *requestf.ResponsePacket, withContext bool) error
}

type ifReg struct {
	newObj    func() dispatcher
	implCtx   func(rec.Handler) interface{}
	implPlain func(rec.Handler) interface{}
}

var registry = map[string]ifReg{}

func regIf(name string, newObj func() dispatcher, implCtx, implPlain func(rec.Handler) interface{}) {
	registry[name] = ifReg{newObj, implCtx, implPlain}
}

type idlParam struct {
	Out bool   `json:"out"`
	Ty  string `json:"ty"`
}

type fnSpec struct {
	Iface  string     `json:"iface"`
	Fn     string     `json:"fn"`
	GoName string     `json:"goname"`
	HasRet bool       `json:"hasret"`
	Idl    []idlParam `json:"idl"`
}

func canon(v reflect.Value) (s string) {
	defer func() {
		if r := recover(); r != nil {
			s = fmt.Sprintf("!canon: %v", r)
		}
	}()
	if v.Kind() == reflect.Ptr && v.IsNil() {
		return "!nil"
	}
	b, err := json.Marshal(val.Canon(v))
	if err != nil {
		return "!json: " + err.Error()
	}
	return string(b)
}

// handler: the servant side of one call.
type handler struct {
	rng       *rand.Rand
	implcalls int
	method    string
	received  []string
	produced  []string
	implptr   []bool
	retprod   string
}

func (h *handler) Serve(method string, ret interface{}, params []interface{}) error {
	h.implcalls++
	if h.implcalls > 1 {
		return nil
	}
	h.method = method
	for _, p := range params {
		v := reflect.ValueOf(p)
		if v.Kind() == reflect.Ptr {
			h.implptr = append(h.implptr, true)
			h.received = append(h.received, canon(v))
			if v.IsNil() {
				h.produced = append(h.produced, "-")
				continue
			}
			nv := reflect.New(v.Type().Elem())
			val.Fill(h.rng, nv.Elem(), 0)
			v.Elem().Set(nv.Elem())
			h.produced = append(h.produced, canon(nv))
		} else {
			h.implptr = append(h.implptr, false)
			h.received = append(h.received, canon(v))
			h.produced = append(h.produced, "-")
		}
	}
	if ret != nil {
		rv := reflect.ValueOf(ret)
		nv := reflect.New(rv.Type().Elem())
		val.Fill(h.rng, nv.Elem(), 0)
		rv.Elem().Set(nv.Elem())
		h.retprod = canon(nv)
	}
	return nil
}

// loop is the model.Servant the proxy talks to: it hands the request to the generated dispatcher.
type loop struct {
	disp    dispatcher
	impl    interface{}
	withCtx bool
	wire    string
	ctype   int
	sent    int
}

func (l *loop) Name() string                          { return "verif.loop.Obj" }
func (l *loop) TarsSetTimeout(t int)                  {}
func (l *loop) TarsSetProtocol(model.Protocol)        {}
func (l *loop) Endpoints() []*endpoint.Endpoint       { return nil }
func (l *loop) SetPushCallback(callback func([]byte)) {}

func (l *loop) TarsInvoke(ctx context.Context, cType byte, sFuncName string, buf []byte, status map[string]string,
	rctx map[string]string, resp *requestf.ResponsePacket) (err error) {
	defer func() {
		if r := recover(); r != nil {
			err = fmt.Errorf("panic in the generated dispatcher: %v", r)
		}
	}()
	l.sent++
	l.wire, l.ctype = sFuncName, int(cType)
	req := requestf.RequestPacket{IVersion: basef.TARSVERSION, CPacketType: int8(cType), IRequestId: int32(l.sent), SServantName: l.Name(),
		SFuncName: sFuncName, SBuffer: tools.ByteToInt8(buf), ITimeout: 3000, Context: rctx, Status: status}
	sctx := current.ContextWithTarsCurrent(context.Background())
	var r requestf.ResponsePacket
	if err = l.disp.Dispatch(sctx, l.impl, &req, &r, l.withCtx); err != nil {
		return err
	}
	if cType == 0 {
		*resp = r
	}
	return nil
}

var suffix = map[string]string{"ctx": "WithContext", "plain": "", "oneway": "OneWayWithContext"}

func runCall(reg ifReg, f fnSpec, mode string, rng *rand.Rand) (ev tr.Ev) {
	ev = tr.Ev{"iface": f.Iface, "fn": f.Fn, "mode": mode, "hasret": f.HasRet, "idl": f.Idl, "missing": false, "err": "",
		"implcalls": 0, "passed": []string{}, "received": []string{}, "produced": []string{}, "returned": []string{},
		"genptr": []bool{}, "implptr": []bool{}, "retprod": "-", "retback": "-", "wire": "", "sent": 0}
	h := &handler{rng: rng, retprod: "-"}
	lp := &loop{disp: reg.newObj(), withCtx: mode != "plain"}
	if lp.withCtx {
		lp.impl = reg.implCtx(h)
	} else {
		lp.impl = reg.implPlain(h)
	}
	obj := reg.newObj()
	obj.SetServant(lp)
	m := reflect.ValueOf(obj).MethodByName(f.GoName + suffix[mode])
	if !m.IsValid() {
		ev["missing"] = true
		return ev
	}
	mt := m.Type()
	first := 0
	var args []reflect.Value
	if mode != "plain" {
		first = 1
		args = append(args, reflect.ValueOf(context.Background()))
	}
	np := mt.NumIn() - first
	if mt.IsVariadic() {
		np--
	}
	passed, genptr := []string{}, []bool{}
	ptrs := make([]reflect.Value, np)
	for i := 0; i < np; i++ {
		t := mt.In(first + i)
		if t.Kind() == reflect.Ptr {
			p := reflect.New(t.Elem())
			// an output (by the IDL) is handed in fresh, as a caller does (`var x T; proxy.Op(&x)`): what a struct that already
			// holds values keeps when an optional member is absent from the reply is C04's recorded matter, not the proxy's
			if !(i < len(f.Idl) && f.Idl[i].Out) {
				val.Fill(rng, p.Elem(), 0)
			}
			passed = append(passed, canon(p))
			genptr = append(genptr, true)
			ptrs[i] = p
			args = append(args, p)
		} else {
			v := reflect.New(t).Elem()
			val.Fill(rng, v, 0)
			passed = append(passed, canon(v))
			genptr = append(genptr, false)
			args = append(args, v)
		}
	}
	ev["passed"], ev["genptr"] = passed, genptr
	var out []reflect.Value
	func() {
		defer func() {
			if r := recover(); r != nil {
				ev["err"] = fmt.Sprintf("panic in the generated proxy: %v", r)
			}
		}()
		out = m.Call(args)
	}()
	if out != nil {
		if e := out[len(out)-1]; !e.IsNil() {
			ev["err"] = fmt.Sprintf("%v", e.Interface())
		}
		if len(out) == 2 {
			ev["retback"] = canon(out[0])
		}
	}
	returned := []string{}
	for i := 0; i < np; i++ {
		if ptrs[i].IsValid() {
			returned = append(returned, canon(ptrs[i]))
		} else {
			returned = append(returned, "-")
		}
	}
	pad := func(s []string) []string { // the servant was never entered: no observation at any position
		if s == nil {
			s = []string{}
			for i := 0; i < np; i++ {
				s = append(s, "-")
			}
		}
		return s
	}
	ev["returned"] = returned
	ev["received"], ev["produced"] = pad(h.received), pad(h.produced)
	if h.implptr != nil {
		ev["implptr"] = h.implptr
	}
	ev["implcalls"], ev["retprod"] = h.implcalls, h.retprod
	ev["wire"], ev["sent"] = lp.wire, lp.sent
	return ev
}

func main() {
	funcs := flag.String("funcs", "", "operations to call (json)")
	out := flag.String("out", "calls.ndjson", "records")
	per := flag.Int("per", 6, "calls per operation")
	seed := flag.Int64("seed", 1, "seed")
	flag.Parse()
	raw, err := os.ReadFile(*funcs)
	if err != nil {
		fmt.Fprintln(os.Stderr, err)
		os.Exit(2)
	}
	var fs []fnSpec
	if err := json.Unmarshal(raw, &fs); err != nil {
		fmt.Fprintln(os.Stderr, err)
		os.Exit(2)
	}
	w, err := tr.Create(*out)
	if err != nil {
		fmt.Fprintln(os.Stderr, err)
		os.Exit(2)
	}
	modes := []string{"ctx", "plain", "ctx", "oneway", "ctx", "plain"}
	rng := rand.New(rand.NewSource(*seed))
	for n, f := range fs {
		reg, ok := registry[f.Iface]
		if !ok {
			fmt.Fprintf(os.Stderr, "interface %s is not registered\n", f.Iface)
			os.Exit(2)
		}
		for j := 0; j < *per; j++ {
			w.Write(runCall(reg, f, modes[(j+n)%len(modes)], rng))
		}
	}
	if err := w.Close(); err != nil {
		fmt.Fprintln(os.Stderr, err)
		os.Exit(2)
	}
	fmt.Printf("%d records %d operations\n", w.N, len(fs))
}
