// Package rec is the one interface shared by the recording servants that checks/c16.py writes next to the
// code tars2go generated (package of the IDL module) and the driver (cmd/ifdrive): a servant method hands
// everything it was called with to the driver, which records and fills it by reflection.
package rec

// Handler is implemented by the driver.
type Handler interface {
	// Serve is called by a servant method on entry: method is the Go method name, ret points to the
	// method's result variable (nil for a void operation), params are the method's parameters as received
	// (values for what the generated signature passes by value, pointers for what it passes by pointer).
	Serve(method string, ret interface{}, params []interface{}) error
}
