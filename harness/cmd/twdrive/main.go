// twdrive records runs of the real timing wheel (tars/util/rtimer) for validation against spec/TimeWheel:
//
//	trace  -seed S -n N -out DIR   N runs per wheel size; one file trace_s<Size>.ndjson per size, runs separated by Reset
//	pkg    -out FILE               the package-level arithmetic: which (duration, accuracy) pairs are served, which panic
//
// Events (sequence taken under the recorder's lock; After and Tick are emitted from the hooks, i.e. under tw.lock):
//
//	After{w,q,slot,cur,same}  w's call of After with quotient q = timeout/tick got the channel of slot `slot` while
//	                          currPos was cur; same = earlier waiters holding the very same channel
//	AfterPanic{w,q}           the call panicked
//	Tick{cur}                 the ticker goroutine replaced the channel of the current slot; cur = currPos afterwards
//	Fired{w}                  w's receive from its channel returned
package main

import (
	"flag"
	"fmt"
	"math/rand"
	"os"
	"path/filepath"
	"sort"
	"sync"
	"time"

	"verifharness/internal/tr"

	"github.com/TarsCloud/TarsGo/tars/util/rtimer"
	"github.com/TarsCloud/TarsGo/tars/util/vhook"
)

type hookState struct {
	mu   sync.Mutex
	tw   *rtimer.TimeWheel
	rec  *tr.Rec
	w     int // the waiter whose After call is under way (calls are made one at a time)
	q     int
	chans map[int]chan struct{}
	slot  int
	cur   int
	got   bool
}

var (
	wheels   = map[*rtimer.TimeWheel]*hookState{} // the wheels under observation
	early    = map[*rtimer.TimeWheel][]int{}      // ticks of a wheel between its creation and observe()
	over     = map[*rtimer.TimeWheel]bool{}
	wheelsMu sync.Mutex
)

func observe(tw *rtimer.TimeWheel, rec *tr.Rec, chans map[int]chan struct{}) *hookState {
	h := &hookState{rec: rec, chans: chans}
	wheelsMu.Lock()
	wheels[tw] = h
	for _, cur := range early[tw] { // the ticker may have fired before the wheel was handed to us
		rec.Emit("Tick", "cur", cur)
	}
	delete(early, tw)
	wheelsMu.Unlock()
	return h
}

func forget(tw *rtimer.TimeWheel) {
	wheelsMu.Lock()
	delete(wheels, tw)
	over[tw] = true
	wheelsMu.Unlock()
}

func install() {
	vhook.Set(func(point string, args ...interface{}) {
		if len(args) == 0 {
			return
		}
		tw := args[0].(*rtimer.TimeWheel)
		wheelsMu.Lock()
		hs := wheels[tw]
		if hs == nil && !over[tw] && point == "rtimer.tick" {
			early[tw] = append(early[tw], args[1].(int))
		}
		if hs != nil && point == "rtimer.tick" {
			hs.rec.Emit("Tick", "cur", args[1].(int)) // under wheelsMu: ordered after the early ticks
			wheelsMu.Unlock()
			return
		}
		wheelsMu.Unlock()
		if hs == nil {
			return // a wheel of an earlier run
		}
		hs.mu.Lock()
		defer hs.mu.Unlock()
		switch point {
		case "rtimer.after":
			// under tw.lock: the event is complete here, so no tick can be recorded between the decision and its record
			hs.slot, hs.cur, hs.got = args[2].(int), args[3].(int), true
			c := args[4].(chan struct{})
			same := []int{}
			for v, cv := range hs.chans {
				if cv == c {
					same = append(same, v)
				}
			}
			sort.Ints(same)
			if hs.chans != nil {
				hs.rec.Emit("After", "w", hs.w, "q", hs.q, "slot", hs.slot, "cur", hs.cur, "same", same)
				hs.chans[hs.w] = c
			}
		}
	})
}

func oneRun(rng *rand.Rand, size int, tick time.Duration, nw int, mode string) []tr.Ev {
	rec := tr.New()
	tw := rtimer.NewTimeWheel(tick, size)
	hs := observe(tw, rec, map[int]chan struct{}{})
	var wg sync.WaitGroup
	quit := make(chan struct{})
	for w := 1; w <= nw; w++ {
		var q int
		switch mode {
		case "edge": // around the guard and the smallest quotients
			q = []int{0, 1, size - 1, size, size + 1, 2 * size}[rng.Intn(6)]
		default:
			q = rng.Intn(size)
		}
		if q < 0 {
			q = 0
		}
		timeout := time.Duration(q)*tick + time.Duration(rng.Int63n(int64(tick)))
		func() {
			defer func() {
				if r := recover(); r != nil {
					rec.Emit("AfterPanic", "w", w, "q", q)
				}
			}()
			hs.mu.Lock()
			hs.got, hs.w, hs.q = false, w, q
			hs.mu.Unlock()
			c := tw.After(timeout)
			hs.mu.Lock()
			got := hs.got
			hs.mu.Unlock()
			if !got {
				rec.Emit("After", "w", w, "q", q, "slot", -1, "cur", -1, "same", []int{}) // no hook call: rejected by the spec
			}
			wg.Add(1)
			go func(w int) {
				defer wg.Done()
				emit := func() {
					rec.Emit("Fired", "w", w)
				}
				select {
				case <-c:
					emit()
				case <-quit:
					select { // the run is over: a channel closed by now still counts
					case <-c:
						emit()
					default:
					}
				}
			}(w)
		}()
		switch rng.Intn(3) {
		case 0:
		case 1:
			time.Sleep(time.Duration(rng.Int63n(int64(tick))))
		case 2:
			time.Sleep(time.Duration(rng.Int63n(int64(2 * tick))))
		}
	}
	// let every waiter come due, stop the ticker, give a tick that is under way and the receives time to finish
	time.Sleep(time.Duration(size+3)*tick + 2*time.Millisecond)
	tw.Stop()
	time.Sleep(2*tick + 80*time.Millisecond)
	close(quit)
	wg.Wait()
	forget(tw)
	return rec.Close()
}

func traceCmd(args []string) error {
	fs := flag.NewFlagSet("trace", flag.ExitOnError)
	seed := fs.Int64("seed", 1, "seed")
	n := fs.Int("n", 20, "runs per wheel size")
	out := fs.String("out", ".", "output directory")
	fs.Parse(args)
	install()
	sizes := []int{1, 2, 3, 5, 8, 21}
	errs := make(chan error, len(sizes))
	for _, size := range sizes {
		go func(size int) {
			w, err := tr.Create(filepath.Join(*out, fmt.Sprintf("trace_s%d.ndjson", size)))
			if err != nil {
				errs <- err
				return
			}
			rng := rand.New(rand.NewSource(*seed*1000 + int64(size)))
			for k := 0; k < *n; k++ {
				tick := []time.Duration{300 * time.Microsecond, time.Millisecond, 3 * time.Millisecond}[rng.Intn(3)]
				mode := "in"
				if k%3 == 2 {
					mode = "edge"
				}
				evs := oneRun(rng, size, tick, 4+rng.Intn(9), mode)
				for _, e := range evs {
					w.Write(e)
				}
				w.Write(tr.Ev{"e": "Reset"})
			}
			errs <- w.Close()
		}(size)
	}
	for range sizes {
		if err := <-errs; err != nil {
			return err
		}
	}
	return nil
}

// pkgCmd: rtimer.After(t) builds NewTimeWheel(t/accuracy, accuracy+1) and asks it for After(t); the same two calls are
// made here for a grid of durations (in ns) and accuracies, the wheel stopped at once.
func pkgCmd(args []string) error {
	fs := flag.NewFlagSet("pkg", flag.ExitOnError)
	out := fs.String("out", "pkg.ndjson", "output file")
	maxT := fs.Int("max", 400, "durations 0..max ns")
	fs.Parse(args)
	install()
	w, err := tr.Create(*out)
	if err != nil {
		return err
	}
	for _, a := range []int{1, 2, 3, 7, 20, 33} {
		for t := 0; t <= *maxT; t++ {
			panicked, slot := false, -1
			func() {
				defer func() {
					if r := recover(); r != nil {
						panicked = true
					}
				}()
				tw := rtimer.NewTimeWheel(time.Duration(t)/time.Duration(a), a+1)
				defer tw.Stop()
				hs := observe(tw, tr.New(), nil)
				defer forget(tw)
				tw.After(time.Duration(t))
				hs.mu.Lock()
				if hs.got {
					slot = (hs.slot - hs.cur + (a + 1)) % (a + 1)
				}
				hs.mu.Unlock()
			}()
			w.Write(tr.Ev{"t": t, "a": a, "panic": panicked, "ahead": slot})
		}
	}
	return w.Close()
}

func main() {
	if len(os.Args) < 2 {
		fmt.Fprintln(os.Stderr, "usage: twdrive trace|pkg ...")
		os.Exit(2)
	}
	var err error
	switch os.Args[1] {
	case "trace":
		err = traceCmd(os.Args[2:])
	case "pkg":
		err = pkgCmd(os.Args[2:])
	default:
		err = fmt.Errorf("unknown mode %s", os.Args[1])
	}
	if err != nil {
		fmt.Fprintln(os.Stderr, "twdrive:", err)
		os.Exit(2)
	}
}
