// srvdrive drives a real TarsGo server (public API, in-process) with a scripted raw client for C10
// "the server answers each well-formed request exactly once with matching identity".
//
//	srvdrive run -proto tcp|udp -pool N -ht MS -filters none|legacy|prepost|mw|all -servant ctx|plain
//	             -seed S -rounds R -per P -conns K -out recs.ndjson
//	srvdrive udpshort -len L           (probe for F6: a datagram shorter than the frame header)
//
// One invocation = one server configuration: maxroutine / handletimeout and the registered server filters are
// process-global settings of the framework, so the check runs every configuration in its own process.
package main

import (
	"flag"
	"fmt"
	"os"
)

func main() {
	if len(os.Args) < 2 {
		fmt.Fprintln(os.Stderr, "usage: srvdrive run|udpshort [flags]")
		os.Exit(2)
	}
	var err error
	switch os.Args[1] {
	case "run":
		fs := flag.NewFlagSet("run", flag.ExitOnError)
		o := &opts{}
		fs.StringVar(&o.proto, "proto", "tcp", "tcp|udp")
		fs.IntVar(&o.pool, "pool", 0, "maxroutine (0 = goroutine per request)")
		fs.IntVar(&o.ht, "ht", 0, "handletimeout in ms (0 = none)")
		fs.Int64Var(&o.seed, "seed", 1, "seed")
		fs.IntVar(&o.rounds, "rounds", 8, "rounds")
		fs.IntVar(&o.per, "per", 24, "requests per round")
		fs.IntVar(&o.conns, "conns", 3, "client connections / sockets")
		fs.StringVar(&o.filters, "filters", "none", "server filters registered in the process: none|legacy|prepost|mw|all")
		fs.StringVar(&o.servant, "servant", "ctx", "servant registered with context (ctx) or without (plain)")
		fs.StringVar(&o.out, "out", "recs.ndjson", "output file")
		fs.Parse(os.Args[2:])
		err = run(o)
	case "udpshort":
		fs := flag.NewFlagSet("udpshort", flag.ExitOnError)
		n := fs.Int("len", 3, "datagram length")
		fs.Parse(os.Args[2:])
		err = udpShort(*n)
	default:
		err = fmt.Errorf("unknown subcommand %s", os.Args[1])
	}
	if err != nil {
		fmt.Fprintln(os.Stderr, "srvdrive:", err)
		os.Exit(3)
	}
}
