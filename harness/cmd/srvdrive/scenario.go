package main

import (
	"encoding/binary"
	"encoding/json"
	"fmt"
	"math/rand"
	"os"
	"path/filepath"
	"sync"
	"sync/atomic"
	"time"

	"github.com/TarsCloud/TarsGo/tars/protocol/codec"
	"github.com/TarsCloud/TarsGo/tars/protocol/res/requestf"
	"github.com/TarsCloud/TarsGo/tars/protocol/tup"
	"github.com/TarsCloud/TarsGo/tars/util/tools"
	"verifharness/internal/tr"
)

type opts struct {
	proto   string
	pool    int
	ht      int
	seed    int64
	rounds  int
	per     int
	conns   int
	out     string
	filters string
	servant string
}

type request struct {
	K     int32
	Ver   int16
	Pt    int8
	ID    int32
	Fn    string // tars_ping ok fail slow note nosuch
	Tmo   string // zero ample elapsed
	Cls   string // - short over near block
	Code  int32
	Msg   []byte
	peer  int
	frame []byte
}

func be32(v int32) []int {
	var b [4]byte
	binary.BigEndian.PutUint32(b[:], uint32(v))
	return []int{int(b[0]), int(b[1]), int(b[2]), int(b[3])}
}

func ints(b []byte) []int {
	o := make([]int, len(b))
	for i, x := range b {
		o[i] = int(x)
	}
	return o
}

var clsCode = map[string]int32{"short": clsShort, "over": clsOver, "near": clsNear, "block": clsBlock}

// args encodes the arguments the way a client of the given protocol version does.
func (q *request) args() ([]byte, error) {
	type arg struct {
		name string
		i    int32
		s    string
		str  bool
	}
	var as []arg
	switch q.Fn {
	case "ok", "note":
		as = []arg{{name: "k", i: q.K}}
	case "fail":
		as = []arg{{name: "k", i: q.K}, {name: "code", i: q.Code}, {name: "msg", s: string(q.Msg), str: true}}
	case "slow":
		as = []arg{{name: "k", i: q.K}, {name: "cls", i: clsCode[q.Cls]}}
	default:
		return nil, nil
	}
	switch q.Ver {
	case 1:
		b := codec.NewBuffer()
		for i, a := range as {
			if a.str {
				b.WriteString(a.s, byte(i+1))
			} else {
				b.WriteInt32(a.i, byte(i+1))
			}
		}
		return b.ToBytes(), nil
	case 3:
		u := tup.NewUniAttribute()
		for _, a := range as {
			b := codec.NewBuffer()
			if a.str {
				b.WriteString(a.s, 0)
			} else {
				b.WriteInt32(a.i, 0)
			}
			u.PutBuffer(a.name, b.ToBytes())
		}
		b := codec.NewBuffer()
		if err := u.Encode(b); err != nil {
			return nil, err
		}
		return b.ToBytes(), nil
	case 5:
		m := map[string]interface{}{}
		for _, a := range as {
			if a.str {
				m[a.name] = a.s
			} else {
				m[a.name] = a.i
			}
		}
		return json.Marshal(m)
	}
	return nil, fmt.Errorf("version %d", q.Ver)
}

func (q *request) build(rng *rand.Rand) error {
	sbuf, err := q.args()
	if err != nil {
		return err
	}
	p := requestf.RequestPacket{
		IVersion:     q.Ver,
		CPacketType:  q.Pt,
		IRequestId:   q.ID,
		SServantName: objName,
		SFuncName:    q.Fn,
		SBuffer:      tools.ByteToInt8(sbuf),
		Context:      map[string]string{},
		Status:       map[string]string{},
	}
	switch q.Tmo {
	case "ample":
		p.ITimeout = 30000 + int32(rng.Intn(60000))
	case "elapsed":
		p.ITimeout = 1 + int32(rng.Intn(3))
	}
	if rng.Intn(4) == 0 {
		p.Context["who"] = fmt.Sprintf("c%d", q.K)
	}
	b := codec.NewBuffer()
	if err := p.WriteTo(b); err != nil {
		return err
	}
	body := b.ToBytes()
	q.frame = make([]byte, 4+len(body))
	binary.BigEndian.PutUint32(q.frame, uint32(len(q.frame)))
	copy(q.frame[4:], body)
	return nil
}

type gen struct {
	rng   *rand.Rand
	o     *opts
	nextK int32
	ids   map[int32]bool
}

var edgeIDs = []int32{0, 1, -1, 127, 128, 255, 256, 32767, 32768, 65535, 65536, 2147483647, -2147483648, -129, -32769}
var edgeCodes = []int32{1, -1, 2, 7, 127, 128, -128, -129, 255, 30000, 65536, -99, -6, -7, 2147483647, -2147483648}

func (g *gen) id() int32 {
	for {
		var v int32
		switch g.rng.Intn(4) {
		case 0:
			v = edgeIDs[g.rng.Intn(len(edgeIDs))]
		case 1:
			v = int32(g.rng.Intn(1000))
		default:
			v = int32(g.rng.Uint32())
		}
		if !g.ids[v] {
			g.ids[v] = true
			return v
		}
	}
}

func (g *gen) msg() []byte {
	const alpha = "abcdefghijklmnopqrstuvwxyzABCDEFGHIJKLMNOPQRSTUVWXYZ0123456789 .,:;-_/()[]{}!?'\"\\<>&=+*#@%"
	var n int
	switch g.rng.Intn(8) {
	case 0:
		n = 0
	case 1:
		n = 254 + g.rng.Intn(4) // around the 1-byte/4-byte string length boundary
	default:
		n = 1 + g.rng.Intn(40)
	}
	b := make([]byte, n)
	for i := range b {
		b[i] = alpha[g.rng.Intn(len(alpha))]
	}
	return b
}

// one request; elapsedOK: the request will be queued behind blockers, so its own timeout may be made to elapse
func (g *gen) request(elapsedOK bool, slowLeft *int) *request {
	r := g.rng
	g.nextK++
	q := &request{K: g.nextK, ID: g.id(), Cls: "-", Msg: []byte{}}
	q.Ver = []int16{1, 3, 5}[r.Intn(3)]
	if r.Intn(4) == 0 {
		q.Pt = 1
	}
	switch w := r.Intn(15); {
	case w < 2:
		q.Fn = "tars_ping"
	case w < 6:
		q.Fn = "ok"
	case w < 10:
		q.Fn = "fail"
	case w < 12:
		q.Fn = "slow"
	case w < 13:
		q.Fn = "note"
	default:
		q.Fn = "nosuch"
	}
	if q.Fn == "slow" {
		if *slowLeft <= 0 {
			q.Fn = "ok"
		} else {
			*slowLeft--
			if g.o.ht == 0 {
				q.Cls = "short"
			} else if r.Intn(10) < 7 {
				q.Cls = "over"
			} else {
				q.Cls = "near"
			}
		}
	}
	if q.Fn == "fail" {
		q.Msg = g.msg()
		switch r.Intn(6) {
		case 0:
			q.Code = 0 // plain error
		case 1, 2:
			q.Code = edgeCodes[r.Intn(len(edgeCodes))]
		default:
			q.Code = int32(r.Uint32())
			if q.Code == 0 {
				q.Code = 5
			}
		}
	}
	switch w := r.Intn(10); {
	case elapsedOK && w < 5:
		q.Tmo = "elapsed"
	case w < 8:
		q.Tmo = "ample"
	default:
		q.Tmo = "zero"
	}
	return q
}

func waitUntil(d time.Duration, cond func() bool) bool {
	end := time.Now().Add(d)
	for {
		if cond() {
			return true
		}
		if time.Now().After(end) {
			return false
		}
		time.Sleep(500 * time.Microsecond)
	}
}

type sendRec struct {
	K    int32  `json:"k"`
	Ver  int    `json:"ver"`
	Pt   int    `json:"pt"`
	ID   []int  `json:"id"`
	Fn   string `json:"fn"`
	Tmo  string `json:"tmo"`
	Cls  string `json:"cls"`
	Code []int  `json:"code"`
	Msg  []int  `json:"msg"`
	Impl int    `json:"impl"`
	Filt int    `json:"filt"` // filter stages that saw this request (observation)
}

type cfgRec struct {
	Proto string `json:"proto"`
	Pool  int    `json:"pool"`
	Ht    int    `json:"ht"`
	Filt  string `json:"filt"`
	Wctx  bool   `json:"wctx"`
}

type connRec struct {
	Cfg   cfgRec    `json:"cfg"`
	Round int       `json:"round"`
	Conn  int       `json:"conn"`
	Kind  string    `json:"kind"`
	Sends []sendRec `json:"sends"`
	Recvs [][]int   `json:"recvs"`
}

func run(o *opts) error {
	dir := filepath.Dir(o.out)
	installHooks()
	info, err := startServer(o.proto, o.pool, o.ht, dir, o.filters, o.servant)
	if err != nil {
		return err
	}
	// wait for the listener
	if o.proto == "tcp" {
		p, err := dialPeer(-1, "tcp", info.addr)
		if err != nil {
			return fmt.Errorf("server did not come up: %v", err)
		}
		p.c.Close()
	} else {
		p, err := dialPeer(-1, "udp", info.addr)
		if err != nil {
			return err
		}
		warm := &request{K: 0, Ver: 1, ID: 424242, Fn: "tars_ping", Tmo: "zero", Cls: "-"}
		warm.build(rand.New(rand.NewSource(1)))
		ok := false
		for i := 0; i < 100 && !ok; i++ {
			p.c.Write(warm.frame) // errors (ICMP unreachable while the socket is not bound yet) are retried
			ok = waitUntil(50*time.Millisecond, func() bool { return p.received() > 0 })
		}
		p.c.Close()
		if !ok {
			return fmt.Errorf("udp server did not come up")
		}
	}
	base := atomic.LoadInt64(&hookInvoked) // handlers of the warm-up traffic
	waitUntil(time.Second, func() bool { return atomic.LoadInt64(&hookHandleConn) == atomic.LoadInt64(&hookInvoked) })
	base = atomic.LoadInt64(&hookInvoked)
	baseRecv := atomic.LoadInt64(&hookHandleConn)

	peers := make([]*peer, o.conns)
	for i := range peers {
		if peers[i], err = dialPeer(i+1, o.proto, info.addr); err != nil {
			return err
		}
	}
	w, err := tr.Create(o.out)
	if err != nil {
		return err
	}
	g := &gen{rng: rand.New(rand.NewSource(o.seed)), o: o, ids: map[int32]bool{424242: true}}
	rng := g.rng
	cfg := cfgRec{o.proto, o.pool, o.ht, o.filters, o.servant == "ctx"}
	var sent int64 // cumulative number of requests sent (TCP: compared with the hook counters)
	discarded, notQuiet, blockFailed := 0, 0, 0
	tcp := o.proto == "tcp"
	chunk := func(n int) int {
		if rng.Intn(3) == 0 {
			return n
		}
		return 1 + rng.Intn(n)
	}
	var chunkMu sync.Mutex
	lockedChunk := func(n int) int { chunkMu.Lock(); defer chunkMu.Unlock(); return chunk(n) }

	sendAll := func(reqs []*request) error {
		by := map[int][][]byte{}
		var order []int
		for _, q := range reqs {
			if _, ok := by[q.peer]; !ok {
				order = append(order, q.peer)
			}
			by[q.peer] = append(by[q.peer], q.frame)
		}
		var wg sync.WaitGroup
		errs := make(chan error, len(order))
		for _, pi := range order {
			wg.Add(1)
			go func(pi int) {
				defer wg.Done()
				if err := peers[pi].send(by[pi], lockedChunk); err != nil {
					errs <- err
				}
			}(pi)
		}
		wg.Wait()
		atomic.AddInt64(&sent, int64(len(reqs)))
		select {
		case err := <-errs:
			return err
		default:
			return nil
		}
	}

	for round := 1; round <= o.rounds; round++ {
		// rounds 2 and 4 of a pooled server are always blocked, so that every configuration with a pool has queue timeouts
		blocked := o.pool > 0 && (rng.Intn(2) == 0 || round == 2 || round == 4)
		slowLeft := 4
		if o.pool > 0 {
			slowLeft = 2
		}
		var reqs, blockers []*request
		if blocked {
			for i := 0; i < o.pool; i++ {
				g.nextK++
				q := &request{K: g.nextK, ID: g.id(), Ver: []int16{1, 3, 5}[rng.Intn(3)], Fn: "slow", Cls: "block", Tmo: []string{"zero", "ample"}[rng.Intn(2)], Msg: []byte{}}
				if rng.Intn(5) == 0 {
					q.Pt = 1
				}
				blockers = append(blockers, q)
			}
		}
		n := o.per - len(blockers)
		for i := 0; i < n; i++ {
			reqs = append(reqs, g.request(blocked, &slowLeft))
		}
		all := append(append([]*request{}, blockers...), reqs...)
		for _, q := range all {
			q.peer = rng.Intn(len(peers))
			if err := q.build(rng); err != nil {
				return err
			}
			if q.Cls == "over" || q.Cls == "block" {
				rec.gate(q.K)
			}
		}
		discard := false
		if blocked {
			if err := sendAll(blockers); err != nil {
				return err
			}
			if !waitUntil(5*time.Second, func() bool {
				for _, b := range blockers {
					if rec.startedN(b.K) == 0 {
						return false
					}
				}
				return true
			}) {
				// the requests that were to queue behind the blockers are not sent: what happened to the blockers is
				// judged on its own (the oracle will miss their replies if the server lost them)
				reqs = nil
				all = blockers
				blockFailed++
			}
			t0 := time.Now()
			if err := sendAll(reqs); err != nil {
				return err
			}
			if len(reqs) == 0 {
				for _, b := range blockers {
					rec.open(b.K)
				}
			} else if o.ht > 0 {
				// the workers free themselves when the handle timeout of the blockers fires; the queued requests must
				// have been on the server for much longer than their own timeout (<= 3 ms) by then
				if time.Since(t0) > time.Duration(o.ht)*time.Millisecond/3 {
					discard = true
				}
			} else {
				if tcp {
					waitUntil(5*time.Second, func() bool { return atomic.LoadInt64(&hookHandleConn)-baseRecv >= atomic.LoadInt64(&sent) })
					time.Sleep(60 * time.Millisecond)
				} else {
					time.Sleep(250 * time.Millisecond)
				}
				for _, b := range blockers {
					rec.open(b.K)
				}
			}
		} else {
			if err := sendAll(reqs); err != nil {
				return err
			}
		}
		// quiescence
		expReplies, onewaySlow := map[int]int{}, false
		var execs []*request
		for _, q := range all {
			if q.Pt == 0 {
				expReplies[q.peer]++
			}
			if q.Pt == 1 && q.Fn == "slow" {
				onewaySlow = true
			}
			if q.Tmo != "elapsed" && q.Fn != "tars_ping" && q.Fn != "nosuch" {
				execs = append(execs, q)
			}
		}
		framesOK := func() bool {
			for pi, n := range expReplies {
				if peers[pi].pending() < n {
					return false
				}
			}
			return true
		}
		totalFrames := func() int64 {
			var n int64
			for _, p := range peers {
				n += int64(p.received())
			}
			return n
		}
		quiet := true
		if tcp {
			// every handler has returned from TarsServer.invoke (hook), then every reply the statement promises has
			// arrived and every reply the server says it wrote has arrived (a reply is only missed after 2 s of silence)
			quiet = waitUntil(10*time.Second, func() bool { return atomic.LoadInt64(&hookInvoked)-base >= atomic.LoadInt64(&sent) })
			waitUntil(2*time.Second, func() bool { return framesOK() && totalFrames() >= atomic.LoadInt64(&hookWritten) })
		} else {
			quiet = waitUntil(10*time.Second, func() bool {
				for _, q := range execs {
					if rec.startedN(q.K) == 0 {
						return false
					}
				}
				return framesOK()
			})
			if o.ht > 0 && onewaySlow {
				// an over-long one-way handler is given up by the server only when the handle timeout fires
				time.Sleep(time.Duration(o.ht)*time.Millisecond + 60*time.Millisecond)
			}
		}
		for _, q := range all {
			if q.Cls == "over" || q.Cls == "block" {
				rec.open(q.K)
			}
		}
		waitUntil(5*time.Second, func() bool {
			for _, q := range all {
				if rec.startedN(q.K) != rec.endedN(q.K) {
					return false
				}
			}
			return true
		})
		if tcp {
			time.Sleep(25 * time.Millisecond)
			waitUntil(time.Second, func() bool { return totalFrames() >= atomic.LoadInt64(&hookWritten) })
		} else {
			time.Sleep(100 * time.Millisecond)
		}
		if !quiet {
			notQuiet++
		}
		frames := make([][][]byte, len(peers))
		for i, p := range peers {
			frames[i] = p.take()
		}
		if discard {
			discarded++
			continue
		}
		kind := "plain"
		if blocked {
			kind = "blocked"
		}
		for i := range peers {
			cr := connRec{Cfg: cfg, Round: round, Conn: i + 1, Kind: kind, Sends: []sendRec{}, Recvs: [][]int{}}
			for _, q := range all {
				if q.peer != i {
					continue
				}
				cr.Sends = append(cr.Sends, sendRec{K: q.K, Ver: int(q.Ver), Pt: int(q.Pt), ID: be32(q.ID), Fn: q.Fn, Tmo: q.Tmo, Cls: q.Cls,
					Code: be32(q.Code), Msg: ints(q.Msg), Impl: rec.startedN(q.K), Filt: flog.seen(q.ID)})
			}
			for _, f := range frames[i] {
				cr.Recvs = append(cr.Recvs, ints(f))
			}
			if len(cr.Sends) == 0 && len(cr.Recvs) == 0 {
				continue
			}
			if err := w.Write(cr); err != nil {
				return err
			}
		}
	}
	// anything that still arrives belongs to no request
	time.Sleep(200 * time.Millisecond)
	for i, p := range peers {
		fr := p.take()
		if len(fr) == 0 {
			continue
		}
		cr := connRec{Cfg: cfg, Round: o.rounds + 1, Conn: i + 1, Kind: "tail", Sends: []sendRec{}, Recvs: [][]int{}}
		for _, f := range fr {
			cr.Recvs = append(cr.Recvs, ints(f))
		}
		if err := w.Write(cr); err != nil {
			return err
		}
	}
	if err := w.Close(); err != nil {
		return err
	}
	sum := map[string]interface{}{
		"records": w.N, "sent": atomic.LoadInt64(&sent), "discarded_rounds": discarded, "rounds_not_quiet": notQuiet, "rounds_blockers_lost": blockFailed,
		"hook_handleConn": atomic.LoadInt64(&hookHandleConn) - baseRecv, "hook_invoked": atomic.LoadInt64(&hookInvoked) - base,
		"hook_written": atomic.LoadInt64(&hookWritten), "maxroutine": info.maxInvoke, "handletimeout_ms": info.htMs,
		"filters": o.filters, "servant": o.servant, "filter_stage_entries": flog.kinds(), "filter_stages_per_call": stagesPerCall[o.filters],
	}
	b, _ := json.Marshal(sum)
	fmt.Println(string(b))
	os.Stdout.Sync()
	return nil
}

// pending = frames received and not yet taken
func (p *peer) pending() int {
	p.mu.Lock()
	defer p.mu.Unlock()
	return len(p.frames)
}

// udpShort: F6 probe.  A datagram shorter than the 4-byte frame header, then a ping; reports whether the
// process (which hosts the server) is still alive to answer.
func udpShort(n int) error {
	dir, err := os.MkdirTemp("", "srvdrive-udpshort-")
	if err != nil {
		return err
	}
	defer os.RemoveAll(dir)
	info, err := startServer("udp", 0, 0, dir, "none", "ctx")
	if err != nil {
		return err
	}
	p, err := dialPeer(1, "udp", info.addr)
	if err != nil {
		return err
	}
	ping := &request{K: 0, Ver: 1, ID: 7, Fn: "tars_ping", Tmo: "zero", Cls: "-"}
	ping.build(rand.New(rand.NewSource(1)))
	ok := false
	for i := 0; i < 100 && !ok; i++ {
		p.c.Write(ping.frame)
		ok = waitUntil(50*time.Millisecond, func() bool { return p.received() > 0 })
	}
	if !ok {
		return fmt.Errorf("udp server did not come up")
	}
	before := p.received()
	p.c.Write(make([]byte, n))
	time.Sleep(300 * time.Millisecond)
	p.c.Write(ping.frame)
	alive := waitUntil(2*time.Second, func() bool { return p.received() > before })
	fmt.Printf("{\"short_len\":%d,\"answered_after\":%v}\n", n, alive)
	return nil
}
