package main

import (
	"encoding/binary"
	"errors"
	"io"
	"net"
	"sync"
	"time"
)

// peer is one scripted raw client: a TCP connection or a UDP socket.  Everything that comes back is kept
// as raw frames (length prefix included); nothing is decoded on this side.
type peer struct {
	id     int
	udp    bool
	c      net.Conn
	mu     sync.Mutex
	frames [][]byte
	total  int
	dead   bool
}

func dialPeer(id int, proto, addr string) (*peer, error) {
	var c net.Conn
	var err error
	for i := 0; i < 100; i++ {
		c, err = net.DialTimeout(proto, addr, time.Second)
		if err == nil {
			break
		}
		time.Sleep(50 * time.Millisecond)
	}
	if err != nil {
		return nil, err
	}
	p := &peer{id: id, udp: proto == "udp", c: c}
	if p.udp {
		go p.readUDP()
	} else {
		if t, ok := c.(*net.TCPConn); ok {
			t.SetNoDelay(true)
		}
		go p.readTCP()
	}
	return p, nil
}

func (p *peer) add(f []byte) {
	p.mu.Lock()
	p.frames = append(p.frames, f)
	p.total++
	p.mu.Unlock()
}

func (p *peer) readTCP() {
	for {
		hdr := make([]byte, 4)
		if _, err := io.ReadFull(p.c, hdr); err != nil {
			p.mu.Lock()
			p.dead = true
			p.mu.Unlock()
			return
		}
		n := binary.BigEndian.Uint32(hdr)
		if n < 4 || n > 1<<20 {
			// not a frame: keep what can still be read as one piece of garbage (the oracle rejects it)
			rest := make([]byte, 4096)
			p.c.SetReadDeadline(time.Now().Add(200 * time.Millisecond))
			m, _ := p.c.Read(rest)
			p.add(append(hdr, rest[:m]...))
			p.mu.Lock()
			p.dead = true
			p.mu.Unlock()
			return
		}
		body := make([]byte, n-4)
		if _, err := io.ReadFull(p.c, body); err != nil {
			p.add(append(hdr, body...))
			p.mu.Lock()
			p.dead = true
			p.mu.Unlock()
			return
		}
		p.add(append(hdr, body...))
	}
}

func (p *peer) readUDP() {
	buf := make([]byte, 65535)
	for {
		n, err := p.c.Read(buf)
		if err != nil {
			if errors.Is(err, net.ErrClosed) {
				p.mu.Lock()
				p.dead = true
				p.mu.Unlock()
				return
			}
			time.Sleep(time.Millisecond) // ICMP "port unreachable" while the server socket is not bound yet
			continue
		}
		f := make([]byte, n)
		copy(f, buf[:n])
		p.add(f)
	}
}

// take returns and forgets the frames received so far.
func (p *peer) take() [][]byte {
	p.mu.Lock()
	defer p.mu.Unlock()
	f := p.frames
	p.frames = nil
	return f
}

func (p *peer) received() int {
	p.mu.Lock()
	defer p.mu.Unlock()
	return p.total
}

// send writes the frames: TCP pipelines them in arbitrary chunks, UDP sends one datagram per frame.
func (p *peer) send(frames [][]byte, chunk func(n int) int) error {
	if p.udp {
		for _, f := range frames {
			if _, err := p.c.Write(f); err != nil {
				return err
			}
		}
		return nil
	}
	var all []byte
	for _, f := range frames {
		all = append(all, f...)
	}
	for len(all) > 0 {
		n := chunk(len(all))
		if _, err := p.c.Write(all[:n]); err != nil {
			return err
		}
		all = all[n:]
	}
	return nil
}
