package main

import (
	"context"
	"errors"
	"fmt"
	"net"
	"os"
	"path/filepath"
	"sync"
	"sync/atomic"
	"time"

	"github.com/TarsCloud/TarsGo/tars"
	"github.com/TarsCloud/TarsGo/tars/protocol/res/requestf"
	"github.com/TarsCloud/TarsGo/tars/util/rogger"
	"github.com/TarsCloud/TarsGo/tars/util/vhook"
	"verifharness/gen/Srv"
)

const objName = "App.Server.Obj"

// slow classes (argument cls of Srv.Svc.slow)
const (
	clsShort = 0 // sleeps a few ms (only used without a handle timeout)
	clsOver  = 1 // waits for its gate: far longer than the handle timeout
	clsNear  = 2 // sleeps about the handle timeout: either outcome of the race is legitimate
	clsBlock = 3 // waits for its gate: occupies a pool worker while others queue behind it
)

// ---------------------------------------------------------------- recording implementation

type recorder struct {
	mu      sync.Mutex
	started map[int32]int // implementation entered, by request index k
	ended   map[int32]int
	gates   map[int32]chan struct{}
	htMs    int
}

var rec = &recorder{started: map[int32]int{}, ended: map[int32]int{}, gates: map[int32]chan struct{}{}}

func (r *recorder) enter(k int32) {
	r.mu.Lock()
	r.started[k]++
	r.mu.Unlock()
}
func (r *recorder) leave(k int32) {
	r.mu.Lock()
	r.ended[k]++
	r.mu.Unlock()
}
func (r *recorder) gate(k int32) chan struct{} {
	r.mu.Lock()
	defer r.mu.Unlock()
	g, ok := r.gates[k]
	if !ok {
		g = make(chan struct{})
		r.gates[k] = g
	}
	return g
}
func (r *recorder) open(k int32) {
	g := r.gate(k)
	r.mu.Lock()
	select {
	case <-g:
	default:
		close(g)
	}
	r.mu.Unlock()
}
func (r *recorder) startedN(k int32) int {
	r.mu.Lock()
	defer r.mu.Unlock()
	return r.started[k]
}
func (r *recorder) endedN(k int32) int {
	r.mu.Lock()
	defer r.mu.Unlock()
	return r.ended[k]
}

type imp struct{}

func (imp) Ok(ctx context.Context, k int32, y *int32) (int32, error) {
	rec.enter(k)
	defer rec.leave(k)
	*y = k + 1
	return 0, nil
}

func (imp) Fail(ctx context.Context, k int32, code int32, msg string) (int32, error) {
	rec.enter(k)
	defer rec.leave(k)
	if code == 0 {
		return 0, errors.New(msg) // an error that is not a *tars.Error
	}
	return 0, &tars.Error{Code: code, Message: msg}
}

func (imp) Slow(ctx context.Context, k int32, cls int32, y *int32) (int32, error) {
	rec.enter(k)
	defer rec.leave(k)
	switch cls {
	case clsShort:
		time.Sleep(time.Duration(3+int(k)%25) * time.Millisecond)
	case clsNear:
		d := time.Duration(rec.htMs)*time.Millisecond + time.Duration(int(k)%7-3)*300*time.Microsecond
		time.Sleep(d)
	default:
		select {
		case <-rec.gate(k):
		case <-time.After(20 * time.Second):
		}
	}
	*y = k
	return 0, nil
}

func (imp) Note(ctx context.Context, k int32) error {
	rec.enter(k)
	defer rec.leave(k)
	return nil
}

// the same implementation registered without context (AddServant): Protocol.Invoke and the generated dispatcher take
// their withContext = false branches
type impPlain struct{}

func (impPlain) Ok(k int32, y *int32) (int32, error) { return imp{}.Ok(context.Background(), k, y) }
func (impPlain) Fail(k int32, code int32, msg string) (int32, error) {
	return imp{}.Fail(context.Background(), k, code, msg)
}
func (impPlain) Slow(k int32, cls int32, y *int32) (int32, error) {
	return imp{}.Slow(context.Background(), k, cls, y)
}
func (impPlain) Note(k int32) error { return imp{}.Note(context.Background(), k) }

// ---------------------------------------------------------------- server filters (process-wide registrations)
//
// Every filter is an observer that passes the call on unchanged, the way a metrics / tracing plug-in does: the legacy
// filter and the middlewares call the next stage and return its error, pre and post filters return nil.  With such
// filters registered the server owes exactly the same replies as without them.  What the filters saw is recorded per
// request id (an observation for the evidence; the statement does not say which requests a filter sees).

var filterKinds = map[string]bool{"none": true, "legacy": true, "prepost": true, "mw": true, "all": true}

type filterLog struct {
	mu     sync.Mutex
	stages map[int32]int // request id -> filter stages entered
	byKind map[string]int64
}

var flog = &filterLog{stages: map[int32]int{}, byKind: map[string]int64{}}

func (l *filterLog) note(kind string, req *requestf.RequestPacket) {
	l.mu.Lock()
	l.stages[req.IRequestId]++
	l.byKind[kind]++
	l.mu.Unlock()
}
func (l *filterLog) seen(id int32) int {
	l.mu.Lock()
	defer l.mu.Unlock()
	return l.stages[id]
}
func (l *filterLog) kinds() map[string]int64 {
	l.mu.Lock()
	defer l.mu.Unlock()
	o := map[string]int64{}
	for k, v := range l.byKind {
		o[k] = v
	}
	return o
}

// stagesPerCall: how many filter stages a dispatched call passes under each registration (the legacy filter, when
// registered, is the only one the framework consults)
var stagesPerCall = map[string]int{"none": 0, "legacy": 1, "prepost": 4, "mw": 2, "all": 1}

func registerFilters(kind string) {
	observer := func(name string) tars.ServerFilter {
		return func(ctx context.Context, d tars.Dispatch, f interface{}, req *requestf.RequestPacket, resp *requestf.ResponsePacket, withContext bool) error {
			flog.note(name, req)
			return nil
		}
	}
	middleware := func(name string) tars.ServerFilterMiddleware {
		return func(next tars.ServerFilter) tars.ServerFilter {
			return func(ctx context.Context, d tars.Dispatch, f interface{}, req *requestf.RequestPacket, resp *requestf.ResponsePacket, withContext bool) error {
				flog.note(name, req)
				return next(ctx, d, f, req, resp, withContext)
			}
		}
	}
	if kind == "legacy" || kind == "all" {
		tars.RegisterServerFilter(func(ctx context.Context, d tars.Dispatch, f interface{}, req *requestf.RequestPacket, resp *requestf.ResponsePacket, withContext bool) error {
			flog.note("legacy", req)
			return d(ctx, f, req, resp, withContext)
		})
	}
	if kind == "prepost" || kind == "all" {
		tars.RegisterPreServerFilter(observer("pre1"))
		tars.RegisterPreServerFilter(observer("pre2"))
		tars.RegisterPostServerFilter(observer("post1"))
		tars.RegisterPostServerFilter(observer("post2"))
	}
	if kind == "mw" || kind == "all" {
		tars.UseServerFilterMiddleware(middleware("mw1"), middleware("mw2"))
	}
}

// ---------------------------------------------------------------- hooks (TCP transport only)

var hookHandleConn, hookInvoked, hookWritten int64

func installHooks() {
	vhook.Set(func(point string, a ...interface{}) {
		switch point {
		case "tcp.handleConn":
			atomic.AddInt64(&hookHandleConn, 1)
		case "tcp.handler.invoked":
			atomic.AddInt64(&hookInvoked, 1)
		case "tcp.handler.written":
			atomic.AddInt64(&hookWritten, 1)
		}
	})
}

// ---------------------------------------------------------------- the server, through the public API

func freePort(proto string) (int, error) {
	if proto == "udp" {
		c, err := net.ListenUDP("udp", &net.UDPAddr{IP: net.IPv4(127, 0, 0, 1)})
		if err != nil {
			return 0, err
		}
		defer c.Close()
		return c.LocalAddr().(*net.UDPAddr).Port, nil
	}
	l, err := net.Listen("tcp", "127.0.0.1:0")
	if err != nil {
		return 0, err
	}
	defer l.Close()
	return l.Addr().(*net.TCPAddr).Port, nil
}

type serverInfo struct {
	addr      string
	maxInvoke int32
	htMs      int
}

func startServer(proto string, pool, ht int, dir string, filters, servant string) (*serverInfo, error) {
	if !filterKinds[filters] {
		return nil, fmt.Errorf("unknown -filters %q", filters)
	}
	if servant != "ctx" && servant != "plain" {
		return nil, fmt.Errorf("unknown -servant %q", servant)
	}
	port, err := freePort(proto)
	if err != nil {
		return nil, err
	}
	conf := fmt.Sprintf(`<tars>
    <application>
        <server>
            app=App
            server=Server
            localip=127.0.0.1
            maxroutine=%d
            handletimeout=%d
            queuecap=4096
            tcpnodelay=true
            logLevel=ERROR
            <App.Server.ObjAdapter>
                allow
                endpoint=%s -h 127.0.0.1 -p %d -t 60000
                handlegroup=App.Server.ObjAdapter
                maxconns=1024
                protocol=tars
                queuecap=4096
                queuetimeout=60000
                servant=%s
                threads=2
            </App.Server.ObjAdapter>
        </server>
    </application>
</tars>
`, pool, ht, proto, port, objName)
	path := filepath.Join(dir, fmt.Sprintf("srv-%d.conf", os.Getpid()))
	if err := os.WriteFile(path, []byte(conf), 0o644); err != nil {
		return nil, err
	}
	tars.ServerConfigPath = path
	cfg := tars.GetServerConfig() // parses the file; must precede AddServantWithContext
	if os.Getenv("VERIF_LOG") == "" {
		rogger.SetLevel(rogger.OFF)
	}
	info := &serverInfo{addr: fmt.Sprintf("127.0.0.1:%d", port), maxInvoke: cfg.MaxInvoke, htMs: int(cfg.HandleTimeout / time.Millisecond)}
	if int(cfg.MaxInvoke) != pool || info.htMs != ht {
		return nil, fmt.Errorf("configuration not taken: maxroutine %d (want %d), handletimeout %v (want %d ms)", cfg.MaxInvoke, pool, cfg.HandleTimeout, ht)
	}
	rec.htMs = ht
	registerFilters(filters)
	app := new(Srv.Svc)
	if servant == "plain" {
		app.AddServant(impPlain{}, objName)
	} else {
		app.AddServantWithContext(imp{}, objName)
	}
	go tars.Run()
	return info, nil
}
