CONSTANTS G <- GS  NE = 2  K = 2  Drain = FALSE  SignalFirst = FALSE
SPECIFICATION Spec
INVARIANTS TypeOK OnceEach OrderPerGoroutine FlushComplete
PROPERTIES FlushReturns
CHECK_DEADLOCK FALSE
