------------------------------ MODULE LogFlush ------------------------------
(* Model of tars/util/rogger: logQueue, the background flusher (flushLog) with its two     *)
(* selects, and the flush handshake (FlushLogger: syncCancel, then wait for asyncDone).    *)
(* Go select semantics are explicit: a goroutine entering a select takes a ready case      *)
(* (any of them when several are ready) or parks; a parked receiver is handed the value    *)
(* of the next send directly, and is woken by the close of the context it waits on.        *)
(* Drain = TRUE models the repaired loop (on the flush request the flusher empties the     *)
(* queue before signalling completion); Drain = FALSE is the loop as originally written.   *)
(* SignalFirst = TRUE (with Drain) is the class "completion is signalled when the flush    *)
(* request is seen, the queue is emptied afterwards": every entry still reaches the writer, *)
(* once and in order, but FlushLogger can return before -- FlushComplete must reject it.   *)
EXTENDS Integers, Sequences, FiniteSets, TLC
CONSTANTS G,        \* logging goroutines
          NE,       \* entries per goroutine
          K,        \* queue capacity
          Drain,
          SignalFirst   \* FALSE: the code under verification; TRUE: completion signalled before the final drain (guard model)
Entries == G \X (1..NE)
VARIABLES q,          \* logQueue buffer
          next,       \* next[g]: index of the next entry goroutine g will log
          lpc,        \* lpc[g]: "idle" | "calling" (inside the logging call, entry not yet sent) | "sent"
          fpc, fv,    \* flusher pc: "outer" | "between" | "parked" | "got" | "exiting" | "gotx" | "done"; held entry
          written,    \* sequence of entries handed to the writer
          syncDone, asyncDone,
          rpc,        \* flush requester: "idle" | "requested" | "returned"
          snapshot    \* entries whose logging call had returned when the flush was requested
vars == <<q, next, lpc, fpc, fv, written, syncDone, asyncDone, rpc, snapshot>>
None == <<0, 0>>
Init == /\ q = <<>> /\ next = [g \in G |-> 1] /\ lpc = [g \in G |-> "idle"] /\ fpc = "outer" /\ fv = None /\ written = <<>>
        /\ syncDone = FALSE /\ asyncDone = FALSE /\ rpc = "idle" /\ snapshot = {}

Returned == {e \in Entries : e[2] < next[e[1]]}
\* ---- a logging call: LogCall (the goroutine enters Writef/WriteLog), Enq (logQueue <- entry: buffered, or handed
\* to the flusher parked in the inner select), LogRet (the call returns)
LogCall(g) == /\ next[g] <= NE /\ lpc[g] = "idle" /\ lpc' = [lpc EXCEPT ![g] = "calling"]
              /\ UNCHANGED <<q, next, fpc, fv, written, syncDone, asyncDone, rpc, snapshot>>
Enq(g) ==
  /\ lpc[g] = "calling"
  /\ LET e == <<g, next[g]>> IN
     IF fpc = "parked"
       THEN fpc' = "got" /\ fv' = e /\ UNCHANGED q
       ELSE Len(q) < K /\ q' = Append(q, e) /\ UNCHANGED <<fpc, fv>>
  /\ lpc' = [lpc EXCEPT ![g] = "sent"]
  /\ UNCHANGED <<next, written, syncDone, asyncDone, rpc, snapshot>>
LogRet(g) == /\ lpc[g] = "sent" /\ lpc' = [lpc EXCEPT ![g] = "idle"] /\ next' = [next EXCEPT ![g] = @ + 1]
             /\ UNCHANGED <<q, fpc, fv, written, syncDone, asyncDone, rpc, snapshot>>
\* ---- flusher
FOuter ==                                    \* outer select with default
  /\ fpc = "outer"
  /\ IF q # <<>> THEN fpc' = "got" /\ fv' = Head(q) /\ q' = Tail(q)
     ELSE fpc' = "between" /\ UNCHANGED <<fv, q>>
  /\ UNCHANGED <<next, lpc, written, syncDone, asyncDone, rpc, snapshot>>
FInnerTake ==                                \* inner select: the queue case is ready and chosen
  /\ fpc = "between" /\ q # <<>>
  /\ fpc' = "got" /\ fv' = Head(q) /\ q' = Tail(q)
  /\ UNCHANGED <<next, lpc, written, syncDone, asyncDone, rpc, snapshot>>
FInnerDone ==                                \* inner select: the done case is ready and chosen
  /\ fpc = "between" /\ syncDone
  /\ fpc' = "exiting"
  /\ UNCHANGED <<q, next, lpc, fv, written, syncDone, asyncDone, rpc, snapshot>>
FPark ==                                     \* nothing ready: park in the inner select
  /\ fpc = "between" /\ q = <<>> /\ ~syncDone
  /\ fpc' = "parked"
  /\ UNCHANGED <<q, next, lpc, fv, written, syncDone, asyncDone, rpc, snapshot>>
FWrite ==
  /\ fpc \in {"got", "gotx"}
  /\ written' = Append(written, fv) /\ fv' = None
  /\ fpc' = IF fpc = "got" THEN "outer" ELSE "exiting"
  /\ UNCHANGED <<q, next, lpc, syncDone, asyncDone, rpc, snapshot>>
FExit ==                                     \* after the done case: (repaired) drain, then asyncCancel
  /\ fpc = "exiting"
  /\ IF Drain /\ q # <<>>
       THEN fpc' = "gotx" /\ fv' = Head(q) /\ q' = Tail(q) /\ asyncDone' = (asyncDone \/ SignalFirst)
       ELSE fpc' = "done" /\ asyncDone' = TRUE /\ UNCHANGED <<fv, q>>
  /\ UNCHANGED <<next, lpc, written, syncDone, rpc, snapshot>>
\* ---- FlushLogger: FlushCall (the requester enters; what had been logged by then is the obligation),
\* FlushReq (syncCancel), FlushRet (asyncDone observed)
FlushCall == /\ rpc = "idle" /\ rpc' = "calling" /\ snapshot' = Returned
             /\ UNCHANGED <<q, next, lpc, fpc, fv, written, syncDone, asyncDone>>
FlushReq ==
  /\ rpc = "calling"
  /\ rpc' = "requested" /\ syncDone' = TRUE
  /\ fpc' = IF fpc = "parked" THEN "exiting" ELSE fpc        \* a flusher parked on the context is woken by its close
  /\ UNCHANGED <<q, next, lpc, fv, written, asyncDone, snapshot>>
FlushRet ==
  /\ rpc = "requested" /\ asyncDone
  /\ rpc' = "returned"
  /\ UNCHANGED <<q, next, lpc, fpc, fv, written, syncDone, asyncDone, snapshot>>
Flusher == FOuter \/ FInnerTake \/ FInnerDone \/ FPark \/ FWrite \/ FExit
Next == (\E g \in G : LogCall(g) \/ Enq(g) \/ LogRet(g)) \/ Flusher \/ FlushCall \/ FlushReq \/ FlushRet
Spec == Init /\ [][Next]_vars /\ WF_vars(Flusher) /\ WF_vars(FlushReq) /\ WF_vars(FlushRet)

\* ---------------------------------------------------------------- properties (C20)
WrittenSet == {written[i] : i \in 1..Len(written)}
TypeOK == Len(q) <= K /\ fpc \in {"outer", "between", "parked", "got", "exiting", "gotx", "done"}
OnceEach == \A i, j \in 1..Len(written) : written[i] = written[j] => i = j
OrderPerGoroutine == \A i, j \in 1..Len(written) : (i < j /\ written[i][1] = written[j][1]) => written[i][2] < written[j][2]
\* everything logged before the flush request has reached the writer when the flush returns
FlushComplete == rpc = "returned" => snapshot \subseteq WrittenSet
FlushReturns == (rpc = "calling") ~> (rpc = "returned")
=============================================================================
