CONSTANTS G = {1, 2, 3}  NE = 45  K = @K@  Drain = TRUE  SignalFirst = FALSE
SPECIFICATION TraceSpec
INVARIANTS TypeOK OnceEach OrderPerGoroutine FlushComplete
CONSTRAINT HighWater
POSTCONDITION TraceAccepted
CHECK_DEADLOCK FALSE
