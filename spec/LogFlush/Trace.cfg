CONSTANTS G = {1, 2, 3}  NE = 6  K = 10000  Drain = TRUE
SPECIFICATION TraceSpec
INVARIANTS TypeOK OnceEach OrderPerGoroutine FlushComplete
CONSTRAINT HighWater
POSTCONDITION TraceAccepted
CHECK_DEADLOCK FALSE
