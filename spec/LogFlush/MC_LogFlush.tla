---- MODULE MC_LogFlush ----
EXTENDS LogFlush
GS == {1, 2}
====
