---- MODULE Trace_LogFlush ----
(* Trace validation of recorded runs of the real logger.  Visible events: LogCall/LogRet (harness, around  *)
(* the logging call), Write (the recording LogWriter, i.e. the flusher's write), Between (hook between the  *)
(* flusher's two selects), FlushCall/FlushRet (harness, around FlushLogger).  Silent: Enq, the flusher's     *)
(* selects, FlushReq.  FlushComplete is evaluated on every state, in particular at FlushRet.                *)
EXTENDS LogFlush, Json
VARIABLE l
Trace == ndJsonDeserialize("trace.ndjson")
tvars == <<vars, l>>
TraceInit == Init /\ l = 1
IsEvent(e) == l <= Len(Trace) /\ Trace[l].e = e /\ l' = l + 1
TLogCall == IsEvent("LogCall") /\ LogCall(Trace[l].g) /\ next[Trace[l].g] = Trace[l].i
TLogRet == IsEvent("LogRet") /\ LogRet(Trace[l].g) /\ next[Trace[l].g] = Trace[l].i
TWrite == IsEvent("Write") /\ FWrite /\ fv = <<Trace[l].g, Trace[l].i>>
\* the hook fires after the outer select found the queue empty and before the inner select: an observation of the
\* flusher's position (the outer select itself is silent, its moment is not the moment the event is recorded)
TBetween == IsEvent("Between") /\ fpc = "between" /\ UNCHANGED vars
TFlushCall == IsEvent("FlushCall") /\ FlushCall
TFlushRet == IsEvent("FlushRet") /\ FlushRet
TReset == /\ IsEvent("Reset")
          /\ q' = <<>> /\ next' = [g \in G |-> 1] /\ lpc' = [g \in G |-> "idle"] /\ fpc' = "outer" /\ fv' = None
          /\ written' = <<>> /\ syncDone' = FALSE /\ asyncDone' = FALSE /\ rpc' = "idle" /\ snapshot' = {}
TSilent == /\ \/ \E g \in G : Enq(g)
              \/ FOuter \/ FInnerTake \/ FInnerDone \/ FPark \/ FExit \/ FlushReq
           /\ UNCHANGED l
\* the run's configuration (queue capacity: the traces are validated in groups of equal capacity, see Trace.cfg)
TConfig == IsEvent("Config") /\ Trace[l].k = K /\ UNCHANGED vars
TraceNext == TConfig \/ TLogCall \/ TLogRet \/ TWrite \/ TBetween \/ TFlushCall \/ TFlushRet \/ TReset \/ TSilent
TraceSpec == TraceInit /\ [][TraceNext]_tvars
ASSUME TLCSet(1, 0)
HighWater == (IF l > TLCGet(1) THEN TLCSet(1, l) ELSE TRUE)
TraceAccepted == /\ PrintT(<<"HWM", TLCGet(1), Len(Trace)>>)
                 /\ TLCGet(1) = Len(Trace) + 1
====
