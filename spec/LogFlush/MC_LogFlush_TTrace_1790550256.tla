---- MODULE MC_LogFlush_TTrace_1790550256 ----
EXTENDS Sequences, TLCExt, Toolbox, Naturals, TLC, MC_LogFlush

_expression ==
    LET MC_LogFlush_TEExpression == INSTANCE MC_LogFlush_TEExpression
    IN MC_LogFlush_TEExpression!expression
----

_trace ==
    LET MC_LogFlush_TETrace == INSTANCE MC_LogFlush_TETrace
    IN MC_LogFlush_TETrace!trace
----

_inv ==
    ~(
        TLCGet("level") = Len(_TETrace)
        /\
        fv = (<<0, 0>>)
        /\
        next = (<<2, 1>>)
        /\
        asyncDone = (TRUE)
        /\
        q = (<<<<1, 1>>>>)
        /\
        rpc = ("returned")
        /\
        fpc = ("done")
        /\
        written = (<<>>)
        /\
        syncDone = (TRUE)
        /\
        snapshot = ({<<1, 1>>})
    )
----

_init ==
    /\ asyncDone = _TETrace[1].asyncDone
    /\ fpc = _TETrace[1].fpc
    /\ written = _TETrace[1].written
    /\ q = _TETrace[1].q
    /\ rpc = _TETrace[1].rpc
    /\ fv = _TETrace[1].fv
    /\ next = _TETrace[1].next
    /\ syncDone = _TETrace[1].syncDone
    /\ snapshot = _TETrace[1].snapshot
----

_next ==
    /\ \E i,j \in DOMAIN _TETrace:
        /\ \/ /\ j = i + 1
              /\ i = TLCGet("level")
        /\ asyncDone  = _TETrace[i].asyncDone
        /\ asyncDone' = _TETrace[j].asyncDone
        /\ fpc  = _TETrace[i].fpc
        /\ fpc' = _TETrace[j].fpc
        /\ written  = _TETrace[i].written
        /\ written' = _TETrace[j].written
        /\ q  = _TETrace[i].q
        /\ q' = _TETrace[j].q
        /\ rpc  = _TETrace[i].rpc
        /\ rpc' = _TETrace[j].rpc
        /\ fv  = _TETrace[i].fv
        /\ fv' = _TETrace[j].fv
        /\ next  = _TETrace[i].next
        /\ next' = _TETrace[j].next
        /\ syncDone  = _TETrace[i].syncDone
        /\ syncDone' = _TETrace[j].syncDone
        /\ snapshot  = _TETrace[i].snapshot
        /\ snapshot' = _TETrace[j].snapshot

\* Uncomment the ASSUME below to write the states of the error trace
\* to the given file in Json format. Note that you can pass any tuple
\* to `JsonSerialize`. For example, a sub-sequence of _TETrace.
    \* ASSUME
    \*     LET J == INSTANCE Json
    \*         IN J!JsonSerialize("MC_LogFlush_TTrace_1790550256.json", _TETrace)

=============================================================================

 Note that you can extract this module `MC_LogFlush_TEExpression`
  to a dedicated file to reuse `expression` (the module in the 
  dedicated `MC_LogFlush_TEExpression.tla` file takes precedence 
  over the module `MC_LogFlush_TEExpression` below).

---- MODULE MC_LogFlush_TEExpression ----
EXTENDS Sequences, TLCExt, Toolbox, Naturals, TLC, MC_LogFlush

expression == 
    [
        \* To hide variables of the `MC_LogFlush` spec from the error trace,
        \* remove the variables below.  The trace will be written in the order
        \* of the fields of this record.
        asyncDone |-> asyncDone
        ,fpc |-> fpc
        ,written |-> written
        ,q |-> q
        ,rpc |-> rpc
        ,fv |-> fv
        ,next |-> next
        ,syncDone |-> syncDone
        ,snapshot |-> snapshot
        
        \* Put additional constant-, state-, and action-level expressions here:
        \* ,_stateNumber |-> _TEPosition
        \* ,_asyncDoneUnchanged |-> asyncDone = asyncDone'
        
        \* Format the `asyncDone` variable as Json value.
        \* ,_asyncDoneJson |->
        \*     LET J == INSTANCE Json
        \*     IN J!ToJson(asyncDone)
        
        \* Lastly, you may build expressions over arbitrary sets of states by
        \* leveraging the _TETrace operator.  For example, this is how to
        \* count the number of times a spec variable changed up to the current
        \* state in the trace.
        \* ,_asyncDoneModCount |->
        \*     LET F[s \in DOMAIN _TETrace] ==
        \*         IF s = 1 THEN 0
        \*         ELSE IF _TETrace[s].asyncDone # _TETrace[s-1].asyncDone
        \*             THEN 1 + F[s-1] ELSE F[s-1]
        \*     IN F[_TEPosition - 1]
    ]

=============================================================================



Parsing and semantic processing can take forever if the trace below is long.
 In this case, it is advised to uncomment the module below to deserialize the
 trace from a generated binary file.

\*
\*---- MODULE MC_LogFlush_TETrace ----
\*EXTENDS IOUtils, TLC, MC_LogFlush
\*
\*trace == IODeserialize("MC_LogFlush_TTrace_1790550256.bin", TRUE)
\*
\*=============================================================================
\*

---- MODULE MC_LogFlush_TETrace ----
EXTENDS TLC, MC_LogFlush

trace == 
    <<
    ([fv |-> <<0, 0>>,next |-> <<1, 1>>,asyncDone |-> FALSE,q |-> <<>>,rpc |-> "idle",fpc |-> "outer",written |-> <<>>,syncDone |-> FALSE,snapshot |-> {}]),
    ([fv |-> <<0, 0>>,next |-> <<1, 1>>,asyncDone |-> FALSE,q |-> <<>>,rpc |-> "idle",fpc |-> "between",written |-> <<>>,syncDone |-> FALSE,snapshot |-> {}]),
    ([fv |-> <<0, 0>>,next |-> <<2, 1>>,asyncDone |-> FALSE,q |-> <<<<1, 1>>>>,rpc |-> "idle",fpc |-> "between",written |-> <<>>,syncDone |-> FALSE,snapshot |-> {}]),
    ([fv |-> <<0, 0>>,next |-> <<2, 1>>,asyncDone |-> FALSE,q |-> <<<<1, 1>>>>,rpc |-> "requested",fpc |-> "between",written |-> <<>>,syncDone |-> TRUE,snapshot |-> {<<1, 1>>}]),
    ([fv |-> <<0, 0>>,next |-> <<2, 1>>,asyncDone |-> FALSE,q |-> <<<<1, 1>>>>,rpc |-> "requested",fpc |-> "exiting",written |-> <<>>,syncDone |-> TRUE,snapshot |-> {<<1, 1>>}]),
    ([fv |-> <<0, 0>>,next |-> <<2, 1>>,asyncDone |-> TRUE,q |-> <<<<1, 1>>>>,rpc |-> "requested",fpc |-> "done",written |-> <<>>,syncDone |-> TRUE,snapshot |-> {<<1, 1>>}]),
    ([fv |-> <<0, 0>>,next |-> <<2, 1>>,asyncDone |-> TRUE,q |-> <<<<1, 1>>>>,rpc |-> "returned",fpc |-> "done",written |-> <<>>,syncDone |-> TRUE,snapshot |-> {<<1, 1>>}])
    >>
----


=============================================================================

---- CONFIG MC_LogFlush_TTrace_1790550256 ----
CONSTANTS
    G <- GS
    NE = 2
    K = 2
    Drain = FALSE

INVARIANT
    _inv

CHECK_DEADLOCK
    \* CHECK_DEADLOCK off because of PROPERTY or INVARIANT above.
    FALSE

INIT
    _init

NEXT
    _next

CONSTANT
    _TETrace <- _trace

ALIAS
    _expression
=============================================================================
\* Generated on Sun Sep 27 23:04:17 UTC 2026