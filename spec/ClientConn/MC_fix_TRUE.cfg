CONSTANTS MaxConn = 3  Reqs = {1, 2, 3}  Fix = TRUE  RedialFirst = TRUE  MaxRestart = 0  MaxInFlight = 3  Mut = "none"
SPECIFICATION Spec
INVARIANTS TypeOK NoWriteOnKnownDead HealthyNotMarkedClosed NoStranding NoFailAfterDead DeadNotTreatedAsLive
CHECK_DEADLOCK FALSE
