CONSTANTS MaxConn = 3  Reqs = {1, 2, 3}  Fix = FALSE  RedialFirst = TRUE
SPECIFICATION Spec
INVARIANTS TypeOK NoWriteOnKnownDead HealthyNotMarkedClosed NoStranding
CHECK_DEADLOCK FALSE
