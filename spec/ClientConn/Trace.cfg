CONSTANTS MaxConn = 6  Reqs = {1, 2, 3, 4, 5, 6, 7, 8}  Fix = TRUE  RedialFirst = @REDIAL_FIRST@  MaxRestart = 4  MaxInFlight = 8  Mut = "none"
SPECIFICATION TraceSpec
INVARIANTS TypeOK NoWriteOnKnownDead HealthyNotMarkedClosed NoFailAfterDead
CONSTRAINT HighWater
POSTCONDITION TraceAccepted
CHECK_DEADLOCK FALSE
