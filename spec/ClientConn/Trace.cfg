CONSTANTS MaxConn = 6  Reqs = {1, 2, 3, 4, 5, 6}  Fix = TRUE  RedialFirst = @REDIAL_FIRST@
SPECIFICATION TraceSpec
INVARIANTS TypeOK NoWriteOnKnownDead HealthyNotMarkedClosed
CONSTRAINT HighWater
POSTCONDITION TraceAccepted
CHECK_DEADLOCK FALSE
