----------------------------- MODULE ClientConn -----------------------------
(* Model of tars/transport/tarsclient.go: TarsClient + connection.                                     *)
(* Shared: isClosed, the current connection, sendQueue, sendFailQueue (capacity 1).  Per TCP connection *)
(* k: a sender goroutine and a receiver goroutine, connDone[k] (buffered, capacity 1).                  *)
(* One action per step between blocking points; Go channel semantics explicit: a send finds the        *)
(* longest-parked receiver and hands the value over directly (this is what lets the sender of an old,   *)
(* dead connection take a new request).                                                                 *)
(* Fix = TRUE models the repaired code:                                                                 *)
(*   (1) close(conn) marks the shared isClosed only when conn is the current connection,                *)
(*   (2) the sender's inner select also watches sendFailQueue and connDone,                             *)
(*   (3) after dequeuing, a sender whose connection is no longer the live one does not write: it puts   *)
(*       the request into sendFailQueue, makes sure a live connection exists (ReConnect) and exits.     *)
(* Fix = FALSE is the code as originally written.                                                       *)
(* The server endpoint itself may go away and come back (restart: up -> stopping -> down -> starting ->  *)
(* up; in the two transitional phases a dial may succeed or fail).  A dial that fails is remembered by   *)
(* ReConnect (lastDialErr; sawFail[r] = a failed dial ended after caller r arrived, i.e. arrived.Before( *)
(* lastDialEnd)): only a caller that was queued behind the failed dial may share its error without        *)
(* dialling; everybody else dials.  A call owes nothing while the endpoint is not up.                     *)
EXTENDS Integers, Sequences, FiniteSets, TLC
CONSTANTS MaxConn, Reqs, Fix, RedialFirst, MaxRestart, MaxInFlight,
          Mut    \* "none", or a deliberately wrong design used as a vacuity guard of the properties: "staleDialError" (the remembered dial
                 \* error is handed to callers that were NOT queued behind the failed dial), "assignClosed" (close(conn) assigns
                 \* isClosed = (conn is current) instead of only ever setting it)
Conns == 1..MaxConn
VARIABLES
  isClosed, cur, nconn,          \* shared connection struct: flag, index of the current TCP connection, connections dialled so far
  lclosed, pclosed,              \* per TCP connection: closed locally / closed by the server
  connDone,                      \* per connection: 0/1 tokens in the buffered channel
  spc, sm, rpc,                  \* sender pc + held request, receiver pc
  sendQ, failQ, recvq,           \* channel buffers; FIFO of senders parked on sendQ (inner select)
  srvGot, replied,               \* what the server received per connection; requests answered
  cpc,                           \* caller pc: "idle" | "calling" | "connected" | "enq" | "wait" | "done" | "timedout" | "failed" (Send returned the dial error)
  up, restarts,                  \* the server endpoint: "up" | "stopping" | "down" | "starting"; restarts so far (bounded in the model)
  lastDialErr, sawFail, ssaw,    \* ReConnect's memory of the last failed dial; per caller / per sender in its hand-over: a failed dial has ended since it arrived
  issuedAfterDead,               \* ghost: requests issued when every earlier connection was already known dead (closed locally), or handed over
  wroteDead, dialHealthy         \* ghosts: a write was attempted on a connection known dead / a dial happened although the current connection was healthy
vars == <<isClosed, cur, nconn, lclosed, pclosed, connDone, spc, sm, rpc, sendQ, failQ, recvq, srvGot, replied, cpc, issuedAfterDead, wroteDead, dialHealthy,
          up, restarts, lastDialErr, sawFail, ssaw>>
srvvars == <<up, restarts>>
dialvars == <<lastDialErr, sawFail, ssaw>>

Init ==
  /\ isClosed = TRUE /\ cur = 0 /\ nconn = 0
  /\ lclosed = [k \in Conns |-> FALSE] /\ pclosed = [k \in Conns |-> FALSE]
  /\ connDone = [k \in Conns |-> 0]
  /\ spc = [k \in Conns |-> "none"] /\ sm = [k \in Conns |-> 0] /\ rpc = [k \in Conns |-> "none"]
  /\ sendQ = <<>> /\ failQ = <<>> /\ recvq = <<>>
  /\ srvGot = [k \in Conns |-> {}] /\ replied = {}
  /\ cpc = [r \in Reqs |-> "idle"] /\ issuedAfterDead = {} /\ wroteDead = FALSE /\ dialHealthy = FALSE
  /\ up = "up" /\ restarts = 0 /\ lastDialErr = FALSE /\ sawFail = [r \in Reqs |-> FALSE] /\ ssaw = [k \in Conns |-> FALSE]

Healthy(k) == k # 0 /\ ~lclosed[k] /\ ~pclosed[k]
\* c.close(conn), under connLock
CloseEffect(k) == /\ isClosed' = (IF Mut = "assignClosed" THEN k = cur ELSE IF Fix THEN (isClosed \/ k = cur) ELSE TRUE)
                  /\ lclosed' = [lclosed EXCEPT ![k] = TRUE]
\* the dial inside ReConnect (under connLock) succeeded: a new TCP connection with its receiver and sender goroutines
DialEffect == /\ nconn' = nconn + 1 /\ cur' = nconn + 1 /\ isClosed' = FALSE
              /\ rpc' = [rpc EXCEPT ![nconn + 1] = "reading"]
              /\ dialHealthy' = (dialHealthy \/ Healthy(cur))
              /\ lastDialErr' = FALSE
\* the dial failed: the error and its end time are remembered; whoever has arrived and waits for connLock has "arrived before lastDialEnd"
DialFailEffect == /\ lastDialErr' = TRUE
                  /\ sawFail' = [q \in Reqs |-> sawFail[q] \/ cpc[q] = "calling"]
                  /\ ssaw' = [j \in Conns |-> ssaw[j] \/ spc[j] \in {"handover", "redial"}]
CanConnect == up # "down"      \* a dial may succeed
CanRefuse == up # "up"         \* a dial may fail
InProgress(r) == cpc[r] \notin {"idle", "done", "timedout", "failed"}

\* ---------------------------------------------------------------- caller of request r: Send = ReConnect, then enqueue
CallStart(r) ==
  /\ cpc[r] = "idle" /\ cpc' = [cpc EXCEPT ![r] = "calling"]
  /\ sawFail' = [sawFail EXCEPT ![r] = FALSE]          \* arrived := time.Now()
  \* issued when the endpoint is up and every earlier connection is known dead: the client owes it a fresh connection
  \* ... and likewise when the connection in use is healthy (neither side has closed it) and every other one that the server
  \* closed is known to be dead: "a connection loss never makes a later healthy connection be treated as closed" -- the late
  \* report of an old connection's receiver or sender must not cost a call on the healthy one its answer
  /\ issuedAfterDead' = IF up = "up" /\ nconn >= 1 /\ (\/ (\A k \in 1..nconn : lclosed[k])
                                                        \/ (/\ ~isClosed /\ cur # 0 /\ ~lclosed[cur] /\ ~pclosed[cur]
                                                            /\ (\A j \in 1..nconn : pclosed[j] => lclosed[j])))
                      THEN issuedAfterDead \cup {r} ELSE issuedAfterDead
  /\ UNCHANGED <<isClosed, cur, nconn, lclosed, pclosed, connDone, spc, sm, rpc, sendQ, failQ, recvq, srvGot, replied, wroteDead, dialHealthy, srvvars, lastDialErr, ssaw>>
ReConnectDial(r) ==
  /\ cpc[r] = "calling" /\ isClosed /\ nconn < MaxConn /\ CanConnect /\ DialEffect
  /\ spc' = [spc EXCEPT ![nconn + 1] = "top"]
  /\ cpc' = [cpc EXCEPT ![r] = "connected"]
  /\ UNCHANGED <<lclosed, pclosed, connDone, sm, sendQ, failQ, recvq, srvGot, replied, issuedAfterDead, wroteDead, srvvars, sawFail, ssaw>>
ReConnectDialFail(r) ==     \* the endpoint refuses the connection: Send returns the dial error
  /\ cpc[r] = "calling" /\ isClosed /\ CanRefuse /\ DialFailEffect
  /\ cpc' = [cpc EXCEPT ![r] = "failed"]
  /\ UNCHANGED <<isClosed, cur, nconn, lclosed, pclosed, connDone, spc, sm, rpc, sendQ, failQ, recvq, srvGot, replied, issuedAfterDead, wroteDead, dialHealthy, srvvars>>
ReConnectShareFail(r) ==    \* queued behind a dial that has just failed: its error is returned without another dial
  /\ cpc[r] = "calling" /\ isClosed /\ lastDialErr /\ (sawFail[r] \/ Mut = "staleDialError")
  /\ cpc' = [cpc EXCEPT ![r] = "failed"]
  /\ UNCHANGED <<isClosed, cur, nconn, lclosed, pclosed, connDone, spc, sm, rpc, sendQ, failQ, recvq, srvGot, replied, issuedAfterDead, wroteDead, dialHealthy, srvvars, dialvars>>
ReConnectNoDial(r) ==
  /\ cpc[r] = "calling" /\ ~isClosed /\ cpc' = [cpc EXCEPT ![r] = "connected"]
  /\ UNCHANGED <<isClosed, cur, nconn, lclosed, pclosed, connDone, spc, sm, rpc, sendQ, failQ, recvq, srvGot, replied, issuedAfterDead, wroteDead, dialHealthy, srvvars, dialvars>>
EnqHook(r) ==    \* the caller is about to execute  sendQueue <- msg
  /\ cpc[r] = "connected" /\ cpc' = [cpc EXCEPT ![r] = "enq"]
  /\ UNCHANGED <<isClosed, cur, nconn, lclosed, pclosed, connDone, spc, sm, rpc, sendQ, failQ, recvq, srvGot, replied, issuedAfterDead, wroteDead, dialHealthy, srvvars, dialvars>>
Enqueue(r) ==
  /\ cpc[r] = "enq"
  /\ IF recvq # <<>>                       \* direct hand-off to the longest-parked sender
       THEN LET k == Head(recvq) IN
            /\ recvq' = Tail(recvq) /\ spc' = [spc EXCEPT ![k] = "got"] /\ sm' = [sm EXCEPT ![k] = r]
            /\ UNCHANGED sendQ
       ELSE sendQ' = Append(sendQ, r) /\ UNCHANGED <<recvq, spc, sm>>
  /\ cpc' = [cpc EXCEPT ![r] = "wait"]
  /\ UNCHANGED <<isClosed, cur, nconn, lclosed, pclosed, connDone, rpc, failQ, srvGot, replied, issuedAfterDead, wroteDead, dialHealthy, srvvars, dialvars>>
CallTimeout(r) ==
  /\ cpc[r] = "wait" /\ r \notin replied /\ cpc' = [cpc EXCEPT ![r] = "timedout"]
  /\ UNCHANGED <<isClosed, cur, nconn, lclosed, pclosed, connDone, spc, sm, rpc, sendQ, failQ, recvq, srvGot, replied, issuedAfterDead, wroteDead, dialHealthy, srvvars, dialvars>>

\* ---------------------------------------------------------------- sender goroutine of connection k
RemoveFrom(q, k) == SelectSeq(q, LAMBDA x : x # k)
STop(k) ==       \* select { case <-connDone: return; default: }
  /\ spc[k] = "top"
  /\ IF connDone[k] = 1
       THEN connDone' = [connDone EXCEPT ![k] = 0] /\ spc' = [spc EXCEPT ![k] = "exited"]
       ELSE UNCHANGED connDone /\ spc' = [spc EXCEPT ![k] = "pollFail"]
  /\ UNCHANGED <<isClosed, cur, nconn, lclosed, pclosed, sm, rpc, sendQ, failQ, recvq, srvGot, replied, cpc, issuedAfterDead, wroteDead, dialHealthy, srvvars, dialvars>>
SPollFail(k) ==  \* select { case m = <-sendFailQueue: default: }
  /\ spc[k] = "pollFail"
  /\ IF failQ # <<>>
       THEN failQ' = Tail(failQ) /\ sm' = [sm EXCEPT ![k] = Head(failQ)] /\ spc' = [spc EXCEPT ![k] = "got"]
       ELSE UNCHANGED <<failQ, sm>> /\ spc' = [spc EXCEPT ![k] = "inner"]
  /\ UNCHANGED <<isClosed, cur, nconn, lclosed, pclosed, connDone, rpc, sendQ, recvq, srvGot, replied, cpc, issuedAfterDead, wroteDead, dialHealthy, srvvars, dialvars>>
SInner(k) ==     \* entering the inner select: take a ready case, else park
  /\ spc[k] = "inner"
  /\ \/ /\ sendQ # <<>>
        /\ sendQ' = Tail(sendQ) /\ sm' = [sm EXCEPT ![k] = Head(sendQ)] /\ spc' = [spc EXCEPT ![k] = "got"]
        /\ UNCHANGED <<recvq, failQ, connDone>>
     \/ /\ Fix /\ failQ # <<>>
        /\ failQ' = Tail(failQ) /\ sm' = [sm EXCEPT ![k] = Head(failQ)] /\ spc' = [spc EXCEPT ![k] = "got"]
        /\ UNCHANGED <<recvq, sendQ, connDone>>
     \/ /\ Fix /\ connDone[k] = 1
        /\ connDone' = [connDone EXCEPT ![k] = 0] /\ spc' = [spc EXCEPT ![k] = "exited"]
        /\ UNCHANGED <<recvq, sendQ, failQ, sm>>
     \/ /\ sendQ = <<>> /\ (~Fix \/ (failQ = <<>> /\ connDone[k] = 0))
        /\ recvq' = Append(recvq, k) /\ spc' = [spc EXCEPT ![k] = "parked"]
        /\ UNCHANGED <<sendQ, failQ, sm, connDone>>
  /\ UNCHANGED <<isClosed, cur, nconn, lclosed, pclosed, rpc, srvGot, replied, cpc, issuedAfterDead, wroteDead, dialHealthy, srvvars, dialvars>>
STick(k) ==      \* a parked sender is woken by the 1 s ticker
  /\ spc[k] = "parked"
  /\ recvq' = RemoveFrom(recvq, k)
  /\ spc' = [spc EXCEPT ![k] = IF isClosed THEN "exited" ELSE "top"]
  /\ UNCHANGED <<isClosed, cur, nconn, lclosed, pclosed, connDone, sm, rpc, sendQ, failQ, srvGot, replied, cpc, issuedAfterDead, wroteDead, dialHealthy, srvvars, dialvars>>
SWake(k) ==      \* (repaired) a parked sender is woken by connDone or by sendFailQueue
  /\ Fix /\ spc[k] = "parked"
  /\ \/ /\ connDone[k] = 1 /\ connDone' = [connDone EXCEPT ![k] = 0] /\ spc' = [spc EXCEPT ![k] = "exited"]
        /\ UNCHANGED <<failQ, sm>>
     \/ /\ failQ # <<>> /\ failQ' = Tail(failQ) /\ sm' = [sm EXCEPT ![k] = Head(failQ)] /\ spc' = [spc EXCEPT ![k] = "got"]
        /\ UNCHANGED connDone
  /\ recvq' = RemoveFrom(recvq, k)
  /\ UNCHANGED <<isClosed, cur, nconn, lclosed, pclosed, rpc, sendQ, srvGot, replied, cpc, issuedAfterDead, wroteDead, dialHealthy, srvvars, dialvars>>
\* (repaired) after dequeuing: is this sender's connection still the live one?  (under connLock)
Live(k) == k = cur /\ ~isClosed
SCheck(k) ==
  /\ spc[k] = "got"
  /\ spc' = [spc EXCEPT ![k] = IF Fix /\ ~Live(k) THEN "handover" ELSE "write"]
  /\ ssaw' = [ssaw EXCEPT ![k] = FALSE]      \* the hand-over's ReConnect arrives after this check
  \* the decision to write is taken here: it must not be taken for a connection already known (closed locally) to be dead
  /\ wroteDead' = (wroteDead \/ (~(Fix /\ ~Live(k)) /\ lclosed[k] /\ sm[k] \in issuedAfterDead))
  \* a request that the client holds back from a connection it knows to be dead has been saved from the race with the
  \* close: from here on it is the client's job to get it to the server (same obligation as a call issued after the close)
  \* -- unless another connection has been closed by the server and the client has not noticed yet: then the call still
  \* races with THAT close (found with 3 requests: the request is handed to the live sender, whose connection the server
  \* has already closed; had it been written there it would have been lost just the same) -- and only while the endpoint is up
  /\ issuedAfterDead' = IF Fix /\ ~Live(k) /\ up = "up" /\ (\A j \in 1..nconn : pclosed[j] => lclosed[j])
                           THEN issuedAfterDead \cup {sm[k]} ELSE issuedAfterDead
  /\ UNCHANGED <<isClosed, cur, nconn, lclosed, pclosed, connDone, sm, rpc, sendQ, failQ, recvq, srvGot, replied, cpc, dialHealthy, srvvars, lastDialErr, sawFail>>
SWrite(k) ==     \* conn.Write(m.req): fails on a locally closed connection; on a connection the peer has closed it may
                 \* fail (reset) or "succeed" with the request lost
  /\ spc[k] = "write"
  /\ \/ /\ (lclosed[k] \/ pclosed[k])
        /\ spc' = [spc EXCEPT ![k] = "requeue"] /\ UNCHANGED <<srvGot, sm>>
     \/ /\ ~lclosed[k]
        /\ spc' = [spc EXCEPT ![k] = "top"] /\ sm' = [sm EXCEPT ![k] = 0]
        /\ srvGot' = IF pclosed[k] THEN srvGot ELSE [srvGot EXCEPT ![k] = @ \cup {sm[k]}]
  /\ UNCHANGED <<isClosed, cur, nconn, lclosed, pclosed, connDone, rpc, sendQ, failQ, recvq, replied, cpc, issuedAfterDead, wroteDead, dialHealthy, srvvars, dialvars>>
\* hand-over, RedialFirst = FALSE: sendFailQueue <- m, then ReConnect;  TRUE: ReConnect first (so that a live sender exists
\* to drain the one-slot failure queue), then sendFailQueue <- m
SRequeue(k) ==   \* sendFailQueue <- m  (after a write error, or on hand-over)
  /\ spc[k] \in (IF RedialFirst THEN {"requeue", "handover2"} ELSE {"requeue", "handover"}) /\ Len(failQ) < 1
  /\ failQ' = Append(failQ, sm[k]) /\ sm' = [sm EXCEPT ![k] = 0]
  /\ spc' = [spc EXCEPT ![k] = IF spc[k] = "requeue" THEN "closing" ELSE IF RedialFirst THEN "exited" ELSE "redial"]
  /\ UNCHANGED <<isClosed, cur, nconn, lclosed, pclosed, connDone, rpc, sendQ, recvq, srvGot, replied, cpc, issuedAfterDead, wroteDead, dialHealthy, srvvars, dialvars>>
SClose(k) ==     \* c.close(conn) after a write error; the sender then returns
  /\ spc[k] = "closing" /\ CloseEffect(k) /\ spc' = [spc EXCEPT ![k] = "exited"]
  /\ UNCHANGED <<cur, nconn, pclosed, connDone, sm, rpc, sendQ, failQ, recvq, srvGot, replied, cpc, issuedAfterDead, wroteDead, dialHealthy, srvvars, dialvars>>
SRedial(k) ==    \* (repaired) hand-over: make sure a live connection exists (ReConnect; its error is only logged)
  /\ spc[k] = (IF RedialFirst THEN "handover" ELSE "redial")
  /\ LET next == IF RedialFirst THEN "handover2" ELSE "exited" IN
     \/ /\ isClosed /\ nconn < MaxConn /\ CanConnect /\ DialEffect
        /\ spc' = [spc EXCEPT ![k] = next, ![nconn + 1] = "top"]
        /\ UNCHANGED <<sawFail, ssaw>>
     \/ /\ isClosed /\ CanRefuse /\ DialFailEffect
        /\ spc' = [spc EXCEPT ![k] = next] /\ UNCHANGED <<nconn, cur, isClosed, rpc, dialHealthy>>
     \/ /\ (~isClosed \/ nconn >= MaxConn \/ (lastDialErr /\ ssaw[k]))   \* nothing to do / bound of the model / shares the failure it was queued behind
        /\ spc' = [spc EXCEPT ![k] = next] /\ UNCHANGED <<nconn, cur, isClosed, rpc, dialHealthy, dialvars>>
  /\ UNCHANGED <<lclosed, pclosed, connDone, sm, sendQ, failQ, recvq, srvGot, replied, cpc, issuedAfterDead, wroteDead, srvvars>>

\* ---------------------------------------------------------------- receiver goroutine of connection k
RNotice(k) ==    \* Read returns EOF (peer closed) or "use of closed connection" (closed locally): c.close(conn)
  /\ rpc[k] = "reading" /\ (pclosed[k] \/ lclosed[k])
  /\ CloseEffect(k) /\ rpc' = [rpc EXCEPT ![k] = "signal"]
  /\ UNCHANGED <<cur, nconn, pclosed, connDone, spc, sm, sendQ, failQ, recvq, srvGot, replied, cpc, issuedAfterDead, wroteDead, dialHealthy, srvvars, dialvars>>
RSignal(k) ==    \* deferred: connDone <- true
  /\ rpc[k] = "signal" /\ connDone' = [connDone EXCEPT ![k] = 1] /\ rpc' = [rpc EXCEPT ![k] = "exited"]
  /\ UNCHANGED <<isClosed, cur, nconn, lclosed, pclosed, spc, sm, sendQ, failQ, recvq, srvGot, replied, cpc, issuedAfterDead, wroteDead, dialHealthy, srvvars, dialvars>>

\* ---------------------------------------------------------------- server: answers what it received, may close a connection on which nothing is unanswered
Reply(k, r) ==
  /\ r \in srvGot[k] /\ r \notin replied /\ ~pclosed[k] /\ ~lclosed[k] /\ rpc[k] = "reading"
  /\ replied' = replied \cup {r} /\ cpc' = [cpc EXCEPT ![r] = IF cpc[r] = "wait" THEN "done" ELSE cpc[r]]
  /\ UNCHANGED <<isClosed, cur, nconn, lclosed, pclosed, connDone, spc, sm, rpc, sendQ, failQ, recvq, srvGot, issuedAfterDead, wroteDead, dialHealthy, srvvars, dialvars>>
\* The server may close a connection at any moment at which it owes no answer on it (after any response, idle close,
\* restart, close notification) -- also while calls are under way on the client side.  A call under way races with the close
\* (its request may be on its way to that connection): it loses its obligation; it gets one again when the client itself
\* holds the request back from a connection it knows to be dead (SCheck).  The other two clauses hold for every schedule.
NoCallInProgress == \A r \in Reqs : ~InProgress(r)
\* lost: requests written to the connection that the server has not read when it closes (in flight: gone with the connection;
\* the same state as closing first and the write "succeeding" into the void afterwards).  The design model closes with lost = {}.
ServerCloseLosing(k, lost) ==
  /\ k <= nconn /\ ~pclosed[k] /\ (srvGot[k] \ lost) \subseteq replied
  /\ pclosed' = [pclosed EXCEPT ![k] = TRUE] /\ srvGot' = [srvGot EXCEPT ![k] = @ \ lost]
  /\ issuedAfterDead' = {r \in issuedAfterDead : ~InProgress(r)}
  /\ UNCHANGED <<isClosed, cur, nconn, lclosed, connDone, spc, sm, rpc, sendQ, failQ, recvq, replied, cpc, wroteDead, dialHealthy, srvvars, dialvars>>
ServerClose(k) == ServerCloseLosing(k, {})
\* Restart: the endpoint stops accepting ("stopping": a dial may still get through or already be refused), every connection is
\* closed and the endpoint refuses connections ("down"), the listener comes back ("starting", then "up").  The premise of the
\* statement ("the server endpoint is reachable") holds only while it is up: calls under way when it stops lose their obligation,
\* calls issued while it is not up never get one (they may fail with the dial error or time out).
ServerStop ==
  /\ up = "up" /\ restarts < MaxRestart /\ (\A k \in 1..nconn : srvGot[k] \subseteq replied)
  /\ up' = "stopping" /\ restarts' = restarts + 1
  /\ issuedAfterDead' = {r \in issuedAfterDead : ~InProgress(r)}
  /\ UNCHANGED <<isClosed, cur, nconn, lclosed, pclosed, connDone, spc, sm, rpc, sendQ, failQ, recvq, srvGot, replied, cpc, wroteDead, dialHealthy, dialvars>>
ServerDownLosing(lost) ==    \* the process is gone: whatever connection was still open is closed with it (lost[k]: in flight on k, see above)
  /\ up = "stopping" /\ (\A k \in 1..nconn : (srvGot[k] \ lost[k]) \subseteq replied)
  /\ up' = "down" /\ pclosed' = [k \in Conns |-> pclosed[k] \/ k <= nconn] /\ srvGot' = [k \in Conns |-> srvGot[k] \ lost[k]]
  /\ UNCHANGED <<isClosed, cur, nconn, lclosed, connDone, spc, sm, rpc, sendQ, failQ, recvq, replied, cpc, issuedAfterDead, wroteDead, dialHealthy, restarts, dialvars>>
ServerDown == ServerDownLosing([k \in Conns |-> {}])
ServerStart ==
  /\ up = "down" /\ up' = "starting"
  /\ UNCHANGED <<isClosed, cur, nconn, lclosed, pclosed, connDone, spc, sm, rpc, sendQ, failQ, recvq, srvGot, replied, cpc, issuedAfterDead, wroteDead, dialHealthy, restarts, dialvars>>
ServerUp ==
  /\ up = "starting" /\ up' = "up"
  /\ UNCHANGED <<isClosed, cur, nconn, lclosed, pclosed, connDone, spc, sm, rpc, sendQ, failQ, recvq, srvGot, replied, cpc, issuedAfterDead, wroteDead, dialHealthy, restarts, dialvars>>

\* steps that need neither the ticker, nor a caller's timeout, nor a new call, nor the server's whim
Internal == \/ \E r \in Reqs : ReConnectDial(r) \/ ReConnectDialFail(r) \/ ReConnectShareFail(r) \/ ReConnectNoDial(r) \/ EnqHook(r) \/ Enqueue(r)
            \/ \E k \in Conns : STop(k) \/ SPollFail(k) \/ SInner(k) \/ SWake(k) \/ SCheck(k) \/ SWrite(k) \/ SRequeue(k) \/ SClose(k) \/ SRedial(k)
                                \/ RNotice(k) \/ RSignal(k)
            \/ \E k \in Conns, r \in Reqs : Reply(k, r)
\* maximal progress for the call timeout only: it is orders of magnitude longer than any internal step, so in the design
\* model it fires when nothing internal can happen any more (a stranded call); without this a "timed-out" request left in
\* the one-slot failure queue while a live sender was about to take it is an artefact (found with 3 requests).  Trace
\* validation uses CallTimeout itself, at whatever moment the real run reports it.
\* requests are interchangeable: in the design model they are issued in the order of their numbers (symmetry reduction), at most
\* MaxInFlight of them under way at a time (a bound of the configuration); trace validation uses CallStart itself
Next == Internal \/ (\E r \in Reqs : /\ CallStart(r) /\ (\A q \in Reqs : q < r => cpc[q] # "idle")
                                       /\ Cardinality({q \in Reqs : InProgress(q)}) < MaxInFlight) \/ (~ENABLED Internal /\ \E r \in Reqs : CallTimeout(r))
        \/ (\E k \in Conns : STick(k) \/ ServerClose(k))
        \/ ServerStop \/ ServerDown \/ ServerStart \/ ServerUp
Spec == Init /\ [][Next]_vars

\* ---------------------------------------------------------------- properties (C11)
\* a request is never written to a connection already known to be dead
NoWriteOnKnownDead == ~wroteDead
\* a connection loss never makes a later healthy connection be treated as closed
HealthyNotMarkedClosed == ~(isClosed /\ Healthy(cur)) /\ ~dialHealthy
\* a call issued after the close is known reaches the server and is answered without the ticker, a timeout or another call
\* (nconn < MaxConn: the bound on connections is a bound of the model, not of the client)
NoStranding == (~ENABLED Internal /\ nconn < MaxConn) => \A r \in issuedAfterDead : (cpc[r] \in {"wait", "done"} => r \in replied)
\* ... and it does not fail with a dial error either: while the endpoint is up nobody is handed the error of an old dial
NoFailAfterDead == \A r \in issuedAfterDead : cpc[r] # "failed"
\* lemma of the design (the mirror image of HealthyNotMarkedClosed): a connection known to be dead is never treated as the live
\* one, whatever the order in which its sender and its receiver report the loss
DeadNotTreatedAsLive == ~(~isClosed /\ cur # 0 /\ lclosed[cur])
TypeOK == /\ Len(failQ) <= 1 /\ cur \in 0..MaxConn /\ nconn \in 0..MaxConn
          /\ up \in {"up", "stopping", "down", "starting"} /\ restarts \in 0..MaxRestart
=============================================================================
