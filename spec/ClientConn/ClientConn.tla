----------------------------- MODULE ClientConn -----------------------------
(* Model of tars/transport/tarsclient.go: TarsClient + connection.                                     *)
(* Shared: isClosed, the current connection, sendQueue, sendFailQueue (capacity 1).  Per TCP connection *)
(* k: a sender goroutine and a receiver goroutine, connDone[k] (buffered, capacity 1).                  *)
(* One action per step between blocking points; Go channel semantics explicit: a send finds the        *)
(* longest-parked receiver and hands the value over directly (this is what lets the sender of an old,   *)
(* dead connection take a new request).                                                                 *)
(* Fix = TRUE models the repaired code:                                                                 *)
(*   (1) close(conn) marks the shared isClosed only when conn is the current connection,                *)
(*   (2) the sender's inner select also watches sendFailQueue and connDone,                             *)
(*   (3) after dequeuing, a sender whose connection is no longer the live one does not write: it puts   *)
(*       the request into sendFailQueue, makes sure a live connection exists (ReConnect) and exits.     *)
(* Fix = FALSE is the code as originally written.                                                       *)
EXTENDS Integers, Sequences, FiniteSets, TLC
CONSTANTS MaxConn, Reqs, Fix, RedialFirst
Conns == 1..MaxConn
VARIABLES
  isClosed, cur, nconn,          \* shared connection struct: flag, index of the current TCP connection, connections dialled so far
  lclosed, pclosed,              \* per TCP connection: closed locally / closed by the server
  connDone,                      \* per connection: 0/1 tokens in the buffered channel
  spc, sm, rpc,                  \* sender pc + held request, receiver pc
  sendQ, failQ, recvq,           \* channel buffers; FIFO of senders parked on sendQ (inner select)
  srvGot, replied,               \* what the server received per connection; requests answered
  cpc,                           \* caller pc: "idle" | "calling" | "connected" | "enq" | "wait" | "done" | "timedout"
  issuedAfterDead,               \* ghost: requests issued when every earlier connection was already known dead (closed locally), or handed over
  wroteDead, dialHealthy         \* ghosts: a write was attempted on a connection known dead / a dial happened although the current connection was healthy
vars == <<isClosed, cur, nconn, lclosed, pclosed, connDone, spc, sm, rpc, sendQ, failQ, recvq, srvGot, replied, cpc, issuedAfterDead, wroteDead, dialHealthy>>

Init ==
  /\ isClosed = TRUE /\ cur = 0 /\ nconn = 0
  /\ lclosed = [k \in Conns |-> FALSE] /\ pclosed = [k \in Conns |-> FALSE]
  /\ connDone = [k \in Conns |-> 0]
  /\ spc = [k \in Conns |-> "none"] /\ sm = [k \in Conns |-> 0] /\ rpc = [k \in Conns |-> "none"]
  /\ sendQ = <<>> /\ failQ = <<>> /\ recvq = <<>>
  /\ srvGot = [k \in Conns |-> {}] /\ replied = {}
  /\ cpc = [r \in Reqs |-> "idle"] /\ issuedAfterDead = {} /\ wroteDead = FALSE /\ dialHealthy = FALSE

Healthy(k) == k # 0 /\ ~lclosed[k] /\ ~pclosed[k]
\* c.close(conn), under connLock
CloseEffect(k) == /\ isClosed' = (IF Fix THEN (isClosed \/ k = cur) ELSE TRUE)
                  /\ lclosed' = [lclosed EXCEPT ![k] = TRUE]
\* the dial inside ReConnect (under connLock): a new TCP connection with its receiver and sender goroutines
DialEffect == /\ nconn' = nconn + 1 /\ cur' = nconn + 1 /\ isClosed' = FALSE
              /\ spc' = [spc EXCEPT ![nconn + 1] = "top"] /\ rpc' = [rpc EXCEPT ![nconn + 1] = "reading"]
              /\ dialHealthy' = (dialHealthy \/ Healthy(cur))

\* ---------------------------------------------------------------- caller of request r: Send = ReConnect, then enqueue
CallStart(r) ==
  /\ cpc[r] = "idle" /\ cpc' = [cpc EXCEPT ![r] = "calling"]
  \* issued when every earlier connection is known dead: the client owes it a fresh connection
  /\ issuedAfterDead' = IF nconn >= 1 /\ (\A k \in 1..nconn : lclosed[k]) THEN issuedAfterDead \cup {r} ELSE issuedAfterDead
  /\ UNCHANGED <<isClosed, cur, nconn, lclosed, pclosed, connDone, spc, sm, rpc, sendQ, failQ, recvq, srvGot, replied, wroteDead, dialHealthy>>
ReConnectDial(r) ==
  /\ cpc[r] = "calling" /\ isClosed /\ nconn < MaxConn /\ DialEffect
  /\ cpc' = [cpc EXCEPT ![r] = "connected"]
  /\ UNCHANGED <<lclosed, pclosed, connDone, sm, sendQ, failQ, recvq, srvGot, replied, issuedAfterDead, wroteDead>>
ReConnectNoDial(r) ==
  /\ cpc[r] = "calling" /\ ~isClosed /\ cpc' = [cpc EXCEPT ![r] = "connected"]
  /\ UNCHANGED <<isClosed, cur, nconn, lclosed, pclosed, connDone, spc, sm, rpc, sendQ, failQ, recvq, srvGot, replied, issuedAfterDead, wroteDead, dialHealthy>>
EnqHook(r) ==    \* the caller is about to execute  sendQueue <- msg
  /\ cpc[r] = "connected" /\ cpc' = [cpc EXCEPT ![r] = "enq"]
  /\ UNCHANGED <<isClosed, cur, nconn, lclosed, pclosed, connDone, spc, sm, rpc, sendQ, failQ, recvq, srvGot, replied, issuedAfterDead, wroteDead, dialHealthy>>
Enqueue(r) ==
  /\ cpc[r] = "enq"
  /\ IF recvq # <<>>                       \* direct hand-off to the longest-parked sender
       THEN LET k == Head(recvq) IN
            /\ recvq' = Tail(recvq) /\ spc' = [spc EXCEPT ![k] = "got"] /\ sm' = [sm EXCEPT ![k] = r]
            /\ UNCHANGED sendQ
       ELSE sendQ' = Append(sendQ, r) /\ UNCHANGED <<recvq, spc, sm>>
  /\ cpc' = [cpc EXCEPT ![r] = "wait"]
  /\ UNCHANGED <<isClosed, cur, nconn, lclosed, pclosed, connDone, rpc, failQ, srvGot, replied, issuedAfterDead, wroteDead, dialHealthy>>
CallTimeout(r) ==
  /\ cpc[r] = "wait" /\ r \notin replied /\ cpc' = [cpc EXCEPT ![r] = "timedout"]
  /\ UNCHANGED <<isClosed, cur, nconn, lclosed, pclosed, connDone, spc, sm, rpc, sendQ, failQ, recvq, srvGot, replied, issuedAfterDead, wroteDead, dialHealthy>>

\* ---------------------------------------------------------------- sender goroutine of connection k
RemoveFrom(q, k) == SelectSeq(q, LAMBDA x : x # k)
STop(k) ==       \* select { case <-connDone: return; default: }
  /\ spc[k] = "top"
  /\ IF connDone[k] = 1
       THEN connDone' = [connDone EXCEPT ![k] = 0] /\ spc' = [spc EXCEPT ![k] = "exited"]
       ELSE UNCHANGED connDone /\ spc' = [spc EXCEPT ![k] = "pollFail"]
  /\ UNCHANGED <<isClosed, cur, nconn, lclosed, pclosed, sm, rpc, sendQ, failQ, recvq, srvGot, replied, cpc, issuedAfterDead, wroteDead, dialHealthy>>
SPollFail(k) ==  \* select { case m = <-sendFailQueue: default: }
  /\ spc[k] = "pollFail"
  /\ IF failQ # <<>>
       THEN failQ' = Tail(failQ) /\ sm' = [sm EXCEPT ![k] = Head(failQ)] /\ spc' = [spc EXCEPT ![k] = "got"]
       ELSE UNCHANGED <<failQ, sm>> /\ spc' = [spc EXCEPT ![k] = "inner"]
  /\ UNCHANGED <<isClosed, cur, nconn, lclosed, pclosed, connDone, rpc, sendQ, recvq, srvGot, replied, cpc, issuedAfterDead, wroteDead, dialHealthy>>
SInner(k) ==     \* entering the inner select: take a ready case, else park
  /\ spc[k] = "inner"
  /\ \/ /\ sendQ # <<>>
        /\ sendQ' = Tail(sendQ) /\ sm' = [sm EXCEPT ![k] = Head(sendQ)] /\ spc' = [spc EXCEPT ![k] = "got"]
        /\ UNCHANGED <<recvq, failQ, connDone>>
     \/ /\ Fix /\ failQ # <<>>
        /\ failQ' = Tail(failQ) /\ sm' = [sm EXCEPT ![k] = Head(failQ)] /\ spc' = [spc EXCEPT ![k] = "got"]
        /\ UNCHANGED <<recvq, sendQ, connDone>>
     \/ /\ Fix /\ connDone[k] = 1
        /\ connDone' = [connDone EXCEPT ![k] = 0] /\ spc' = [spc EXCEPT ![k] = "exited"]
        /\ UNCHANGED <<recvq, sendQ, failQ, sm>>
     \/ /\ sendQ = <<>> /\ (~Fix \/ (failQ = <<>> /\ connDone[k] = 0))
        /\ recvq' = Append(recvq, k) /\ spc' = [spc EXCEPT ![k] = "parked"]
        /\ UNCHANGED <<sendQ, failQ, sm, connDone>>
  /\ UNCHANGED <<isClosed, cur, nconn, lclosed, pclosed, rpc, srvGot, replied, cpc, issuedAfterDead, wroteDead, dialHealthy>>
STick(k) ==      \* a parked sender is woken by the 1 s ticker
  /\ spc[k] = "parked"
  /\ recvq' = RemoveFrom(recvq, k)
  /\ spc' = [spc EXCEPT ![k] = IF isClosed THEN "exited" ELSE "top"]
  /\ UNCHANGED <<isClosed, cur, nconn, lclosed, pclosed, connDone, sm, rpc, sendQ, failQ, srvGot, replied, cpc, issuedAfterDead, wroteDead, dialHealthy>>
SWake(k) ==      \* (repaired) a parked sender is woken by connDone or by sendFailQueue
  /\ Fix /\ spc[k] = "parked"
  /\ \/ /\ connDone[k] = 1 /\ connDone' = [connDone EXCEPT ![k] = 0] /\ spc' = [spc EXCEPT ![k] = "exited"]
        /\ UNCHANGED <<failQ, sm>>
     \/ /\ failQ # <<>> /\ failQ' = Tail(failQ) /\ sm' = [sm EXCEPT ![k] = Head(failQ)] /\ spc' = [spc EXCEPT ![k] = "got"]
        /\ UNCHANGED connDone
  /\ recvq' = RemoveFrom(recvq, k)
  /\ UNCHANGED <<isClosed, cur, nconn, lclosed, pclosed, rpc, sendQ, srvGot, replied, cpc, issuedAfterDead, wroteDead, dialHealthy>>
\* (repaired) after dequeuing: is this sender's connection still the live one?  (under connLock)
Live(k) == k = cur /\ ~isClosed
SCheck(k) ==
  /\ spc[k] = "got"
  /\ spc' = [spc EXCEPT ![k] = IF Fix /\ ~Live(k) THEN "handover" ELSE "write"]
  \* the decision to write is taken here: it must not be taken for a connection already known (closed locally) to be dead
  /\ wroteDead' = (wroteDead \/ (~(Fix /\ ~Live(k)) /\ lclosed[k] /\ sm[k] \in issuedAfterDead))
  \* a request that the client holds back from a connection it knows to be dead has been saved from the race with the
  \* close: from here on it is the client's job to get it to the server (same obligation as a call issued after the close)
  \* -- unless another connection has been closed by the server and the client has not noticed yet: then the call still
  \* races with THAT close (found with 3 requests: the request is handed to the live sender, whose connection the server
  \* has already closed; had it been written there it would have been lost just the same)
  /\ issuedAfterDead' = IF Fix /\ ~Live(k) /\ (\A j \in 1..nconn : pclosed[j] => lclosed[j])
                           THEN issuedAfterDead \cup {sm[k]} ELSE issuedAfterDead
  /\ UNCHANGED <<isClosed, cur, nconn, lclosed, pclosed, connDone, sm, rpc, sendQ, failQ, recvq, srvGot, replied, cpc, dialHealthy>>
SWrite(k) ==     \* conn.Write(m.req): fails on a locally closed connection; on a connection the peer has closed it may
                 \* fail (reset) or "succeed" with the request lost
  /\ spc[k] = "write"
  /\ \/ /\ (lclosed[k] \/ pclosed[k])
        /\ spc' = [spc EXCEPT ![k] = "requeue"] /\ UNCHANGED <<srvGot, sm>>
     \/ /\ ~lclosed[k]
        /\ spc' = [spc EXCEPT ![k] = "top"] /\ sm' = [sm EXCEPT ![k] = 0]
        /\ srvGot' = IF pclosed[k] THEN srvGot ELSE [srvGot EXCEPT ![k] = @ \cup {sm[k]}]
  /\ UNCHANGED <<isClosed, cur, nconn, lclosed, pclosed, connDone, rpc, sendQ, failQ, recvq, replied, cpc, issuedAfterDead, wroteDead, dialHealthy>>
\* hand-over, RedialFirst = FALSE: sendFailQueue <- m, then ReConnect;  TRUE: ReConnect first (so that a live sender exists
\* to drain the one-slot failure queue), then sendFailQueue <- m
SRequeue(k) ==   \* sendFailQueue <- m  (after a write error, or on hand-over)
  /\ spc[k] \in (IF RedialFirst THEN {"requeue", "handover2"} ELSE {"requeue", "handover"}) /\ Len(failQ) < 1
  /\ failQ' = Append(failQ, sm[k]) /\ sm' = [sm EXCEPT ![k] = 0]
  /\ spc' = [spc EXCEPT ![k] = IF spc[k] = "requeue" THEN "closing" ELSE IF RedialFirst THEN "exited" ELSE "redial"]
  /\ UNCHANGED <<isClosed, cur, nconn, lclosed, pclosed, connDone, rpc, sendQ, recvq, srvGot, replied, cpc, issuedAfterDead, wroteDead, dialHealthy>>
SClose(k) ==     \* c.close(conn) after a write error; the sender then returns
  /\ spc[k] = "closing" /\ CloseEffect(k) /\ spc' = [spc EXCEPT ![k] = "exited"]
  /\ UNCHANGED <<cur, nconn, pclosed, connDone, sm, rpc, sendQ, failQ, recvq, srvGot, replied, cpc, issuedAfterDead, wroteDead, dialHealthy>>
SRedial(k) ==    \* (repaired) hand-over: make sure a live connection exists
  /\ spc[k] = (IF RedialFirst THEN "handover" ELSE "redial")
  /\ LET next == IF RedialFirst THEN "handover2" ELSE "exited" IN
     IF isClosed /\ nconn < MaxConn
       THEN /\ nconn' = nconn + 1 /\ cur' = nconn + 1 /\ isClosed' = FALSE
            /\ spc' = [spc EXCEPT ![k] = next, ![nconn + 1] = "top"] /\ rpc' = [rpc EXCEPT ![nconn + 1] = "reading"]
            /\ dialHealthy' = (dialHealthy \/ Healthy(cur))
       ELSE spc' = [spc EXCEPT ![k] = next] /\ UNCHANGED <<nconn, cur, isClosed, rpc, dialHealthy>>
  /\ UNCHANGED <<lclosed, pclosed, connDone, sm, sendQ, failQ, recvq, srvGot, replied, cpc, issuedAfterDead, wroteDead>>

\* ---------------------------------------------------------------- receiver goroutine of connection k
RNotice(k) ==    \* Read returns EOF (peer closed) or "use of closed connection" (closed locally): c.close(conn)
  /\ rpc[k] = "reading" /\ (pclosed[k] \/ lclosed[k])
  /\ CloseEffect(k) /\ rpc' = [rpc EXCEPT ![k] = "signal"]
  /\ UNCHANGED <<cur, nconn, pclosed, connDone, spc, sm, sendQ, failQ, recvq, srvGot, replied, cpc, issuedAfterDead, wroteDead, dialHealthy>>
RSignal(k) ==    \* deferred: connDone <- true
  /\ rpc[k] = "signal" /\ connDone' = [connDone EXCEPT ![k] = 1] /\ rpc' = [rpc EXCEPT ![k] = "exited"]
  /\ UNCHANGED <<isClosed, cur, nconn, lclosed, pclosed, spc, sm, sendQ, failQ, recvq, srvGot, replied, cpc, issuedAfterDead, wroteDead, dialHealthy>>

\* ---------------------------------------------------------------- server: answers what it received, may close a connection on which nothing is unanswered
Reply(k, r) ==
  /\ r \in srvGot[k] /\ r \notin replied /\ ~pclosed[k] /\ ~lclosed[k] /\ rpc[k] = "reading"
  /\ replied' = replied \cup {r} /\ cpc' = [cpc EXCEPT ![r] = IF cpc[r] = "wait" THEN "done" ELSE cpc[r]]
  /\ UNCHANGED <<isClosed, cur, nconn, lclosed, pclosed, connDone, spc, sm, rpc, sendQ, failQ, recvq, srvGot, issuedAfterDead, wroteDead, dialHealthy>>
\* The server may close a connection at any moment at which it owes no answer on it (after any response, idle close,
\* restart, close notification) -- also while calls are under way on the client side.  A call under way races with the close
\* (its request may be on its way to that connection): it loses its obligation; it gets one again when the client itself
\* holds the request back from a connection it knows to be dead (SCheck).  The other two clauses hold for every schedule.
NoCallInProgress == \A r \in Reqs : cpc[r] \in {"idle", "done", "timedout"}
ServerClose(k) ==
  /\ k <= nconn /\ ~pclosed[k] /\ srvGot[k] \subseteq replied
  /\ pclosed' = [pclosed EXCEPT ![k] = TRUE]
  /\ issuedAfterDead' = {r \in issuedAfterDead : cpc[r] \in {"idle", "done", "timedout"}}
  /\ UNCHANGED <<isClosed, cur, nconn, lclosed, connDone, spc, sm, rpc, sendQ, failQ, recvq, srvGot, replied, cpc, wroteDead, dialHealthy>>

\* steps that need neither the ticker, nor a caller's timeout, nor a new call, nor the server's whim
Internal == \/ \E r \in Reqs : ReConnectDial(r) \/ ReConnectNoDial(r) \/ EnqHook(r) \/ Enqueue(r)
            \/ \E k \in Conns : STop(k) \/ SPollFail(k) \/ SInner(k) \/ SWake(k) \/ SCheck(k) \/ SWrite(k) \/ SRequeue(k) \/ SClose(k) \/ SRedial(k)
                                \/ RNotice(k) \/ RSignal(k)
            \/ \E k \in Conns, r \in Reqs : Reply(k, r)
\* maximal progress for the call timeout only: it is orders of magnitude longer than any internal step, so in the design
\* model it fires when nothing internal can happen any more (a stranded call); without this a "timed-out" request left in
\* the one-slot failure queue while a live sender was about to take it is an artefact (found with 3 requests).  Trace
\* validation uses CallTimeout itself, at whatever moment the real run reports it.
Next == Internal \/ (\E r \in Reqs : CallStart(r)) \/ (~ENABLED Internal /\ \E r \in Reqs : CallTimeout(r))
        \/ (\E k \in Conns : STick(k) \/ ServerClose(k))
Spec == Init /\ [][Next]_vars

\* ---------------------------------------------------------------- properties (C11)
\* a request is never written to a connection already known to be dead
NoWriteOnKnownDead == ~wroteDead
\* a connection loss never makes a later healthy connection be treated as closed
HealthyNotMarkedClosed == ~(isClosed /\ Healthy(cur)) /\ ~dialHealthy
\* a call issued after the close is known reaches the server and is answered without the ticker, a timeout or another call
\* (nconn < MaxConn: the bound on connections is a bound of the model, not of the client)
NoStranding == (~ENABLED Internal /\ nconn < MaxConn) => \A r \in issuedAfterDead : (cpc[r] \in {"wait", "done"} => r \in replied)
TypeOK == Len(failQ) <= 1 /\ cur \in 0..MaxConn /\ nconn \in 0..MaxConn
=============================================================================
