---- MODULE Trace_ClientConn ----
(* Trace validation for C11: one run = one real transport.TarsClient against a harness server that answers  *)
(* every request and closes connections when idle.  Events (hooks unless marked):                           *)
(*   CallStart{r} (harness)  Dialed{k}  EnqHook{r}  Close{k}  LiveCheck{k,live}  Dequeued{k,r} (before conn.Write) *)
(*   WriteError{k,r}  Requeued{k,r}  Tick{k}  TickExit{k}  RecvExit{k}                                       *)
(*   SrvRecv{k,r} SrvReply{k,r} SrvClose{k} (harness server)  CallEnd{r, ok} (harness)                        *)
(*   SendErr{r} (harness: Send returned the error of ReConnect, i.e. of a dial)                              *)
(*   SrvStopping (harness, before the listener is closed)  SrvDown (after listener and connections are closed *)
(*   and a settling pause)  SrvStarting (before the listener is re-opened on the same port)  SrvUp (after it   *)
(*   is open again and a settling pause): in the two transitional phases a dial may succeed or fail           *)
(* Silent: the sender's selects, the enqueue/hand-off, successful writes, hand-over (repaired code).        *)
EXTENDS ClientConn, Json
VARIABLES l, seen      \* position in the trace; <<k, r>>: the harness server has reported request r as read from connection k
Trace == ndJsonDeserialize("trace.ndjson")
tvars == <<vars, l, seen>>
TraceInit == Init /\ l = 1 /\ seen = {}
IsEvent(e) == /\ l <= Len(Trace) /\ Trace[l].e = e /\ l' = l + 1
              /\ seen' = (IF e = "SrvRecv" THEN seen \cup {<<Trace[l].k, Trace[l].r>>} ELSE IF e = "Reset" THEN {} ELSE seen)
\* what the client wrote to connection k while it was open but the server never read: in flight when the server closed
InFlight(k) == {r \in srvGot[k] : <<k, r>> \notin seen}
TCallStart == IsEvent("CallStart") /\ CallStart(Trace[l].r)
\* a dial: by a caller inside ReConnect, or (repaired code) by a sender handing a request over
TDialed == /\ IsEvent("Dialed") /\ Trace[l].k = nconn + 1
           /\ ((\E r \in Reqs : ReConnectDial(r)) \/ (\E k \in Conns : SRedial(k) /\ nconn' = nconn + 1))
\* the caller passed ReConnect (without dialling, if no Dialed event named it) and is about to enqueue
TEnqHook == /\ IsEvent("EnqHook")
            /\ LET r == Trace[l].r IN
               \/ EnqHook(r)
               \/ /\ cpc[r] = "calling" /\ ~isClosed /\ cpc' = [cpc EXCEPT ![r] = "enq"]
                  /\ UNCHANGED <<isClosed, cur, nconn, lclosed, pclosed, connDone, spc, sm, rpc, sendQ, failQ, recvq, srvGot, replied, issuedAfterDead, wroteDead, dialHealthy, srvvars, dialvars>>
\* Send returned a dial error: the endpoint refused the connection, or the caller was queued behind a dial that failed
TSendErr == IsEvent("SendErr") /\ (ReConnectDialFail(Trace[l].r) \/ ReConnectShareFail(Trace[l].r))
TClose == IsEvent("Close") /\ (RNotice(Trace[l].k) \/ SClose(Trace[l].k))
\* the sender's decision (taken under connLock, like Close and Dialed): write, or hand the request over
TLiveCheck == /\ IsEvent("LiveCheck") /\ SCheck(Trace[l].k)
              /\ spc'[Trace[l].k] = (IF Trace[l].live THEN "write" ELSE "handover")
\* right before conn.Write: an observation (the decision was the LiveCheck)
\* (if the code has no liveness check, hence no LiveCheck event, reaching the write is itself the decision)
TDequeued == /\ IsEvent("Dequeued") /\ sm[Trace[l].k] = Trace[l].r
             /\ \/ spc[Trace[l].k] = "write" /\ UNCHANGED vars
                \/ spc[Trace[l].k] = "got" /\ SCheck(Trace[l].k) /\ spc'[Trace[l].k] = "write"
TWriteError == IsEvent("WriteError") /\ SWrite(Trace[l].k) /\ sm[Trace[l].k] = Trace[l].r /\ spc'[Trace[l].k] = "requeue"
\* the hook follows the channel send: the live sender may already have taken the request from the failure queue (and passed its
\* LiveCheck) before this event is recorded -- then the requeue was a silent step and the event is an observation
TRequeued == /\ IsEvent("Requeued")
             /\ \/ SRequeue(Trace[l].k) /\ spc[Trace[l].k] = "requeue"
                \/ spc[Trace[l].k] \in {"closing", "exited"} /\ UNCHANGED vars
TTick == IsEvent("Tick") /\ spc[Trace[l].k] = "parked" /\ UNCHANGED vars           \* the ticker case fired; what it decides follows
TTickExit == IsEvent("TickExit") /\ STick(Trace[l].k) /\ spc'[Trace[l].k] = "exited"
TRecvExit == IsEvent("RecvExit") /\ RSignal(Trace[l].k)
TSrvRecv == IsEvent("SrvRecv") /\ Trace[l].r \in srvGot[Trace[l].k] /\ UNCHANGED vars
TSrvReply == IsEvent("SrvReply") /\ Reply(Trace[l].k, Trace[l].r)
TSrvClose == IsEvent("SrvClose") /\ ServerCloseLosing(Trace[l].k, InFlight(Trace[l].k))
\* the call's outcome: success needs the reply; a timeout is accepted only for a call that raced with a close
TCallEndOk == IsEvent("CallEnd") /\ Trace[l].ok /\ Trace[l].r \in replied /\ UNCHANGED vars
TCallEndTimeout == IsEvent("CallEnd") /\ ~Trace[l].ok /\ Trace[l].r \notin issuedAfterDead /\ CallTimeout(Trace[l].r)
\* (the answer of a call that owes nothing -- it raced with a close -- may be on its way when the caller gives up)
TCallEndLate == IsEvent("CallEnd") /\ ~Trace[l].ok /\ Trace[l].r \notin issuedAfterDead /\ Trace[l].r \in replied /\ cpc[Trace[l].r] = "done" /\ UNCHANGED vars
TCallEndFailed == IsEvent("CallEnd") /\ ~Trace[l].ok /\ cpc[Trace[l].r] = "failed" /\ UNCHANGED vars
TSrvStopping == IsEvent("SrvStopping") /\ ServerStop
TSrvDown == IsEvent("SrvDown") /\ ServerDownLosing([k \in Conns |-> InFlight(k)])
TSrvStarting == IsEvent("SrvStarting") /\ ServerStart
TSrvUp == IsEvent("SrvUp") /\ ServerUp
TReset == /\ IsEvent("Reset")
          /\ isClosed' = TRUE /\ cur' = 0 /\ nconn' = 0
          /\ lclosed' = [k \in Conns |-> FALSE] /\ pclosed' = [k \in Conns |-> FALSE] /\ connDone' = [k \in Conns |-> 0]
          /\ spc' = [k \in Conns |-> "none"] /\ sm' = [k \in Conns |-> 0] /\ rpc' = [k \in Conns |-> "none"]
          /\ sendQ' = <<>> /\ failQ' = <<>> /\ recvq' = <<>> /\ srvGot' = [k \in Conns |-> {}] /\ replied' = {}
          /\ cpc' = [r \in Reqs |-> "idle"] /\ issuedAfterDead' = {} /\ wroteDead' = FALSE /\ dialHealthy' = FALSE
          /\ up' = "up" /\ restarts' = 0 /\ lastDialErr' = FALSE /\ sawFail' = [r \in Reqs |-> FALSE] /\ ssaw' = [k \in Conns |-> FALSE]
\* a ticker wake-up that does not leave (isClosed was false) sends the sender back to the top of its loop
STickStay(k) == STick(k) /\ spc'[k] = "top"
TSilent == /\ \/ \E r \in Reqs : Enqueue(r) \/ ReConnectNoDial(r)      \* (ReConnect without a dial leaves no event: it may precede a Close that is recorded before the caller's EnqHook)
              \/ \E k \in Conns : STop(k) \/ SPollFail(k) \/ SInner(k) \/ SWake(k) \/ STickStay(k)
                                  \/ (SWrite(k) /\ spc'[k] = "top")
                                  \/ (SRequeue(k) /\ spc[k] \in {"handover", "handover2"})
                                  \/ (SRequeue(k) /\ spc[k] = "requeue" /\ l <= Len(Trace) /\ Trace[l].e \in {"LiveCheck", "Dequeued"})
                                  \/ (SRedial(k) /\ nconn' = nconn)
           /\ UNCHANGED <<l, seen>>
TraceNext == TCallStart \/ TDialed \/ TEnqHook \/ TClose \/ TLiveCheck \/ TDequeued \/ TWriteError \/ TRequeued \/ TTick \/ TTickExit \/ TRecvExit
             \/ TSrvRecv \/ TSrvReply \/ TSrvClose \/ TCallEndOk \/ TCallEndTimeout \/ TReset \/ TSilent
             \/ TSendErr \/ TCallEndFailed \/ TCallEndLate \/ TSrvStopping \/ TSrvDown \/ TSrvStarting \/ TSrvUp
TraceSpec == TraceInit /\ [][TraceNext]_tvars
ASSUME TLCSet(1, 0)
HighWater == (IF l > TLCGet(1) THEN TLCSet(1, l) ELSE TRUE)
TraceAccepted == /\ PrintT(<<"HWM", TLCGet(1), Len(Trace)>>)
                 /\ TLCGet(1) = Len(Trace) + 1
====
