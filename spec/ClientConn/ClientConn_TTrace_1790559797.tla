---- MODULE ClientConn_TTrace_1790559797 ----
EXTENDS Sequences, TLCExt, Toolbox, ClientConn, Naturals, TLC

_expression ==
    LET ClientConn_TEExpression == INSTANCE ClientConn_TEExpression
    IN ClientConn_TEExpression!expression
----

_trace ==
    LET ClientConn_TETrace == INSTANCE ClientConn_TETrace
    IN ClientConn_TETrace!trace
----

_inv ==
    ~(
        TLCGet("level") = Len(_TETrace)
        /\
        cur = (3)
        /\
        wroteDead = (FALSE)
        /\
        rpc = (<<"exited", "exited", "exited">>)
        /\
        connDone = (<<1, 1, 1>>)
        /\
        replied = ({})
        /\
        nconn = (3)
        /\
        spc = (<<"exited", "exited", "exited">>)
        /\
        dialHealthy = (FALSE)
        /\
        sendQ = (<<>>)
        /\
        lclosed = (<<TRUE, TRUE, TRUE>>)
        /\
        srvGot = (<<{}, {}, {}>>)
        /\
        pclosed = (<<TRUE, TRUE, TRUE>>)
        /\
        isClosed = (TRUE)
        /\
        issuedAfterDead = ({2})
        /\
        cpc = (<<"timedout", "wait">>)
        /\
        failQ = (<<2>>)
        /\
        sm = (<<0, 0, 0>>)
        /\
        recvq = (<<>>)
    )
----

_init ==
    /\ dialHealthy = _TETrace[1].dialHealthy
    /\ isClosed = _TETrace[1].isClosed
    /\ failQ = _TETrace[1].failQ
    /\ cur = _TETrace[1].cur
    /\ nconn = _TETrace[1].nconn
    /\ connDone = _TETrace[1].connDone
    /\ lclosed = _TETrace[1].lclosed
    /\ rpc = _TETrace[1].rpc
    /\ srvGot = _TETrace[1].srvGot
    /\ pclosed = _TETrace[1].pclosed
    /\ recvq = _TETrace[1].recvq
    /\ sm = _TETrace[1].sm
    /\ replied = _TETrace[1].replied
    /\ issuedAfterDead = _TETrace[1].issuedAfterDead
    /\ cpc = _TETrace[1].cpc
    /\ wroteDead = _TETrace[1].wroteDead
    /\ sendQ = _TETrace[1].sendQ
    /\ spc = _TETrace[1].spc
----

_next ==
    /\ \E i,j \in DOMAIN _TETrace:
        /\ \/ /\ j = i + 1
              /\ i = TLCGet("level")
        /\ dialHealthy  = _TETrace[i].dialHealthy
        /\ dialHealthy' = _TETrace[j].dialHealthy
        /\ isClosed  = _TETrace[i].isClosed
        /\ isClosed' = _TETrace[j].isClosed
        /\ failQ  = _TETrace[i].failQ
        /\ failQ' = _TETrace[j].failQ
        /\ cur  = _TETrace[i].cur
        /\ cur' = _TETrace[j].cur
        /\ nconn  = _TETrace[i].nconn
        /\ nconn' = _TETrace[j].nconn
        /\ connDone  = _TETrace[i].connDone
        /\ connDone' = _TETrace[j].connDone
        /\ lclosed  = _TETrace[i].lclosed
        /\ lclosed' = _TETrace[j].lclosed
        /\ rpc  = _TETrace[i].rpc
        /\ rpc' = _TETrace[j].rpc
        /\ srvGot  = _TETrace[i].srvGot
        /\ srvGot' = _TETrace[j].srvGot
        /\ pclosed  = _TETrace[i].pclosed
        /\ pclosed' = _TETrace[j].pclosed
        /\ recvq  = _TETrace[i].recvq
        /\ recvq' = _TETrace[j].recvq
        /\ sm  = _TETrace[i].sm
        /\ sm' = _TETrace[j].sm
        /\ replied  = _TETrace[i].replied
        /\ replied' = _TETrace[j].replied
        /\ issuedAfterDead  = _TETrace[i].issuedAfterDead
        /\ issuedAfterDead' = _TETrace[j].issuedAfterDead
        /\ cpc  = _TETrace[i].cpc
        /\ cpc' = _TETrace[j].cpc
        /\ wroteDead  = _TETrace[i].wroteDead
        /\ wroteDead' = _TETrace[j].wroteDead
        /\ sendQ  = _TETrace[i].sendQ
        /\ sendQ' = _TETrace[j].sendQ
        /\ spc  = _TETrace[i].spc
        /\ spc' = _TETrace[j].spc

\* Uncomment the ASSUME below to write the states of the error trace
\* to the given file in Json format. Note that you can pass any tuple
\* to `JsonSerialize`. For example, a sub-sequence of _TETrace.
    \* ASSUME
    \*     LET J == INSTANCE Json
    \*         IN J!JsonSerialize("ClientConn_TTrace_1790559797.json", _TETrace)

=============================================================================

 Note that you can extract this module `ClientConn_TEExpression`
  to a dedicated file to reuse `expression` (the module in the 
  dedicated `ClientConn_TEExpression.tla` file takes precedence 
  over the module `ClientConn_TEExpression` below).

---- MODULE ClientConn_TEExpression ----
EXTENDS Sequences, TLCExt, Toolbox, ClientConn, Naturals, TLC

expression == 
    [
        \* To hide variables of the `ClientConn` spec from the error trace,
        \* remove the variables below.  The trace will be written in the order
        \* of the fields of this record.
        dialHealthy |-> dialHealthy
        ,isClosed |-> isClosed
        ,failQ |-> failQ
        ,cur |-> cur
        ,nconn |-> nconn
        ,connDone |-> connDone
        ,lclosed |-> lclosed
        ,rpc |-> rpc
        ,srvGot |-> srvGot
        ,pclosed |-> pclosed
        ,recvq |-> recvq
        ,sm |-> sm
        ,replied |-> replied
        ,issuedAfterDead |-> issuedAfterDead
        ,cpc |-> cpc
        ,wroteDead |-> wroteDead
        ,sendQ |-> sendQ
        ,spc |-> spc
        
        \* Put additional constant-, state-, and action-level expressions here:
        \* ,_stateNumber |-> _TEPosition
        \* ,_dialHealthyUnchanged |-> dialHealthy = dialHealthy'
        
        \* Format the `dialHealthy` variable as Json value.
        \* ,_dialHealthyJson |->
        \*     LET J == INSTANCE Json
        \*     IN J!ToJson(dialHealthy)
        
        \* Lastly, you may build expressions over arbitrary sets of states by
        \* leveraging the _TETrace operator.  For example, this is how to
        \* count the number of times a spec variable changed up to the current
        \* state in the trace.
        \* ,_dialHealthyModCount |->
        \*     LET F[s \in DOMAIN _TETrace] ==
        \*         IF s = 1 THEN 0
        \*         ELSE IF _TETrace[s].dialHealthy # _TETrace[s-1].dialHealthy
        \*             THEN 1 + F[s-1] ELSE F[s-1]
        \*     IN F[_TEPosition - 1]
    ]

=============================================================================



Parsing and semantic processing can take forever if the trace below is long.
 In this case, it is advised to uncomment the module below to deserialize the
 trace from a generated binary file.

\*
\*---- MODULE ClientConn_TETrace ----
\*EXTENDS IOUtils, ClientConn, TLC
\*
\*trace == IODeserialize("ClientConn_TTrace_1790559797.bin", TRUE)
\*
\*=============================================================================
\*

---- MODULE ClientConn_TETrace ----
EXTENDS ClientConn, TLC

trace == 
    <<
    ([cur |-> 0,wroteDead |-> FALSE,rpc |-> <<"none", "none", "none">>,connDone |-> <<0, 0, 0>>,replied |-> {},nconn |-> 0,spc |-> <<"none", "none", "none">>,dialHealthy |-> FALSE,sendQ |-> <<>>,lclosed |-> <<FALSE, FALSE, FALSE>>,srvGot |-> <<{}, {}, {}>>,pclosed |-> <<FALSE, FALSE, FALSE>>,isClosed |-> TRUE,issuedAfterDead |-> {},cpc |-> <<"idle", "idle">>,failQ |-> <<>>,sm |-> <<0, 0, 0>>,recvq |-> <<>>]),
    ([cur |-> 0,wroteDead |-> FALSE,rpc |-> <<"none", "none", "none">>,connDone |-> <<0, 0, 0>>,replied |-> {},nconn |-> 0,spc |-> <<"none", "none", "none">>,dialHealthy |-> FALSE,sendQ |-> <<>>,lclosed |-> <<FALSE, FALSE, FALSE>>,srvGot |-> <<{}, {}, {}>>,pclosed |-> <<FALSE, FALSE, FALSE>>,isClosed |-> TRUE,issuedAfterDead |-> {},cpc |-> <<"calling", "idle">>,failQ |-> <<>>,sm |-> <<0, 0, 0>>,recvq |-> <<>>]),
    ([cur |-> 1,wroteDead |-> FALSE,rpc |-> <<"reading", "none", "none">>,connDone |-> <<0, 0, 0>>,replied |-> {},nconn |-> 1,spc |-> <<"top", "none", "none">>,dialHealthy |-> FALSE,sendQ |-> <<>>,lclosed |-> <<FALSE, FALSE, FALSE>>,srvGot |-> <<{}, {}, {}>>,pclosed |-> <<FALSE, FALSE, FALSE>>,isClosed |-> FALSE,issuedAfterDead |-> {},cpc |-> <<"connected", "idle">>,failQ |-> <<>>,sm |-> <<0, 0, 0>>,recvq |-> <<>>]),
    ([cur |-> 1,wroteDead |-> FALSE,rpc |-> <<"reading", "none", "none">>,connDone |-> <<0, 0, 0>>,replied |-> {},nconn |-> 1,spc |-> <<"top", "none", "none">>,dialHealthy |-> FALSE,sendQ |-> <<>>,lclosed |-> <<FALSE, FALSE, FALSE>>,srvGot |-> <<{}, {}, {}>>,pclosed |-> <<FALSE, FALSE, FALSE>>,isClosed |-> FALSE,issuedAfterDead |-> {},cpc |-> <<"enq", "idle">>,failQ |-> <<>>,sm |-> <<0, 0, 0>>,recvq |-> <<>>]),
    ([cur |-> 1,wroteDead |-> FALSE,rpc |-> <<"reading", "none", "none">>,connDone |-> <<0, 0, 0>>,replied |-> {},nconn |-> 1,spc |-> <<"top", "none", "none">>,dialHealthy |-> FALSE,sendQ |-> <<1>>,lclosed |-> <<FALSE, FALSE, FALSE>>,srvGot |-> <<{}, {}, {}>>,pclosed |-> <<FALSE, FALSE, FALSE>>,isClosed |-> FALSE,issuedAfterDead |-> {},cpc |-> <<"wait", "idle">>,failQ |-> <<>>,sm |-> <<0, 0, 0>>,recvq |-> <<>>]),
    ([cur |-> 1,wroteDead |-> FALSE,rpc |-> <<"reading", "none", "none">>,connDone |-> <<0, 0, 0>>,replied |-> {},nconn |-> 1,spc |-> <<"pollFail", "none", "none">>,dialHealthy |-> FALSE,sendQ |-> <<1>>,lclosed |-> <<FALSE, FALSE, FALSE>>,srvGot |-> <<{}, {}, {}>>,pclosed |-> <<FALSE, FALSE, FALSE>>,isClosed |-> FALSE,issuedAfterDead |-> {},cpc |-> <<"wait", "idle">>,failQ |-> <<>>,sm |-> <<0, 0, 0>>,recvq |-> <<>>]),
    ([cur |-> 1,wroteDead |-> FALSE,rpc |-> <<"reading", "none", "none">>,connDone |-> <<0, 0, 0>>,replied |-> {},nconn |-> 1,spc |-> <<"inner", "none", "none">>,dialHealthy |-> FALSE,sendQ |-> <<1>>,lclosed |-> <<FALSE, FALSE, FALSE>>,srvGot |-> <<{}, {}, {}>>,pclosed |-> <<FALSE, FALSE, FALSE>>,isClosed |-> FALSE,issuedAfterDead |-> {},cpc |-> <<"wait", "idle">>,failQ |-> <<>>,sm |-> <<0, 0, 0>>,recvq |-> <<>>]),
    ([cur |-> 1,wroteDead |-> FALSE,rpc |-> <<"reading", "none", "none">>,connDone |-> <<0, 0, 0>>,replied |-> {},nconn |-> 1,spc |-> <<"got", "none", "none">>,dialHealthy |-> FALSE,sendQ |-> <<>>,lclosed |-> <<FALSE, FALSE, FALSE>>,srvGot |-> <<{}, {}, {}>>,pclosed |-> <<FALSE, FALSE, FALSE>>,isClosed |-> FALSE,issuedAfterDead |-> {},cpc |-> <<"wait", "idle">>,failQ |-> <<>>,sm |-> <<1, 0, 0>>,recvq |-> <<>>]),
    ([cur |-> 1,wroteDead |-> FALSE,rpc |-> <<"reading", "none", "none">>,connDone |-> <<0, 0, 0>>,replied |-> {},nconn |-> 1,spc |-> <<"got", "none", "none">>,dialHealthy |-> FALSE,sendQ |-> <<>>,lclosed |-> <<FALSE, FALSE, FALSE>>,srvGot |-> <<{}, {}, {}>>,pclosed |-> <<FALSE, FALSE, FALSE>>,isClosed |-> FALSE,issuedAfterDead |-> {},cpc |-> <<"timedout", "idle">>,failQ |-> <<>>,sm |-> <<1, 0, 0>>,recvq |-> <<>>]),
    ([cur |-> 1,wroteDead |-> FALSE,rpc |-> <<"reading", "none", "none">>,connDone |-> <<0, 0, 0>>,replied |-> {},nconn |-> 1,spc |-> <<"got", "none", "none">>,dialHealthy |-> FALSE,sendQ |-> <<>>,lclosed |-> <<FALSE, FALSE, FALSE>>,srvGot |-> <<{}, {}, {}>>,pclosed |-> <<TRUE, FALSE, FALSE>>,isClosed |-> FALSE,issuedAfterDead |-> {},cpc |-> <<"timedout", "idle">>,failQ |-> <<>>,sm |-> <<1, 0, 0>>,recvq |-> <<>>]),
    ([cur |-> 1,wroteDead |-> FALSE,rpc |-> <<"signal", "none", "none">>,connDone |-> <<0, 0, 0>>,replied |-> {},nconn |-> 1,spc |-> <<"got", "none", "none">>,dialHealthy |-> FALSE,sendQ |-> <<>>,lclosed |-> <<TRUE, FALSE, FALSE>>,srvGot |-> <<{}, {}, {}>>,pclosed |-> <<TRUE, FALSE, FALSE>>,isClosed |-> TRUE,issuedAfterDead |-> {},cpc |-> <<"timedout", "idle">>,failQ |-> <<>>,sm |-> <<1, 0, 0>>,recvq |-> <<>>]),
    ([cur |-> 1,wroteDead |-> FALSE,rpc |-> <<"signal", "none", "none">>,connDone |-> <<0, 0, 0>>,replied |-> {},nconn |-> 1,spc |-> <<"handover", "none", "none">>,dialHealthy |-> FALSE,sendQ |-> <<>>,lclosed |-> <<TRUE, FALSE, FALSE>>,srvGot |-> <<{}, {}, {}>>,pclosed |-> <<TRUE, FALSE, FALSE>>,isClosed |-> TRUE,issuedAfterDead |-> {1},cpc |-> <<"timedout", "idle">>,failQ |-> <<>>,sm |-> <<1, 0, 0>>,recvq |-> <<>>]),
    ([cur |-> 1,wroteDead |-> FALSE,rpc |-> <<"signal", "none", "none">>,connDone |-> <<0, 0, 0>>,replied |-> {},nconn |-> 1,spc |-> <<"redial", "none", "none">>,dialHealthy |-> FALSE,sendQ |-> <<>>,lclosed |-> <<TRUE, FALSE, FALSE>>,srvGot |-> <<{}, {}, {}>>,pclosed |-> <<TRUE, FALSE, FALSE>>,isClosed |-> TRUE,issuedAfterDead |-> {1},cpc |-> <<"timedout", "idle">>,failQ |-> <<1>>,sm |-> <<0, 0, 0>>,recvq |-> <<>>]),
    ([cur |-> 2,wroteDead |-> FALSE,rpc |-> <<"signal", "reading", "none">>,connDone |-> <<0, 0, 0>>,replied |-> {},nconn |-> 2,spc |-> <<"exited", "top", "none">>,dialHealthy |-> FALSE,sendQ |-> <<>>,lclosed |-> <<TRUE, FALSE, FALSE>>,srvGot |-> <<{}, {}, {}>>,pclosed |-> <<TRUE, FALSE, FALSE>>,isClosed |-> FALSE,issuedAfterDead |-> {1},cpc |-> <<"timedout", "idle">>,failQ |-> <<1>>,sm |-> <<0, 0, 0>>,recvq |-> <<>>]),
    ([cur |-> 2,wroteDead |-> FALSE,rpc |-> <<"exited", "reading", "none">>,connDone |-> <<1, 0, 0>>,replied |-> {},nconn |-> 2,spc |-> <<"exited", "top", "none">>,dialHealthy |-> FALSE,sendQ |-> <<>>,lclosed |-> <<TRUE, FALSE, FALSE>>,srvGot |-> <<{}, {}, {}>>,pclosed |-> <<TRUE, FALSE, FALSE>>,isClosed |-> FALSE,issuedAfterDead |-> {1},cpc |-> <<"timedout", "idle">>,failQ |-> <<1>>,sm |-> <<0, 0, 0>>,recvq |-> <<>>]),
    ([cur |-> 2,wroteDead |-> FALSE,rpc |-> <<"exited", "reading", "none">>,connDone |-> <<1, 0, 0>>,replied |-> {},nconn |-> 2,spc |-> <<"exited", "pollFail", "none">>,dialHealthy |-> FALSE,sendQ |-> <<>>,lclosed |-> <<TRUE, FALSE, FALSE>>,srvGot |-> <<{}, {}, {}>>,pclosed |-> <<TRUE, FALSE, FALSE>>,isClosed |-> FALSE,issuedAfterDead |-> {1},cpc |-> <<"timedout", "idle">>,failQ |-> <<1>>,sm |-> <<0, 0, 0>>,recvq |-> <<>>]),
    ([cur |-> 2,wroteDead |-> FALSE,rpc |-> <<"exited", "reading", "none">>,connDone |-> <<1, 0, 0>>,replied |-> {},nconn |-> 2,spc |-> <<"exited", "pollFail", "none">>,dialHealthy |-> FALSE,sendQ |-> <<>>,lclosed |-> <<TRUE, FALSE, FALSE>>,srvGot |-> <<{}, {}, {}>>,pclosed |-> <<TRUE, TRUE, FALSE>>,isClosed |-> FALSE,issuedAfterDead |-> {},cpc |-> <<"timedout", "idle">>,failQ |-> <<1>>,sm |-> <<0, 0, 0>>,recvq |-> <<>>]),
    ([cur |-> 2,wroteDead |-> FALSE,rpc |-> <<"exited", "reading", "none">>,connDone |-> <<1, 0, 0>>,replied |-> {},nconn |-> 2,spc |-> <<"exited", "got", "none">>,dialHealthy |-> FALSE,sendQ |-> <<>>,lclosed |-> <<TRUE, FALSE, FALSE>>,srvGot |-> <<{}, {}, {}>>,pclosed |-> <<TRUE, TRUE, FALSE>>,isClosed |-> FALSE,issuedAfterDead |-> {},cpc |-> <<"timedout", "idle">>,failQ |-> <<>>,sm |-> <<0, 1, 0>>,recvq |-> <<>>]),
    ([cur |-> 2,wroteDead |-> FALSE,rpc |-> <<"exited", "signal", "none">>,connDone |-> <<1, 0, 0>>,replied |-> {},nconn |-> 2,spc |-> <<"exited", "got", "none">>,dialHealthy |-> FALSE,sendQ |-> <<>>,lclosed |-> <<TRUE, TRUE, FALSE>>,srvGot |-> <<{}, {}, {}>>,pclosed |-> <<TRUE, TRUE, FALSE>>,isClosed |-> TRUE,issuedAfterDead |-> {},cpc |-> <<"timedout", "idle">>,failQ |-> <<>>,sm |-> <<0, 1, 0>>,recvq |-> <<>>]),
    ([cur |-> 2,wroteDead |-> FALSE,rpc |-> <<"exited", "signal", "none">>,connDone |-> <<1, 0, 0>>,replied |-> {},nconn |-> 2,spc |-> <<"exited", "handover", "none">>,dialHealthy |-> FALSE,sendQ |-> <<>>,lclosed |-> <<TRUE, TRUE, FALSE>>,srvGot |-> <<{}, {}, {}>>,pclosed |-> <<TRUE, TRUE, FALSE>>,isClosed |-> TRUE,issuedAfterDead |-> {1},cpc |-> <<"timedout", "idle">>,failQ |-> <<>>,sm |-> <<0, 1, 0>>,recvq |-> <<>>]),
    ([cur |-> 2,wroteDead |-> FALSE,rpc |-> <<"exited", "signal", "none">>,connDone |-> <<1, 0, 0>>,replied |-> {},nconn |-> 2,spc |-> <<"exited", "redial", "none">>,dialHealthy |-> FALSE,sendQ |-> <<>>,lclosed |-> <<TRUE, TRUE, FALSE>>,srvGot |-> <<{}, {}, {}>>,pclosed |-> <<TRUE, TRUE, FALSE>>,isClosed |-> TRUE,issuedAfterDead |-> {1},cpc |-> <<"timedout", "idle">>,failQ |-> <<1>>,sm |-> <<0, 0, 0>>,recvq |-> <<>>]),
    ([cur |-> 3,wroteDead |-> FALSE,rpc |-> <<"exited", "signal", "reading">>,connDone |-> <<1, 0, 0>>,replied |-> {},nconn |-> 3,spc |-> <<"exited", "exited", "top">>,dialHealthy |-> FALSE,sendQ |-> <<>>,lclosed |-> <<TRUE, TRUE, FALSE>>,srvGot |-> <<{}, {}, {}>>,pclosed |-> <<TRUE, TRUE, FALSE>>,isClosed |-> FALSE,issuedAfterDead |-> {1},cpc |-> <<"timedout", "idle">>,failQ |-> <<1>>,sm |-> <<0, 0, 0>>,recvq |-> <<>>]),
    ([cur |-> 3,wroteDead |-> FALSE,rpc |-> <<"exited", "exited", "reading">>,connDone |-> <<1, 1, 0>>,replied |-> {},nconn |-> 3,spc |-> <<"exited", "exited", "top">>,dialHealthy |-> FALSE,sendQ |-> <<>>,lclosed |-> <<TRUE, TRUE, FALSE>>,srvGot |-> <<{}, {}, {}>>,pclosed |-> <<TRUE, TRUE, FALSE>>,isClosed |-> FALSE,issuedAfterDead |-> {1},cpc |-> <<"timedout", "idle">>,failQ |-> <<1>>,sm |-> <<0, 0, 0>>,recvq |-> <<>>]),
    ([cur |-> 3,wroteDead |-> FALSE,rpc |-> <<"exited", "exited", "reading">>,connDone |-> <<1, 1, 0>>,replied |-> {},nconn |-> 3,spc |-> <<"exited", "exited", "pollFail">>,dialHealthy |-> FALSE,sendQ |-> <<>>,lclosed |-> <<TRUE, TRUE, FALSE>>,srvGot |-> <<{}, {}, {}>>,pclosed |-> <<TRUE, TRUE, FALSE>>,isClosed |-> FALSE,issuedAfterDead |-> {1},cpc |-> <<"timedout", "idle">>,failQ |-> <<1>>,sm |-> <<0, 0, 0>>,recvq |-> <<>>]),
    ([cur |-> 3,wroteDead |-> FALSE,rpc |-> <<"exited", "exited", "reading">>,connDone |-> <<1, 1, 0>>,replied |-> {},nconn |-> 3,spc |-> <<"exited", "exited", "got">>,dialHealthy |-> FALSE,sendQ |-> <<>>,lclosed |-> <<TRUE, TRUE, FALSE>>,srvGot |-> <<{}, {}, {}>>,pclosed |-> <<TRUE, TRUE, FALSE>>,isClosed |-> FALSE,issuedAfterDead |-> {1},cpc |-> <<"timedout", "idle">>,failQ |-> <<>>,sm |-> <<0, 0, 1>>,recvq |-> <<>>]),
    ([cur |-> 3,wroteDead |-> FALSE,rpc |-> <<"exited", "exited", "reading">>,connDone |-> <<1, 1, 0>>,replied |-> {},nconn |-> 3,spc |-> <<"exited", "exited", "write">>,dialHealthy |-> FALSE,sendQ |-> <<>>,lclosed |-> <<TRUE, TRUE, FALSE>>,srvGot |-> <<{}, {}, {}>>,pclosed |-> <<TRUE, TRUE, FALSE>>,isClosed |-> FALSE,issuedAfterDead |-> {1},cpc |-> <<"timedout", "idle">>,failQ |-> <<>>,sm |-> <<0, 0, 1>>,recvq |-> <<>>]),
    ([cur |-> 3,wroteDead |-> FALSE,rpc |-> <<"exited", "exited", "reading">>,connDone |-> <<1, 1, 0>>,replied |-> {},nconn |-> 3,spc |-> <<"exited", "exited", "write">>,dialHealthy |-> FALSE,sendQ |-> <<>>,lclosed |-> <<TRUE, TRUE, FALSE>>,srvGot |-> <<{}, {}, {}>>,pclosed |-> <<TRUE, TRUE, TRUE>>,isClosed |-> FALSE,issuedAfterDead |-> {},cpc |-> <<"timedout", "idle">>,failQ |-> <<>>,sm |-> <<0, 0, 1>>,recvq |-> <<>>]),
    ([cur |-> 3,wroteDead |-> FALSE,rpc |-> <<"exited", "exited", "reading">>,connDone |-> <<1, 1, 0>>,replied |-> {},nconn |-> 3,spc |-> <<"exited", "exited", "top">>,dialHealthy |-> FALSE,sendQ |-> <<>>,lclosed |-> <<TRUE, TRUE, FALSE>>,srvGot |-> <<{}, {}, {}>>,pclosed |-> <<TRUE, TRUE, TRUE>>,isClosed |-> FALSE,issuedAfterDead |-> {},cpc |-> <<"timedout", "idle">>,failQ |-> <<>>,sm |-> <<0, 0, 0>>,recvq |-> <<>>]),
    ([cur |-> 3,wroteDead |-> FALSE,rpc |-> <<"exited", "exited", "reading">>,connDone |-> <<1, 1, 0>>,replied |-> {},nconn |-> 3,spc |-> <<"exited", "exited", "pollFail">>,dialHealthy |-> FALSE,sendQ |-> <<>>,lclosed |-> <<TRUE, TRUE, FALSE>>,srvGot |-> <<{}, {}, {}>>,pclosed |-> <<TRUE, TRUE, TRUE>>,isClosed |-> FALSE,issuedAfterDead |-> {},cpc |-> <<"timedout", "idle">>,failQ |-> <<>>,sm |-> <<0, 0, 0>>,recvq |-> <<>>]),
    ([cur |-> 3,wroteDead |-> FALSE,rpc |-> <<"exited", "exited", "reading">>,connDone |-> <<1, 1, 0>>,replied |-> {},nconn |-> 3,spc |-> <<"exited", "exited", "inner">>,dialHealthy |-> FALSE,sendQ |-> <<>>,lclosed |-> <<TRUE, TRUE, FALSE>>,srvGot |-> <<{}, {}, {}>>,pclosed |-> <<TRUE, TRUE, TRUE>>,isClosed |-> FALSE,issuedAfterDead |-> {},cpc |-> <<"timedout", "idle">>,failQ |-> <<>>,sm |-> <<0, 0, 0>>,recvq |-> <<>>]),
    ([cur |-> 3,wroteDead |-> FALSE,rpc |-> <<"exited", "exited", "reading">>,connDone |-> <<1, 1, 0>>,replied |-> {},nconn |-> 3,spc |-> <<"exited", "exited", "parked">>,dialHealthy |-> FALSE,sendQ |-> <<>>,lclosed |-> <<TRUE, TRUE, FALSE>>,srvGot |-> <<{}, {}, {}>>,pclosed |-> <<TRUE, TRUE, TRUE>>,isClosed |-> FALSE,issuedAfterDead |-> {},cpc |-> <<"timedout", "idle">>,failQ |-> <<>>,sm |-> <<0, 0, 0>>,recvq |-> <<3>>]),
    ([cur |-> 3,wroteDead |-> FALSE,rpc |-> <<"exited", "exited", "reading">>,connDone |-> <<1, 1, 0>>,replied |-> {},nconn |-> 3,spc |-> <<"exited", "exited", "parked">>,dialHealthy |-> FALSE,sendQ |-> <<>>,lclosed |-> <<TRUE, TRUE, FALSE>>,srvGot |-> <<{}, {}, {}>>,pclosed |-> <<TRUE, TRUE, TRUE>>,isClosed |-> FALSE,issuedAfterDead |-> {},cpc |-> <<"timedout", "calling">>,failQ |-> <<>>,sm |-> <<0, 0, 0>>,recvq |-> <<3>>]),
    ([cur |-> 3,wroteDead |-> FALSE,rpc |-> <<"exited", "exited", "reading">>,connDone |-> <<1, 1, 0>>,replied |-> {},nconn |-> 3,spc |-> <<"exited", "exited", "parked">>,dialHealthy |-> FALSE,sendQ |-> <<>>,lclosed |-> <<TRUE, TRUE, FALSE>>,srvGot |-> <<{}, {}, {}>>,pclosed |-> <<TRUE, TRUE, TRUE>>,isClosed |-> FALSE,issuedAfterDead |-> {},cpc |-> <<"timedout", "connected">>,failQ |-> <<>>,sm |-> <<0, 0, 0>>,recvq |-> <<3>>]),
    ([cur |-> 3,wroteDead |-> FALSE,rpc |-> <<"exited", "exited", "signal">>,connDone |-> <<1, 1, 0>>,replied |-> {},nconn |-> 3,spc |-> <<"exited", "exited", "parked">>,dialHealthy |-> FALSE,sendQ |-> <<>>,lclosed |-> <<TRUE, TRUE, TRUE>>,srvGot |-> <<{}, {}, {}>>,pclosed |-> <<TRUE, TRUE, TRUE>>,isClosed |-> TRUE,issuedAfterDead |-> {},cpc |-> <<"timedout", "connected">>,failQ |-> <<>>,sm |-> <<0, 0, 0>>,recvq |-> <<3>>]),
    ([cur |-> 3,wroteDead |-> FALSE,rpc |-> <<"exited", "exited", "signal">>,connDone |-> <<1, 1, 0>>,replied |-> {},nconn |-> 3,spc |-> <<"exited", "exited", "parked">>,dialHealthy |-> FALSE,sendQ |-> <<>>,lclosed |-> <<TRUE, TRUE, TRUE>>,srvGot |-> <<{}, {}, {}>>,pclosed |-> <<TRUE, TRUE, TRUE>>,isClosed |-> TRUE,issuedAfterDead |-> {},cpc |-> <<"timedout", "enq">>,failQ |-> <<>>,sm |-> <<0, 0, 0>>,recvq |-> <<3>>]),
    ([cur |-> 3,wroteDead |-> FALSE,rpc |-> <<"exited", "exited", "signal">>,connDone |-> <<1, 1, 0>>,replied |-> {},nconn |-> 3,spc |-> <<"exited", "exited", "got">>,dialHealthy |-> FALSE,sendQ |-> <<>>,lclosed |-> <<TRUE, TRUE, TRUE>>,srvGot |-> <<{}, {}, {}>>,pclosed |-> <<TRUE, TRUE, TRUE>>,isClosed |-> TRUE,issuedAfterDead |-> {},cpc |-> <<"timedout", "wait">>,failQ |-> <<>>,sm |-> <<0, 0, 2>>,recvq |-> <<>>]),
    ([cur |-> 3,wroteDead |-> FALSE,rpc |-> <<"exited", "exited", "signal">>,connDone |-> <<1, 1, 0>>,replied |-> {},nconn |-> 3,spc |-> <<"exited", "exited", "handover">>,dialHealthy |-> FALSE,sendQ |-> <<>>,lclosed |-> <<TRUE, TRUE, TRUE>>,srvGot |-> <<{}, {}, {}>>,pclosed |-> <<TRUE, TRUE, TRUE>>,isClosed |-> TRUE,issuedAfterDead |-> {2},cpc |-> <<"timedout", "wait">>,failQ |-> <<>>,sm |-> <<0, 0, 2>>,recvq |-> <<>>]),
    ([cur |-> 3,wroteDead |-> FALSE,rpc |-> <<"exited", "exited", "signal">>,connDone |-> <<1, 1, 0>>,replied |-> {},nconn |-> 3,spc |-> <<"exited", "exited", "redial">>,dialHealthy |-> FALSE,sendQ |-> <<>>,lclosed |-> <<TRUE, TRUE, TRUE>>,srvGot |-> <<{}, {}, {}>>,pclosed |-> <<TRUE, TRUE, TRUE>>,isClosed |-> TRUE,issuedAfterDead |-> {2},cpc |-> <<"timedout", "wait">>,failQ |-> <<2>>,sm |-> <<0, 0, 0>>,recvq |-> <<>>]),
    ([cur |-> 3,wroteDead |-> FALSE,rpc |-> <<"exited", "exited", "signal">>,connDone |-> <<1, 1, 0>>,replied |-> {},nconn |-> 3,spc |-> <<"exited", "exited", "exited">>,dialHealthy |-> FALSE,sendQ |-> <<>>,lclosed |-> <<TRUE, TRUE, TRUE>>,srvGot |-> <<{}, {}, {}>>,pclosed |-> <<TRUE, TRUE, TRUE>>,isClosed |-> TRUE,issuedAfterDead |-> {2},cpc |-> <<"timedout", "wait">>,failQ |-> <<2>>,sm |-> <<0, 0, 0>>,recvq |-> <<>>]),
    ([cur |-> 3,wroteDead |-> FALSE,rpc |-> <<"exited", "exited", "exited">>,connDone |-> <<1, 1, 1>>,replied |-> {},nconn |-> 3,spc |-> <<"exited", "exited", "exited">>,dialHealthy |-> FALSE,sendQ |-> <<>>,lclosed |-> <<TRUE, TRUE, TRUE>>,srvGot |-> <<{}, {}, {}>>,pclosed |-> <<TRUE, TRUE, TRUE>>,isClosed |-> TRUE,issuedAfterDead |-> {2},cpc |-> <<"timedout", "wait">>,failQ |-> <<2>>,sm |-> <<0, 0, 0>>,recvq |-> <<>>])
    >>
----


=============================================================================

---- CONFIG ClientConn_TTrace_1790559797 ----
CONSTANTS
    MaxConn = 3
    Reqs = { 1 , 2 }
    Fix = TRUE

INVARIANT
    _inv

CHECK_DEADLOCK
    \* CHECK_DEADLOCK off because of PROPERTY or INVARIANT above.
    FALSE

INIT
    _init

NEXT
    _next

CONSTANT
    _TETrace <- _trace

ALIAS
    _expression
=============================================================================
\* Generated on Mon Sep 28 01:43:20 UTC 2026