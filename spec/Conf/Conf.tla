------------------------------- MODULE Conf -------------------------------
(* C17 -- reference semantics of the tars configuration document.                                  *)
(*                                                                                                 *)
(* A document is a sequence of abstract LINES.  A line is a record with the fields                 *)
(*    t = "open"     k = domain name                      <k>                                      *)
(*    t = "close"    k = domain name                      </k>                                     *)
(*    t = "kv"       k = key, v = value                   k=v    v is what a getter must return:   *)
(*                                                        no surrounding blanks, may contain '='   *)
(*    t = "hos"      k, v as "kv", but v contains an XML-special or control character (& < > ...)  *)
(*    t = "key"      k = the text of a line without '='                                            *)
(*    t = "nokey"    v = text after the '=' of a line whose key is empty: "= v", "==" (v is "="),  *)
(*                   "=" (v empty); blanks before the '=' are the line's leading blanks, so this   *)
(*                   also is the line whose key consists of blanks only                            *)
(*    t = "comment"  v = text after '#'                                                            *)
(*    t = "hcomment" v = text after '#', containing an XML-special character                       *)
(*    t = "blank"                                                                                  *)
(* (rendered lines carry in addition lead/pre/post/trail/eol: the blanks and the line end written  *)
(* around the tokens; the semantics never looks at them, only Render and LineText do).             *)
(*                                                                                                 *)
(* The semantics is a left fold of Step over the lines (domain stack + tree), independent of any   *)
(* tokenizer: an Open pushes and creates-or-reuses the sub-domain (re-opened domains merge), a     *)
(* Close must name the innermost open domain (otherwise the document has no meaning: fault), a     *)
(* k=v line binds k in the innermost domain (later duplicates win) and is appended to its line     *)
(* listing, comments and blank lines are ignored.                                                  *)
(* A line without '=' ("key"): the statement does not say whether it defines a key.  Both readings are admitted, *)
(* ONE PER DOCUMENT: under the reading "defines" (RunR(doc, TRUE)) it binds its text to the empty value like     *)
(* "k=" does -- so it takes part in "later duplicates win" in either position: k=v followed by a bare k leaves  *)
(* k empty, a bare k followed by k=v leaves v --, under the reading "ignored" (RunR(doc, FALSE)) it is an entry  *)
(* of the line listing and nothing else.  A parser that lists a bare k as a key when it stands alone but keeps   *)
(* an earlier k=v when it does not follows neither reading.  Run(doc) = RunR(doc, FALSE) is the part both        *)
(* readings share (domains, faults, '='-bindings of keys never written bare).                                     *)
(* A line with an empty key ("nokey"): it is a written line that is neither blank nor a comment, so it IS an   *)
(* entry of the line listing of its domain (the statement: the line listings contain exactly the written         *)
(* entries) -- a parser that returns success without it has silently dropped part of the document.  The           *)
(* statement does not say that the empty text is a key: the reference binds nothing (EmptyKeyLinesAreLinesOnly), *)
(* and what a parser answers about a key "" is recorded, not judged (Oracle_Conf!EkObs).                          *)
(* A second, declarative characterisation (Encl, DeclLookup, ...) says the same thing without a stack, by     *)
(* counting; MC_Conf checks that both agree on every document of a small scope.                    *)
EXTENDS Integers, Sequences, FiniteSets, TLC

----------------------------------------------------------------------------
(* Line classes *)
Binding(l)  == l.t \in {"kv", "hos"}                    \* binds a key to a value
Content(l)  == l.t \in {"kv", "hos", "key", "nokey"}    \* is an entry of the line listing
Ignored(l)  == l.t \in {"comment", "hcomment", "blank"}
HostileLn(l) == l.t \in {"hos", "hcomment"}

----------------------------------------------------------------------------
(* Operational semantics: domain stack + tree *)
EmptyFn  == [x \in {} |-> ""]
EmptyDom == [subs |-> {}, kv |-> EmptyFn, opt |-> {}, lines |-> <<>>]
   \* subs: names of sub-domains; kv: key -> value; opt: keys written WITHOUT '=' (the statement does not
   \* say whether such a line defines a key: never judged); lines: content lines in document order
St0 == [stack |-> <<>>, fault |-> 0, n |-> 0, dom |-> (<<>> :> EmptyDom)]

Front(s) == SubSeq(s, 1, Len(s) - 1)
Last(s)  == s[Len(s)]

StepR(st, l, bare) ==
  LET p == st.stack
      s == [st EXCEPT !.n = @ + 1]
  IN IF st.fault # 0 THEN s                              \* nothing after a mismatched close has a meaning
     ELSE CASE l.t = "open" ->
                 LET q  == Append(p, l.k)
                     d1 == [st.dom EXCEPT ![p].subs = @ \cup {l.k}]
                     d2 == IF q \in DOMAIN d1 THEN d1 ELSE (q :> EmptyDom) @@ d1
                 IN [s EXCEPT !.stack = q, !.dom = d2]
            [] l.t = "close" ->
                 IF p # <<>> /\ Last(p) = l.k THEN [s EXCEPT !.stack = Front(p)]
                 ELSE [s EXCEPT !.fault = s.n]
            [] Binding(l) ->
                 [s EXCEPT !.dom = [st.dom EXCEPT ![p].kv = (l.k :> l.v) @@ @, ![p].lines = Append(@, l)]]
            [] l.t = "key" ->
                 [s EXCEPT !.dom = [st.dom EXCEPT ![p].opt = @ \cup {l.k}, ![p].lines = Append(@, l),
                                                  ![p].kv = IF bare THEN (l.k :> "") @@ @ ELSE @]]
            [] l.t = "nokey" ->
                 [s EXCEPT !.dom = [st.dom EXCEPT ![p].lines = Append(@, l)]]
            [] OTHER -> s

Step(st, l) == StepR(st, l, FALSE)
RECURSIVE FoldR(_, _, _, _)
FoldR(st, doc, i, bare) == IF i > Len(doc) THEN st ELSE FoldR(StepR(st, doc[i], bare), doc, i + 1, bare)
RunR(doc, bare) == FoldR(St0, doc, 1, bare)
Run(doc) == RunR(doc, FALSE)
HasBare(doc) == \E i \in 1..Len(doc) : doc[i].t = "key"
HasNoKey(doc) == \E i \in 1..Len(doc) : doc[i].t = "nokey"

(* Classification of a document: what a parser is allowed to answer *)
Mismatch(r)  == r.fault # 0                    \* a close that closes nothing: must be an error
Unclosed(r)  == r.fault = 0 /\ r.stack # <<>>  \* end of input inside a domain: error, or complete (implicit close)
HostileDoc(doc) == \E i \in 1..Len(doc) : HostileLn(doc[i])   \* error, or complete
RefClass(doc, r) == IF Mismatch(r) THEN "mismatch"
                    ELSE IF HostileDoc(doc) THEN "hostile"
                    ELSE IF Unclosed(r) THEN "unclosed" ELSE "wellformed"

----------------------------------------------------------------------------
(* Queries on a result *)
Has(r, p)       == p \in DOMAIN r.dom
Subs(r, p)      == IF Has(r, p) THEN r.dom[p].subs ELSE {}
KeysOf(r, p)    == IF Has(r, p) THEN DOMAIN r.dom[p].kv ELSE {}
OptKeys(r, p)   == IF Has(r, p) THEN r.dom[p].opt ELSE {}
LinesOf(r, p)   == IF Has(r, p) THEN r.dom[p].lines ELSE <<>>
MapOf(r, p)     == IF Has(r, p) THEN r.dom[p].kv ELSE EmptyFn
Lookup(r, p, k) == IF Has(r, p) /\ k \in DOMAIN r.dom[p].kv THEN <<r.dom[p].kv[k]>> ELSE <<>>

(* Sessions.  A parsed configuration is a value: every listing query is the function Answer(r, g, p) of the  *)
(* result r alone, and nothing a caller does -- in particular nothing it does to an answer it has received:     *)
(* sorting it, rewriting or deleting its entries, appending to it, reusing its storage, nor anything it does to *)
(* the text it had handed to the parser -- is a Step.  Hence two observations of the same result are equal        *)
(* whatever the caller did in between (Oracle_Conf!Again judges the driver's second observation by this).        *)
Answer(r, g, p) == CASE g = "GetDomain"     -> Subs(r, p)
                     [] g = "GetDomainKey"  -> KeysOf(r, p)
                     [] g = "GetDomainLine" -> LinesOf(r, p)
                     [] g = "GetMap"        -> MapOf(r, p)

(* Typed getters over a value vocabulary with known parses.  Results are decimal strings (the        *)
(* harness prints numbers with strconv), so no number ever has to fit TLC's 32-bit integers.         *)
IntOf   == ("0" :> "0") @@ ("1" :> "1") @@ ("12" :> "12") @@ ("-7" :> "-7") @@ ("3000000000" :> "3000000000")
Int32Of == ("0" :> "0") @@ ("1" :> "1") @@ ("12" :> "12") @@ ("-7" :> "-7")       \* 3000000000 does not fit: malformed
FloatOf == ("0" :> "0") @@ ("1" :> "1") @@ ("12" :> "12") @@ ("-7" :> "-7") @@ ("1.5" :> "1.5")
           @@ ("3000000000" :> "3e+09")
BoolOf  == ("true" :> "true") @@ ("false" :> "false")
BoolUnjudged == {"0", "1"}     \* whether "1" is a boolean is a convention the statement does not fix
RECURSIVE Rep(_, _)
Rep(s, n) == IF n = 0 THEN "" ELSE IF n % 2 = 1 THEN s \o Rep(s, n - 1) ELSE LET h == Rep(s, n \div 2) IN h \o h
LongVal == Rep("v", 70000)     \* longer than any fixed 64 KiB line buffer
CleanVocab == {"0", "1", "12", "-7", "3000000000", "1.5", "true", "false", "abc", "zz", "", "x=y", "a=b=c", "a b",
               "a#b", LongVal}
HostileVocab == {"x&y", "1<2", "2>1"}         \* none of them is a number or a boolean
KnownVocab == CleanVocab \cup HostileVocab

GetStringWithDef(r, p, k, d) == LET x == Lookup(r, p, k) IN IF x = <<>> THEN d ELSE x[1]
GetString(r, p, k) == GetStringWithDef(r, p, k, "")
Typed(tab, r, p, k, d) == LET x == Lookup(r, p, k) IN
                          IF x = <<>> THEN d ELSE IF x[1] \in DOMAIN tab THEN tab[x[1]] ELSE d
GetIntWithDef(r, p, k, d)   == Typed(IntOf, r, p, k, d)
GetInt(r, p, k)             == GetIntWithDef(r, p, k, "0")
GetInt32WithDef(r, p, k, d) == Typed(Int32Of, r, p, k, d)
GetBoolWithDef(r, p, k, d)  == Typed(BoolOf, r, p, k, d)
GetFloatWithDef(r, p, k, d) == Typed(FloatOf, r, p, k, d)

VocabSane == /\ DOMAIN Int32Of \subseteq DOMAIN IntOf /\ DOMAIN IntOf \subseteq DOMAIN FloatOf
             /\ (DOMAIN FloatOf \cup DOMAIN BoolOf) \subseteq CleanVocab
             /\ DOMAIN BoolOf \cap DOMAIN FloatOf = {} /\ BoolUnjudged \subseteq DOMAIN IntOf
             /\ CleanVocab \cap HostileVocab = {}
             /\ Len(LongVal) = 70000

----------------------------------------------------------------------------
(* Concrete syntax of a rendered line (fields lead, pre, post, trail, eol) *)
Blanks == {"", " ", "  ", "\t", " \t", "\t\t ", "    "}
Body(l) == CASE l.t = "open"  -> "<" \o l.k \o ">"
             [] l.t = "close" -> "</" \o l.k \o ">"
             [] Binding(l)    -> l.k \o l.pre \o "=" \o l.post \o l.v
             [] l.t = "key"   -> l.k
             [] l.t = "nokey" -> "=" \o l.post \o l.v
             [] l.t \in {"comment", "hcomment"} -> "#" \o l.v
             [] OTHER -> ""
RenderLine(l) == l.lead \o Body(l) \o l.trail \o l.eol
RECURSIVE RenderFrom(_, _)
RenderFrom(doc, i) == IF i > Len(doc) THEN "" ELSE RenderLine(doc[i]) \o RenderFrom(doc, i + 1)
Render(doc) == RenderFrom(doc, 1)
RenderingSane(doc) == \A i \in 1..Len(doc) :
     /\ {doc[i].lead, doc[i].pre, doc[i].post, doc[i].trail} \subseteq Blanks
     /\ \/ doc[i].eol \in {"\n", "\r\n"}
        \/ doc[i].eol = "" /\ i = Len(doc)
        \/ doc[i].eol = "" /\ doc[i].t \in {"open", "close"}                              \* tags delimit themselves:
        \/ doc[i].eol = "" /\ i < Len(doc) /\ doc[i + 1].t \in {"open", "close"}          \* <a>k=v</a> is one physical line
(* the text of a content line as a line listing returns it: the written line without surrounding blanks *)
LineText(l) == CASE Binding(l)    -> IF l.v = "" THEN l.k \o l.pre \o "=" ELSE l.k \o l.pre \o "=" \o l.post \o l.v
                 [] l.t = "key"   -> l.k
                 [] l.t = "nokey" -> IF l.v = "" THEN "=" ELSE "=" \o l.post \o l.v
                 [] OTHER -> ""

----------------------------------------------------------------------------
(* Declarative characterisation (no stack): which domain encloses line i, by counting.              *)
Delta(l) == IF l.t = "open" THEN 1 ELSE IF l.t = "close" THEN -1 ELSE 0
RECURSIVE Bal(_, _, _)
Bal(doc, i, j) == IF i > j THEN 0 ELSE Delta(doc[i]) + Bal(doc, i + 1, j)
\* the Open at j is not yet closed just before line i
StillOpen(doc, j, i) == doc[j].t = "open" /\ \A m \in (j + 1)..(i - 1) : Bal(doc, j + 1, m) >= 0
Encl(doc, i) == LET S == {j \in 1..(i - 1) : StillOpen(doc, j, i)}
                IN [n \in 1..Cardinality(S) |-> doc[CHOOSE j \in S : Cardinality({x \in S : x <= j}) = n].k]
SetMin(S) == CHOOSE x \in S : \A y \in S : x <= y
SetMax(S) == CHOOSE x \in S : \A y \in S : x >= y
DeclFault(doc) == LET B == {c \in 1..Len(doc) : doc[c].t = "close" /\
                                 LET e == Encl(doc, c) IN e = <<>> \/ Last(e) # doc[c].k}
                  IN IF B = {} THEN 0 ELSE SetMin(B)
Eff(doc) == LET f == DeclFault(doc) IN IF f = 0 THEN Len(doc) ELSE f - 1     \* the part that has a meaning
DeclHas(doc, p) == p = <<>> \/ \E i \in 1..Eff(doc) : doc[i].t = "open" /\ Append(Encl(doc, i), doc[i].k) = p
DeclSubs(doc, p) == {doc[i].k : i \in {j \in 1..Eff(doc) : doc[j].t = "open" /\ Encl(doc, j) = p}}
BindsR(l, bare) == Binding(l) \/ (bare /\ l.t = "key")
ValOf(l) == IF l.t = "key" THEN "" ELSE l.v
DeclLookupR(doc, p, k, bare) == LET S == {i \in 1..Eff(doc) : BindsR(doc[i], bare) /\ doc[i].k = k /\ Encl(doc, i) = p}
                                IN IF S = {} THEN <<>> ELSE <<ValOf(doc[SetMax(S)])>>         \* the LAST binding wins
DeclLookup(doc, p, k) == DeclLookupR(doc, p, k, FALSE)
DeclLines(doc, p) == LET idx == SelectSeq([i \in 1..Eff(doc) |-> i], LAMBDA i : Content(doc[i]) /\ Encl(doc, i) = p)
                     IN [n \in 1..Len(idx) |-> doc[idx[n]]]

(* Theorems checked by MC_Conf on every document of the scope *)
PathsOfInterest(doc, r, names) ==
   DOMAIN r.dom \cup {Encl(doc, i) : i \in 1..(Len(doc) + 1)}
                \cup {Append(Encl(doc, i), n) : i \in 1..(Len(doc) + 1), n \in names}
AgreeOn(doc, names, keys) ==
   LET r == Run(doc) IN
   /\ r.fault = DeclFault(doc)
   /\ r.n = Len(doc)
   /\ r.fault = 0 => r.stack = Encl(doc, Len(doc) + 1)
   /\ \A p \in PathsOfInterest(doc, r, names) :
        /\ Has(r, p) = DeclHas(doc, p)
        /\ Subs(r, p) = DeclSubs(doc, p)
        /\ LinesOf(r, p) = DeclLines(doc, p)
        /\ \A k \in keys : Lookup(r, p, k) = DeclLookup(doc, p, k)
        /\ KeysOf(r, p) = {k \in keys : DeclLookup(doc, p, k) # <<>>}       \* exactly the written keys
        /\ LET rb == RunR(doc, TRUE) IN                                     \* the other reading of lines without '='
             /\ \A k \in keys : Lookup(rb, p, k) = DeclLookupR(doc, p, k, TRUE)
             /\ KeysOf(rb, p) = {k \in keys : DeclLookupR(doc, p, k, TRUE) # <<>>}
             /\ Has(rb, p) = Has(r, p) /\ Subs(rb, p) = Subs(r, p) /\ LinesOf(rb, p) = LinesOf(r, p)
             /\ rb.fault = r.fault /\ rb.stack = r.stack
        /\ ~Has(r, p) => Subs(r, p) = {} /\ KeysOf(r, p) = {} /\ LinesOf(r, p) = <<>>
\* comments and blank lines never matter
NoiseFree(doc) == SelectSeq(doc, LAMBDA l : ~Ignored(l))
IgnoredLinesIgnored(doc) == LET a == Run(doc) b == Run(NoiseFree(doc)) IN
   a.dom = b.dom /\ a.stack = b.stack /\ (a.fault = 0) = (b.fault = 0)
\* lines with an empty key are entries of the line listing of their domain, each of them, in document order, and nothing
\* else: without them the document means the same tree, and every line listing is the old one with exactly those entries
\* taken out (so none of them may be missing from a listing, and none can stand in for a binding)
NoKeyFree(doc) == SelectSeq(doc, LAMBDA l : l.t # "nokey")
EmptyKeyLinesAreLinesOnly(doc) == LET a == Run(doc) b == Run(NoKeyFree(doc)) IN
   /\ DOMAIN a.dom = DOMAIN b.dom /\ a.stack = b.stack /\ (a.fault = 0) = (b.fault = 0)
   /\ \A p \in DOMAIN a.dom :
        /\ a.dom[p].kv = b.dom[p].kv /\ a.dom[p].subs = b.dom[p].subs /\ a.dom[p].opt = b.dom[p].opt
        /\ b.dom[p].lines = SelectSeq(a.dom[p].lines, LAMBDA l : l.t # "nokey")
        /\ Len(a.dom[p].lines) - Len(b.dom[p].lines)
             = Cardinality({i \in 1..Eff(doc) : doc[i].t = "nokey" /\ Encl(doc, i) = p})
        /\ \A i \in 1..Eff(doc) : (doc[i].t = "nokey" /\ Encl(doc, i) = p) =>
               \E n \in 1..Len(a.dom[p].lines) : a.dom[p].lines[n] = doc[i]
\* re-opening merges: two complete documents one after the other mean the right-biased union of their trees
MergeDom(a, b) == [subs |-> a.subs \cup b.subs, kv |-> b.kv @@ a.kv, opt |-> a.opt \cup b.opt, lines |-> a.lines \o b.lines]
MergeTree(A, B) == [p \in DOMAIN A \cup DOMAIN B |->
                      IF p \notin DOMAIN B THEN A[p] ELSE IF p \notin DOMAIN A THEN B[p] ELSE MergeDom(A[p], B[p])]
Complete(r) == r.fault = 0 /\ r.stack = <<>>
ConcatMerges(doc) == Complete(Run(doc)) =>
   \A i \in 0..Len(doc) : LET d1 == SubSeq(doc, 1, i) d2 == SubSeq(doc, i + 1, Len(doc)) IN
       Complete(Run(d1)) => /\ Complete(Run(d2))
                            /\ Run(doc).dom = MergeTree(Run(d1).dom, Run(d2).dom)
\* every written value is retrievable unless a later line of the same domain rebinds the key
WrittenRetrievable(doc) == LET r == Run(doc) IN r.fault = 0 =>
   \A i \in 1..Len(doc) : Binding(doc[i]) =>
       LET p == Encl(doc, i) IN
       \/ GetStringWithDef(r, p, doc[i].k, "<D>") = doc[i].v
       \/ \E j \in (i + 1)..Len(doc) : Binding(doc[j]) /\ doc[j].k = doc[i].k /\ Encl(doc, j) = p
\* the same under the reading in which a line without '=' binds its key to the empty value: written, or rebound later
WrittenRetrievableR(doc) == LET r == RunR(doc, TRUE) IN r.fault = 0 =>
   \A i \in 1..Len(doc) : BindsR(doc[i], TRUE) =>
       LET p == Encl(doc, i) IN
       \/ GetStringWithDef(r, p, doc[i].k, "<D>") = ValOf(doc[i])
       \/ \E j \in (i + 1)..Len(doc) : BindsR(doc[j], TRUE) /\ doc[j].k = doc[i].k /\ Encl(doc, j) = p
\* the two readings differ only in the keys written bare: there "defines" answers as if the line were "k="
AsEmpty(doc) == [i \in 1..Len(doc) |-> IF doc[i].t = "key" THEN [doc[i] EXCEPT !.t = "kv", !.v = ""] ELSE doc[i]]
BareIsEmptyValue(doc) == LET a == RunR(doc, TRUE) b == Run(AsEmpty(doc)) IN
   /\ DOMAIN a.dom = DOMAIN b.dom /\ a.fault = b.fault /\ a.stack = b.stack
   /\ \A p \in DOMAIN a.dom : a.dom[p].kv = b.dom[p].kv /\ a.dom[p].subs = b.dom[p].subs
\* typed getters: parsed value or the default
TypedTotal(doc, keys) == LET r == Run(doc) IN \A p \in DOMAIN r.dom : \A k \in keys :
   LET x == Lookup(r, p, k) IN
   /\ x = <<>> => GetIntWithDef(r, p, k, "77") = "77" /\ GetBoolWithDef(r, p, k, "true") = "true"
                  /\ GetString(r, p, k) = "" /\ GetFloatWithDef(r, p, k, "7.5") = "7.5"
   /\ x # <<>> => /\ GetString(r, p, k) = x[1]
                  /\ GetIntWithDef(r, p, k, "77") = (IF x[1] \in DOMAIN IntOf THEN IntOf[x[1]] ELSE "77")
                  /\ GetInt32WithDef(r, p, k, "77") \in {"77", GetIntWithDef(r, p, k, "77")}
=============================================================================
