---- MODULE MC_Conf ----
(* Exhaustive small-scope check of the reference itself: every document (well nested or not) over   *)
(* the alphabet below, up to MaxLen lines, is a state; the invariants compare the stack machine     *)
(* (Run) with the declarative characterisation and check the algebraic laws of the statement.       *)
EXTENDS Conf
CONSTANTS Names, Keys, Vals, MaxLen, Extra
VARIABLE doc
L(t, k, v) == [t |-> t, k |-> k, v |-> v]
Alphabet == {L("open", n, "") : n \in Names} \cup {L("close", n, "") : n \in Names}
            \cup {L("kv", k, v) : k \in Keys, v \in Vals} \cup Extra
ExtraFull == {L("key", "k3", ""), L("key", "k1", ""), L("nokey", "", "zz"), L("nokey", "", ""), L("nokey", "", "="), L("comment", "", "k1=zz"), L("blank", "", ""),
              L("hos", "k1", "x&y"), L("hcomment", "", " a&b")}
ExtraSmall == {L("key", "k1", ""), L("nokey", "", "="), L("comment", "", "k1=zz"), L("hos", "k2", "1<2")}
Init == doc = <<>>
\* nothing after a mismatched close has a meaning: one more line is enough to see that it is ignored
Next == /\ Len(doc) < MaxLen
        /\ LET f == Run(doc).fault IN f = 0 \/ f = Len(doc)
        /\ \E l \in Alphabet : doc' = Append(doc, l)
Spec == Init /\ [][Next]_doc
Agree == AgreeOn(doc, Names, Keys \cup {"k1", "k2", "k3"})
IgnoreNoise == IgnoredLinesIgnored(doc)
Merge == ConcatMerges(doc)
Retrievable == WrittenRetrievable(doc) /\ WrittenRetrievableR(doc)
BareReading == BareIsEmptyValue(doc)
EmptyKey == EmptyKeyLinesAreLinesOnly(doc)
TypedOK == TypedTotal(doc, Keys)
FaultFrozen == LET r == Run(doc) IN (r.fault # 0 /\ r.fault < Len(doc)) =>
                  LET q == Run(SubSeq(doc, 1, r.fault)) IN q.dom = r.dom /\ q.stack = r.stack /\ q.fault = r.fault
ASSUME VocabSane
====
