INIT Init
NEXT Next
