CONSTANTS Names = {"a", "b"}  Keys = {"k1"}  Vals = {"1", "x=y"}  MaxLen = 6  Extra <- ExtraSmall
SPECIFICATION Spec
INVARIANTS Agree IgnoreNoise Merge Retrievable BareReading EmptyKey TypedOK FaultFrozen
CHECK_DEADLOCK FALSE
