------------------------------ MODULE AppConf ------------------------------
(* C17, second code area -- the application's reading of the configuration document                 *)
(* (tars/application.go: parseServerConfig, parseClientConfig).                                      *)
(*                                                                                                   *)
(* "Typed getters return the parsed value or the supplied default when the key is absent or          *)
(* malformed", as the application sees it: every setting of the server / client configuration is     *)
(*      Eval(setting) = getter(Run(doc), domain, key, supplied default)                               *)
(* where the supplied default is either a documented constant (tars/setting.go), the address of the  *)
(* host, or ANOTHER SETTING AS CONFIGURED (node_name defaults to the configured local ip; the client *)
(* context entry node_name is the configured node name).  The reference is declarative: a default   *)
(* that names another setting means that setting's value for this document, whatever order an        *)
(* implementation reads the keys in.                                                                 *)
(*                                                                                                   *)
(* The table below is the reading table: field, domain, key, getter, supplied default.               *)
EXTENDS Conf

PApp == <<"tars", "application">>
PSvr == <<"tars", "application", "server">>
PClt == <<"tars", "application", "client">>
SecPath(sec) == CASE sec = "app" -> PApp [] sec = "server" -> PSvr [] sec = "client" -> PClt
                  [] OTHER -> Append(PSvr, sec)              \* an adapter: sub-domain of the server domain

\* supplied defaults
C(v) == <<"const", v>>
HostIP == <<"host", "">>
Fld(f) == <<"field", f>>
S(f, sec, k, ty, d) == [f |-> f, sec |-> sec, k |-> k, ty |-> ty, def |-> d]
\* ty: "map"   GetMap(domain)[key]: "" when absent           "str"   GetStringWithDef
\*     "int"   GetIntWithDef (durations are milliseconds)    "int32" GetInt32WithDef
\*     "bool"  GetBoolWithDef     "float" GetFloatWithDef    "uint"  decimal unsigned or the default
\*     "copy"  the value of the setting named by the default (no key of its own)
\*     "yes"   "true" iff the value is Y or y                "ifyes" GetString if setting def is "true", else ""
Settings == <<
  S("svr.Enableset",     "app",    "enableset",     "yes",   C("false")),
  S("svr.Setdivision",   "app",    "setdivision",   "ifyes", Fld("svr.Enableset")),
  S("svr.Node",          "server", "node",          "map",   C("")),
  S("svr.App",           "server", "app",           "map",   C("")),
  S("svr.Server",        "server", "server",        "map",   C("")),
  S("svr.LocalIP",       "server", "localip",       "str",   HostIP),
  S("svr.NodeName",      "server", "node_name",     "str",   Fld("svr.LocalIP")),
  S("svr.Local",         "server", "local",         "str",   C("")),
  S("svr.LogPath",       "server", "logpath",       "map",   C("")),
  S("svr.LogNum",        "server", "lognum",        "uint",  C("10")),
  S("svr.LogLevel",      "server", "logLevel",      "map",   C("")),
  S("svr.Config",        "server", "config",        "map",   C("")),
  S("svr.Notify",        "server", "notify",        "map",   C("")),
  S("svr.BasePath",      "server", "basepath",      "map",   C("")),
  S("svr.DataPath",      "server", "datapath",      "map",   C("")),
  S("svr.Log",           "server", "log",           "map",   C("")),
  S("svr.AcceptTimeout", "server", "accepttimeout", "int",   C("500")),
  S("svr.ReadTimeout",   "server", "readtimeout",   "int",   C("0")),
  S("svr.WriteTimeout",  "server", "writetimeout",  "int",   C("0")),
  S("svr.HandleTimeout", "server", "handletimeout", "int",   C("0")),
  S("svr.IdleTimeout",   "server", "idletimeout",   "int",   C("600000")),
  S("svr.ZombieTimeout", "server", "zombietimeout", "int",   C("10000")),
  S("svr.QueueCap",      "server", "queuecap",      "int",   C("10000000")),
  S("svr.GracedownTimeout", "server", "gracedowntimeout", "int", C("60000")),
  S("svr.TCPReadBuffer", "server", "tcpreadbuffer", "int",   C("134217728")),
  S("svr.TCPWriteBuffer", "server", "tcpwritebuffer", "int", C("134217728")),
  S("svr.TCPNoDelay",    "server", "tcpnodelay",    "bool",  C("false")),
  S("svr.MaxInvoke",     "server", "maxroutine",    "int32", C("0")),
  S("svr.PropertyReportInterval", "server", "propertyreportinterval", "int", C("10000")),
  S("svr.StatReportInterval", "server", "statreportinterval", "int", C("10000")),
  S("svr.MainLoopTicker", "server", "mainloopticker", "int", C("10000")),
  S("svr.StatReportChannelBufLen", "server", "statreportchannelbuflen", "int32", C("100000")),
  S("svr.MaxPackageLength", "server", "maxPackageLength", "int", C("10485760")),
  S("svr.SampleRate",    "server", "samplerate",    "float", C("0")),
  S("svr.SampleType",    "server", "sampletype",    "str",   C("")),
  S("svr.SampleAddress", "server", "sampleaddress", "str",   C("")),
  S("svr.SampleEncoding", "server", "sampleencoding", "str", C("json")),
  S("clt.Locator",       "client", "locator",       "map",   C("")),
  S("clt.Stat",          "client", "stat",          "map",   C("")),
  S("clt.Property",      "client", "property",      "map",   C("")),
  S("clt.ModuleName",    "client", "modulename",    "map",   C("")),
  S("clt.AsyncInvokeTimeout", "client", "async-invoke-timeout", "int", C("3000")),
  S("clt.RefreshEndpointInterval", "client", "refresh-endpoint-interval", "int", C("60000")),
  S("clt.ReportInterval", "client", "report-interval", "int", C("5000")),
  S("clt.CheckStatusInterval", "client", "check-status-interval", "int", C("1000")),
  S("clt.KeepAliveInterval", "client", "keep-alive-interval", "int", C("0")),
  S("clt.ClientQueueLen", "client", "clientqueuelen", "int", C("10000")),
  S("clt.ClientIdleTimeout", "client", "clientidletimeout", "int", C("600000")),
  S("clt.ClientReadTimeout", "client", "clientreadtimeout", "int", C("100")),
  S("clt.ClientWriteTimeout", "client", "clientwritetimeout", "int", C("3000")),
  S("clt.ClientDialTimeout", "client", "clientdialtimeout", "int", C("3000")),
  S("clt.ReqDefaultTimeout", "client", "reqdefaulttimeout", "int32", C("3000")),
  S("clt.ObjQueueMax",   "client", "objqueuemax",   "int32", C("100000")),
  S("clt.context.node_name", "client", "",          "copy",  Fld("svr.NodeName"))
>>
\* per adapter (sub-domain of the server domain): what Adapters[name] records
AdapterSettings == <<
  S("Obj",      "", "servant",  "str", C("")),
  S("Protocol", "", "protocol", "str", C("")),
  S("Threads",  "", "threads",  "int", C("0"))
>>
AdapterNames == {"A.SrvObjAdapter", "B.ObjAdapter"}
\* keys of an adapter that are read but not recorded in Adapters[name] (endpoint grammar: property C18)
AdapterOtherKeys == {"endpoint", "queuecap"}

\* the transport configuration computed for the servant object of an adapter (observable only with the test-only export
\* tars.VerifServerConfs): what it inherits from the server settings AS CONFIGURED ...
TransportInherits == <<
  <<"MaxInvoke", "svr.MaxInvoke">>, <<"AcceptTimeout", "svr.AcceptTimeout">>, <<"ReadTimeout", "svr.ReadTimeout">>,
  <<"WriteTimeout", "svr.WriteTimeout">>, <<"HandleTimeout", "svr.HandleTimeout">>, <<"IdleTimeout", "svr.IdleTimeout">>,
  <<"TCPReadBuffer", "svr.TCPReadBuffer">>, <<"TCPWriteBuffer", "svr.TCPWriteBuffer">>, <<"TCPNoDelay", "svr.TCPNoDelay">> >>
\* ... and its queue capacity: the adapter's own key, with the server's queue capacity as configured as the default
TransportQueueCap == S("QueueCap", "", "queuecap", "int", Fld("svr.QueueCap"))

SettingNamed(f) == Settings[CHOOSE i \in 1..Len(Settings) : Settings[i].f = f]
UintOf == ("0" :> "0") @@ ("1" :> "1") @@ ("12" :> "12") @@ ("3000000000" :> "3000000000")
YesVocab == {"Y", "y"}

\* the getter of setting s on domain p with default d
Getter(r, p, s, d) ==
   CASE s.ty = "map"   -> GetString(r, p, s.k)
     [] s.ty = "str"   -> GetStringWithDef(r, p, s.k, d)
     [] s.ty = "int"   -> GetIntWithDef(r, p, s.k, d)
     [] s.ty = "int32" -> GetInt32WithDef(r, p, s.k, d)
     [] s.ty = "bool"  -> GetBoolWithDef(r, p, s.k, d)
     [] s.ty = "float" -> GetFloatWithDef(r, p, s.k, d)
     [] s.ty = "uint"  -> Typed(UintOf, r, p, s.k, d)
     [] s.ty = "yes"   -> IF GetString(r, p, s.k) \in YesVocab THEN "true" ELSE "false"

RECURSIVE Eval(_, _, _)
Eval(host, r, s) ==
   LET d == CASE s.def[1] = "const" -> s.def[2]
              [] s.def[1] = "host"  -> host
              [] s.def[1] = "field" -> Eval(host, r, SettingNamed(s.def[2]))
   IN CASE s.ty = "copy"  -> d
        [] s.ty = "ifyes" -> IF d = "true" THEN GetString(r, SecPath(s.sec), s.k) ELSE ""
        [] OTHER          -> Getter(r, SecPath(s.sec), s, d)

\* values the typed getters are judged on (Conf!KnownVocab) plus plain strings for the string settings
AppStrings == {"abc", "", "a b", "x=y", "10.9.8.7", "node-1", "Y", "y", "N", "s.t.1", "tars", "not",
               "tcp -h 127.0.0.1 -p 18602 -t 60000", "tcp -h 127.0.0.1 -p 18603 -t 60000", "A.SrvObj", "B.Obj"}
AppVocab == AppStrings \cup (KnownVocab \ {LongVal})
\* whether the typed reading of this value is judged (strings always are)
Judged(s, r) == LET x == Lookup(r, SecPath(s.sec), s.k) IN
   \/ s.ty \in {"map", "str", "copy", "ifyes", "yes"}
   \/ x = <<>>
   \/ s.ty \in {"int", "int32", "float", "uint"} /\ x[1] \in KnownVocab
   \/ s.ty = "bool" /\ x[1] \in KnownVocab \ BoolUnjudged

\* model-only sanity (checked by Gen_AppConf as ASSUME): the dependencies among the defaults are well founded
DepOK == \A i \in 1..Len(Settings) :
           Settings[i].def[1] = "field" =>
              \E j \in 1..Len(Settings) : /\ Settings[j].f = Settings[i].def[2]
                                          /\ (Settings[j].def[1] = "field" =>
                                                \E m \in 1..Len(Settings) : Settings[m].f = Settings[j].def[2] /\ Settings[m].def[1] # "field")
FieldsDistinct == \A i, j \in 1..Len(Settings) : Settings[i].f = Settings[j].f => i = j
=============================================================================
