CONSTANTS Names = {"a", "b"}  Keys = {"k1", "k2"}  Vals = {"1", "x=y"}  MaxLen = 5  Extra <- ExtraSmall
SPECIFICATION Spec
INVARIANTS Agree IgnoreNoise Merge Retrievable BareReading EmptyKey TypedOK FaultFrozen
CHECK_DEADLOCK FALSE
