---- MODULE Gen_AppConf ----
(* Enumeration of application configuration documents as implementation tests: every key of the       *)
(* reading table (AppConf!Settings, plus the keys of up to two adapters) is PRESENT with one of the   *)
(* values of its class (well-formed, malformed, empty) or ABSENT.  A state is a partial assignment    *)
(* (slot by slot); a complete assignment is printed as a document (lines of Conf.tla) by Emit.        *)
(* Breadth-first: all assignments of the MODES below (each key alone; the groups of keys whose        *)
(* defaults depend on each other exhaustively).  -simulate: random assignments over all keys          *)
(* (Sparse = TRUE: every key is first present/absent with probability 1/2).                           *)
EXTENDS AppConf, Json
CONSTANTS Sparse,       \* BOOLEAN: two-stage choice (present? then which value)
          ModeSet       \* "exhaustive" | "pairs" | "all"
VARIABLES mode, asg, pend
vars == <<mode, asg, pend>>

Slot(id, sec, k, opts) == [id |-> id, sec |-> sec, k |-> k, opts |-> opts]
IntVals   == {"12", "-7", "abc", "", "3000000000", "1.5"}
BoolVals  == {"true", "false", "abc", ""}
FloatVals == {"1.5", "12", "abc"}
StrVals   == {"abc", ""}
OptsOf(s) == CASE s.k = "localip"     -> {"10.9.8.7", "abc", ""}
               [] s.k = "node_name"   -> {"node-1", ""}
               [] s.k = "local"       -> {"tcp -h 127.0.0.1 -p 18602 -t 60000", ""}
               [] s.k = "logpath"     -> {""}              \* a log directory would be created
               [] s.k = "enableset"   -> {"Y", "y", "N", "abc"}
               [] s.k = "setdivision" -> {"s.t.1"}
               [] s.k = "locator"     -> {""}              \* a locator would start the reporters
               [] s.k = "modulename"  -> {"a b", "x=y"}
               [] s.ty \in {"int", "int32", "uint"} -> IntVals
               [] s.ty = "bool"  -> BoolVals
               [] s.ty = "float" -> FloatVals
               [] OTHER -> StrVals
KeyedSettings == SelectSeq(Settings, LAMBDA s : s.k # "")
SettingSlots == [i \in 1..Len(KeyedSettings) |->
                   LET s == KeyedSettings[i] IN Slot(s.sec \o "/" \o s.k, s.sec, s.k, OptsOf(s))]
AdapterSlots(n, obj, port) == <<
   Slot(n \o "/@open",    n, "@open",    {"@present"}),           \* the domain alone, without any key
   Slot(n \o "/endpoint", n, "endpoint", {"tcp -h 127.0.0.1 -p " \o port \o " -t 60000"}),
   Slot(n \o "/servant",  n, "servant",  {obj, ""}),
   Slot(n \o "/protocol", n, "protocol", {"tars", "not"}),
   Slot(n \o "/threads",  n, "threads",  {"12", "abc", ""}),
   Slot(n \o "/queuecap", n, "queuecap", {"12", "abc"}) >>
Slots == SettingSlots \o AdapterSlots("A.SrvObjAdapter", "A.SrvObj", "18602") \o AdapterSlots("B.ObjAdapter", "B.Obj", "18603")
NSlots == Len(Slots)
AllIds == {Slots[i].id : i \in 1..NSlots}
IdsOf(sec) == {Slots[i].id : i \in {j \in 1..NSlots : Slots[j].sec = sec}}

\* a mode: which slots may be present, and how many of them at most
M(n, a, m) == [n |-> n, a |-> a, m |-> m]
Exhaustive == {
   M("single", AllIds, 1),                                                          \* each key alone, each value
   M("dep-nodename", {"server/localip", "server/node_name", "server/local"}, 3),    \* node_name <- localip
   M("dep-set", {"app/enableset", "app/setdivision", "server/app"}, 3),            \* setdivision only with enableset
   M("dep-adapters", {"A.SrvObjAdapter/@open", "B.ObjAdapter/@open", "B.ObjAdapter/servant", "server/local"}, 4),
   M("adapter", {"A.SrvObjAdapter/servant", "A.SrvObjAdapter/threads", "A.SrvObjAdapter/queuecap", "server/queuecap"}, 4) }
Modes == CASE ModeSet = "exhaustive" -> Exhaustive
           [] ModeSet = "pairs"      -> {M("pairs", AllIds, 2)}
           [] ModeSet = "all"        -> {M("random", AllIds, NSlots)}

Absent == "@absent"
Present(a) == Cardinality({i \in 1..Len(a) : a[i] # Absent})
Init == mode \in Modes /\ asg = <<>> /\ pend = FALSE
Next ==
  LET i == Len(asg) + 1 IN
  /\ i <= NSlots
  /\ UNCHANGED mode
  /\ LET may == Slots[i].id \in mode.a /\ Present(asg) < mode.m IN
     IF Sparse /\ ~pend
     THEN \/ asg' = Append(asg, Absent) /\ pend' = FALSE
          \/ may /\ pend' = TRUE /\ asg' = asg
     ELSE \/ ~pend /\ asg' = Append(asg, Absent) /\ pend' = FALSE
          \/ may /\ \E o \in Slots[i].opts : asg' = Append(asg, o) /\ pend' = FALSE
Spec == Init /\ [][Next]_vars

L(t, k, v) == [t |-> t, k |-> k, v |-> v]
LinesOfSec(a, sec) ==
   LET idx == SelectSeq([i \in 1..NSlots |-> i], LAMBDA i : Slots[i].sec = sec /\ a[i] # Absent /\ Slots[i].k # "@open")
   IN [n \in 1..Len(idx) |-> L("kv", Slots[idx[n]].k, a[idx[n]])]
Opened(a, sec) == \E i \in 1..NSlots : Slots[i].sec = sec /\ a[i] # Absent
Dom(a, sec, name) == IF Opened(a, sec) THEN <<L("open", name, "")>> \o LinesOfSec(a, sec) \o <<L("close", name, "")>> ELSE <<>>
DocOf(a) ==
   <<L("open", "tars", ""), L("open", "application", "")>> \o LinesOfSec(a, "app")
   \o <<L("open", "server", "")>> \o LinesOfSec(a, "server")
   \o Dom(a, "A.SrvObjAdapter", "A.SrvObjAdapter") \o Dom(a, "B.ObjAdapter", "B.ObjAdapter")
   \o <<L("close", "server", "")>>
   \o Dom(a, "client", "client")
   \o <<L("close", "application", ""), L("close", "tars", "")>>
Emit == (Len(asg) = NSlots) => PrintT(ToJson([m |-> mode.n, d |-> DocOf(asg)]))
ASSUME DepOK /\ FieldsDistinct
ASSUME \A i \in 1..NSlots : Slots[i].opts \subseteq AppVocab \cup {"@present"}
====
