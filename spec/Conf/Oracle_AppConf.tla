---- MODULE Oracle_AppConf ----
(* Batch oracle for the application's reading of the configuration (AppConf.tla).                    *)
(*                                                                                                   *)
(* An "app" record (harness/cmd/confdrive app) holds the abstract lines of one document with the     *)
(* blanks written around them, the text of the file, and what a fresh process that started with that *)
(* file as its server configuration reports through the public API: every field of the server and    *)
(* client configuration as a string (obs), the adapters, and the address of the host.  The oracle    *)
(* checks that the text is the rendering of the lines, runs the reference semantics (Conf!Run) and   *)
(* requires every setting to be AppConf!Eval -- the getter applied to the document with the supplied *)
(* default, where a default that names another setting is that setting's value for this document.   *)
(* Output: appverdicts.ndjson, one verdict per record; sig # "" is a rejected record.               *)
EXTENDS AppConf, Json
VARIABLE x
Recs == ndJsonDeserialize("apprecs.ndjson")

Range(s) == {s[i] : i \in 1..Len(s)}
FieldNames == {Settings[i].f : i \in 1..Len(Settings)}

Sane(rec, r) ==
   LET doc == rec.lines IN
   /\ RenderingSane(doc)
   /\ rec.text = Render(doc)
   /\ \A i \in 1..Len(doc) : /\ doc[i].t \in {"open", "close", "kv"}
                             /\ doc[i].t = "kv" => doc[i].v \in AppVocab
   /\ RefClass(doc, r) = "wellformed"
   /\ DOMAIN r.dom \subseteq {<<>>, <<"tars">>, PApp, PSvr, PClt} \cup {Append(PSvr, n) : n \in AdapterNames}
   /\ rec.class \in {"ok", "err", "panic"}
   /\ rec.class = "ok" => /\ DOMAIN rec.obs = FieldNames
                          /\ rec.host # ""
   /\ rec.hooked \in BOOLEAN
   /\ ~rec.hooked => rec.transport = <<>>

\* settings whose observed value differs from the reference
Wrong(rec, r) == {i \in 1..Len(Settings) :
                    LET s == Settings[i] IN Judged(s, r) /\ rec.obs[s.f] # Eval(rec.host, r, s)}
\* the adapters: exactly the sub-domains of the server domain (plus the admin adapter when <local> is set), each with
\* what its keys say
AdminName == "AdminAdapter"
ExpAdapterNames(rec, r) == Subs(r, PSvr) \cup (IF Eval(rec.host, r, SettingNamed("svr.Local")) # "" THEN {AdminName} ELSE {})
ObsAdapter(rec, n) == rec.adapters[CHOOSE i \in 1..Len(rec.adapters) : rec.adapters[i].name = n]
WrongAdapters(rec, r) ==
   IF {rec.adapters[i].name : i \in 1..Len(rec.adapters)} # ExpAdapterNames(rec, r) \/ Len(rec.adapters) # Cardinality(ExpAdapterNames(rec, r))
   THEN {"Adapters"}
   ELSE UNION {LET a == ObsAdapter(rec, n) p == Append(PSvr, n) IN
               {"Adapters." \o AdapterSettings[j].f : j \in {j \in 1..Len(AdapterSettings) :
                     LET s == AdapterSettings[j] IN a[s.f] # Getter(r, p, s, s.def[2])}}
               : n \in Subs(r, PSvr)}

\* the transport configuration per servant object (only observed with the hook): adapters whose servant name is
\* not empty and not shared with another adapter
ServantOf(r, n) == GetString(r, Append(PSvr, n), "servant")
WrongTransport(rec, r) ==
   IF ~rec.hooked THEN {}
   ELSE UNION {
     LET obj == ServantOf(r, n)
         T   == {i \in 1..Len(rec.transport) : rec.transport[i].obj = obj}
     IN IF obj = "" \/ \E n2 \in Subs(r, PSvr) \ {n} : ServantOf(r, n2) = obj THEN {}
        ELSE IF T = {} THEN {"Transport"}
        ELSE LET t == rec.transport[CHOOSE i \in T : TRUE]
                 q == Lookup(r, Append(PSvr, n), "queuecap")
             IN {"Transport." \o TransportInherits[j][1] : j \in {j \in 1..Len(TransportInherits) :
                     LET s == SettingNamed(TransportInherits[j][2]) IN
                     Judged(s, r) /\ t[TransportInherits[j][1]] # Eval(rec.host, r, s)}}
                \cup (IF /\ (q = <<>> \/ q[1] \in KnownVocab) /\ Judged(SettingNamed("svr.QueueCap"), r)
                         /\ t.QueueCap # Getter(r, Append(PSvr, n), TransportQueueCap, Eval(rec.host, r, SettingNamed("svr.QueueCap")))
                      THEN {"Transport.QueueCap"} ELSE {})
     : n \in Subs(r, PSvr)}

AdapterFieldOrder == <<"Adapters">> \o [j \in 1..Len(AdapterSettings) |-> "Adapters." \o AdapterSettings[j].f]
                     \o <<"Transport", "Transport.QueueCap">> \o [j \in 1..Len(TransportInherits) |-> "Transport." \o TransportInherits[j][1]]

\* how the document stands to a wrong setting: key written or not (the signature names the class, not the document)
KeyState(r, s) == IF s.k = "" THEN "derived"
                  ELSE LET x1 == Lookup(r, SecPath(s.sec), s.k) IN
                       IF x1 = <<>> THEN "absent"
                       ELSE IF s.ty \in {"int", "int32", "bool", "float", "uint"} /\ Getter(r, SecPath(s.sec), s, "@D") = "@D"
                            THEN "malformed" ELSE "present"
V(i, impl, sig, fs, exp, obs) == [i |-> i, impl |-> impl, sig |-> sig, fs |-> fs, exp |-> exp, obs |-> obs]
Judge(i) ==
  LET rec == Recs[i]
      r   == Run(rec.lines)
  IN IF ~Sane(rec, r) THEN V(i, rec.class, "harness:app-record-not-sane", <<>>, <<>>, <<>>)
     ELSE IF rec.class = "panic" THEN V(i, "panic", "app-config:panic", <<>>, <<>>, <<>>)
     ELSE IF rec.class = "err" THEN V(i, "err", "app-config:wellformed-document-not-loaded", <<>>, <<>>, <<>>)
     ELSE LET w  == Wrong(rec, r)
              wa == WrongAdapters(rec, r) \cup WrongTransport(rec, r)
              ws == SelectSeq([j \in 1..Len(Settings) |-> j], LAMBDA j : j \in w)
          IN IF w # {}
             THEN LET s == Settings[ws[1]] IN
                  V(i, "ok", "app-config:" \o s.f \o ":key-" \o KeyState(r, s),
                    [j \in 1..Len(ws) |-> Settings[ws[j]].f],
                    [j \in 1..Len(ws) |-> Eval(rec.host, r, Settings[ws[j]])],
                    [j \in 1..Len(ws) |-> rec.obs[Settings[ws[j]].f]])
             ELSE IF wa # {}
             THEN LET fs == SelectSeq(AdapterFieldOrder, LAMBDA f : f \in wa) IN V(i, "ok", "app-config:" \o fs[1], fs, <<>>, <<>>)
             ELSE V(i, "ok", "", <<>>, <<>>, <<>>)
Verdicts == [i \in 1..Len(Recs) |-> Judge(i)]
ASSUME VocabSane /\ DepOK /\ FieldsDistinct
ASSUME ndJsonSerialize("appverdicts.ndjson", Verdicts)
ASSUME PrintT(<<"JUDGED", Len(Recs), Cardinality({i \in 1..Len(Recs) : Verdicts[i].sig # ""})>>)
Init == x = 0
Next == UNCHANGED x
====
