---- MODULE Gen_Conf ----
(* Enumeration of documents as implementation tests.  Every reachable state is a document; the     *)
(* documents worth running are printed as JSON (one per line) by the invariant Emit.                *)
(* Breadth-first mode enumerates the whole bounded family; -simulate samples longer documents.      *)
(* The family: well-nested documents (closed, or cut at any point = unclosed), at most one FAULT -- *)
(* a close that matches nothing, or a line with an XML-hostile character -- followed by a short     *)
(* tail (so that "the rest of the document is missing" becomes observable).                         *)
(* k=v lines are only generated inside a domain (the statement speaks of keys of domains).          *)
EXTENDS Conf, Json
CONSTANTS Names, Keys, Vals, Hos, Noise,   \* sets: domain names, keys, clean values, hostile lines, other lines
          MaxLen, MaxDepth, MaxOpen, MaxKV, MaxNoise, MaxTail, UnclosedUpTo, TailVal, TailKey, TailName, DoMismatch
VARIABLE doc
L(t, k, v) == [t |-> t, k |-> k, v |-> v]
Count(P(_)) == Cardinality({i \in 1..Len(doc) : P(doc[i])})
HosIdx == {i \in 1..Len(doc) : HostileLn(doc[i])}
\* position of the fault, 0 if none
FaultAt(r) == IF r.fault # 0 THEN r.fault ELSE IF HosIdx = {} THEN 0 ELSE SetMin(HosIdx)
NoiseAll == {L("key", "k3", ""), L("nokey", "", "zz"), L("comment", "", " note"), L("comment", "", "k1=zz"), L("blank", "", "")}
NoiseSome == {L("key", "k3", ""), L("comment", "", "k1=zz"), L("blank", "", "")}
NoiseNone == {}
\* lines without '=' that name a key which the same documents also bind with '=' (k1, k2), beside one that is never
\* bound (k3: it shows which reading of such lines the parser follows): duplicates in every combination of the
\* line forms  k=v / k= / k , in one block and -- the domain re-opened -- in two
NoiseBare == {L("key", "k1", ""), L("key", "k3", "")}
\* lines whose key part is empty or consists of blanks only: "=" alone, "==", "= v" with a plain value, with a value that
\* contains '=' / blanks / '#', with a value that is itself the name of a key bound elsewhere (the driver writes blanks
\* before the '=' as the line's leading blanks and after it).  Each is a written line: an entry of the line listing.
NoiseEmptyKey == {L("nokey", "", ""), L("nokey", "", "="), L("nokey", "", "zz"), L("nokey", "", "x=y"), L("nokey", "", "k1"),
                  L("nokey", "", "tcp -h 10.0.0.1 -p 9000"), L("nokey", "", "#c")}
NoiseAllBare == NoiseAll \cup {L("key", "k1", ""), L("key", "k2", "")}
                         \cup {L("nokey", "", ""), L("nokey", "", "="), L("nokey", "", "k1"), L("nokey", "", "tcp -h 10.0.0.1 -p 9000")}
HosAll == {L("hos", "k1", "x&y"), L("hos", "k2", "1<2"), L("hos", "k2", "2>1"), L("hos", "k1", "@CTL"), L("hcomment", "", " a&b"),
           L("hcomment", "", " see <url>")}
HosTwo == {L("hos", "k1", "x&y"), L("hos", "k2", "1<2")}
HosNone == {}

\* what follows a close that matches nothing: nothing, one more binding, or one more complete domain
TailScripts(depth) == {<<>>} \cup (IF depth > 0 THEN {<<L("kv", TailKey, TailVal)>>} ELSE {})
                      \cup {<<L("open", TailName, ""), L("kv", TailKey, TailVal), L("close", TailName, "")>>}
Next ==
  LET r == Run(doc)
      n == Len(doc)
      depth == Len(r.stack)
      f == FaultAt(r)
      room(k) == n + 1 + k <= MaxLen          \* the line fits and the open domains can still be closed
  IN IF r.fault # 0 THEN FALSE               \* nothing after a mismatched close and its tail
     ELSE IF f # 0
     THEN \* after a hostile line the reference is still running: close the open domains, with a few more bindings
          \/ depth > 0 /\ doc' = Append(doc, L("close", Last(r.stack), ""))
          \/ /\ depth > 0 /\ Cardinality({i \in (f + 1)..n : doc[i].t = "kv"}) < MaxTail
             /\ doc' = Append(doc, L("kv", TailKey, TailVal))
     ELSE \/ \E m \in Names : /\ depth < MaxDepth /\ Count(LAMBDA l : l.t = "open") < MaxOpen /\ room(depth + 1)
                              /\ doc' = Append(doc, L("open", m, ""))
          \/ \E m \in Names : /\ depth > 0 /\ m = Last(r.stack) /\ doc' = Append(doc, L("close", m, ""))
          \/ \E m \in Names : /\ (IF depth = 0 THEN TRUE ELSE m # Last(r.stack)) /\ n < MaxLen /\ DoMismatch
                              /\ \E s \in TailScripts(depth) : doc' = Append(doc, L("close", m, "")) \o s
          \/ \E k \in Keys, v \in Vals : /\ depth > 0 /\ Count(LAMBDA l : l.t = "kv") < MaxKV /\ room(depth)
                                         /\ doc' = Append(doc, L("kv", k, v))
          \/ \E l \in Noise : /\ Count(LAMBDA x : x \in Noise) < MaxNoise /\ room(depth)
                              /\ (l.t \in {"key", "nokey"} => depth > 0)
                              /\ doc' = Append(doc, l)
          \/ \E l \in Hos : depth > 0 /\ room(depth) /\ doc' = Append(doc, l)
Init == doc = <<>>
Spec == Init /\ [][Next]_doc
ShouldEmit == LET r == Run(doc) IN
   \/ r.fault # 0
   \/ r.stack = <<>> /\ doc # <<>>
   \/ r.stack # <<>> /\ Len(doc) <= UnclosedUpTo
Emit == ShouldEmit => PrintT(ToJson(doc))
====
