---- MODULE Oracle_Conf ----
(* Batch oracle: judges what the real tars/util/conf package answered (recs.ndjson, written by       *)
(* harness/cmd/confdrive) against the reference semantics of Conf.tla.                               *)
(*                                                                                                   *)
(* A "doc" record holds the abstract lines with the blanks the driver wrote around them, the text    *)
(* that was parsed, the outcome class (ok / err / panic) and, for ok, every getter result that       *)
(* differs from the all-default observation (paths: all sequences over rec.names up to rec.depth).   *)
(* The oracle first checks that the text IS the rendering of the lines (so the driver cannot judge   *)
(* a document other than the one it parsed), then compares:                                          *)
(*   wellformed document  -> must be ok and every getter on every path equals the reference          *)
(*   unclosed / hostile   -> error, or ok and complete (same comparison; "silent-partial" when         *)
(*                           something written is absent, "wrong-result" when only a value differs)  *)
(*   mismatched close     -> error; ok is a violation when a binding written after the bad close is  *)
(*                           retrievable nowhere (observably dropped), otherwise only an observation *)
(*   any                  -> never panic                                                             *)
(* Lines without '=' (Conf.tla): the document is compared under both readings -- such a line binds  *)
(* its key to the empty value / it only is a line -- and has to agree with ONE of them in every      *)
(* answer (which one is recorded in the verdict, field rd); "neither" is a wrong result: e.g. a bare *)
(* key listed as a key where it stands alone, but an earlier k=v kept where it follows one.          *)
(* Lines with an empty key ("= v", "==", "=", blanks around): each is a written line, so the line     *)
(* listing of its domain must contain it (in its place); a success whose answers are exactly those of *)
(* the document WITHOUT these lines is "silent-partial:line-with-empty-key-not-listed".  Whether ""   *)
(* is a key the statement does not say: an entry "" of a key listing or map and the answer to         *)
(* <domain><> are never judged, only recorded (verdict field ek).                                     *)
(* A "fuzz" record (arbitrary bytes) only has a class: it must not be panic.                         *)
(* Output: verdicts.ndjson, one verdict per record; sig # "" is a rejected record.                   *)
EXTENDS Conf, Json
VARIABLE x
Recs == ndJsonDeserialize("recs.ndjson")

AbsentRes == <<"", "<D>", "0", "77", "77", "true", "false", "7.5">>
GetterName == <<"GetString", "GetStringWithDef", "GetInt", "GetIntWithDef", "GetInt32WithDef",
                "GetBoolWithDef", "GetBoolWithDef", "GetFloatWithDef">>
\* order in which a failing getter names the signature (a wrong tree shows first in GetString)
Priority == <<"GetString", "GetStringWithDef", "GetMap", "GetDomainKey", "GetDomain", "GetDomainLine",
              "GetInt", "GetIntWithDef", "GetInt32WithDef", "GetBoolWithDef", "GetFloatWithDef">>

Range(s) == {s[i] : i \in 1..Len(s)}
NoDup(s) == Cardinality(Range(s)) = Len(s)
AllPaths(names, d) == UNION {[1..n -> names] : n \in 0..d}

EntryIn(q, p) == LET S == {i \in 1..Len(q) : q[i].p = p} IN
                 IF S = {} THEN [p |-> p, subs |-> <<>>, keys |-> <<>>, lines |-> <<>>, map |-> <<>>, g |-> <<>>, ek |-> <<>>]
                 ELSE q[CHOOSE i \in S : TRUE]
EntryAt(rec, p) == EntryIn(rec.q, p)
ResAt(e, k) == LET S == {i \in 1..Len(e.g) : e.g[i][1] = k} IN IF S = {} THEN AbsentRes ELSE e.g[CHOOSE i \in S : TRUE][2]

\* what the eight scalar getters must answer for key k of domain p
ExpRes(r, p, k) == <<GetString(r, p, k), GetStringWithDef(r, p, k, "<D>"), GetInt(r, p, k), GetIntWithDef(r, p, k, "77"),
                     GetInt32WithDef(r, p, k, "77"), GetBoolWithDef(r, p, k, "true"), GetBoolWithDef(r, p, k, "false"),
                     GetFloatWithDef(r, p, k, "7.5")>>
\* positions that are judged: strings always; typed getters only over the vocabulary with known parses
JudgedPos(r, p, k) == LET x1 == Lookup(r, p, k) IN
                      IF x1 = <<>> THEN 1..8
                      ELSE IF x1[1] \notin KnownVocab THEN {1, 2}
                      ELSE IF x1[1] \in BoolUnjudged THEN {1, 2, 3, 4, 5, 8} ELSE 1..8

ExpLineTexts(r, p, withNoKey) ==
   LET ls == SelectSeq(LinesOf(r, p), LAMBDA l : withNoKey \/ l.t # "nokey") IN [i \in 1..Len(ls) |-> LineText(ls[i])]

\* names of the getters whose answer differs from the reference, anywhere (withNoKey = TRUE: the reference; FALSE: the
\* reference of the document without its lines with an empty key, used only to NAME a failure, never to accept one)
FailedNK(rec, r, withNoKey) ==
   UNION {
     LET e   == EntryAt(rec, p)
         opt == {""}               \* the statement does not say that the empty text is a key: an entry "" is not judged (see EkObs);
                                   \* keys written without '=' are judged like all others, under the reading r was computed with
         m   == e.map
     IN (IF Range(e.subs) = Subs(r, p) /\ NoDup(e.subs) THEN {} ELSE {"GetDomain"})
        \cup (IF (Range(e.keys) \ opt) = (KeysOf(r, p) \ opt) /\ NoDup(e.keys) THEN {} ELSE {"GetDomainKey"})
        \cup (IF e.lines = ExpLineTexts(r, p, withNoKey) THEN {} ELSE {"GetDomainLine"})   \* exactly the written lines
        \cup (IF /\ NoDup([i \in 1..Len(m) |-> m[i][1]])
                 /\ {m[i][1] : i \in 1..Len(m)} \ opt = KeysOf(r, p) \ opt
                 /\ \A i \in 1..Len(m) : m[i][1] \in opt \/ <<m[i][2]>> = Lookup(r, p, m[i][1])
              THEN {} ELSE {"GetMap"})
        \cup UNION {LET obs == ResAt(e, k) exp == ExpRes(r, p, k) IN
                    {GetterName[j] : j \in {j \in JudgedPos(r, p, k) : obs[j] # exp[j]}} : k \in Range(rec.keys) \ opt}
     : p \in AllPaths(Range(rec.names), rec.depth)}
Failed(rec, r) == FailedNK(rec, r, TRUE)
First(fs) == Priority[SetMin({i \in 1..Len(Priority) : Priority[i] \in fs})]

\* texts after the '=' of a line with an empty key (none contains an XML-special character or ends / starts with a blank)
NoKeyVocab == {"", "=", "zz", "x=y", "k1", "tcp -h 10.0.0.1 -p 9000", "#c"}
CallerMutations == {"sort-descending", "overwrite-elements", "reuse-from-start", "clear"}
\* the harness did its part: text = rendering of the lines, vocabulary respected, everything relevant was asked
Sane(rec, r) ==
   LET doc == rec.lines IN
   /\ RenderingSane(doc)
   /\ rec.text = Render(doc)
   /\ \A i \in 1..Len(doc) : /\ doc[i].t \in {"open", "close", "kv", "hos", "key", "nokey", "comment", "hcomment", "blank"}
                             /\ doc[i].t = "kv" => doc[i].v \in CleanVocab /\ doc[i].k \in {"k1", "k2"}
                             /\ doc[i].t = "hos" => doc[i].k \in {"k1", "k2"}
                             /\ doc[i].t \in {"open", "close"} => doc[i].k \in {"app", "Obj.Adapter", "db-2"}
                             /\ doc[i].t = "key" => doc[i].k \in {"k1", "k2", "k3"}
                             /\ doc[i].t = "nokey" => doc[i].k = "" /\ doc[i].v \in NoKeyVocab
   /\ \A p \in DOMAIN r.dom : Len(p) <= rec.depth /\ Range(p) \subseteq Range(rec.names)
   /\ \A p \in DOMAIN r.dom : (KeysOf(r, p) \cup OptKeys(r, p)) \subseteq Range(rec.keys)
   /\ {"k1", "k2"} \subseteq Range(rec.keys)
   /\ rec.class \in {"ok", "err", "panic"}
   /\ rec.class # "ok" => rec.q = <<>>
   /\ rec.class # "ok" => rec.q2 = <<>> /\ rec.shared = <<>>
   /\ rec.mut \in CallerMutations \cup {""}
   /\ rec.class = "ok" => rec.mut # ""

\* ---- the second observation (Conf!Answer is a function of the result alone: Conf.tla, "Sessions").
\* The driver asked everything (rec.q), then did to every listing and map it had received what a caller may do to a value
\* it owns (rec.mut), then asked the same again (rec.q2).  Names of the getters whose answer is no longer the same:
Changed(rec) ==
   UNION {
     LET a == EntryIn(rec.q, p) b == EntryIn(rec.q2, p) IN
        (IF a.subs = b.subs THEN {} ELSE {"GetDomain"}) \cup (IF a.keys = b.keys THEN {} ELSE {"GetDomainKey"})
        \cup (IF a.lines = b.lines THEN {} ELSE {"GetDomainLine"}) \cup (IF a.map = b.map THEN {} ELSE {"GetMap"})
        \cup UNION {LET x1 == ResAt(a, k) x2 == ResAt(b, k) IN {GetterName[j] : j \in {j \in 1..8 : x1[j] # x2[j]}} : k \in Range(rec.keys)}
     : p \in {rec.q[i].p : i \in 1..Len(rec.q)} \cup {rec.q2[i].p : i \in 1..Len(rec.q2)}}
\* a verdict that found nothing wrong with the first observation also requires the second one to be the same
Again(rec, v) == IF v.sig # "" \/ rec.q2 = rec.q THEN v
                 ELSE LET ch == Changed(rec) IN
                      [v EXCEPT !.sig = IF ch = {} THEN "harness:second-observation" ELSE "result-aliases-configuration:" \o First(ch),
                                !.fs = SelectSeq(Priority, LAMBDA g : g \in ch)]

\* a binding written after the mismatched close that no queried path returns
Dropped(rec, r) == \E i \in (r.fault + 1)..Len(rec.lines) :
   /\ rec.lines[i].t = "kv"
   /\ \A p \in AllPaths(Range(rec.names), rec.depth) : ResAt(EntryAt(rec, p), rec.lines[i].k)[2] # rec.lines[i].v
\* something written is absent from the answers (as opposed to present with a different value)
Missing(rec, r) == \E p \in DOMAIN r.dom :
   LET e == EntryAt(rec, p) opt == {} IN
   \/ \E k \in KeysOf(r, p) \ opt : ResAt(e, k)[2] = "<D>" \/ k \notin Range(e.keys)
   \/ ~(Subs(r, p) \subseteq Range(e.subs))
   \/ Len(e.lines) < Len(ExpLineTexts(r, p, TRUE))
\* signature of a successful parse whose answers differ: "silent-partial" when part of the document is absent
Differs(rec, r, fs, partial) == IF fs = {} THEN "" ELSE IF Missing(rec, r) THEN "silent-partial:" \o partial
                                ELSE "wrong-result:" \o First(fs)
\* '&', '<' or a control character cannot be tokenized as XML at all ('>' alone can): a success that differs from the
\* reference is then necessarily a partial representation (truncated value, spurious domain, missing rest)
XmlBreaking(doc) == \E i \in 1..Len(doc) : HostileLn(doc[i]) /\ doc[i].v # "2>1"
HasLong(doc) == \E i \in 1..Len(doc) : Binding(doc[i]) /\ doc[i].v = LongVal

V(i, cls, impl, sig, obs) == [i |-> i, cls |-> cls, impl |-> impl, sig |-> sig, obs |-> obs, fs |-> <<>>, rd |-> "", ek |-> ""]
VF(i, cls, impl, sig, obs, fs) == [i |-> i, cls |-> cls, impl |-> impl, sig |-> sig, obs |-> obs,
                                fs |-> SelectSeq(Priority, LAMBDA g : g \in fs), rd |-> "", ek |-> ""]
\* ---- lines with an empty key: what is NOT judged, only recorded.  For the domains that contain such a line: does a key
\* listing or map name a key ""; what does <domain><> answer (the default / the text after the '=' of the last such line /
\* something else, e.g. the empty string).  (The driver asks <domain><> only in documents with such lines: field ek.)
EkObs(rec, r) ==
   LET P == {p \in DOMAIN r.dom : \E n \in 1..Len(LinesOf(r, p)) : LinesOf(r, p)[n].t = "nokey"}
       lastV(p) == LET ls == SelectSeq(LinesOf(r, p), LAMBDA l : l.t = "nokey") IN ls[Len(ls)].v
       listed == \E p \in P : LET e == EntryAt(rec, p) IN "" \in Range(e.keys) \/ \E n \in 1..Len(e.map) : e.map[n][1] = ""
       asked  == {p \in P : EntryAt(rec, p).ek # <<>>}
       ans(p) == EntryAt(rec, p).ek[2]          \* GetStringWithDef(<domain><>, "<D>")
   IN IF rec.class # "ok" \/ P = {} THEN ""
      ELSE (IF listed THEN "empty-key-listed-as-key" ELSE "empty-key-not-a-key")
           \o (IF asked = {} THEN ""
               ELSE IF \A p \in asked : ans(p) = "<D>" THEN ",query-answers-default"
               ELSE IF \A p \in asked : ans(p) = "" THEN ",query-answers-empty-string-not-default"
               ELSE IF \A p \in asked : ans(p) = lastV(p) THEN ",query-answers-text-after-="
               ELSE ",query-answers-other")
\* a wrong result of a document with lines without '=' that fits neither reading names that class
Bare(sig, rd) == IF rd = "neither" /\ sig # "" THEN sig \o ":document-with-key-only-lines" ELSE sig
Judge(i) ==
  LET rec == Recs[i] IN
  IF rec.kind = "fuzz"
  THEN V(i, "fuzz", rec.class, IF rec.class = "panic" THEN "panic:arbitrary-bytes" ELSE IF rec.class \in {"ok", "err"} THEN "" ELSE "harness:class", "")
  ELSE
  LET doc == rec.lines
      rF  == Run(doc)
      cls == RefClass(doc, rF)
      bare == HasBare(doc) /\ rec.class = "ok"
      rT  == IF bare THEN RunR(doc, TRUE) ELSE rF
      fsF == IF rec.class = "ok" THEN Failed(rec, rF) ELSE {}
      fsT == IF bare THEN Failed(rec, rT) ELSE fsF
      rd  == IF ~bare THEN "" ELSE IF fsT = {} /\ fsF = {} THEN "either" ELSE IF fsT = {} THEN "defines"
             ELSE IF fsF = {} THEN "ignored" ELSE "neither"
      useT == bare /\ fsF # {} /\ Cardinality(fsT) <= Cardinality(fsF)      \* the reading the answers are closer to
      r   == IF useT THEN rT ELSE rF
      fs  == IF fsT = {} \/ fsF = {} THEN {} ELSE IF useT THEN fsT ELSE fsF
      obs == IF rec.class = "ok" /\ rec.shared # <<>> THEN "listing-storage-shared-between-two-callers"
             ELSE IF rd = "defines" THEN "key-only-line-defines-key"
             ELSE IF rd = "ignored" THEN "key-only-line-ignored" ELSE ""
      Out(v) == [v EXCEPT !.rd = rd, !.sig = Bare(v.sig, rd), !.ek = EkObs(rec, rF)]
      \* every answer is the one the document WITHOUT its lines with an empty key would get (under one of the readings):
      \* exactly those written lines were dropped
      nkDropped == /\ rec.class = "ok" /\ HasNoKey(doc) /\ fs # {}
                   /\ \/ FailedNK(rec, rF, FALSE) = {}
                      \/ bare /\ FailedNK(rec, rT, FALSE) = {}
  IN IF ~Sane(rec, rF) THEN V(i, cls, rec.class, "harness:record-not-sane", "")
     ELSE IF rec.class = "panic" THEN V(i, cls, "panic", "panic:" \o cls, "")
     ELSE IF rec.class = "err" THEN V(i, cls, "err", IF cls = "wellformed" THEN "spurious-error:wellformed-document" ELSE "", "")
     ELSE IF cls # "mismatch" /\ nkDropped
          THEN [VF(i, cls, "ok", "silent-partial:line-with-empty-key-not-listed", obs, {"GetDomainLine"}) EXCEPT !.rd = rd, !.ek = EkObs(rec, rF)]
     ELSE Again(rec, Out(
          CASE cls = "mismatch"   -> IF Dropped(rec, r) THEN V(i, cls, "ok", "silent-partial:mismatched-close", obs)
                                     ELSE V(i, cls, "ok", "", "mismatched-close-accepted")
            [] cls = "hostile"    -> VF(i, cls, "ok", IF XmlBreaking(doc) THEN (IF fs = {} THEN "" ELSE "silent-partial:xml-token-error")
                                                      ELSE Differs(rec, r, fs, "xml-token-error"), obs, fs)
            [] cls = "unclosed"   -> VF(i, cls, "ok", Differs(rec, r, fs, "unclosed-domain"), obs, fs)
            [] cls = "wellformed" -> VF(i, cls, "ok", IF HasLong(doc) THEN Differs(rec, r, fs, "line-over-64KiB")
                                                      ELSE IF fs = {} THEN "" ELSE "wrong-result:" \o First(fs), obs, fs)))
Verdicts == [i \in 1..Len(Recs) |-> Judge(i)]
ASSUME VocabSane
ASSUME ndJsonSerialize("verdicts.ndjson", Verdicts)
ASSUME PrintT(<<"JUDGED", Len(Recs), Cardinality({i \in 1..Len(Recs) : Verdicts[i].sig # ""})>>)
Init == x = 0
Next == UNCHANGED x
====
