CONSTANTS Hosts = {1, 2, 3, 4, 5}  Types = {0, 1}  Weights = {1}  StratSet = {"rr"}  WtSet = {FALSE}  RefreshLists = {}  Codes = {0}
CONSTANT Gs = {1, 2, 3, 4, 5, 6, 7, 8}
SPECIFICATION TraceSpec
INVARIANT MembersOK
CONSTRAINT HighWater
POSTCONDITION TraceAccepted
CHECK_DEADLOCK FALSE
