CONSTANTS Hosts <- H3  Weights <- WAll  StratSet <- SRR  WtSet <- BoolBoth  RefreshLists <- Lists2  Codes <- C3
SPECIFICATION Spec
INVARIANTS TypeOK SelectsMember ErrorIffNoneEligible NoneEligibleMeans Rotation WeightedCycle CycleCoversAll
CHECK_DEADLOCK FALSE
