CONSTANTS Hosts <- H3  Types <- TStatic  Weights <- WDeg  StratSet <- SRR  WtSet <- BoolBoth  RefreshLists <- Lists1x  Codes <- C1
SPECIFICATION Spec
INVARIANTS TypeOK SelectsMember ErrorIffNoneEligible NoneEligibleMeans Rotation WeightedCycle CycleCoversAll
CHECK_DEADLOCK FALSE
