---- MODULE MC_Weights ----
(* The transliterated builder and the statement's formula agree: for every weight vector of the     *)
(* scope, StaticWeightList holds index i exactly max(1, floor(W_i*R/W_max)) times, whatever the      *)
(* tie-break order.  One initial state per vector; the check is the invariant.                       *)
EXTENDS MC_Selector
CONSTANTS WScope, MaxLen
VARIABLE v
WS13 == {1, 2, 3, 4, 5, 7, 9, 10, 11, 12, 50, 99, 100}
WS20 == {1, 2, 3, 4, 5, 6, 7, 8, 9, 10, 11, 12, 19, 20, 21, 50, 99, 100, 101, 1000}
Vectors == UNION {[1..k -> WScope] : k \in 1..MaxLen}
WInit == Init /\ v \in Vectors
WNext == UNCHANGED <<vars, v>>
WSpec == WInit /\ [][WNext]_<<vars, v>>
Agrees(L, W) == /\ Len(L) = FormulaLen(W)
                /\ \A i \in 1..Len(W) : CountIn(L, i) = FormulaCount(W, i)
                /\ \A k \in 1..Len(L) : L[k] \in 1..Len(W)
Up(n) == [i \in 1..n |-> i]
Down(n) == [i \in 1..n |-> n + 1 - i]
FormulaHolds == /\ Agrees(StaticWeightList(v, Up(Len(v))), v)
                /\ Agrees(StaticWeightList(v, Down(Len(v))), v)
\* the scale is within its limits and the heaviest endpoint gets exactly R slots
ScaleInRange == /\ ScaleR(v) \in MinScale..MaxScale
                /\ \A i \in 1..Len(v) : v[i] = SeqMax(v) => FormulaCount(v, i) = ScaleR(v)
\* proportionality: a heavier endpoint never gets fewer slots
Monotone == \A i, j \in 1..Len(v) : v[i] <= v[j] => FormulaCount(v, i) <= FormulaCount(v, j)
====
