---- MODULE Oracle_Selector ----
(* Batch oracle (B2, B3): judges what the real selectors did.                                      *)
(*   scripts.ndjson : histories (from Gen_Selector)            {ops: <<[o, h, w, t, l]>>}          *)
(*   obs.ndjson     : one record per history x strategy x mode {i, s, wt, hang, obs: <<[p, e, sp, sel]>>} *)
(*                    obs[j] = what was seen after ops[j]: panic of the operation, its error flag,  *)
(*                    panic of a selection, a window of selections (host; 0 = error; -1 = alien)    *)
(*   wrecs.ndjson   : BuildStaticWeightList records            {w, t, ord, out, p}                 *)
(* Records with s = "mgr" are histories of the endpoint manager (scripts from Gen_Mgr): see MgrJudge.  *)
(* The member list is computed by the specification's own operators (Dedup/AddM/RemoveM); the       *)
(* observation is judged at two levels:                                                             *)
(*   P - what property C13 states (membership, error iff none eligible, rotation, weighted cycle,   *)
(*       no crash): a failure is a violation;                                                       *)
(*   R - refinement of Selector's deterministic choices (rotation follows the list order from some  *)
(*       cursor, mod-hash slot, error flag of Add/Remove, eligible ring owners): reported as an     *)
(*       observation only, the statement does not demand it.                                        *)
EXTENDS Selector, Json, TLC
CONSTANT RFull
Scripts == ndJsonDeserialize("scripts.ndjson")
Obs == ndJsonDeserialize("obs.ndjson")
WRecs == ndJsonDeserialize("wrecs.ndjson")

Strat(s) == IF s = "conhashd" THEN "conhash" ELSE s
Ep(op) == [h |-> op.h, w |-> op.w, t |-> op.t]
ListOf(op) == [i \in 1..Len(op.l) |-> [h |-> op.l[i].h, w |-> op.l[i].w, t |-> op.l[i].t]]
Apply(m, op) == IF op.o = "F" THEN Dedup(ListOf(op))
                ELSE IF op.o = "A" THEN AddM(m, Ep(op))
                ELSE RemoveM(m, Ep(op))
ExpectErr(m, op) == IF op.o = "F" THEN FALSE ELSE IF op.o = "A" THEN HostIn(m, op.h) ELSE ~HostIn(m, op.h)

\* sel is periodic with period n and its first n entries hold host members[i].h exactly cnt[i] times
Periodic(sel, n) == \A j \in 1..(Len(sel) - n) : sel[j] = sel[j + n]
WindowCounts(sel, n, m, cnt) == \A i \in 1..Len(m) : CountIn(SubSeq(sel, 1, n), m[i].h) = cnt[i]

\* ---- level P: the property
\* weighted round robin: every full cycle holds endpoint i exactly cnt[i] times (cnt, L passed as values)
PWeightedL(sel, m, cnt, L) == IF Len(sel) < L THEN "window-too-short"
                              ELSE IF Periodic(sel, L) /\ WindowCounts(sel, L, m, cnt) THEN "ok" ELSE "weighted-cycle"
PWeighted(sel, m, cnt) == PWeightedL(sel, m, cnt, SumSeq(cnt))
PClass(s, wt, m, o) ==
  LET sel == o.sel
      none == EligibleIdx(s, wt, m) = {}
  IN IF o.p # "" THEN "panic"
     ELSE IF o.sp # "" THEN "panic-in-select"
     ELSE IF sel = <<>> THEN "no-observation"
     ELSE IF \E j \in 1..Len(sel) : sel[j] \notin HostsOf(m) \cup {0} THEN "non-member"
     ELSE IF none THEN (IF \A j \in 1..Len(sel) : sel[j] = 0 THEN "ok" ELSE "selected-though-none-eligible")
     ELSE IF \E j \in 1..Len(sel) : sel[j] = 0 THEN "error-though-eligible"
     ELSE IF s = "rr" /\ ~WeightsApply(s, wt, m)        \* weights off, or a member without a static weight
          THEN (IF Len(sel) < Len(m) THEN "window-too-short"
                ELSE IF Periodic(sel, Len(m)) /\ WindowCounts(sel, Len(m), m, [i \in 1..Len(m) |-> 1]) THEN "ok" ELSE "rotation")
     ELSE IF s = "rr" /\ UsesCycle(s, wt, m)
          THEN PWeighted(sel, m, [i \in 1..Len(m) |-> FormulaCount(WeightsOf(m), i)])
     ELSE "ok"

\* ---- level R: refinement of the specification's choices
\* (the cycle is passed as an argument so that it is computed once per observation)
RClassC(s, wt, m, mPrev, op, o, cy, per) ==
  LET sel == o.sel
  IN IF o.e # ExpectErr(mPrev, op) THEN "op-error-flag"
     ELSE IF s = "rr" /\ per > 0 /\ ~(\E c \in 0..(per - 1) : \A j \in 1..Len(sel) : sel[j] \in SelectSet(s, wt, m, cy, c + j - 1, 0))
          THEN "rotation-order"
     ELSE IF s = "modhash" /\ ~(\A j \in 1..Len(sel) : sel[j] \in SelectSet(s, wt, m, cy, 0, j - 1))
          THEN "modhash-slot"
     ELSE IF s = "random" /\ ~(\A j \in 1..Len(sel) : sel[j] \in SelectSet(s, wt, m, cy, 0, 0))
          THEN "random-outside-cycle"
     ELSE IF s = "conhash" /\ ~(\A j \in 1..Len(sel) : sel[j] \in SelectSet(s, wt, m, cy, 0, 0))
          THEN "conhash-ineligible"
     ELSE "ok"
RClassB(s, wt, m, mPrev, op, o, cy) == RClassC(s, wt, m, mPrev, op, o, cy, PeriodOf(s, wt, m, cy))
\* RFull = FALSE skips the comparisons that need the reference cycle itself (the costly part of the oracle)
RClass(s, wt, m, mPrev, op, o) ==
  IF ~RFull /\ UsesCycle(s, wt, m) THEN (IF o.e # ExpectErr(mPrev, op) THEN "op-error-flag" ELSE "ok")
  ELSE RClassB(s, wt, m, mPrev, op, o, CycleOf(s, wt, m))

\* walk one record: <<step of the first P failure or 0, class, step of the first R mismatch or 0, class>>
RECURSIVE Walk(_, _, _, _, _, _, _)
Walk(s, wt, ops, obs, j, m, r) ==
  IF j > Len(obs) THEN <<0, "ok", r[1], r[2]>>
  ELSE LET m2 == Apply(m, ops[j])
           pc == PClass(s, wt, m2, obs[j])
       IN IF pc # "ok" THEN <<j, pc, r[1], r[2]>>
          ELSE LET rc == IF r[1] = 0 THEN RClass(s, wt, m2, m, ops[j], obs[j]) ELSE "ok"
               IN Walk(s, wt, ops, obs, j + 1, m2, IF rc = "ok" THEN r ELSE <<j, rc>>)
Judge(rec) ==
  LET ops == Scripts[rec.i + 1].ops
  IN IF rec.hang THEN <<Len(rec.obs) + 1, "hang", 0, "ok">>
     ELSE IF Len(rec.obs) = 0 \/ Len(rec.obs) > Len(ops) THEN <<1, "malformed", 0, "ok">>
     ELSE IF Len(rec.obs) < Len(ops) /\ rec.obs[Len(rec.obs)].p = "" /\ rec.obs[Len(rec.obs)].sp = "" THEN <<Len(rec.obs) + 1, "malformed", 0, "ok">>
     ELSE Walk(Strat(rec.s), rec.wt, ops, rec.obs, 1, <<>>, <<0, "ok">>)

\* ---- histories of the endpoint manager (records with s = "mgr"; scripts from Gen_Mgr: K(list) the registry names these
\* endpoints, B(h) the status check blocks h, V(h) a probe brings h back).  The manager installs a new list into fresh
\* selectors when the registry names another SET than before -- that list is taken from the manager's own account of
\* its current set (o.act, in its order; the registry's weights) --, a reply naming the same set changes nothing, B is
\* Remove and V is Add on the member list.  The windows of plain calls are judged like any round-robin observation
\* (level P).  Level R (observations): the manager's account differs from "named minus blocked"; rotation order.
HostSetOf(l) == {l[i].h : i \in 1..Len(l)}
EpIn(l, h) == IF \E i \in 1..Len(l) : l[i].h = h THEN l[CHOOSE i \in 1..Len(l) : l[i].h = h] ELSE [h |-> h, w |-> 0, t |-> 0]
Reported(reply, act) == [i \in 1..Len(act) |-> EpIn(reply, act[i])]
MgrRot(wt, m, sel, cy, per) ==
  IF per > 0 /\ ~(\E c \in 0..(per - 1) : \A j \in 1..Len(sel) : sel[j] \in SelectSet("rr", wt, m, cy, c + j - 1, 0))
  THEN "rotation-order" ELSE "ok"
MgrRotC(wt, m, sel, cy) == MgrRot(wt, m, sel, cy, PeriodOf("rr", wt, m, cy))    \* (the cycle is computed once)
MgrR(wt, m, o, expect) ==
  IF {o.act[i] : i \in 1..Len(o.act)} # expect THEN "manager-set-not-named-minus-blocked"
  ELSE IF ~RFull /\ UsesCycle("rr", wt, m) THEN "ok"
  ELSE MgrRotC(wt, m, o.sel, CycleOf("rr", wt, m))
MgrMembers(m, named, reply, op, o) ==
  IF op.o = "K" THEN (IF HostSetOf(op.l) # named THEN Dedup(Reported(ListOf(op), o.act)) ELSE m)
  ELSE IF op.o = "B" THEN RemoveM(m, EpIn(reply, op.h))
  ELSE AddM(m, EpIn(reply, op.h))
MgrNamed(named, op) == IF op.o = "K" THEN HostSetOf(op.l) ELSE named
MgrBlocked(blocked, op) == IF op.o = "K" THEN blocked \cap HostSetOf(op.l)
                           ELSE IF op.o = "B" THEN blocked \cup {op.h} ELSE blocked \ {op.h}
ActSet(o) == {o.act[i] : i \in 1..Len(o.act)}
\* The member list the windows are held to is the manager's own account of its current set: where the list derived
\* from the history has another host set (the manager changed its set without an operation of the history, or kept
\* an endpoint the history took out), the account replaces it and the difference is an observation of level R.
MgrHeld(mh, reply, o) == IF HostsOf(mh) = ActSet(o) THEN mh ELSE Dedup(Reported(reply, o.act))
RECURSIVE MWalk(_, _, _, _, _, _, _, _, _)
MWalk(wt, ops, obs, j, m, named, blocked, reply, r) ==
  IF j > Len(obs) THEN <<0, "ok", r[1], r[2]>>
  ELSE LET reply2 == IF ops[j].o = "K" THEN ListOf(ops[j]) ELSE reply
           mh == MgrMembers(m, named, reply, ops[j], obs[j])
           m2 == MgrHeld(mh, reply2, obs[j])
           n2 == MgrNamed(named, ops[j])
           b2 == MgrBlocked(blocked, ops[j])
           pc == PClass("rr", wt, m2, obs[j])
       IN IF pc # "ok" THEN <<j, pc, r[1], r[2]>>
          ELSE LET rc == IF r[1] # 0 THEN "ok"
                         ELSE IF HostsOf(mh) # ActSet(obs[j]) THEN "manager-set-not-what-the-history-gives"
                         ELSE MgrR(wt, m2, obs[j], n2 \ b2)
               IN MWalk(wt, ops, obs, j + 1, m2, n2, b2, reply2, IF rc = "ok" THEN r ELSE <<j, rc>>)
\* (a history the driver could not carry out to its end is judged as far as it got)
MgrJudge(rec, ops) ==
  IF rec.hang THEN <<Len(rec.obs) + 1, "hang", 0, "ok">>
  ELSE IF Len(rec.obs) > Len(ops) THEN <<1, "malformed", 0, "ok">>
  ELSE MWalk(rec.wt, ops, rec.obs, 1, <<>>, {}, {}, <<>>, <<0, "ok">>)

OkRes == <<0, "ok", 0, "ok">>
Verdicts == {<<i, IF Obs[i].s = "mgr" THEN MgrJudge(Obs[i], Scripts[Obs[i].i + 1].ops) ELSE Judge(Obs[i])>> : i \in 1..Len(Obs)}
NotOk == {v \in Verdicts : v[2] # OkRes}

\* ---- B3: the weight builder
WJudge(r) ==
  LET n == Len(r.w)
      out1 == [k \in 1..Len(r.out) |-> r.out[k] + 1]
  IN IF r.p # "" THEN <<"panic", "ok">>
     ELSE IF \E k \in 1..Len(out1) : out1[k] \notin 1..n THEN <<"index-out-of-range", "ok">>
     ELSE IF n = 0 THEN <<"ok", "ok">>
     ELSE IF \E i \in 1..n : r.t[i] # StaticT                           \* an endpoint without a static weight:
          THEN (IF out1 = <<>> THEN <<"ok", "ok">> ELSE <<"ok", "list-despite-nonstatic">>)   \* no list (observation)
     ELSE IF ~AllPositive(r.w) THEN <<"ok", "ok">>                     \* degenerate: totality and valid indexes only
     ELSE IF \E i \in 1..n : CountIn(out1, i) # FormulaCount(r.w, i) THEN <<"count", "ok">>
     ELSE IF out1 # StaticWeightList(r.w, r.ord) THEN <<"ok", "order">>
     ELSE <<"ok", "ok">>
WVerdicts == {<<i, WJudge(WRecs[i])>> : i \in 1..Len(WRecs)}
WNotOk == {v \in WVerdicts : v[2] # <<"ok", "ok">>}

ASSUME PrintT(<<"STATS", Len(Scripts), Len(Obs), Len(WRecs)>>)
ASSUME PrintT(<<"NOTOK", NotOk>>)
ASSUME PrintT(<<"WNOTOK", WNotOk>>)
VARIABLE dummy
OInit == Init /\ dummy = 0
ONext == UNCHANGED <<vars, dummy>>
====
