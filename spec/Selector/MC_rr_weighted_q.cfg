CONSTANTS Hosts <- H2  Types <- TStatic  Weights <- W12  StratSet <- SRR  WtSet <- OnlyTrue  RefreshLists <- Lists1x  Codes <- C1
SPECIFICATION Spec
INVARIANTS TypeOK SelectsMember ErrorIffNoneEligible NoneEligibleMeans Rotation WeightedCycle CycleCoversAll
CHECK_DEADLOCK FALSE
