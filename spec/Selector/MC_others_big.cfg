CONSTANTS Hosts <- H3  Weights <- WAll  StratSet <- SOthers  WtSet <- BoolBoth  RefreshLists <- Lists2  Codes <- C6
CONSTANT CycleOf <- MCCycleOf
SPECIFICATION Spec
INVARIANTS TypeOK SelectsMember ErrorIffNoneEligible NoneEligibleMeans Rotation WeightedCycle CycleCoversAll
CHECK_DEADLOCK FALSE
