CONSTANTS Hosts <- H4  Weights <- WCh  StratSet <- SCh  WtSet <- BoolBoth  RefreshLists <- Lists2  Codes <- C3
SPECIFICATION Spec
INVARIANTS TypeOK SelectsMember ErrorIffNoneEligible NoneEligibleMeans Rotation WeightedCycle CycleCoversAll
CHECK_DEADLOCK FALSE
