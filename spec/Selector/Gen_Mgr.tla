---- MODULE Gen_Mgr ----
(* History generation for the endpoint MANAGER (tars/endpointmanager.go), which stands between a registry and the     *)
(* selectors: it installs what the registry names (minus the endpoints its status check has blocked) into fresh        *)
(* selectors when the registry names another SET than before, calls Remove on them when the status check blocks an      *)
(* endpoint and Add when a probe brings it back.  The model keeps the two sets the manager's behaviour is a function   *)
(* of; the order of the installed list is the manager's business (crc32 of host:port) and is taken from its report.    *)
(*   K(S)  the registry is asked again and names S (in any order): the same set, one endpoint more, one less           *)
(*   B(h)  h, in rotation, fails five times and the status check runs: blocked                                          *)
(*   V(h)  h, blocked, answers its probe: back in rotation                                                              *)
(* Breadth-first search enumerates EVERY history of length D (each history is a distinct state), -simulate samples      *)
(* longer ones.  Oracle_Selector!MgrJudge walks the same sets to turn a history into Refresh / Remove / Add / nothing   *)
(* on the member list and judges the selections the real manager made after every operation.                            *)
(* Canon: the first reply is {1..n} (hosts are interchangeable until they have been named).                             *)
EXTENDS Integers, Sequences, FiniteSets, Json, TLC
CONSTANTS D, MHosts
VARIABLES named,    \* endpoints the registry named last
          blocked,  \* endpoints taken out by the status check (a subset of named: a dropped endpoint is forgotten)
          hist
mvars == <<named, blocked, hist>>
InRotation == named \ blocked

RECURSIVE Asc(_)
Asc(S) == IF S = {} THEN <<>> ELSE LET m == CHOOSE x \in S : \A y \in S : x <= y IN <<m>> \o Asc(S \ {m})
EpOf(h) == [h |-> h, w |-> 0, t |-> 0]      \* weights and weight types are filled in by the check (per host)
OpK(S) == [o |-> "K", h |-> 0, w |-> 0, t |-> 0, l |-> [i \in 1..Cardinality(S) |-> EpOf(Asc(S)[i])]]
OpB(h) == [o |-> "B", h |-> h, w |-> 0, t |-> 0, l |-> <<>>]
OpV(h) == [o |-> "V", h |-> h, w |-> 0, t |-> 0, l |-> <<>>]

FirstReplies == {1..n : n \in 2..Cardinality(MHosts)}
\* at least one endpoint stays in rotation (with none the manager leaves the selectors and picks at random: not C13's subject)
NextReplies == {S \in {named} \cup {named \cup {x} : x \in MHosts \ named} \cup {named \ {x} : x \in named} :
                   S \ blocked # {}}
Replies == IF named = {} THEN FirstReplies ELSE NextReplies

K(S) == /\ named' = S /\ blocked' = blocked \cap S /\ hist' = Append(hist, OpK(S))
B(h) == /\ h \in InRotation /\ Cardinality(InRotation) >= 2
        /\ blocked' = blocked \cup {h} /\ hist' = Append(hist, OpB(h)) /\ UNCHANGED named
V(h) == /\ h \in blocked
        /\ blocked' = blocked \ {h} /\ hist' = Append(hist, OpV(h)) /\ UNCHANGED named
MInit == named = {} /\ blocked = {} /\ hist = <<>>
MNext == /\ Len(hist) < D
         /\ \/ \E S \in Replies : K(S)
            \/ named # {} /\ \E h \in MHosts : B(h) \/ V(h)
MSpec == MInit /\ [][MNext]_mvars
Emit == Len(hist) < D \/ PrintT(ToJson([ops |-> hist]))
MTypeOK == blocked \subseteq named /\ (named # {} => InRotation # {})
M4 == 1..4
====
