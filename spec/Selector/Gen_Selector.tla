---- MODULE Gen_Selector ----
(* History generation for directed replay (B2).  The behaviours of Selector restricted to its     *)
(* update actions, with the history of operations as a variable: breadth-first search enumerates   *)
(* EVERY history of length D over the operation alphabet (each history is a distinct state);       *)
(* -simulate samples longer ones.  A history is printed (as JSON) when it reaches length D; its    *)
(* prefixes need no scripts of their own because the driver observes the selector after every      *)
(* operation.                                                                                      *)
(* Canon = TRUE keeps one representative per renaming of the hosts (a new host must be the least   *)
(* unused one): sound where neither the specification nor the code looks at the host name          *)
(* (everything but the tie-break of the weight builder).                                           *)
EXTENDS Selector, Json, TLC
CONSTANTS D,         \* history length
          GenAdd,    \* endpoints Add is called with
          GenRemove, \* endpoints Remove is called with
          Canon
VARIABLE hist
gvars == <<vars, hist>>
NoList == <<>>
OpF(l) == [o |-> "F", h |-> 0, w |-> 0, l |-> l]
OpA(ep) == [o |-> "A", h |-> ep.h, w |-> ep.w, l |-> NoList]
OpR(ep) == [o |-> "R", h |-> ep.h, w |-> ep.w, l |-> NoList]
HostSeq(op) == IF op.o = "F" THEN [i \in 1..Len(op.l) |-> op.l[i].h] ELSE <<op.h>>
RECURSIVE MaxAfter(_, _)
\* hosts are introduced in increasing order: returns the new maximum, or -1 if a host is skipped
MaxAfter(mx, hs) == IF hs = <<>> THEN mx
                    ELSE IF hs[1] > mx + 1 THEN 0 - 1
                    ELSE MaxAfter(Max2(mx, hs[1]), Tail(hs))
RECURSIVE MaxOfHist(_, _)
MaxOfHist(mx, h) == IF h = <<>> THEN mx ELSE MaxOfHist(MaxAfter(mx, HostSeq(h[1])), Tail(h))
Allowed(op) == ~Canon \/ MaxAfter(MaxOfHist(0, hist), HostSeq(op)) >= 0
Step(op, action) == /\ Len(hist) < D /\ Allowed(op) /\ action /\ hist' = Append(hist, op)
GenNext == \/ \E l \in RefreshLists : Step(OpF(l), Refresh(l))
           \/ \E ep \in GenAdd : Step(OpA(ep), Add(ep))
           \/ \E ep \in GenRemove : Step(OpR(ep), Remove(ep))
GenInit == Init /\ hist = <<>>
GenSpec == GenInit /\ [][GenNext]_gvars
Emit == Len(hist) < D \/ PrintT(ToJson([ops |-> hist]))
\* alphabets
G3 == {1, 2, 3}
G4 == {1, 2, 3, 4}
GOne == {1}
GRnd == {"random"}
GFalse == {FALSE}
EpsOf(HS, WS) == [h : HS, w : WS]
\* plain group: weights do not matter
PlainLists == {<<>>, <<[h |-> 1, w |-> 1]>>, <<[h |-> 1, w |-> 1], [h |-> 2, w |-> 1]>>,
               <<[h |-> 1, w |-> 1], [h |-> 2, w |-> 1], [h |-> 1, w |-> 1]>>,
               <<[h |-> 1, w |-> 1], [h |-> 2, w |-> 1], [h |-> 3, w |-> 1]>>,
               <<[h |-> 1, w |-> 1], [h |-> 1, w |-> 1], [h |-> 2, w |-> 1], [h |-> 3, w |-> 1], [h |-> 4, w |-> 1]>>}
PlainLists3 == {l \in PlainLists : \A i \in 1..Len(l) : l[i].h \in G3}
\* weighted group for rr/random/modhash: positive weights, zero and a large negative (what the weight
\* builder must survive); Remove identifies by host, one weight is enough there
WW == {0 - 200, 0, 1, 3}
WLists == {<<>>, <<[h |-> 2, w |-> 1], [h |-> 1, w |-> 3]>>, <<[h |-> 1, w |-> 3], [h |-> 1, w |-> 1], [h |-> 3, w |-> 3]>>,
           <<[h |-> 3, w |-> 0], [h |-> 1, w |-> 0]>>, <<[h |-> 1, w |-> 0 - 200], [h |-> 2, w |-> 3]>>}
\* weighted group for the consistent hash: weights whose ring sizes differ (w/4 rounds), zero and negative;
\* Remove is called with the stored weight or another one
CW == {0 - 1, 0, 4, 40}
CLists == {<<>>, <<[h |-> 1, w |-> 40], [h |-> 2, w |-> 4]>>, <<[h |-> 2, w |-> 0], [h |-> 1, w |-> 0 - 1]>>,
           <<[h |-> 1, w |-> 4], [h |-> 1, w |-> 40], [h |-> 3, w |-> 40]>>}
GAddPlain4 == EpsOf(G4, GOne)
GAddPlain3 == EpsOf(G3, GOne)
GAddW == EpsOf(G3, WW \ {0 - 200})      \* the large negative weight arrives through Refresh lists only
GRemW == EpsOf(G3, GOne)
GAddC == EpsOf(G3, CW)
====
