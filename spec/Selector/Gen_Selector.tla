---- MODULE Gen_Selector ----
(* History generation for directed replay (B2).  The behaviours of Selector restricted to its     *)
(* update actions, with the history of operations as a variable: breadth-first search enumerates   *)
(* EVERY history of length D over the operation alphabet (each history is a distinct state);       *)
(* -simulate samples longer ones.  A history is printed (as JSON) when it reaches length D; its    *)
(* prefixes need no scripts of their own because the driver observes the selector after every      *)
(* operation.                                                                                      *)
(* Canon = TRUE keeps one representative per renaming of the hosts (a new host must be the least   *)
(* unused one): sound where neither the specification nor the code looks at the host name          *)
(* (everything but the tie-break of the weight builder).                                           *)
EXTENDS Selector, Json, TLC
CONSTANTS D,         \* history length
          GenAdd,    \* endpoints Add is called with
          GenRemove, \* endpoints Remove is called with
          Canon
VARIABLE hist
gvars == <<vars, hist>>
NoList == <<>>
OpF(l) == [o |-> "F", h |-> 0, w |-> 0, t |-> 0, l |-> l]
OpA(ep) == [o |-> "A", h |-> ep.h, w |-> ep.w, t |-> ep.t, l |-> NoList]
OpR(ep) == [o |-> "R", h |-> ep.h, w |-> ep.w, t |-> ep.t, l |-> NoList]
HostSeq(op) == IF op.o = "F" THEN [i \in 1..Len(op.l) |-> op.l[i].h] ELSE <<op.h>>
RECURSIVE MaxAfter(_, _)
\* hosts are introduced in increasing order: returns the new maximum, or -1 if a host is skipped
MaxAfter(mx, hs) == IF hs = <<>> THEN mx
                    ELSE IF hs[1] > mx + 1 THEN 0 - 1
                    ELSE MaxAfter(Max2(mx, hs[1]), Tail(hs))
RECURSIVE MaxOfHist(_, _)
MaxOfHist(mx, h) == IF h = <<>> THEN mx ELSE MaxOfHist(MaxAfter(mx, HostSeq(h[1])), Tail(h))
Allowed(op) == ~Canon \/ MaxAfter(MaxOfHist(0, hist), HostSeq(op)) >= 0
Step(op, action) == /\ Len(hist) < D /\ Allowed(op) /\ action /\ hist' = Append(hist, op)
GenNext == \/ \E l \in RefreshLists : Step(OpF(l), Refresh(l))
           \/ \E ep \in GenAdd : Step(OpA(ep), Add(ep))
           \/ \E ep \in GenRemove : Step(OpR(ep), Remove(ep))
GenInit == Init /\ hist = <<>>
GenSpec == GenInit /\ [][GenNext]_gvars
Emit == Len(hist) < D \/ PrintT(ToJson([ops |-> hist]))
\* alphabets
G3 == {1, 2, 3}
G4 == {1, 2, 3, 4}
GOne == {1}
GRnd == {"random"}
GFalse == {FALSE}
GTypes == {0, 1}
\* S: endpoint with a static weight; L: endpoint of the other weight type ("loop": no static weight)
S(h, w) == [h |-> h, w |-> w, t |-> 1]
L(h, w) == [h |-> h, w |-> w, t |-> 0]
EpsOf(HS, WS) == {S(h, w) : h \in HS, w \in WS}
LoopsOf(HS, WS) == {L(h, w) : h \in HS, w \in WS}
\* plain group: weights do not matter
PlainLists == {<<>>, <<S(1, 1)>>, <<S(1, 1), S(2, 1)>>,
               <<S(1, 1), S(2, 1), S(1, 1)>>,
               <<S(1, 1), S(2, 1), S(3, 1)>>,
               <<S(1, 1), S(1, 1), S(2, 1), S(3, 1), S(4, 1)>>}
PlainLists3 == {l \in PlainLists : \A i \in 1..Len(l) : l[i].h \in G3}
\* weighted group for rr/random/modhash: positive weights, zero and a large negative (what the weight
\* builder must survive); Remove identifies by host, one weight is enough there
WW == {0 - 200, 0, 1, 3}
WLists == {<<>>, <<S(2, 1), S(1, 3)>>, <<S(1, 3), S(1, 1), S(3, 3)>>,
           <<S(3, 0), S(1, 0)>>, <<S(1, 0 - 200), S(2, 3)>>}
\* weighted group for the consistent hash: weights whose ring sizes differ (w/4 rounds), zero and negative;
\* Remove is called with the stored weight or another one
CW == {0 - 1, 0, 4, 40}
CLists == {<<>>, <<S(1, 40), S(2, 4)>>, <<S(2, 0), S(1, 0 - 1)>>,
           <<S(1, 4), S(1, 40), S(3, 40)>>}
GAddPlain4 == EpsOf(G4, GOne)
GAddPlain3 == EpsOf(G3, GOne)
GAddW == EpsOf(G3, WW \ {0 - 200})      \* the large negative weight arrives through Refresh lists only
GRemW == EpsOf(G3, GOne)
GAddC == EpsOf(G3, CW)
\* weighted consistent hash, the small positive weights: w/4 rounds of points is 0 rounds for w in 1..3 (the
\* endpoint must get one round all the same: it has a positive weight, so it is eligible), 1 round for 4..7,
\* 2 for 8; together with weight 0 (no points) and endpoints of the other weight type (the ring does not look
\* at the type).  Remove is called with a small and with a larger weight than the stored one.
CWL == {0, 1, 2, 3, 5, 8}
CLLists == {<<>>, <<S(1, 1), S(2, 2)>>, <<S(1, 3)>>, <<S(2, 0), S(1, 1)>>, <<S(1, 8), S(1, 1), S(2, 3)>>,
            <<S(1, 5), S(2, 3)>>, <<L(2, 2), S(1, 0)>>}
GAddCL == EpsOf(G3, CWL) \cup LoopsOf(G3, {2})
GRemCL == EpsOf(G3, {1}) \cup EpsOf({1}, {8})
GRemCLFree == EpsOf(G3, {1, 8})
\* mixed weight types under the weighted mode: lists and Adds bring in endpoints that carry no static weight
\* (weight 0 as the registry gives them, or a stale positive number); while such an endpoint is a member no
\* static weights apply, and they apply again once it has been removed
TW == {0, 1, 3}
TLists == {<<>>, <<S(2, 1), L(1, 0)>>, <<L(1, 3), S(1, 1), S(3, 3)>>, <<S(1, 3), S(2, 1)>>, <<L(3, 0), L(1, 0)>>}
GAddT == EpsOf(G3, {1, 3}) \cup LoopsOf(G3, {0, 3})
====
