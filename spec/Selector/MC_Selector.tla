---- MODULE MC_Selector ----
(* Exhaustive small configurations of Selector: every history of Refresh/Add/Remove/Select over    *)
(* the universe is a path of the (finite) state graph, so exploring the graph covers histories of   *)
(* every depth.                                                                                      *)
EXTENDS Selector
H3 == {1, 2, 3}
H4 == {1, 2, 3, 4}
WOne == {1}
WPos == {1, 2, 3}
WPos2 == {1, 25}
WAll == {0 - 200, 0, 1, 2}
WCh == {0 - 1, 0, 4, 40}
BoolBoth == {FALSE, TRUE}
OnlyFalse == {FALSE}
OnlyTrue == {TRUE}
SRR == {"rr"}
SOthers == {"random", "modhash", "conhash"}
SCh == {"conhash"}
SeqsUpTo(S, n) == UNION {[1..k -> S] : k \in 0..n}
\* refresh lists: every list of endpoints up to length 2, and every list of length 3 over one weight (duplicates included)
Lists2 == SeqsUpTo(Eps, 2)
Lists3 == SeqsUpTo(Eps, 3)
Lists4 == SeqsUpTo(Eps, 4)
C6 == 0..5
C3 == {0, 1, 7}
====
