---- MODULE MC_Selector ----
(* Exhaustive small configurations of Selector: every history of Refresh/Add/Remove/Select over    *)
(* the universe is a path of the (finite) state graph, so exploring the whole graph covers the      *)
(* histories of every depth.                                                                         *)
EXTENDS Selector
H2 == {1, 2}
H3 == {1, 2, 3}
H4 == {1, 2, 3, 4}
WOne == {1}
W12 == {1, 2}
W123 == {1, 2, 3}
WDeg == {0 - 200, 0, 1}
WAll == {0 - 200, 0, 1, 2}
\* weighted consistent hash: no points for a weight <= 0; 1 and 3 stand for the small positive weights (fewer
\* than one round of four points: still eligible), 4 for the others
WCh == {0 - 1, 0, 1, 3, 4}
\* mixed weight types: static weights apply only while every member is of the static type
WMix == {0, 1, 2}
TStatic == {1}
TBoth == {0, 1}
SAll == {"rr", "random", "modhash", "conhash"}
BoolBoth == {FALSE, TRUE}
OnlyFalse == {FALSE}
OnlyTrue == {TRUE}
SRR == {"rr"}
SOthers == {"random", "modhash", "conhash"}
SCh == {"conhash"}
SeqsUpTo(S, n) == UNION {[1..k -> S] : k \in 0..n}
Lists1 == SeqsUpTo(Eps, 1)
Lists2 == SeqsUpTo(Eps, 2)
Lists3 == SeqsUpTo(Eps, 3)
\* every list up to length 1, plus lists of length 3 that start with a repeated host (dedup keeps the first)
Lists1x == Lists1 \cup UNION {{<<a, b, c>> : b \in {e \in Eps : e.h = a.h}, c \in {e \in Eps : e.h # a.h /\ e.w = a.w}} : a \in Eps}
C1 == {0}
C3 == {0, 1, 7}
C6 == 0..5
====
