CONSTANTS Hosts <- H4  Types <- TStatic  Weights <- WCh  StratSet <- SCh  WtSet <- BoolBoth  RefreshLists <- Lists1x  Codes <- C1
SPECIFICATION Spec
INVARIANTS TypeOK SelectsMember ErrorIffNoneEligible NoneEligibleMeans Rotation WeightedCycle CycleCoversAll
CHECK_DEADLOCK FALSE
