---- MODULE Selector ----
(* C13 - endpoint selection.                                                                     *)
(*                                                                                               *)
(* A selector holds a host-deduplicated SEQUENCE of endpoints [h |-> host, w |-> weight,         *)
(* t |-> weight type] (t = 1: static weight, endpoint.EStaticWeight; t = 0: none, endpoint.ELoop). *)
(* Hosts are integers; their numeric order is the order of the code's Endpoint.String() (the     *)
(* harness names host k "10.0.0.k", 1 <= k <= 9, same proto/timeout).                            *)
(* Operations: Refresh(list), Add(ep), Remove(ep) (identified by host only: the weight of the    *)
(* argument may differ from the stored one), Select(code).                                       *)
(* Strategies: "rr" (round robin: cursor chosen nondeterministically at every rebuild, then      *)
(* strict rotation), "random", "modhash", "conhash" (the ring itself is module HashRing/C14:     *)
(* here a consistent-hash selection is any ELIGIBLE member).                                     *)
(* Static weights (wt = TRUE): rr/random/modhash walk the weighted cycle StaticWeightList -- but  *)
(* only while EVERY member carries a static weight (t = 1); a set with a member of another       *)
(* weight type has no static weights to be proportional to, and the strategies behave as without *)
(* weights (strict rotation / h mod N / any member).  The weighted consistent hash gives an      *)
(* endpoint of weight <= 0 no ring points (not eligible); every positive weight, however small,  *)
(* is eligible; the weight type plays no part there.                                             *)
(* For degenerate weights (some weight <= 0) the statement only demands totality and membership, *)
(* so the specification allows any member there.                                                 *)
EXTENDS Integers, Sequences, FiniteSets

\* ------------------------------------------------------------------ arithmetic / sequences
Max2(a, b) == IF a >= b THEN a ELSE b
Min2(a, b) == IF a <= b THEN a ELSE b
Range(s) == {s[i] : i \in 1..Len(s)}
SeqMax(s) == CHOOSE x \in Range(s) : \A y \in Range(s) : y <= x
SeqMin(s) == CHOOSE x \in Range(s) : \A y \in Range(s) : x <= y
RECURSIVE SumSeq(_)
SumSeq(s) == IF s = <<>> THEN 0 ELSE s[1] + SumSeq(Tail(s))
CountIn(s, x) == Cardinality({i \in 1..Len(s) : s[i] = x})
LastN(s, n) == IF Len(s) <= n THEN s ELSE SubSeq(s, Len(s) - n + 1, Len(s))

\* ------------------------------------------------------------------ static weights
MinScale == 10
MaxScale == 100
AllPositive(W) == \A i \in 1..Len(W) : W[i] > 0
\* R = min(100, max(10, floor(Wmax / Wmin)))            (W: non-empty sequence of positive integers)
ScaleR(W) == Min2(MaxScale, Max2(MinScale, SeqMax(W) \div SeqMin(W)))
\* the statement's formula: endpoint i occurs max(1, floor(W_i * R / W_max)) times in a full cycle
FormulaCount(W, i) == Max2(1, (W[i] * ScaleR(W)) \div SeqMax(W))
FormulaLen(W) == SumSeq([i \in 1..Len(W) |-> FormulaCount(W, i)])

\* The code's builder, transliterated (tars/selector/selector.go BuildStaticWeightList) for positive
\* weights.  eff_i = floor(W_i*R/Wmax); indexes with eff_i = 0 come first, once each, in index order;
\* then smooth weighted round robin over the others: `total` rounds, each round picks the largest
\* current weight (ties: the greater Endpoint.String(), i.e. the greater ord), emits it and lowers it by
\* total; every entry then grows by its eff.  Result: sequence of 1-based indexes into W.
\* one round per recursion; eff/total/ord are passed as values (TLC then evaluates them once)
RECURSIVE SwrrRounds(_, _, _, _, _, _)
SwrrRounds(k, cur, acc, eff, total, ord) ==
  IF k = 0 THEN acc
  ELSE LET P == DOMAIN cur
           p == CHOOSE i \in P : \A j \in P : cur[j] < cur[i] \/ (cur[j] = cur[i] /\ ord[j] <= ord[i])
       IN SwrrRounds(k - 1, [i \in P |-> IF i = p THEN cur[i] - total + eff[i] ELSE cur[i] + eff[i]],
                     Append(acc, p), eff, total, ord)
StaticWeightList(W, ord) ==
  LET n == Len(W)
      R == ScaleR(W)
      mx == SeqMax(W)
      eff == [i \in 1..n |-> (W[i] * R) \div mx]
      Z == SelectSeq([i \in 1..n |-> i], LAMBDA i : eff[i] = 0)
      P == {i \in 1..n : eff[i] > 0}
      total == SumSeq(eff)
  IN SwrrRounds(total, [i \in P |-> eff[i]], Z, eff, total, ord)

\* ------------------------------------------------------------------ member list
HostsOf(m) == {m[i].h : i \in 1..Len(m)}
HostIn(m, h) == \E i \in 1..Len(m) : m[i].h = h
AddM(m, ep) == IF HostIn(m, ep.h) THEN m ELSE Append(m, ep)
RemoveM(m, ep) == SelectSeq(m, LAMBDA x : x.h # ep.h)
RECURSIVE DedupInto(_, _)
DedupInto(acc, rest) == IF rest = <<>> THEN acc ELSE DedupInto(AddM(acc, rest[1]), Tail(rest))
Dedup(list) == DedupInto(<<>>, list)
WeightsOf(m) == [i \in 1..Len(m) |-> m[i].w]
OrdOf(m) == [i \in 1..Len(m) |-> m[i].h]
Degenerate(m) == \E i \in 1..Len(m) : m[i].w <= 0
StaticT == 1
LoopT == 0
AllStatic(m) == \A i \in 1..Len(m) : m[i].t = StaticT

Strategies == {"rr", "random", "modhash", "conhash"}
\* static weights apply: weighted mode and every member has a static weight
WeightsApply(s, wt, m) == wt /\ s \in {"rr", "random", "modhash"} /\ m # <<>> /\ AllStatic(m)
\* the weighted cycle is in force
UsesCycle(s, wt, m) == WeightsApply(s, wt, m) /\ ~Degenerate(m)
\* weights are in force but degenerate: only totality and membership are specified
Unspecified(s, wt, m) == WeightsApply(s, wt, m) /\ Degenerate(m)
CycleOf(s, wt, m) == IF UsesCycle(s, wt, m) THEN StaticWeightList(WeightsOf(m), OrdOf(m)) ELSE <<>>
EligibleIdx(s, wt, m) == IF s = "conhash" /\ wt THEN {i \in 1..Len(m) : m[i].w > 0} ELSE 1..Len(m)
EligibleHosts(s, wt, m) == {m[i].h : i \in EligibleIdx(s, wt, m)}
\* length of the rotation cycle of the round robin (0: nothing to rotate over / unspecified)
PeriodOf(s, wt, m, cyc) == IF Unspecified(s, wt, m) THEN 0 ELSE IF UsesCycle(s, wt, m) THEN Len(cyc) ELSE Len(m)

\* Results of a selection are hosts; 0 stands for "error".  `cyc` = CycleOf(s, wt, m) (kept in a
\* variable by the state machine, as the code keeps staticWeightRouterCache).
SelectSet(s, wt, m, cyc, cur, code) ==
  IF EligibleIdx(s, wt, m) = {} THEN {0}
  ELSE IF Unspecified(s, wt, m) THEN HostsOf(m)
  ELSE IF s = "rr" THEN (IF cyc # <<>> THEN {m[cyc[(cur % Len(cyc)) + 1]].h} ELSE {m[(cur % Len(m)) + 1].h})
  ELSE IF s = "modhash" THEN (IF cyc # <<>> THEN {m[cyc[(code % Len(cyc)) + 1]].h} ELSE {m[(code % Len(m)) + 1].h})
  ELSE IF s = "random" THEN (IF cyc # <<>> THEN {m[cyc[k]].h : k \in 1..Len(cyc)} ELSE HostsOf(m))
  ELSE EligibleHosts(s, wt, m)

\* ------------------------------------------------------------------ state machine
CONSTANTS Hosts,        \* universe of hosts (positive integers)
          Weights,      \* universe of weights (integers, may contain 0 and negatives)
          Types,        \* universe of weight types (subset of {LoopT, StaticT})
          StratSet,     \* strategies explored
          WtSet,        \* subset of BOOLEAN: static-weight mode off/on
          RefreshLists, \* lists a Refresh may install
          Codes         \* hash codes of messages
VARIABLES strat, wtd,   \* fixed at Init
          members,      \* sequence of endpoints
          cyc,          \* weighted cycle (indexes into members) or <<>>
          cur,          \* round-robin cursor
          recent,       \* rr: selections since the last rebuild (at most one period kept)
          last          \* result of the last Select since the last update, or -1
vars == <<strat, wtd, members, cyc, cur, recent, last>>
Eps == [h : Hosts, w : Weights, t : Types]
NoSel == 0 - 1

Init == /\ strat \in StratSet /\ wtd \in WtSet
        /\ members = <<>> /\ cyc = <<>> /\ cur = 0 /\ recent = <<>> /\ last = NoSel

\* every change of the member list rebuilds the cycle and re-randomises the cursor
Rebuild(m) == /\ members' = m
              /\ cyc' = CycleOf(strat, wtd, m)
              /\ cur' \in (IF strat = "rr" /\ PeriodOf(strat, wtd, m, cyc') > 0 THEN 0..(PeriodOf(strat, wtd, m, cyc') - 1) ELSE {0})
              /\ recent' = <<>> /\ last' = NoSel
              /\ UNCHANGED <<strat, wtd>>
Refresh(list) == Rebuild(Dedup(list))
\* Add of a present host / Remove of an absent host: an error, nothing changes
Add(ep) == IF HostIn(members, ep.h) THEN UNCHANGED vars ELSE Rebuild(Append(members, ep))
Remove(ep) == IF HostIn(members, ep.h) THEN Rebuild(RemoveM(members, ep)) ELSE UNCHANGED vars
Select(code) == \E r \in SelectSet(strat, wtd, members, cyc, cur, code) :
                  /\ last' = r
                  /\ cur' = IF strat = "rr" /\ PeriodOf(strat, wtd, members, cyc) > 0
                            THEN (cur + 1) % PeriodOf(strat, wtd, members, cyc) ELSE cur
                  /\ recent' = IF strat = "rr" THEN LastN(Append(recent, r), Max2(1, PeriodOf(strat, wtd, members, cyc))) ELSE recent
                  /\ UNCHANGED <<strat, wtd, members, cyc>>
Next == \/ \E l \in RefreshLists : Refresh(l)
        \/ \E ep \in Eps : Add(ep) \/ Remove(ep)
        \/ \E c \in Codes : Select(c)
Spec == Init /\ [][Next]_vars

\* ------------------------------------------------------------------ properties (C13)
TypeOK == /\ strat \in Strategies /\ wtd \in BOOLEAN
          /\ members \in Seq(Eps)
          /\ \A i, j \in 1..Len(members) : members[i].h = members[j].h => i = j      \* host-deduplicated
          /\ \A k \in 1..Len(cyc) : cyc[k] \in 1..Len(members)
          /\ cur \in Nat /\ last \in Hosts \cup {0, NoSel}
\* a selection returns a member of the current set ...
SelectsMember == last \notin {0, NoSel} => last \in HostsOf(members)
\* ... and fails iff no endpoint is eligible (empty set; weighted consistent hash without a positive weight)
ErrorIffNoneEligible == last # NoSel => ((last = 0) <=> (EligibleIdx(strat, wtd, members) = {}))
NoneEligibleMeans == (EligibleIdx(strat, wtd, members) = {}) <=>
                     (members = <<>> \/ (strat = "conhash" /\ wtd /\ \A i \in 1..Len(members) : members[i].w <= 0))
\* round robin where no static weights apply (weights off, or some member is not of the static type):
\* any N consecutive selections over an unchanged N-set are a permutation
Rotation == (strat = "rr" /\ ~WeightsApply(strat, wtd, members) /\ members # <<>> /\ Len(recent) = Len(members)) =>
              (\A h \in HostsOf(members) : CountIn(recent, h) = 1)
\* round robin with static weights W_i > 0: a full cycle holds endpoint i exactly FormulaCount(W, i) times
WeightedCycle == (strat = "rr" /\ UsesCycle(strat, wtd, members) /\ Len(recent) = Len(cyc)) =>
                   /\ Len(cyc) = FormulaLen(WeightsOf(members))
                   /\ \A i \in 1..Len(members) : CountIn(recent, members[i].h) = FormulaCount(WeightsOf(members), i)
\* every endpoint is in the weighted cycle (whatever the strategy walking it)
CycleCoversAll == cyc # <<>> => \A i \in 1..Len(members) : CountIn(cyc, i) = FormulaCount(WeightsOf(members), i)
====
