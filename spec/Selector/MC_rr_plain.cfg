CONSTANTS Hosts <- H4  Types <- TStatic  Weights <- WOne  StratSet <- SRR  WtSet <- OnlyFalse  RefreshLists <- Lists3  Codes <- C1
SPECIFICATION Spec
INVARIANTS TypeOK SelectsMember ErrorIffNoneEligible NoneEligibleMeans Rotation WeightedCycle CycleCoversAll
CHECK_DEADLOCK FALSE
