---- MODULE Trace_Selector ----
(* Trace validation (B1): goroutines select while others Refresh/Add/Remove on one real selector.  *)
(* Every operation is logged with a begin event "B" (before the call) and an end event "E" (after   *)
(* it, with the result), in the order of the shared recorder.  The operation itself takes effect    *)
(* atomically (the code holds the selector's lock) somewhere between the two: that is the silent    *)
(* action Place(g), which TLC interleaves.  A Select must be placed at a point where its result     *)
(* (known from its end event and copied into the begin event as a prophecy) is what the             *)
(* specification allows for the member list at that point.  Placing a Select does not change the    *)
(* state, so it is placed as early as possible (no loss of generality, and no branching); updates   *)
(* are placed nondeterministically.  Under concurrency the round-robin cursor is not tracked: a     *)
(* Select is judged on membership / error-iff-none-eligible; the final "Burst" (selections by       *)
(* several goroutines while nothing else runs) is judged on rotation.                               *)
(* Runs are concatenated: Cfg ... Reset.                                                            *)
EXTENDS Selector, Json, TLC
CONSTANT Gs             \* goroutine ids
VARIABLES l, pend, placed
Trace == ndJsonDeserialize("trace.ndjson")
tvars == <<vars, l, pend, placed>>
None == [o |-> "none"]
Strat(s) == IF s = "conhashd" THEN "conhash" ELSE s
Ep(op) == [h |-> op.h, w |-> op.w, t |-> op.t]
ListOf(op) == [i \in 1..Len(op.l) |-> [h |-> op.l[i].h, w |-> op.l[i].w, t |-> op.l[i].t]]
Apply(m, op) == IF op.o = "F" THEN Dedup(ListOf(op))
                ELSE IF op.o = "A" THEN AddM(m, Ep(op))
                ELSE RemoveM(m, Ep(op))
\* what a selection may return for member list m (0 = error) when the cursor is unknown
MayReturn(m) == IF EligibleIdx(strat, wtd, m) = {} THEN {0} ELSE HostsOf(m)

TraceInit == /\ Init /\ l = 1 /\ pend = [g \in Gs |-> None] /\ placed = [g \in Gs |-> FALSE]
IsEvent(e) == l <= Len(Trace) /\ Trace[l].e = e /\ l' = l + 1
Fresh == /\ members' = <<>> /\ cyc' = <<>> /\ cur' = 0 /\ recent' = <<>> /\ last' = NoSel
         /\ pend' = [g \in Gs |-> None] /\ placed' = [g \in Gs |-> FALSE]
TCfg == /\ IsEvent("Cfg") /\ \A g \in Gs : pend[g] = None
        /\ strat' = Strat(Trace[l].s) /\ wtd' = Trace[l].wt /\ Fresh
TBegin == /\ IsEvent("B") /\ Trace[l].g \in Gs /\ pend[Trace[l].g] = None
          /\ pend' = [pend EXCEPT ![Trace[l].g] = Trace[l]]
          /\ placed' = [placed EXCEPT ![Trace[l].g] = FALSE]
          /\ UNCHANGED vars
\* the atomic step of a selection: its result is allowed at this point
PlaceSelect(g) == /\ pend[g] # None /\ pend[g].o = "S" /\ ~placed[g]
                  /\ pend[g].r \in MayReturn(members)
                  /\ placed' = [placed EXCEPT ![g] = TRUE]
                  /\ UNCHANGED <<vars, l, pend>>
\* the atomic step of an update
PlaceUpdate(g) == /\ pend[g] # None /\ pend[g].o # "S" /\ ~placed[g]
                  /\ members' = Apply(members, pend[g])
                  /\ placed' = [placed EXCEPT ![g] = TRUE]
                  /\ UNCHANGED <<strat, wtd, cyc, cur, recent, last, l, pend>>
\* an end event: the operation has taken effect, it did not panic, and (Select) reports the prophesied result
TEnd == /\ IsEvent("E") /\ Trace[l].g \in Gs
        /\ pend[Trace[l].g] # None /\ placed[Trace[l].g]
        /\ Trace[l].p = ""
        /\ (pend[Trace[l].g].o = "S" => Trace[l].r = pend[Trace[l].g].r)
        /\ pend' = [pend EXCEPT ![Trace[l].g] = None]
        /\ UNCHANGED <<vars, placed>>
\* selections made while nothing else runs are consecutive selections over an unchanged set
BurstOK(sel) ==
  LET m == members
      T == Len(sel)
  IN /\ \A j \in 1..T : sel[j] \in MayReturn(m)
     /\ (strat = "rr" /\ ~WeightsApply(strat, wtd, m) /\ m # <<>>) =>
           \A a, b \in HostsOf(m) : CountIn(sel, a) - CountIn(sel, b) \in {0 - 1, 0, 1}
     /\ (strat = "rr" /\ UsesCycle(strat, wtd, m)) =>
           \* T consecutive positions of the cycle of length L: q full cycles and a window of r positions, which holds
           \* endpoint i at most min(F_i, r) times and at least r - (L - F_i) times
           LET W == WeightsOf(m)
               L == FormulaLen(W)
               q == T \div L
               r == T % L
           IN \A i \in 1..Len(m) : /\ CountIn(sel, m[i].h) >= q * FormulaCount(W, i) + Max2(0, r - (L - FormulaCount(W, i)))
                                   /\ CountIn(sel, m[i].h) <= q * FormulaCount(W, i) + Min2(FormulaCount(W, i), r)
TBurst == /\ IsEvent("Burst") /\ \A g \in Gs : pend[g] = None
          /\ Trace[l].p = ""
          /\ BurstOK(Trace[l].sel)
          /\ UNCHANGED <<vars, pend, placed>>
TReset == /\ IsEvent("Reset") /\ \A g \in Gs : pend[g] = None
          /\ Fresh /\ UNCHANGED <<strat, wtd>>
Eager == \E g \in Gs : PlaceSelect(g)
TraceNext == IF ENABLED Eager THEN Eager
             ELSE \/ TCfg \/ TBegin \/ TEnd \/ TBurst \/ TReset
                  \/ \E g \in Gs : PlaceUpdate(g)
TraceSpec == TraceInit /\ [][TraceNext]_tvars
MembersOK == \A i, j \in 1..Len(members) : members[i].h = members[j].h => i = j
ASSUME TLCSet(1, 0)
HighWater == (IF l > TLCGet(1) THEN TLCSet(1, l) ELSE TRUE)
TraceAccepted == /\ PrintT(<<"HWM", TLCGet(1), Len(Trace)>>)
                 /\ TLCGet(1) = Len(Trace) + 1
====
