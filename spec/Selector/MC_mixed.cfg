CONSTANTS Hosts <- H3  Types <- TBoth  Weights <- W12  StratSet <- SAll  WtSet <- OnlyTrue  RefreshLists <- Lists1x  Codes <- C3
SPECIFICATION Spec
INVARIANTS TypeOK SelectsMember ErrorIffNoneEligible NoneEligibleMeans Rotation WeightedCycle CycleCoversAll
CHECK_DEADLOCK FALSE
