CONSTANTS Hosts <- H2  Types <- TStatic  Weights <- WOne  StratSet <- SRR  WtSet <- OnlyFalse  RefreshLists <- Lists1  Codes <- C1
CONSTANTS WScope <- WS13  MaxLen = 3
SPECIFICATION WSpec
INVARIANTS FormulaHolds ScaleInRange Monotone
CHECK_DEADLOCK FALSE
