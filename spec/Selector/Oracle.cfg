CONSTANTS Hosts = {1}  Weights = {1}  StratSet = {"rr"}  WtSet = {FALSE}  RefreshLists = {}  Codes = {0}
INIT OInit
NEXT ONext
