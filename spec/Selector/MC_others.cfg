CONSTANTS Hosts <- H3  Types <- TStatic  Weights <- WAll  StratSet <- SOthers  WtSet <- BoolBoth  RefreshLists <- Lists1x  Codes <- C3
SPECIFICATION Spec
INVARIANTS TypeOK SelectsMember ErrorIffNoneEligible NoneEligibleMeans Rotation WeightedCycle CycleCoversAll
CHECK_DEADLOCK FALSE
