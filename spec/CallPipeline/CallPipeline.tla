---------------------------- MODULE CallPipeline ----------------------------
(* One RPC through generated proxy -> client filters -> wire -> server filters -> generated dispatcher ->    *)
(* implementation and back (tars/servant.go TarsInvoke, tars/tarsprotocol.go Invoke, tars/filter.go).        *)
(* Values (arguments, results, context/status maps, errors) are opaque: what matters is that they arrive     *)
(* unchanged.  Filter registration per side: a legacy single filter, or a middleware chain (first            *)
(* registered outermost), or pre filters + call + post filters; every filter passes the call through.        *)
(* Each call has a client-side and a server-side program counter: a two-way caller waits for the reply, a    *)
(* one-way caller returns as soon as the request is on the wire.  Calls are independent and share one proxy. *)
(* The actions take the transported values as parameters: the design (Next) passes what was sent/produced,   *)
(* the trace specification passes what was observed, and the same invariants judge both.                     *)
EXTENDS Integers, Sequences, FiniteSets, TLC
CONSTANTS Calls, Vals,
          CMode, SMode,   \* "none" | "legacy" | "mw" | "prepost"
          NC, NS          \* most filters that get registered per side (mw: chain length; prepost: N pre + N post)
VARIABLES cpc,       \* client side: "idle" | "cin" | "wire" | "wait" | "cout" | "done"
          spc,       \* server side: "none" | "sin" | "impl" | "run" | "sout" | "reply" | "fin"
          kind,      \* "twoway" | "oneway"
          sent, got, produced, returned,
          cfl, sfl,  \* filter event logs per call: sequences of <<phase, index>>
          implCount, replies,
          creg, sreg,  \* filters registered so far per side, <<n_in, n_out>>: a legacy filter or a middleware is entered and left
                       \* (both numbers grow together), pre and post filters are registered separately.  Filters are registered
                       \* while the process runs, between calls, and cannot be unregistered.
          cn, sn       \* per call: what was registered when the call was made
vars == <<cpc, spc, kind, sent, got, produced, returned, cfl, sfl, implCount, replies, creg, sreg, cn, sn>>
None == [ok |-> TRUE, v |-> "none"]
Init == /\ cpc = [c \in Calls |-> "idle"] /\ spc = [c \in Calls |-> "none"] /\ kind = [c \in Calls |-> "twoway"]
        /\ sent = [c \in Calls |-> "none"] /\ got = [c \in Calls |-> "none"]
        /\ produced = [c \in Calls |-> None] /\ returned = [c \in Calls |-> None]
        /\ cfl = [c \in Calls |-> <<>>] /\ sfl = [c \in Calls |-> <<>>]
        /\ implCount = [c \in Calls |-> 0] /\ replies = [c \in Calls |-> 0]
        /\ creg = <<0, 0>> /\ sreg = <<0, 0>> /\ cn = [c \in Calls |-> <<0, 0>>] /\ sn = [c \in Calls |-> <<0, 0>>]
\* the filter events a call has to show, given what was registered when it was made (registration order; a middleware
\* chain and the legacy filter leave in the reverse order).  reg = <<n_in, n_out>>; ExpEv(mode, reg, i) is the i-th event.
\* (Written with arithmetic instead of sequences: the trace specification evaluates this for 48 calls in every state.)
ExpEv(mode, reg, i) == IF i <= reg[1] THEN <<IF mode = "prepost" THEN "pre" ELSE "enter", i>>
                       ELSE IF mode = "prepost" THEN <<"post", i - reg[1]>> ELSE <<"exit", reg[2] + 1 - (i - reg[1])>>
MaxReg(mode, n) == CASE mode = "none" -> 0 [] mode = "legacy" -> 1 [] OTHER -> n
NCI(c) == cn[c][1]   NCO(c) == cn[c][2]   NSI(c) == sn[c][1]   NSO(c) == sn[c][2]    \* how many events on the way in / out
CEv(c, i) == ExpEv(CMode, cn[c], i)   SEv(c, i) == ExpEv(SMode, sn[c], i)

\* ---------------------------------------------------------------- registration (between calls)
Quiet == \A c \in Calls : (cpc[c] = "idle" /\ spc[c] = "none") \/ (cpc[c] = "done" /\ spc[c] = "fin")
RegOK(mode, n, old, new) == /\ new[1] >= old[1] /\ new[2] >= old[2] /\ new[1] <= MaxReg(mode, n) /\ new[2] <= MaxReg(mode, n)
                            /\ (mode # "prepost" => new[1] = new[2])
RegisterC(new) == /\ Quiet /\ RegOK(CMode, NC, creg, new) /\ creg' = new
                  /\ UNCHANGED <<cpc, spc, kind, sent, got, produced, returned, cfl, sfl, implCount, replies, sreg, cn, sn>>
RegisterS(new) == /\ Quiet /\ RegOK(SMode, NS, sreg, new) /\ sreg' = new
                  /\ UNCHANGED <<cpc, spc, kind, sent, got, produced, returned, cfl, sfl, implCount, replies, creg, cn, sn>>

\* ---------------------------------------------------------------- one call
Start(c, k, v) == /\ cpc[c] = "idle" /\ cpc' = [cpc EXCEPT ![c] = "cin"] /\ kind' = [kind EXCEPT ![c] = k] /\ sent' = [sent EXCEPT ![c] = v]
                  /\ cn' = [cn EXCEPT ![c] = creg] /\ sn' = [sn EXCEPT ![c] = sreg]
                  /\ UNCHANGED <<spc, got, produced, returned, cfl, sfl, implCount, replies, creg, sreg>>
\* a client filter event on the way in (ev = the next event of the registered order)
CFilterIn(c, ev) == /\ cpc[c] = "cin" /\ Len(cfl[c]) < NCI(c) /\ cfl' = [cfl EXCEPT ![c] = Append(@, ev)]
                    /\ UNCHANGED <<cpc, spc, kind, sent, got, produced, returned, sfl, implCount, replies, creg, sreg, cn, sn>>
\* (the ...Any forms leave out the guard "every registered filter has been seen": the trace specification takes them when the
\*  recorded run has moved on regardless, and FilterOrder judges the state that results)
CInDoneAny(c) == /\ cpc[c] = "cin" /\ cpc' = [cpc EXCEPT ![c] = "wire"]
                 /\ UNCHANGED <<spc, kind, sent, got, produced, returned, cfl, sfl, implCount, replies, creg, sreg, cn, sn>>
CInDone(c) == Len(cfl[c]) >= NCI(c) /\ CInDoneAny(c)
\* the request goes onto the wire: the server side starts; a one-way caller does not wait
Wire(c) == /\ cpc[c] = "wire" /\ spc' = [spc EXCEPT ![c] = "sin"]
           /\ cpc' = [cpc EXCEPT ![c] = IF kind[c] = "twoway" THEN "wait" ELSE "cout"]
           /\ UNCHANGED <<kind, sent, got, produced, returned, cfl, sfl, implCount, replies, creg, sreg, cn, sn>>
SFilterIn(c, ev) == /\ spc[c] = "sin" /\ Len(sfl[c]) < NSI(c) /\ sfl' = [sfl EXCEPT ![c] = Append(@, ev)]
                    /\ UNCHANGED <<cpc, spc, kind, sent, got, produced, returned, cfl, implCount, replies, creg, sreg, cn, sn>>
SInDoneAny(c) == /\ spc[c] = "sin" /\ spc' = [spc EXCEPT ![c] = "impl"]
                 /\ UNCHANGED <<cpc, kind, sent, got, produced, returned, cfl, sfl, implCount, replies, creg, sreg, cn, sn>>
SInDone(c) == Len(sfl[c]) >= NSI(c) /\ SInDoneAny(c)
ImplCall(c, g) == /\ spc[c] = "impl" /\ got' = [got EXCEPT ![c] = g] /\ implCount' = [implCount EXCEPT ![c] = @ + 1]
                  /\ spc' = [spc EXCEPT ![c] = "run"]
                  /\ UNCHANGED <<cpc, kind, sent, produced, returned, cfl, sfl, replies, creg, sreg, cn, sn>>
ImplRet(c, p) == /\ spc[c] = "run" /\ produced' = [produced EXCEPT ![c] = p] /\ spc' = [spc EXCEPT ![c] = "sout"]
                 /\ UNCHANGED <<cpc, kind, sent, got, returned, cfl, sfl, implCount, replies, creg, sreg, cn, sn>>
SFilterOut(c, ev) == /\ spc[c] = "sout" /\ Len(sfl[c]) < (NSI(c) + NSO(c)) /\ sfl' = [sfl EXCEPT ![c] = Append(@, ev)]
                     /\ UNCHANGED <<cpc, spc, kind, sent, got, produced, returned, cfl, implCount, replies, creg, sreg, cn, sn>>
SOutDoneAny(c) == /\ spc[c] = "sout" /\ spc' = [spc EXCEPT ![c] = "reply"]
                  /\ UNCHANGED <<cpc, kind, sent, got, produced, returned, cfl, sfl, implCount, replies, creg, sreg, cn, sn>>
SOutDone(c) == Len(sfl[c]) >= (NSI(c) + NSO(c)) /\ SOutDoneAny(c)
\* two-way: the reply is written; one-way: nothing is written
ReplyWritten(c) == /\ spc[c] = "reply" /\ kind[c] = "twoway" /\ replies' = [replies EXCEPT ![c] = @ + 1] /\ spc' = [spc EXCEPT ![c] = "fin"]
                   /\ UNCHANGED <<cpc, kind, sent, got, produced, returned, cfl, sfl, implCount, creg, sreg, cn, sn>>
NoReply(c) == /\ spc[c] = "reply" /\ kind[c] = "oneway" /\ spc' = [spc EXCEPT ![c] = "fin"]
              /\ UNCHANGED <<cpc, kind, sent, got, produced, returned, cfl, sfl, implCount, replies, creg, sreg, cn, sn>>
ReplyArrives(c) == /\ cpc[c] = "wait" /\ spc[c] = "fin" /\ cpc' = [cpc EXCEPT ![c] = "cout"]
                   /\ UNCHANGED <<spc, kind, sent, got, produced, returned, cfl, sfl, implCount, replies, creg, sreg, cn, sn>>
CFilterOut(c, ev) == /\ cpc[c] = "cout" /\ Len(cfl[c]) < (NCI(c) + NCO(c)) /\ cfl' = [cfl EXCEPT ![c] = Append(@, ev)]
                     /\ UNCHANGED <<cpc, spc, kind, sent, got, produced, returned, sfl, implCount, replies, creg, sreg, cn, sn>>
\* the proxy call returns r to the caller
EndAny(c, r) == /\ cpc[c] = "cout" /\ returned' = [returned EXCEPT ![c] = r]
                /\ cpc' = [cpc EXCEPT ![c] = "done"]
                /\ UNCHANGED <<spc, kind, sent, got, produced, cfl, sfl, implCount, replies, creg, sreg, cn, sn>>
End(c, r) == Len(cfl[c]) >= (NCI(c) + NCO(c)) /\ EndAny(c, r)
OneWayOk == [ok |-> TRUE, v |-> "oneway"]
Pairs(n) == (0..n) \X (0..n)
Next == \/ \E new \in Pairs(NC) : new # creg /\ RegisterC(new)
        \/ \E new \in Pairs(NS) : new # sreg /\ RegisterS(new)
        \/ \E c \in Calls :
           \/ \E k \in {"twoway", "oneway"}, v \in Vals : Start(c, k, v)
           \/ (Len(cfl[c]) < NCI(c) /\ CFilterIn(c, CEv(c, Len(cfl[c]) + 1))) \/ CInDone(c) \/ Wire(c)
           \/ (Len(sfl[c]) < NSI(c) /\ SFilterIn(c, SEv(c, Len(sfl[c]) + 1))) \/ SInDone(c)
           \/ ImplCall(c, sent[c]) \/ (\E ok \in BOOLEAN, v \in Vals : ImplRet(c, [ok |-> ok, v |-> v]))
           \/ (Len(sfl[c]) - NSI(c) < NSO(c) /\ spc[c] = "sout" /\ SFilterOut(c, SEv(c, Len(sfl[c]) + 1))) \/ SOutDone(c)
           \/ ReplyWritten(c) \/ NoReply(c) \/ ReplyArrives(c)
           \/ (Len(cfl[c]) - NCI(c) < NCO(c) /\ cpc[c] = "cout" /\ CFilterOut(c, CEv(c, Len(cfl[c]) + 1)))
           \/ End(c, IF kind[c] = "twoway" THEN produced[c] ELSE OneWayOk)
Spec == Init /\ [][Next]_vars /\ WF_vars(Next)
\* the usual start-up pattern: everything is registered before the first call
InitFull == /\ cpc = [c \in Calls |-> "idle"] /\ spc = [c \in Calls |-> "none"] /\ kind = [c \in Calls |-> "twoway"]
            /\ sent = [c \in Calls |-> "none"] /\ got = [c \in Calls |-> "none"]
            /\ produced = [c \in Calls |-> None] /\ returned = [c \in Calls |-> None]
            /\ cfl = [c \in Calls |-> <<>>] /\ sfl = [c \in Calls |-> <<>>]
            /\ implCount = [c \in Calls |-> 0] /\ replies = [c \in Calls |-> 0]
            /\ creg = <<MaxReg(CMode, NC), MaxReg(CMode, NC)>> /\ sreg = <<MaxReg(SMode, NS), MaxReg(SMode, NS)>>
            /\ cn = [c \in Calls |-> <<0, 0>>] /\ sn = [c \in Calls |-> <<0, 0>>]
SpecFull == InitFull /\ [][Next]_vars /\ WF_vars(Next)

\* ---------------------------------------------------------------- properties (C01)
\* the implementation receives exactly what the caller passed
ImplSeesCaller == \A c \in Calls : spc[c] \in {"run", "sout", "reply", "fin"} => got[c] = sent[c]
\* a two-way call returns exactly what the implementation produced (on failure: its code and message)
CallerSeesImpl == \A c \in Calls : (cpc[c] = "done" /\ kind[c] = "twoway") => returned[c] = produced[c]
\* the implementation runs exactly once per call; exactly one reply for a two-way call, none for a one-way call
ExactlyOnce == \A c \in Calls : /\ implCount[c] <= 1 /\ replies[c] <= (IF kind[c] = "twoway" THEN 1 ELSE 0)
                                /\ (cpc[c] = "done" /\ kind[c] = "twoway") => (implCount[c] = 1 /\ replies[c] = 1)
                                /\ spc[c] = "fin" => implCount[c] = 1
\* pass-through filters see the call exactly once each, in registration order: the filters that were registered when the
\* call was made -- all of them, also those registered after earlier calls had gone through
FilterOrder == \A c \in Calls : /\ \A i \in 1..Len(cfl[c]) : i <= NCI(c) + NCO(c) /\ cfl[c][i] = CEv(c, i)
                                /\ \A i \in 1..Len(sfl[c]) : i <= NSI(c) + NSO(c) /\ sfl[c][i] = SEv(c, i)
                                /\ cpc[c] \in {"wire", "wait", "cout", "done"} => Len(cfl[c]) >= NCI(c)
                                /\ cpc[c] = "done" => Len(cfl[c]) = (NCI(c) + NCO(c))
                                /\ spc[c] \in {"impl", "run", "sout", "reply", "fin"} => Len(sfl[c]) >= NSI(c)
                                /\ spc[c] \in {"reply", "fin"} => Len(sfl[c]) = (NSI(c) + NSO(c))
TypeOK == /\ \A c \in Calls : Len(cfl[c]) <= (NCI(c) + NCO(c)) /\ Len(sfl[c]) <= (NSI(c) + NSO(c))
          /\ creg \in Pairs(MaxReg(CMode, NC)) /\ sreg \in Pairs(MaxReg(SMode, NS))
          /\ \A c \in Calls : cn[c][1] <= creg[1] /\ cn[c][2] <= creg[2] /\ sn[c][1] <= sreg[1] /\ sn[c][2] <= sreg[2]
\* every call that was started completes on both sides
AllDone == \A c \in Calls : (cpc[c] # "idle") ~> (cpc[c] = "done" /\ spc[c] = "fin")
=============================================================================
