---------------------------- MODULE CallPipeline ----------------------------
(* One RPC through generated proxy -> client filters -> wire -> server filters -> generated dispatcher ->    *)
(* implementation and back (tars/servant.go TarsInvoke, tars/tarsprotocol.go Invoke, tars/filter.go).        *)
(* Values (arguments, results, context/status maps, errors) are opaque: what matters is that they arrive     *)
(* unchanged.  Filter registration per side: a legacy single filter, or a middleware chain (first            *)
(* registered outermost), or pre filters + call + post filters; every filter passes the call through.        *)
(* Each call has a client-side and a server-side program counter: a two-way caller waits for the reply, a    *)
(* one-way caller returns as soon as the request is on the wire.  Calls are independent and share one proxy. *)
(* The actions take the transported values as parameters: the design (Next) passes what was sent/produced,   *)
(* the trace specification passes what was observed, and the same invariants judge both.                     *)
EXTENDS Integers, Sequences, FiniteSets, TLC
CONSTANTS Calls, Vals,
          CMode, SMode,   \* "none" | "legacy" | "mw" | "prepost"
          NC, NS          \* number of filters per side (mw: chain length; prepost: N pre + N post)
VARIABLES cpc,       \* client side: "idle" | "cin" | "wire" | "wait" | "cout" | "done"
          spc,       \* server side: "none" | "sin" | "impl" | "run" | "sout" | "reply" | "fin"
          kind,      \* "twoway" | "oneway"
          sent, got, produced, returned,
          cfl, sfl,  \* filter event logs per call: sequences of <<phase, index>>
          implCount, replies
vars == <<cpc, spc, kind, sent, got, produced, returned, cfl, sfl, implCount, replies>>
None == [ok |-> TRUE, v |-> "none"]
Init == /\ cpc = [c \in Calls |-> "idle"] /\ spc = [c \in Calls |-> "none"] /\ kind = [c \in Calls |-> "twoway"]
        /\ sent = [c \in Calls |-> "none"] /\ got = [c \in Calls |-> "none"]
        /\ produced = [c \in Calls |-> None] /\ returned = [c \in Calls |-> None]
        /\ cfl = [c \in Calls |-> <<>>] /\ sfl = [c \in Calls |-> <<>>]
        /\ implCount = [c \in Calls |-> 0] /\ replies = [c \in Calls |-> 0]
InSeq(mode, n) == CASE mode = "none" -> <<>>
                    [] mode = "legacy" -> << <<"enter", 1>> >>
                    [] mode = "mw" -> [i \in 1..n |-> <<"enter", i>>]
                    [] mode = "prepost" -> [i \in 1..n |-> <<"pre", i>>]
OutSeq(mode, n) == CASE mode = "none" -> <<>>
                     [] mode = "legacy" -> << <<"exit", 1>> >>
                     [] mode = "mw" -> [i \in 1..n |-> <<"exit", n + 1 - i>>]
                     [] mode = "prepost" -> [i \in 1..n |-> <<"post", i>>]
CI == InSeq(CMode, NC)   CO == OutSeq(CMode, NC)   SI == InSeq(SMode, NS)   SO == OutSeq(SMode, NS)

Start(c, k, v) == /\ cpc[c] = "idle" /\ cpc' = [cpc EXCEPT ![c] = "cin"] /\ kind' = [kind EXCEPT ![c] = k] /\ sent' = [sent EXCEPT ![c] = v]
                  /\ UNCHANGED <<spc, got, produced, returned, cfl, sfl, implCount, replies>>
\* a client filter event on the way in (ev = the next event of the registered order)
CFilterIn(c, ev) == /\ cpc[c] = "cin" /\ Len(cfl[c]) < Len(CI) /\ cfl' = [cfl EXCEPT ![c] = Append(@, ev)]
                    /\ UNCHANGED <<cpc, spc, kind, sent, got, produced, returned, sfl, implCount, replies>>
CInDone(c) == /\ cpc[c] = "cin" /\ Len(cfl[c]) >= Len(CI) /\ cpc' = [cpc EXCEPT ![c] = "wire"]
              /\ UNCHANGED <<spc, kind, sent, got, produced, returned, cfl, sfl, implCount, replies>>
\* the request goes onto the wire: the server side starts; a one-way caller does not wait
Wire(c) == /\ cpc[c] = "wire" /\ spc' = [spc EXCEPT ![c] = "sin"]
           /\ cpc' = [cpc EXCEPT ![c] = IF kind[c] = "twoway" THEN "wait" ELSE "cout"]
           /\ UNCHANGED <<kind, sent, got, produced, returned, cfl, sfl, implCount, replies>>
SFilterIn(c, ev) == /\ spc[c] = "sin" /\ Len(sfl[c]) < Len(SI) /\ sfl' = [sfl EXCEPT ![c] = Append(@, ev)]
                    /\ UNCHANGED <<cpc, spc, kind, sent, got, produced, returned, cfl, implCount, replies>>
SInDone(c) == /\ spc[c] = "sin" /\ Len(sfl[c]) >= Len(SI) /\ spc' = [spc EXCEPT ![c] = "impl"]
              /\ UNCHANGED <<cpc, kind, sent, got, produced, returned, cfl, sfl, implCount, replies>>
ImplCall(c, g) == /\ spc[c] = "impl" /\ got' = [got EXCEPT ![c] = g] /\ implCount' = [implCount EXCEPT ![c] = @ + 1]
                  /\ spc' = [spc EXCEPT ![c] = "run"]
                  /\ UNCHANGED <<cpc, kind, sent, produced, returned, cfl, sfl, replies>>
ImplRet(c, p) == /\ spc[c] = "run" /\ produced' = [produced EXCEPT ![c] = p] /\ spc' = [spc EXCEPT ![c] = "sout"]
                 /\ UNCHANGED <<cpc, kind, sent, got, returned, cfl, sfl, implCount, replies>>
SFilterOut(c, ev) == /\ spc[c] = "sout" /\ Len(sfl[c]) < Len(SI) + Len(SO) /\ sfl' = [sfl EXCEPT ![c] = Append(@, ev)]
                     /\ UNCHANGED <<cpc, spc, kind, sent, got, produced, returned, cfl, implCount, replies>>
SOutDone(c) == /\ spc[c] = "sout" /\ Len(sfl[c]) >= Len(SI) + Len(SO) /\ spc' = [spc EXCEPT ![c] = "reply"]
               /\ UNCHANGED <<cpc, kind, sent, got, produced, returned, cfl, sfl, implCount, replies>>
\* two-way: the reply is written; one-way: nothing is written
ReplyWritten(c) == /\ spc[c] = "reply" /\ kind[c] = "twoway" /\ replies' = [replies EXCEPT ![c] = @ + 1] /\ spc' = [spc EXCEPT ![c] = "fin"]
                   /\ UNCHANGED <<cpc, kind, sent, got, produced, returned, cfl, sfl, implCount>>
NoReply(c) == /\ spc[c] = "reply" /\ kind[c] = "oneway" /\ spc' = [spc EXCEPT ![c] = "fin"]
              /\ UNCHANGED <<cpc, kind, sent, got, produced, returned, cfl, sfl, implCount, replies>>
ReplyArrives(c) == /\ cpc[c] = "wait" /\ spc[c] = "fin" /\ cpc' = [cpc EXCEPT ![c] = "cout"]
                   /\ UNCHANGED <<spc, kind, sent, got, produced, returned, cfl, sfl, implCount, replies>>
CFilterOut(c, ev) == /\ cpc[c] = "cout" /\ Len(cfl[c]) < Len(CI) + Len(CO) /\ cfl' = [cfl EXCEPT ![c] = Append(@, ev)]
                     /\ UNCHANGED <<cpc, spc, kind, sent, got, produced, returned, sfl, implCount, replies>>
\* the proxy call returns r to the caller
End(c, r) == /\ cpc[c] = "cout" /\ Len(cfl[c]) >= Len(CI) + Len(CO) /\ returned' = [returned EXCEPT ![c] = r]
             /\ cpc' = [cpc EXCEPT ![c] = "done"]
             /\ UNCHANGED <<spc, kind, sent, got, produced, cfl, sfl, implCount, replies>>
OneWayOk == [ok |-> TRUE, v |-> "oneway"]
Next == \E c \in Calls :
           \/ \E k \in {"twoway", "oneway"}, v \in Vals : Start(c, k, v)
           \/ (Len(cfl[c]) < Len(CI) /\ CFilterIn(c, CI[Len(cfl[c]) + 1])) \/ CInDone(c) \/ Wire(c)
           \/ (Len(sfl[c]) < Len(SI) /\ SFilterIn(c, SI[Len(sfl[c]) + 1])) \/ SInDone(c)
           \/ ImplCall(c, sent[c]) \/ (\E ok \in BOOLEAN, v \in Vals : ImplRet(c, [ok |-> ok, v |-> v]))
           \/ (Len(sfl[c]) - Len(SI) < Len(SO) /\ spc[c] = "sout" /\ SFilterOut(c, SO[Len(sfl[c]) - Len(SI) + 1])) \/ SOutDone(c)
           \/ ReplyWritten(c) \/ NoReply(c) \/ ReplyArrives(c)
           \/ (Len(cfl[c]) - Len(CI) < Len(CO) /\ cpc[c] = "cout" /\ CFilterOut(c, CO[Len(cfl[c]) - Len(CI) + 1]))
           \/ End(c, IF kind[c] = "twoway" THEN produced[c] ELSE OneWayOk)
Spec == Init /\ [][Next]_vars /\ WF_vars(Next)

\* ---------------------------------------------------------------- properties (C01)
\* the implementation receives exactly what the caller passed
ImplSeesCaller == \A c \in Calls : spc[c] \in {"run", "sout", "reply", "fin"} => got[c] = sent[c]
\* a two-way call returns exactly what the implementation produced (on failure: its code and message)
CallerSeesImpl == \A c \in Calls : (cpc[c] = "done" /\ kind[c] = "twoway") => returned[c] = produced[c]
\* the implementation runs exactly once per call; exactly one reply for a two-way call, none for a one-way call
ExactlyOnce == \A c \in Calls : /\ implCount[c] <= 1 /\ replies[c] <= (IF kind[c] = "twoway" THEN 1 ELSE 0)
                                /\ (cpc[c] = "done" /\ kind[c] = "twoway") => (implCount[c] = 1 /\ replies[c] = 1)
                                /\ spc[c] = "fin" => implCount[c] = 1
\* pass-through filters see the call exactly once each, in registration order
FilterOrder == \A c \in Calls : /\ \A i \in 1..Len(cfl[c]) : cfl[c][i] = (CI \o CO)[i]
                                /\ \A i \in 1..Len(sfl[c]) : sfl[c][i] = (SI \o SO)[i]
                                /\ cpc[c] = "done" => Len(cfl[c]) = Len(CI) + Len(CO)
                                /\ spc[c] = "fin" => Len(sfl[c]) = Len(SI) + Len(SO)
TypeOK == \A c \in Calls : Len(cfl[c]) <= Len(CI) + Len(CO) /\ Len(sfl[c]) <= Len(SI) + Len(SO)
AllDone == <>(\A c \in Calls : cpc[c] \in {"idle", "done"} /\ spc[c] \in {"none", "fin"})
=============================================================================
