---- MODULE Trace_CallPipeline ----
(* Trace validation for C01.  One TLC run = the runs of one filter configuration (a child process).       *)
(* Events: CallStart{c, oneway, sent}  CF{c, ph, i}  SF{c, ph, i}  Impl{c, got}  ImplRet{c, ok, v}           *)
(*         Written{c} (server hook: reply written)  CallEnd{c, ok, v}  Reset                                 *)
(* sent / got / v are canonical strings of (arguments, context, status) resp. (ret, outs, response context,  *)
(* status) resp. (error code, message): equality is decided here, not in the harness.                        *)
EXTENDS CallPipeline, Json
VARIABLES l, wseen    \* wseen[c]: replies the server hook saw written for call c
Trace == ndJsonDeserialize("trace.ndjson")
tvars == <<vars, l, wseen>>
TraceInit == Init /\ l = 1 /\ wseen = [c \in Calls |-> 0]
\* the unlogged steps of one call commute with everything of other calls and never disable a logged event: they are
\* taken eagerly and only for the call the next event speaks about (before a Reset: for the least call that still has
\* one), which keeps validation linear in the length of the trace
SilentFor(c) == CInDone(c) \/ Wire(c) \/ SInDone(c) \/ SOutDone(c) \/ ReplyWritten(c) \/ NoReply(c) \/ ReplyArrives(c)
\* (written out as a state predicate: ENABLED inside an action is not evaluated reliably by TLC)
HasSilent(c) == \/ cpc[c] = "cin" /\ Len(cfl[c]) >= Len(CI)
                \/ cpc[c] = "wire"
                \/ spc[c] = "sin" /\ Len(sfl[c]) >= Len(SI)
                \/ spc[c] = "sout" /\ Len(sfl[c]) >= Len(SI) + Len(SO)
                \/ spc[c] = "reply"
                \/ cpc[c] = "wait" /\ spc[c] = "fin"
IsEvent(e) == /\ l <= Len(Trace) /\ Trace[l].e = e /\ l' = l + 1
              /\ ("c" \in DOMAIN Trace[l]) => ~HasSilent(Trace[l].c)
KeepW == UNCHANGED wseen
TStart == KeepW /\ IsEvent("CallStart") /\ Start(Trace[l].c, IF Trace[l].oneway THEN "oneway" ELSE "twoway", Trace[l].sent)
Ev == <<Trace[l].ph, Trace[l].i>>
TCF == KeepW /\ IsEvent("CF") /\ (CFilterIn(Trace[l].c, Ev) \/ CFilterOut(Trace[l].c, Ev))
TSF == KeepW /\ IsEvent("SF") /\ (SFilterIn(Trace[l].c, Ev) \/ SFilterOut(Trace[l].c, Ev))
TImpl == KeepW /\ IsEvent("Impl") /\ ImplCall(Trace[l].c, Trace[l].got)
TImplRet == KeepW /\ IsEvent("ImplRet") /\ ImplRet(Trace[l].c, [ok |-> Trace[l].ok, v |-> Trace[l].v])
\* the hook after conn.Write may be recorded after the client has already seen the reply: the write itself is a silent
\* step, the event is counted and judged (at most one reply for a two-way call, none for a one-way call)
TWritten == /\ IsEvent("Written") /\ wseen' = [wseen EXCEPT ![Trace[l].c] = @ + 1] /\ UNCHANGED vars
TEnd == KeepW /\ IsEvent("CallEnd") /\ End(Trace[l].c, [ok |-> Trace[l].ok, v |-> Trace[l].v])
\* end of a run (the harness waited for the server side of one-way calls): every call reached the implementation once
TReset == /\ IsEvent("Reset")
          /\ \A c \in Calls : cpc[c] \in {"idle", "done"} /\ (cpc[c] = "done" => spc[c] = "fin")
          /\ \A c \in Calls : wseen[c] = replies[c]
          /\ wseen' = [c \in Calls |-> 0]
          /\ cpc' = [c \in Calls |-> "idle"] /\ spc' = [c \in Calls |-> "none"] /\ kind' = [c \in Calls |-> "twoway"]
          /\ sent' = [c \in Calls |-> "none"] /\ got' = [c \in Calls |-> "none"]
          /\ produced' = [c \in Calls |-> None] /\ returned' = [c \in Calls |-> None]
          /\ cfl' = [c \in Calls |-> <<>>] /\ sfl' = [c \in Calls |-> <<>>]
          /\ implCount' = [c \in Calls |-> 0] /\ replies' = [c \in Calls |-> 0]
TSilent == /\ l <= Len(Trace)
           /\ \E c \in Calls :
                /\ IF Trace[l].e = "Reset" THEN HasSilent(c) /\ \A d \in Calls : d < c => ~HasSilent(d) ELSE c = Trace[l].c
                /\ SilentFor(c)
           /\ UNCHANGED <<l, wseen>>
TraceNext == TStart \/ TCF \/ TSF \/ TImpl \/ TImplRet \/ TWritten \/ TEnd \/ TReset \/ TSilent
TraceSpec == TraceInit /\ [][TraceNext]_tvars
ASSUME TLCSet(1, 0)
HighWater == (IF l > TLCGet(1) THEN TLCSet(1, l) ELSE TRUE)
TraceAccepted == /\ PrintT(<<"HWM", TLCGet(1), Len(Trace)>>)
                 /\ TLCGet(1) = Len(Trace) + 1
CallIds == 1..48
WrittenOK == \A c \in Calls : wseen[c] <= (IF kind[c] = "twoway" /\ cpc[c] # "idle" THEN 1 ELSE 0)
====
