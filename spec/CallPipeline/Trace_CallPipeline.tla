---- MODULE Trace_CallPipeline ----
(* Trace validation for C01.  One TLC run = the runs of one filter configuration (a child process).       *)
(* Events: CallStart{c, oneway, sent}  CF{c, ph, i}  SF{c, ph, i}  Impl{c, got}  ImplRet{c, ok, v}           *)
(*         Written{c} (server hook: reply written)  CallEnd{c, ok, v}                                        *)
(*         Reg{side, nin, nout} (the harness has registered filters: from now on nin / nout on that side)    *)
(*         Reset (end of a run; the next run states what is registered by Reg events of its own)             *)
(* sent / got / v are canonical strings of (arguments, context, status) resp. (ret, outs, response context,  *)
(* status) resp. (error code, message): equality is decided here, not in the harness.                        *)
EXTENDS CallPipeline, Json
VARIABLES l, wseen    \* wseen[c]: replies the server hook saw written for call c
Trace == ndJsonDeserialize("trace.ndjson")
tvars == <<vars, l, wseen>>
TraceInit == Init /\ l = 1 /\ wseen = [c \in Calls |-> 0]
Cur == Trace[l]
About(c) == "c" \in DOMAIN Cur /\ Cur.c = c
Boundary == Cur.e \in {"Reset", "Reg"}     \* the harness waited until nothing was under way
\* What the next recorded event says about the progress of call c.  A call that has moved on although not every filter
\* registered at its start has been seen is taken along (the ...Any steps) and judged by FilterOrder; an event of the
\* server side, the reply or the end of the call say that the client's filters on the way in are behind it, and so on.
PastCIn(c) == Boundary \/ (About(c) /\ Cur.e \in {"SF", "Impl", "ImplRet", "Written", "CallEnd"})
PastSIn(c) == About(c) /\ Cur.e \in {"Impl", "ImplRet"}
PastSOut(c) == Boundary \/ (About(c) /\ (Cur.e = "Written" \/ (Cur.e = "CallEnd" /\ kind[c] = "twoway")))
CInGo(c) == cpc[c] = "cin" /\ (Len(cfl[c]) >= NCI(c) \/ PastCIn(c))
SInGo(c) == spc[c] = "sin" /\ (Len(sfl[c]) >= NSI(c) \/ PastSIn(c))
SOutGo(c) == spc[c] = "sout" /\ (Len(sfl[c]) >= (NSI(c) + NSO(c)) \/ PastSOut(c))
\* the unlogged steps of one call commute with everything of other calls and never disable a logged event: they are
\* taken eagerly and only for the call the next event speaks about (before a Reset or Reg: for the least call that still
\* has one), which keeps validation linear in the length of the trace
SilentFor(c) == \/ (CInGo(c) /\ CInDoneAny(c)) \/ Wire(c) \/ (SInGo(c) /\ SInDoneAny(c)) \/ (SOutGo(c) /\ SOutDoneAny(c))
                \/ ReplyWritten(c) \/ NoReply(c) \/ ReplyArrives(c)
\* (written out as a state predicate: ENABLED inside an action is not evaluated reliably by TLC)
HasSilent(c) == \/ CInGo(c)
                \/ cpc[c] = "wire"
                \/ SInGo(c)
                \/ SOutGo(c)
                \/ spc[c] = "reply"
                \/ cpc[c] = "wait" /\ spc[c] = "fin"
\* an event that cannot be attributed to a call of the run (c outside Calls) is not a step of the specification
IsEvent(e) == /\ l <= Len(Trace) /\ Cur.e = e /\ l' = l + 1
              /\ ("c" \in DOMAIN Cur) => (Cur.c \in Calls /\ ~HasSilent(Cur.c))
KeepW == UNCHANGED wseen
TStart == KeepW /\ IsEvent("CallStart") /\ Start(Cur.c, IF Cur.oneway THEN "oneway" ELSE "twoway", Cur.sent)
Ev == <<Cur.ph, Cur.i>>
TCF == KeepW /\ IsEvent("CF") /\ (CFilterIn(Cur.c, Ev) \/ CFilterOut(Cur.c, Ev))
TSF == KeepW /\ IsEvent("SF") /\ (SFilterIn(Cur.c, Ev) \/ SFilterOut(Cur.c, Ev))
TImpl == KeepW /\ IsEvent("Impl") /\ ImplCall(Cur.c, Cur.got)
TImplRet == KeepW /\ IsEvent("ImplRet") /\ ImplRet(Cur.c, [ok |-> Cur.ok, v |-> Cur.v])
\* the hook after conn.Write may be recorded after the client has already seen the reply: the write itself is a silent
\* step, the event is counted and judged (at most one reply for a two-way call, none for a one-way call)
TWritten == /\ IsEvent("Written") /\ wseen' = [wseen EXCEPT ![Cur.c] = @ + 1] /\ UNCHANGED vars
TEnd == KeepW /\ IsEvent("CallEnd") /\ EndAny(Cur.c, [ok |-> Cur.ok, v |-> Cur.v])
\* filters registered between calls
TReg == /\ KeepW /\ IsEvent("Reg")
        /\ IF Cur.side = "c" THEN RegisterC(<<Cur.nin, Cur.nout>>) ELSE RegisterS(<<Cur.nin, Cur.nout>>)
\* end of a run (the harness waited for the server side of one-way calls): every call reached the implementation once
TReset == /\ IsEvent("Reset")
          /\ \A c \in Calls : cpc[c] \in {"idle", "done"} /\ (cpc[c] = "done" => spc[c] = "fin")
          /\ \A c \in Calls : wseen[c] = replies[c]
          /\ wseen' = [c \in Calls |-> 0]
          /\ cpc' = [c \in Calls |-> "idle"] /\ spc' = [c \in Calls |-> "none"] /\ kind' = [c \in Calls |-> "twoway"]
          /\ sent' = [c \in Calls |-> "none"] /\ got' = [c \in Calls |-> "none"]
          /\ produced' = [c \in Calls |-> None] /\ returned' = [c \in Calls |-> None]
          /\ cfl' = [c \in Calls |-> <<>>] /\ sfl' = [c \in Calls |-> <<>>]
          /\ implCount' = [c \in Calls |-> 0] /\ replies' = [c \in Calls |-> 0]
          /\ creg' = <<0, 0>> /\ sreg' = <<0, 0>> /\ cn' = [c \in Calls |-> <<0, 0>>] /\ sn' = [c \in Calls |-> <<0, 0>>]
TSilent == /\ l <= Len(Trace)
           /\ \E c \in Calls :
                /\ IF Boundary THEN HasSilent(c) /\ \A d \in Calls : d < c => ~HasSilent(d) ELSE About(c)
                /\ SilentFor(c)
           /\ UNCHANGED <<l, wseen>>
TraceNext == TStart \/ TCF \/ TSF \/ TImpl \/ TImplRet \/ TWritten \/ TEnd \/ TReg \/ TReset \/ TSilent
TraceSpec == TraceInit /\ [][TraceNext]_tvars
ASSUME TLCSet(1, 0)
HighWater == (IF l > TLCGet(1) THEN TLCSet(1, l) ELSE TRUE)
TraceAccepted == /\ PrintT(<<"HWM", TLCGet(1), Len(Trace)>>)
                 /\ TLCGet(1) = Len(Trace) + 1
CallIds == 1..48
WrittenOK == \A c \in Calls : wseen[c] <= (IF kind[c] = "twoway" /\ cpc[c] # "idle" THEN 1 ELSE 0)
====
