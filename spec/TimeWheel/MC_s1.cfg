CONSTANTS Size = 1  Waiters = {1,2,3}  MaxQ = 2  MaxTicks = 4
SPECIFICATION Spec
INVARIANTS TypeOK WheelLive DueExact NeverEarly WaitBound ShareIffSameDue Panicked
CONSTRAINT Bound
CHECK_DEADLOCK FALSE
