---- MODULE Trace_TimeWheel ----
(* Trace validation: runs of the real rtimer.TimeWheel recorded by twdrive (After and Tick from the hooks under      *)
(* tw.lock, Fired when a waiter's receive returns) must be behaviours of TimeWheel; the close after the unlock is the *)
(* only unlogged step.  Runs are separated by Reset; at a Reset every waiter that is due has fired.                    *)
EXTENDS TimeWheel, Json, Sequences
VARIABLE l
Trace == ndJsonDeserialize("trace.ndjson")
tvars == <<vars, l>>
TraceInit == Init /\ l = 1
IsEvent(e) == l <= Len(Trace) /\ Trace[l].e = e /\ l' = l + 1
SeqToSet(s) == {s[i] : i \in 1 .. Len(s)}
TAfter == /\ IsEvent("After")
          /\ LET ev == Trace[l]
                 s == (cur + Pos(ev.q)) % Size IN
             /\ After(ev.w, ev.q)
             /\ ev.slot = s /\ ev.cur = cur
             /\ SeqToSet(ev.same) = {v \in Waiters : Registered(v) /\ reg[v].ch = wheel[s]}
TAfterPanic == IsEvent("AfterPanic") /\ AfterPanic(Trace[l].w, Trace[l].q)
TTick == IsEvent("Tick") /\ TickSwap /\ cur' = Trace[l].cur
TFired == IsEvent("Fired") /\ Fired(Trace[l].w)
\* end of a run: the ticker was stopped after every waiter had come due, and the harness waited for the receives
TReset == /\ IsEvent("Reset")
          /\ pend = 0
          /\ \A w \in Waiters : Registered(w) /\ ticks >= reg[w].due => w \in fired
          /\ cur' = 0 /\ wheel' = [s \in Slots |-> s + 1] /\ nextCh' = Size + 1 /\ pend' = 0 /\ closed' = {}
          /\ ticks' = 0 /\ reg' = [w \in Waiters |-> NoReg] /\ fired' = {} /\ panics' = {}
TSilent == Silent /\ UNCHANGED l
TraceNext == TAfter \/ TAfterPanic \/ TTick \/ TFired \/ TReset \/ TSilent
TraceSpec == TraceInit /\ [][TraceNext]_tvars
ASSUME TLCSet(1, 0)
HighWater == (IF l > TLCGet(1) THEN TLCSet(1, l) ELSE TRUE)
TraceAccepted == /\ PrintT(<<"HWM", TLCGet(1), Len(Trace)>>)
                 /\ TLCGet(1) = Len(Trace) + 1
====
