---- MODULE TimeWheel ----
(***************************************************************************************************)
(* The timing wheel behind the client's read and write timeouts (tars/util/rtimer/timewheel.go):    *)
(* AdapterProxy.Recv gives a reply up after rtimer.After(ReadTimeout), TarsClient.Send gives a full *)
(* send queue up after rtimer.After(WriteTimeout).  One wheel per distinct duration, Size slots, one *)
(* channel per slot; a waiter takes the channel of the slot `pos` ticks ahead, the ticker goroutine  *)
(* replaces the channel of the current slot under the lock and closes the old one afterwards.        *)
(*                                                                                                   *)
(* One action per critical section of the code:                                                      *)
(*   After(w, q)   TimeWheel.After under tw.lock (q = timeout / tick, the quotient the code computes)*)
(*   AfterPanic    the guard `timeout >= maxT`                                                       *)
(*   TickSwap      run(): under tw.lock, slot channel replaced, currPos advanced                     *)
(*   TickClose     run(): close(oldestC), after the unlock                                           *)
(*   Fired(w)      the waiter's receive from its channel succeeds (possible only once it is closed)  *)
(* Time is counted in swaps (`ticks`): a waiter registered after swap n is `due` at swap n + pos + 1, *)
(* i.e. between pos and pos+1 tick lengths after its call.                                           *)
(***************************************************************************************************)
EXTENDS Integers, FiniteSets, TLC

CONSTANTS Size,     \* slots of the wheel
          Waiters,  \* identities of After calls
          MaxQ      \* largest quotient timeout / tick tried

ASSUME Size \in Nat \ {0} /\ MaxQ \in Nat

VARIABLES cur,    \* currPos
          wheel,  \* slot -> channel (channels are numbered in order of creation)
          nextCh, \* next unused channel number
          pend,   \* channel taken out of the wheel and not closed yet (0: none)
          closed, \* channels closed
          ticks,  \* swaps so far
          reg,    \* waiter -> [ch, due, q, at] or NoReg
          fired,  \* waiters whose receive has returned
          panics  \* waiters whose After panicked

vars == <<cur, wheel, nextCh, pend, closed, ticks, reg, fired, panics>>

Slots == 0 .. Size - 1
NoReg == [ch |-> 0, due |-> 0, q |-> 0, at |-> 0]
Registered(w) == reg[w].ch # 0

\* what After computes from the quotient: one slot less than the quotient, so that the wait never outlasts the timeout
Pos(q) == IF q > 0 THEN q - 1 ELSE 0

Init == /\ cur = 0
        /\ wheel = [s \in Slots |-> s + 1]
        /\ nextCh = Size + 1
        /\ pend = 0
        /\ closed = {}
        /\ ticks = 0
        /\ reg = [w \in Waiters |-> NoReg]
        /\ fired = {}
        /\ panics = {}

After(w, q) == /\ ~Registered(w) /\ w \notin panics
               /\ q < Size                      \* timeout < maxT
               /\ LET s == (cur + Pos(q)) % Size IN
                  reg' = [reg EXCEPT ![w] = [ch |-> wheel[s], due |-> ticks + Pos(q) + 1, q |-> q, at |-> ticks]]
               /\ UNCHANGED <<cur, wheel, nextCh, pend, closed, ticks, fired, panics>>

AfterPanic(w, q) == /\ ~Registered(w) /\ w \notin panics
                    /\ q >= Size
                    /\ panics' = panics \cup {w}
                    /\ UNCHANGED <<cur, wheel, nextCh, pend, closed, ticks, reg, fired>>

TickSwap == /\ pend = 0                         \* one ticker goroutine: the previous close has happened
            /\ pend' = wheel[cur]
            /\ wheel' = [wheel EXCEPT ![cur] = nextCh]
            /\ nextCh' = nextCh + 1
            /\ cur' = (cur + 1) % Size
            /\ ticks' = ticks + 1
            /\ UNCHANGED <<closed, reg, fired, panics>>

TickClose == /\ pend # 0
             /\ closed' = closed \cup {pend}
             /\ pend' = 0
             /\ UNCHANGED <<cur, wheel, nextCh, ticks, reg, fired, panics>>

Fired(w) == /\ Registered(w) /\ w \notin fired
            /\ reg[w].ch \in closed
            /\ fired' = fired \cup {w}
            /\ UNCHANGED <<cur, wheel, nextCh, pend, closed, ticks, reg, panics>>

Silent == TickClose

Next == \/ \E w \in Waiters, q \in 0 .. MaxQ : After(w, q) \/ AfterPanic(w, q)
        \/ TickSwap \/ TickClose
        \/ \E w \in Waiters : Fired(w)

Spec == Init /\ [][Next]_vars

----
TypeOK == /\ cur \in Slots
          /\ wheel \in [Slots -> 1 .. nextCh - 1]
          /\ pend \in 0 .. nextCh - 1
          /\ closed \subseteq 1 .. nextCh - 1
          /\ ticks \in Nat
          /\ fired \subseteq Waiters /\ panics \subseteq Waiters

\* the channel a waiter is handed is never one that is already closed or about to be: the wheel holds live channels only
WheelLive == /\ \A s \in Slots : wheel[s] \notin closed /\ wheel[s] # pend
             /\ \A s, t \in Slots : s # t => wheel[s] # wheel[t]

\* a waiter's channel goes out of the wheel at exactly the swap it is due at: not a tick earlier, not a tick later
DueExact == \A w \in Waiters : Registered(w) =>
               ((reg[w].ch \in closed \/ reg[w].ch = pend) <=> ticks >= reg[w].due)

NeverEarly == \A w \in fired : ticks >= reg[w].due

\* in tick lengths: the wait lasts more than due - at - 1 and at most due - at ticks.  With a quotient of at least one
\* that is within (q - 1, q]: never longer than the timeout, shorter by less than one tick; below one tick it is (0, 1].
WaitBound == \A w \in Waiters : Registered(w) =>
                /\ reg[w].due - reg[w].at = (IF reg[w].q > 0 THEN reg[w].q ELSE 1)

\* waiters share a channel exactly when they are due at the same swap
ShareIffSameDue == \A v, w \in Waiters : Registered(v) /\ Registered(w) =>
                      (reg[v].ch = reg[w].ch <=> reg[v].due = reg[w].due)

Panicked == \A w \in panics : ~Registered(w)

----
(* The package-level After(t): one wheel per duration with tick t / accuracy and accuracy + 1 slots. *)
PkgTick(t, a) == t \div a
PkgSize(a) == a + 1
PkgQ(t, a) == t \div PkgTick(t, a)
\* time.NewTicker panics for a non-positive tick; After panics when the quotient does not fit into the wheel
PkgPanics(t, a) == PkgTick(t, a) <= 0 \/ PkgQ(t, a) >= PkgSize(a)
\* every duration that is a multiple of the accuracy (every whole number of milliseconds is one of 20 ns) is served,
\* with quotient = accuracy: the wait lasts between t - t/accuracy and t
PkgLemma == \A a \in 1 .. 40, k \in 1 .. 60 : ~PkgPanics(k * a, a) /\ PkgQ(k * a, a) = a
====
