---- MODULE MC_TimeWheel ----
EXTENDS TimeWheel
CONSTANT MaxTicks
Bound == ticks <= MaxTicks
ASSUME PkgLemma
====
