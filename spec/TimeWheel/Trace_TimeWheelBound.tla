---- MODULE Trace_TimeWheelBound ----
(* What C09 needs of the timing wheel, and no more: a wait that was asked for with quotient q (timeout below (q+1) ticks,   *)
(* asked between two ticks) is over by the (q+2)-th tick after the one before the call, and a timeout that fits into the   *)
(* wheel is served, not answered with a panic.  Traces that the exact specification (Trace_TimeWheel) rejects are judged   *)
(* once more against this one: only what it rejects as well is a verdict, the rest is a deviation in arithmetic that keeps  *)
(* the bound (recorded as an observation).                                                                                  *)
EXTENDS Integers, Sequences, FiniteSets, TLC, Json
CONSTANTS Size, Waiters
VARIABLES ticks, due, fired, l
Trace == ndJsonDeserialize("trace.ndjson")
vars == <<ticks, due, fired, l>>
TraceInit == ticks = 0 /\ due = [w \in Waiters |-> 0] /\ fired = {} /\ l = 1
IsEvent(e) == l <= Len(Trace) /\ Trace[l].e = e /\ l' = l + 1
BAfter == /\ IsEvent("After")
          /\ due' = [due EXCEPT ![Trace[l].w] = ticks + Trace[l].q + 2]
          /\ UNCHANGED <<ticks, fired>>
BAfterPanic == IsEvent("AfterPanic") /\ Trace[l].q >= Size /\ UNCHANGED <<ticks, due, fired>>
BTick == IsEvent("Tick") /\ ticks' = ticks + 1 /\ UNCHANGED <<due, fired>>
BFired == IsEvent("Fired") /\ fired' = fired \cup {Trace[l].w} /\ UNCHANGED <<ticks, due>>
BReset == /\ IsEvent("Reset")
          /\ \A w \in Waiters : due[w] # 0 /\ ticks >= due[w] => w \in fired
          /\ ticks' = 0 /\ due' = [w \in Waiters |-> 0] /\ fired' = {}
TraceNext == BAfter \/ BAfterPanic \/ BTick \/ BFired \/ BReset
TraceSpec == TraceInit /\ [][TraceNext]_vars
ASSUME TLCSet(1, 0)
HighWater == (IF l > TLCGet(1) THEN TLCSet(1, l) ELSE TRUE)
TraceAccepted == /\ PrintT(<<"HWM", TLCGet(1), Len(Trace)>>)
                 /\ TLCGet(1) = Len(Trace) + 1
====
