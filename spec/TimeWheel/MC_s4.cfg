CONSTANTS Size = 4  Waiters = {1,2,3}  MaxQ = 5  MaxTicks = 10
SPECIFICATION Spec
INVARIANTS TypeOK WheelLive DueExact NeverEarly WaitBound ShareIffSameDue Panicked
CONSTRAINT Bound
CHECK_DEADLOCK FALSE
