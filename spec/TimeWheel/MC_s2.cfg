CONSTANTS Size = 2  Waiters = {1,2,3}  MaxQ = 3  MaxTicks = 6
SPECIFICATION Spec
INVARIANTS TypeOK WheelLive DueExact NeverEarly WaitBound ShareIffSameDue Panicked
CONSTRAINT Bound
CHECK_DEADLOCK FALSE
