CONSTANTS Size = 3  Waiters = {1,2,3}  MaxQ = 4  MaxTicks = 8
SPECIFICATION Spec
INVARIANTS TypeOK WheelLive DueExact NeverEarly WaitBound ShareIffSameDue Panicked
CONSTRAINT Bound
CHECK_DEADLOCK FALSE
