CONSTANTS Size = 1  Waiters = {1}  MaxQ = 0
INIT OInit
NEXT ONext
