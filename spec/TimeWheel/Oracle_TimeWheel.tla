---- MODULE Oracle_TimeWheel ----
(* Batch oracle for the package-level arithmetic: records {t, a, panic, ahead} from the real NewTimeWheel(t/a, a+1) +  *)
(* After(t); the reference says which pairs panic and how many slots ahead of currPos the waiter is put.               *)
EXTENDS TimeWheel, Json, Sequences
Recs == ndJsonDeserialize("recs.ndjson")
Good(r) == /\ r.panic = PkgPanics(r.t, r.a)
           /\ ~r.panic => r.ahead = Pos(PkgQ(r.t, r.a))
Bad == {i \in 1 .. Len(Recs) : ~Good(Recs[i])}
ASSUME PrintT(<<"ORACLE", Len(Recs), Bad>>)
OInit == Init
ONext == UNCHANGED vars
====
