---- MODULE Oracle_OneWay ----
(* One-way calls take the path of every other call up to the send (ClientMux: Pre, Register, Send) and leave by it without  *)
(* waiting; what C09 says of every call holds for them: it returns within its bound, and at quiescence the proxy's queue      *)
(* length, the manager's in-flight count and the pending-reply table are back at their previous values (NoResidue).           *)
(* Records {peer, mode, calls, oneway, errs, maxms, boundms, before, after} from muxdrive oneway.                             *)
EXTENDS Integers, Sequences, TLC, Json
VARIABLE dummy
Recs == ndJsonDeserialize("recs.ndjson")
InTime(r) == r.maxms <= r.boundms
NoResidue(r) == r.after = r.before
Ran(r) == r.calls > 0 /\ r.oneway > 0
Good(r) == Ran(r) /\ InTime(r) /\ NoResidue(r)
Bad == {i \in 1 .. Len(Recs) : ~Good(Recs[i])}
ASSUME PrintT(<<"ORACLE", Len(Recs), Bad>>)
OInit == dummy = 0
ONext == UNCHANGED dummy
====
