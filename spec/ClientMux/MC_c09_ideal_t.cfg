CONSTANTS Callers <- C3  MaxId = 4  StartIds = {3}  NPkts = 3  Foreign <- F0  QMax = 9  Timed = TRUE  TO <- TO3b  DialBound = 2  ReadTO = 1  Horizon = 9  SerialDial = FALSE  DialModes <- AllModes  MayClose = TRUE  RecvOffers = TRUE  Stamp = FALSE  InlineRecv = FALSE  Transient <- LocalAll
SPECIFICATION Spec
INVARIANTS TypeOK ReplyMatches IdNonZero IdsDistinct OnePacketOneCaller AcctQueue AcctMgr AcctResp NoResidue DeadlineInv
PROPERTIES LateReplyHarmless OnlyAddressee
CHECK_DEADLOCK FALSE
