------------------------------- MODULE IdGen -------------------------------
(* The request id generator of tars/servant.go (genRequestID) over an id space MinId..MaxId (MaxId stands for     *)
(* maxInt32): CompareAndSwap(max -> 1), then Add(1) repeated while the result is 0; the addition wraps like int32.  *)
EXTENDS Integers, Sequences, FiniteSets
CONSTANT MaxId
MinId == -MaxId - 1
Ids == MinId..MaxId
CasStep(m) == IF m = MaxId THEN 1 ELSE m
AddStep(m) == IF m = MaxId THEN MinId ELSE m + 1
\* one complete, uninterrupted call: the id returned (= the new counter value)
RECURSIVE AddUntilNonZero(_)
AddUntilNonZero(m) == LET v == AddStep(m) IN IF v # 0 THEN v ELSE AddUntilNonZero(v)
Draw(m) == AddUntilNonZero(CasStep(m))
RECURSIVE SeqFrom(_, _)
SeqFrom(m, n) == IF n = 0 THEN <<>> ELSE LET v == Draw(m) IN <<v>> \o SeqFrom(v, n - 1)
\* ids that n concurrent calls may obtain from counter value m (a CAS that runs while the counter is not at the
\* maximum does nothing, so at the maximum both continuations exist: 2, 3, ... and MinId, MinId + 1, ...)
RECURSIVE Reach(_, _)
Reach(m, n) == IF n = 0 THEN {}
               ELSE IF m = MaxId THEN ({2} \cup Reach(2, n - 1)) \cup ({MinId} \cup Reach(MinId, n - 1))
               ELSE LET v == AddUntilNonZero(m) IN {v} \cup Reach(v, n - 1)
=============================================================================
