----------------------------- MODULE ClientFilt -----------------------------
(* The client filter stage of TarsInvoke (tars/servant.go): between preInvoke and postInvoke the call is handed to *)
(* user code -- the registered client filter (RegisterClientFilter), the middleware chain                           *)
(* (UseClientFilterMiddleware), or the pre filters, doInvoke, the post filters (RegisterPre/PostClientFilter) --    *)
(* and that code need not be transparent.  Whatever it does, C09 asks that a call that has returned holds nothing:  *)
(*   reject    the stage ends the call without invoking (an error before the call, or nil without any call)         *)
(*   override  the stage invokes and then returns an outcome of its own (an error after the call)                   *)
(*   again     the stage invokes once more with the same message (a retrying filter; a pre / post filter that uses   *)
(*             the invoke function it is given, so that doInvoke runs before / after the framework's own call)      *)
(* A panic of the stage is not a step of this model: TarsInvoke's deferred CheckPanic turns any panic below it into  *)
(* os.Exit(-1) -- no call of the process returns after it, so the statement has nothing to say about it.             *)
(* ClientMux is the model of everything else; this module adds the steps of the stage to its caller process.        *)
EXTENDS ClientMux
CONSTANTS FilterActs,    \* what the stage may do besides passing the call on: a subset of {"reject", "override", "again"}
          MaxPasses,     \* bound on the number of times the stage invokes for one call (model checking only)
          RejectPosts    \* TRUE: as the code (postInvoke follows the stage on every path).  FALSE: a call ended by the stage
                         \* without invoking leaves before postInvoke -- kept for non-vacuity (must violate NoResidue)
VARIABLE passes          \* per caller: how often the stage has invoked again
fvars == <<vars, passes>>

InitF == Init /\ passes = [c \in Callers |-> 0]

FilterReject(c) == /\ "reject" \in FilterActs /\ pc[c] = "sel"
                   /\ Finish(c, "filtered", 0) /\ Goto(c, IF RejectPosts THEN "post" ELSE "done")
                   /\ UNCHANGED <<eff, msgID, cid, st, resp, queueLen, mgrInvoke, tInvoke, conn, dialer, dmode, dialT, sendQ, wire, seen, pkt, rst, rch, lookT, now>>
FilterOverride(c) == /\ "override" \in FilterActs /\ pc[c] = "post" /\ out[c].k \notin {"filtered", "none"}
                     /\ Finish(c, "filtered", 0)
                     /\ UNCHANGED <<eff, msgID, pc, cid, st, resp, queueLen, mgrInvoke, tInvoke, conn, dialer, dmode, dialT, sendQ, wire, seen, pkt, rst, rch, lookT, now>>
\* doInvoke once more, with the same message (same request id, same context: the deadline does not move)
AgainBody(c) == /\ "again" \in FilterActs /\ pc[c] = "post" /\ out[c].k # "filtered"
                /\ out' = [out EXCEPT ![c] = NoOut] /\ Goto(c, "sel")
                /\ UNCHANGED <<eff, msgID, cid, st, resp, queueLen, mgrInvoke, tInvoke, conn, dialer, dmode, dialT, sendQ, wire, seen, pkt, rst, rch, lookT, now>>

FilterStep(c) == \/ (FilterReject(c) \/ FilterOverride(c)) /\ UNCHANGED passes
                 \/ AgainBody(c) /\ passes[c] < MaxPasses /\ passes' = [passes EXCEPT ![c] = @ + 1]
NextF == \/ Next /\ UNCHANGED passes
         \/ \E c \in Callers : FilterStep(c)
SpecF == InitF /\ [][NextF]_fvars

\* ================================================================ properties (those of ClientMux, with the stage accounted for)
OutKindsF == {"none", "reply", "timeout", "senderr", "full", "filtered"}
TypeOKF == /\ msgID \in Ids /\ conn \in {"closed", "open"} /\ dialer \in Callers \cup {0}
           /\ \A c \in Callers : cid[c] \in Ids /\ out[c].k \in OutKindsF
           /\ Len(pkt) <= NPkts /\ Len(rst) = Len(pkt) /\ Len(rch) = Len(pkt) /\ Len(lookT) = Len(pkt)
           /\ DOMAIN resp \subseteq Ids
\* AcctQueue, AcctMgr, AcctResp and NoResidue of ClientMux are checked as they are: the stage sits inside the section that holds
\* endpointManager.invokeNum and outside the one that holds queueLen and the pending-reply entry.
\* every invocation pays the connection-establishment bound at most once: a stage that invokes again after the deadline (the
\* context is the same, the deadline does not move) may meet another connection attempt that fails only after DialBound
DeadlineInvF == Timed => \A c \in Callers : InFlight(c) => now <= st[c] + eff[c] + (passes[c] + 1) * DialBound
UntouchedByRejected ==
  [][\A c \in Callers : (pc[c] = "sel" /\ out'[c].k = "filtered") => UNCHANGED <<resp, queueLen, sendQ, tInvoke>>]_fvars
=============================================================================
