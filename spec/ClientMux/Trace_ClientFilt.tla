---- MODULE Trace_ClientFilt ----
(* Trace validation for C09 with client filters that are not transparent (harness/cmd/muxdrive/faultfilter.go): runs of  *)
(* the real TarsInvoke with a registered client filter / middleware chain / pre and post filters that, per call, return   *)
(* an error before the call, return nil or an error without invoking, invoke and return an error of their own, invoke     *)
(* once more.  Everything of Trace_ClientMux stays; added are the steps of ClientFilt's stage:                             *)
(*   CallEnd{k = "filtered"}   the caller holds the stage's own outcome (its error, or nil without any packet)             *)
(*   a second RegBegin of a caller whose first pass through doInvoke is over: the stage invoked again                      *)
(* Nothing is taken on trust: a call that never reached doInvoke is placed through FilterReject and postInvoke as the      *)
(* model has them, and the counters read from the code at quiescence are accepted as observed and judged by NoResidue.     *)
EXTENDS Trace_ClientMux, ClientFilt
ftvars == <<tvars, passes>>
NoPasses == [c \in Callers |-> 0]
TraceInitF == TraceInit /\ passes = NoPasses
Ended == {"filtered"}

\* ---- silent steps of the stage, enabled only when the next event needs them
CallerNeedF ==
  /\ Synced /\ E.e \in {"RegBegin", "CallEnd"}
  /\ LET c == E.c IN
     \/ E.e = "CallEnd" /\ E.k \in Ended /\ TGen(c, 40000 + c) /\ UNCHANGED passes      \* the id of a call that never registered is not observable
     \/ E.e = "CallEnd" /\ E.k = "filtered" /\ FilterReject(c) /\ UNCHANGED passes
     \/ E.e = "RegBegin" /\ AgainBody(c) /\ passes' = [passes EXCEPT ![c] = @ + 1]
  /\ UNCHANGED <<l, scn, want, win, obs>>

\* ---- events
Rest == UNCHANGED <<msgID, pc, cid, st, eff, resp, queueLen, mgrInvoke, tInvoke, conn, dialer, dmode, dialT, sendQ, wire, seen, pkt, rst, rch, lookT, now>>
\* what the caller holds is the stage's own outcome, whatever doInvoke ended with
TCallEndStage == IsEv("CallEnd") /\ E.k \in Ended /\ pc[E.c] = "done" /\ Finish(E.c, E.k, 0) /\ Rest
\* the stage invoked again after the framework's own call (a post filter using its invoke function): the caller holds the outcome
\* of the framework's call, not that of the last pass
TCallEndOuter == /\ IsEv("CallEnd") /\ E.k \in {"timeout", "senderr"} /\ pc[E.c] = "done" /\ passes[E.c] > 0 /\ out[E.c].k # E.k
                 /\ Finish(E.c, E.k, 0) /\ Rest
\* the peer reads the same request once more (written again by a stage that invoked again, before the peer had read the first copy)
TPeerRecvAgain == /\ IsEv("PeerRecv") /\ <<E.id, E.c>> \notin wire /\ E.id \in DOMAIN seen /\ seen[E.id] = E.c /\ passes[E.c] > 0
                  /\ Same
StageEvents == (TCallEndStage \/ TCallEndOuter \/ TPeerRecvAgain) /\ Keep /\ UNCHANGED passes

TraceNextF == \/ TraceNext /\ passes' = (IF Here /\ E.e = "Config" /\ l' = l + 1 THEN NoPasses ELSE passes)
              \/ Ready = {} /\ (CallerNeedF \/ StageEvents) /\ Win
TraceSpecF == TraceInitF /\ [][TraceNextF]_ftvars

\* every call is over by its effective deadline + one dial timeout per invocation + the scheduling slack (+5 % timer accuracy)
TDeadlineF == \A c \in Callers : InFlight(c) => now <= st[c] + eff[c] + (passes[c] + 1) * scn.dial + Slack + (eff[c] \div 20)
====
