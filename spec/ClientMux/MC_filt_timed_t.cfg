CONSTANTS Callers <- C2  MaxId = 4  StartIds = {3}  NPkts = 1  Foreign = {}  QMax = 9  Timed = TRUE  TO <- TO2  DialBound = 2  ReadTO = 1  Horizon = 9  SerialDial = FALSE  DialModes <- AllModes  MayClose = TRUE  RecvOffers = TRUE  Stamp = FALSE  InlineRecv = FALSE  Transient <- LocalF
          FilterActs <- AllActs  MaxPasses = 1  RejectPosts = TRUE
SPECIFICATION SpecF
INVARIANTS TypeOKF ReplyMatches IdNonZero OnePacketOneCaller AcctQueue AcctMgr AcctResp NoResidue DeadlineInvF
PROPERTIES UntouchedByRejected
CHECK_DEADLOCK FALSE
