---- MODULE Trace_ClientMux ----
(* Trace validation for C08 / C09: runs of the real ServantProxy / AdapterProxy / TarsClient against a scripted     *)
(* peer must be behaviours of ClientMux.  One run (between Config and End) = one proxy, K callers, one peer script.   *)
(* Events (t = ms since the run began, taken under the recorder's lock):                                              *)
(*   harness   CallStart{c}  CallEnd{c,k,p,rid,tag,ms}  Hung{c}  Quiesce{ql,mgr,pend,tinv}                            *)
(*   peer      PeerRecv{c,id}  PeerSend{q,id,tag} (recorded before the write)  PeerClose                              *)
(*   hooks     RegBegin{c,id} Registered{c,id} UnregBegin{c,id,k,p} Unregistered{c,id}          (doInvoke)            *)
(*             NetRecv{q} (connection's recv loop)  RecvBad{q} RecvBegin{q,id} RecvLookup{q,found}                    *)
(*             RecvDelivered{q} RecvGaveUp{q} (AdapterProxy.Recv)  Dequeued{c,id,retry} (sender goroutine)            *)
(*             RecvBegin carries f: the result its goroutine reported later in RecvLookup (1 found, 0 not found, 2 none) *)
(* The lock-free operations (resp.Store / Load / Delete, the counters, the channel rendezvous) are not events: they   *)
(* are ClientMux actions placed between the Begin and End events that bracket them in the code.  The placement needs  *)
(* no search: a caller's or receiver's silent step is enabled only when the next event of that process needs it, and   *)
(* a table lookup is taken at the first moment of its window at which the table agrees with the reported result (see   *)
(* "Forced").  States generated = distinct states on every accepted trace.                                             *)
(* What the code reports is accepted and judged by the invariants: the id a call drew (IdNonZero, IdsDistinct), the   *)
(* packet a caller took (ReplyMatches), the counters read at quiescence (NoResidue), the event times (TDeadline).     *)
(* What the caller of TarsInvoke holds at CallEnd is what counts: a caller that reports success although doInvoke      *)
(* ended with a timeout or an error (client filters sit between the two) is accepted as observed (TCallEndClaim) and   *)
(* judged by ReplyMatches.  Every peer packet carries the time it was written and whether its addressee was waiting;   *)
(* obs collects the calls that ended with a timeout although their reply had been written Margin before the deadline   *)
(* on a connection that stayed open, behind a stray packet (TimelyReply: ReplyInTime of ClientMux with recorded times; *)
(* runs with ReadTimeout 0 -- where the code as it is offers nothing -- are exempt and printed as an observation).      *)
EXTENDS ClientMux, Json
VARIABLES l, scn, qlo, qhi, want, win,
          obs        \* what the run has shown so far: shut (a connection was closed / a write failed), stray (the first peer packet that
                     \* was addressed to nobody waiting or repeated an earlier one; 0: none), early (calls that ended with a
                     \* timeout although the peer had written their reply Margin before the deadline), held (those of them that
                     \* had a stray packet ahead of the reply)
Trace == ndJsonDeserialize("trace.ndjson")
tvars == <<vars, l, scn, qlo, qhi, want, win, obs>>
Slack == 500
Margin == 250
NoScn == [k |-> 0, dial |-> 0, qmax |-> 0, sc |-> -1, rt |-> 0]
NoObs == [shut |-> FALSE, stray |-> 0, early |-> {}, held |-> {}]
TraceInit == Init /\ l = 1 /\ scn = NoScn /\ qlo = [c \in Callers |-> 0] /\ qhi = [c \in Callers |-> 0] /\ want = EmptyF /\ win = {} /\ obs = NoObs
Here == l <= Len(Trace)
E == Trace[l]
Timeless == {"Config", "End"}
Synced == Here /\ (IF E.e \in Timeless THEN TRUE ELSE now = E.t)
IsEv(e) == Here /\ E.e = e /\ now = E.t /\ l' = l + 1 /\ UNCHANGED scn
Keep == UNCHANGED <<want, win, obs>>
Same == UNCHANGED vars

\* the clock follows the recorded times (no maximal progress here: that is what the slack is for)
TAdvance == /\ Here /\ E.e \notin Timeless /\ now < E.t /\ now' = E.t
            /\ UNCHANGED <<msgID, pc, cid, out, st, eff, resp, queueLen, mgrInvoke, tInvoke, conn, dialer, dmode, dialT, sendQ, wire, seen, pkt, rst, rch, lookT, l, scn, want, win, obs>>

TConfig == /\ Here /\ E.e = "Config" /\ l' = l + 1 /\ E.k <= Cardinality(Callers)
           /\ scn' = [k |-> E.k, dial |-> E.dial, qmax |-> E.qmax, sc |-> E.sc, rt |-> E.rt] /\ obs' = NoObs
           /\ msgID' = E.start
           /\ pc' = [c \in Callers |-> "idle"] /\ cid' = [c \in Callers |-> 0] /\ out' = [c \in Callers |-> NoOut]
           /\ st' = [c \in Callers |-> 0] /\ eff' = [c \in Callers |-> IF c <= E.k THEN E.to[c] ELSE 0]
           /\ resp' = EmptyF /\ queueLen' = 0 /\ mgrInvoke' = 0 /\ tInvoke' = 0
           /\ conn' = "open" /\ dialer' = 0 /\ dmode' = "accept" /\ dialT' = 0
           /\ sendQ' = {} /\ wire' = {} /\ seen' = EmptyF
           /\ pkt' = <<>> /\ rst' = <<>> /\ rch' = <<>> /\ lookT' = <<>> /\ now' = 0 /\ want' = EmptyF /\ win' = {}

\* ---- trace-level steps that have no counterpart among the fine-grained actions
\* the call reports the id it drew (genRequestID under concurrency is judged by the invariants and by the id oracle)
TGen(c, id) == /\ pc[c] = "cas" /\ cid' = [cid EXCEPT ![c] = id] /\ msgID' = id /\ Goto(c, "pre")
               /\ UNCHANGED <<out, st, eff, resp, queueLen, mgrInvoke, tInvoke, conn, dialer, dmode, dialT, sendQ, wire, seen, pkt, rst, rch, lookT, now>>
\* adp.Send returned an error (connection refused, dial timeout)
TSendFail(c) == /\ pc[c] = "send" /\ Finish(c, "senderr", 0) /\ Goto(c, "unreg1")
                /\ UNCHANGED <<msgID, cid, st, eff, resp, queueLen, mgrInvoke, tInvoke, conn, dialer, dmode, dialT, sendQ, wire, seen, pkt, rst, rch, lookT, now>>
\* the caller reports having taken packet p although no receiver holding its channel offers it: accepted, judged by ReplyMatches
Misdeliver(c, p) == /\ Finish(c, "reply", p) /\ Goto(c, "unreg1")
                    /\ UNCHANGED <<msgID, cid, st, eff, resp, queueLen, mgrInvoke, tInvoke, conn, dialer, dmode, dialT, sendQ, wire, seen, pkt, rst, rch, lookT, now>>
TTake(c, p) == /\ pc[c] = "wait"
               /\ IF p \in DOMAIN rst /\ rst[p] = "found" /\ rch[p] = c THEN Deliver(p) ELSE Misdeliver(c, p)

\* ---- non-interference in time (ReplyInTime of ClientMux with recorded times): a call that ends with a timeout although the peer
\* had written a reply carrying its id (having seen its request) at least Margin before the deadline
Early(c) == {q \in DOMAIN pkt : pkt[q].id = cid[c] /\ pkt[q].tag = c /\ pkt[q].t + Margin <= st[c] + eff[c] /\ pkt[q].t + Margin <= now}
\* ... on a connection that stayed open, with a read timeout (with ReadTimeout 0 the code as it is offers nothing: an observation),
\* and behind a stray packet: the stray packet is what the statement says must not affect another call
Held(c) == ~obs.shut /\ scn.rt > 0 /\ obs.stray # 0 /\ \E q \in Early(c) : obs.stray < q
\* ---- events
\* win: calls between RegBegin and Registered, or between UnregBegin and Unregistered (their Store / Delete may have happened)
Open(c) == win' = win \cup {c} /\ UNCHANGED want
Shut(c) == win' = win \ {c} /\ UNCHANGED <<want, obs>>
TCallStart == IsEv("CallStart") /\ E.c <= scn.k /\ Start(E.c)
TRegBegin == IsEv("RegBegin") /\ pc[E.c] = "reg1" /\ cid[E.c] = E.id /\ Same /\ Open(E.c) /\ UNCHANGED obs
TRegistered == IsEv("Registered") /\ pc[E.c] = "send" /\ cid[E.c] = E.id /\ Same /\ Shut(E.c)
TDequeued == /\ IsEv("Dequeued")
             /\ LET m == <<E.id, E.c>> IN
                IF m \in sendQ THEN SenderWrite(m)
                ELSE /\ E.retry > 0 /\ tInvoke' = tInvoke + 1 /\ wire' = wire \cup {m}      \* written again after a write error
                     /\ UNCHANGED <<msgID, pc, cid, out, st, eff, resp, queueLen, mgrInvoke, conn, dialer, dmode, dialT, sendQ, seen, pkt, rst, rch, lookT, now>>
TPeerRecv == IsEv("PeerRecv") /\ <<E.id, E.c>> \in wire /\ PeerGet(<<E.id, E.c>>)
\* a packet addressed to nobody waiting (late, foreign, push, garbage) or repeating an earlier packet is a stray packet
TPeerSend == /\ IsEv("PeerSend") /\ E.q = Len(pkt) + 1 /\ PeerSend(E.id) /\ pkt'[E.q].tag = E.tag
             /\ obs' = (IF obs.stray = 0 /\ (~(\E c \in Callers : pc[c] = "wait" /\ cid[c] = E.id) \/ \E s \in DOMAIN pkt : pkt[s].id = E.id)
                        THEN [obs EXCEPT !.stray = E.q] ELSE obs)
             /\ UNCHANGED <<want, win>>
TNetRecv == IsEv("NetRecv") /\ RecvPkgBody(E.q)
TRecvBad == IsEv("RecvBad") /\ E.q \in DOMAIN pkt /\ pkt[E.q].id = GARB /\ RecvStart(E.q)
TRecvBegin == IsEv("RecvBegin") /\ E.q \in DOMAIN pkt /\ pkt[E.q].id = E.id /\ E.id # GARB /\ RecvStart(E.q) /\ want' = Put(want, E.q, E.f) /\ UNCHANGED <<win, obs>>
TRecvLookup == IsEv("RecvLookup") /\ E.q \in DOMAIN rst /\ rst[E.q] = (IF E.found THEN "found" ELSE "dropped") /\ Same
TRecvDelivered == IsEv("RecvDelivered") /\ E.q \in DOMAIN rst /\ rst[E.q] = "delivered" /\ Same
TRecvGaveUp == IsEv("RecvGaveUp") /\ GiveUp(E.q)
TUnregBegin == /\ IsEv("UnregBegin") /\ cid[E.c] = E.id
               /\ \/ pc[E.c] = "unreg1" /\ out[E.c] = [k |-> E.k, p |-> E.p] /\ Same   \* the rendezvous was already placed (RecvDelivered came first)
                  \/ E.k = "timeout" /\ Timeout(E.c)
                  \/ E.k = "senderr" /\ TSendFail(E.c)
                  \/ E.k = "reply" /\ TTake(E.c, E.p)
               /\ Open(E.c)
               /\ obs' = IF E.k = "timeout" /\ pc[E.c] = "wait" /\ Early(E.c) # {}
                         THEN [obs EXCEPT !.early = @ \cup {E.c}, !.held = IF Held(E.c) THEN @ \cup {E.c} ELSE @] ELSE obs
TUnregistered == IsEv("Unregistered") /\ pc[E.c] = "post" /\ cid[E.c] = E.id /\ Same /\ Shut(E.c)
\* what the caller was handed is what the peer put into that packet
TCallEnd == /\ IsEv("CallEnd") /\ pc[E.c] = "done" /\ out[E.c].k = E.k /\ out[E.c].p = E.p
            /\ (E.k = "reply" => (E.p \in DOMAIN pkt /\ pkt[E.p].id = E.rid /\ pkt[E.p].tag = E.tag))
            /\ Same
\* the caller of TarsInvoke reports success although doInvoke ended otherwise (or holds another packet than the one doInvoke took):
\* what the caller holds is what counts; accepted as observed and judged by ReplyMatches
TCallEndClaim == /\ IsEv("CallEnd") /\ pc[E.c] = "done" /\ E.k = "reply" /\ (out[E.c].k # "reply" \/ out[E.c].p # E.p)
                 /\ (E.p \in DOMAIN pkt => (pkt[E.p].id = E.rid /\ pkt[E.p].tag = E.tag))
                 /\ Finish(E.c, "reply", E.p)
                 /\ UNCHANGED <<msgID, pc, cid, st, eff, resp, queueLen, mgrInvoke, tInvoke, conn, dialer, dmode, dialT, sendQ, wire, seen, pkt, rst, rch, lookT, now>>
\* the call returned although its cleanup was never reported: accepted as observed (nothing is released), judged by the
\* accounting invariants and NoResidue
TCallEndNoCleanup == /\ IsEv("CallEnd") /\ pc[E.c] \in {"send", "wait"} /\ E.k # "reply"
                     /\ Finish(E.c, E.k, 0) /\ Goto(E.c, "done") /\ mgrInvoke' = mgrInvoke - 1
                     /\ UNCHANGED <<msgID, cid, st, eff, resp, queueLen, tInvoke, conn, dialer, dmode, dialT, sendQ, wire, seen, pkt, rst, rch, lookT, now>>
\* the harness gave up waiting for this call long after every bound (the run ends here)
THung == IsEv("Hung") /\ InFlight(E.c) /\ Same
TNoop == /\ (IsEv("Dialed") \/ IsEv("ConnClosed") \/ IsEv("WriteErr") \/ IsEv("PeerClose")) /\ Same
         /\ obs' = (IF E.e = "Dialed" THEN obs ELSE [obs EXCEPT !.shut = TRUE])
         /\ UNCHANGED <<want, win>>
\* the counters read through the test-only exports after quiescence are accepted as they are; NoResidue judges them.
\* connection.invokeNum is compared with the model's prediction and with 0, and any deviation is printed for the check.
TQuiesce == /\ IsEv("Quiesce") /\ Quiet
            /\ queueLen' = E.ql /\ mgrInvoke' = E.mgr /\ tInvoke' = E.tinv
            /\ resp' = IF E.pend = Cardinality(DOMAIN resp) THEN resp ELSE [i \in 45000..(44999 + E.pend) |-> 1]
            /\ (IF E.tinv = 0 /\ tInvoke = 0 THEN TRUE ELSE PrintT(<<"TINV", scn.sc, E.tinv, tInvoke>>))
            /\ (IF obs.early = {} THEN TRUE ELSE PrintT(<<"EARLY", scn.sc, Cardinality(obs.early), Cardinality(obs.held)>>))
            /\ UNCHANGED <<msgID, pc, cid, out, st, eff, conn, dialer, dmode, dialT, sendQ, wire, seen, pkt, rst, rch, lookT, now>>
TEnd == Here /\ E.e = "End" /\ l' = l + 1 /\ UNCHANGED <<vars, scn, want, win, obs>>

\* ---- silent steps, enabled only when the next event needs them ...
CallerNeed ==
  /\ E.e \in {"RegBegin", "Registered", "Dequeued", "UnregBegin", "Unregistered", "CallEnd"}
  /\ LET c == E.c IN
     \/ E.e = "RegBegin" /\ TGen(c, E.id)
     \/ E.e = "CallEnd" /\ E.k = "full" /\ TGen(c, 40000 + c)          \* the id of a call that never registered is not observable
     \/ E.e \in {"RegBegin", "CallEnd"} /\ Pre(c)
     \/ E.e = "RegBegin" /\ qlo[c] <= scn.qmax /\ SelWith(c, FALSE)     \* the queue-length check happened somewhere since CallStart
     \/ E.e = "CallEnd" /\ E.k = "full" /\ qhi[c] > scn.qmax /\ SelWith(c, TRUE)
     \/ E.e = "Registered" /\ (Reg1(c) \/ Reg2(c))
     \/ (E.e = "Dequeued" \/ (E.e = "UnregBegin" /\ E.k # "senderr")) /\ SendOpen(c)
     \/ E.e = "Unregistered" /\ (Unreg1(c) \/ Unreg2(c))
     \/ E.e = "CallEnd" /\ Post(c)
RecvNeed ==
  /\ E.e = "RecvDelivered" /\ E.q \in DOMAIN rst
  /\ LET q == E.q IN rst[q] = "found" /\ (Deliver(q) \/ (pc[rch[q]] = "send" /\ SendOpen(rch[q])))
TSilent == Synced /\ UNCHANGED <<l, scn, want, win, obs>> /\ (CallerNeed \/ RecvNeed)
\* ---- the table lookup of receiver q happens somewhere between RecvBegin{q} and RecvLookup{q}, unordered against the
\* Store / Delete of a call that is between RegBegin and Registered / UnregBegin and Unregistered.  RecvBegin carries the
\* result reported later (want[q]: 1 found, 0 not found, 2 none reported), so the placement needs no search: the lookup is
\* taken at the first moment at which the table agrees with the result; while it does not agree, the Store (Delete) of the
\* call that owns the id is the only step that can make it agree and is taken as soon as that call is inside its window.
\* These forced steps run before anything else.
Begun == {q \in DOMAIN rst : rst[q] = "begun" /\ want[q] # 2}
MatchNow(q) == (want[q] = 1) <=> (pkt[q].id \in DOMAIN resp)
InWin(q) == {c \in win : cid[c] = pkt[q].id /\ pc[c] \in (IF want[q] = 1 THEN {"reg1", "reg2"} ELSE {"unreg1", "unreg2"})}
\* (a Delete is forced only when the receiver's own report is the next event: a receiver that began later may still have found
\* the entry -- RecvBegin{q}, RecvBegin{r}, lookup r: found, Delete, lookup q: not found -- seen with three copies of an answer
\* on a busy machine; until then the Delete is placed by the call's own Unregistered event)
NeedNow(q) == Here /\ E.e = "RecvLookup" /\ E.q = q
Ready == {q \in Begun : MatchNow(q) \/ (InWin(q) # {} /\ (want[q] = 1 \/ NeedNow(q)))}
Forced == LET q == CHOOSE q \in Ready : \A r \in Ready : q <= r IN
          IF MatchNow(q) THEN Lookup(q)
          ELSE LET c == CHOOSE c \in InWin(q) : TRUE IN Reg1(c) \/ Reg2(c) \/ Unreg1(c) \/ Unreg2(c)

\* bounds of ServantProxy.queueLen since the call began (the "queue full" check reads it at an unrecorded moment); an
\* increment / decrement whose Begin event is recorded but which the model has not placed yet may already have happened
PreReg == {"cas", "add", "pre", "sel"}
Lo == queueLen' - Cardinality({d \in Callers : pc'[d] = "unreg1"})
Hi == queueLen' + Cardinality({d \in Callers : pc'[d] = "reg1"})
Win == IF scn'.qmax >= 100000 THEN UNCHANGED <<qlo, qhi>>      \* the queue can only be full in runs that lower ObjQueueMax
       ELSE /\ qlo' = [c \in Callers |-> IF pc'[c] \in PreReg THEN (IF pc[c] = "idle" \/ Lo < qlo[c] THEN Lo ELSE qlo[c]) ELSE qlo[c]]
            /\ qhi' = [c \in Callers |-> IF pc'[c] \in PreReg THEN (IF pc[c] = "idle" \/ Hi > qhi[c] THEN Hi ELSE qhi[c]) ELSE qhi[c]]

Events == \/ TCallStart \/ TDequeued \/ TPeerRecv \/ TNetRecv
          \/ TRecvBad \/ TRecvLookup \/ TRecvDelivered \/ TRecvGaveUp
          \/ TCallEnd \/ TCallEndClaim \/ TCallEndNoCleanup \/ THung \/ TQuiesce
TraceNext == /\ IF Ready # {} THEN Forced /\ UNCHANGED <<l, scn, want, win, obs>>
                ELSE \/ Events /\ Keep
                     \/ TAdvance \/ TConfig \/ TRecvBegin \/ TEnd \/ TSilent \/ TNoop \/ TPeerSend
                     \/ TRegBegin \/ TRegistered \/ TUnregBegin \/ TUnregistered
             /\ Win
TraceSpec == TraceInit /\ [][TraceNext]_tvars

\* every call is over by its effective deadline + the dial timeout + the scheduling slack (+5 % timer accuracy)
TDeadline == \A c \in Callers : InFlight(c) => now <= st[c] + eff[c] + scn.dial + Slack + (eff[c] \div 20)
\* no call timed out behind a stray packet although its reply had been written Margin before its deadline (see Held)
TimelyReply == obs.held = {}

ASSUME TLCSet(1, 0)
HighWater == (IF l > TLCGet(1) THEN TLCSet(1, l) ELSE TRUE)
TraceAccepted == /\ PrintT(<<"HWM", TLCGet(1), Len(Trace)>>)
                 /\ TLCGet(1) = Len(Trace) + 1
TC8 == 1..8
TTO8 == [c \in TC8 |-> 0]
TC32 == 1..32
TC128 == 1..128
TTO32 == [c \in TC32 |-> 0]
TTO128 == [c \in TC128 |-> 0]
TC512 == 1..512
TTO512 == [c \in TC512 |-> 0]
TForeign == {0, GARB} \cup (50000..58192)
====
