CONSTANTS Callers <- C2  MaxId = 4  StartIds = {3}  NPkts = 1  Foreign = {}  QMax = 9  Timed = FALSE  TO <- TO2  DialBound = 1  ReadTO = 1  Horizon = 0  SerialDial = TRUE  DialModes <- AllModes  MayClose = FALSE  RecvOffers = TRUE  Stamp = FALSE  InlineRecv = FALSE  Transient <- LocalF
          FilterActs <- AllActs  MaxPasses = 1  RejectPosts = FALSE
SPECIFICATION SpecF
INVARIANTS NoResidue
CHECK_DEADLOCK FALSE
