CONSTANTS Callers <- C3  MaxId = 4  StartIds <- AllIds  NPkts = 0  Foreign = {}  QMax = 1  Timed = FALSE  TO <- TO3  DialBound = 1  ReadTO = 1  Horizon = 0  SerialDial = TRUE  DialModes = {"accept"}  MayClose = FALSE  RecvOffers = TRUE  Stamp = FALSE  InlineRecv = FALSE  Transient = {}
SPECIFICATION Spec
INVARIANTS TypeOK ReplyMatches IdNonZero IdsDistinct OnePacketOneCaller AcctQueue AcctMgr AcctResp NoResidue
PROPERTIES LateReplyHarmless OnlyAddressee
CHECK_DEADLOCK FALSE
