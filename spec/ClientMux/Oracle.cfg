CONSTANT MaxId = 100000
INIT Init
NEXT Next
