CONSTANTS Callers <- C2  MaxId = 4  StartIds = {3}  NPkts = 2  Foreign <- F0  QMax = 9  Timed = FALSE  TO <- TO2  DialBound = 1  ReadTO = 1  Horizon = 0  SerialDial = TRUE  DialModes = {"accept"}  MayClose = TRUE  RecvOffers = TRUE  Stamp = FALSE  InlineRecv = FALSE  Transient <- LocalRx
SPECIFICATION SpecReleasing
INVARIANTS TypeOK
PROPERTIES WaitEndsByReplyOrDeadline
CHECK_DEADLOCK FALSE
