---- MODULE Oracle_ClientMux ----
(* Batch oracle for the id generator: records of draws from the real genRequestID (ids mapped into the model's id   *)
(* space region by region) are judged against IdGen.  kind "seq": n uninterrupted draws from a start value must be   *)
(* exactly SeqFrom(start, n).  kind "burst": the ids drawn by concurrent goroutines (sorted) must be non-zero,        *)
(* pairwise distinct, and a subset of what the generator can hand out in that many draws ("bigburst": 6400 draws,     *)
(* non-zero and distinct only).                                                                                       *)
EXTENDS IdGen, Json, TLC
VARIABLE dummy
Recs == ndJsonDeserialize("recs.ndjson")
Range(s) == {s[i] : i \in DOMAIN s}
HasZero(r) == 0 \in Range(r.ids)
HasDup(r) == Cardinality(Range(r.ids)) # Len(r.ids)
Conforms(r) == IF r.kind = "seq" THEN r.ids = SeqFrom(r.start, Len(r.ids))
               ELSE IF r.kind = "burst" THEN Range(r.ids) \subseteq Reach(r.start, Len(r.ids) + 1)
               ELSE TRUE      \* "bigburst": thousands of draws from goroutines running in parallel, judged for zero and duplicates only
Zero == {i \in DOMAIN Recs : HasZero(Recs[i])}
Dup == {i \in DOMAIN Recs : HasDup(Recs[i])}
Off == {i \in DOMAIN Recs : ~Conforms(Recs[i])}
ASSUME PrintT(<<"ZERO", Zero>>) /\ PrintT(<<"DUP", Dup>>) /\ PrintT(<<"OFF", Off>>) /\ PrintT(<<"N", Len(Recs)>>)
Init == dummy = 0
Next == UNCHANGED dummy
====
