---- MODULE MC_ClientMuxAdp ----
(* The design behind the class "adapter closed while calls are outstanding" (C08): closing the connection under the      *)
(* waiting callers (ConnLost: by the peer, or by AdapterProxy.Close when the registry withdraws the endpoint) touches no   *)
(* call and no entry of the pending-reply table, and a call leaves its select only with the packet that carries its id or   *)
(* by its deadline.                                                                                                        *)
(*   MC_adpclose       2 callers, every interleaving, 2 peer packets, the connection may be closed at any time and is       *)
(*                     dialled again by the next sender: C08's invariants + CloseTouchesNoCall + WaitEndsByReplyOrDeadline   *)
(*   MC_adpclose_kf    non-vacuity: the same with a close that releases the waiting callers (their reply channels are        *)
(*                     closed: they leave the select holding nothing): WaitEndsByReplyOrDeadline must be violated             *)
EXTENDS MC_ClientMux
CloseTouchesNoCall ==
  [][(conn = "open" /\ conn' = "closed") => UNCHANGED <<pc, cid, out, resp, queueLen, mgrInvoke>>]_vars
WaitEndsByReplyOrDeadline ==
  [][\A c \in Callers : (pc[c] = "wait" /\ pc'[c] # "wait") =>
        \/ out'[c].k = "timeout"
        \/ out'[c].k = "reply" /\ out'[c].p \in DOMAIN pkt /\ pkt[out'[c].p].id = cid[c]]_vars
\* the deviation: Close walks the table, deletes every entry and closes its channel; a waiting caller receives nil
ReleasingClose ==
  /\ conn = "open" /\ conn' = "closed" /\ wire' = {}
  /\ rst' = [q \in DOMAIN rst |-> IF rst[q] = "net" THEN "lost" ELSE rst[q]]
  /\ resp' = EmptyF
  /\ pc' = [c \in Callers |-> IF pc[c] = "wait" THEN "unreg1" ELSE pc[c]]
  /\ out' = [c \in Callers |-> IF pc[c] = "wait" THEN [k |-> "reply", p |-> 0] ELSE out[c]]
  /\ UNCHANGED <<eff, msgID, cid, st, queueLen, mgrInvoke, tInvoke, dialer, dmode, dialT, sendQ, seen, pkt, rch, lookT, now>>
SpecReleasing == Init /\ [][Next \/ ReleasingClose]_vars
====
