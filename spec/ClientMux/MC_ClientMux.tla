---- MODULE MC_ClientMux ----
EXTENDS ClientMux
C2 == {1, 2}
C3 == {1, 2, 3}
AllIds == MinId..MaxId
NearWrap == {MaxId - 2, MaxId - 1, MaxId}
NearZero == {-3, -2, -1}
WrapAndZero == NearWrap \cup NearZero
TwoStarts == {MaxId - 1, -2}
TO3 == [c \in C3 |-> IF c = 2 THEN 2 ELSE 1]
TO2 == [c \in C2 |-> c]
TO3b == [c \in C3 |-> IF c = 2 THEN 3 ELSE 1]
TO2b == [c \in C2 |-> IF c = 2 THEN 3 ELSE 1]
AllModes == {"accept", "refuse", "blackhole"}
\* a peer that answers every request it received exactly once and sends nothing else
Polite == /\ \A q \in DOMAIN pkt : pkt[q].id \in DOMAIN seen
          /\ \A q, r \in DOMAIN pkt : q # r => pkt[q].id # pkt[r].id
F1 == {-5}
F0 == {0}
FAll == {-5, 0, GARB}
FPre == {4, 0}
Local == {"cas", "add", "pre", "sel", "reg1", "unreg1", "post"}
LocalAll == Local \cup {"spawned", "sendq"}
LocalRx == {"spawned", "sendq"}
\* ... then connection.invokeNum is back to 0 once every request has been answered and received
PoliteDone == Polite /\ wire = {} /\ \A i \in DOMAIN seen : \E q \in DOMAIN pkt : pkt[q].id = i
TransportBackPolite == (Quiet /\ sendQ = {} /\ PoliteDone /\ \A q \in DOMAIN rst : rst[q] # "net") => tInvoke = 0
====
