---- MODULE MC_ClientMux ----
(* Constants for the exhaustive runs of ClientMux (MaxId = 4: id space -5..4, so that the wrap at MaxId, the int32  *)
(* overflow to MinId and the skipping of 0 are all reached by three calls).                                          *)
(*   MC_ids / MC_ids_t        3 callers, no peer, every interleaving, start values {3, -2} / all ten                   *)
(*   MC_mux2 / MC_mux2_t      2 callers, every interleaving of callers, sender, peer, receivers; 2 / 4 peer packets     *)
(*   MC_mux3 / MC_mux3_t      3 callers, local steps run to completion (LocalAll); 1 / 3 peer packets                   *)
(*   MC_residue / _t          every exit path (queue full, refused, black hole, connection loss) : accounting          *)
(*   MC_c09_ideal / _t        discrete clock, deadlines 1 and 3, dial bound 2, SerialDial = FALSE : DeadlineInv        *)
(*   MC_c09_kf_serialdial     the same with SerialDial = TRUE (finding F21): DeadlineInv must be violated               *)
(*   MC_transport_polite / MC_transport_kf   connection.invokeNum returns to 0 iff every request is answered once      *)
(*   MC_c09_read0 / _t        ClientReadTimeout = 0 as the code is (RecvOffers = FALSE): no call ends with a reply, every   *)
(*                            call ends by its deadline, nothing is left behind                                            *)
(*   MC_c09_dup / _t          2 / 3 callers, 3 packets (duplicates), ReadTO 2: ReplyInTime (a stray packet delays nobody)   *)
(*   MC_c09_kf_inline         the same with InlineRecv = TRUE (the reader runs the receiver itself): ReplyInTime must be    *)
(*                            violated (non-vacuity)                                                                        *)
EXTENDS ClientMux
C2 == {1, 2}
C3 == {1, 2, 3}
AllIds == MinId..MaxId
NearWrap == {MaxId - 2, MaxId - 1, MaxId}
TwoStarts == {MaxId - 1, -2}
TO3 == [c \in C3 |-> IF c = 2 THEN 2 ELSE 1]
TO2 == [c \in C2 |-> c]
TO3b == [c \in C3 |-> IF c = 2 THEN 3 ELSE 1]
AllModes == {"accept", "refuse", "blackhole"}
\* what the peer may send besides ids it received: a foreign id, id 0 (push), an undecodable packet, an id not yet drawn
F1 == {-5}
F0 == {0}
FAll == {-5, 0, GARB}
FPre == {4, 0}
\* labels whose step commutes with every step of the other processes (Transient)
Local == {"cas", "add", "pre", "sel", "reg1", "unreg1", "post"}
LocalRx == {"spawned", "sendq"}
LocalAll == Local \cup LocalRx
\* a peer that answers every request it received exactly once and sends nothing else ...
Polite == /\ \A q \in DOMAIN pkt : pkt[q].id \in DOMAIN seen
          /\ \A q, r \in DOMAIN pkt : q # r => pkt[q].id # pkt[r].id
\* ... then connection.invokeNum is back to 0 once every request has been answered and received
PoliteDone == Polite /\ wire = {} /\ \A i \in DOMAIN seen : \E q \in DOMAIN pkt : pkt[q].id = i
TransportBackPolite == (Quiet /\ sendQ = {} /\ PoliteDone /\ \A q \in DOMAIN rst : rst[q] # "net") => tInvoke = 0
====
