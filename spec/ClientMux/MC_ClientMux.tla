---- MODULE MC_ClientMux ----
EXTENDS ClientMux
C2 == {1, 2}
C3 == {1, 2, 3}
AllIds == MinId..MaxId
NearWrap == {MaxId - 2, MaxId - 1, MaxId}
NearZero == {-3, -2, -1}
TO3 == [c \in C3 |-> IF c = 2 THEN 2 ELSE 1]
TO2 == [c \in C2 |-> c]
\* a peer that answers every request it received exactly once and sends nothing else
Polite == /\ \A q \in DOMAIN pkt : pkt[q].id \in DOMAIN seen
          /\ \A q, r \in DOMAIN pkt : q # r => pkt[q].id # pkt[r].id
F1 == {-5}
Local == {"cas", "add", "pre", "sel", "reg1", "unreg1", "post"}
\* at most one connection loss per run keeps the timed runs small
====
