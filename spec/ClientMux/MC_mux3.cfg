CONSTANTS Callers <- C3  MaxId = 4  StartIds = {3}  NPkts = 1  Foreign <- F0  QMax = 9  Timed = FALSE  TO <- TO3  DialBound = 1  ReadTO = 1  Horizon = 0  SerialDial = TRUE  DialModes = {"accept"}  MayClose = FALSE  RecvOffers = TRUE  Stamp = FALSE  InlineRecv = FALSE  Transient <- LocalAll
SPECIFICATION Spec
INVARIANTS TypeOK ReplyMatches IdNonZero IdsDistinct OnePacketOneCaller AcctQueue AcctMgr AcctResp NoResidue
PROPERTIES LateReplyHarmless OnlyAddressee
CHECK_DEADLOCK FALSE
