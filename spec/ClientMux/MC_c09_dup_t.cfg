CONSTANTS Callers <- C3  MaxId = 4  StartIds = {3}  NPkts = 3  Foreign = {}  QMax = 9  Timed = TRUE  TO <- TO3b  DialBound = 2  ReadTO = 2  Horizon = 9  SerialDial = FALSE  DialModes = {"accept"}  MayClose = FALSE  RecvOffers = TRUE  Stamp = TRUE  InlineRecv = FALSE  Transient <- LocalAll
SPECIFICATION Spec
INVARIANTS TypeOK ReplyMatches IdNonZero IdsDistinct OnePacketOneCaller AcctQueue AcctMgr AcctResp NoResidue DeadlineInv ReplyInTime
PROPERTIES LateReplyHarmless OnlyAddressee
CHECK_DEADLOCK FALSE
