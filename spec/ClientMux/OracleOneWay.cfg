INIT OInit
NEXT ONext
