---- MODULE MC_ClientFilt ----
(* Exhaustive runs of ClientFilt (the client filter stage on top of ClientMux; constants as in MC_ClientMux).            *)
(* In all of them the stage may reject, override and invoke again (once).                                                  *)
(*   MC_filt              2 callers, accept / refuse, 1 peer packet, commuting local steps run to completion: accounting,  *)
(*                        NoResidue , the C08 invariants, LateReplyHarmless, UntouchedByRejected                           *)
(*   MC_filt_t            the same with every interleaving of callers, sender, peer and receivers, black-holed dials and   *)
(*                        connection loss                                                                                  *)
(*   MC_filt_timed / _t   2 callers, discrete clock, deadlines 1 and 2, dial bound 2 (_t: with connection loss):            *)
(*                        DeadlineInvF (a stage that invokes again does not move the deadline; every invocation pays the   *)
(*                        connection-establishment bound at most once)                                                     *)
(*   MC_filt_kf_leak      RejectPosts = FALSE (a call ended by the stage without invoking leaves before postInvoke):       *)
(*                        NoResidue  must be violated (non-vacuity)                                                        *)
EXTENDS ClientFilt
C2 == {1, 2}
TO2 == [c \in C2 |-> c]
AllModes == {"accept", "refuse", "blackhole"}
TwoModes == {"accept", "refuse"}
AllActs == {"reject", "override", "again"}
LocalRx == {"spawned", "sendq"}
\* labels whose step commutes with every step of the other processes; "sel" and "post" are where the stage acts, so they stay
LocalIds == {"cas", "add", "pre", "spawned", "sendq"}
LocalF == {"cas", "add", "pre", "reg1", "unreg1", "spawned", "sendq"}
====
