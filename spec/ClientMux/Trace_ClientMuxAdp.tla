---- MODULE Trace_ClientMuxAdp ----
(* Trace validation for the class "adapter closed while calls are outstanding on it" (C08; muxdrive adpclose).          *)
(* AdapterProxy.Close -- called by endpointManager.refreshEndpoints for every endpoint a registry refresh no longer    *)
(* lists -- closes the adapter's connection and nothing else: the pending-reply table is not touched, so a call that    *)
(* waits on the adapter leaves its select exactly as before, through the rendezvous with the receiver of a packet       *)
(* carrying its id (Deliver) or through its deadline (Timeout).  In ClientMux the step is ConnLost (MC_adpclose.cfg,     *)
(* CloseTouchesNoCall / WaitEndsByReplyOrDeadline of MC_ClientMuxAdp).  A run has one proxy, one peer that listens on     *)
(* every loopback address (its packets are numbered across the connections) and as many adapters as the registry names  *)
(* endpoints; request ids are process-wide, so the pending-reply tables of the adapters are read as one table.           *)
(* Additional events:                                                                                                    *)
(*   Refresh{withdrawn,pend} Refreshed   the harness lets one registry refresh through (recorded before / after)         *)
(*   AdpClose{pend} AdpClosed            the harness closes every adapter of the proxy through the test-only export       *)
(*   ProcExit{rc}                        appended by the check: the process that ran the calls ended here                *)
(* A process that ends is a behaviour only when no call is in flight: every caller receives its response or a timeout    *)
(* error, and a process that is gone hands nothing to anybody.  A call that waited and is ended by an error that is not   *)
(* the timeout once a connection of the run has been closed (a design that tells the waiting callers at once) is accepted *)
(* as observed; what the caller holds at CallEnd is judged as everywhere else (TCallEnd, TCallEndClaim, ReplyMatches).     *)
EXTENDS Trace_ClientMux
TAdpMark == /\ (IsEv("Refresh") \/ IsEv("Refreshed") \/ IsEv("AdpClose") \/ IsEv("AdpClosed")) /\ Same
            /\ obs' = [obs EXCEPT !.shut = TRUE]
            /\ UNCHANGED <<want, win>>
TAbort == /\ IsEv("UnregBegin") /\ E.k = "senderr" /\ cid[E.c] = E.id /\ pc[E.c] = "wait" /\ obs.shut
          /\ Finish(E.c, "senderr", 0) /\ Goto(E.c, "unreg1")
          /\ UNCHANGED <<msgID, cid, st, eff, resp, queueLen, mgrInvoke, tInvoke, conn, dialer, dmode, dialT, sendQ, wire, seen, pkt, rst, rch, lookT, now>>
          /\ Open(E.c) /\ UNCHANGED obs
TProcExit == IsEv("ProcExit") /\ Quiet /\ Same /\ Keep
AdpNext == \/ TraceNext
           \/ Ready = {} /\ (TAdpMark \/ TAbort \/ TProcExit) /\ Win
AdpSpec == TraceInit /\ [][AdpNext]_tvars
====
