----------------------------- MODULE ClientMux -----------------------------
(* Client side request/response multiplexing of TarsGo (tars/servant.go TarsInvoke / doInvoke /         *)
(* genRequestID, tars/adapter.go Recv / Send, the parts of tars/transport/tarsclient.go a call sees).   *)
(* One action per atomic step of the code (an atomic instruction, one sync.Map operation, one channel    *)
(* rendezvous, one goroutine hand-off).  Serves C08 (a reply reaches the caller of the matching request  *)
(* id; ids are never 0; outstanding ids are pairwise distinct) and C09 (with a discrete clock and        *)
(* maximal progress every call is over by its effective deadline plus the connection-establishment       *)
(* bound, and leaves no residue in the pending-reply table or the in-flight counters).                    *)
(*                                                                                                       *)
(* Each caller slot performs at most one call.  ASSUMPTION of the distinctness invariant (stated by the  *)
(* property as "fewer outstanding calls than ids"): after the wrap the counter restarts at 2, so the      *)
(* shortest cycle of the generator is 2..MaxId; there are at most MaxId - 1 callers.                      *)
(* The peer is honest about payloads: a packet carrying id i carries f(the request it received under i)   *)
(* (tag = the caller named in that request, 0 when it has not seen such a request); apart from that it    *)
(* may send any id, any number of times, in any order, at any time, close the connection or send garbage. *)
(* Deviation of the code from the ideal, kept as a named switch: SerialDial (finding F21: ReConnect dials  *)
(* under the connection lock and every waiting caller dials again).                                        *)
EXTENDS Integers, Sequences, FiniteSets, TLC, IdGen     \* IdGen: MaxId (the model's maxInt32), Ids, CasStep, AddStep
CONSTANTS Callers,     \* caller slots
          StartIds,    \* initial values of the process-wide counter
          NPkts,       \* number of packets the peer may send
          Foreign,     \* what the peer may send besides ids it received: ids it never saw, 0 (push), GARB (a packet that does not decode)
          QMax,        \* ObjQueueMax
          Timed,       \* TRUE: discrete clock with maximal progress
          TO,          \* [Callers -> Nat]: effective deadline of a call, ticks after its start
          DialBound,   \* ticks until a connection attempt to a black-holed address fails
          ReadTO,      \* ticks a receiver goroutine waits for a caller that does not take the reply
          Horizon,     \* the clock stops here
          SerialDial,  \* TRUE: as the code (F21); FALSE: callers blocked behind a failing attempt share its failure
          DialModes,   \* what a connection attempt may meet: "accept", "refuse", "blackhole"
          MayClose,    \* the peer may close the connection (or send an unparsable frame, which makes the client close it)
          RecvOffers,  \* TRUE: a receiver that found the entry offers the packet on the reply channel until the read timeout.
                       \* FALSE: ClientReadTimeout = 0 in the code as it is: rtimer.After(0) panics while the select of Recv is
                       \* set up (recovered by Recv): nothing is offered, the receiver ends at once, the call ends by its deadline
          Stamp,       \* TRUE: every peer packet carries the time it was written (needed by ReplyInTime; more states)
          InlineRecv,  \* FALSE: as the code (one goroutine per packet).  TRUE: a design in which the connection's only reader runs
                       \* the receiver itself (kept for non-vacuity of ReplyInTime: a stray reply then holds up everybody else's)
          Transient    \* model-checking economy: caller labels whose next step runs before anybody else moves ({} = every interleaving);
                       \* used only for labels whose step commutes with every step of the other processes in that configuration
GARB == MaxId + 1       \* pseudo id: a well-framed packet that does not decode
ASSUME Cardinality(Callers) <= MaxId - 1

VARIABLES msgID,      \* the counter
          pc, cid, out, st, eff,   \* per caller: program counter, request id, outcome [k, p], start time, effective deadline (ticks after the start)
          resp,       \* pending-reply table: partial function id -> caller (whose reply channel is stored)
          queueLen, mgrInvoke, tInvoke,   \* ServantProxy.queueLen, endpointManager.invokeNum, connection.invokeNum
          conn, dialer, dmode, dialT,     \* connection "closed"|"open"; holder of the connection lock while dialing; what it meets; since when
          sendQ, wire, seen,              \* requests <<id, caller>> queued / written; peer's memory id -> caller named in the request
          pkt, rst, rch, lookT,           \* per peer packet: [id, tag]; receiver state; reply channel (caller) it holds; time of lookup
          now
vars == <<msgID, pc, cid, out, st, eff, resp, queueLen, mgrInvoke, tInvoke, conn, dialer, dmode, dialT, sendQ, wire, seen, pkt, rst, rch, lookT, now>>

EmptyF == [x \in {} |-> 0]
Put(f, k, v) == [x \in DOMAIN f \cup {k} |-> IF x = k THEN v ELSE f[x]]
Drop(f, k) == [x \in DOMAIN f \ {k} |-> f[x]]
NoOut == [k |-> "none", p |-> 0]

Init == /\ msgID \in StartIds
        /\ pc = [c \in Callers |-> "idle"] /\ cid = [c \in Callers |-> 0] /\ out = [c \in Callers |-> NoOut]
        /\ st = [c \in Callers |-> 0] /\ eff = TO
        /\ resp = EmptyF /\ queueLen = 0 /\ mgrInvoke = 0 /\ tInvoke = 0
        /\ conn = "closed" /\ dialer = 0 /\ dmode = "accept" /\ dialT = 0
        /\ sendQ = {} /\ wire = {} /\ seen = EmptyF
        /\ pkt = <<>> /\ rst = <<>> /\ rch = <<>> /\ lookT = <<>>
        /\ now = 0

Goto(c, l) == pc' = [pc EXCEPT ![c] = l]
Finish(c, k, p) == out' = [out EXCEPT ![c] = [k |-> k, p |-> p]]

\* ---------------------------------------------------------------- caller c (TarsInvoke / doInvoke)
Start(c) == /\ pc[c] = "idle" /\ Goto(c, "cas") /\ st' = [st EXCEPT ![c] = now]
            /\ UNCHANGED <<eff, msgID, cid, out, resp, queueLen, mgrInvoke, tInvoke, conn, dialer, dmode, dialT, sendQ, wire, seen, pkt, rst, rch, lookT, now>>
GenCAS(c) == /\ pc[c] = "cas" /\ msgID' = CasStep(msgID) /\ Goto(c, "add")
             /\ UNCHANGED <<eff, cid, out, st, resp, queueLen, mgrInvoke, tInvoke, conn, dialer, dmode, dialT, sendQ, wire, seen, pkt, rst, rch, lookT, now>>
GenAdd(c) == /\ pc[c] = "add" /\ msgID' = AddStep(msgID)
             /\ IF msgID' # 0 THEN cid' = [cid EXCEPT ![c] = msgID'] /\ Goto(c, "pre") ELSE UNCHANGED <<cid, pc>>
             /\ UNCHANGED <<eff, out, st, resp, queueLen, mgrInvoke, tInvoke, conn, dialer, dmode, dialT, sendQ, wire, seen, pkt, rst, rch, lookT, now>>
Pre(c) == /\ pc[c] = "pre" /\ mgrInvoke' = mgrInvoke + 1 /\ Goto(c, "sel")          \* preInvoke
          /\ UNCHANGED <<eff, msgID, cid, out, st, resp, queueLen, tInvoke, conn, dialer, dmode, dialT, sendQ, wire, seen, pkt, rst, rch, lookT, now>>
\* adapter selected; "invoke queue is full" leaves before anything is registered
SelWith(c, full) ==
          /\ pc[c] = "sel"
          /\ IF full THEN Finish(c, "full", 0) /\ Goto(c, "post") ELSE Goto(c, "reg1") /\ UNCHANGED out
          /\ UNCHANGED <<eff, msgID, cid, st, resp, queueLen, mgrInvoke, tInvoke, conn, dialer, dmode, dialT, sendQ, wire, seen, pkt, rst, rch, lookT, now>>
Sel(c) == SelWith(c, queueLen > QMax)
Reg1(c) == /\ pc[c] = "reg1" /\ queueLen' = queueLen + 1 /\ Goto(c, "reg2")
           /\ UNCHANGED <<eff, msgID, cid, out, st, resp, mgrInvoke, tInvoke, conn, dialer, dmode, dialT, sendQ, wire, seen, pkt, rst, rch, lookT, now>>
Reg2(c) == /\ pc[c] = "reg2" /\ resp' = Put(resp, cid[c], c) /\ Goto(c, "send")       \* resp.Store(id, fresh channel)
           /\ UNCHANGED <<eff, msgID, cid, out, st, queueLen, mgrInvoke, tInvoke, conn, dialer, dmode, dialT, sendQ, wire, seen, pkt, rst, rch, lookT, now>>
\* adp.Send -> TarsClient.Send: ReConnect under the connection lock, then enqueue (the queue is assumed not to be full)
SendOpen(c) == /\ pc[c] = "send" /\ conn = "open" /\ dialer = 0
               /\ sendQ' = sendQ \cup {<<cid[c], c>>} /\ Goto(c, "wait")
               /\ UNCHANGED <<eff, msgID, cid, out, st, resp, queueLen, mgrInvoke, tInvoke, conn, dialer, dmode, dialT, wire, seen, pkt, rst, rch, lookT, now>>
DialStart(c) == /\ pc[c] = "send" /\ conn = "closed" /\ dialer = 0
                /\ dialer' = c /\ dialT' = now /\ dmode' \in DialModes /\ Goto(c, "dial")
                /\ UNCHANGED <<eff, msgID, cid, out, st, resp, queueLen, mgrInvoke, tInvoke, conn, sendQ, wire, seen, pkt, rst, rch, lookT, now>>
DialDue == dmode # "blackhole" \/ ~Timed \/ now >= dialT + DialBound
DialDone(c) ==
  /\ pc[c] = "dial" /\ dialer = c /\ DialDue /\ dialer' = 0
  /\ IF dmode = "accept"
     THEN /\ conn' = "open" /\ sendQ' = sendQ \cup {<<cid[c], c>>} /\ Goto(c, "wait") /\ UNCHANGED out
     ELSE /\ UNCHANGED <<conn, sendQ>>
          /\ LET F == IF SerialDial THEN {c} ELSE {c} \cup {d \in Callers : pc[d] = "send"}
             IN /\ pc' = [d \in Callers |-> IF d \in F THEN "unreg1" ELSE pc[d]]
                /\ out' = [d \in Callers |-> IF d \in F THEN [k |-> "senderr", p |-> 0] ELSE out[d]]
  /\ UNCHANGED <<eff, msgID, cid, st, resp, queueLen, mgrInvoke, tInvoke, dmode, dialT, wire, seen, pkt, rst, rch, lookT, now>>
\* the select of doInvoke: ctx.Done (a reply that is ready at the same time may win instead: Deliver)
Due(c) == ~Timed \/ now >= st[c] + eff[c]
Timeout(c) == /\ pc[c] = "wait" /\ Due(c) /\ Finish(c, "timeout", 0) /\ Goto(c, "unreg1")
              /\ UNCHANGED <<eff, msgID, cid, st, resp, queueLen, mgrInvoke, tInvoke, conn, dialer, dmode, dialT, sendQ, wire, seen, pkt, rst, rch, lookT, now>>
\* deferred cleanup on every exit path, then postInvoke
Unreg1(c) == /\ pc[c] = "unreg1" /\ queueLen' = queueLen - 1 /\ Goto(c, "unreg2")
             /\ UNCHANGED <<eff, msgID, cid, out, st, resp, mgrInvoke, tInvoke, conn, dialer, dmode, dialT, sendQ, wire, seen, pkt, rst, rch, lookT, now>>
Unreg2(c) == /\ pc[c] = "unreg2" /\ resp' = Drop(resp, cid[c]) /\ Goto(c, "post")
             /\ UNCHANGED <<eff, msgID, cid, out, st, queueLen, mgrInvoke, tInvoke, conn, dialer, dmode, dialT, sendQ, wire, seen, pkt, rst, rch, lookT, now>>
Post(c) == /\ pc[c] = "post" /\ mgrInvoke' = mgrInvoke - 1 /\ Goto(c, "done")
           /\ UNCHANGED <<eff, msgID, cid, out, st, resp, queueLen, tInvoke, conn, dialer, dmode, dialT, sendQ, wire, seen, pkt, rst, rch, lookT, now>>

\* ---------------------------------------------------------------- transport: sender goroutine, network, peer
SenderWrite(m) == /\ m \in sendQ /\ conn = "open"
                  /\ sendQ' = sendQ \ {m} /\ wire' = wire \cup {m} /\ tInvoke' = tInvoke + 1
                  /\ UNCHANGED <<eff, msgID, pc, cid, out, st, resp, queueLen, mgrInvoke, conn, dialer, dmode, dialT, seen, pkt, rst, rch, lookT, now>>
PeerGet(m) == /\ m \in wire /\ conn = "open"
              /\ wire' = wire \ {m} /\ seen' = Put(seen, m[1], m[2])
              /\ UNCHANGED <<eff, msgID, pc, cid, out, st, resp, queueLen, mgrInvoke, tInvoke, conn, dialer, dmode, dialT, sendQ, pkt, rst, rch, lookT, now>>
PeerIds == DOMAIN seen \cup Foreign
PeerSend(i) == /\ Len(pkt) < NPkts /\ conn = "open" /\ i \in PeerIds
               /\ pkt' = Append(pkt, [id |-> i, tag |-> IF i \in DOMAIN seen THEN seen[i] ELSE 0, t |-> IF Stamp THEN now ELSE 0])
               /\ rst' = Append(rst, "net") /\ rch' = Append(rch, 0) /\ lookT' = Append(lookT, 0)
               /\ UNCHANGED <<eff, msgID, pc, cid, out, st, resp, queueLen, mgrInvoke, tInvoke, conn, dialer, dmode, dialT, sendQ, wire, seen, now>>
\* the connection goes away (closed by the peer, or by the client after an unparsable frame): what was in flight is lost
ConnLost == /\ MayClose /\ conn = "open" /\ conn' = "closed" /\ wire' = {}
            /\ rst' = [q \in DOMAIN rst |-> IF rst[q] = "net" THEN "lost" ELSE rst[q]]
            /\ UNCHANGED <<eff, msgID, pc, cid, out, st, resp, queueLen, mgrInvoke, tInvoke, dialer, dmode, dialT, sendQ, seen, pkt, rch, lookT, now>>
\* connection's recv loop: one full packet -> invokeNum--, go Recv(pkg)
RecvOver == {"lost", "bad", "push", "dropped", "delivered", "gaveup"}
InOrder(q) == \A r \in 1..(q - 1) : IF InlineRecv THEN rst[r] \in RecvOver ELSE rst[r] # "net"      \* one TCP connection delivers in order
RecvPkgBody(q) == /\ q \in DOMAIN rst /\ rst[q] = "net" /\ conn = "open"
                    /\ rst' = [rst EXCEPT ![q] = "spawned"] /\ tInvoke' = tInvoke - 1
                    /\ UNCHANGED <<eff, msgID, pc, cid, out, st, resp, queueLen, mgrInvoke, conn, dialer, dmode, dialT, sendQ, wire, seen, pkt, rch, lookT, now>>
ClientRecvPkg(q) == q \in DOMAIN rst /\ InOrder(q) /\ RecvPkgBody(q)
\* ---------------------------------------------------------------- receiver goroutine of packet q (AdapterProxy.Recv)
RecvStart(q) == /\ q \in DOMAIN rst /\ rst[q] = "spawned"
                /\ rst' = [rst EXCEPT ![q] = IF pkt[q].id = GARB THEN "bad" ELSE IF pkt[q].id = 0 THEN "push" ELSE "begun"]
                /\ UNCHANGED <<eff, msgID, pc, cid, out, st, resp, queueLen, mgrInvoke, tInvoke, conn, dialer, dmode, dialT, sendQ, wire, seen, pkt, rch, lookT, now>>
Lookup(q) == /\ q \in DOMAIN rst /\ rst[q] = "begun"
             /\ IF pkt[q].id \in DOMAIN resp
                THEN rst' = [rst EXCEPT ![q] = "found"] /\ rch' = [rch EXCEPT ![q] = resp[pkt[q].id]] /\ lookT' = [lookT EXCEPT ![q] = now]
                ELSE rst' = [rst EXCEPT ![q] = "dropped"] /\ UNCHANGED <<eff, rch, lookT>>
             /\ UNCHANGED <<eff, msgID, pc, cid, out, st, resp, queueLen, mgrInvoke, tInvoke, conn, dialer, dmode, dialT, sendQ, wire, seen, pkt, now>>
\* rendezvous on the unbuffered reply channel: only with the caller that owns the channel, only while it is in its select
Deliver(q) == /\ q \in DOMAIN rst /\ rst[q] = "found" /\ pc[rch[q]] = "wait" /\ RecvOffers
              /\ rst' = [rst EXCEPT ![q] = "delivered"] /\ Finish(rch[q], "reply", q) /\ Goto(rch[q], "unreg1")
              /\ UNCHANGED <<eff, msgID, cid, st, resp, queueLen, mgrInvoke, tInvoke, conn, dialer, dmode, dialT, sendQ, wire, seen, pkt, rch, lookT, now>>
GaveUpDue(q) == ~Timed \/ now >= lookT[q] + ReadTO
GiveUp(q) == /\ q \in DOMAIN rst /\ rst[q] = "found" /\ GaveUpDue(q)
             /\ rst' = [rst EXCEPT ![q] = "gaveup"]
             /\ UNCHANGED <<eff, msgID, pc, cid, out, st, resp, queueLen, mgrInvoke, tInvoke, conn, dialer, dmode, dialT, sendQ, wire, seen, pkt, rch, lookT, now>>
\* ---------------------------------------------------------------- time: advances only when nothing internal can move
Urgent == \/ \E c \in Callers : pc[c] \in {"idle", "cas", "add", "pre", "sel", "reg1", "reg2", "unreg1", "unreg2", "post"}
          \/ \E c \in Callers : pc[c] = "send" /\ dialer = 0
          \/ \E c \in Callers : pc[c] = "wait" /\ now >= st[c] + eff[c]
          \/ dialer # 0 /\ (dmode # "blackhole" \/ now >= dialT + DialBound)
          \/ sendQ # {} /\ conn = "open"
          \/ \E q \in DOMAIN rst : rst[q] \in {"spawned", "begun"}
          \/ \E q \in DOMAIN rst : rst[q] = "net" /\ conn = "open" /\ InOrder(q)      \* the network takes no time (a late reply is one the peer writes late)
          \/ \E q \in DOMAIN rst : rst[q] = "found" /\ ((RecvOffers /\ pc[rch[q]] = "wait") \/ now >= lookT[q] + ReadTO)
Tick == /\ Timed /\ now < Horizon /\ ~Urgent /\ now' = now + 1
        /\ UNCHANGED <<eff, msgID, pc, cid, out, st, resp, queueLen, mgrInvoke, tInvoke, conn, dialer, dmode, dialT, sendQ, wire, seen, pkt, rst, rch, lookT>>

CallerStep(c) == Start(c) \/ GenCAS(c) \/ GenAdd(c) \/ Pre(c) \/ Sel(c) \/ Reg1(c) \/ Reg2(c) \/ SendOpen(c) \/ DialStart(c)
                 \/ DialDone(c) \/ Timeout(c) \/ Unreg1(c) \/ Unreg2(c) \/ Post(c)
RecvStep(q) == ClientRecvPkg(q) \/ RecvStart(q) \/ Lookup(q) \/ Deliver(q) \/ GiveUp(q)
HurryC == {c \in Callers : pc[c] \in Transient}
HurryQ == {q \in DOMAIN rst : rst[q] \in Transient}
HurryS == IF "sendq" \in Transient /\ conn = "open" THEN sendQ ELSE {}
Next == IF HurryC # {} THEN \E c \in HurryC : CallerStep(c) ELSE
        IF HurryQ # {} THEN \E q \in HurryQ : RecvStep(q) ELSE
        IF HurryS # {} THEN \E m \in HurryS : SenderWrite(m) ELSE
        \/ \E c \in Callers : CallerStep(c)
        \/ \E m \in sendQ : SenderWrite(m)
        \/ \E m \in wire : PeerGet(m)
        \/ \E i \in PeerIds : PeerSend(i)
        \/ ConnLost
        \/ \E q \in 1..NPkts : RecvStep(q)
        \/ Tick
Spec == Init /\ [][Next]_vars

\* ================================================================ properties
InFlight(c) == pc[c] \notin {"idle", "done"}
HasId(c) == pc[c] \notin {"idle", "cas", "add"}
Outstanding(c) == HasId(c) /\ pc[c] # "done"
TypeOK == /\ msgID \in Ids /\ conn \in {"closed", "open"} /\ dialer \in Callers \cup {0}
          /\ \A c \in Callers : cid[c] \in Ids /\ out[c].k \in {"none", "reply", "timeout", "senderr", "full"}
          /\ Len(pkt) <= NPkts /\ Len(rst) = Len(pkt) /\ Len(rch) = Len(pkt) /\ Len(lookT) = Len(pkt)
          /\ DOMAIN resp \subseteq Ids
\* ---- C08
\* a caller that finishes with a reply got a packet whose id is its own request id and whose payload is f(its own request)
\* (tag 0: the peer used the id before it saw the request; it then has nothing to derive the payload from)
ReplyMatches == \A c \in Callers : out[c].k = "reply" =>
                   /\ out[c].p \in DOMAIN pkt /\ pkt[out[c].p].id = cid[c] /\ pkt[out[c].p].tag \in {0, c}
IdNonZero == \A c \in Callers : HasId(c) => cid[c] # 0
IdsDistinct == LET O == {c \in Callers : Outstanding(c)} IN Cardinality({cid[c] : c \in O}) = Cardinality(O)   \* pairwise distinct
\* a packet is handed to at most one caller, a caller takes at most one packet
OnePacketOneCaller == LET R == {c \in Callers : out[c].k = "reply"} IN Cardinality({out[c].p : c \in R}) = Cardinality(R)
\* ---- C09: accounting (nothing is held by a call that is not in the corresponding section), hence no residue
Registered(c) == pc[c] \in {"send", "dial", "wait", "unreg1", "unreg2"}
AcctQueue == queueLen = Cardinality({c \in Callers : pc[c] \in {"reg2", "send", "dial", "wait", "unreg1"}})
AcctMgr == mgrInvoke = Cardinality({c \in Callers : pc[c] \in {"sel", "reg1", "reg2", "send", "dial", "wait", "unreg1", "unreg2", "post"}})
AcctResp == /\ \A i \in DOMAIN resp : Registered(resp[i]) /\ cid[resp[i]] = i
            /\ \A c \in Callers : Registered(c) => (cid[c] \in DOMAIN resp /\ resp[cid[c]] = c)
Quiet == \A c \in Callers : ~InFlight(c)
NoResidue == Quiet => (DOMAIN resp = {} /\ queueLen = 0 /\ mgrInvoke = 0)
\* connection.invokeNum: +1 per request written, -1 per packet received; it is back only if every written request is
\* answered exactly once and nothing else arrives (checked under PolitePeer; see MC_transport_kf.cfg for the rest)
TransportBack == (Quiet /\ sendQ = {} /\ \A q \in DOMAIN rst : rst[q] \notin {"net"}) => tInvoke = 0
\* every call is over by its effective deadline plus the connection-establishment bound
DeadlineInv == Timed => \A c \in Callers : InFlight(c) => now <= st[c] + eff[c] + DialBound
\* non-interference in time: a call does not end with a timeout when the peer wrote a reply carrying its id (having seen its
\* request) before its deadline on a connection that stayed open -- whatever else arrived before that reply (duplicates, late
\* replies of other calls, foreign ids, pushes, garbage).  Not claimed for ReadTimeout 0 as the code is (RecvOffers = FALSE).
ReplyInTime == (Timed /\ RecvOffers /\ Stamp) =>
                 \A c \in Callers : out[c].k = "timeout" =>
                    ~\E q \in DOMAIN pkt : pkt[q].id = cid[c] /\ pkt[q].tag = c /\ pkt[q].t < st[c] + eff[c] /\ rst[q] # "lost"
\* ReadTimeout 0 as the code is: no call ever ends with a reply (what MC_c09_read0 shows besides the deadline and the residue)
NoReplyAtAll == \A c \in Callers : out[c].k # "reply"
\* a step of the receiver of a packet addressed to no call in flight (late, duplicate after delivery, foreign, push, garbage)
\* changes no call and no counter of a call
LateReplyHarmless ==
  [][\A q \in DOMAIN rst :
       (rst'[q] # rst[q] /\ ~\E c \in Callers : pc[c] = "wait" /\ cid[c] = pkt[q].id)
          => UNCHANGED <<pc, cid, out, resp, queueLen, mgrInvoke>>]_vars
\* a receiver never changes a caller other than the one whose id the packet carries
OnlyAddressee ==
  [][\A c \in Callers : (out'[c] # out[c] /\ out'[c].k = "reply") => pkt[out'[c].p].id = cid[c]]_vars
=============================================================================
