CONSTANTS Callers <- C2  MaxId = 4  StartIds = {3}  NPkts = 1  Foreign = {}  QMax = 9  Timed = FALSE  TO <- TO2  DialBound = 1  ReadTO = 1  Horizon = 0  SerialDial = TRUE  DialModes <- AllModes  MayClose = TRUE  RecvOffers = TRUE  Stamp = FALSE  InlineRecv = FALSE  Transient <- LocalRx
          FilterActs <- AllActs  MaxPasses = 1  RejectPosts = TRUE
SPECIFICATION SpecF
INVARIANTS TypeOKF ReplyMatches IdNonZero OnePacketOneCaller AcctQueue AcctMgr AcctResp NoResidue
PROPERTIES LateReplyHarmless OnlyAddressee UntouchedByRejected
CHECK_DEADLOCK FALSE
