CONSTANTS Callers <- C2  MaxId = 4  StartIds = {3}  NPkts = 2  Foreign = {}  QMax = 0  Timed = FALSE  TO <- TO2  DialBound = 1  ReadTO = 1  Horizon = 0  SerialDial = TRUE  DialModes <- AllModes  MayClose = TRUE  RecvOffers = TRUE  Stamp = FALSE  InlineRecv = FALSE  Transient <- LocalRx
SPECIFICATION Spec
INVARIANTS TypeOK ReplyMatches IdNonZero IdsDistinct OnePacketOneCaller AcctQueue AcctMgr AcctResp NoResidue
PROPERTIES LateReplyHarmless OnlyAddressee
CHECK_DEADLOCK FALSE
