CONSTANTS
  MaxDepth = 3
INIT Init
NEXT Next
INVARIANTS TypeOK Deterministic TokensKnown StackOnlyInTypes NoDeadEnd
CHECK_DEADLOCK FALSE
