---- MODULE IdlGrammar ----
(* C16, clause 2.  The Tars IDL as a token-level pushdown automaton.                                     *)
(*                                                                                                      *)
(* This module is the REFERENCE for "is this token sequence a program of the supported language";      *)
(* it is written from the language description (modules, enums, constants, structs, interfaces,        *)
(* hash keys, includes), not from tars2go's parser.  A configuration is a control location, the        *)
(* production a type is being read for (ctx), the class of the last complete top-level type (tc:       *)
(* decides which default literals / array suffixes are in the language) and a stack of the type        *)
(* constructors still open ("V" vector<, "MK" map< before the comma, "MV" map< after the comma).       *)
(*                                                                                                      *)
(* Tokens are lexeme CLASSES; harness (lib/idlgen.py) chooses the lexemes so that acceptance by this   *)
(* automaton implies a semantically valid program: "name" is always a fresh identifier, "sref" /       *)
(* "eref" / "emem" name a struct / enum / enum member that is visible, "num" is a small non-negative   *)
(* integer (the next unused tag in tag position), "big" an integer above 255, "neg" a negative one.    *)
(*                                                                                                      *)
(* Trans(c) lists, for configuration c, the transitions that have a successor:                         *)
(*   kind "ok"     the token is viable here (in the language);                                         *)
(*   kind "soft"   NOT in the language, but a parser that does not look closely could continue in      *)
(*                 `to` (tag above 255, fixed array of bytes, literal of the wrong class, container    *)
(*                 as map key ...); `why` names the class (it becomes the signature; every literal    *)
(*                 that is not a value of the declared type is one class, literal-type-mismatch);      *)
(*   kind "beyond" viable in the language but beyond the stack bound of this model (never judged).     *)
(* Every other token is not viable in c ("hard").                                                      *)
EXTENDS Integers, Sequences, FiniteSets, TLC

CONSTANT MaxDepth     \* bound on the stack of open type constructors

Punct   == {"{", "}", ";", "=", "<", ">", ",", "(", ")", "[", "]"}
Keyword == {"#include", "module", "enum", "struct", "interface", "const", "key", "require", "optional",
            "unsigned", "void", "out", "true", "false", "vector", "map"}
Scalar  == {"bool", "byte", "int", "long", "float", "string"}   \* "int" stands for short|int, "float" for float|double
NameTok == {"name", "sref", "eref", "emem"}
LitNum  == {"num", "big", "neg", "flt"}
Literal == LitNum \cup {"str", "true", "false", "emem"}
Alphabet == Punct \cup Keyword \cup Scalar \cup NameTok \cup LitNum \cup {"str"}

Cfg(ctl, ctx, tc, stack) == [ctl |-> ctl, ctx |-> ctx, tc |-> tc, stack |-> stack]
At(ctl) == Cfg(ctl, "", "", <<>>)
InitCfg == At("F0")
Accepting(c) == c.ctl \in {"F0", "F1"}

Ok(t, to)        == [t |-> t, to |-> to, kind |-> "ok", why |-> ""]
Soft(t, to, why) == [t |-> t, to |-> to, kind |-> "soft", why |-> why]
Beyond(t, c)     == [t |-> t, to |-> c, kind |-> "beyond", why |-> "stack-bound"]

Top(c) == IF c.stack = <<>> THEN "" ELSE c.stack[Len(c.stack)]
Pop(s) == SubSeq(s, 1, Len(s) - 1)

\* the literals that denote a value of a type of class tc
Lits(tc) == CASE tc = "bool"   -> {"true", "false"}
              [] tc = "byte"   -> {"num", "neg"}
              [] tc = "int"    -> {"num", "big", "neg"}
              [] tc = "long"   -> {"num", "big", "neg"}
              [] tc = "ubyte"  -> {"num"}
              [] tc = "uint"   -> {"num", "big"}
              [] tc = "float"  -> {"num", "big", "neg", "flt"}
              [] tc = "string" -> {"str"}
              [] tc = "enum"   -> {"emem", "num"}
              [] OTHER         -> {}
ScalarClass == {"bool", "byte", "int", "long", "ubyte", "uint", "float", "string"}

\* a complete type of class cls has been read in configuration c
Done(c, cls) ==
  IF c.stack # <<>> THEN [c EXCEPT !.ctl = "T_CLOSE"]
  ELSE CASE c.ctx = "SM" -> Cfg("SM_NAME", "", cls, <<>>)
         [] c.ctx = "C"  -> Cfg("C_NAME", "", cls, <<>>)
         [] c.ctx = "FR" -> At("IF_NAME")
         [] c.ctx = "FP" -> At("IP_NAME")

\* transitions that begin a type, for the production ctx
TypeStart(c0, ctx) ==
  LET c == [c0 EXCEPT !.ctx = ctx, !.ctl = "T", !.tc = ""]
      inKey == Top(c) = "MK"
      open(t, ctl) == IF inKey THEN Soft(t, [c EXCEPT !.ctl = ctl], "container-as-map-key")
                      ELSE IF Len(c.stack) >= MaxDepth THEN Beyond(t, c)
                      ELSE Ok(t, [c EXCEPT !.ctl = ctl])
  IN {Ok(s, Done(c, s)) : s \in Scalar}
     \cup {Ok("unsigned", [c EXCEPT !.ctl = "T_UNS"])}
     \cup (IF ctx = "C" THEN {}
           ELSE {Ok("sref", Done(c, "struct")), Ok("eref", Done(c, "enum")),
                 open("vector", "TV_LT"), open("map", "TM_LT")})

Trans(c) ==
  LET ctl == c.ctl IN
  CASE ctl = "F0" -> {Ok("#include", At("F_INC")), Ok("module", At("M_NAME"))}
    [] ctl = "F1" -> {Soft("#include", At("F_INC1"), "include-after-module"), Ok("module", At("M_NAME"))}
    [] ctl = "F_INC"  -> {Ok("str", At("F0"))}
    [] ctl = "F_INC1" -> {Ok("str", At("F1"))}
    [] ctl = "M_NAME" -> {Ok("name", At("M_OPEN"))}
    [] ctl = "M_OPEN" -> {Ok("{", At("M_BODY"))}
    [] ctl = "M_BODY" -> {Ok("enum", At("E_NAME")), Ok("struct", At("S_NAME")), Ok("interface", At("I_NAME")),
                          Ok("const", At("C_TYPE")), Ok("key", At("K_OPEN")), Ok("}", At("M_END"))}
    [] ctl = "M_END"  -> {Ok(";", At("F1"))}
    \* ---- enum E { A, B = 3, C = A };
    [] ctl = "E_NAME"  -> {Ok("name", At("E_OPEN"))}
    [] ctl = "E_OPEN"  -> {Ok("{", At("E_FIRST"))}
    [] ctl = "E_FIRST" -> {Ok("name", At("E_MEM1"))}
    [] ctl = "E_MEM1"  -> {Ok(",", At("E_NEXT")), Ok("=", At("E_VAL1")), Ok("}", At("E_END"))}
    [] ctl = "E_MEM"   -> {Ok(",", At("E_NEXT")), Ok("=", At("E_VAL")), Ok("}", At("E_END"))}
    [] ctl = "E_NEXT"  -> {Ok("name", At("E_MEM"))}
    [] ctl = "E_VAL1"  -> {Ok(l, At("E_AFTERVAL")) : l \in {"num", "big", "neg"}}
    [] ctl = "E_VAL"   -> {Ok(l, At("E_AFTERVAL")) : l \in {"num", "big", "neg", "emem"}}   \* emem: an earlier member of this enum
    [] ctl = "E_AFTERVAL" -> {Ok(",", At("E_NEXT")), Ok("}", At("E_END"))}
    [] ctl = "E_END"   -> {Ok(";", At("M_BODY"))}
    \* ---- const T N = literal;
    [] ctl = "C_TYPE" -> TypeStart(c, "C")
    [] ctl = "C_NAME" -> {Ok("name", [c EXCEPT !.ctl = "C_EQ"])}
    [] ctl = "C_EQ"   -> {Ok("=", [c EXCEPT !.ctl = "C_VAL"])}
    [] ctl = "C_VAL"  -> {IF l \in Lits(c.tc) THEN Ok(l, At("C_SEMI")) ELSE Soft(l, At("C_SEMI"), "literal-type-mismatch")
                          : l \in Literal \ {"emem"}}
    [] ctl = "C_SEMI" -> {Ok(";", At("M_BODY"))}
    \* ---- struct S { tag require|optional type name [ [n] | = literal ] ; ... };
    [] ctl = "S_NAME" -> {Ok("name", At("S_OPEN"))}
    [] ctl = "S_OPEN" -> {Ok("{", At("S_BODY"))}
    [] ctl = "S_BODY" -> {Ok("num", At("SM_REQ")), Soft("big", At("SM_REQ"), "tag-over-255"), Soft("neg", At("SM_REQ"), "tag-negative"),
                          Ok("}", At("S_END"))}
    [] ctl = "SM_REQ"  -> {Ok("require", At("SM_TYPE")), Ok("optional", At("SM_TYPE"))}
    [] ctl = "SM_TYPE" -> TypeStart(c, "SM")
    [] ctl = "SM_NAME" -> {Ok("name", [c EXCEPT !.ctl = "SM_AFTER"])}
    [] ctl = "SM_AFTER" ->
         {Ok(";", At("S_BODY"))}
         \cup {IF c.tc \in {"byte", "ubyte"} THEN Soft("[", At("SM_ARRLEN"), "fixed-array-of-bytes") ELSE Ok("[", At("SM_ARRLEN"))}
         \cup {IF c.tc \in ScalarClass \cup {"enum"} THEN Ok("=", [c EXCEPT !.ctl = "SM_DEF"])
               ELSE Soft("=", [c EXCEPT !.ctl = "SM_DEF"], "default-on-" \o c.tc)}
    [] ctl = "SM_ARRLEN"   -> {Ok("num", At("SM_ARRCLOSE")), Ok("big", At("SM_ARRCLOSE")), Soft("neg", At("SM_ARRCLOSE"), "array-length-negative")}
    [] ctl = "SM_ARRCLOSE" -> {Ok("]", At("SM_SEMI"))}
    [] ctl = "SM_DEF" -> {IF l \in Lits(c.tc) \/ c.tc \notin ScalarClass \cup {"enum"} THEN Ok(l, At("SM_SEMI"))
                          ELSE Soft(l, At("SM_SEMI"), "literal-type-mismatch") : l \in Literal}
    [] ctl = "SM_SEMI" -> {Ok(";", At("S_BODY"))}
    [] ctl = "S_END"   -> {Ok(";", At("M_BODY"))}
    \* ---- types
    [] ctl = "T"      -> TypeStart(c, c.ctx)
    [] ctl = "T_UNS"  -> {Ok("byte", Done(c, "ubyte")), Ok("int", Done(c, "uint"))}
    [] ctl = "TV_LT"  -> {Ok("<", [c EXCEPT !.ctl = "T", !.stack = Append(@, "V")])}
    [] ctl = "TM_LT"  -> {Ok("<", [c EXCEPT !.ctl = "T", !.stack = Append(@, "MK")])}
    [] ctl = "T_CLOSE" ->
         (CASE Top(c) = "V"  -> {Ok(">", Done([c EXCEPT !.stack = Pop(@)], "cont"))}
            [] Top(c) = "MK" -> {Ok(",", [c EXCEPT !.ctl = "T", !.stack = Append(Pop(@), "MV")])}
            [] Top(c) = "MV" -> {Ok(">", Done([c EXCEPT !.stack = Pop(@)], "cont"))}
            [] OTHER -> {})
    \* ---- interface I { ret f(in, out ...); };
    [] ctl = "I_NAME" -> {Ok("name", At("I_OPEN"))}
    [] ctl = "I_OPEN"  -> {Ok("{", At("I_FIRST"))}
    \* an interface declares at least one function (the language speaks of "interfaces with parameters and return values")
    [] ctl = "I_FIRST" -> {Ok("void", At("IF_NAME")), Soft("}", At("I_END"), "empty-interface")} \cup TypeStart(c, "FR")
    [] ctl = "I_BODY"  -> {Ok("void", At("IF_NAME")), Ok("}", At("I_END"))} \cup TypeStart(c, "FR")
    [] ctl = "IF_NAME" -> {Ok("name", At("IF_LP"))}
    [] ctl = "IF_LP"   -> {Ok("(", At("IP_FIRST"))}
    [] ctl = "IP_FIRST" -> {Ok(")", At("IF_SEMI")), Ok("out", At("IP_TYPE"))} \cup TypeStart(c, "FP")
    [] ctl = "IP_TYPE"  -> TypeStart(c, "FP")
    [] ctl = "IP_NAME"  -> {Ok("name", At("IP_AFTER"))}
    [] ctl = "IP_AFTER" -> {Ok(",", At("IP_NEXT")), Ok(")", At("IF_SEMI"))}
    [] ctl = "IP_NEXT"  -> {Ok("out", At("IP_TYPE"))} \cup TypeStart(c, "FP")
    [] ctl = "IF_SEMI"  -> {Ok(";", At("I_BODY"))}
    [] ctl = "I_END"    -> {Ok(";", At("M_BODY"))}
    \* ---- key[S, m1, m2];
    [] ctl = "K_OPEN"  -> {Ok("[", At("K_S"))}
    [] ctl = "K_S"     -> {Ok("sref", At("K_C"))}
    [] ctl = "K_C"     -> {Ok(",", At("K_M"))}
    [] ctl = "K_M"     -> {Ok("name", At("K_AFTER"))}
    [] ctl = "K_AFTER" -> {Ok(",", At("K_M")), Ok("]", At("K_SEMI"))}
    [] ctl = "K_SEMI"  -> {Ok(";", At("M_BODY"))}
    [] OTHER -> {}

\* the construct a configuration lies in (names the context in signatures)
Region(c) ==
  LET ctl == c.ctl IN
  CASE ctl \in {"F0", "F1", "F_INC", "F_INC1"} -> "file"
    [] ctl \in {"M_NAME", "M_OPEN"} -> "module-head"
    [] ctl = "M_BODY" -> "module-body"
    [] ctl \in {"M_END", "E_END", "S_END", "I_END"} -> "closing-semicolon"
    [] ctl \in {"E_NAME", "E_OPEN"} -> "enum-head"
    [] ctl \in {"E_FIRST", "E_MEM1", "E_MEM", "E_NEXT", "E_VAL1", "E_VAL", "E_AFTERVAL"} -> "enum-body"
    [] ctl \in {"C_TYPE", "C_NAME", "C_EQ", "C_VAL", "C_SEMI"} -> "const"
    [] ctl \in {"S_NAME", "S_OPEN"} -> "struct-head"
    [] ctl \in {"S_BODY", "SM_REQ", "SM_TYPE", "SM_NAME", "SM_AFTER", "SM_ARRLEN", "SM_ARRCLOSE", "SM_DEF", "SM_SEMI"} -> "struct-body"
    [] ctl \in {"I_NAME", "I_OPEN"} -> "interface-head"
    [] ctl \in {"I_FIRST", "I_BODY", "IF_NAME", "IF_LP", "IP_FIRST", "IP_TYPE", "IP_NAME", "IP_AFTER", "IP_NEXT", "IF_SEMI"} -> "interface-body"
    [] ctl \in {"K_OPEN", "K_S", "K_C", "K_M", "K_AFTER", "K_SEMI"} -> "key"
    [] ctl \in {"T", "T_UNS", "TV_LT", "TM_LT", "T_CLOSE"} ->
         (CASE c.ctx = "SM" -> "struct-body" [] c.ctx = "C" -> "const" [] OTHER -> "interface-body")
    [] OTHER -> "unknown"

\* ---- running the automaton over a token sequence (the oracle's judgement)
\* result: ok = the sequence followed by end of input is a program of the language; otherwise the first
\* position `at` where it leaves the language, the configuration there, the offending token ("eof" at the
\* end), and kind/why of the rejection ("hard": not viable at all)
RECURSIVE Run(_, _, _)
Run(c, toks, i) ==
  IF i > Len(toks)
    THEN [ok |-> Accepting(c), at |-> i, c |-> c, t |-> "eof", kind |-> IF Accepting(c) THEN "ok" ELSE "hard", why |-> ""]
  ELSE LET trs == {tr \in Trans(c) : tr.t = toks[i]} IN
       IF trs = {} THEN [ok |-> FALSE, at |-> i, c |-> c, t |-> toks[i], kind |-> "hard", why |-> ""]
       ELSE LET tr == CHOOSE x \in trs : TRUE IN
            IF tr.kind = "ok" THEN Run(tr.to, toks, i + 1)
            ELSE [ok |-> FALSE, at |-> i, c |-> c, t |-> toks[i], kind |-> tr.kind, why |-> tr.why]
Parse(toks) == Run(InitCfg, toks, 1)
Accepts(toks) == Parse(toks).ok

\* ---- the automaton as a state machine (MC_IdlGrammar explores it)
VARIABLE cfg
Init == cfg = InitCfg
Next == \E tr \in Trans(cfg) : tr.kind = "ok" /\ cfg' = tr.to
Spec == Init /\ [][Next]_cfg

TypeOK == /\ cfg.ctl \in STRING /\ Len(cfg.stack) <= MaxDepth
          /\ \A i \in 1..Len(cfg.stack) : cfg.stack[i] \in {"V", "MK", "MV"}
Deterministic == \A a, b \in Trans(cfg) : a.t = b.t => a = b
TokensKnown == \A tr \in Trans(cfg) : tr.t \in Alphabet
\* the stack is non-empty exactly while a type is being read; tc is set exactly where a literal / suffix depends on it
StackOnlyInTypes == cfg.stack # <<>> => cfg.ctl \in {"T", "T_UNS", "TV_LT", "TM_LT", "T_CLOSE"}
NoDeadEnd == Accepting(cfg) \/ \E tr \in Trans(cfg) : tr.kind = "ok"
====
