---- MODULE Oracle_IncludeGraphs ----
(* Batch oracle for the include graphs of IdlIncludeGraphs.tla: one record per run of the real tars2go binary on   *)
(* the files of a graph.                                                                                          *)
(*   r = [id, inc, layout, rc, runaway, diag, compiled]                                                           *)
(*   inc      the graph (r.inc[i] = include lines of file i, 0 = a file that does not exist; file 1 is the root)  *)
(*   runaway  the run did not end by itself within the limit (confirmed by a second, longer run on its own), or   *)
(*            ended because the Go runtime ran out of stack: it would have gone on for ever                       *)
(*   rc       exit status;  diag: a non-zero exit came with a message;  compiled: what exit 0 emitted compiles    *)
(* Judgement (the reference decides the class from the graph alone, the layout of the files does not matter):     *)
(*   never a runaway run;                                                                                         *)
(*   in the language (no cycle, nothing missing below the root -- diamonds and triangles included)                *)
(*        => exit 0 and the emitted Go code compiles;                                                             *)
(*   otherwise => non-zero exit with a message, or (lenient, reported as an observation, DESIGN.md's operational   *)
(*        reading of "with a diagnostic") exit 0 with output that compiles.                                       *)
EXTENDS IdlIncludeGraphs
Recs == ndJsonDeserialize("recs.ndjson")
WellFormed(r) == Len(r.inc) >= 1 /\ Closed(r.inc) /\ \A i \in Files(r.inc) : \A t \in RangeOf(r.inc[i]) : t >= 0
Info(r) ==
  LET wf == WellFormed(r)
      lang == wf /\ InLanguage(r.inc)
      v == IF ~wf THEN "malformed-record"
           ELSE IF r.runaway THEN "hang"
           ELSE IF lang THEN (IF r.rc # 0 THEN "valid-rejected" ELSE IF ~r.compiled THEN "valid-does-not-compile" ELSE "ok")
           ELSE IF r.rc = 0 THEN (IF ~r.compiled THEN "accepted-but-does-not-compile" ELSE "ok")
           ELSE IF ~r.diag THEN "no-diagnostic" ELSE "ok"
  IN [v |-> v, lang |-> lang, lenient |-> (wf /\ ~lang /\ ~r.runaway /\ r.rc = 0 /\ r.compiled),
      class |-> IF wf THEN Class(r.inc) ELSE [lang |-> FALSE]]
Infos == [i \in 1..Len(Recs) |-> Info(Recs[i])]
Bad == {i \in 1..Len(Recs) : Infos[i].v # "ok"}
ASSUME PrintT(<<"ORACLE", Len(Recs), Bad>>)
ASSUME PrintT(ToJson([bad |-> [i \in Bad |-> Infos[i]],
                      nlang |-> Cardinality({i \in 1..Len(Recs) : Infos[i].lang}),
                      lenient |-> {i \in 1..Len(Recs) : Infos[i].lenient}]))
ONext == g' = g
====
