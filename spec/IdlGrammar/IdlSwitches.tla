---- MODULE IdlSwitches ----
(* C16, clause 1, "switches".  The statement quantifies over IDL files; the tool's boolean switches that change *)
(* the code it emits are part of the tool, so "emits Go code that compiles ... and whose codecs, proxies and     *)
(* dispatchers satisfy ..." has to hold under every combination of them.  This module is the family of switch    *)
(* combinations: one state per total assignment (TLC enumerates all of them); the harness gives every program    *)
(* of a batch its own combination, so that the compile, codec and call-transparency stages all run on code       *)
(* emitted under it.  Switches that do not change the emitted code (-debug) or name a location (-outdir,         *)
(* -module, -tarsPath, -I) are not part of the family.                                                           *)
(*   add-servant        AddServant / AddServantWithContext methods (default on)                                  *)
(*   without-trace      no call-chain tracing blocks in proxy and dispatcher                                     *)
(*   dispatch-reporter  dispatcher hands arguments and results to tars.GetDispatchReporter()                     *)
(*   json-omitempty     `omitempty` in the json struct tags                                                      *)
(*   module-cycle       packages are placed under <file>/<module> and imported under the alias <file>_<module>   *)
(*   module-upper       first letter of module (package) names is upper-cased                                    *)
(*   E                  the emitted text is not passed through gofmt                                             *)
(*   include            (not a boolean of the tool: -include=<dirs>) the included files do not lie next to the   *)
(*                      including root file but in another directory, found through the search path              *)
EXTENDS TLC, Json
Switches == {"add-servant", "without-trace", "dispatch-reporter", "json-omitempty", "module-cycle", "module-upper", "E", "include"}
Default == [s \in Switches |-> s = "add-servant"]
VARIABLE sw
WInit == sw \in [Switches -> BOOLEAN]
WNext == UNCHANGED sw
NonDefault == {s \in Switches : sw[s] # Default[s]}
Emit == PrintT(ToJson([sw |-> sw, nondefault |-> NonDefault]))
ASSUME PrintT(ToJson([default |-> Default]))
====
