---- MODULE Oracle_Call ----
(* Batch oracle for the call-transparency part of C16, clause 1: one record per call made through the   *)
(* proxy tars2go generated for an operation of a sampled / enumerated program, looped back (in process,  *)
(* TARS version of the protocol) into the dispatcher it generated for the same operation, with a          *)
(* recording servant behind it.  The operation's meaning comes from the IDL text through the independent *)
(* extractor (lib/idl2schema.py): r.idl[i].out says whether parameter i is an output.  Values are         *)
(* canonical JSON strings; "-" stands for "no value" (the position cannot carry one in that direction).  *)
(*                                                                                                       *)
(*   r = [iface, fn, mode: "ctx" | "plain" | "oneway", hasret, idl: <<[out, ty]>>,                       *)
(*        missing  (no proxy method of that name), err (error / recovered panic of the call, "" = none), *)
(*        implcalls (how often the servant was entered),                                                 *)
(*        passed   <<what the caller handed to the proxy at position i>>,                                *)
(*        received <<what the servant saw at position i on entry>>,                                      *)
(*        produced <<what the servant stored into position i>>  ("-" when it got no pointer),            *)
(*        returned <<what the caller finds at position i afterwards>>  ("-" when it passed no pointer), *)
(*        retprod, retback  (return value produced by the servant / handed to the caller)]               *)
(*                                                                                                       *)
(* Reference (C01's statement, for the schema of the program): the implementation is entered exactly     *)
(* once and receives exactly the arguments the caller passed -- every INPUT parameter, whatever stands  *)
(* before it; the caller gets exactly what the implementation produced -- the return value and every     *)
(* OUTPUT parameter; a one-way call delivers its inputs exactly once and returns nothing.  Nothing is    *)
(* demanded about how a direction is spelled in Go (by value / by pointer): r.genptr is an observation. *)
EXTENDS Integers, Sequences, FiniteSets, TLC, Json
Recs == ndJsonDeserialize("recs.ndjson")

N(r) == Len(r.idl)
ArityOk(r) == Len(r.passed) = N(r) /\ Len(r.received) = N(r) /\ Len(r.produced) = N(r) /\ Len(r.returned) = N(r)
Ins(r) == {i \in 1..N(r) : ~r.idl[i].out}
Outs(r) == {i \in 1..N(r) : r.idl[i].out}
InBad(r) == {i \in Ins(r) : r.received[i] # r.passed[i]}
OutBad(r) == IF r.mode = "oneway" THEN {}
             ELSE {i \in Outs(r) : r.produced[i] = "-" \/ r.returned[i] # r.produced[i]}
RetBad(r) == r.mode # "oneway" /\ r.hasret /\ (r.retprod = "-" \/ r.retback # r.retprod)
Min(S) == CHOOSE x \in S : \A y \in S : x <= y
\* what stands before position i: "first" | "after-in" (only inputs before it) | "after-out" (an output somewhere before it)
Before(r, i) == IF i = 1 THEN "first" ELSE IF \E j \in 1..(i - 1) : r.idl[j].out THEN "after-out" ELSE "after-in"

SetToSeq(S) == LET RECURSIVE F(_) F(T) == IF T = {} THEN <<>> ELSE LET x == CHOOSE y \in T : TRUE IN <<x>> \o F(T \ {x}) IN F(S)
\* verdict, first failing position, its class, and every failing position (for the report)
Res(v, at, pos, all) == [v |-> v, at |-> at, pos |-> pos, all |-> SetToSeq(all)]
Info(r) ==
  IF r.missing THEN Res("no-proxy-method", 0, "", {})
  ELSE IF ~ArityOk(r) THEN Res("parameter-count", 0, "", {})
  ELSE IF r.err # "" THEN Res("call-fails", 0, "", {})
  ELSE IF r.implcalls # 1 THEN Res("servant-not-entered-exactly-once", 0, "", {})
  ELSE IF InBad(r) # {} THEN LET i == Min(InBad(r)) IN Res("in-param-not-delivered", i, "in-" \o Before(r, i), InBad(r))
  ELSE IF OutBad(r) # {} THEN LET i == Min(OutBad(r)) IN Res("out-param-not-returned", i, "out-" \o Before(r, i), OutBad(r))
  ELSE IF RetBad(r) THEN Res("return-value-not-returned", 0, IF Outs(r) = {} THEN "no-out-params" ELSE "with-out-params", {})
  ELSE Res("ok", 0, "", {})

Infos == [i \in 1..Len(Recs) |-> Info(Recs[i])]
Bad == {i \in 1..Len(Recs) : Infos[i].v # "ok"}
\* coverage of the corpus, measured by the reference: which (direction, what-stands-before) classes were exercised
Classes == UNION {{(IF Recs[k].idl[i].out THEN "out-" ELSE "in-") \o Before(Recs[k], i) : i \in 1..N(Recs[k])} : k \in 1..Len(Recs)}
ASSUME PrintT(<<"ORACLE", Len(Recs), Bad>>)
ASSUME PrintT(ToJson([bad |-> [i \in Bad |-> Infos[i]], classes |-> SetToSeq(Classes)]))
VARIABLE x
Init == x = 0
Next == x' = x
====
