---- MODULE IdlIncludes ----
(* C16, clause 1, "includes".  The family of INCLUDE GRAPHS over up to MaxFiles IDL files, and for each graph *)
(* the valid program that uses it.  File i carries one module; its include lines are inc[i]: a sequence,     *)
(* without repetition, of EARLIER files (so the graph is acyclic and the numbering a topological order;      *)
(* the ORDER of the lines is part of the state: <<1, 2>> and <<2, 1>> are two graphs).  TLC enumerates every  *)
(* state exhaustively (one state per graph); the graphs in which every file is reachable from the last one    *)
(* (the root handed to the generator) are emitted: chains, fans (one file with two or three include lines),   *)
(* triangles (a file includes a file and also what that file includes), diamonds (two included files share    *)
(* an include), every order of the include lines.                                                             *)
(*                                                                                                            *)
(* The program of a graph (format of IdlPrograms.tla's Program, plus `mods`): every file defines an enum, a   *)
(* small keyable struct K and a struct S; for EVERY include line of the file, S has a member of the included  *)
(* module's struct type, one of its enum type with a default given by member name, a vector / map over its    *)
(* types and a fixed array of its struct; every file that includes something declares two operations whose    *)
(* parameters and return values take a type from EVERY included module (first, middle and last line alike).   *)
(* A reference only ever goes to the file itself or to a file it includes directly (RefsIncluded): what is    *)
(* visible through an include of an include is left open by the statement and stays out of the family.       *)
(* `two`: the root file is written as TWO modules (the language allows several modules in a file): the first  *)
(* keeps the enum and K, the second holds S and the operations and refers to the first module's types as it   *)
(* does to those of the included files.                                                                       *)
EXTENDS Integers, Sequences, FiniteSets, TLC, Json
CONSTANTS MaxFiles

Ids == <<"A", "B", "C", "D", "E">>
VARIABLES inc, two
ivars == <<inc, two>>

N == Len(inc)
Range(s) == {s[p] : p \in 1..Len(s)}
\* sequences without repetition over S
OrdSubsets(S) == {s \in UNION {[1..n -> S] : n \in 0..Cardinality(S)} : \A a, b \in 1..Len(s) : a # b => s[a] # s[b]}

IInit == inc = << <<>> >> /\ two \in BOOLEAN
INext == /\ N < MaxFiles
         /\ \E s \in OrdSubsets(1..N) : inc' = Append(inc, s)
         /\ two' = two
ISpec == IInit /\ [][INext]_ivars

\* files reachable from i through include lines (numbering is topological: recursion goes down)
RECURSIVE Reach(_)
Reach(i) == Range(inc[i]) \cup UNION {Reach(j) : j \in Range(inc[i])}
Rooted == Reach(N) \cup {N} = 1..N
MaxInc == LET ls == {Len(inc[i]) : i \in 1..N} IN CHOOSE m \in ls : \A x \in ls : x <= m
\* a file includes a and b directly, and b is also visible through a
Triangle == \E i \in 1..N : \E a, b \in Range(inc[i]) : a # b /\ b \in Reach(a)
\* two include lines of one file lead, each through its own path, to a common third file
Diamond == \E i \in 1..N : \E a, b \in Range(inc[i]) : a # b /\ a \notin Reach(b) /\ b \notin Reach(a) /\ Reach(a) \cap Reach(b) # {}

\* ---- the program of the graph
T(k) == <<[k |-> k]>>
En(i) == <<[k |-> "enum", i |-> i]>>
St(x) == <<[k |-> "struct", i |-> x]>>
Vec(t) == <<[k |-> "vec"]>> \o t
Map(a, b) == <<[k |-> "map"]>> \o a \o b
Mem(tag, req, ty, def, arr) == [tag |-> tag, req |-> req, ty |-> ty, def |-> def, arr |-> arr]
K(i) == 2 * i - 1      \* index of file i's key struct in `structs`
S(i) == 2 * i          \* index of file i's struct S

\* what S of a file says about include line p (file j)
Nested(p, j) == IF p % 3 = 1 THEN Vec(St(S(j)))
                ELSE IF p % 3 = 2 THEN Map(St(K(j)), St(S(j)))
                ELSE Map(En(j), Vec(St(K(j))))
Refs(i, p) == LET j == inc[i][p] IN
  << Mem(10 * p, TRUE, St(K(j)), "none", 0),
     Mem(10 * p + 1, FALSE, En(j), "member", 0),
     Mem(10 * p + 2, FALSE, Nested(p, j), "none", 0),
     Mem(10 * p + 3, FALSE, St(K(j)), "none", 2) >>
RECURSIVE AllRefs(_, _)
AllRefs(i, p) == IF p > Len(inc[i]) THEN <<>> ELSE Refs(i, p) \o AllRefs(i, p + 1)

KStruct(i) == [mod |-> Ids[i], keyable |-> TRUE, plain |-> TRUE,
               mems |-> << Mem(0, TRUE, T("int"), "none", 0), Mem(1, FALSE, En(i), "none", 0) >>]
\* module of file i's struct S and operations: the second module of the root file when it is written as two
ModS(i) == IF two /\ i = N THEN Ids[N + 1] ELSE Ids[i]
SStruct(i) == [mod |-> ModS(i), keyable |-> FALSE, plain |-> FALSE,
               mems |-> << Mem(0, TRUE, St(K(i)), "none", 0), Mem(1, FALSE, T("long"), "lit:-5000000000", 0) >> \o AllRefs(i, 1)]
Structs == [x \in 1..(2 * N) |-> IF x % 2 = 1 THEN KStruct((x + 1) \div 2) ELSE SStruct(x \div 2)]
Enums == [i \in 1..N |-> [mod |-> Ids[i], vals |-> <<"auto", "num", "auto">>]]

\* operations of a file with include lines: every line gives a parameter (directions alternate), the last line the return type
Op1(i) == LET n == Len(inc[i]) IN
  [mod |-> ModS(i), ret |-> St(S(inc[i][n])),
   params |-> [p \in 1..n |-> [out |-> (p % 2 = 0), ty |-> St(S(inc[i][p]))]] \o <<[out |-> TRUE, ty |-> En(inc[i][1])]>>
              \o (IF two /\ i = N THEN <<[out |-> FALSE, ty |-> En(i)]>> ELSE <<>>)]
Op2(i) == LET n == Len(inc[i]) IN
  [mod |-> ModS(i), ret |-> <<>>,
   params |-> <<[out |-> FALSE, ty |-> En(inc[i][n])]>> \o [p \in 1..n |-> [out |-> (p % 2 = 1), ty |-> Vec(St(K(inc[i][p])))]]]
RECURSIVE Funcs(_)
Funcs(i) == IF i > N THEN <<>> ELSE (IF inc[i] = <<>> THEN <<>> ELSE <<Op1(i), Op2(i)>>) \o Funcs(i + 1)

IncIds(i) == IF inc[i] = <<>> THEN <<>> ELSE [p \in 1..Len(inc[i]) |-> Ids[inc[i][p]]]
Mods == [i \in 1..N |-> [id |-> Ids[i], file |-> Ids[i], inc |-> IncIds(i)]]
        \o (IF two THEN <<[id |-> Ids[N + 1], file |-> Ids[N], inc |-> IncIds(N)]>> ELSE <<>>)
Program == [mods |-> Mods, enums |-> Enums, consts |-> <<>>, structs |-> Structs, funcs |-> Funcs(1)]
Graph == [files |-> N, inc |-> inc, two |-> two, maxinc |-> MaxInc, triangle |-> Triangle, diamond |-> Diamond]

Emit == ~(N >= 2 /\ Rooted) \/ PrintT(ToJson([graph |-> Graph, program |-> Program]))

\* ---- well-formedness of every program of the family (checked on every state: the enumeration is exhaustive)
FileOf(m) == IF two /\ m = Ids[N + 1] THEN N ELSE CHOOSE i \in 1..N : Ids[i] = m
Allowed(i) == Range(inc[i]) \cup {i}
TyFiles(ty) == {FileOf(Structs[ty[p].i].mod) : p \in {q \in 1..Len(ty) : ty[q].k = "struct"}}
               \cup {ty[p].i : p \in {q \in 1..Len(ty) : ty[q].k = "enum"}}
RefsIncluded ==
  /\ \A x \in 1..(2 * N) : \A a \in 1..Len(Structs[x].mems) : TyFiles(Structs[x].mems[a].ty) \subseteq Allowed(FileOf(Structs[x].mod))
  /\ LET fs == Funcs(1) IN \A f \in 1..Len(fs) :
       /\ TyFiles(fs[f].ret) \subseteq Allowed(FileOf(fs[f].mod))
       /\ \A a \in 1..Len(fs[f].params) : TyFiles(fs[f].params[a].ty) \subseteq Allowed(FileOf(fs[f].mod))
\* every include line is used: by a member of the file's struct S and by a parameter of each of its operations
EveryIncludeUsed ==
  \A i \in 1..N : \A j \in Range(inc[i]) :
    /\ \E a \in 1..Len(Structs[S(i)].mems) : j \in TyFiles(Structs[S(i)].mems[a].ty)
    /\ LET fs == Funcs(1) IN \A f \in 1..Len(fs) :
         fs[f].mod = ModS(i) => \E a \in 1..Len(fs[f].params) : j \in TyFiles(fs[f].params[a].ty)
Acyclic == \A i \in 1..N : \A p \in 1..Len(inc[i]) : inc[i][p] < i
DistinctTags == \A x \in 1..(2 * N) : \A a, b \in 1..Len(Structs[x].mems) : a # b => Structs[x].mems[a].tag # Structs[x].mems[b].tag
TagsInRange == \A x \in 1..(2 * N) : \A a \in 1..Len(Structs[x].mems) : Structs[x].mems[a].tag \in 0..255
====
