INIT WInit
NEXT WNext
INVARIANT Emit
CHECK_DEADLOCK FALSE
