CONSTANTS
  MaxFiles = 5
  RootLines = 3
  OtherLines = 3
INIT GInit
NEXT ONext
