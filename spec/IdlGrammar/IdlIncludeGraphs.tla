---- MODULE IdlIncludeGraphs ----
(* C16, clauses 1 and 2 for `#include`: the family of ALL include graphs, not only the acyclic ones of            *)
(* IdlIncludes.tla.  A graph g is a sequence of files 1..Len(g); g[i] is the sequence of include lines of file i  *)
(* (their order is part of the graph); a line names a file of the graph -- any file: itself, an earlier one, a     *)
(* later one -- or Missing, a file that does not exist.  File 1 is the root handed to the generator.              *)
(*                                                                                                                *)
(* The reference: an include line brings in the whole named file, so the meaning of the root file is defined by   *)
(* unfolding the lines; the unfolding is finite exactly when no file that can be reached from the root lies on a  *)
(* cycle, and it exists exactly when no reachable file names a missing file.  InLanguage(g) says both; it is the  *)
(* class the statement's first sentence speaks about ("... includes"): diamonds (one file reached along two       *)
(* paths) and triangles are in the language.  Every other graph is "any other input": the tool has to terminate   *)
(* with a diagnostic.  Self-include, cycles of 2, 3, ... files, cycles through the root and cycles that only a    *)
(* later include line of the root leads to, missing files anywhere below the root are all in the family.          *)
(*                                                                                                                *)
(* TLC enumerates the family exhaustively, one state per graph (files are added one at a time; a line may name a  *)
(* file that is only added later).  Emitted: the graphs that are closed (every named file exists in the graph),   *)
(* and canonical: the files are numbered in the order in which a depth-first reading from the root, following the *)
(* include lines in their order, first meets them -- so every file is reachable from the root and no two emitted  *)
(* graphs differ only in the numbering.                                                                           *)
EXTENDS Integers, Sequences, FiniteSets, TLC, Json
CONSTANTS MaxFiles,      \* files per graph
          RootLines,     \* include lines of the root file, at most
          OtherLines     \* include lines of every other file, at most

Missing == 0
RangeOf(s) == {s[p] : p \in 1..Len(s)}
Files(g) == 1..Len(g)
Targets(g, i) == RangeOf(g[i]) \ {Missing}

\* ---- reference operators over a graph
\* files reached from i by exactly k include lines
RECURSIVE Layer(_, _, _)
Layer(g, i, k) == IF k = 1 THEN Targets(g, i) ELSE UNION {Targets(g, j) : j \in Layer(g, i, k - 1)}
\* ... by one or more lines (a path never needs more lines than there are files)
Reach(g, i) == UNION {Layer(g, i, k) : k \in 1..Len(g)}
OnCycle(g, i) == i \in Reach(g, i)
\* length of the shortest cycle through i
CycleLen(g, i) == CHOOSE k \in 1..Len(g) : i \in Layer(g, i, k) /\ \A m \in 1..(k - 1) : i \notin Layer(g, i, m)
\* what a reader that starts at file i gets to see
Below(g, i) == {i} \cup Reach(g, i)
Cyclic(g, i) == \E j \in Below(g, i) : OnCycle(g, j)
NamesMissing(g, i) == \E j \in Below(g, i) : Missing \in RangeOf(g[j])
Clean(g, i) == ~Cyclic(g, i) /\ ~NamesMissing(g, i)
InLanguage(g) == Clean(g, 1)

\* ---- classes (evidence and failure signatures; the verdict only needs InLanguage)
ShortestCycle(g) == IF ~Cyclic(g, 1) THEN 0
                    ELSE LET ls == {CycleLen(g, j) : j \in {x \in Below(g, 1) : OnCycle(g, x)}} IN CHOOSE m \in ls : \A x \in ls : m <= x
RootOnCycle(g) == OnCycle(g, 1)
\* the first include line of the root leads to nothing wrong: what is wrong is met through a later line only
BehindLaterLine(g) == /\ ~InLanguage(g) /\ Len(g[1]) >= 2
                      /\ g[1][1] # Missing /\ g[1][1] # 1 /\ 1 \notin Reach(g, g[1][1]) /\ Clean(g, g[1][1])
\* a file is included twice, along two paths (diamond: by two files that do not see each other; triangle: by a file and by what it includes)
Diamond(g) == \E i \in Files(g) : \E a, b \in Targets(g, i) : a # b /\ a \notin Below(g, b) /\ b \notin Below(g, a) /\ Reach(g, a) \cap Reach(g, b) # {}
Triangle(g) == \E i \in Files(g) : \E a, b \in Targets(g, i) : a # b /\ b \in Reach(g, a)
Class(g) == [lang |-> InLanguage(g), cycle |-> ShortestCycle(g), root_on_cycle |-> RootOnCycle(g), missing |-> NamesMissing(g, 1),
             later_line |-> BehindLaterLine(g), diamond |-> Diamond(g), triangle |-> Triangle(g)]

\* ---- the enumeration
VARIABLES g
gvars == <<g>>
\* sequences without repetition over S, up to n long
OrdSubsets(S, n) == {s \in UNION {[1..m -> S] : m \in 0..n} : \A a, b \in 1..Len(s) : a # b => s[a] # s[b]}
LinesOf(i) == OrdSubsets(0..MaxFiles, IF i = 1 THEN RootLines ELSE OtherLines)
GInit == g = <<>>
GNext == /\ Len(g) < MaxFiles
         /\ \E s \in LinesOf(Len(g) + 1) : g' = Append(g, s)
GSpec == GInit /\ [][GNext]_gvars

Closed(gr) == \A i \in Files(gr) : \A t \in RangeOf(gr[i]) : t <= Len(gr)
\* depth-first reading from file i, `seen` = the files met so far in the order of meeting
RECURSIVE Visit(_, _, _), VisitLines(_, _, _)
Visit(gr, i, seen) == IF i = Missing \/ i \in RangeOf(seen) THEN seen ELSE VisitLines(gr, gr[i], Append(seen, i))
VisitLines(gr, ls, seen) == IF ls = <<>> THEN seen ELSE VisitLines(gr, Tail(ls), Visit(gr, Head(ls), seen))
Canonical(gr) == Visit(gr, 1, <<>>) = [k \in 1..Len(gr) |-> k]

Emitted == Len(g) >= 1 /\ Closed(g) /\ Canonical(g)
Emit == ~Emitted \/ PrintT(ToJson([incgraph |-> g, class |-> Class(g)]))

\* ---- sanity of the reference on every emitted graph (checked on every state: the enumeration is exhaustive)
\* canonical numbering = every file is reachable from the root
AllReachable == Emitted => Below(g, 1) = Files(g)
\* a graph whose lines only go to later files is in the language unless it names a missing file (IdlIncludes' family, numbered the other way round)
ForwardOnlyIsAcyclic == (Emitted /\ \A i \in Files(g) : \A t \in Targets(g, i) : t > i) => ~Cyclic(g, 1)
\* a line that goes back to the file itself or to a file from which it was reached closes a cycle
SelfIncludeIsCyclic == (Emitted /\ \E i \in Files(g) : i \in Targets(g, i)) => Cyclic(g, 1)
BackToRootIsCyclic == (Emitted /\ \E i \in Files(g) : 1 \in Targets(g, i)) => (Cyclic(g, 1) /\ RootOnCycle(g))
ClassConsistent == Emitted => /\ (ShortestCycle(g) = 0) = ~Cyclic(g, 1)
                              /\ InLanguage(g) = (ShortestCycle(g) = 0 /\ ~NamesMissing(g, 1))
                              /\ (RootOnCycle(g) => ShortestCycle(g) >= 1)
====
