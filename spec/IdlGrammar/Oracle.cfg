CONSTANTS
  MaxDepth = 8
INIT Init
NEXT ONext
