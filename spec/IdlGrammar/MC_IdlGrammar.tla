---- MODULE MC_IdlGrammar ----
(* Exhaustive exploration of the automaton (bounded stack) + sentences the reference must accept /   *)
(* reject, among them the inputs of the recorded defects F17, F22, F23.                               *)
EXTENDS IdlGrammar
Mod(body) == <<"module", "name", "{">> \o body \o <<"}", ";">>
Str(ms)   == <<"struct", "name", "{">> \o ms \o <<"}", ";">>
Good == {
  <<>>,
  Mod(<<>>),
  <<"#include", "str">> \o Mod(<<"enum", "name", "{", "name", ",", "name", "=", "num", ",", "name", "=", "emem", "}", ";">>),
  Mod(Str(<<"num", "require", "int", "name", ";", "num", "optional", "unsigned", "byte", "name", "=", "num", ";">>)),
  Mod(Str(<<"num", "optional", "map", "<", "string", ",", "vector", "<", "sref", ">", ">", "name", ";">>)),
  Mod(Str(<<"num", "require", "eref", "name", "=", "emem", ";", "num", "require", "float", "name", "[", "num", "]", ";">>)),
  Mod(<<"interface", "name", "{", "void", "name", "(", ")", ";", "int", "name", "(", "sref", "name", ",", "out", "vector", "<", "byte", ">", "name", ")", ";", "}", ";">>),
  Mod(<<"const", "unsigned", "int", "name", "=", "big", ";", "key", "[", "sref", ",", "name", ",", "name", "]", ";">>) \o Mod(<<>>)
}
BadS == {
  <<"module", "name", "{", "enum", "name", "{", "name", ",", "name">>,                                 \* F17: end of input inside an enum body
  Mod(Str(<<"num", "require", "byte", "name", "[", "num", "]", ";">>)),                                \* F22
  Mod(Str(<<"big", "require", "int", "name", ";">>)),                                                  \* F23
  Mod(Str(<<"num", "require", "unsigned", "long", "name", ";">>)),
  Mod(Str(<<"num", "require", "int", "name", "=", "str", ";">>)),
  Mod(Str(<<"num", "require", "map", "<", "vector", "<", "int", ">", ",", "int", ">", "name", ";">>)),
  Mod(<<"interface", "name", "{", "void", "name", "(", "int", "name", "[", "num", "]", ")", ";", "}", ";">>),
  Mod(<<"enum", "name", "{", "name", "=", "emem", "}", ";">>),
  <<"module", "name", "{", "}">>,
  Mod(<<"interface", "name", "{", "}", ";">>)
}
Why(s) == LET p == Parse(s) IN <<p.kind, p.why, p.t, Region(p.c)>>
ASSUME \A s \in Good : Accepts(s)
ASSUME \A s \in BadS : ~Accepts(s)
ASSUME Why(<<"module", "name", "{", "enum", "name", "{", "name", ",", "name">>) = <<"hard", "", "eof", "enum-body">>
ASSUME Why(Mod(Str(<<"num", "require", "byte", "name", "[", "num", "]", ";">>))) = <<"soft", "fixed-array-of-bytes", "[", "struct-body">>
ASSUME Why(Mod(Str(<<"big", "require", "int", "name", ";">>))) = <<"soft", "tag-over-255", "big", "struct-body">>
ASSUME PrintT(<<"SENTENCES", Cardinality(Good), Cardinality(BadS)>>)
====
