---- MODULE Oracle_IdlGrammar ----
(* Batch oracle for clause 2 of C16: one record per run of the real tars2go binary.                      *)
(*   r = [id, cls, toks, rc, timeout, compiled]                                                          *)
(*   cls "tok": the input was rendered from the token sequence toks; the automaton decides its class     *)
(*   cls "raw": random / mutated bytes, no reference class                                               *)
(* Judgement (the property's clause "on any other input it terminates with a diagnostic", in the         *)
(* operational reading of DESIGN.md: it complains, or its product is usable):                            *)
(*   never a timeout;  in the language  => exit 0 and the emitted Go code compiles;                      *)
(*   not in the language => non-zero exit, or exit 0 with output that compiles (lenient, reported         *)
(*   separately as an observation).                                                                      *)
EXTENDS IdlGrammar, Json
Recs == ndJsonDeserialize("recs.ndjson")
NoParse == [ok |-> FALSE, at |-> 0, c |-> InitCfg, t |-> "", kind |-> "raw", why |-> ""]
Info(r) ==
  LET p == IF r.cls = "tok" THEN Parse(r.toks) ELSE NoParse
      v == IF r.timeout THEN "hang"
           ELSE IF r.cls # "tok" THEN (IF r.rc = 0 /\ ~r.compiled THEN "accepted-but-does-not-compile" ELSE "ok")
           ELSE IF p.kind = "beyond" THEN "beyond"
           ELSE IF p.ok THEN (IF r.rc # 0 THEN "valid-rejected" ELSE IF ~r.compiled THEN "valid-does-not-compile" ELSE "ok")
           ELSE IF r.rc = 0 /\ ~r.compiled THEN "accepted-but-does-not-compile" ELSE "ok"
  IN [v |-> v, valid |-> p.ok, lenient |-> (r.cls = "tok" /\ ~p.ok /\ ~r.timeout /\ r.rc = 0 /\ r.compiled),
      kind |-> p.kind, why |-> p.why, t |-> p.t, at |-> p.at, ctl |-> p.c.ctl, region |-> Region(p.c)]
Infos == [i \in 1..Len(Recs) |-> Info(Recs[i])]
Bad == {i \in 1..Len(Recs) : Infos[i].v # "ok"}
ASSUME PrintT(<<"ORACLE", Len(Recs), Bad>>)
ASSUME PrintT(ToJson([bad |-> [i \in Bad |-> Infos[i]],
                      nvalid |-> Cardinality({i \in 1..Len(Recs) : Infos[i].valid}),
                      lenient |-> [i \in {j \in 1..Len(Recs) : Infos[j].lenient} |-> [why |-> Infos[i].why, t |-> Infos[i].t, ctl |-> Infos[i].ctl]]]))
ONext == cfg' = cfg
====
