---- MODULE Oracle_Enum ----
(* Batch oracle for the enum constants tars2go emits (C16, clause 1).                                   *)
(*   r = [enum, decl: <<[k: "auto" | "num", v]>>, got: <<value of the generated Go constant>>]          *)
(* Reference: an enumerator without a value is one more than its predecessor; the first one is 0.       *)
EXTENDS Integers, Sequences, TLC, Json
Recs == ndJsonDeserialize("recs.ndjson")
RECURSIVE Expected(_, _, _)
Expected(decl, i, next) ==
  IF i > Len(decl) THEN <<>>
  ELSE LET v == IF decl[i].k = "auto" THEN next ELSE decl[i].v IN <<v>> \o Expected(decl, i + 1, v + 1)
Check(r) == r.got = Expected(r.decl, 1, 0)
Bad == {i \in 1..Len(Recs) : ~Check(Recs[i])}
ASSUME PrintT(<<"ORACLE", Len(Recs), Bad>>)
VARIABLE x
Init == x = 0
Next == x' = x
====
