---- MODULE IdlPrograms ----
(* C16, clause 1.  The bounded family of VALID abstract IDL programs, as a generative state machine:   *)
(* every behaviour that reaches phase "done" has built one program (two modules in two files, the      *)
(* second including the first): enums with implicit / explicit / negative values, constants, structs   *)
(* whose members carry a tag from Tags, require/optional, a type tree (prefix notation) over all        *)
(* scalars, strings, enums, earlier structs (also of the other module), vectors and maps nested up to  *)
(* MaxTypeDepth, an optional default literal of the member's type or a fixed array length, and          *)
(* interface functions with a return type and in/out parameters.  TLC's simulator samples the family   *)
(* (-simulate, -seed); lib/idlgen.py renders each program to IDL text with identifiers from a pool.    *)
(*                                                                                                      *)
(* The well-formedness rules of the language are the guards: tags are distinct within a struct,        *)
(* a map key is a non-float scalar, a string, an enum or a struct of such members ("keyable"), only    *)
(* earlier (visible) types are referenced, a default is a literal of the member's scalar type within   *)
(* its range or a member of its enum, arrays are never arrays of bytes and never carry a default,      *)
(* parameters are never arrays.  The coin `w` only weights the simulator's uniform choice.             *)
EXTENDS Integers, Sequences, FiniteSets, TLC, Json
CONSTANTS MaxTypeDepth, MinStructs, MaxStructs, MaxEnums, MaxConsts, MaxFuncs, MaxParams

Tags == {0, 1, 14, 15, 200, 255}
ScalarT == {"bool", "byte", "ubyte", "short", "ushort", "int", "uint", "long", "float", "double", "string"}
KeyScalarT == ScalarT \ {"float", "double"}
\* literals of each scalar type (boundary values, negative, hex; "@utf8" is replaced by a non-ASCII string)
DefLits(k) ==
  CASE k = "bool"   -> {"true", "false"}
    [] k = "byte"   -> {"-128", "127", "0", "-3", "0x7f"}
    [] k = "ubyte"  -> {"0", "255", "200"}
    [] k = "short"  -> {"-32768", "32767", "-300", "0x7fff"}
    [] k = "ushort" -> {"65535", "60000", "1"}
    [] k = "int"    -> {"2147483647", "-2147483648", "0x7fffffff", "1", "0"}
    [] k = "uint"   -> {"4294967295", "4000000000", "0"}
    [] k = "long"   -> {"9223372036854775807", "-9223372036854775808", "-5000000000", "0", "0x100000000"}
    [] k = "float"  -> {"1.5", "-2.25", "0.0", "3", "100.125"}
    [] k = "double" -> {"-2.25", "1.5", "123456.789", "0", "-1"}
    [] k = "string" -> {"hello", "", "a b; // c", "x{y}[z]<w>", "@utf8"}
    [] OTHER -> {}

VARIABLES phase,    \* "A" | "B" | "done": the module being built
          enums,    \* <<[mod, vals: <<"auto"|"num"|"neg">>]>>
          consts,   \* <<[mod, ty, lit]>>
          structs,  \* <<[mod, mems: <<[tag, req, ty, def, arr]>>, keyable, plain]>>
          funcs,    \* <<[mod, ret: type | <<>> (void), params: <<[out, ty]>>]>>
          cur,      \* the definition under construction
          ty,       \* the type under construction: [on, for, toks, stack]
          w         \* weight coin
vars == <<phase, enums, consts, structs, funcs, cur, ty, w>>

None == [kind |-> "none"]
NoTy == [on |-> FALSE, for |-> "", toks |-> <<>>, stack |-> <<>>]
Init == /\ phase = "A" /\ enums = <<>> /\ consts = <<>> /\ structs = <<>> /\ funcs = <<>>
        /\ cur = None /\ ty = NoTy /\ w = 1

InPhase(seq) == {i \in 1..Len(seq) : seq[i].mod = phase}
Visible(seq) == {i \in 1..Len(seq) : seq[i].mod = "A" \/ phase = "B"}
Idle == cur.kind = "none" /\ phase # "done"
Top == IF ty.stack = <<>> THEN "" ELSE ty.stack[Len(ty.stack)]
Pop(s) == SubSeq(s, 1, Len(s) - 1)
\* the stack after a complete type has been read at the top of stack s (<<>>: the whole type is complete)
RECURSIVE After(_)
After(s) == IF s = <<>> THEN <<>>
            ELSE IF s[Len(s)] = "MK" THEN Append(Pop(s), "MV") ELSE After(Pop(s))

\* ---- enums and constants
StartEnum == /\ Idle /\ Cardinality(InPhase(enums)) < MaxEnums /\ InPhase(structs) = {}
             /\ \E n \in 1..4 : cur' = [kind |-> "enum", vals |-> <<>>, want |-> n]
             /\ w' = 1
             /\ UNCHANGED <<phase, enums, consts, structs, funcs, ty>>
EnumAdd == /\ cur.kind = "enum" /\ Len(cur.vals) < cur.want
           /\ \E k \in {"auto", "num", "neg"}, c \in 1..3 :
                /\ (k # "auto" => c = 1)
                /\ cur' = [cur EXCEPT !.vals = Append(@, k)] /\ w' = c
           /\ UNCHANGED <<phase, enums, consts, structs, funcs, ty>>
EndEnum == /\ cur.kind = "enum" /\ Len(cur.vals) = cur.want
           /\ enums' = Append(enums, [mod |-> phase, vals |-> cur.vals]) /\ cur' = None /\ w' = 1
           /\ UNCHANGED <<phase, consts, structs, funcs, ty>>
AddConst == /\ Idle /\ Cardinality(InPhase(consts)) < MaxConsts /\ InPhase(structs) = {}
            /\ \E k \in ScalarT : \E l \in DefLits(k) : consts' = Append(consts, [mod |-> phase, ty |-> k, lit |-> l])
            /\ w' = 1 /\ UNCHANGED <<phase, enums, structs, funcs, cur, ty>>

\* ---- types (prefix notation; the stack holds the open constructors)
Keyable(i) == structs[i].keyable
LeafChoices ==
  LET inKey == Top = "MK" IN
  {[k |-> s] : s \in (IF inKey THEN KeyScalarT ELSE ScalarT)}
  \cup {[k |-> "enum", i |-> i] : i \in Visible(enums)}
  \cup {[k |-> "struct", i |-> i] : i \in {j \in Visible(structs) : ~inKey \/ Keyable(j)}}
TyLeaf == /\ ty.on
          /\ \E x \in LeafChoices :
               LET s == After(ty.stack) IN
               ty' = [ty EXCEPT !.toks = Append(@, x), !.stack = s, !.on = (s # <<>>)]
          /\ w' = 1 /\ UNCHANGED <<phase, enums, consts, structs, funcs, cur>>
TyOpen == /\ ty.on /\ Top # "MK" /\ Len(ty.stack) < MaxTypeDepth
          /\ \E k \in {"vec", "map"}, c \in 1..4 :
               /\ ty' = [ty EXCEPT !.toks = Append(@, [k |-> k]), !.stack = Append(@, IF k = "vec" THEN "V" ELSE "MK")]
               /\ w' = c
          /\ UNCHANGED <<phase, enums, consts, structs, funcs, cur>>
TyReady(f) == ~ty.on /\ ty.for = f /\ ty.toks # <<>>
Begin(f) == ty' = [on |-> TRUE, for |-> f, toks |-> <<>>, stack |-> <<>>]

\* ---- structs
StartStruct == /\ Idle /\ Cardinality(InPhase(structs)) < MaxStructs /\ InPhase(funcs) = {}
               /\ \E n \in 0..Cardinality(Tags) : cur' = [kind |-> "struct", mems |-> <<>>, pend |-> FALSE, tag |-> 0, req |-> FALSE, want |-> n]
               /\ w' = 1
               /\ UNCHANGED <<phase, enums, consts, structs, funcs, ty>>
UsedTags == {cur.mems[i].tag : i \in 1..Len(cur.mems)}
BeginMember == /\ cur.kind = "struct" /\ ~cur.pend /\ Len(cur.mems) < cur.want
               /\ \E t \in Tags \ UsedTags, r \in BOOLEAN : cur' = [cur EXCEPT !.pend = TRUE, !.tag = t, !.req = r]
               /\ Begin("mem") /\ w' = 1
               /\ UNCHANGED <<phase, enums, consts, structs, funcs>>
Single == Len(ty.toks) = 1
DefChoices == IF ~Single THEN {"none"}
              ELSE LET x == ty.toks[1] IN
                   IF x.k \in ScalarT THEN {"none"} \cup {"lit:" \o l : l \in DefLits(x.k)}
                   ELSE IF x.k = "enum" THEN {"none", "member", "num"} ELSE {"none"}
\* Fixed arrays: never of bytes, never with a default.  What an ABSENT array of structs holds when those structs declare
\* defaults is not defined by the language (zero values or declared defaults); the family stays out of that corner:
\* an array's element type refers only to "plain" structs (no declared default anywhere inside).
RefsPlain(toks) == \A p \in 1..Len(toks) : toks[p].k = "struct" => structs[toks[p].i].plain
ArrChoices(d) == IF d # "none" \/ (Single /\ ty.toks[1].k \in {"byte", "ubyte"}) \/ ~RefsPlain(ty.toks) THEN {0} ELSE {0, 1, 2, 3}
FinishMember == /\ cur.kind = "struct" /\ cur.pend /\ TyReady("mem")
                /\ \E d \in DefChoices : \E a \in ArrChoices(d) : \E c \in 1..3 :
                     /\ (c > 1 => d = "none" /\ a = 0)
                     /\ cur' = [cur EXCEPT !.pend = FALSE,
                                           !.mems = Append(@, [tag |-> cur.tag, req |-> cur.req, ty |-> ty.toks, def |-> d, arr |-> a])]
                     /\ w' = c
                /\ ty' = NoTy /\ UNCHANGED <<phase, enums, consts, structs, funcs>>
MemKeyable(m) == /\ m.arr = 0 /\ Len(m.ty) = 1
                 /\ m.ty[1].k \in KeyScalarT \cup {"enum"}
EndStruct == /\ cur.kind = "struct" /\ ~cur.pend /\ Len(cur.mems) = cur.want
             /\ structs' = Append(structs, [mod |-> phase, mems |-> cur.mems,
                                            keyable |-> (cur.mems # <<>> /\ \A i \in 1..Len(cur.mems) : MemKeyable(cur.mems[i])),
                                            plain |-> (\A i \in 1..Len(cur.mems) : cur.mems[i].def = "none" /\ RefsPlain(cur.mems[i].ty))])
             /\ cur' = None /\ w' = 1 /\ UNCHANGED <<phase, enums, consts, funcs, ty>>

\* ---- interface functions
StartFunc == /\ Idle /\ Cardinality(InPhase(structs)) >= MinStructs /\ Cardinality(InPhase(funcs)) < MaxFuncs
             /\ \E n \in 0..MaxParams, void \in BOOLEAN :
                  /\ cur' = [kind |-> "func", ret |-> <<>>, retset |-> void, params |-> <<>>, pend |-> FALSE, out |-> FALSE, want |-> n]
                  /\ IF void THEN ty' = NoTy ELSE Begin("ret")
             /\ w' = 1 /\ UNCHANGED <<phase, enums, consts, structs, funcs>>
RetDone == /\ cur.kind = "func" /\ ~cur.retset /\ TyReady("ret")
           /\ cur' = [cur EXCEPT !.ret = ty.toks, !.retset = TRUE] /\ ty' = NoTy /\ w' = 1
           /\ UNCHANGED <<phase, enums, consts, structs, funcs>>
BeginParam == /\ cur.kind = "func" /\ cur.retset /\ ~cur.pend /\ Len(cur.params) < cur.want
              /\ \E o \in BOOLEAN : cur' = [cur EXCEPT !.pend = TRUE, !.out = o]
              /\ Begin("par") /\ w' = 1 /\ UNCHANGED <<phase, enums, consts, structs, funcs>>
ParamDone == /\ cur.kind = "func" /\ cur.pend /\ TyReady("par")
             /\ cur' = [cur EXCEPT !.pend = FALSE, !.params = Append(@, [out |-> cur.out, ty |-> ty.toks])]
             /\ ty' = NoTy /\ w' = 1 /\ UNCHANGED <<phase, enums, consts, structs, funcs>>
EndFunc == /\ cur.kind = "func" /\ cur.retset /\ ~cur.pend /\ Len(cur.params) = cur.want
           /\ funcs' = Append(funcs, [mod |-> phase, ret |-> cur.ret, params |-> cur.params])
           /\ cur' = None /\ w' = 1 /\ UNCHANGED <<phase, enums, consts, structs, ty>>

NextPhase == /\ Idle /\ Cardinality(InPhase(structs)) >= MinStructs /\ (phase = "B" => InPhase(funcs) # {})
             /\ phase' = (IF phase = "A" THEN "B" ELSE "done") /\ w' = 1
             /\ UNCHANGED <<enums, consts, structs, funcs, cur, ty>>

Next == \/ StartEnum \/ EnumAdd \/ EndEnum \/ AddConst
        \/ TyLeaf \/ TyOpen
        \/ StartStruct \/ BeginMember \/ FinishMember \/ EndStruct
        \/ StartFunc \/ RetDone \/ BeginParam \/ ParamDone \/ EndFunc
        \/ NextPhase
Spec == Init /\ [][Next]_vars

Program == [enums |-> enums, consts |-> consts, structs |-> structs, funcs |-> funcs]
Emit == phase # "done" \/ PrintT(ToJson(Program))

\* ---- well-formedness of what is built (checked exhaustively on a tiny instance by MC_IdlPrograms.cfg)
DistinctTags == \A i \in 1..Len(structs) : \A a, b \in 1..Len(structs[i].mems) :
                   a # b => structs[i].mems[a].tag # structs[i].mems[b].tag
\* every type in prefix notation is complete: reading it consumes exactly the sequence
RECURSIVE Arity(_, _)
Arity(toks, need) == IF toks = <<>> THEN need
                     ELSE IF need = 0 THEN -1
                     ELSE LET k == toks[1].k IN
                          Arity(Tail(toks), need - 1 + (IF k = "vec" THEN 1 ELSE IF k = "map" THEN 2 ELSE 0))
WellTyped(t) == Arity(t, 1) = 0
TypesComplete == /\ \A i \in 1..Len(structs) : \A a \in 1..Len(structs[i].mems) : WellTyped(structs[i].mems[a].ty)
                 /\ \A i \in 1..Len(funcs) : /\ (funcs[i].ret = <<>> \/ WellTyped(funcs[i].ret))
                                             /\ \A a \in 1..Len(funcs[i].params) : WellTyped(funcs[i].params[a].ty)
RefsVisible == \A i \in 1..Len(structs) : \A a \in 1..Len(structs[i].mems) :
                  \A p \in 1..Len(structs[i].mems[a].ty) :
                     LET x == structs[i].mems[a].ty[p] IN
                     /\ (x.k = "struct" => x.i < i /\ (structs[x.i].mod = "A" \/ structs[i].mod = "B"))
                     /\ (x.k = "enum" => x.i <= Len(enums) /\ (enums[x.i].mod = "A" \/ structs[i].mod = "B"))
NoByteArrays == \A i \in 1..Len(structs) : \A a \in 1..Len(structs[i].mems) :
                   LET m == structs[i].mems[a] IN m.arr > 0 => (m.def = "none" /\ ~(Len(m.ty) = 1 /\ m.ty[1].k \in {"byte", "ubyte"})
                                                                 /\ \A p \in 1..Len(m.ty) : m.ty[p].k = "struct" => structs[m.ty[p].i].plain)
\* state constraint of the exhaustive tiny instance (MC_IdlPrograms.cfg)
Tiny == /\ phase = "A" /\ Len(structs) <= 1 /\ Len(funcs) <= 1
        /\ (cur.kind \in {"struct", "enum", "func"} => cur.want <= 1)
====
