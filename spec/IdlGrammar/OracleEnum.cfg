INIT Init
NEXT Next
