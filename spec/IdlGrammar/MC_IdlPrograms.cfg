CONSTANTS
  MaxTypeDepth = 1
  MinStructs = 1
  MaxStructs = 1
  MaxEnums = 1
  MaxConsts = 0
  MaxFuncs = 0
  MaxParams = 1
INIT Init
NEXT Next
CONSTRAINT Tiny
INVARIANTS DistinctTags TypesComplete RefsVisible NoByteArrays
CHECK_DEADLOCK FALSE
