---- MODULE IdlSignatures ----
(* C16, clause 1, interface part.  The family of OPERATION SIGNATURES by the shape of their parameter   *)
(* list: every sequence of directions (in / out) up to MaxParams parameters -- no parameter, only       *)
(* inputs, only outputs, an output first, an input after an output, several outputs, alternating ...  *)
(* -- once with and once without a return value.  TLC enumerates the family exhaustively (one state    *)
(* per signature); each state is emitted as one function of an abstract program in the format of       *)
(* IdlPrograms.tla (Program), on top of the fixed Skeleton of enums and structs below, so that the      *)
(* harness renders, generates, compiles and drives it exactly like a sampled program.                  *)
(*                                                                                                      *)
(* Types: the language lets every parameter have any type; crossing all types with all shapes is too    *)
(* large, so the type of parameter i of signature number `num` walks through TypePool (every scalar,   *)
(* string, byte vectors, nested vectors and maps, enums and structs of both modules); Rot shifts the   *)
(* walk (the harness passes a different Rot per batch and seed), so over the runs every (shape,         *)
(* position, type) combination comes up.                                                                *)
EXTENDS Integers, Sequences, TLC, Json
CONSTANTS MaxParams, Rot

T(k) == <<[k |-> k]>>
En(i) == <<[k |-> "enum", i |-> i]>>
St(i) == <<[k |-> "struct", i |-> i]>>
Vec(t) == <<[k |-> "vec"]>> \o t
Map(a, b) == <<[k |-> "map"]>> \o a \o b

Mem(tag, req, ty, def) == [tag |-> tag, req |-> req, ty |-> ty, def |-> def, arr |-> 0]
Skeleton ==
  [enums   |-> << [mod |-> "A", vals |-> <<"auto", "num", "auto">>],
                  [mod |-> "B", vals |-> <<"neg", "auto">>] >>,
   consts  |-> <<>>,
   structs |-> << [mod |-> "A", keyable |-> TRUE, plain |-> TRUE,
                   mems |-> << Mem(0, TRUE, T("int"), "none"), Mem(1, FALSE, T("string"), "none") >>],
                  [mod |-> "A", keyable |-> FALSE, plain |-> FALSE,
                   mems |-> << Mem(0, TRUE, Vec(T("long")), "none"), Mem(15, FALSE, Map(T("string"), St(1)), "none"),
                               Mem(200, FALSE, T("double"), "lit:1.5"), Mem(1, FALSE, En(1), "member") >>],
                  [mod |-> "B", keyable |-> FALSE, plain |-> FALSE,
                   mems |-> << Mem(1, TRUE, St(2), "none"), Mem(0, FALSE, T("ubyte"), "lit:200"), Mem(255, FALSE, Vec(St(1)), "none") >>] >>]

TypePool ==
  << T("int"), T("string"), St(1), T("bool"), Vec(T("byte")), T("long"), Map(T("string"), T("int")), En(1), T("ubyte"),
     Vec(St(2)), T("double"), T("short"), St(3), Vec(T("string")), T("uint"), Map(T("int"), St(2)), T("float"), En(2),
     T("byte"), Vec(Vec(T("short"))), T("ushort"), Map(St(1), Vec(T("long"))), St(2), Vec(T("ubyte")), Map(En(1), T("string")) >>
NT == Len(TypePool)

VARIABLES dirs,   \* the directions so far: TRUE = out
          num,    \* number of the sequence: (2^Len(dirs) - 1) + the directions read as a binary number
          void    \* no return value
svars == <<dirs, num, void>>

SInit == dirs = <<>> /\ num = 0 /\ void \in BOOLEAN
SNext == /\ Len(dirs) < MaxParams
         /\ \E o \in BOOLEAN : dirs' = Append(dirs, o) /\ num' = 2 * num + 1 + (IF o THEN 1 ELSE 0)
         /\ void' = void
SSpec == SInit /\ [][SNext]_svars

PTy(i) == TypePool[((num * 5 + i * 7 + Rot) % NT) + 1]
RTy == TypePool[((num * 3 + Rot) % NT) + 1]
Func == [mod |-> "B", ret |-> (IF void THEN <<>> ELSE RTy), shape |-> num,
         params |-> IF dirs = <<>> THEN <<>> ELSE [i \in 1..Len(dirs) |-> [out |-> dirs[i], ty |-> PTy(i)]]]

\* the numbering is what makes "every shape once" checkable: the number determines length and directions
RECURSIVE Pow2(_)
Pow2(n) == IF n = 0 THEN 1 ELSE 2 * Pow2(n - 1)
RECURSIVE Bits(_, _)
Bits(s, i) == IF i > Len(s) THEN 0 ELSE (IF s[i] THEN Pow2(Len(s) - i) ELSE 0) + Bits(s, i + 1)
Numbered == num = Pow2(Len(dirs)) - 1 + Bits(dirs, 1)

Emit == PrintT(ToJson(Func))
ASSUME PrintT(ToJson([skeleton |-> Skeleton, types |-> NT]))
====
