---- MODULE Gen_IdlGrammar ----
(* Enumeration of the automaton for the harness: one record per reachable configuration, with the     *)
(* (shortest, BFS with one worker) token prefix that reaches it and every transition out of it.       *)
(* The harness derives one implementation test per transition: prefix + viable token + completion,    *)
(* prefix + end of input, prefix + each token that is not viable (cut there / followed by the         *)
(* completion of the prefix), prefix + "soft" token + completion of its lax successor.                *)
(* Configurations behind ONE soft transition are explored too (soft = 1): they only serve to complete *)
(* such inputs.  With ByPrefix = TRUE the history is part of the state's identity: every viable       *)
(* prefix up to MaxLen is enumerated, not just one per configuration.                                 *)
EXTENDS IdlGrammar, Json
CONSTANTS MaxLen, ByPrefix
VARIABLES soft, hist
gvars == <<cfg, soft, hist>>
GInit == cfg = InitCfg /\ soft = 0 /\ hist = <<>>
GNext == /\ Len(hist) < MaxLen
         /\ \E tr \in Trans(cfg) :
              /\ tr.kind = "ok" \/ (tr.kind = "soft" /\ soft = 0)
              /\ cfg' = tr.to
              /\ soft' = IF tr.kind = "soft" THEN 1 ELSE soft
              /\ hist' = Append(hist, [t |-> tr.t, c |-> cfg])
GSpec == GInit /\ [][GNext]_gvars
View == IF ByPrefix THEN <<cfg, soft, hist>> ELSE <<cfg, soft>>
SetToSeq(S) == LET RECURSIVE F(_) F(T) == IF T = {} THEN <<>> ELSE LET x == CHOOSE y \in T : TRUE IN <<x>> \o F(T \ {x}) IN F(S)
Rec == [c |-> cfg, soft |-> soft, accepting |-> Accepting(cfg), region |-> Region(cfg), hist |-> hist,
        trans |-> SetToSeq(Trans(cfg))]
Emit == PrintT(ToJson(Rec))
Header == PrintT(ToJson([alphabet |-> SetToSeq(Alphabet), maxdepth |-> MaxDepth]))
ASSUME Header
====
