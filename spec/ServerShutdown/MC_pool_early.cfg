CONSTANTS Conns <- C2  Reqs <- R3  ConnOf <- CO3  N = 1  Q = 2  Calls <- K2  LateRelease = FALSE  RT = FALSE  SelfNotify = TRUE  Idle = FALSE  EarlyDec = FALSE
SPECIFICATION Spec
INVARIANTS TypeOK ReadImpliesAnswered NoLateWrite ReturnsWhenDrained Notified
PROPERTIES ReadGetsAnswered
CONSTRAINT NoExpiry
CHECK_DEADLOCK FALSE
