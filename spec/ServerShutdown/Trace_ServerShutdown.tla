---- MODULE Trace_ServerShutdown ----
(* Trace validation for C12: one run = one real transport.TarsServer, scripted clients, one Shutdown.        *)
(* Events: Config{n,q}  ReqSent{c,r}  Read{c,r} Invoked{r} Written{r} ConnClosed{c} AcceptExit Released (hooks) *)
(*         RespRecv{c,r} CloseMsgRecv{c} PeerEOF{c} (client observations)  ShutdownStart ShutdownEnd{expired}  End *)
EXTENDS ServerShutdown, Json
VARIABLE l
Trace == ndJsonDeserialize("trace.ndjson")
tvars == <<vars, l>>
TraceInit == Init /\ l = 1
IsEvent(e) == l <= Len(Trace) /\ Trace[l].e = e /\ l' = l + 1
TReqSent == IsEvent("ReqSent") /\ ClientSend(Trace[l].r) /\ ConnOf[Trace[l].r] = Trace[l].c
TRead == IsEvent("Read") /\ RecvRead(Trace[l].c) /\ Head(inbuf[Trace[l].c]) = Trace[l].r
TInvoked == IsEvent("Invoked") /\ Invoke(Trace[l].r)
TWritten == IsEvent("Written") /\ Write(Trace[l].r)
TConnClosed == IsEvent("ConnClosed") /\ RecvClose(Trace[l].c)
TAcceptExit == IsEvent("AcceptExit") /\ AcceptExit
TReleased == IsEvent("Released") /\ (PoolDead \/ NoPoolReleased)
TShutdownStart == IsEvent("ShutdownStart") /\ ShutdownStart
TShutdownEnd == IsEvent("ShutdownEnd") /\ ShutdownReturn /\ (Trace[l].expired = expired)
\* client-side observations
TRespRecv == IsEvent("RespRecv") /\ st[Trace[l].r] \in {"invoked", "written"} /\ UNCHANGED vars   \* the write sits between the two hooks
TCloseMsgRecv == IsEvent("CloseMsgRecv") /\ notified[Trace[l].c] /\ UNCHANGED vars
\* the client may see the end of the stream before the server-side hook after conn.Close() is recorded
TPeerEOF == /\ IsEvent("PeerEOF")
            /\ (sock[Trace[l].c] = "closed" \/ (rpc[Trace[l].c] = "draining" /\ numInvoke[Trace[l].c] = 0))
            /\ UNCHANGED vars
\* end of the run (the harness waited well beyond every handler duration): everything read was answered,
\* and unless the context expired every connection drained
TEnd == /\ IsEvent("End")
        /\ \A r \in Reqs : WasRead(r) => st[r] = "written"
        /\ spc = "returned" /\ (~expired => AllConnsClosed)      \* by the end of the run every recv goroutine has finished as well
        /\ UNCHANGED vars
\* a new run starts: N and Q of a run are constants of the TLC run (traces are grouped by configuration)
TConfig == /\ IsEvent("Config") /\ Trace[l].n = N /\ Trace[l].q = Q
           /\ st' = [r \in Reqs |-> "unsent"] /\ inbuf' = [c \in Conns |-> <<>>]
           /\ hr' = [c \in Conns |-> 0]
           /\ rpc' = [c \in Conns |-> IF c <= Trace[l].conns THEN "reading" ELSE "closed"]
           /\ sock' = [c \in Conns |-> IF c <= Trace[l].conns THEN "open" ELSE "closed"]
           /\ numInvoke' = [c \in Conns |-> 0] /\ notified' = [c \in Conns |-> c > Trace[l].conns]
           /\ isClosed' = FALSE /\ apc' = "accepting" /\ jobQ' = <<>> /\ dpc' = "sel" /\ dj' = 0
           /\ spc' = "idle" /\ expired' = FALSE /\ lateWrite' = FALSE
TSilent == /\ \/ \E c \in Conns : RecvReturn(c) \/ Hand(c)
              \/ DTake \/ DHand \/ PoolStop \/ Notify \/ Expire \/ \E c \in Conns : PollerClose(c)
           /\ UNCHANGED l
TraceNext == TReqSent \/ TRead \/ TInvoked \/ TWritten \/ TConnClosed \/ TAcceptExit \/ TReleased \/ TShutdownStart
             \/ TShutdownEnd \/ TRespRecv \/ TCloseMsgRecv \/ TPeerEOF \/ TEnd \/ TConfig \/ TSilent
TraceSpec == TraceInit /\ [][TraceNext]_tvars
ASSUME TLCSet(1, 0)
HighWater == (IF l > TLCGet(1) THEN TLCSet(1, l) ELSE TRUE)
TraceAccepted == /\ PrintT(<<"HWM", TLCGet(1), Len(Trace)>>)
                 /\ TLCGet(1) = Len(Trace) + 1
C3 == {1, 2}
R8 == 1..8
CO8 == [r \in R8 |-> IF r % 2 = 0 THEN 2 ELSE 1]     \* even requests go to connection 2
====
