---- MODULE Trace_ServerShutdown ----
(* Trace validation for C12: one run = one real transport.TarsServer, scripted clients, one Shutdown.        *)
(* Events: Config{n,q}  ReqSent{c,r}  Read{c,r} Invoked{r} Written{r} ConnClosed{c} AcceptExit Released (hooks) *)
(*         RespRecv{c,r} CloseMsgRecv{c} PeerEOF{c} (client observations)  ShutdownStart ShutdownEnd{expired}  End *)
EXTENDS ServerShutdown, Json
VARIABLES l,
          seen,   \* connections whose client has received the close notification
          gone    \* connections whose client vanished (abortive close by the client: ClientAbort)
Trace == ndJsonDeserialize("trace.ndjson")
tvars == <<vars, l, seen, gone>>
TraceInit == Init /\ l = 1 /\ seen = {} /\ gone = {}
\* requests 3 and 6 are one-way in every run that sends them: handled like the others, never answered on the wire
OneWay == {3, 6}
IsEvent(e) == l <= Len(Trace) /\ Trace[l].e = e /\ l' = l + 1
Keep == UNCHANGED <<seen, gone>>
TReqSent == IsEvent("ReqSent") /\ ClientSend(Trace[l].r) /\ ConnOf[Trace[l].r] = Trace[l].c /\ Keep
TRead == IsEvent("Read") /\ RecvRead(Trace[l].c) /\ Head(inbuf[Trace[l].c]) = Trace[l].r /\ Keep
TInvoked == IsEvent("Invoked") /\ Invoke(Trace[l].r) /\ Keep
\* (the hook is reached after conn.Write whether the write succeeded or not; a one-way request never gets there)
TWritten == IsEvent("Written") /\ Trace[l].r \notin OneWay /\ Write(Trace[l].r) /\ Keep
TConnClosed == IsEvent("ConnClosed") /\ RecvClose(Trace[l].c) /\ Keep
TAcceptExit == IsEvent("AcceptExit") /\ AcceptExit /\ Keep
TReleased == IsEvent("Released") /\ (PoolDead \/ NoPoolReleased) /\ Keep
TShutdownStart == IsEvent("ShutdownStart") /\ ShutdownStart /\ Keep
TShutdownEnd == IsEvent("ShutdownEnd") /\ ShutdownReturn /\ (Trace[l].expired = expired) /\ Keep
\* client-side observations
TRespRecv == IsEvent("RespRecv") /\ Trace[l].r \notin OneWay /\ st[Trace[l].r] \in {"invoked", "written"} /\ UNCHANGED vars /\ Keep   \* the write sits between the two hooks
TCloseMsgRecv == IsEvent("CloseMsgRecv") /\ notified[Trace[l].c] /\ UNCHANGED vars /\ seen' = seen \cup {Trace[l].c} /\ UNCHANGED gone
\* the client may see the end of the stream before the server-side hook after conn.Close() is recorded.  The server writes
\* the close notification before it closes a connection, and TCP keeps the order: a client that is still there sees the
\* notification before the end of the stream ("connected clients are sent the reconnect notification")
TPeerEOF == /\ IsEvent("PeerEOF")
            /\ (sock[Trace[l].c] = "closed" \/ (rpc[Trace[l].c] = "draining" /\ numInvoke[Trace[l].c] = 0))
            /\ Trace[l].c \in seen
            /\ UNCHANGED vars /\ Keep
\* the client of connection c vanishes with a reset: nothing more is sent or observed on it; the server's read fails
TClientAbort == IsEvent("ClientAbort") /\ UNCHANGED vars /\ gone' = gone \cup {Trace[l].c} /\ UNCHANGED seen
GoneReturn(c) == /\ c \in gone /\ rpc[c] = "reading"
                 /\ rpc' = [rpc EXCEPT ![c] = "draining"] /\ inbuf' = [inbuf EXCEPT ![c] = <<>>]
                 /\ UNCHANGED <<hr, st, sock, numInvoke, notified, isClosed, apc, jobQ, dpc, dj, spc, expired, lateWrite>>
\* end of the run (the harness waited well beyond every handler duration): everything read was answered,
\* and unless the context expired every connection drained
TEnd == /\ IsEvent("End")
        /\ \A r \in Reqs : WasRead(r) => st[r] = "written"
        /\ spc = "returned" /\ (~expired => AllConnsClosed)      \* by the end of the run every recv goroutine has finished as well
        /\ UNCHANGED vars /\ Keep
\* a new run starts: N and Q of a run are constants of the TLC run (traces are grouped by configuration)
TConfig == /\ IsEvent("Config") /\ Trace[l].n = N /\ Trace[l].q = Q
           /\ st' = [r \in Reqs |-> "unsent"] /\ inbuf' = [c \in Conns |-> <<>>]
           /\ hr' = [c \in Conns |-> 0]
           /\ rpc' = [c \in Conns |-> IF c <= Trace[l].conns THEN "reading" ELSE "closed"]
           /\ sock' = [c \in Conns |-> IF c <= Trace[l].conns THEN "open" ELSE "closed"]
           /\ numInvoke' = [c \in Conns |-> 0] /\ notified' = [c \in Conns |-> c > Trace[l].conns]
           /\ isClosed' = FALSE /\ apc' = "accepting" /\ jobQ' = <<>> /\ dpc' = "sel" /\ dj' = 0
           /\ spc' = "idle" /\ expired' = FALSE /\ lateWrite' = FALSE
           /\ seen' = {} /\ gone' = {}
TSilent == /\ \/ \E c \in Conns : RecvReturn(c) \/ Hand(c) \/ GoneReturn(c)
              \/ DTake \/ DHand \/ PoolStop \/ Notify \/ Expire \/ \E c \in Conns : PollerClose(c)
              \/ \E r \in OneWay : Write(r)                    \* the handler of a one-way request ends without a write
           /\ UNCHANGED <<l, seen, gone>>
TraceNext == TClientAbort \/ TReqSent \/ TRead \/ TInvoked \/ TWritten \/ TConnClosed \/ TAcceptExit \/ TReleased \/ TShutdownStart
             \/ TShutdownEnd \/ TRespRecv \/ TCloseMsgRecv \/ TPeerEOF \/ TEnd \/ TConfig \/ TSilent
\* a connection whose client vanished is ended by the client, not by the shutdown: no notification is owed to it
NotifiedT == \A c \in Conns \ gone : (sock[c] = "closed" /\ spc # "idle") => notified[c]
TraceSpec == TraceInit /\ [][TraceNext]_tvars
ASSUME TLCSet(1, 0)
HighWater == (IF l > TLCGet(1) THEN TLCSet(1, l) ELSE TRUE)
TraceAccepted == /\ PrintT(<<"HWM", TLCGet(1), Len(Trace)>>)
                 /\ TLCGet(1) = Len(Trace) + 1
C3 == {1, 2}
R8 == 1..8
CO8 == [r \in R8 |-> IF r % 2 = 0 THEN 2 ELSE 1]     \* even requests go to connection 2
====
