---- MODULE Trace_ServerShutdown ----
(* Trace validation for C12: one run = one real transport.TarsServer, scripted clients (up to 6 connections),  *)
(* one or more calls of Shutdown (overlapping or one after the other), each with its own context.               *)
(* Events: Config{n,q,conns}  ReqSent{c,r,ow}  Read{c,r} Invoked{r} Written{r} ConnClosed{c} AcceptExit Released (hooks) *)
(*         RespRecv{c,r} CloseMsgRecv{c} PeerEOF{c} (client observations)  ShutdownStart{k} ShutdownEnd{k,expired}  End *)
(*         ClientReads{c} (a client that was not reading starts to read)  RespCut{c,r,got,want} (the stream ended inside   *)
(*         the response of r: the client has got bytes of want)                                                          *)
(* Request r = 10 * connection + ordinal on that connection.                                                     *)
EXTENDS ServerShutdown, Json
VARIABLES l,
          seen,   \* connections whose client has received the close notification
          gone,   \* connections whose client vanished (abortive close by the client: ClientAbort)
          ow,     \* requests sent as one-way: handled like the others, never answered on the wire
          recvd   \* requests whose complete response has reached the client
Trace == ndJsonDeserialize("trace.ndjson")
tvars == <<vars, l, seen, gone, ow, recvd>>
TraceInit == Init /\ l = 1 /\ seen = {} /\ gone = {} /\ ow = {} /\ recvd = {}
IsEvent(e) == l <= Len(Trace) /\ Trace[l].e = e /\ l' = l + 1
Keep == UNCHANGED <<seen, gone, ow, recvd>>
TReqSent == /\ IsEvent("ReqSent") /\ ClientSend(Trace[l].r) /\ ConnOf[Trace[l].r] = Trace[l].c
            /\ ow' = (IF Trace[l].ow THEN ow \cup {Trace[l].r} ELSE ow) /\ UNCHANGED <<seen, gone, recvd>>
TRead == IsEvent("Read") /\ RecvRead(Trace[l].c) /\ Head(inbuf[Trace[l].c]) = Trace[l].r /\ Keep
\* the handler of a one-way request ends without a write, right after the invocation
OneWayDone(r) == /\ st[r] = "running" /\ st' = [st EXCEPT ![r] = "written"]
                 /\ numInvoke' = [numInvoke EXCEPT ![ConnOf[r]] = @ - 1]
                 /\ lateWrite' = (lateWrite \/ sock[ConnOf[r]] = "closed")
                 /\ UNCHANGED <<hr, inbuf, rpc, sock, notified, isClosed, apc, jobQ, dpc, dj, spc, expired, early>>
TInvoked == IsEvent("Invoked") /\ (IF Trace[l].r \in ow THEN OneWayDone(Trace[l].r) ELSE Invoke(Trace[l].r)) /\ Keep
\* (the hook is reached after conn.Write has returned, whether the write succeeded or not; a one-way request never gets there).
\* No hook reports the entry into conn.Write: WriteBegin is taken where the run needs it (TSilent), i.e. right before the first
\* event that tells that the write has begun.  Between the Invoked and the Written report of a request the handler is in
\* (or about to enter) conn.Write and the request still counts in numInvoke: a close of its connection in between is rejected.
TWritten == IsEvent("Written") /\ Trace[l].r \notin ow /\ WriteEnd(Trace[l].r) /\ Keep
WriteBeginNext(r) == l <= Len(Trace) /\ Trace[l].e \in {"Written", "RespRecv", "RespCut"} /\ Trace[l].r = r
\* The steps of the model that no hook reports are taken where the run needs them (a reduction of the search, not of the
\* accepted runs: each of them, once enabled, stays enabled until the step that reads its effect, and enables nothing earlier
\* that an observed event depends on):
\*  - the recv loop's return (RecvReturn, or the failed read of a client that vanished) together with the close that follows it;
\*  - the poller's close of a connection it judges idle, right before the first event that can tell: a return of Shutdown,
\*    the client's end of stream, or the recv loop's close report of that connection;
\*  - the expiry of a context right before the return of its own call.
CanReturn(c) == /\ rpc[c] = "reading"
                /\ \/ isClosed /\ inbuf[c] = <<>> /\ (RT \/ notified[c])
                   \/ Idle /\ ~isClosed /\ inbuf[c] = <<>>            \* idle close (with numInvoke = 0, see ReturnAndClose / TPeerEOF)
                   \/ sock[c] = "closed"
                   \/ c \in gone
ReturnAndClose(c) == /\ CanReturn(c) /\ numInvoke[c] = 0
                     /\ rpc' = [rpc EXCEPT ![c] = "closed"] /\ sock' = [sock EXCEPT ![c] = "closed"] /\ inbuf' = [inbuf EXCEPT ![c] = <<>>]
                     /\ early' = (IF isClosed THEN early ELSE early \cup {c})
                     \* as in RecvClose: a recv loop that ends while the server is closing writes the close notification itself if the
                     \* poller has not got to its connection (with a read timeout the loop can end before the poller's first round, and
                     \* the poller's round can itself be waiting behind a response write to another connection); that the notification
                     \* reached the client is judged on the client's side (TCloseMsgRecv, TPeerEOF)
                     /\ notified' = [notified EXCEPT ![c] = @ \/ (SelfNotify /\ isClosed)]
                     /\ UNCHANGED <<hr, st, numInvoke, isClosed, apc, jobQ, dpc, dj, spc, expired, lateWrite>>
TConnClosed == IsEvent("ConnClosed") /\ (RecvClose(Trace[l].c) \/ ReturnAndClose(Trace[l].c)) /\ Keep
\* the hook of the accept loop is reached after the loop has published its exit (isListenClosed): on a loaded machine the
\* poller can send the close message, and a client can report it, before the hook is recorded.  The model's step is taken
\* either at the hook or, unreported, right before the first client observation that depends on it; the hook then finds it done.
TAcceptExit == IsEvent("AcceptExit") /\ (AcceptExit \/ (apc = "exited" /\ UNCHANGED vars)) /\ Keep
AcceptExitNext == l <= Len(Trace) /\ Trace[l].e \in {"CloseMsgRecv", "PeerEOF", "ConnClosed", "ShutdownEnd"}
TReleased == IsEvent("Released") /\ (PoolDead \/ NoPoolReleased) /\ Keep
TShutdownStart == IsEvent("ShutdownStart") /\ Trace[l].k \in Calls /\ ShutdownStart(Trace[l].k) /\ Keep
\* the call returned: either everything had drained, or its own context had expired (the context of another call does not count)
TShutdownEnd == IsEvent("ShutdownEnd") /\ ShutdownReturn(Trace[l].k) /\ (Trace[l].expired = expired[Trace[l].k]) /\ Keep
\* client-side observations
\* the complete response has reached the client: the write has at least begun (its end is reported by the hook after conn.Write)
TRespRecv == /\ IsEvent("RespRecv") /\ Trace[l].r \notin ow /\ st[Trace[l].r] \in {"writing", "written"} /\ UNCHANGED vars
             /\ recvd' = recvd \cup {Trace[l].r} /\ UNCHANGED <<seen, gone, ow>>
\* the stream ended inside a response: its connection was closed before the response had been written.  Never a behaviour of a
\* graceful server towards a client that is still there.
TRespCut == IsEvent("RespCut") /\ Trace[l].c \in gone /\ UNCHANGED vars /\ Keep
\* a client that was slow to read starts reading (what the server has in flight to it is blocked in conn.Write until then)
TClientReads == IsEvent("ClientReads") /\ UNCHANGED vars /\ Keep
TCloseMsgRecv == IsEvent("CloseMsgRecv") /\ notified[Trace[l].c] /\ UNCHANGED vars /\ seen' = seen \cup {Trace[l].c} /\ UNCHANGED <<gone, ow, recvd>>
\* the client may see the end of the stream before the server-side hook after conn.Close() is recorded.  The server writes
\* the close notification before it closes a connection, and TCP keeps the order: a client that is still there sees the
\* notification before the end of the stream ("connected clients are sent the reconnect notification")
TPeerEOF == /\ IsEvent("PeerEOF")
            /\ (sock[Trace[l].c] = "closed" \/ ((rpc[Trace[l].c] = "draining" \/ CanReturn(Trace[l].c)) /\ numInvoke[Trace[l].c] = 0))
            /\ (Trace[l].c \in seen \/ Trace[l].c \in early \/ ~isClosed)     \* (an idle close without any shutdown owes no notification)
            \* the client's side of "its response written before that connection is closed": the complete response of every
            \* request read from this connection (one-way requests have none) is in the stream before its end
            /\ \A r \in Reqs : (ConnOf[r] = Trace[l].c /\ WasRead(r) /\ r \notin ow) => r \in recvd
            /\ UNCHANGED vars /\ Keep
\* the client of connection c vanishes with a reset: nothing more is sent or observed on it; the server's read fails
TClientAbort == IsEvent("ClientAbort") /\ UNCHANGED vars /\ gone' = gone \cup {Trace[l].c} /\ UNCHANGED <<seen, ow, recvd>>
\* end of the run (the harness waited well beyond every handler duration): everything read was answered,
\* and unless the context expired every connection drained
TEnd == /\ IsEvent("End")
        /\ \A r \in Reqs : WasRead(r) => st[r] = "written"
        /\ ~Polling /\ Begun                                     \* every call of Shutdown that was made has returned
        /\ ((\E k \in Calls : spc[k] = "returned" /\ ~expired[k]) => AllConnsClosed)   \* by the end of the run every recv goroutine has finished as well
        /\ UNCHANGED vars /\ Keep
\* a new run starts: N and Q of a run are constants of the TLC run (traces are grouped by configuration)
TConfig == /\ IsEvent("Config") /\ Trace[l].n = N /\ Trace[l].q = Q /\ Trace[l].idle = Idle
           /\ st' = [r \in Reqs |-> "unsent"] /\ inbuf' = [c \in Conns |-> <<>>]
           /\ hr' = [c \in Conns |-> 0]
           /\ rpc' = [c \in Conns |-> IF c <= Trace[l].conns THEN "reading" ELSE "closed"]
           /\ sock' = [c \in Conns |-> IF c <= Trace[l].conns THEN "open" ELSE "closed"]
           /\ numInvoke' = [c \in Conns |-> 0] /\ notified' = [c \in Conns |-> c > Trace[l].conns]
           /\ isClosed' = FALSE /\ apc' = "accepting" /\ jobQ' = <<>> /\ dpc' = "sel" /\ dj' = 0
           /\ spc' = [k \in Calls |-> "idle"] /\ expired' = [k \in Calls |-> FALSE] /\ lateWrite' = FALSE /\ early' = {}
           /\ seen' = {} /\ gone' = {} /\ ow' = {} /\ recvd' = {}
ExpiryNext(k) == l <= Len(Trace) /\ Trace[l].e = "ShutdownEnd" /\ Trace[l].k = k /\ Trace[l].expired
PollerCloseNext(c) == /\ l <= Len(Trace)
                      /\ \/ Trace[l].e = "ShutdownEnd"
                         \/ Trace[l].e \in {"PeerEOF", "ConnClosed"} /\ Trace[l].c = c
TSilent == /\ \/ \E c \in Conns : Hand(c)
              \/ DTake \/ DHand \/ PoolStop \/ Notify
              \/ \E r \in Reqs : WriteBegin(r) /\ WriteBeginNext(r)
              \/ AcceptExit /\ AcceptExitNext
              \/ \E c \in Conns : PollerClose(c) /\ PollerCloseNext(c)
              \/ \E k \in Calls : Expire(k) /\ ExpiryNext(k)
           /\ UNCHANGED <<l, seen, gone, ow, recvd>>
TraceNext == TClientAbort \/ TReqSent \/ TRead \/ TInvoked \/ TWritten \/ TConnClosed \/ TAcceptExit \/ TReleased \/ TShutdownStart
             \/ TShutdownEnd \/ TRespRecv \/ TRespCut \/ TClientReads \/ TCloseMsgRecv \/ TPeerEOF \/ TEnd \/ TConfig \/ TSilent
\* a connection whose client vanished is ended by the client, not by the shutdown: no notification is owed to it
NotifiedT == \A c \in (Conns \ gone) \ early : (sock[c] = "closed" /\ Begun) => notified[c]
TraceSpec == TraceInit /\ [][TraceNext]_tvars
ASSUME TLCSet(1, 0)
HighWater == (IF l > TLCGet(1) THEN TLCSet(1, l) ELSE TRUE)
TraceAccepted == /\ PrintT(<<"HWM", TLCGet(1), Len(Trace)>>)
                 /\ TLCGet(1) = Len(Trace) + 1
C6 == 1..6
R64 == {10 * c + i : c \in C6, i \in 1..6}
CO64 == [r \in R64 |-> r \div 10]
K3 == {1, 2, 3}
====
