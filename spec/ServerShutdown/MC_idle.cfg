CONSTANTS Conns <- C2  Reqs <- R3  ConnOf <- CO3  N = 1  Q = 1  Calls <- K1  LateRelease = TRUE  RT = TRUE  SelfNotify = TRUE  Idle = TRUE  EarlyDec = FALSE
SPECIFICATION Spec
INVARIANTS TypeOK ReadImpliesAnswered NoLateWrite ReturnsWhenDrained Notified
PROPERTIES ReadGetsAnswered ShutdownDrains
CONSTRAINT NoExpiry
CHECK_DEADLOCK FALSE
