---- MODULE MC_ServerShutdown ----
EXTENDS ServerShutdown
C2 == {1, 2}
R3 == {1, 2, 3}
R4 == {1, 2, 3, 4}
CO3 == [r \in R3 |-> IF r = 3 THEN 2 ELSE 1]
CO4 == [r \in R4 |-> IF r = 4 THEN 2 ELSE 1]
\* the context does not expire: progress must come from draining
K1 == {1}
K2 == {1, 2}         \* two calls of Shutdown, overlapping or one after the other in every order the model allows
NoExpiry == \A k \in Calls : ~expired[k]
\* the idle close alone (no call of Shutdown at all): with the counter released before the write it closes a connection under a write
NoShutdown == ~isClosed
====
