--------------------------- MODULE ServerShutdown ---------------------------
(* Graceful shutdown of a Tars tcp server (tars/transport/tarsserver.go Shutdown, tcphandler.go    *)
(* Handle / recv / handleConn / CloseIdles, tars/util/gpool).                                       *)
(* One action per step between blocking points.  The worker pool is the GPool design reduced to     *)
(* what shutdown can observe: job queue, a dispatcher that holds at most one job while it waits for  *)
(* a free worker, the set of running handlers, and the Release handshake (stop accepted only at the  *)
(* dispatcher's select; then workers are collected as they become idle; jobs still queued never run). *)
(* LateRelease = TRUE: the accept loop releases the pool only after every connection has closed       *)
(* (the repaired code); FALSE: right after the accept loop exits (as originally written).             *)
EXTENDS Integers, Sequences, FiniteSets, TLC
CONSTANTS Conns, Reqs, ConnOf,   \* ConnOf[r]: the connection request r is sent on
          N,                     \* pool size; 0 = no pool (one goroutine per request)
          Q,                     \* job queue capacity
          LateRelease,
          Calls,                 \* the calls of Shutdown on this server (overlapping or one after the other), each with its own context
          SelfNotify,            \* TRUE: a recv loop that ends while the server is closing writes the close notification itself if the
                                 \* poller has not got to its connection yet (repair); FALSE: only the poller notifies
          RT,                    \* a read timeout is configured (FALSE = default: a blocked read is only woken by data or by the close notification)
          Idle,                  \* a read timeout and an idle timeout are configured: a recv loop whose read times out on a connection with nothing
                                 \* buffered and nothing outstanding ends (and its connection is closed) without any shutdown
          EarlyDec               \* FALSE: the code as written, numInvoke is released when the handler ends, i.e. after the response has been written;
                                 \* TRUE: a deviation kept for non-vacuity, the counter is released when invoke returns, before the write
VARIABLES st,        \* per request: "unsent" | "sent" | "read" | "running" | "invoked" | "writing" | "written"
                     \* ("writing": the handler is in conn.Write; a response that does not fit into the socket buffers keeps it
                     \*  there for as long as the client does not read, while every other goroutine of the server goes on)
          inbuf,     \* per connection: requests sent and not yet read, FIFO
          hr,        \* per connection: the request being handed to a handler
          rpc,       \* per connection recv loop: "reading" | "handing" | "draining" (returned, waits for numInvoke = 0) | "closed"
          sock,      \* per connection socket: "open" | "closed" (by the recv loop's deferred close, or by the poller's CloseIdles)
          numInvoke, \* per connection
          notified,  \* per connection: close message written to it
          isClosed,  \* server flag set by Shutdown
          apc,       \* accept loop: "accepting" | "exited" | "released"
          jobQ, dpc, dj,   \* pool: queue, dispatcher pc ("sel" | "hold" | "stopping" | "dead"), held job
          spc,       \* per Shutdown call: "idle" | "polling" | "returned"
          expired,   \* per Shutdown call: its context has expired
          lateWrite, \* ghost: a response was written after its connection had been closed, or its connection was closed under the write
          early      \* ghost: connections closed (idle) before any call of Shutdown: no notification is owed to them
vars == <<st, inbuf, hr, rpc, sock, numInvoke, notified, isClosed, apc, jobQ, dpc, dj, spc, expired, lateWrite, early>>
Running == {r \in Reqs : st[r] \in {"running", "invoked", "writing"}}      \* handlers that occupy a goroutine / a worker of the pool
Init == /\ st = [r \in Reqs |-> "unsent"] /\ inbuf = [c \in Conns |-> <<>>]
        /\ hr = [c \in Conns |-> 0] /\ rpc = [c \in Conns |-> "reading"] /\ sock = [c \in Conns |-> "open"] /\ numInvoke = [c \in Conns |-> 0] /\ notified = [c \in Conns |-> FALSE]
        /\ isClosed = FALSE /\ apc = "accepting" /\ jobQ = <<>> /\ dpc = "sel" /\ dj = 0
        /\ spc = [k \in Calls |-> "idle"] /\ expired = [k \in Calls |-> FALSE] /\ lateWrite = FALSE /\ early = {}
Polling == \E k \in Calls : spc[k] = "polling"          \* some call of Shutdown is in its poll loop (CloseIdles every 500 ms)
Begun == \E k \in Calls : spc[k] # "idle"

\* ---- client
ClientSend(r) == /\ st[r] = "unsent" /\ rpc[ConnOf[r]] \in {"reading", "handing"} /\ sock[ConnOf[r]] = "open" /\ ~notified[ConnOf[r]]
                 /\ st' = [st EXCEPT ![r] = "sent"] /\ inbuf' = [inbuf EXCEPT ![ConnOf[r]] = Append(@, r)]
                 /\ UNCHANGED <<hr, rpc, sock, numInvoke, notified, isClosed, apc, jobQ, dpc, dj, spc, expired, lateWrite, early>>
\* ---- recv loop of connection c: read one request (handleConn: numInvoke++), then hand it to a handler
RecvRead(c) ==
  /\ rpc[c] = "reading" /\ inbuf[c] # <<>> /\ sock[c] = "open"
  /\ LET r == Head(inbuf[c]) IN
     /\ inbuf' = [inbuf EXCEPT ![c] = Tail(@)]
     /\ numInvoke' = [numInvoke EXCEPT ![c] = @ + 1]
     /\ st' = [st EXCEPT ![r] = "read"] /\ hr' = [hr EXCEPT ![c] = r] /\ rpc' = [rpc EXCEPT ![c] = "handing"]
  /\ UNCHANGED <<sock, notified, isClosed, apc, jobQ, dpc, dj, spc, expired, lateWrite, early>>
\* go handler()  /  JobQueue <- handler (blocks while the queue is full)
Hand(c) ==
  /\ rpc[c] = "handing"
  /\ IF N = 0 THEN st' = [st EXCEPT ![hr[c]] = "running"] /\ UNCHANGED jobQ
     ELSE Len(jobQ) < Q /\ jobQ' = Append(jobQ, hr[c]) /\ UNCHANGED st
  /\ rpc' = [rpc EXCEPT ![c] = "reading"] /\ hr' = [hr EXCEPT ![c] = 0]
  /\ UNCHANGED <<inbuf, sock, numInvoke, notified, isClosed, apc, dpc, dj, spc, expired, lateWrite, early>>
\* once the server is closing, a read that times out with an empty buffer ends the loop
RecvReturn(c) == /\ rpc[c] = "reading"
                 /\ \/ isClosed /\ inbuf[c] = <<>> /\ (RT \/ notified[c] \/ SelfNotify)   \* (a loop that iterates after the close began runs on a 100 ms deadline)
                    \/ sock[c] = "closed"                       \* the poller closed the socket: the read fails, unread requests are dropped
                    \/ Idle /\ ~isClosed /\ inbuf[c] = <<>> /\ numInvoke[c] = 0    \* idle close: the read timed out, nothing buffered, no handler outstanding
                 /\ rpc' = [rpc EXCEPT ![c] = "draining"] /\ inbuf' = [inbuf EXCEPT ![c] = <<>>]
                 /\ UNCHANGED <<hr, st, sock, numInvoke, notified, isClosed, apc, jobQ, dpc, dj, spc, expired, lateWrite, early>>
\* deferred: wait until no handler of this connection is outstanding, then close it
RecvClose(c) == /\ rpc[c] = "draining" /\ numInvoke[c] = 0
                /\ rpc' = [rpc EXCEPT ![c] = "closed"] /\ sock' = [sock EXCEPT ![c] = "closed"]
                /\ notified' = [notified EXCEPT ![c] = @ \/ (SelfNotify /\ isClosed)]
                /\ early' = (IF isClosed THEN early ELSE early \cup {c})
                /\ UNCHANGED <<hr, st, inbuf, numInvoke, isClosed, apc, jobQ, dpc, dj, spc, expired, lateWrite>>
\* ---- pool dispatcher
DTake == /\ N > 0 /\ dpc = "sel" /\ jobQ # <<>> /\ dj' = Head(jobQ) /\ jobQ' = Tail(jobQ) /\ dpc' = "hold"
         /\ UNCHANGED <<hr, st, inbuf, rpc, sock, numInvoke, notified, isClosed, apc, spc, expired, lateWrite, early>>
DHand == /\ dpc = "hold" /\ Cardinality(Running) < N
         /\ st' = [st EXCEPT ![dj] = "running"] /\ dpc' = "sel" /\ dj' = 0
         /\ UNCHANGED <<hr, inbuf, rpc, sock, numInvoke, notified, isClosed, apc, jobQ, spc, expired, lateWrite, early>>
\* ---- handler of request r
\* invoke returns (the response is computed) ...
Invoke(r) == /\ st[r] = "running" /\ st' = [st EXCEPT ![r] = "invoked"]
             /\ numInvoke' = (IF EarlyDec THEN [numInvoke EXCEPT ![ConnOf[r]] = @ - 1] ELSE numInvoke)
             /\ UNCHANGED <<hr, inbuf, rpc, sock, notified, isClosed, apc, jobQ, dpc, dj, spc, expired, lateWrite, early>>
\* ... conn.Write(rsp) is entered ...
WriteBegin(r) == /\ st[r] = "invoked" /\ st' = [st EXCEPT ![r] = "writing"]
                 /\ lateWrite' = (lateWrite \/ sock[ConnOf[r]] = "closed")
                 /\ UNCHANGED <<hr, inbuf, rpc, sock, numInvoke, notified, isClosed, apc, jobQ, dpc, dj, spc, expired, early>>
\* ... and returns, any number of steps of the other goroutines later (the client reads when it pleases); only then the handler
\* ends and its deferred numInvoke-- runs.  A socket found closed at this point was closed under the write: the response is cut.
WriteEnd(r) == /\ st[r] = "writing" /\ st' = [st EXCEPT ![r] = "written"]
               /\ numInvoke' = (IF EarlyDec THEN numInvoke ELSE [numInvoke EXCEPT ![ConnOf[r]] = @ - 1])
               /\ lateWrite' = (lateWrite \/ sock[ConnOf[r]] = "closed")
               /\ UNCHANGED <<hr, inbuf, rpc, sock, notified, isClosed, apc, jobQ, dpc, dj, spc, expired, early>>
\* ---- accept loop
AcceptExit == /\ apc = "accepting" /\ isClosed /\ apc' = "exited"
              /\ UNCHANGED <<hr, st, inbuf, rpc, sock, numInvoke, notified, isClosed, jobQ, dpc, dj, spc, expired, lateWrite, early>>
AllConnsClosed == \A c \in Conns : rpc[c] = "closed"       \* every recv goroutine has finished (the connection table is empty)
AllSocksClosed == \A c \in Conns : sock[c] = "closed"
\* pool.Release(): the stop is accepted by the dispatcher's select ...
PoolStop == /\ N > 0 /\ apc = "exited" /\ dpc = "sel" /\ (LateRelease => AllConnsClosed)
            /\ dpc' = "stopping"
            /\ UNCHANGED <<hr, st, inbuf, rpc, sock, numInvoke, notified, isClosed, apc, jobQ, dj, spc, expired, lateWrite, early>>
\* ... and Release returns when every worker has been collected (none is running a handler)
PoolDead == /\ dpc = "stopping" /\ Running = {} /\ dpc' = "dead" /\ apc' = "released"
            /\ UNCHANGED <<hr, st, inbuf, rpc, sock, numInvoke, notified, isClosed, jobQ, dj, spc, expired, lateWrite, early>>
NoPoolReleased == /\ N = 0 /\ apc = "exited" /\ apc' = "released"
                  /\ UNCHANGED <<hr, st, inbuf, rpc, sock, numInvoke, notified, isClosed, jobQ, dpc, dj, spc, expired, lateWrite, early>>
\* ---- Shutdown(ctx)
\* every call sets isClosed (again), pokes the listener and enters its own poll loop: a call that finds the server already
\* closing is a call like any other
ShutdownStart(k) == /\ spc[k] = "idle" /\ spc' = [spc EXCEPT ![k] = "polling"] /\ isClosed' = TRUE
                 /\ UNCHANGED <<hr, st, inbuf, rpc, sock, numInvoke, notified, apc, jobQ, dpc, dj, expired, lateWrite, early>>
\* the poller (OnShutdown / CloseIdles): once the accept loop has exited, the close message goes to every open connection
Notify == /\ Polling /\ apc # "accepting" /\ \E c \in Conns : ~notified[c] /\ rpc[c] # "closed"
          /\ notified' = [c \in Conns |-> notified[c] \/ rpc[c] # "closed"]
          /\ UNCHANGED <<hr, st, inbuf, rpc, sock, numInvoke, isClosed, apc, jobQ, dpc, dj, spc, expired, lateWrite, early>>
\* CloseIdles also closes connections it judges idle (no handler outstanding, no recent read)
PollerClose(c) == /\ Polling /\ notified[c] /\ sock[c] = "open" /\ numInvoke[c] = 0
                  /\ sock' = [sock EXCEPT ![c] = "closed"]
                  /\ UNCHANGED <<hr, st, inbuf, rpc, numInvoke, notified, isClosed, apc, jobQ, dpc, dj, spc, expired, lateWrite, early>>
Expire(k) == /\ spc[k] = "polling" /\ ~expired[k] /\ expired' = [expired EXCEPT ![k] = TRUE]
          /\ UNCHANGED <<hr, st, inbuf, rpc, sock, numInvoke, notified, isClosed, apc, jobQ, dpc, dj, spc, lateWrite, early>>
ShutdownReturn(k) == /\ spc[k] = "polling" /\ (AllSocksClosed \/ expired[k]) /\ spc' = [spc EXCEPT ![k] = "returned"]
                  /\ UNCHANGED <<hr, st, inbuf, rpc, sock, numInvoke, notified, isClosed, apc, jobQ, dpc, dj, expired, lateWrite, early>>
Server == \/ \E c \in Conns : RecvRead(c) \/ Hand(c) \/ RecvReturn(c) \/ RecvClose(c)
          \/ \E r \in Reqs : Invoke(r) \/ WriteBegin(r) \/ WriteEnd(r)
          \/ DTake \/ DHand \/ AcceptExit \/ PoolStop \/ PoolDead \/ NoPoolReleased \/ Notify
          \/ \E c \in Conns : PollerClose(c)
Next == Server \/ (\E r \in Reqs : ClientSend(r)) \/ \E k \in Calls : ShutdownStart(k) \/ Expire(k) \/ ShutdownReturn(k)
Spec == Init /\ [][Next]_vars /\ WF_vars(Server) /\ \A k \in Calls : WF_vars(ShutdownReturn(k))

\* ---------------------------------------------------------------- properties (C12)
WasRead(r) == st[r] \in {"read", "running", "invoked", "writing", "written"}
Counted(r) == IF EarlyDec THEN st[r] \in {"read", "running"} ELSE WasRead(r) /\ st[r] # "written"
TypeOK == /\ \A c \in Conns : numInvoke[c] = Cardinality({r \in Reqs : ConnOf[r] = c /\ Counted(r)})
          /\ Len(jobQ) <= Q
\* a connection is closed only after everything read from it has been answered
ReadImpliesAnswered == \A r \in Reqs : (sock[ConnOf[r]] = "closed" /\ WasRead(r)) => st[r] = "written"
NoLateWrite == ~lateWrite
\* the poller returns only when every connection has drained, or its context expired
ReturnsWhenDrained == \A k \in Calls : spc[k] = "returned" => (AllSocksClosed \/ expired[k])
\* progress: what has been read is eventually answered; with a live context Shutdown returns because everything drained
ReadGetsAnswered == \A r \in Reqs : WasRead(r) ~> (st[r] = "written")
ShutdownDrains == \A k \in Calls : (spc[k] = "polling") ~> (AllSocksClosed \/ expired[k])
\* every connection open when shutdown begins is sent the close message before it is closed
Notified == \A c \in Conns \ early : (sock[c] = "closed" /\ Begun) => notified[c]
=============================================================================
