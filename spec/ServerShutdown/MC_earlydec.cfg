CONSTANTS Conns <- C2  Reqs <- R3  ConnOf <- CO3  N = 0  Q = 1  Calls <- K1  LateRelease = TRUE  RT = FALSE  SelfNotify = TRUE  Idle = FALSE  EarlyDec = TRUE
SPECIFICATION Spec
INVARIANTS TypeOK ReadImpliesAnswered
CONSTRAINT NoExpiry
CHECK_DEADLOCK FALSE
