CONSTANTS Conns <- C2  Reqs <- R3  ConnOf <- CO3  N = 2  Q = 1  Calls <- K1  LateRelease = TRUE  RT = FALSE  SelfNotify = TRUE  Idle = TRUE  EarlyDec = TRUE
SPECIFICATION Spec
INVARIANTS TypeOK NoLateWrite
CONSTRAINT NoShutdown
CHECK_DEADLOCK FALSE
