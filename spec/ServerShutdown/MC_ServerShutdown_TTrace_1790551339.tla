---- MODULE MC_ServerShutdown_TTrace_1790551339 ----
EXTENDS Sequences, TLCExt, MC_ServerShutdown, Toolbox, Naturals, TLC

_expression ==
    LET MC_ServerShutdown_TEExpression == INSTANCE MC_ServerShutdown_TEExpression
    IN MC_ServerShutdown_TEExpression!expression
----

_trace ==
    LET MC_ServerShutdown_TETrace == INSTANCE MC_ServerShutdown_TETrace
    IN MC_ServerShutdown_TETrace!trace
----

_prop ==
    ~<>[](
        st = (<<"written", "read", "written">>)
        /\
        rpc = (<<"draining", "closed">>)
        /\
        lateWrite = (FALSE)
        /\
        jobQ = (<<2>>)
        /\
        dj = (0)
        /\
        notified = (<<TRUE, TRUE>>)
        /\
        spc = ("polling")
        /\
        numInvoke = (<<1, 0>>)
        /\
        sock = (<<"open", "closed">>)
        /\
        expired = (FALSE)
        /\
        isClosed = (TRUE)
        /\
        inbuf = (<<<<>>, <<>>>>)
        /\
        apc = ("released")
        /\
        dpc = ("dead")
    )
----

_init ==
    /\ isClosed = _TETrace[1].isClosed
    /\ lateWrite = _TETrace[1].lateWrite
    /\ dpc = _TETrace[1].dpc
    /\ rpc = _TETrace[1].rpc
    /\ dj = _TETrace[1].dj
    /\ inbuf = _TETrace[1].inbuf
    /\ numInvoke = _TETrace[1].numInvoke
    /\ st = _TETrace[1].st
    /\ expired = _TETrace[1].expired
    /\ jobQ = _TETrace[1].jobQ
    /\ apc = _TETrace[1].apc
    /\ spc = _TETrace[1].spc
    /\ sock = _TETrace[1].sock
    /\ notified = _TETrace[1].notified
----

_next ==
    /\ \E i,j \in DOMAIN _TETrace:
        /\ \/ /\ j = i + 1
              /\ i = TLCGet("level")
        /\ isClosed  = _TETrace[i].isClosed
        /\ isClosed' = _TETrace[j].isClosed
        /\ lateWrite  = _TETrace[i].lateWrite
        /\ lateWrite' = _TETrace[j].lateWrite
        /\ dpc  = _TETrace[i].dpc
        /\ dpc' = _TETrace[j].dpc
        /\ rpc  = _TETrace[i].rpc
        /\ rpc' = _TETrace[j].rpc
        /\ dj  = _TETrace[i].dj
        /\ dj' = _TETrace[j].dj
        /\ inbuf  = _TETrace[i].inbuf
        /\ inbuf' = _TETrace[j].inbuf
        /\ numInvoke  = _TETrace[i].numInvoke
        /\ numInvoke' = _TETrace[j].numInvoke
        /\ st  = _TETrace[i].st
        /\ st' = _TETrace[j].st
        /\ expired  = _TETrace[i].expired
        /\ expired' = _TETrace[j].expired
        /\ jobQ  = _TETrace[i].jobQ
        /\ jobQ' = _TETrace[j].jobQ
        /\ apc  = _TETrace[i].apc
        /\ apc' = _TETrace[j].apc
        /\ spc  = _TETrace[i].spc
        /\ spc' = _TETrace[j].spc
        /\ sock  = _TETrace[i].sock
        /\ sock' = _TETrace[j].sock
        /\ notified  = _TETrace[i].notified
        /\ notified' = _TETrace[j].notified

\* Uncomment the ASSUME below to write the states of the error trace
\* to the given file in Json format. Note that you can pass any tuple
\* to `JsonSerialize`. For example, a sub-sequence of _TETrace.
    \* ASSUME
    \*     LET J == INSTANCE Json
    \*         IN J!JsonSerialize("MC_ServerShutdown_TTrace_1790551339.json", _TETrace)

=============================================================================

 Note that you can extract this module `MC_ServerShutdown_TEExpression`
  to a dedicated file to reuse `expression` (the module in the 
  dedicated `MC_ServerShutdown_TEExpression.tla` file takes precedence 
  over the module `MC_ServerShutdown_TEExpression` below).

---- MODULE MC_ServerShutdown_TEExpression ----
EXTENDS Sequences, TLCExt, MC_ServerShutdown, Toolbox, Naturals, TLC

expression == 
    [
        \* To hide variables of the `MC_ServerShutdown` spec from the error trace,
        \* remove the variables below.  The trace will be written in the order
        \* of the fields of this record.
        isClosed |-> isClosed
        ,lateWrite |-> lateWrite
        ,dpc |-> dpc
        ,rpc |-> rpc
        ,dj |-> dj
        ,inbuf |-> inbuf
        ,numInvoke |-> numInvoke
        ,st |-> st
        ,expired |-> expired
        ,jobQ |-> jobQ
        ,apc |-> apc
        ,spc |-> spc
        ,sock |-> sock
        ,notified |-> notified
        
        \* Put additional constant-, state-, and action-level expressions here:
        \* ,_stateNumber |-> _TEPosition
        \* ,_isClosedUnchanged |-> isClosed = isClosed'
        
        \* Format the `isClosed` variable as Json value.
        \* ,_isClosedJson |->
        \*     LET J == INSTANCE Json
        \*     IN J!ToJson(isClosed)
        
        \* Lastly, you may build expressions over arbitrary sets of states by
        \* leveraging the _TETrace operator.  For example, this is how to
        \* count the number of times a spec variable changed up to the current
        \* state in the trace.
        \* ,_isClosedModCount |->
        \*     LET F[s \in DOMAIN _TETrace] ==
        \*         IF s = 1 THEN 0
        \*         ELSE IF _TETrace[s].isClosed # _TETrace[s-1].isClosed
        \*             THEN 1 + F[s-1] ELSE F[s-1]
        \*     IN F[_TEPosition - 1]
    ]

=============================================================================



Parsing and semantic processing can take forever if the trace below is long.
 In this case, it is advised to uncomment the module below to deserialize the
 trace from a generated binary file.

\*
\*---- MODULE MC_ServerShutdown_TETrace ----
\*EXTENDS IOUtils, MC_ServerShutdown, TLC
\*
\*trace == IODeserialize("MC_ServerShutdown_TTrace_1790551339.bin", TRUE)
\*
\*=============================================================================
\*

---- MODULE MC_ServerShutdown_TETrace ----
EXTENDS MC_ServerShutdown, TLC

trace == 
    <<
    ([st |-> <<"unsent", "unsent", "unsent">>,rpc |-> <<"reading", "reading">>,lateWrite |-> FALSE,jobQ |-> <<>>,dj |-> 0,notified |-> <<FALSE, FALSE>>,spc |-> "idle",numInvoke |-> <<0, 0>>,sock |-> <<"open", "open">>,expired |-> FALSE,isClosed |-> FALSE,inbuf |-> <<<<>>, <<>>>>,apc |-> "accepting",dpc |-> "sel"]),
    ([st |-> <<"sent", "unsent", "unsent">>,rpc |-> <<"reading", "reading">>,lateWrite |-> FALSE,jobQ |-> <<>>,dj |-> 0,notified |-> <<FALSE, FALSE>>,spc |-> "idle",numInvoke |-> <<0, 0>>,sock |-> <<"open", "open">>,expired |-> FALSE,isClosed |-> FALSE,inbuf |-> <<<<1>>, <<>>>>,apc |-> "accepting",dpc |-> "sel"]),
    ([st |-> <<"sent", "unsent", "sent">>,rpc |-> <<"reading", "reading">>,lateWrite |-> FALSE,jobQ |-> <<>>,dj |-> 0,notified |-> <<FALSE, FALSE>>,spc |-> "idle",numInvoke |-> <<0, 0>>,sock |-> <<"open", "open">>,expired |-> FALSE,isClosed |-> FALSE,inbuf |-> <<<<1>>, <<3>>>>,apc |-> "accepting",dpc |-> "sel"]),
    ([st |-> <<"sent", "unsent", "sent">>,rpc |-> <<"reading", "reading">>,lateWrite |-> FALSE,jobQ |-> <<>>,dj |-> 0,notified |-> <<FALSE, FALSE>>,spc |-> "polling",numInvoke |-> <<0, 0>>,sock |-> <<"open", "open">>,expired |-> FALSE,isClosed |-> TRUE,inbuf |-> <<<<1>>, <<3>>>>,apc |-> "accepting",dpc |-> "sel"]),
    ([st |-> <<"sent", "unsent", "sent">>,rpc |-> <<"reading", "reading">>,lateWrite |-> FALSE,jobQ |-> <<>>,dj |-> 0,notified |-> <<FALSE, FALSE>>,spc |-> "polling",numInvoke |-> <<0, 0>>,sock |-> <<"open", "open">>,expired |-> FALSE,isClosed |-> TRUE,inbuf |-> <<<<1>>, <<3>>>>,apc |-> "exited",dpc |-> "sel"]),
    ([st |-> <<"read", "unsent", "sent">>,rpc |-> <<"reading", "reading">>,lateWrite |-> FALSE,jobQ |-> <<1>>,dj |-> 0,notified |-> <<FALSE, FALSE>>,spc |-> "polling",numInvoke |-> <<1, 0>>,sock |-> <<"open", "open">>,expired |-> FALSE,isClosed |-> TRUE,inbuf |-> <<<<>>, <<3>>>>,apc |-> "exited",dpc |-> "sel"]),
    ([st |-> <<"read", "unsent", "read">>,rpc |-> <<"reading", "reading">>,lateWrite |-> FALSE,jobQ |-> <<1, 3>>,dj |-> 0,notified |-> <<FALSE, FALSE>>,spc |-> "polling",numInvoke |-> <<1, 1>>,sock |-> <<"open", "open">>,expired |-> FALSE,isClosed |-> TRUE,inbuf |-> <<<<>>, <<>>>>,apc |-> "exited",dpc |-> "sel"]),
    ([st |-> <<"read", "sent", "read">>,rpc |-> <<"reading", "reading">>,lateWrite |-> FALSE,jobQ |-> <<1, 3>>,dj |-> 0,notified |-> <<FALSE, FALSE>>,spc |-> "polling",numInvoke |-> <<1, 1>>,sock |-> <<"open", "open">>,expired |-> FALSE,isClosed |-> TRUE,inbuf |-> <<<<2>>, <<>>>>,apc |-> "exited",dpc |-> "sel"]),
    ([st |-> <<"read", "sent", "read">>,rpc |-> <<"reading", "reading">>,lateWrite |-> FALSE,jobQ |-> <<3>>,dj |-> 1,notified |-> <<FALSE, FALSE>>,spc |-> "polling",numInvoke |-> <<1, 1>>,sock |-> <<"open", "open">>,expired |-> FALSE,isClosed |-> TRUE,inbuf |-> <<<<2>>, <<>>>>,apc |-> "exited",dpc |-> "hold"]),
    ([st |-> <<"read", "read", "read">>,rpc |-> <<"reading", "reading">>,lateWrite |-> FALSE,jobQ |-> <<3, 2>>,dj |-> 1,notified |-> <<FALSE, FALSE>>,spc |-> "polling",numInvoke |-> <<2, 1>>,sock |-> <<"open", "open">>,expired |-> FALSE,isClosed |-> TRUE,inbuf |-> <<<<>>, <<>>>>,apc |-> "exited",dpc |-> "hold"]),
    ([st |-> <<"running", "read", "read">>,rpc |-> <<"reading", "reading">>,lateWrite |-> FALSE,jobQ |-> <<3, 2>>,dj |-> 0,notified |-> <<FALSE, FALSE>>,spc |-> "polling",numInvoke |-> <<2, 1>>,sock |-> <<"open", "open">>,expired |-> FALSE,isClosed |-> TRUE,inbuf |-> <<<<>>, <<>>>>,apc |-> "exited",dpc |-> "sel"]),
    ([st |-> <<"running", "read", "read">>,rpc |-> <<"reading", "reading">>,lateWrite |-> FALSE,jobQ |-> <<3, 2>>,dj |-> 0,notified |-> <<TRUE, TRUE>>,spc |-> "polling",numInvoke |-> <<2, 1>>,sock |-> <<"open", "open">>,expired |-> FALSE,isClosed |-> TRUE,inbuf |-> <<<<>>, <<>>>>,apc |-> "exited",dpc |-> "sel"]),
    ([st |-> <<"invoked", "read", "read">>,rpc |-> <<"reading", "reading">>,lateWrite |-> FALSE,jobQ |-> <<3, 2>>,dj |-> 0,notified |-> <<TRUE, TRUE>>,spc |-> "polling",numInvoke |-> <<2, 1>>,sock |-> <<"open", "open">>,expired |-> FALSE,isClosed |-> TRUE,inbuf |-> <<<<>>, <<>>>>,apc |-> "exited",dpc |-> "sel"]),
    ([st |-> <<"written", "read", "read">>,rpc |-> <<"reading", "reading">>,lateWrite |-> FALSE,jobQ |-> <<3, 2>>,dj |-> 0,notified |-> <<TRUE, TRUE>>,spc |-> "polling",numInvoke |-> <<1, 1>>,sock |-> <<"open", "open">>,expired |-> FALSE,isClosed |-> TRUE,inbuf |-> <<<<>>, <<>>>>,apc |-> "exited",dpc |-> "sel"]),
    ([st |-> <<"written", "read", "read">>,rpc |-> <<"draining", "reading">>,lateWrite |-> FALSE,jobQ |-> <<3, 2>>,dj |-> 0,notified |-> <<TRUE, TRUE>>,spc |-> "polling",numInvoke |-> <<1, 1>>,sock |-> <<"open", "open">>,expired |-> FALSE,isClosed |-> TRUE,inbuf |-> <<<<>>, <<>>>>,apc |-> "exited",dpc |-> "sel"]),
    ([st |-> <<"written", "read", "read">>,rpc |-> <<"draining", "reading">>,lateWrite |-> FALSE,jobQ |-> <<2>>,dj |-> 3,notified |-> <<TRUE, TRUE>>,spc |-> "polling",numInvoke |-> <<1, 1>>,sock |-> <<"open", "open">>,expired |-> FALSE,isClosed |-> TRUE,inbuf |-> <<<<>>, <<>>>>,apc |-> "exited",dpc |-> "hold"]),
    ([st |-> <<"written", "read", "read">>,rpc |-> <<"draining", "draining">>,lateWrite |-> FALSE,jobQ |-> <<2>>,dj |-> 3,notified |-> <<TRUE, TRUE>>,spc |-> "polling",numInvoke |-> <<1, 1>>,sock |-> <<"open", "open">>,expired |-> FALSE,isClosed |-> TRUE,inbuf |-> <<<<>>, <<>>>>,apc |-> "exited",dpc |-> "hold"]),
    ([st |-> <<"written", "read", "running">>,rpc |-> <<"draining", "draining">>,lateWrite |-> FALSE,jobQ |-> <<2>>,dj |-> 0,notified |-> <<TRUE, TRUE>>,spc |-> "polling",numInvoke |-> <<1, 1>>,sock |-> <<"open", "open">>,expired |-> FALSE,isClosed |-> TRUE,inbuf |-> <<<<>>, <<>>>>,apc |-> "exited",dpc |-> "sel"]),
    ([st |-> <<"written", "read", "running">>,rpc |-> <<"draining", "draining">>,lateWrite |-> FALSE,jobQ |-> <<2>>,dj |-> 0,notified |-> <<TRUE, TRUE>>,spc |-> "polling",numInvoke |-> <<1, 1>>,sock |-> <<"open", "open">>,expired |-> FALSE,isClosed |-> TRUE,inbuf |-> <<<<>>, <<>>>>,apc |-> "exited",dpc |-> "stopping"]),
    ([st |-> <<"written", "read", "invoked">>,rpc |-> <<"draining", "draining">>,lateWrite |-> FALSE,jobQ |-> <<2>>,dj |-> 0,notified |-> <<TRUE, TRUE>>,spc |-> "polling",numInvoke |-> <<1, 1>>,sock |-> <<"open", "open">>,expired |-> FALSE,isClosed |-> TRUE,inbuf |-> <<<<>>, <<>>>>,apc |-> "exited",dpc |-> "stopping"]),
    ([st |-> <<"written", "read", "written">>,rpc |-> <<"draining", "draining">>,lateWrite |-> FALSE,jobQ |-> <<2>>,dj |-> 0,notified |-> <<TRUE, TRUE>>,spc |-> "polling",numInvoke |-> <<1, 0>>,sock |-> <<"open", "open">>,expired |-> FALSE,isClosed |-> TRUE,inbuf |-> <<<<>>, <<>>>>,apc |-> "exited",dpc |-> "stopping"]),
    ([st |-> <<"written", "read", "written">>,rpc |-> <<"draining", "closed">>,lateWrite |-> FALSE,jobQ |-> <<2>>,dj |-> 0,notified |-> <<TRUE, TRUE>>,spc |-> "polling",numInvoke |-> <<1, 0>>,sock |-> <<"open", "closed">>,expired |-> FALSE,isClosed |-> TRUE,inbuf |-> <<<<>>, <<>>>>,apc |-> "exited",dpc |-> "stopping"]),
    ([st |-> <<"written", "read", "written">>,rpc |-> <<"draining", "closed">>,lateWrite |-> FALSE,jobQ |-> <<2>>,dj |-> 0,notified |-> <<TRUE, TRUE>>,spc |-> "polling",numInvoke |-> <<1, 0>>,sock |-> <<"open", "closed">>,expired |-> FALSE,isClosed |-> TRUE,inbuf |-> <<<<>>, <<>>>>,apc |-> "released",dpc |-> "dead"])
    >>
----


=============================================================================

---- CONFIG MC_ServerShutdown_TTrace_1790551339 ----
CONSTANTS
    Conns <- C2
    Reqs <- R3
    ConnOf <- CO3
    N = 1
    Q = 2
    LateRelease = FALSE
    RT = FALSE

PROPERTY
    _prop

CHECK_DEADLOCK
    \* CHECK_DEADLOCK off because of PROPERTY or INVARIANT above.
    FALSE

INIT
    _init

NEXT
    _next

CONSTANT
    _TETrace <- _trace

ALIAS
    _expression
=============================================================================
\* Generated on Sun Sep 27 23:22:21 UTC 2026