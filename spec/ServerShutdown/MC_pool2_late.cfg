CONSTANTS Conns <- C2  Reqs <- R3  ConnOf <- CO3  N = 2  Q = 1  Calls <- K2  LateRelease = TRUE  RT = FALSE  SelfNotify = TRUE  Idle = FALSE  EarlyDec = FALSE
SPECIFICATION Spec
INVARIANTS TypeOK ReadImpliesAnswered NoLateWrite ReturnsWhenDrained Notified
PROPERTIES ReadGetsAnswered ShutdownDrains
CONSTRAINT NoExpiry
CHECK_DEADLOCK FALSE
