CONSTANTS Conns <- C2  Reqs <- R4  ConnOf <- CO4  N = 1  Q = 2  Calls <- K2  LateRelease = TRUE  RT = FALSE  SelfNotify = TRUE  Idle = FALSE  EarlyDec = FALSE
SPECIFICATION Spec
INVARIANTS TypeOK ReadImpliesAnswered NoLateWrite ReturnsWhenDrained Notified
PROPERTIES ReadGetsAnswered ShutdownDrains
CONSTRAINT NoExpiry
CHECK_DEADLOCK FALSE
