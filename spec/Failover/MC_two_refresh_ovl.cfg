CONSTANTS N = 2  Calls <- C1  Kinds <- KRR  Steps <- S30  MaxSend = 3  Reconn <- RBoth  Overlap = TRUE  KeepAlive = FALSE  PingNeutral = FALSE  Faults = FALSE  Reg0 <- R1  Answers <- AllAnswers  Stale = FALSE
SPECIFICATION Spec
CONSTRAINT SendBound
INVARIANTS TypeOK RotationIsHealthy ProbeQueueSingle FailuresCounted CallsGoSomewhere
PROPERTIES NeverOutWithoutFailure NeverOutBelowTwoFailures AllFailingLeaves ProbeSpacing ProbeIsOneCall ProbeDecides OnlyProbeReturns RefreshRespectsHealth
CHECK_DEADLOCK FALSE
