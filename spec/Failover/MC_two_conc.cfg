CONSTANTS N = 2  Calls <- C2  Kinds <- KRR  Steps <- S30  MaxSend = 3  Reconn <- RBoth  Overlap = TRUE  KeepAlive = FALSE  PingNeutral = FALSE  Faults = FALSE  Reg0 <- AllEps  Answers <- NoAnswers  Stale = FALSE
SPECIFICATION Spec
CONSTRAINT SendBound
INVARIANTS TypeOK RotationIsHealthy ProbeQueueSingle CallsGoSomewhere
PROPERTIES NeverOutWithoutFailure NeverOutBelowTwoFailures AllFailingLeaves ProbeSpacing ProbeIsOneCall ProbeDecides OnlyProbeReturns
CHECK_DEADLOCK FALSE
