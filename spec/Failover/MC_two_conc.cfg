CONSTANTS N = 2  Calls <- C2  Kinds <- KRR  Steps <- S30  MaxSend = 3  Reconn <- RBoth  Overlap = TRUE  KeepAlive = FALSE  PingNeutral = FALSE  Faults = FALSE
SPECIFICATION Spec
CONSTRAINT SendBound
INVARIANTS TypeOK RotationIsHealthy ProbeQueueSingle CallsGoSomewhere
PROPERTIES NeverOutWithoutFailure NeverOutBelowTwoFailures AllFailingLeaves ProbeSpacing ProbeIsOneCall ProbeDecides OnlyProbeReturns
CHECK_DEADLOCK FALSE
