CONSTANTS N = 1  Calls <- C1  Kinds <- KRR  Steps <- S5_30  MaxSend = 10  Reconn <- RBoth  Overlap = FALSE  KeepAlive = FALSE  PingNeutral = FALSE  Faults = FALSE  Reg0 <- AllEps  Answers <- NoAnswers  Stale = FALSE
SPECIFICATION Spec
CONSTRAINT SendBound
INVARIANTS TypeOK RotationIsHealthy ProbeQueueSingle ProbesTargetBlocked FailuresCounted CallsGoSomewhere
PROPERTIES NeverOutWithoutFailure NeverOutBelowTwoFailures AllFailingLeaves AllFailingLeavesAlways ProbeSpacing ProbeIsOneCall ProbeDecides OnlyProbeReturns
CHECK_DEADLOCK FALSE
