CONSTANTS N = 3  Calls <- C1  Kinds <- KRR  Steps <- S30  MaxSend = 2  Reconn <- RTrue  Overlap = FALSE  KeepAlive = FALSE  PingNeutral = FALSE  Faults = FALSE  Reg0 <- R12  Answers <- A3  Stale = FALSE
SPECIFICATION Spec
CONSTRAINT SendBound
INVARIANTS TypeOK RotationIsHealthy ProbeQueueSingle ProbesTargetBlocked FailuresCounted CallsGoSomewhere
PROPERTIES NeverOutWithoutFailure NeverOutBelowTwoFailures AllFailingLeaves ProbeSpacing ProbeIsOneCall ProbeDecides OnlyProbeReturns RefreshRespectsHealth
CHECK_DEADLOCK FALSE
