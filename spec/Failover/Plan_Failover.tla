---- MODULE Plan_Failover ----
(* Planned behaviours for the directed replay: where the random walk of Gen_Failover rarely lands  *)
(* exactly on a threshold (4 or 5 failures in a row, 0 / 5 / 10 s since the last success, 1 or 2    *)
(* failures, a failure ratio of exactly one half, 25 / 30 s since blocking, 55 / 60 s since         *)
(* reinstatement), TLC enumerates a grid of PLANS -- sequences of call / wait / check tokens -- and *)
(* executes each with the actions of Failover, recording the model's state after every step.        *)
(* A plan only picks which enabled action is taken; every step is Select / CallDone / CheckAll /    *)
(* Advance of Failover.  A call token names the endpoint it would like; if the model's Select does  *)
(* not allow it (probe pending, endpoint blocked) the least admissible endpoint is taken.           *)
EXTENDS Failover_Proj
CONSTANT Family
VARIABLES hist, plan, pos, sub

Rep(x, k) == [i \in 1..k |-> x]
Call(e, ok, k) == [t |-> "call", e |-> e, ok |-> ok, k |-> k, d |-> 0, a |-> {}, i |-> {}, v |-> FALSE]
Adv(d) == [t |-> "adv", e |-> 0, ok |-> FALSE, k |-> "", d |-> d, a |-> {}, i |-> {}, v |-> FALSE]
Chk == [t |-> "check", e |-> 0, ok |-> FALSE, k |-> "", d |-> 0, a |-> {}, i |-> {}, v |-> FALSE]
Sel(e, k) == [t |-> "sel", e |-> e, ok |-> FALSE, k |-> k, d |-> 0, a |-> {}, i |-> {}, v |-> FALSE]       \* the two halves of a call, so that a check can fall between them
Done(ok) == [t |-> "done", e |-> 0, ok |-> ok, k |-> "", d |-> 0, a |-> {}, i |-> {}, v |-> FALSE]
Dn(e) == [t |-> "down", e |-> e, ok |-> FALSE, k |-> "", d |-> 0, a |-> {}, i |-> {}, v |-> FALSE]      \* the server of e stops listening (Faults)
Upt(e) == [t |-> "up", e |-> e, ok |-> FALSE, k |-> "", d |-> 0, a |-> {}, i |-> {}, v |-> FALSE]       \* ... and listens again
Rf(A, I) == [t |-> "refresh", e |-> 0, ok |-> FALSE, k |-> "", d |-> 0, a |-> A, i |-> I, v |-> FALSE]
Rfv(A, I, V) == [Rf(A, I) EXCEPT !.v = V]      \* ... V: with another weight / grid on the endpoints it names   \* the registry is asked again and answers (active A, inactive I)
Wait(w) == Rep(Adv(30), w \div 30) \o Rep(Adv(5), (w % 30) \div 5)      \* w seconds, in the steps the model knows
Oks(e, k) == Rep(Call(e, TRUE, "rr"), k)
Fails(e, m) == Rep(Call(e, FALSE, "rr"), m)
KindOf(i) == IF i % 3 = 0 THEN "rr" ELSE IF i % 3 = 1 THEN "mod" ELSE "ch"

\* F1 (N = 1): k successes, m failures, a seconds, first check; then 30 s, check, a good call (probe if blocked), a failing one, check
F1 == { Oks(1, k) \o Fails(1, m) \o Wait(a) \o <<Chk>> \o Wait(30) \o <<Chk, Call(1, TRUE, "rr"), Call(1, FALSE, "mod"), Chk>>
        : k \in 0..7, m \in 0..6, a \in {0, 5, 10} }
\* F2 (N = 1): block, probe, reinstate; then k successes, m failures, w seconds, check, 5 s, check
F2 == { Fails(1, 2) \o <<Chk>> \o Wait(30) \o <<Chk, Call(1, TRUE, "rr")>> \o Oks(1, k) \o Fails(1, m) \o Wait(w) \o <<Chk>> \o Wait(5) \o <<Chk>>
        : k \in 0..3, m \in 0..6, w \in {0, 5, 55, 60} }
\* F3 (N = 1, 2): block endpoint 1; w1 s, check (admitted?); w2 s, check (not twice); a call (probe or not) ok / failing;
\*                w3 s, check (30 s after the last admission?); a call; check
F3 == { Fails(1, 2) \o <<Chk>> \o Wait(w1) \o <<Chk>> \o Wait(w2) \o <<Chk, Call(1, o1, "rr")>> \o Wait(w3) \o <<Chk, Call(1, o2, "ch"), Chk>>
        : w1 \in {25, 30}, w2 \in {0, 5, 30}, w3 \in {0, 25, 30}, o1 \in BOOLEAN, o2 \in BOOLEAN }
\* F4 (N = 2): endpoint 1 fails and leaves; j calls of every kind stay on 2; 2 fails and leaves: fallback calls;
\*             30 s, check: both queued in registry order; two probes with outcomes o1, o2; calls; check
F4 == { Fails(1, 2) \o Oks(2, 1) \o <<Chk>> \o [i \in 1..j |-> Call(2, TRUE, KindOf(i))] \o Fails(2, m) \o Wait(a) \o <<Chk>>
        \o <<Call(1, TRUE, "rr"), Call(2, FALSE, "mod"), Call(1, FALSE, "ch")>> \o Wait(30) \o <<Chk>>
        \o <<Call(1, o1, "rr"), Call(2, o2, "rr"), Call(1, TRUE, "rr"), Call(2, TRUE, "mod"), Call(1, TRUE, "ch"), Chk>>
        : j \in {0, 3}, m \in {1, 2, 5}, a \in {0, 5}, o1 \in BOOLEAN, o2 \in BOOLEAN }
\* F5 (N = 3): endpoint b leaves, the others keep serving every kind of call; it is probed (ok / fails) and calls resume
F5 == { Oks(1, 1) \o Oks(2, 1) \o Oks(3, 1) \o Fails(b, m) \o Wait(a) \o <<Chk>>
        \o [i \in 1..6 |-> Call(((b + i) % 3) + 1, TRUE, KindOf(i))] \o Wait(30) \o <<Chk, Call(b, o1, "rr")>>
        \o [i \in 1..6 |-> Call((i % 3) + 1, TRUE, KindOf(i + 1))] \o <<Chk>>
        : b \in 1..3, m \in {1, 2, 4, 5}, a \in {0, 5}, o1 \in BOOLEAN }
\* F6 (N = 1, 2; Overlap): the admission of endpoint 1 waits w more seconds; a status check runs DURING the probe call;
\*             the probe ends o1; another call (a probe of a healthy endpoint if it was admitted again) ends o2; it fails out again (60 s after the reset)
F6 == { Fails(1, 2) \o <<Chk>> \o Wait(30) \o <<Chk>> \o Wait(w) \o <<Sel(1, "rr"), Chk, Done(o1), Call(1, o2, "rr"), Chk>>
        \o Fails(1, 2) \o Wait(60) \o <<Chk, Call(1, TRUE, "mod"), Chk>>
        : w \in {0, 30}, o1 \in BOOLEAN, o2 \in BOOLEAN }
\* F7 (N = 2, KeepAlive): endpoint 1 is blocked, probed and reinstated (so the ratio rule rests for 60 s); then m failures
\*             in a row on it, w seconds, check -- with the ping of that check booked as a success; one more failure, 5 s, check
RECURSIVE RepSeq(_, _)
RepSeq(s, k) == IF k = 0 THEN <<>> ELSE s \o RepSeq(s, k - 1)
F7 == { Fails(1, 2) \o <<Chk>> \o Wait(30) \o <<Chk, Call(1, TRUE, "rr")>> \o Oks(2, 1) \o Fails(1, m) \o Wait(w) \o <<Chk>>
        \o Fails(1, 1) \o Wait(5) \o <<Chk, Call(2, TRUE, "rr")>>
        : m \in {4, 5, 6}, w \in {5, 30} }
   \cup  \* sparse traffic from the start: every failure on endpoint 1 is followed by j quiet status checks 5 s apart
      { Oks(2, 1) \o RepSeq(Fails(1, 1) \o RepSeq(Wait(5) \o <<Chk>>, j), 6) \o <<Call(2, TRUE, "mod")>> : j \in {1, 2, 3} }
\* F8 (N = 1, 2; Faults): endpoint 1 is used k times (0: never connected; 2: its connection is lost), stops listening, m calls
\*             on it are refused (the request cannot be sent); a s, check; a call; 30 s, check: the reconnect fails, no probe is
\*             admitted; it listens again; w s, check (30 s after the failed attempt?); a call (the probe) ends o1; check; a call; check
F8 == { Oks(1, k) \o <<Dn(1)>> \o Fails(1, m) \o Wait(a) \o <<Chk, Call(2, TRUE, "mod")>> \o Wait(30) \o <<Chk, Upt(1)>> \o Wait(w)
        \o <<Chk, Call(1, o1, "rr"), Chk, Call(1, TRUE, "ch"), Chk>>
        : k \in {0, 2}, m \in {1, 2, 4, 5, 6}, a \in {0, 5}, w \in {0, 30}, o1 \in BOOLEAN }
\* F9 (N = 2; Faults): a run of failures on endpoint 1 made of s silent calls and 5 - s refused ones; 5 s, check; 30 s; check with
\*             endpoint 1 listening again (x) or not; it stops again: the admitted probe is refused; endpoint 2 stops too and leaves
\*             by the ratio rule; everything is blocked and nothing listens: calls are still attempted (and refused); both come back, are probed
F9 == { Oks(2, 1) \o Fails(1, s) \o <<Dn(1)>> \o Fails(1, 5 - s) \o Wait(5) \o <<Chk>> \o Wait(30)
        \o (IF x THEN <<Upt(1), Chk, Dn(1)>> ELSE <<Chk>>) \o <<Call(1, TRUE, "rr"), Chk, Dn(2)>> \o Fails(2, f) \o <<Chk>>
        \o <<Call(1, TRUE, "rr"), Call(2, TRUE, "mod"), Call(1, TRUE, "ch"), Upt(1), Upt(2)>> \o Wait(30)
        \o <<Chk, Call(1, o1, "rr"), Call(2, TRUE, "rr"), Call(1, TRUE, "mod"), Chk>>
        : s \in {0, 3, 5}, x \in BOOLEAN, f \in {1, 2}, o1 \in BOOLEAN }
\* F10 (N = 2, KeepAlive, Faults): endpoint 1 is healthy, stops listening and gets NO call any more: only the pings of j status checks
\*             5 s apart fail on it (each a sent and failed request); it comes back, 30 s, check, calls
F10 == { Oks(1, 1) \o Oks(2, 1) \o <<Dn(1)>> \o RepSeq(Wait(5) \o <<Chk, Call(2, TRUE, "rr")>>, j) \o <<Upt(1)>> \o Wait(30)
         \o <<Chk, Call(1, TRUE, "rr"), Call(1, TRUE, "rr"), Chk>> : j \in {1, 2, 5, 6} }
\* F11 (N = 3, the registry names 1 and 2 at first): m = 2 failures on endpoint 1, check: blocked; w1 s; the registry is asked
\*             again and answers x1 -- the list gains / loses OTHER endpoints, is the same, names the same endpoints with another
\*             weight, is empty, loses endpoint 1, moves it to the inactive list --; w2 s, check (a blocked endpoint still listed is admitted for its probe iff w1 + w2 >= 30: the
\*             refresh did not touch its schedule); two calls (the first is the probe if one was admitted) ; the registry answers a2
\*             (endpoint 1 comes back / the list shrinks again); a call for every endpoint; check
X11 == { [a |-> {1, 2, 3}, i |-> {}, v |-> FALSE], [a |-> {1}, i |-> {}, v |-> FALSE], [a |-> {1, 3}, i |-> {2}, v |-> TRUE], [a |-> {1, 2}, i |-> {}, v |-> FALSE],
         [a |-> {1, 2}, i |-> {}, v |-> TRUE], [a |-> {}, i |-> {}, v |-> FALSE], [a |-> {2}, i |-> {}, v |-> FALSE], [a |-> {2, 3}, i |-> {1}, v |-> FALSE],
         [a |-> {3}, i |-> {}, v |-> TRUE] }
F11 == { Oks(2, 1) \o Fails(1, m) \o <<Chk>> \o Wait(w1) \o <<Rfv(x1.a, x1.i, x1.v)>> \o Wait(w2) \o <<Chk, Call(2, TRUE, "rr"), Call(1, o1, "mod")>>
         \o <<Rf(a2, {}), Call(1, TRUE, "rr"), Call(2, TRUE, "mod"), Call(3, TRUE, "ch"), Chk>>
         : m \in {2}, w1 \in {0, 25}, w2 \in {0, 5}, x1 \in X11, a2 \in {{1, 2}, {1, 2, 3}}, o1 \in BOOLEAN }
\* F12 (N = 3, the registry names 1 and 2 at first; Overlap): endpoint 1 is blocked and admitted for its probe; the registry is asked
\*             again BETWEEN the admission and the probe call (x1) and again DURING the probe call (x2) -- an answer that withdraws
\*             endpoint 1 at such a moment is not modelled and skipped --; the probe ends o1; calls; 30 s; check; calls
X12 == { {1, 2, 3}, {1}, {1, 3}, {1, 2}, {} }
F12 == { Fails(1, 2) \o <<Chk>> \o Wait(30) \o <<Chk, Rfv(x1, {}, x1 = {1, 2}), Sel(1, "rr"), Rfv(x2, {}, x2 = {1, 2}), Done(o1), Call(1, TRUE, "rr"), Call(2, TRUE, "mod"), Call(3, TRUE, "ch")>>
         \o Wait(30) \o <<Chk, Call(1, TRUE, "rr"), Call(1, TRUE, "rr"), Chk>>
         : x1 \in X12, x2 \in X12, o1 \in BOOLEAN }
\* F13 (N = 2 or 3, the registry names 1 and 2): both endpoints are blocked (nothing is in rotation, calls fall back to the registry's
\*             list); the registry's list shrinks to one endpoint / grows back: the fallback draws from the list as installed;
\*             endpoint 2 is withdrawn while blocked and named again: it starts afresh
F13 == { Fails(1, 2) \o Fails(2, 2) \o <<Chk>> \o <<Call(1, FALSE, "rr"), Call(2, FALSE, "mod"), Rf(a1, {})>>
         \o <<Call(1, FALSE, "rr"), Call(2, FALSE, "ch"), Call(1, FALSE, "mod"), Rf({1, 2}, {})>> \o <<Call(1, TRUE, "rr"), Call(2, TRUE, "rr"), Call(2, TRUE, "mod")>>
         \o Wait(30) \o <<Chk, Call(1, o1, "rr"), Call(2, TRUE, "rr"), Chk>>
         : a1 \in {{1}, {2}, {}}, o1 \in BOOLEAN }
\* F14 (N = 3, the registry names 1 and 2 at first; Stale = TRUE, the code as it is): endpoint 1 is blocked and admitted for its probe;
\*             the registry WITHDRAWS it (x1: altogether -- its adapter is thrown away --, with endpoint 3 in its place, or to the
\*             inactive list), possibly names it again at once (back); the next call is the probe admitted earlier and ends o1;
\*             five failing calls (on endpoint 1 if it is in rotation), 5 s, check: an endpoint the registry does not name is not
\*             visited; the registry's list changes again (a2): rotation is rebuilt from it; a call for every endpoint; check
X14 == { [a |-> {2}, i |-> {}], [a |-> {2, 3}, i |-> {}], [a |-> {2}, i |-> {1}] }        \* (Rf: no attribute changes)
F14 == { Fails(1, 2) \o <<Chk>> \o Wait(30) \o <<Chk, Rf(x1.a, x1.i)>> \o back \o <<Call(2, o1, "rr")>> \o Fails(1, 5) \o Wait(5)
         \o <<Chk, Call(2, TRUE, "mod"), Rf(a2, {}), Call(1, TRUE, "rr"), Call(2, TRUE, "mod"), Call(3, TRUE, "ch"), Chk>>
         : x1 \in X14, back \in {<<>>, <<Rf({1, 2}, {})>>}, o1 \in BOOLEAN, a2 \in {{1, 2}, {2, 3}} }
\* F15 (N = 2 or 3, the registry names 1 and 2): the endpoints' weight changes (v) before / after endpoint 1 is created / blocked; it is probed
\*             and reinstated (addAliveEp takes the endpoint from the ADAPTER, which still carries the old weight), fails again five times,
\*             5 s, check: out of rotation again; once more with the weight changing while it is back
F15 == { pre \o Fails(1, 2) \o <<Chk>> \o mid \o Wait(30) \o <<Chk, Call(1, TRUE, "rr")>> \o post \o Fails(1, 5) \o Wait(5) \o <<Chk, Call(2, TRUE, "rr"), Call(1, TRUE, "mod")>>
         \o Wait(30) \o <<Chk, Call(1, TRUE, "rr"), Call(1, TRUE, "rr"), Chk>>
         : pre \in {<<>>, <<Rfv({1, 2}, {}, TRUE)>>}, mid \in {<<>>, <<Rfv({1, 2}, {}, TRUE)>>}, post \in {<<>>, <<Rfv({1, 2}, {}, TRUE)>>} }
\* F16 (N = 3, the registry names 1 and 2 at first): endpoint 1 has an adapter (b: and is blocked) and goes to the inactive list (the adapter is
\*             kept); an answer that changes NOTHING (z: empty, also "with another weight"; the same active list with another inactive
\*             list) must not even clean the cache; the same active list once more, without the inactive list: still nothing; then with
\*             another weight: the whole refresh runs, the adapter of endpoint 1 goes; endpoint 1 is named again: in rotation, afresh
F16 == { (IF b THEN Fails(1, 2) \o <<Chk>> ELSE Oks(1, 1)) \o <<Rf({2}, {1}), z, Rf({2}, {}), Call(2, TRUE, "rr"), Rfv({2}, {}, TRUE), Rf({1, 2}, {}),
           Call(1, TRUE, "rr"), Call(2, TRUE, "mod"), Chk>>
         : b \in BOOLEAN, z \in {Rfv({}, {}, TRUE), Rfv({}, {1}, FALSE), Rf({2}, {1, 3}), Rf({2}, {3})} }
\* families over the same constants are generated in one TLC run: "A+B"
Plans == CASE Family = "F14" -> F14 [] Family = "F16" -> F16 [] Family = "F11+F16" -> F11 \cup F16 [] Family = "F11+F13+F15+F16" -> F11 \cup F13 \cup F15 \cup F16 [] Family = "F15" -> F15 [] Family = "F13+F15" -> F13 \cup F15 [] Family = "F11" -> F11 [] Family = "F12" -> F12 [] Family = "F13" -> F13 [] Family = "F6" -> F6 [] Family = "F7" -> F7 [] Family = "F7+F10" -> F7 \cup F10 [] Family = "F8" -> F8 [] Family = "F8+F9" -> F8 \cup F9 [] Family = "F1+F2+F3" -> F1 \cup F2 \cup F3 [] Family = "F3+F4" -> F3 \cup F4 [] Family = "F1" -> F1 [] Family = "F2" -> F2 [] Family = "F3" -> F3 [] Family = "F4" -> F4 [] Family = "F5" -> F5

AllTrue == [e \in Eps |-> TRUE]
Tok == plan[pos]
Least(S) == CHOOSE x \in S : \A y \in S : x <= y
PlanNext ==
  /\ pos <= Len(plan)
  /\ UNCHANGED plan
  /\ \/ /\ Tok.t = "call" /\ sub = 0
        /\ LET e == IF Tok.e \in Cands THEN Tok.e ELSE Least(Cands)
           IN IF up[e]
              THEN Select(1, e, Tok.k) /\ hist' = Append(hist, StepRec("Select", 1, e, Tok.k, FALSE, 0, SetToSeq(Cands)))
                   /\ sub' = 1 /\ pos' = pos
              ELSE \* the endpoint does not listen: the call is refused, whatever outcome the plan had in mind
                   Refused(1, e, Tok.k) /\ hist' = Append(hist, StepRec("Refused", 1, e, Tok.k, FALSE, 0, SetToSeq(Cands)))
                   /\ sub' = 0 /\ pos' = pos + 1
     \/ /\ Tok.t = "call" /\ sub = 1
        /\ CallDone(1, Tok.ok) /\ hist' = Append(hist, StepRec("CallDone", 1, infl[1].ep, "", Tok.ok, 0, <<>>))
        /\ sub' = 0 /\ pos' = pos + 1
     \/ /\ Tok.t = "sel"
        /\ LET e == IF Tok.e \in Cands THEN Tok.e ELSE Least(Cands)
           IN Select(1, e, Tok.k) /\ hist' = Append(hist, StepRec("Select", 1, e, Tok.k, FALSE, 0, SetToSeq(Cands)))
        /\ sub' = 0 /\ pos' = pos + 1
     \/ /\ Tok.t = "done"
        /\ CallDone(1, Tok.ok) /\ hist' = Append(hist, StepRec("CallDone", 1, infl[1].ep, "", Tok.ok, 0, <<>>))
        /\ sub' = 0 /\ pos' = pos + 1
     \/ /\ Tok.t \in {"down", "up"}
        /\ SetUp(Tok.e, Tok.t = "up") /\ hist' = Append(hist, StepRec(IF Tok.t = "up" THEN "Up" ELSE "Down", 0, Tok.e, "", FALSE, 0, <<>>))
        /\ sub' = 0 /\ pos' = pos + 1
     \/ /\ Tok.t = "refresh"
        /\ LET x == [a |-> Tok.a, i |-> Tok.i, v |-> Tok.v]
           IN IF RefreshOK(x)
              THEN Refresh(x) /\ hist' = Append(hist, RefreshRec(x))
              ELSE UNCHANGED <<vars, hist>>            \* an answer the model does not follow (see RefreshOK): the token is skipped
        /\ sub' = 0 /\ pos' = pos + 1
     \/ /\ Tok.t = "adv"
        /\ Advance(Tok.d) /\ hist' = Append(hist, StepRec("Advance", 0, 0, "", FALSE, Tok.d, <<>>))
        /\ sub' = 0 /\ pos' = pos + 1
     \/ /\ Tok.t = "check"
        /\ CheckAll(up) /\ hist' = Append(hist, StepRec("Check", 0, 0, "", FALSE, 0, <<>>))
        /\ sub' = 0 /\ pos' = pos + 1
PlanInit == Init /\ hist = <<>> /\ plan \in Plans /\ pos = 1 /\ sub = 0
PlanSpec == PlanInit /\ [][PlanNext]_<<vars, hist, plan, pos, sub>>
Emit == pos <= Len(plan) \/ PrintT(ToJson([n |-> N, reg0 |-> SetToSeq(Reg0), stale |-> Stale, calls |-> 1, overlap |-> Overlap, keepalive |-> KeepAlive, plan |-> plan, steps |-> hist]))
====
