---- MODULE Gen_Failover ----
(* Behaviour generation for the directed replay (B2).  TLC's simulator walks the actions of        *)
(* Failover (Select, CallDone, CheckAll = one whole checkStatus pass, Advance) and records, for    *)
(* every step, the action with its arguments and the projection of the model's state AFTER the     *)
(* step; the Go driver performs the same step on the real objects and compares.                    *)
(* The walk is biased (weights below) towards histories that block, probe and reinstate: each      *)
(* behaviour has a set `bad` of endpoints whose calls mostly fail; it drifts as time advances.     *)
(* The bias only shapes the sample, every step is a step of Failover!Next / CheckAll.              *)
EXTENDS Failover_Proj
CONSTANTS D,        \* behaviour length
          PFailBad, \* per cent of failing calls on a bad endpoint
          PFailGood \* per cent of failing calls on a good endpoint
VARIABLES hist, bad

Rec(a, c, e, k, ok, d, cs) == hist' = Append(hist, StepRec(a, c, e, k, ok, d, cs))

AllTrue == [e \in Eps |-> TRUE]
Busy == {c \in Calls : infl[c] # NoCall}
Free == Calls \ Busy

GSelect == \E c \in Free : \E e \in Cands : \E k \in Kinds :
             /\ c = CHOOSE x \in Free : \A y \in Free : x <= y
             /\ \/ Select(c, e, k) /\ Rec("Select", c, e, k, FALSE, 0, SetToSeq(Cands))      \* e listens
                \/ Refused(c, e, k) /\ Rec("Refused", c, e, k, FALSE, 0, SetToSeq(Cands))    \* e does not: the call fails at once
             /\ UNCHANGED bad
GDone(pct) == \E c \in Busy :
             LET e   == infl[c].ep
                 pf  == IF e \in bad THEN PFailBad ELSE PFailGood
                 ok  == pct > pf
             IN CallDone(c, ok) /\ Rec("CallDone", c, e, "", ok, 0, <<>>) /\ UNCHANGED bad
\* ReConnect inside checkActive succeeds exactly when the endpoint listens (the driver makes sure the client has noticed a lost connection)
GCheck == CheckAll(up) /\ Rec("Check", 0, 0, "", FALSE, 0, <<>>) /\ UNCHANGED bad
GAdvance(flip) == \E d \in Steps :
             /\ Advance(d) /\ Rec("Advance", 0, 0, "", FALSE, d, <<>>)
             /\ bad' = IF flip \in Eps THEN (IF flip \in bad THEN bad \ {flip} ELSE bad \cup {flip}) ELSE bad

\* an endpoint stops listening / comes back (only with Faults)
GFault(x) == SetUp(x, ~up[x]) /\ Rec(IF up[x] THEN "Down" ELSE "Up", 0, x, "", FALSE, 0, <<>>) /\ UNCHANGED bad

\* the refresher asks the registry again (only with Answers # {}): any answer the model can follow, half of the time one that
\* changes the installed list (the others -- the same list, an empty answer -- must change nothing)
Able == {x \in Answers : RefreshOK(x)}
Changing == {x \in Able : (x.a # reg \/ x.v) /\ x.a # {}}
GRefresh(coin) == \E x \in (IF coin = 1 /\ Changing # {} THEN Changing ELSE Able) :
             /\ Refresh(x) /\ hist' = Append(hist, RefreshRec(x)) /\ UNCHANGED bad

\* weights: with a call in flight mostly finish it; otherwise 50 select / 22 check / 28 advance (refreshes: 10 of the 28)
GenNext ==
  LET r  == RandomElement(1..100)
      p  == RandomElement(1..100)
      fl == RandomElement(1..(3 * N))          \* one endpoint flips in a third of the advances
      cn == RandomElement(1..2)
  IN IF Overlap /\ Busy # {} /\ Able # {} /\ r >= 94 THEN GRefresh(cn)   \* the refresher runs while a call is in flight
     ELSE IF Overlap /\ Busy # {} /\ r >= 80 THEN GCheck          \* the status check runs while a call is in flight
     ELSE IF Busy # {} /\ (Free = {} \/ r <= 60) THEN GDone(p)
     ELSE IF r <= 50 THEN GSelect
     ELSE IF Busy = {} /\ r <= 72 THEN GCheck
     ELSE IF Busy = {} /\ Faults /\ r <= 82 THEN GFault(RandomElement(Eps))
     ELSE IF Busy = {} /\ Able # {} /\ r >= 91 THEN GRefresh(cn)
     ELSE IF Busy = {} THEN GAdvance(fl)
     ELSE GSelect
GenInit == Init /\ hist = <<>> /\ bad \in SUBSET Eps
GenSpec == GenInit /\ [][GenNext]_<<vars, hist, bad>>
Emit == TLCGet("level") < D \/ PrintT(ToJson([n |-> N, reg0 |-> SetToSeq(Reg0), stale |-> Stale, calls |-> Cardinality(Calls), overlap |-> Overlap, keepalive |-> KeepAlive, steps |-> hist]))
====
