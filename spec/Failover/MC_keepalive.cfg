CONSTANTS N = 2  Calls <- C1  Kinds <- KRR  Steps <- S5_30  MaxSend = 6  Reconn <- RTrue  Overlap = FALSE  KeepAlive = TRUE  PingNeutral = FALSE  Faults = FALSE  Reg0 <- AllEps  Answers <- NoAnswers  Stale = FALSE
SPECIFICATION Spec
CONSTRAINT SendBound
INVARIANTS TypeOK RotationIsHealthy ProbeQueueSingle ProbesTargetBlocked FailuresCounted CallsGoSomewhere
PROPERTIES NeverOutWithoutFailure NeverOutBelowTwoFailures AllFailingLeaves ProbeSpacing ProbeIsOneCall ProbeDecides OnlyProbeReturns
CHECK_DEADLOCK FALSE
