---- MODULE Failover_Proj ----
(* The projection of the model's state that the replay driver compares with the real objects       *)
(* (harness/cmd/fodrive/replay.go, func compare), in a compact JSON-friendly shape.                 *)
EXTENDS Failover, Json
SetToSeq(S) == LET RECURSIVE F(_) F(T) == IF T = {} THEN <<>> ELSE LET x == CHOOSE y \in T : \A z \in T : y <= z IN <<x>> \o F(T \ {x}) IN F(S)
\* compact projection: per endpoint <<status, fail, lastFail, send, aSucc, aBlock, aCheck, aKeep>>
Proj == [h  |-> [e \in Eps |-> <<h[e].status, h[e].fail, h[e].lastFail, h[e].send, h[e].aSucc, h[e].aBlock, h[e].aCheck, h[e].aKeep>>],
         cr |-> SetToSeq(created), ac |-> SetToSeq(active), pq |-> probeQ, li |-> SetToSeq(listed),
         fl |-> [c \in Calls |-> <<infl[c].ep, infl[c].probe>>],
         up |-> SetToSeq({e \in Eps : up[e]}),
         rg |-> SetToSeq(reg)]                     \* the registry's active list as installed (activeEpf)
BreaksSeq(S) == LET RECURSIVE F(_) F(T) == IF T = {} THEN <<>> ELSE LET x == CHOOSE y \in T : TRUE IN <<x>> \o F(T \ {x}) IN F(S)
StepRec(a, c, e, k, ok, d, cs) == [a |-> a, c |-> c, e |-> e, k |-> k, ok |-> ok, d |-> d, cands |-> cs, ina |-> <<>>, st |-> Proj',
                                   breaks |-> BreaksSeq(StepBreaks(a = "Check"))]
\* a registry refresh: cands = the active list of the registry's answer, ina = its inactive list, ok = an attribute of the endpoints changed
RefreshRec(x) == [StepRec("Refresh", 0, 0, "", x.v, 0, SetToSeq(x.a)) EXCEPT !.ina = SetToSeq(x.i)]
====
