---- MODULE MC_Failover ----
EXTENDS Failover
C1 == {1}
C2 == {1, 2}
KRR == {"rr"}
S5_30 == {5, 30}
S30 == {30}
RBoth == BOOLEAN
RTrue == {TRUE}
R1 == {1}
R12 == {1, 2}
\* a small menu of registry answers for three endpoints: grow, shrink or only an attribute changes, swap (the first goes to the inactive list), lose the others
A3 == {[a |-> {1, 2, 3}, i |-> {}, v |-> FALSE], [a |-> {1, 2}, i |-> {}, v |-> TRUE], [a |-> {2, 3}, i |-> {1}, v |-> FALSE], [a |-> {1}, i |-> {}, v |-> FALSE]}
====
