---- MODULE MC_Failover ----
EXTENDS Failover
C1 == {1}
C2 == {1, 2}
KRR == {"rr"}
S5_30 == {5, 30}
S30 == {30}
RBoth == BOOLEAN
RTrue == {TRUE}
====
