CONSTANTS N = 2  Calls <- C1  Kinds <- KRR  Steps <- S30  MaxSend = 3  Reconn <- RBoth  Overlap = FALSE  KeepAlive = FALSE  PingNeutral = FALSE  Faults = FALSE  Reg0 <- R12  Answers <- AllAnswers  Stale = TRUE
SPECIFICATION Spec
CONSTRAINT SendBound
INVARIANTS TypeOK RotationIsHealthy ProbeQueueSingle ProbesTargetBlocked FailuresCounted CallsGoSomewhere
PROPERTIES NeverOutWithoutFailure NeverOutBelowTwoFailures AllFailingLeaves ProbeSpacing ProbeIsOneCall ProbeDecides OnlyProbeReturns
CHECK_DEADLOCK FALSE
