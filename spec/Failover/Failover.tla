---- MODULE Failover ----
(***************************************************************************************************)
(* C15 -- failover of a servant whose endpoints come from a registry.                              *)
(*                                                                                                 *)
(* Per endpoint a health record (AdapterProxy: status, failCount, lastFailCount, sendCount and the *)
(* three timestamps), per servant a manager (endpointManager: the endpoints in rotation, the queue *)
(* of endpoints to probe and the set guarding it against duplicates).  One action per public step  *)
(* of the implementation:                                                                          *)
(*   Select(c, e, k)   SelectAdapterProxy + AdapterProxy.Send: call slot c is routed to endpoint e *)
(*   CallDone(c, ok)   the call of slot c ends (reply / timeout), with reinstatement after a good  *)
(*                     probe                                                                       *)
(*   CheckEp(e, rc)    checkActive + the manager's reaction for ONE endpoint                       *)
(*   CheckAll(rc)      one whole pass of checkStatus (CheckEp for every endpoint, registry order)  *)
(*   Advance(d)        d seconds pass                                                              *)
(*   Refused(c, e, k)  SelectAdapterProxy + AdapterProxy.Send on an endpoint that does not listen:    *)
(*                     the request cannot be sent (dial refused), the call fails at once              *)
(*   SetUp(e, b)       environment: the server of endpoint e stops listening / listens again          *)
(*   Refresh(x)        the refresher asks the registry again (refreshEndpoints + updateActiveEp); x is the    *)
(*                     registry's answer: an active list x.a and an inactive list x.i                         *)
(*                                                                                                 *)
(* Time.  The code compares `now - t >= threshold` only, so the record keeps AGES (now - t), each  *)
(* saturating at the one threshold it is compared with (absolute timestamps and 1-second steps     *)
(* make the state space explode: > 10^8 states).  A timestamp that was never written (0) is an age *)
(* at its saturation value.  Time does not advance while a call is in flight: a call lasts at most *)
(* its timeout (<= 3 s), below the granularity of Steps.                                           *)
(*                                                                                                 *)
(* Ghost variables (g) do not influence any action; the properties of C15 are written over them    *)
(* and over steps of `active`, never over the code's own counters.                                 *)
(***************************************************************************************************)
EXTENDS Integers, Sequences, FiniteSets, TLC

CONSTANTS N,        \* number of endpoints the registry may ever name; endpoint i is the i-th in registry (host) order
          Reg0,     \* the endpoints the registry names when the servant is created (a non-empty subset of 1..N)
          Answers,  \* what the registry may answer when it is asked again: records [a |-> active list, i |-> inactive list,
                    \* v |-> an attribute of the listed endpoints (weight, grid, ...) differs from the installed list's]
                    \* (sets: the code sorts the active list by host); {} = the registry is never asked again
          Stale,    \* FALSE: answers that withdraw an endpoint from the active list while an admission for its probe is queued are
                    \* left out (C15 does not speak about endpoints the registry has withdrawn); TRUE: they are followed AS CODED --
                    \* the admission stays queued, the next caller probes the withdrawn endpoint, and a good probe puts it (back)
                    \* into rotation although the registry does not name it and no status check will ever visit it
          Calls,    \* call slots (concurrent callers)
          Kinds,    \* routing kinds of a call: "rr" (round robin), "mod", "ch" (hash routed); no effect on the state
          Steps,    \* time increments in seconds
          MaxSend,  \* bound on sendCount (state constraint of the exhaustive configurations)
          Reconn,   \* results ReConnect may have inside checkActive (subset of BOOLEAN)
          Overlap,  \* TRUE: the status check may run while a call is in flight (the real checker is a
                    \* separate goroutine); FALSE: it runs between calls only (what the replay driver does)
          KeepAlive,   \* TRUE: client keep-alive is configured (keep-alive-interval = KeepInterval s; the default is off):
                       \* checkStatus first sends a one-way tars_ping on every adapter whose last ping is that old
          PingNeutral, \* FALSE: as coded, a ping that could be SENT is booked as a sent and successful call
                       \* (sendAdd, successAdd); TRUE: the candidate repair, a sent ping leaves the health record alone
          Faults       \* TRUE: endpoints may stop listening and come back (SetUp): one more way for a call to fail --
                       \* the request cannot even be sent (connection refused), doInvoke's `adp.Send` error branch

Eps == 1..N

\* tars/setting.go
FailN        == 5    \* fainN
FailInterval == 5    \* failInterval
CheckTime    == 60   \* checkTime
OverN        == 2    \* overN, with failRatio 0.5 written as 2 * fail >= send
TryInterval  == 30   \* tryTimeInterval
KeepInterval == 5    \* the keep-alive interval the replay configures (5000 ms): a multiple of the smallest time step

VARIABLES h,        \* [Eps -> health record]
          created,  \* endpoints that have an AdapterProxy (made lazily by the first selection)
          active,   \* endpoints in rotation (activeEp and the three selectors)
          probeQ,   \* checkAdapter: queue of endpoints admitted for one probe call
          listed,   \* checkAdapterList: endpoints currently in probeQ
          infl,     \* [Calls -> in-flight call or NoCall]
          g,        \* ghosts, [Eps -> [since, run, runAge, admitAge]]
          up,       \* environment, [Eps -> BOOLEAN]: the endpoint's server is listening (a connection can be made)
          reg,      \* activeEpf: the active list of the registry's last answer that was installed (what checkStatus visits,
                    \* what the random fallback draws from)
          staleQ    \* (only with Stale) endpoints in `listed` whose queued adapter was thrown out of the cache by a refresh: the object
                    \* in the queue is no longer the endpoint's adapter, its counters are nobody's health record
vars == <<h, created, active, probeQ, listed, infl, g, up, reg, staleQ>>

Min(a, b) == IF a < b THEN a ELSE b
NoCall == [ep |-> 0, probe |-> FALSE, orph |-> FALSE]       \* orph: the call runs on an adapter that is no longer in the cache

H0 == [status |-> TRUE, fail |-> 0, lastFail |-> 0, send |-> 0,
       aSucc |-> FailInterval, aBlock |-> TryInterval, aCheck |-> CheckTime,
       aKeep |-> IF KeepAlive THEN KeepInterval ELSE 0]          \* age of lastKeepAliveTime; not tracked without keep-alive
\* since:    failed calls since the endpoint was last (re)instated, saturating at OverN
\* run:      length of the current run of failed calls (no success in between), saturating at FailN
\* runAge:   seconds since the first failure of that run, saturating at FailInterval
\* admitAge: seconds since the endpoint was last admitted for a probe, saturating at TryInterval
G0 == [since |-> 0, run |-> 0, runAge |-> 0, admitAge |-> TryInterval]

Init == /\ h = [e \in Eps |-> H0]
        /\ created = {}
        /\ active = Reg0
        /\ probeQ = <<>>
        /\ listed = {}
        /\ infl = [c \in Calls |-> NoCall]
        /\ g = [e \in Eps |-> G0]
        /\ up = [e \in Eps |-> TRUE]
        /\ reg = Reg0
        /\ staleQ = {}

----
(* SelectAdapterProxy: a queued probe candidate first, then the strategy over the endpoints in     *)
(* rotation (any of them: cursors and hash codes are not modelled here, see Selector / HashRing),  *)
(* and any endpoint of the registry's list when nothing is in rotation.                            *)
IsProbe == probeQ # <<>>
Cands == IF IsProbe THEN {Head(probeQ)} ELSE IF active # {} THEN active ELSE reg

Orphan(e) == IsProbe /\ e \in staleQ           \* the probe candidate at the head of the queue is an adapter out of the cache
Select(c, e, k) ==
  /\ infl[c] = NoCall
  /\ e \in Cands
  /\ up[e]
  /\ k \in Kinds
  /\ infl' = [infl EXCEPT ![c] = [ep |-> e, probe |-> IsProbe, orph |-> Orphan(e)]]
  /\ probeQ' = IF IsProbe THEN Tail(probeQ) ELSE probeQ
  /\ listed' = IF IsProbe THEN listed \ {e} ELSE listed
  /\ staleQ' = IF IsProbe THEN staleQ \ {e} ELSE staleQ
  /\ created' = IF Orphan(e) THEN created ELSE created \cup {e}
  /\ h' = IF Orphan(e) THEN h ELSE [h EXCEPT ![e].send = @ + 1]                      \* sendAdd in AdapterProxy.Send
  /\ UNCHANGED <<active, g, up, reg>>

(* A failed call on a health record (failAdd) and on the ghosts.                                   *)
FailRec(r) == [r EXCEPT !.lastFail = Min(FailN, @ + 1), !.fail = @ + 1]
FailGhost(x) == [x EXCEPT !.since = Min(OverN, @ + 1), !.run = Min(FailN, @ + 1), !.runAge = IF x.run = 0 THEN 0 ELSE @]

(* The same selection on an endpoint whose server does not listen: AdapterProxy.Send counts the    *)
(* request (sendAdd), the transport cannot connect, doInvoke books the failure (failAdd) and       *)
(* returns the error: Select and a failing CallDone in one step, no call is ever in flight.  A      *)
(* refused probe consumes its admission like any probe and leaves the endpoint blocked.            *)
Refused(c, e, k) ==
  /\ infl[c] = NoCall
  /\ e \in Cands
  /\ ~up[e]
  /\ k \in Kinds
  /\ probeQ' = IF IsProbe THEN Tail(probeQ) ELSE probeQ
  /\ listed' = IF IsProbe THEN listed \ {e} ELSE listed
  /\ staleQ' = IF IsProbe THEN staleQ \ {e} ELSE staleQ
  /\ created' = IF Orphan(e) THEN created ELSE created \cup {e}
  /\ h' = IF Orphan(e) THEN h ELSE [h EXCEPT ![e] = FailRec([h[e] EXCEPT !.send = @ + 1])]
  /\ g' = IF Orphan(e) THEN g ELSE [g EXCEPT ![e] = FailGhost(g[e])]
  /\ UNCHANGED <<active, infl, up, reg>>

(* doInvoke after the send: a reply is successAdd (and, for a probe, reset + addAliveEp); a        *)
(* timeout / cancelled context / send error is failAdd.                                            *)
CallDone(c, ok) ==
  /\ infl[c] # NoCall
  /\ LET e  == infl[c].ep
         re == infl[c].probe /\ ok
         r1 == IF ok THEN [h[e] EXCEPT !.aSucc = 0, !.lastFail = 0]
                     ELSE FailRec(h[e])
         r2 == IF re THEN [r1 EXCEPT !.send = 0, !.fail = 0, !.lastFail = 0, !.aBlock = 0, !.aCheck = 0, !.aKeep = 0, !.status = TRUE]
                     ELSE r1
     IN /\ h' = IF infl[c].orph THEN h ELSE [h EXCEPT ![e] = r2]           \* an orphan's counters are nobody's health record
        /\ active' = IF re THEN active \cup {e} ELSE active                \* addAliveEp: whatever the registry says about e by now
        /\ g' = IF infl[c].orph THEN g ELSE [g EXCEPT ![e] = [@ EXCEPT
                   !.since  = IF re THEN 0 ELSE IF ok THEN @ ELSE Min(OverN, @ + 1),
                   !.run    = IF ok THEN 0 ELSE Min(FailN, @ + 1),
                   !.runAge = IF ok \/ g[e].run = 0 THEN 0 ELSE @]]
  /\ infl' = [infl EXCEPT ![c] = NoCall]
  /\ UNCHANGED <<created, probeQ, listed, up, reg, staleQ>>

----
(* AdapterProxy.checkActive on a record; rc is what ReConnect would return.                        *)
CheckOne(r, rc) ==
  IF r.status
  THEN IF r.aSucc >= FailInterval /\ r.lastFail >= FailN
       THEN [rec |-> [r EXCEPT !.status = FALSE, !.aBlock = 0], first |-> TRUE, need |-> FALSE]
       ELSE IF r.aCheck >= CheckTime
            THEN IF r.fail >= OverN /\ 2 * r.fail >= r.send
                 THEN [rec |-> [r EXCEPT !.status = FALSE, !.aBlock = 0], first |-> TRUE, need |-> FALSE]
                 ELSE [rec |-> [r EXCEPT !.aBlock = 0], first |-> FALSE, need |-> FALSE]
            ELSE [rec |-> r, first |-> FALSE, need |-> FALSE]
  ELSE IF r.aBlock >= TryInterval
       THEN [rec |-> [r EXCEPT !.aBlock = 0], first |-> FALSE, need |-> rc]
       ELSE [rec |-> r, first |-> FALSE, need |-> FALSE]

(* AdapterProxy.doKeepAlive, called by checkStatus before checkActive when keep-alive is configured: a one-way    *)
(* ping, at most one per KeepInterval.  A ping that cannot be sent (u = FALSE: the server does not listen) is     *)
(* booked as a sent and failed request, before and after the repair.                                              *)
PingDue(r) == KeepAlive /\ r.aKeep >= KeepInterval
Ping(r, u) ==
  IF ~PingDue(r) THEN r
  ELSE IF ~u THEN FailRec([r EXCEPT !.aKeep = 0, !.send = @ + 1])
  ELSE IF PingNeutral THEN [r EXCEPT !.aKeep = 0]
  ELSE [r EXCEPT !.aKeep = 0, !.send = @ + 1, !.aSucc = 0, !.lastFail = 0]

(* The part of the manager's state checkStatus works on, as a value, so that one endpoint's step   *)
(* and the whole pass are the same function.                                                       *)
Mgr == [h |-> h, active |-> active, probeQ |-> probeQ, listed |-> listed, g |-> g]

StepEp(m, e, rc) ==
  IF e \notin created \/ e \notin reg THEN m        \* checkStatus visits the adapters of the registry's active list only
  ELSE LET c     == CheckOne(Ping(m.h[e], up[e]), rc)
           admit == c.need /\ e \notin m.listed
           g1    == IF PingDue(m.h[e]) /\ ~up[e] THEN [m.g EXCEPT ![e] = FailGhost(@)] ELSE m.g   \* a ping that cannot be sent is a failed call
       IN [h      |-> [m.h EXCEPT ![e] = c.rec],
           active |-> IF c.first THEN m.active \ {e} ELSE m.active,
           probeQ |-> IF admit THEN Append(m.probeQ, e) ELSE m.probeQ,
           listed |-> IF admit THEN m.listed \cup {e} ELSE m.listed,
           g      |-> IF admit THEN [g1 EXCEPT ![e].admitAge = 0] ELSE g1]

SetMgr(m) == /\ h' = m.h /\ active' = m.active /\ probeQ' = m.probeQ /\ listed' = m.listed /\ g' = m.g
             /\ UNCHANGED <<created, infl, up, reg, staleQ>>

Idle == \A c \in Calls : infl[c] = NoCall
CheckEp(e, rc) == e \in created /\ e \in reg /\ (Overlap \/ Idle) /\ SetMgr(StepEp(Mgr, e, rc))

RECURSIVE Pass(_, _, _)
Pass(m, e, rc) == IF e > N THEN m ELSE Pass(StepEp(m, e, rc[e]), e + 1, rc)
CheckAll(rc) == (Overlap \/ Idle) /\ SetMgr(Pass(Mgr, 1, rc))

Sat(x, cap) == Min(x, cap)
Advance(d) ==
  /\ Idle
  /\ h' = [e \in Eps |-> [h[e] EXCEPT !.aSucc  = Sat(@ + d, FailInterval),
                                       !.aBlock = Sat(@ + d, TryInterval),
                                       !.aCheck = Sat(@ + d, CheckTime),
                                       !.aKeep  = IF KeepAlive THEN Sat(@ + d, KeepInterval) ELSE 0]]
  /\ g' = [e \in Eps |-> [g[e] EXCEPT !.runAge   = IF g[e].run = 0 THEN 0 ELSE Sat(@ + d, FailInterval),
                                       !.admitAge = Sat(@ + d, TryInterval)]]
  /\ UNCHANGED <<created, active, probeQ, listed, infl, up, reg, staleQ>>

(* The environment: the server of endpoint e stops listening (its connections are closed, the client notices) or  *)
(* listens again.  Between calls only: a call in flight on a server that goes away simply never gets its reply.   *)
SetUp(e, b) ==
  /\ Faults /\ Idle
  /\ up[e] # b
  /\ up' = [up EXCEPT ![e] = b]
  /\ UNCHANGED <<h, created, active, probeQ, listed, infl, g, reg, staleQ>>

(* The refresher (globalManager.updateEndpoints -> doFresh -> refreshEndpoints -> updateActiveEp) asks the registry   *)
(* again and gets the answer x.  As coded:                                                                          *)
(*   - an answer whose active list is the installed one (in any order: it is sorted by host first; the same         *)
(*     endpoints with another weight or grid are NOT the installed list: x.v) or is empty changes nothing at all    *)
(*     (not even the adapter cache is cleaned);                                                                     *)
(*   - otherwise the active list is installed; adapters of endpoints that are in neither list are closed and        *)
(*     forgotten (their health record is gone: should the registry name such an endpoint again it starts afresh,    *)
(*     in rotation -- the registry, not a probe, brought it back; C15 is silent about that); adapters of endpoints  *)
(*     on the INACTIVE list are kept with their health record, out of rotation and out of the status check;         *)
(*   - rotation (activeEp and three new selectors) is rebuilt: every endpoint of the new active list EXCEPT those   *)
(*     whose adapter is blocked.  The probe queue, its guard set and every health record and timestamp of an        *)
(*     endpoint that stays listed are left alone: a blocked endpoint stays blocked and keeps its probe schedule.    *)
(* An endpoint that leaves the active list while an admission for its probe is queued: C15 does not speak about        *)
(* endpoints the registry has withdrawn, so with Stale = FALSE such answers are left out.  With Stale = TRUE they are    *)
(* followed as coded: nothing looks at the probe queue, the admission stays; if the adapter is thrown out of the cache   *)
(* the queue keeps the closed object (staleQ).  Never modelled: an adapter thrown out while a call is in flight on it.   *)
Leaving(x) == (reg \cup created) \ x.a
Thrown(x) == created \ (x.a \cup x.i)
RefreshOK(x) ==
  /\ x \in Answers
  /\ Overlap \/ Idle
  /\ \A e \in Leaving(x) : Stale \/ (e \notin listed /\ \A c \in Calls : infl[c].ep # e)
  /\ \A e \in Thrown(x) : \A c \in Calls : infl[c].ep = e => infl[c].orph
Refresh(x) ==
  /\ RefreshOK(x)
  /\ IF (x.a = reg /\ ~x.v) \/ x.a = {}
     THEN UNCHANGED vars
     ELSE LET kept == created \cap (x.a \cup x.i)
              h1   == [e \in Eps |-> IF e \in created \ kept THEN H0 ELSE h[e]]
          IN /\ reg' = x.a
             /\ created' = kept
             /\ h' = h1
             /\ g' = [e \in Eps |-> IF e \in created \ kept THEN G0 ELSE g[e]]
             /\ active' = {e \in x.a : h1[e].status}
             /\ staleQ' = staleQ \cup (listed \cap Thrown(x))
             /\ UNCHANGED <<probeQ, listed, infl, up>>

\* every answer a registry can give over the endpoints 1..N (for the configurations: Answers <- AllAnswers)
AllAnswers == {x \in [a : SUBSET Eps, i : SUBSET Eps, v : BOOLEAN] : x.a \cap x.i = {}}
ActiveAnswers == {[a |-> A, i |-> {}, v |-> V] : A \in SUBSET Eps, V \in BOOLEAN}          \* ... that has no inactive list
NoAnswers == {}
AllEps == Eps

Next == \/ \E c \in Calls, e \in Eps, k \in Kinds : Select(c, e, k)
        \/ \E c \in Calls, e \in Eps, k \in Kinds : Refused(c, e, k)
        \/ \E c \in Calls, ok \in BOOLEAN : CallDone(c, ok)
        \/ \E e \in Eps, b \in BOOLEAN : SetUp(e, b)
        \/ \E e \in Eps, rc \in Reconn : CheckEp(e, rc)
        \/ \E x \in Answers : Refresh(x)
        \/ \E d \in Steps : Advance(d)
Spec == Init /\ [][Next]_vars

SendBound == \A e \in Eps : h[e].send <= MaxSend

----
(* Structure *)
Range(s) == {s[i] : i \in 1..Len(s)}
TypeOK ==
  /\ h \in [Eps -> [status : BOOLEAN, fail : Nat, lastFail : 0..FailN, send : Nat,
                    aSucc : 0..FailInterval, aBlock : 0..TryInterval, aCheck : 0..CheckTime, aKeep : 0..KeepInterval]]
  /\ created \subseteq Eps /\ active \subseteq Eps /\ listed \subseteq Eps
  /\ probeQ \in Seq(Eps)
  /\ \A c \in Calls : infl[c] = NoCall \/ (infl[c].ep \in Eps /\ infl[c].probe \in BOOLEAN /\ infl[c].orph \in BOOLEAN)
  /\ up \in [Eps -> BOOLEAN]
  /\ reg \subseteq Eps /\ reg # {} /\ staleQ \subseteq listed
  /\ Stale \/ (active \subseteq reg /\ listed \subseteq reg /\ staleQ = {} /\ \A c \in Calls : infl[c] = NoCall \/ (infl[c].ep \in reg /\ ~infl[c].orph))
  /\ \A e \in Eps \ created : h[e] = H0 /\ g[e] = G0                    \* no adapter, no record
\* every endpoint in rotation is one the registry names -- and therefore one the status check visits.  As coded (Stale = TRUE) this
\* does NOT hold: a probe admitted before the registry withdrew the endpoint is still carried out, and its success puts the endpoint
\* into rotation (addAliveEp) where it stays, unsupervised, until the registry's list changes again.
RotationIsRegistered == active \subseteq reg
RotationIsHealthy == active \cap reg = {e \in reg : h[e].status \/ (Stale /\ e \in active)}   \* of the registry's endpoints: blocked <=> out of rotation
                                                                     \* (as coded with Stale: a late orphan probe may put a blocked one back)
ProbeQueueSingle == /\ Range(probeQ) = listed                            \* an admitted endpoint is queued once
                    /\ Len(probeQ) = Cardinality(listed)
\* Holds when checks do not overlap calls.  With Overlap it does NOT hold (TLC: 12 steps): an admission left
\* unconsumed for 30 s is popped by a caller, the check running during that probe call admits the endpoint
\* again, the probe succeeds, and the healthy endpoint is still queued for a "probe" (whose success resets its
\* counters once more and adds it to activeEp a second time).  C15 does not speak about this; recorded as an
\* observation, not as a violation.
ProbesTargetBlocked == /\ \A e \in listed \ staleQ : ~h[e].status
                       /\ \A c \in Calls : (infl[c].probe /\ ~infl[c].orph) => ~h[infl[c].ep].status
FailuresCounted == \A e \in Eps : h[e].fail <= h[e].send                 \* the ratio is a ratio (one call slot)

(* C15, clause by clause *)
\* taken out of rotation although the registry still names it / a BLOCKED endpoint is back in rotation (an endpoint the
\* registry names for the first time, or again after its record was dropped, JOINS: it was not blocked)
TakenOut(e) == e \in active /\ e \notin active' /\ e \in reg'
Returned(e) == ~h[e].status /\ e \notin active /\ e \in active'

\* "an endpoint with no failed calls is never taken out of rotation"
\* (g' and not g: with keep-alive configured the status check that takes the endpoint out may itself add a failure -- its
\*  ping could not be sent; without keep-alive a status check leaves `since` alone and g' = g here)
NeverOutWithoutFailure == [][\A e \in Eps : TakenOut(e) => g'[e].since >= 1]_vars
\* "none is taken out with fewer than two failures since it was last (re)instated"
NeverOutBelowTwoFailures == [][\A e \in Eps : TakenOut(e) => g'[e].since >= OverN]_vars
\* "an endpoint whose calls all fail (at least 5 in a row, for at least 5 seconds) is out of normal rotation
\*  after the next status check as long as another endpoint is active"
AllFailing(e) == g[e].run >= FailN /\ g[e].runAge >= FailInterval
AllFailingLeaves ==
  [][\A e \in Eps : \A rc \in Reconn :
       (CheckEp(e, rc) /\ AllFailing(e) /\ active \ {e} # {}) => e \notin active']_vars
\* stronger than C15 asks (no "as long as another endpoint is active"): decidable with one endpoint
AllFailingLeavesAlways ==
  [][\A e \in Eps : \A rc \in Reconn : (CheckEp(e, rc) /\ AllFailing(e)) => e \notin active']_vars
\* "a blocked endpoint is then probed with a single call no more often than every 30 seconds" (admissions)
ProbeSpacing == [][\A e \in Eps : (e \notin listed /\ e \in listed') => g[e].admitAge >= TryInterval]_vars
ProbeIsOneCall ==   \* a probe call exists only by consuming one admission
  [][\A c \in Calls : (infl[c] = NoCall /\ infl'[c].probe) =>
        (probeQ # <<>> /\ infl'[c].ep = Head(probeQ) /\ probeQ' = Tail(probeQ) /\ listed' = listed \ {Head(probeQ)})]_vars
\* "returns to rotation as soon as a probe succeeds and stays blocked otherwise"
ProbeDecides ==
  [][\A c \in Calls : \A ok \in BOOLEAN :
       (CallDone(c, ok) /\ infl[c].probe /\ ~infl[c].orph /\ ~h[infl[c].ep].status) =>
          IF ok THEN infl[c].ep \in active' /\ h'[infl[c].ep].status
                ELSE infl[c].ep \notin active' /\ ~h'[infl[c].ep].status]_vars
\* ... and a probe that cannot even be sent is a probe that did not succeed
RefusedProbeStaysBlocked ==
  [][\A c \in Calls : \A e \in Eps : \A k \in Kinds :
       (Refused(c, e, k) /\ IsProbe /\ ~h[e].status) => (e \notin active' /\ ~h'[e].status)]_vars
\* a call that cannot be sent is a failed call of its endpoint (the ghosts the clauses above are written over see it),
\* and it is attempted: the endpoint's send counter moves although nothing can be in flight
RefusedIsAFailedCall ==
  [][\A c \in Calls : \A e \in Eps : \A k \in Kinds :
       Refused(c, e, k) => (g'[e].since >= 1 /\ g'[e].run >= 1 /\ h'[e].send = h[e].send + 1 /\ h'[e].fail = h[e].fail + 1)]_vars
OnlyProbeReturns ==
  [][\A e \in Eps : Returned(e) => \E c \in Calls : infl[c].ep = e /\ infl[c].probe /\ CallDone(c, TRUE)]_vars
(* The same clauses as a value: which of them the step (unprimed -> primed) breaks.  Gen_ / Plan_Failover record it   *)
(* with every step, so that a behaviour the real code FOLLOWS and TLC marks is a reproduced violation.            *)
StepBreaks(isCheck) ==
     {"endpoint-left-rotation-with-fewer-than-two-failures" : e \in {x \in Eps : TakenOut(x) /\ g'[x].since < OverN}}
  \cup {"all-failing-endpoint-still-in-rotation-after-status-check" :
           e \in {x \in Eps : isCheck /\ x \in created /\ x \in reg /\ AllFailing(x) /\ x \in active /\ active \ {x} # {} /\ x \in active'}}
  \cup {"probe-admitted-less-than-30s-after-the-previous" : e \in {x \in Eps : x \notin listed /\ x \in listed' /\ g[x].admitAge < TryInterval}}
  \cup {"blocked-endpoint-returned-without-successful-probe" :
           e \in {x \in Eps : Returned(x) /\ ~\E c \in Calls : infl[c].ep = x /\ infl[c].probe /\ infl'[c] = NoCall}}
  \* only with Stale (as coded; C15 is silent about endpoints the registry has withdrawn -- reported as observations):
  \cup {"withdrawn-endpoint-put-into-rotation-by-a-probe-admitted-earlier" : e \in {x \in Eps : x \notin active /\ x \in active' /\ x \notin reg'}}
  \cup {"all-failing-withdrawn-endpoint-stays-in-rotation-unchecked" :
           e \in {x \in Eps : isCheck /\ x \in created /\ x \notin reg /\ AllFailing(x) /\ x \in active /\ active \ {x} # {} /\ x \in active'}}

\* "stays blocked otherwise", across registry refreshes: whatever the registry answers, an endpoint that stays on the active list
\* keeps its place (in or out of rotation), its health record and its probe schedule; healthy ones stay, new ones join; an
\* endpoint that comes back from the inactive list is in rotation iff it is not blocked
RefreshRespectsHealth ==
  [][\A x \in Answers : Refresh(x) =>
        /\ \A e \in reg \cap reg' : (e \in active' <=> e \in active) /\ h'[e] = h[e] /\ g'[e] = g[e]
        /\ probeQ' = probeQ /\ listed' = listed
        /\ \A e \in reg' \ reg : e \in active' <=> h[e].status
        /\ (x.a = {} \/ (x.a = reg /\ ~x.v)) => UNCHANGED vars]_vars

\* "when every endpoint is blocked calls are still attempted on some endpoint instead of failing outright"
CallsGoSomewhere == Cands # {} /\ (active = {} /\ ~IsProbe => Cands = reg)
====
