---- MODULE Failover ----
(***************************************************************************************************)
(* C15 -- failover of a servant whose endpoints come from a registry.                              *)
(*                                                                                                 *)
(* Per endpoint a health record (AdapterProxy: status, failCount, lastFailCount, sendCount and the *)
(* three timestamps), per servant a manager (endpointManager: the endpoints in rotation, the queue *)
(* of endpoints to probe and the set guarding it against duplicates).  One action per public step  *)
(* of the implementation:                                                                          *)
(*   Select(c, e, k)   SelectAdapterProxy + AdapterProxy.Send: call slot c is routed to endpoint e *)
(*   CallDone(c, ok)   the call of slot c ends (reply / timeout), with reinstatement after a good  *)
(*                     probe                                                                       *)
(*   CheckEp(e, rc)    checkActive + the manager's reaction for ONE endpoint                       *)
(*   CheckAll(rc)      one whole pass of checkStatus (CheckEp for every endpoint, registry order)  *)
(*   Advance(d)        d seconds pass                                                              *)
(*   Refused(c, e, k)  SelectAdapterProxy + AdapterProxy.Send on an endpoint that does not listen:    *)
(*                     the request cannot be sent (dial refused), the call fails at once              *)
(*   SetUp(e, b)       environment: the server of endpoint e stops listening / listens again          *)
(*                                                                                                 *)
(* Time.  The code compares `now - t >= threshold` only, so the record keeps AGES (now - t), each  *)
(* saturating at the one threshold it is compared with (absolute timestamps and 1-second steps     *)
(* make the state space explode: > 10^8 states).  A timestamp that was never written (0) is an age *)
(* at its saturation value.  Time does not advance while a call is in flight: a call lasts at most *)
(* its timeout (<= 3 s), below the granularity of Steps.                                           *)
(*                                                                                                 *)
(* Ghost variables (g) do not influence any action; the properties of C15 are written over them    *)
(* and over steps of `active`, never over the code's own counters.                                 *)
(***************************************************************************************************)
EXTENDS Integers, Sequences, FiniteSets, TLC

CONSTANTS N,        \* number of endpoints returned by the registry; endpoint i is the i-th in registry (host) order
          Calls,    \* call slots (concurrent callers)
          Kinds,    \* routing kinds of a call: "rr" (round robin), "mod", "ch" (hash routed); no effect on the state
          Steps,    \* time increments in seconds
          MaxSend,  \* bound on sendCount (state constraint of the exhaustive configurations)
          Reconn,   \* results ReConnect may have inside checkActive (subset of BOOLEAN)
          Overlap,  \* TRUE: the status check may run while a call is in flight (the real checker is a
                    \* separate goroutine); FALSE: it runs between calls only (what the replay driver does)
          KeepAlive,   \* TRUE: client keep-alive is configured (keep-alive-interval = KeepInterval s; the default is off):
                       \* checkStatus first sends a one-way tars_ping on every adapter whose last ping is that old
          PingNeutral, \* FALSE: as coded, a ping that could be SENT is booked as a sent and successful call
                       \* (sendAdd, successAdd); TRUE: the candidate repair, a sent ping leaves the health record alone
          Faults       \* TRUE: endpoints may stop listening and come back (SetUp): one more way for a call to fail --
                       \* the request cannot even be sent (connection refused), doInvoke's `adp.Send` error branch

Eps == 1..N

\* tars/setting.go
FailN        == 5    \* fainN
FailInterval == 5    \* failInterval
CheckTime    == 60   \* checkTime
OverN        == 2    \* overN, with failRatio 0.5 written as 2 * fail >= send
TryInterval  == 30   \* tryTimeInterval
KeepInterval == 5    \* the keep-alive interval the replay configures (5000 ms): a multiple of the smallest time step

VARIABLES h,        \* [Eps -> health record]
          created,  \* endpoints that have an AdapterProxy (made lazily by the first selection)
          active,   \* endpoints in rotation (activeEp and the three selectors)
          probeQ,   \* checkAdapter: queue of endpoints admitted for one probe call
          listed,   \* checkAdapterList: endpoints currently in probeQ
          infl,     \* [Calls -> in-flight call or NoCall]
          g,        \* ghosts, [Eps -> [since, run, runAge, admitAge]]
          up        \* environment, [Eps -> BOOLEAN]: the endpoint's server is listening (a connection can be made)
vars == <<h, created, active, probeQ, listed, infl, g, up>>

Min(a, b) == IF a < b THEN a ELSE b
NoCall == [ep |-> 0, probe |-> FALSE]

H0 == [status |-> TRUE, fail |-> 0, lastFail |-> 0, send |-> 0,
       aSucc |-> FailInterval, aBlock |-> TryInterval, aCheck |-> CheckTime,
       aKeep |-> IF KeepAlive THEN KeepInterval ELSE 0]          \* age of lastKeepAliveTime; not tracked without keep-alive
\* since:    failed calls since the endpoint was last (re)instated, saturating at OverN
\* run:      length of the current run of failed calls (no success in between), saturating at FailN
\* runAge:   seconds since the first failure of that run, saturating at FailInterval
\* admitAge: seconds since the endpoint was last admitted for a probe, saturating at TryInterval
G0 == [since |-> 0, run |-> 0, runAge |-> 0, admitAge |-> TryInterval]

Init == /\ h = [e \in Eps |-> H0]
        /\ created = {}
        /\ active = Eps
        /\ probeQ = <<>>
        /\ listed = {}
        /\ infl = [c \in Calls |-> NoCall]
        /\ g = [e \in Eps |-> G0]
        /\ up = [e \in Eps |-> TRUE]

----
(* SelectAdapterProxy: a queued probe candidate first, then the strategy over the endpoints in     *)
(* rotation (any of them: cursors and hash codes are not modelled here, see Selector / HashRing),  *)
(* and any registry endpoint when nothing is in rotation.                                          *)
IsProbe == probeQ # <<>>
Cands == IF IsProbe THEN {Head(probeQ)} ELSE IF active # {} THEN active ELSE Eps

Select(c, e, k) ==
  /\ infl[c] = NoCall
  /\ e \in Cands
  /\ up[e]
  /\ k \in Kinds
  /\ infl' = [infl EXCEPT ![c] = [ep |-> e, probe |-> IsProbe]]
  /\ probeQ' = IF IsProbe THEN Tail(probeQ) ELSE probeQ
  /\ listed' = IF IsProbe THEN listed \ {e} ELSE listed
  /\ created' = created \cup {e}
  /\ h' = [h EXCEPT ![e].send = @ + 1]                      \* sendAdd in AdapterProxy.Send
  /\ UNCHANGED <<active, g, up>>

(* A failed call on a health record (failAdd) and on the ghosts.                                   *)
FailRec(r) == [r EXCEPT !.lastFail = Min(FailN, @ + 1), !.fail = @ + 1]
FailGhost(x) == [x EXCEPT !.since = Min(OverN, @ + 1), !.run = Min(FailN, @ + 1), !.runAge = IF x.run = 0 THEN 0 ELSE @]

(* The same selection on an endpoint whose server does not listen: AdapterProxy.Send counts the    *)
(* request (sendAdd), the transport cannot connect, doInvoke books the failure (failAdd) and       *)
(* returns the error: Select and a failing CallDone in one step, no call is ever in flight.  A      *)
(* refused probe consumes its admission like any probe and leaves the endpoint blocked.            *)
Refused(c, e, k) ==
  /\ infl[c] = NoCall
  /\ e \in Cands
  /\ ~up[e]
  /\ k \in Kinds
  /\ probeQ' = IF IsProbe THEN Tail(probeQ) ELSE probeQ
  /\ listed' = IF IsProbe THEN listed \ {e} ELSE listed
  /\ created' = created \cup {e}
  /\ h' = [h EXCEPT ![e] = FailRec([h[e] EXCEPT !.send = @ + 1])]
  /\ g' = [g EXCEPT ![e] = FailGhost(g[e])]
  /\ UNCHANGED <<active, infl, up>>

(* doInvoke after the send: a reply is successAdd (and, for a probe, reset + addAliveEp); a        *)
(* timeout / cancelled context / send error is failAdd.                                            *)
CallDone(c, ok) ==
  /\ infl[c] # NoCall
  /\ LET e  == infl[c].ep
         re == infl[c].probe /\ ok
         r1 == IF ok THEN [h[e] EXCEPT !.aSucc = 0, !.lastFail = 0]
                     ELSE FailRec(h[e])
         r2 == IF re THEN [r1 EXCEPT !.send = 0, !.fail = 0, !.lastFail = 0, !.aBlock = 0, !.aCheck = 0, !.aKeep = 0, !.status = TRUE]
                     ELSE r1
     IN /\ h' = [h EXCEPT ![e] = r2]
        /\ active' = IF re THEN active \cup {e} ELSE active
        /\ g' = [g EXCEPT ![e] = [@ EXCEPT
                   !.since  = IF re THEN 0 ELSE IF ok THEN @ ELSE Min(OverN, @ + 1),
                   !.run    = IF ok THEN 0 ELSE Min(FailN, @ + 1),
                   !.runAge = IF ok \/ g[e].run = 0 THEN 0 ELSE @]]
  /\ infl' = [infl EXCEPT ![c] = NoCall]
  /\ UNCHANGED <<created, probeQ, listed, up>>

----
(* AdapterProxy.checkActive on a record; rc is what ReConnect would return.                        *)
CheckOne(r, rc) ==
  IF r.status
  THEN IF r.aSucc >= FailInterval /\ r.lastFail >= FailN
       THEN [rec |-> [r EXCEPT !.status = FALSE, !.aBlock = 0], first |-> TRUE, need |-> FALSE]
       ELSE IF r.aCheck >= CheckTime
            THEN IF r.fail >= OverN /\ 2 * r.fail >= r.send
                 THEN [rec |-> [r EXCEPT !.status = FALSE, !.aBlock = 0], first |-> TRUE, need |-> FALSE]
                 ELSE [rec |-> [r EXCEPT !.aBlock = 0], first |-> FALSE, need |-> FALSE]
            ELSE [rec |-> r, first |-> FALSE, need |-> FALSE]
  ELSE IF r.aBlock >= TryInterval
       THEN [rec |-> [r EXCEPT !.aBlock = 0], first |-> FALSE, need |-> rc]
       ELSE [rec |-> r, first |-> FALSE, need |-> FALSE]

(* AdapterProxy.doKeepAlive, called by checkStatus before checkActive when keep-alive is configured: a one-way    *)
(* ping, at most one per KeepInterval.  A ping that cannot be sent (u = FALSE: the server does not listen) is     *)
(* booked as a sent and failed request, before and after the repair.                                              *)
PingDue(r) == KeepAlive /\ r.aKeep >= KeepInterval
Ping(r, u) ==
  IF ~PingDue(r) THEN r
  ELSE IF ~u THEN FailRec([r EXCEPT !.aKeep = 0, !.send = @ + 1])
  ELSE IF PingNeutral THEN [r EXCEPT !.aKeep = 0]
  ELSE [r EXCEPT !.aKeep = 0, !.send = @ + 1, !.aSucc = 0, !.lastFail = 0]

(* The part of the manager's state checkStatus works on, as a value, so that one endpoint's step   *)
(* and the whole pass are the same function.                                                       *)
Mgr == [h |-> h, active |-> active, probeQ |-> probeQ, listed |-> listed, g |-> g]

StepEp(m, e, rc) ==
  IF e \notin created THEN m
  ELSE LET c     == CheckOne(Ping(m.h[e], up[e]), rc)
           admit == c.need /\ e \notin m.listed
           g1    == IF PingDue(m.h[e]) /\ ~up[e] THEN [m.g EXCEPT ![e] = FailGhost(@)] ELSE m.g   \* a ping that cannot be sent is a failed call
       IN [h      |-> [m.h EXCEPT ![e] = c.rec],
           active |-> IF c.first THEN m.active \ {e} ELSE m.active,
           probeQ |-> IF admit THEN Append(m.probeQ, e) ELSE m.probeQ,
           listed |-> IF admit THEN m.listed \cup {e} ELSE m.listed,
           g      |-> IF admit THEN [g1 EXCEPT ![e].admitAge = 0] ELSE g1]

SetMgr(m) == /\ h' = m.h /\ active' = m.active /\ probeQ' = m.probeQ /\ listed' = m.listed /\ g' = m.g
             /\ UNCHANGED <<created, infl, up>>

Idle == \A c \in Calls : infl[c] = NoCall
CheckEp(e, rc) == e \in created /\ (Overlap \/ Idle) /\ SetMgr(StepEp(Mgr, e, rc))

RECURSIVE Pass(_, _, _)
Pass(m, e, rc) == IF e > N THEN m ELSE Pass(StepEp(m, e, rc[e]), e + 1, rc)
CheckAll(rc) == (Overlap \/ Idle) /\ SetMgr(Pass(Mgr, 1, rc))

Sat(x, cap) == Min(x, cap)
Advance(d) ==
  /\ Idle
  /\ h' = [e \in Eps |-> [h[e] EXCEPT !.aSucc  = Sat(@ + d, FailInterval),
                                       !.aBlock = Sat(@ + d, TryInterval),
                                       !.aCheck = Sat(@ + d, CheckTime),
                                       !.aKeep  = IF KeepAlive THEN Sat(@ + d, KeepInterval) ELSE 0]]
  /\ g' = [e \in Eps |-> [g[e] EXCEPT !.runAge   = IF g[e].run = 0 THEN 0 ELSE Sat(@ + d, FailInterval),
                                       !.admitAge = Sat(@ + d, TryInterval)]]
  /\ UNCHANGED <<created, active, probeQ, listed, infl, up>>

(* The environment: the server of endpoint e stops listening (its connections are closed, the client notices) or  *)
(* listens again.  Between calls only: a call in flight on a server that goes away simply never gets its reply.   *)
SetUp(e, b) ==
  /\ Faults /\ Idle
  /\ up[e] # b
  /\ up' = [up EXCEPT ![e] = b]
  /\ UNCHANGED <<h, created, active, probeQ, listed, infl, g>>

Next == \/ \E c \in Calls, e \in Eps, k \in Kinds : Select(c, e, k)
        \/ \E c \in Calls, e \in Eps, k \in Kinds : Refused(c, e, k)
        \/ \E c \in Calls, ok \in BOOLEAN : CallDone(c, ok)
        \/ \E e \in Eps, b \in BOOLEAN : SetUp(e, b)
        \/ \E e \in Eps, rc \in Reconn : CheckEp(e, rc)
        \/ \E d \in Steps : Advance(d)
Spec == Init /\ [][Next]_vars

SendBound == \A e \in Eps : h[e].send <= MaxSend

----
(* Structure *)
Range(s) == {s[i] : i \in 1..Len(s)}
TypeOK ==
  /\ h \in [Eps -> [status : BOOLEAN, fail : Nat, lastFail : 0..FailN, send : Nat,
                    aSucc : 0..FailInterval, aBlock : 0..TryInterval, aCheck : 0..CheckTime, aKeep : 0..KeepInterval]]
  /\ created \subseteq Eps /\ active \subseteq Eps /\ listed \subseteq Eps
  /\ probeQ \in Seq(Eps)
  /\ \A c \in Calls : infl[c] = NoCall \/ (infl[c].ep \in Eps /\ infl[c].probe \in BOOLEAN)
  /\ up \in [Eps -> BOOLEAN]
RotationIsHealthy == \A e \in Eps : (e \in active) <=> h[e].status      \* blocked <=> out of rotation
ProbeQueueSingle == /\ Range(probeQ) = listed                            \* an admitted endpoint is queued once
                    /\ Len(probeQ) = Cardinality(listed)
\* Holds when checks do not overlap calls.  With Overlap it does NOT hold (TLC: 12 steps): an admission left
\* unconsumed for 30 s is popped by a caller, the check running during that probe call admits the endpoint
\* again, the probe succeeds, and the healthy endpoint is still queued for a "probe" (whose success resets its
\* counters once more and adds it to activeEp a second time).  C15 does not speak about this; recorded as an
\* observation, not as a violation.
ProbesTargetBlocked == /\ \A e \in listed : ~h[e].status
                       /\ \A c \in Calls : infl[c].probe => ~h[infl[c].ep].status
FailuresCounted == \A e \in Eps : h[e].fail <= h[e].send                 \* the ratio is a ratio (one call slot)

(* C15, clause by clause *)
TakenOut(e) == e \in active /\ e \notin active'
Returned(e) == e \notin active /\ e \in active'

\* "an endpoint with no failed calls is never taken out of rotation"
\* (g' and not g: with keep-alive configured the status check that takes the endpoint out may itself add a failure -- its
\*  ping could not be sent; without keep-alive a status check leaves `since` alone and g' = g here)
NeverOutWithoutFailure == [][\A e \in Eps : TakenOut(e) => g'[e].since >= 1]_vars
\* "none is taken out with fewer than two failures since it was last (re)instated"
NeverOutBelowTwoFailures == [][\A e \in Eps : TakenOut(e) => g'[e].since >= OverN]_vars
\* "an endpoint whose calls all fail (at least 5 in a row, for at least 5 seconds) is out of normal rotation
\*  after the next status check as long as another endpoint is active"
AllFailing(e) == g[e].run >= FailN /\ g[e].runAge >= FailInterval
AllFailingLeaves ==
  [][\A e \in Eps : \A rc \in Reconn :
       (CheckEp(e, rc) /\ AllFailing(e) /\ active \ {e} # {}) => e \notin active']_vars
\* stronger than C15 asks (no "as long as another endpoint is active"): decidable with one endpoint
AllFailingLeavesAlways ==
  [][\A e \in Eps : \A rc \in Reconn : (CheckEp(e, rc) /\ AllFailing(e)) => e \notin active']_vars
\* "a blocked endpoint is then probed with a single call no more often than every 30 seconds" (admissions)
ProbeSpacing == [][\A e \in Eps : (e \notin listed /\ e \in listed') => g[e].admitAge >= TryInterval]_vars
ProbeIsOneCall ==   \* a probe call exists only by consuming one admission
  [][\A c \in Calls : (infl[c] = NoCall /\ infl'[c].probe) =>
        (probeQ # <<>> /\ infl'[c].ep = Head(probeQ) /\ probeQ' = Tail(probeQ) /\ listed' = listed \ {Head(probeQ)})]_vars
\* "returns to rotation as soon as a probe succeeds and stays blocked otherwise"
ProbeDecides ==
  [][\A c \in Calls : \A ok \in BOOLEAN :
       (CallDone(c, ok) /\ infl[c].probe /\ ~h[infl[c].ep].status) =>
          IF ok THEN infl[c].ep \in active' /\ h'[infl[c].ep].status
                ELSE infl[c].ep \notin active' /\ ~h'[infl[c].ep].status]_vars
\* ... and a probe that cannot even be sent is a probe that did not succeed
RefusedProbeStaysBlocked ==
  [][\A c \in Calls : \A e \in Eps : \A k \in Kinds :
       (Refused(c, e, k) /\ IsProbe /\ ~h[e].status) => (e \notin active' /\ ~h'[e].status)]_vars
\* a call that cannot be sent is a failed call of its endpoint (the ghosts the clauses above are written over see it),
\* and it is attempted: the endpoint's send counter moves although nothing can be in flight
RefusedIsAFailedCall ==
  [][\A c \in Calls : \A e \in Eps : \A k \in Kinds :
       Refused(c, e, k) => (g'[e].since >= 1 /\ g'[e].run >= 1 /\ h'[e].send = h[e].send + 1 /\ h'[e].fail = h[e].fail + 1)]_vars
OnlyProbeReturns ==
  [][\A e \in Eps : Returned(e) => \E c \in Calls : infl[c].ep = e /\ infl[c].probe /\ CallDone(c, TRUE)]_vars
(* The same clauses as a value: which of them the step (unprimed -> primed) breaks.  Gen_ / Plan_Failover record it   *)
(* with every step, so that a behaviour the real code FOLLOWS and TLC marks is a reproduced violation.            *)
StepBreaks(isCheck) ==
     {"endpoint-left-rotation-with-fewer-than-two-failures" : e \in {x \in Eps : TakenOut(x) /\ g'[x].since < OverN}}
  \cup {"all-failing-endpoint-still-in-rotation-after-status-check" :
           e \in {x \in Eps : isCheck /\ x \in created /\ AllFailing(x) /\ x \in active /\ active \ {x} # {} /\ x \in active'}}
  \cup {"probe-admitted-less-than-30s-after-the-previous" : e \in {x \in Eps : x \notin listed /\ x \in listed' /\ g[x].admitAge < TryInterval}}
  \cup {"blocked-endpoint-returned-without-successful-probe" :
           e \in {x \in Eps : Returned(x) /\ ~\E c \in Calls : infl[c].ep = x /\ infl[c].probe /\ infl'[c] = NoCall}}

\* "when every endpoint is blocked calls are still attempted on some endpoint instead of failing outright"
CallsGoSomewhere == Cands # {} /\ (active = {} /\ ~IsProbe => Cands = Eps)
====
