CONSTANTS NReq = 3  NConn = 1  Shapes <- ShapesTriple  Pools = {1, 2}  HTs = {TRUE}
  TimerAfterDecode = TRUE  KF_BlankTimeoutReply = FALSE  KF_PacketTypeSetLate = FALSE  KF_TupDropsResult = FALSE
  Filts = {"none"}  VG_PingThroughFilter = FALSE
SPECIFICATION Spec
INVARIANTS AtMostOnce NoStrayReply SafeSoFar AtQuiescence ExecutedAtMostOnce
