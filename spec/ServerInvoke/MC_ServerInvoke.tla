---- MODULE MC_ServerInvoke ----
EXTENDS ServerInvoke
Sh(v, p, f, t, c, k, m) == [ver |-> v, pt |-> p, fn |-> f, tmo |-> t, cls |-> c, code |-> k, msg |-> m]
Code7 == <<0, 0, 0, 7>>
\* every combination the statement quantifies over, one request at a time
FnCls == {<<"tars_ping", "-">>, <<"ok", "-">>, <<"note", "-">>, <<"fail", "-">>, <<"nosuch", "-">>,
          <<"slow", "short">>, <<"slow", "over">>, <<"slow", "near">>}
AllShapes == {Sh(v, p, fc[1], t, fc[2], k, IF fc[1] = "fail" THEN <<101, 114>> ELSE <<>>) :
                v \in {TARSV, TUPV, JSONV}, p \in {NORMAL, ONEWAY}, fc \in FnCls, t \in {"zero", "ample", "elapsed"}, k \in {Zero4, Code7}}
ShapesSingle == {s \in AllShapes : (s.fn # "fail" => s.code = Zero4) /\ (s.tmo = "zero" => s.fn \in {"ok", "slow"})}
\* what matters for the interleaving of several requests: one-way or not, fast / failing / over-long / racy, queue timeout
ShapesPair == {s \in AllShapes : s.ver \in {TARSV, TUPV} /\ s.tmo # "zero" /\ s.fn \in {"tars_ping", "ok", "fail", "slow"} /\ s.cls # "short"
                                 /\ (s.fn = "fail") = (s.code = Code7) /\ (s.tmo = "elapsed" => s.fn = "ok") /\ (s.ver = TUPV => s.fn \in {"fail", "slow"} /\ s.cls # "near")}
ShapesTriple == {s \in ShapesPair : s.ver = TARSV /\ s.fn \in {"ok", "slow"} /\ (s.tmo = "elapsed" => s.pt = NORMAL)}
====
