---- MODULE Oracle_ServerInvoke ----
(* Batch oracle for C10: records of harness/cmd/srvdrive, one per (round, connection):                 *)
(*   cfg {proto, pool, ht, filt, wctx}, sends [{k, ver, pt, id, fn, tmo, cls, code, msg, impl, filt}], recvs [frame bytes] *)
(* Every frame that came back is decoded HERE, by the strict schema-directed reference decoder         *)
(* (TarsSchema!DecTop with the schemas of requestf.ResponsePacket / RequestPacket extracted from the   *)
(* IDL), attributed to the request whose id it carries, and judged by ServerInvoke!Faults.             *)
EXTENDS TarsSchema, Json
VARIABLE x
SI == INSTANCE ServerInvoke WITH NReq <- 0, NConn <- 0, Shapes <- {}, Pools <- {}, HTs <- {}, TimerAfterDecode <- TRUE,
        KF_BlankTimeoutReply <- FALSE, KF_PacketTypeSetLate <- FALSE, KF_TupDropsResult <- FALSE, Filts <- {}, VG_PingThroughFilter <- FALSE,
        cfg <- x, reqs <- x, unread <- x, queue <- x, worker <- x, hpc <- x, ipc <- x, fired <- x, cancelled <- x,
        rspLocal <- x, rspVar <- x, out <- x, ctxPt <- x, impl <- x, wire <- x, answered <- x
SS == JsonDeserialize("schemas.json").structs
Recs == ndJsonDeserialize("recs.ndjson")
RSP == "requestf.ResponsePacket"
REQ == "requestf.RequestPacket"
Member(sname, v, mname) == v[CHOOSE i \in 1..Len(SS[sname]) : SS[sname][i].name = mname]

\* ---- a TUP reply has no iRet / sResultDesc member: the result travels in the status map, the way the other
\* ---- Tars implementations do it (STATUS_RESULT_CODE as decimal text, STATUS_RESULT_DESC); absent = success
KeyCode == <<83,84,65,84,85,83,95,82,69,83,85,76,84,95,67,79,68,69>>
KeyDesc == <<83,84,65,84,85,83,95,82,69,83,85,76,84,95,68,69,83,67>>
Lookup(m, key, dflt) == IF \E i \in 1..Len(m) : m[i][1] = key THEN m[CHOOSE i \in 1..Len(m) : m[i][1] = key][2] ELSE dflt
RECURSIVE Mag(_, _)
Mag(ds, acc) == IF Len(ds) = 0 THEN acc
                ELSE IF acc < 0 \/ ds[1] < 48 \/ ds[1] > 57 \/ acc > 214748363 THEN -1
                ELSE Mag(Tail(ds), acc * 10 + (ds[1] - 48))
Neg4(b) == LET c == [i \in 1..4 |-> 255 - b[i]] n == ToNat(c) IN IF n = 2147483647 THEN <<"unparseable">> ELSE U32(n + 1)
Dec4(txt) ==
  IF Len(txt) = 0 \/ Len(txt) > 11 THEN <<"unparseable">>
  ELSE IF txt[1] = 45 THEN (LET m == Mag(Tail(txt), 0) IN IF Len(txt) = 1 \/ m < 0 THEN <<"unparseable">> ELSE IF m = 0 THEN U32(0) ELSE Neg4(U32(m - 1)))
  ELSE LET m == Mag(txt, 0) IN IF m < 0 THEN <<"unparseable">> ELSE U32(m)

\* ---- frame -> abstract reply [kind, id, ver, pt, ret, desc]
Reply(f) ==
  IF Len(f) < 4 \/ ToNat(Sub(f, 1, 4)) # Len(f) THEN [kind |-> "bad"]
  ELSE LET b == SubSeq(f, 5, Len(f)) d == DecTop(SS, RSP, b, TRUE) IN
       IF d.ok THEN [kind |-> "rsp", id |-> Member(RSP, d.v, "iRequestId"), ver |-> ToNat(Member(RSP, d.v, "iVersion")),
                     pt |-> ToNat(Member(RSP, d.v, "cPacketType")), ret |-> Member(RSP, d.v, "iRet"), desc |-> Member(RSP, d.v, "sResultDesc")]
       ELSE LET e == DecTop(SS, REQ, b, TRUE) IN
            IF e.ok THEN LET st == Member(REQ, e.v, "status") IN
                         [kind |-> "req", id |-> Member(REQ, e.v, "iRequestId"), ver |-> ToNat(Member(REQ, e.v, "iVersion")),
                          pt |-> ToNat(Member(REQ, e.v, "cPacketType")),
                          ret |-> (LET t == Lookup(st, KeyCode, <<>>) IN IF t = <<>> THEN <<0, 0, 0, 0>> ELSE Dec4(t)),
                          desc |-> Lookup(st, KeyDesc, <<>>)]
            ELSE [kind |-> "bad"]
RECURSIVE Replies(_, _)
Replies(fs, acc) == IF Len(fs) = 0 THEN acc ELSE Replies(Tail(fs), Append(acc, Reply(fs[1])))

VerName(v) == CASE v = 1 -> "tars" [] v = 3 -> "tup" [] v = 5 -> "json" [] OTHER -> "other"
\* faults of one record: <<record, k, clause, situation, version>>; k = 0 for faults that belong to no request
RecFaults(i) ==
  LET rec == Recs[i]
      c == [pool |-> rec.cfg.pool, ht |-> rec.cfg.ht > 0, proto |-> rec.cfg.proto, filt |-> rec.cfg.filt, wctx |-> rec.cfg.wctx]
      ys == Replies(rec.recvs, <<>>)
      good == SelectSeq(ys, LAMBDA y : y.kind # "bad")
      ids == {rec.sends[j].id : j \in 1..Len(rec.sends)} IN
  (IF \E j \in 1..Len(ys) : ys[j].kind = "bad" THEN {<<i, 0, "undecodable-reply", "-", "-">>} ELSE {})
  \cup (IF \E j \in 1..Len(good) : good[j].id \notin ids THEN {<<i, 0, "stray-reply", "-", "-">>} ELSE {})
  \cup UNION {LET q == rec.sends[j] IN
              {<<i, q.k, fl, SI!Situation(q, c), VerName(q.ver)>> :
                 fl \in SI!Faults(q, c, SelectSeq(good, LAMBDA y : y.id = q.id), q.impl)} : j \in 1..Len(rec.sends)}
All == UNION {RecFaults(i) : i \in 1..Len(Recs)}
Bad == {t[1] : t \in All}
NReplies == LET RECURSIVE Sum(_) Sum(i) == IF i = 0 THEN 0 ELSE Len(Recs[i].recvs) + Sum(i - 1) IN Sum(Len(Recs))
ASSUME PrintT(<<"ORACLE", Len(Recs), Bad>>)
ASSUME PrintT(<<"WHY", All>>)
ASSUME PrintT(<<"FRAMES", NReplies>>)
Init == x = 0
Next == x' = x
====
