CONSTANTS NReq = 1  NConn = 1  Shapes <- ShapesSingle  Pools = {0, 1}  HTs = {FALSE, TRUE}
  TimerAfterDecode = TRUE  KF_BlankTimeoutReply = TRUE  KF_PacketTypeSetLate = FALSE  KF_TupDropsResult = FALSE
SPECIFICATION Spec
INVARIANTS IdentityEchoed
