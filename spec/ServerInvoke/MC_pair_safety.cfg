CONSTANTS NReq = 2  NConn = 2  Shapes <- ShapesPair  Pools = {0, 1, 2}  HTs = {FALSE, TRUE}
  TimerAfterDecode = TRUE  KF_BlankTimeoutReply = FALSE  KF_PacketTypeSetLate = FALSE  KF_TupDropsResult = FALSE
  Filts = {"none"}  VG_PingThroughFilter = FALSE
SPECIFICATION Spec
INVARIANTS AtMostOnce NoStrayReply SafeSoFar AtQuiescence ExecutedAtMostOnce
